/-
C10 (depth) — the process-wide reduction mode as state, and un-normalised representatives.

`Model/RationalState.lean`: `step c m op = (m', out)` is one call of the Rational / QField<Rational> API made while
`Rational::flags` is `m`; operands are the stored pairs of the live C++ objects.  The correspondence harness prints, for
every call (stand-alone cases *and* histories on live objects in which only `SetReduce`/`SetNoReduce` touch the mode),
the mode observed before and after the call, the operands' stored pairs, the stored result, and the number of
machine-level stores to `Rational::flags` during the call (hardware watchpoint); the driver compares all of it with `step`.

* frame: no call except `SetReduce`/`SetNoReduce` changes the mode, lifted to arbitrary histories
  (`mode_frame`, `mode_after_history`, `mode_untouched_history`, `history_output_uses_last_requested_mode`);
* exactness does not depend on the mode or on the operands being canonical: every value-producing call, in either mode,
  on operands with positive denominators — e.g. values built in NoReduce mode and used after `SetReduce()` — returns
  exactly the mathematical value with a positive denominator (`step_exact_any_mode`), and a canonical pair when the mode
  is Reduce and the operands are canonical (`step_canonical_in_reduce_mode`);
* in NoReduce mode the stored pair is the documented formula, no hidden gcd (`noreduce_*_formula`), except for the
  listed shortcuts; `reduce()` canonicalises any pair (`reduce_exact` in C10.lean), while an *operation* in Reduce mode does
  not canonicalise a non-canonical operand (`reduce_mode_keeps_foreign_operand`, a documented limit, not a defect of the
  property: under the default mode alone every reachable value is canonical, `computation_exact`);
* comparison and equality are by value in both modes (`order_by_value_any_mode`).
-/
import GivaroModel.Lemmas.RationalStateLemmas
import GivaroModel.Props.C10
set_option linter.unusedVariables false
set_option linter.unusedSimpArgs false
namespace Givaro.Props.C10
open Givaro Givaro.Model.Rational Givaro.Spec.Rational Givaro.Lemmas.Rational

-- =====================================================================================================
-- 1. the mode is written by SetReduce / SetNoReduce only
-- =====================================================================================================

/-- frame theorem: every call other than `SetReduce` / `SetNoReduce` leaves the mode as it found it -/
theorem mode_frame (c : Int → Int → Int) (m : Bool) (op : Op) (h : op.isSet = false) : (step c m op).1 = m := by
  cases op <;> first | rfl | (simp [Op.isSet] at h)

/-- the two writers set exactly what their name says, whatever the mode was -/
theorem mode_set (c : Int → Int → Int) (m : Bool) :
    (step c m .setReduce).1 = true ∧ (step c m .setNoReduce).1 = false := ⟨rfl, rfl⟩

/-- the mode a call leaves behind does not depend on how `mpz_cmpabs` behaves -/
theorem mode_independent_of_cmp (c c' : Int → Int → Int) (m : Bool) (op : Op) : (step c m op).1 = (step c' m op).1 := by
  cases op <;> rfl

/-- **any history leaves the mode where the user last put it** -/
theorem mode_after_history (c : Int → Int → Int) (m : Bool) (ops : List Op) : (runOps c m ops).1 = lastSet m ops := by
  induction ops generalizing m with
  | nil => rfl
  | cons op ops ih =>
    rw [lastSet_cons m op ops c]
    simp only [runOps]
    try exact ih _

/-- a history without `SetReduce` / `SetNoReduce` — constructions from any double included — does not touch the mode -/
theorem mode_untouched_history (c : Int → Int → Int) (m : Bool) (ops : List Op) (h : ∀ op ∈ ops, op.isSet = false) :
    (runOps c m ops).1 = m := by
  induction ops generalizing m with
  | nil => rfl
  | cons op ops ih =>
    simp only [runOps]
    have h1 := mode_frame c m op (h op (List.mem_cons_self ..))
    rw [h1]
    exact ih m (fun o ho => h o (List.mem_cons_of_mem _ ho))
example : (runOps (fun _ _ => 0) false [.ofDouble 1 0 1, .add ⟨1, 2⟩ ⟨1, 2⟩, .ofDouble 0 2046 5]).1 = false := by decide

/-- in a history every call is evaluated under the mode requested by the last `SetReduce`/`SetNoReduce` before it
    (or the initial mode): the outputs recorded for `before ++ op :: after` are those of `before`, then `op` under
    `lastSet m before`, then the rest -/
theorem history_output_uses_last_requested_mode (c : Int → Int → Int) (m : Bool) (before after : List Op) (op : Op) :
    (runOps c m (before ++ op :: after)).2 =
      (runOps c m before).2 ++ (step c (lastSet m before) op).2 ::
        (runOps c (step c (lastSet m before) op).1 after).2 := by
  rw [runOps_append]
  simp only [runOps, mode_after_history]

-- =====================================================================================================
-- 2. exactness in either mode, canonical or not
-- =====================================================================================================

/-- the operands of a call all have positive denominators -/
def _root_.Givaro.Model.Rational.Op.operandsPos : Op → Prop
  | .add a b | .sub a b | .mul a b | .div a b | .addin a b | .subin a b | .mulin a b | .divin a b => 0 < a.den ∧ 0 < b.den
  | .neg a | .abs a | .reduce a | .fneg a | .finv a | .copy a | .powS a _ | .powU a _ => 0 < a.den
  | .axpy a b z | .axpyin a b z | .maxpy a b z | .axmy a b z | .axmyin a b z | .maxpyin a b z => 0 < a.den ∧ 0 < b.den ∧ 0 < z.den
  | _ => True

/-- the operands of a call are all canonical -/
def _root_.Givaro.Model.Rational.Op.operandsCanon : Op → Prop
  | .add a b | .sub a b | .mul a b | .div a b | .addin a b | .subin a b | .mulin a b | .divin a b => Canon a ∧ Canon b
  | .neg a | .abs a | .reduce a | .fneg a | .finv a | .copy a | .powS a _ | .powU a _ => Canon a
  | .axpy a b z | .axpyin a b z | .maxpy a b z | .axmy a b z | .axmyin a b z | .maxpyin a b z => Canon a ∧ Canon b ∧ Canon z
  | .ofPairZ _ _ red => red = 1        -- `Rational(n, d, 0)` is the explicit request not to reduce
  | _ => True

/-- the value a rational-valued call denotes in ℚ; `none`: not rational-valued, or not defined (zero denominator, division
    by zero, 0 to a negative power, argument outside its C++ type) -/
def _root_.Givaro.Model.Rational.Op.meaning : Op → Option ℚ
  | .ofNeutral one => some (if one then 1 else 0)
  | .ofWord n | .ofInteger n => some n
  | .ofPairS n d | .ofPairZ n d _ => if d = 0 then none else some ((n : ℚ) / d)
  | .ofPairU n d => if 0 ≤ n ∧ 0 < d then some ((n : ℚ) / d) else none
  | .ofDouble s e m =>
    if (s = 0 ∨ s = 1) ∧ 0 ≤ e ∧ e < 2047 ∧ 0 ≤ m ∧ m < 4503599627370496 then some (doubleVal s e m) else none
  | .ofText n none => some n
  | .ofText n (some d) => if d = 0 then none else some ((n : ℚ) / d)
  | .copy a | .reduce a => some (val a)
  | .add a b | .addin a b => some (val a + val b)
  | .sub a b | .subin a b => some (val a - val b)
  | .mul a b | .mulin a b => some (val a * val b)
  | .div a b | .divin a b => if val b = 0 then none else some (val a / val b)
  | .neg a | .fneg a => some (-val a)
  | .abs a => some |val a|
  | .finv a => if val a = 0 then none else some (val a)⁻¹
  | .axpy a b z => some (val a * val b + val z)
  | .axpyin r a b => some (val r + val a * val b)
  | .maxpy a b z => some (val z - val a * val b)
  | .axmy a b z => some (val a * val b - val z)
  | .axmyin r a b => some (val a * val b - val r)
  | .maxpyin r a b => some (val r - val a * val b)
  | .powS a y => if InS64 y ∧ ¬ (val a = 0 ∧ y < 0) then some (val a ^ y) else none
  | .powU a l => if 0 ≤ l then some (val a ^ l.toNat) else none
  | _ => none

/-- **every rational-valued call of the API, in either mode, on operands with positive denominators (canonical or not):
    no exception when the value is defined, a positive denominator, and exactly the mathematical value** -/
theorem step_exact_any_mode (c : Int → Int → Int) (hc : CmpAbsOK c) (m : Bool) (op : Op) (q : ℚ)
    (hp : op.operandsPos) (hq : op.meaning = some q) :
    ∃ r, (step c m op).2 = .q r ∧ 0 < r.den ∧ val r = q := by
  cases op with
  | ofNeutral one =>
    simp only [Op.meaning, Option.some.injEq] at hq; subst hq
    exact ⟨_, rfl, (of_integer_exact 0 one).2.2.2.2.1.1, (of_integer_exact 0 one).2.2.2.2.2⟩
  | ofWord n =>
    simp only [Op.meaning, Option.some.injEq] at hq; subst hq
    exact ⟨_, rfl, Int.one_pos, (of_integer_exact n true).2.1⟩
  | ofInteger n =>
    simp only [Op.meaning, Option.some.injEq] at hq; subst hq
    exact ⟨_, rfl, (of_integer_exact n true).2.2.1.1, (of_integer_exact n true).2.2.2.1⟩
  | ofPairS n d =>
    simp only [Op.meaning] at hq
    split at hq
    · cases hq
    · rename_i hd
      simp only [Option.some.injEq] at hq; subst hq
      obtain ⟨r, h1, h2, h3⟩ := (of_pair_exact n d hd).2.1
      exact ⟨r, by simp only [step, h1, qv], h2.1, h3⟩
  | ofPairU n d =>
    simp only [Op.meaning] at hq
    split at hq
    · rename_i hd
      simp only [Option.some.injEq] at hq; subst hq
      obtain ⟨r, h1, h2, h3⟩ := of_unsigned_pair_exact n d hd.1 hd.2
      exact ⟨r, by simp only [step, h1, qv], h2.1, h3⟩
    · cases hq
  | ofPairZ n d red =>
    simp only [Op.meaning] at hq
    split at hq
    · cases hq
    · rename_i hd
      simp only [Option.some.injEq] at hq; subst hq
      by_cases hr : red = 1
      · subst hr
        obtain ⟨r, h1, h2, h3⟩ := (of_pair_exact n d hd).1
        exact ⟨r, by simp only [step, h1, qv], h2.1, h3⟩
      · obtain ⟨r, h1, h2, h3⟩ := of_pair_noreduce_exact n d red hd hr
        exact ⟨r, by simp only [step, h1, qv], h2, h3⟩
  | ofDouble s e mt =>
    simp only [Op.meaning] at hq
    split at hq
    · rename_i hr
      simp only [Option.some.injEq] at hq; subst hq
      obtain ⟨r, h1, h2, h3⟩ := of_double_exact m s e mt hr.1 hr.2.1 hr.2.2.1 hr.2.2.2.1 hr.2.2.2.2
      exact ⟨r, by simp only [step, h1, qv], h2.1, h3⟩
    · cases hq
  | ofText n d =>
    cases d with
    | none =>
      simp only [Op.meaning, Option.some.injEq] at hq; subst hq
      obtain ⟨r, h1, h2, h3⟩ := of_text_integer_exact n
      exact ⟨r, by simp only [step, h1, qv], h2.1, h3⟩
    | some d =>
      simp only [Op.meaning] at hq
      split at hq
      · cases hq
      · rename_i hd
        simp only [Option.some.injEq] at hq; subst hq
        obtain ⟨r, h1, h2, h3⟩ := (of_pair_exact n d hd).2.2
        exact ⟨r, by simp only [step, h1, qv], h2.1, h3⟩
  | copy a =>
    simp only [Op.meaning, Option.some.injEq] at hq; subst hq
    exact ⟨a, rfl, hp, rfl⟩
  | reduce a =>
    simp only [Op.meaning, Option.some.injEq] at hq; subst hq
    obtain ⟨h1, h2⟩ := reduce_exact a hp
    exact ⟨_, rfl, h1.1, h2⟩
  | add a b =>
    simp only [Op.meaning, Option.some.injEq] at hq; subst hq
    obtain ⟨r, h1, h2, h3⟩ := add_pos_exact m a b hp.1 hp.2
    exact ⟨r, by simp only [step, h1, qv], h2, h3⟩
  | addin a b =>
    simp only [Op.meaning, Option.some.injEq] at hq; subst hq
    obtain ⟨r, h1, h2, h3⟩ := add_pos_exact m a b hp.1 hp.2
    exact ⟨r, by simp only [step, addin_eq_add_pos m a b hp.1 hp.2, h1, qv], h2, h3⟩
  | sub a b =>
    simp only [Op.meaning, Option.some.injEq] at hq; subst hq
    obtain ⟨r, h1, h2, h3⟩ := sub_pos_exact m a b hp.1 hp.2
    exact ⟨r, by simp only [step, h1, qv], h2, h3⟩
  | subin a b =>
    simp only [Op.meaning, Option.some.injEq] at hq; subst hq
    obtain ⟨r, h1, h2, h3⟩ := sub_pos_exact m a b hp.1 hp.2
    exact ⟨r, by simp only [step, subin_eq_sub_pos m a b hp.1 hp.2, h1, qv], h2, h3⟩
  | mul a b =>
    simp only [Op.meaning, Option.some.injEq] at hq; subst hq
    obtain ⟨r, h1, h2, h3⟩ := mul_pos_exact hc m a b hp.1 hp.2
    exact ⟨r, by simp only [step, h1, qv], h2, h3⟩
  | mulin a b =>
    simp only [Op.meaning, Option.some.injEq] at hq; subst hq
    obtain ⟨r, h1, h2, h3⟩ := mulin_pos_exact hc m a b hp.1 hp.2
    exact ⟨r, by simp only [step, h1, qv], h2, h3⟩
  | div a b =>
    simp only [Op.meaning] at hq
    split at hq
    · cases hq
    · rename_i hb0
      simp only [Option.some.injEq] at hq; subst hq
      obtain ⟨r, h1, h2, h3⟩ := div_pos_exact hc m a b hp.1 hp.2 hb0
      exact ⟨r, by simp only [step, h1, qv], h2, h3⟩
  | divin a b =>
    simp only [Op.meaning] at hq
    split at hq
    · cases hq
    · rename_i hb0
      simp only [Option.some.injEq] at hq; subst hq
      obtain ⟨r, h1, h2, h3⟩ := divin_pos_exact m a b hp.1 hp.2 hb0
      exact ⟨r, by simp only [step, h1, qv], h2, h3⟩
  | neg a =>
    simp only [Op.meaning, Option.some.injEq] at hq; subst hq
    obtain ⟨r, h1, h2, h3⟩ := neg_exact false a (vf a hp)
    exact ⟨r, by simp only [step, h1, qv], h2.1, h3⟩
  | abs a =>
    simp only [Op.meaning, Option.some.injEq] at hq; subst hq
    obtain ⟨r, h1, h2, h3⟩ := abs_exact false a (vf a hp)
    exact ⟨r, by simp only [step, h1, qv], h2.1, h3⟩
  | fneg a =>
    simp only [Op.meaning, Option.some.injEq] at hq; subst hq
    obtain ⟨h2, h3, _⟩ := qfield_neg_inv_exact false a (vf a hp)
    exact ⟨_, rfl, h2.1, h3⟩
  | finv a =>
    simp only [Op.meaning] at hq
    split at hq
    · cases hq
    · rename_i h0
      simp only [Option.some.injEq] at hq; subst hq
      obtain ⟨h2, h3⟩ := (qfield_neg_inv_exact false a (vf a hp)).2.2 h0
      exact ⟨_, rfl, h2.1, h3⟩
  | axpy a b z =>
    simp only [Op.meaning, Option.some.injEq] at hq; subst hq
    obtain ⟨p, hp1, hp2, hp3⟩ := mul_pos_exact hc m a b hp.1 hp.2.1
    obtain ⟨r, h1, h2, h3⟩ := add_pos_exact m p z hp2 hp.2.2
    exact ⟨r, by simp only [step, Model.Rational.axpy, hp1, bind2, h1, qv], h2, by rw [h3, hp3]⟩
  | axpyin r0 a b =>
    simp only [Op.meaning, Option.some.injEq] at hq; subst hq
    obtain ⟨p, hp1, hp2, hp3⟩ := mul_pos_exact hc m a b hp.2.1 hp.2.2
    obtain ⟨r, h1, h2, h3⟩ := add_pos_exact m r0 p hp.1 hp2
    exact ⟨r, by simp only [step, Model.Rational.axpyin, hp1, bind2, addin_eq_add_pos m r0 p hp.1 hp2, h1, qv], h2, by rw [h3, hp3]⟩
  | maxpy a b z =>
    simp only [Op.meaning, Option.some.injEq] at hq; subst hq
    obtain ⟨p, hp1, hp2, hp3⟩ := mul_pos_exact hc m a b hp.1 hp.2.1
    obtain ⟨r, h1, h2, h3⟩ := sub_pos_exact m z p hp.2.2 hp2
    exact ⟨r, by simp only [step, Model.Rational.maxpy, hp1, bind2, h1, qv], h2, by rw [h3, hp3]⟩
  | axmy a b z =>
    simp only [Op.meaning, Option.some.injEq] at hq; subst hq
    obtain ⟨p, hp1, hp2, hp3⟩ := mul_pos_exact hc m a b hp.1 hp.2.1
    obtain ⟨r, h1, h2, h3⟩ := sub_pos_exact m p z hp2 hp.2.2
    exact ⟨r, by simp only [step, Model.Rational.axmy, hp1, bind2, h1, qv], h2, by rw [h3, hp3]⟩
  | axmyin r0 a b =>
    simp only [Op.meaning, Option.some.injEq] at hq; subst hq
    obtain ⟨p, hp1, hp2, hp3⟩ := mul_pos_exact hc m a b hp.2.1 hp.2.2
    obtain ⟨r, h1, h2, h3⟩ := sub_pos_exact m p r0 hp2 hp.1
    exact ⟨r, by simp only [step, Model.Rational.axmyin, hp1, bind2, h1, qv], h2, by rw [h3, hp3]⟩
  | maxpyin r0 a b =>
    simp only [Op.meaning, Option.some.injEq] at hq; subst hq
    obtain ⟨p, hp1, hp2, hp3⟩ := mul_pos_exact hc m a b hp.2.1 hp.2.2
    obtain ⟨r, h1, h2, h3⟩ := sub_pos_exact m r0 p hp.1 hp2
    exact ⟨r, by simp only [step, Model.Rational.maxpyin, hp1, bind2, subin_eq_sub_pos m r0 p hp.1 hp2, h1, qv], h2, by rw [h3, hp3]⟩
  | powS a y =>
    simp only [Op.meaning] at hq
    split at hq
    · rename_i hy
      simp only [Option.some.injEq] at hq; subst hq
      obtain ⟨h2, h3⟩ := pow_exact false a y (vf a hp) hy.1 hy.2
      exact ⟨_, rfl, h2.1, h3⟩
    · cases hq
  | powU a l =>
    simp only [Op.meaning] at hq
    split at hq
    · rename_i hl
      simp only [Option.some.injEq] at hq; subst hq
      obtain ⟨h2, h3⟩ := pow_unsigned_exact false a l (vf a hp) hl
      exact ⟨_, rfl, h2.1, h3⟩
    · cases hq
  | _ => simp [Op.meaning] at hq

/-- **under the default mode, on canonical operands, every rational-valued call returns a canonical pair** (the value is
    given by `step_exact_any_mode`) -/
theorem step_canonical_in_reduce_mode (c : Int → Int → Int) (hc : CmpAbsOK c) (op : Op) (q : ℚ)
    (hk : op.operandsCanon) (hq : op.meaning = some q) :
    ∃ r, (step c true op).2 = .q r ∧ Canon r := by
  have cv : ∀ {a : QRep}, Canon a → Valid true a := fun h => canon_valid h true
  cases op with
  | ofNeutral one => exact ⟨_, rfl, (of_integer_exact 0 one).2.2.2.2.1⟩
  | ofWord n => exact ⟨_, rfl, (of_integer_exact n true).1⟩
  | ofInteger n => exact ⟨_, rfl, (of_integer_exact n true).2.2.1⟩
  | ofPairS n d =>
    simp only [Op.meaning] at hq
    split at hq
    · cases hq
    · rename_i hd
      obtain ⟨r, h1, h2, h3⟩ := (of_pair_exact n d hd).2.1
      exact ⟨r, by simp only [step, h1, qv], h2⟩
  | ofPairU n d =>
    simp only [Op.meaning] at hq
    split at hq
    · rename_i hd
      obtain ⟨r, h1, h2, h3⟩ := of_unsigned_pair_exact n d hd.1 hd.2
      exact ⟨r, by simp only [step, h1, qv], h2⟩
    · cases hq
  | ofPairZ n d red =>
    -- `Rational(n, d, 0)` is the explicit request *not* to reduce: canonical only for red = 1
    simp only [Op.meaning] at hq
    split at hq
    · cases hq
    · rename_i hd
      by_cases hr : red = 1
      · subst hr
        obtain ⟨r, h1, h2, h3⟩ := (of_pair_exact n d hd).1
        exact ⟨r, by simp only [step, h1, qv], h2⟩
      · exact absurd hk hr
  | ofDouble s e mt =>
    simp only [Op.meaning] at hq
    split at hq
    · rename_i hr
      obtain ⟨r, h1, h2, h3⟩ := of_double_exact true s e mt hr.1 hr.2.1 hr.2.2.1 hr.2.2.2.1 hr.2.2.2.2
      exact ⟨r, by simp only [step, h1, qv], valid_true h2⟩
    · cases hq
  | ofText n d =>
    cases d with
    | none =>
      obtain ⟨r, h1, h2, h3⟩ := of_text_integer_exact n
      exact ⟨r, by simp only [step, h1, qv], h2⟩
    | some d =>
      simp only [Op.meaning] at hq
      split at hq
      · cases hq
      · rename_i hd
        obtain ⟨r, h1, h2, h3⟩ := (of_pair_exact n d hd).2.2
        exact ⟨r, by simp only [step, h1, qv], h2⟩
  | copy a => exact ⟨a, rfl, hk⟩
  | reduce a => exact ⟨_, rfl, (reduce_exact a hk.1).1⟩
  | add a b =>
    obtain ⟨r, h1, h2, _⟩ := add_exact true a b (cv hk.1) (cv hk.2)
    exact ⟨r, by simp only [step, h1, qv], valid_true h2⟩
  | addin a b =>
    obtain ⟨r, h1, h2, _⟩ := addin_exact true a b (cv hk.1) (cv hk.2)
    exact ⟨r, by simp only [step, h1, qv], valid_true h2⟩
  | sub a b =>
    obtain ⟨r, h1, h2, _⟩ := sub_exact true a b (cv hk.1) (cv hk.2)
    exact ⟨r, by simp only [step, h1, qv], valid_true h2⟩
  | subin a b =>
    obtain ⟨r, h1, h2, _⟩ := subin_exact true a b (cv hk.1) (cv hk.2)
    exact ⟨r, by simp only [step, h1, qv], valid_true h2⟩
  | mul a b =>
    obtain ⟨r, h1, h2, _⟩ := mul_exact c hc true a b (cv hk.1) (cv hk.2)
    exact ⟨r, by simp only [step, h1, qv], valid_true h2⟩
  | mulin a b =>
    obtain ⟨r, h1, h2, _⟩ := mulin_exact c hc true a b (cv hk.1) (cv hk.2)
    exact ⟨r, by simp only [step, h1, qv], valid_true h2⟩
  | div a b =>
    simp only [Op.meaning] at hq
    split at hq
    · cases hq
    · rename_i hb0
      obtain ⟨r, h1, h2, _⟩ := div_exact c hc true a b (cv hk.1) (cv hk.2) hb0
      exact ⟨r, by simp only [step, h1, qv], valid_true h2⟩
  | divin a b =>
    simp only [Op.meaning] at hq
    split at hq
    · cases hq
    · rename_i hb0
      obtain ⟨r, h1, h2, _⟩ := divin_exact true a b (cv hk.1) (cv hk.2) hb0
      exact ⟨r, by simp only [step, h1, qv], valid_true h2⟩
  | neg a =>
    obtain ⟨r, h1, h2, _⟩ := neg_exact true a (cv hk)
    exact ⟨r, by simp only [step, h1, qv], valid_true h2⟩
  | abs a =>
    obtain ⟨r, h1, h2, _⟩ := abs_exact true a (cv hk)
    exact ⟨r, by simp only [step, h1, qv], valid_true h2⟩
  | fneg a => exact ⟨_, rfl, valid_true (qfield_neg_inv_exact true a (cv hk)).1⟩
  | finv a =>
    simp only [Op.meaning] at hq
    split at hq
    · cases hq
    · rename_i h0
      exact ⟨_, rfl, valid_true ((qfield_neg_inv_exact true a (cv hk)).2.2 h0).1⟩
  | axpy a b z =>
    obtain ⟨r, h1, h2, _⟩ := (qfield_fused_exact c hc true a b z (cv hk.1) (cv hk.2.1) (cv hk.2.2)).1
    exact ⟨r, by simp only [step, h1, qv], valid_true h2⟩
  | axpyin r0 a b =>
    obtain ⟨r, h1, h2, _⟩ := (qfield_fused_exact c hc true a b r0 (cv hk.2.1) (cv hk.2.2) (cv hk.1)).2.1
    exact ⟨r, by simp only [step, h1, qv], valid_true h2⟩
  | maxpy a b z =>
    obtain ⟨r, h1, h2, _⟩ := (qfield_fused_exact c hc true a b z (cv hk.1) (cv hk.2.1) (cv hk.2.2)).2.2.1
    exact ⟨r, by simp only [step, h1, qv], valid_true h2⟩
  | axmy a b z =>
    obtain ⟨r, h1, h2, _⟩ := (qfield_fused_exact c hc true a b z (cv hk.1) (cv hk.2.1) (cv hk.2.2)).2.2.2.1
    exact ⟨r, by simp only [step, h1, qv], valid_true h2⟩
  | axmyin r0 a b =>
    obtain ⟨r, h1, h2, _⟩ := (qfield_fused_exact c hc true a b r0 (cv hk.2.1) (cv hk.2.2) (cv hk.1)).2.2.2.2.1
    exact ⟨r, by simp only [step, h1, qv], valid_true h2⟩
  | maxpyin r0 a b =>
    obtain ⟨r, h1, h2, _⟩ := (qfield_fused_exact c hc true a b r0 (cv hk.2.1) (cv hk.2.2) (cv hk.1)).2.2.2.2.2
    exact ⟨r, by simp only [step, h1, qv], valid_true h2⟩
  | powS a y =>
    simp only [Op.meaning] at hq
    split at hq
    · rename_i hy
      exact ⟨_, rfl, valid_true (pow_exact true a y (cv hk) hy.1 hy.2).1⟩
    · cases hq
  | powU a l =>
    simp only [Op.meaning] at hq
    split at hq
    · rename_i hl
      exact ⟨_, rfl, valid_true (pow_unsigned_exact true a l (cv hk) hl).1⟩
    · cases hq
  | _ => simp [Op.meaning] at hq
example : (step (fun _ _ => 0) true (.add ⟨1, 6⟩ ⟨1, 3⟩)).2 = .q ⟨1, 2⟩ := by decide

-- =====================================================================================================
-- 3. NoReduce mode: the stored pair is the documented formula
-- =====================================================================================================

/-- in NoReduce mode `+`, `+=`, `-`, `-=` store exactly the closed formulas `addNR` / `subNR` of Spec/RationalSpec.lean
    (`a/b + c/d = (ad + cb)/(bd)`: no gcd is taken), which is what the driver demands of the implementation -/
theorem noreduce_add_sub_formula (a b : QRep) (ha : 0 < a.den) (hb : 0 < b.den) :
    Model.Rational.add false a b = some (addNR a b) ∧ Model.Rational.addin false a b = some (addNR a b) ∧
    Model.Rational.sub false a b = some (subNR a b) ∧ Model.Rational.subin false a b = some (subNR a b) := by
  have h1 : Model.Rational.add false a b = some (addNR a b) := by
    unfold Model.Rational.add addNR
    simp only [isZero, isInteger, beq_iff_eq, Bool.and_eq_true, Bool.not_false, ↓reduceIte]
    split_ifs with k1 k2 k3
    · rfl
    · rfl
    · rw [ofInteger_eq]
    · rw [mk3_pos _ _ (Int.mul_pos ha hb)]
  have h2 : Model.Rational.sub false a b = some (subNR a b) := by
    unfold Model.Rational.sub subNR
    simp only [isZero, isInteger, beq_iff_eq, Bool.and_eq_true, Bool.not_false, ↓reduceIte]
    split_ifs with k1 k2 k3
    · rfl
    · rw [mk3_pos _ _ hb]
    · rw [ofInteger_eq]
    · rw [mk3_pos _ _ (Int.mul_pos ha hb)]
  exact ⟨h1, by rw [addin_eq_add_pos false a b ha hb, h1], h2, by rw [subin_eq_sub_pos false a b ha hb, h2]⟩

/-- `*` and `*=` in NoReduce mode: `(ac)/(bd)` -/
theorem noreduce_mul_formula (c : Int → Int → Int) (a b : QRep) (ha : 0 < a.den) (hb : 0 < b.den) :
    Model.Rational.mul c false a b = some (mulNR a b) ∧ Model.Rational.mulin c false a b = some (mulinNR a b) := by
  have hm := mk3_pos (a.num * b.num) (a.den * b.den) (Int.mul_pos ha hb)
  constructor
  · unfold Model.Rational.mul mulNR
    simp only [isZero, isOne, isInteger, beq_iff_eq, Bool.and_eq_true, Bool.not_false, ↓reduceIte, ite_self, ofWord]
    split_ifs <;> first | rfl | (exfalso; tauto) | (rw [ofInteger_eq]) | (rw [hm])
  · unfold Model.Rational.mulin mulinNR mulNR
    simp only [isZero, isOne, isInteger, beq_iff_eq, Bool.and_eq_true, Bool.not_false, ↓reduceIte, Bool.or_true, ofWord]
    split_ifs <;> first | rfl | (exfalso; tauto) | (obtain ⟨e1, e2⟩ := ‹a.den = 1 ∧ b.den = 1›; rw [e1])

theorem reduce_is_normalize (n d : Int) (hd : d ≠ 0) :
    reduce (if 0 < d then ⟨n, d⟩ else ⟨-n, -d⟩) = normalize n d := by
  rw [normalize_iff _ n d hd]
  by_cases hp : 0 < d
  · simp only [hp, ↓reduceIte]
    exact reduce_spec ⟨n, d⟩ hp
  · simp only [hp, ↓reduceIte]
    obtain ⟨c, e⟩ := reduce_spec ⟨-n, -d⟩ (by simp only; omega)
    refine ⟨c, ?_⟩
    simp only [Den] at e ⊢
    linear_combination (-1 : Int) * e

/-- `/` and `/=` in NoReduce mode: `(ad)/(bc)` with the sign moved to the numerator.  The one place where the code takes a
    gcd although the mode says not to: equal denominators go through the *reducing* constructor `Rational(a, c)` / `reduce()`. -/
theorem noreduce_div_formula (c : Int → Int → Int) (hc : CmpAbsOK c) (a b : QRep) (ha : 0 < a.den) (hb : 0 < b.den) (hnz : b.num ≠ 0) :
    Model.Rational.div c false a b = some (divNR a b) ∧ Model.Rational.divin false a b = some (divinNR a b) := by
  constructor
  · unfold Model.Rational.div divNR
    simp only [isZero, isOne, isInteger, sign, beq_iff_eq, Bool.and_eq_true, Bool.not_false, ↓reduceIte, hnz,
      cabs_zero_pos hc ha hb, isign_neg_iff, ofWord]
    by_cases k1 : a.num = 0
    · simp only [k1, ↓reduceIte]
    · simp only [k1, ↓reduceIte]
      by_cases k2 : b.num = 1 ∧ b.den = 1
      · simp only [k2, and_self, ↓reduceIte]
      · simp only [k2, ↓reduceIte]
        by_cases k3 : a.num = 1 ∧ a.den = 1
        · simp only [k3, and_self, ↓reduceIte]
          by_cases k4 : b.num < 0
          · simp only [k4, ↓reduceIte]; rw [mk3_neg _ _ k4]
          · simp only [k4, ↓reduceIte]; rw [mk3_neg _ _ (by omega)]; simp
        · simp only [k3, ↓reduceIte]
          by_cases k5 : a.den = b.den
          · simp only [k5, ↓reduceIte]; rw [mk3_red _ _ hnz, reduce_is_normalize _ _ hnz]
          · simp only [k5, ↓reduceIte]
            by_cases k6 : 0 < b.num
            · simp only [k6, ↓reduceIte]; rw [mk3_pos _ _ (Int.mul_pos ha k6)]
            · simp only [k6, ↓reduceIte]; rw [mk3_neg _ _ (Int.mul_neg_of_pos_of_neg ha (by omega))]
  · unfold Model.Rational.divin divinNR divNR
    simp only [isZero, isOne, isInteger, beq_iff_eq, Bool.and_eq_true, Bool.not_false, ↓reduceIte, hnz, isign_neg_iff]
    by_cases k1 : a.num = 0
    · simp only [k1, ↓reduceIte]
    · simp only [k1, ↓reduceIte]
      by_cases k2 : b.num = 1 ∧ b.den = 1
      · simp only [k2, and_self, ↓reduceIte]
      · simp only [k2, ↓reduceIte]
        by_cases k3 : a.num = 1 ∧ a.den = 1
        · simp only [k3, and_self, ↓reduceIte]
          split <;> rfl
        · simp only [k3, ↓reduceIte]
          by_cases k5 : a.den = b.den
          · simp only [k5, ↓reduceIte]
            have := reduce_is_normalize a.num b.num hnz
            by_cases k4 : b.num < 0
            · have k4' : ¬ 0 < b.num := by omega
              simp only [k4, k4', ↓reduceIte] at this ⊢; rw [this]
            · have k4' : 0 < b.num := by omega
              simp only [k4, k4', ↓reduceIte] at this ⊢; rw [this]
          · simp only [k5, ↓reduceIte]
            by_cases k4 : b.num < 0
            · have k4' : ¬ 0 < b.num := by omega
              simp only [k4, k4', ↓reduceIte]
            · have k4' : 0 < b.num := by omega
              simp only [k4, k4', ↓reduceIte]
example : Model.Rational.add false ⟨1, 2⟩ ⟨1, 2⟩ = some ⟨4, 4⟩ ∧ Model.Rational.mul (fun _ _ => 1) false ⟨2, 3⟩ ⟨3, 4⟩ = some ⟨6, 12⟩ := by decide

/-- an *operation* in Reduce mode does not canonicalise an operand that was built in NoReduce mode (only `reduce()` does):
    `2/4 + 0` is `2/4`.  Under the default mode alone this cannot happen (`computation_exact`). -/
theorem reduce_mode_keeps_foreign_operand :
    Model.Rational.add true ⟨2, 4⟩ ⟨0, 1⟩ = some ⟨2, 4⟩ ∧ ¬ Canon ⟨2, 4⟩ ∧ Canon (reduce ⟨2, 4⟩) := by
  refine ⟨by decide, ?_, ⟨by decide, by decide⟩⟩
  intro h; have := h.2; revert this; decide

-- =====================================================================================================
-- 4. comparison and equality are by value, in both modes, canonical or not
-- =====================================================================================================

theorem order_by_value_any_mode (c : Int → Int → Int) (hc : CmpAbsOK c) (m : Bool) (a b : QRep) (ha : 0 < a.den) (hb : 0 < b.den) :
    ((step c m (.lt a b)).2 = .b true ↔ val a < val b) ∧ ((step c m (.gt a b)).2 = .b true ↔ val a > val b) ∧
    ((step c m (.le a b)).2 = .b true ↔ val a ≤ val b) ∧ ((step c m (.ge a b)).2 = .b true ↔ val a ≥ val b) ∧
    ((step c m (.eq a b)).2 = .b true ↔ val a = val b) ∧ ((step c m (.ne a b)).2 = .b true ↔ val a ≠ val b) ∧
    (step c m (.eq a b)).2 = (step c (!m) (.eq a b)).2 := by
  obtain ⟨h1, h2, h3, h4, h5, h6⟩ := order_operators c hc a b ha hb
  simp only [step, Val.b.injEq]
  exact ⟨h1, h2, h3, h4, h5, h6, trivial⟩
example : (step (fun x y => x.natAbs - y.natAbs) false (.eq ⟨2, 4⟩ ⟨1, 2⟩)).2 = .b true := by decide

-- =====================================================================================================
-- 5. programs on live objects: data flow and mode switches together
-- =====================================================================================================

/-- a command of a program working on live `Rational` objects `obj 0, obj 1, …`: switch the mode, or make a call whose
    operands are taken from the current objects and store its rational result in object `dst` -/
inductive Cmd where
  | setMode (m : Bool)
  | call (dst : Nat) (f : (Nat → QRep) → Op)

structure Machine where
  mode : Bool
  obj : Nat → QRep

def Machine.exec (c : Int → Int → Int) (s : Machine) : Cmd → Machine
  | .setMode m => ⟨(step c s.mode (if m then .setReduce else .setNoReduce)).1, s.obj⟩
  | .call dst f =>
    match step c s.mode (f s.obj) with
    | (m', .q v) => ⟨m', fun i => if i = dst then v else s.obj i⟩
    | (m', _) => ⟨m', s.obj⟩

def Machine.run (c : Int → Int → Int) : Machine → List Cmd → Machine
  | s, [] => s
  | s, k :: ks => Machine.run c (s.exec c k) ks

/-- the mode the program last asked for -/
def Cmd.lastMode : Bool → List Cmd → Bool
  | m, [] => m
  | _, .setMode m' :: ks => Cmd.lastMode m' ks
  | m, .call _ _ :: ks => Cmd.lastMode m ks

/-- **whatever the interleaving of mode switches, constructions and arithmetic**: as long as every call is mathematically
    defined, every live object keeps a positive denominator (so `step_exact_any_mode` applies to the next call: its stored
    result is exactly its meaning), and the program ends in the mode it last asked for -/
theorem program_invariant (c : Int → Int → Int) (hc : CmpAbsOK c) (prog : List Cmd) (s : Machine)
    (h0 : ∀ i, 0 < (s.obj i).den)
    (hwf : ∀ dst f, Cmd.call dst f ∈ prog → ∀ obj : Nat → QRep, (∀ i, 0 < (obj i).den) →
      (f obj).operandsPos ∧ (f obj).meaning ≠ none ∧ (f obj).isSet = false) :
    (∀ i, 0 < ((Machine.run c s prog).obj i).den) ∧ (Machine.run c s prog).mode = Cmd.lastMode s.mode prog := by
  induction prog generalizing s with
  | nil => exact ⟨h0, rfl⟩
  | cons k ks ih =>
    have hks : ∀ dst f, Cmd.call dst f ∈ ks → ∀ obj : Nat → QRep, (∀ i, 0 < (obj i).den) →
        (f obj).operandsPos ∧ (f obj).meaning ≠ none ∧ (f obj).isSet = false :=
      fun dst f hm => hwf dst f (List.mem_cons_of_mem _ hm)
    cases k with
    | setMode m =>
      have := ih ⟨(step c s.mode (if m then .setReduce else .setNoReduce)).1, s.obj⟩ h0 hks
      simp only [Machine.run, Machine.exec, Cmd.lastMode]
      cases m <;> exact this
    | call dst f =>
      obtain ⟨hp, hm, hs⟩ := hwf dst f (List.mem_cons_self ..) s.obj h0
      obtain ⟨q, hq⟩ := Option.ne_none_iff_exists'.mp hm
      obtain ⟨r, h1, h2, _⟩ := step_exact_any_mode c hc s.mode (f s.obj) q hp hq
      have hmode := mode_frame c s.mode (f s.obj) hs
      have hst : step c s.mode (f s.obj) = (s.mode, .q r) := Prod.ext hmode h1
      have := ih ⟨s.mode, fun i => if i = dst then r else s.obj i⟩
        (fun i => by simp only; split <;> [exact h2; exact h0 i]) hks
      simp only [Machine.run, Machine.exec, hst, Cmd.lastMode]
      exact this
-- non-vacuity: NoReduce, 1/2 + 1/2 stored as 4/4, back to Reduce, times the double -0.5: positive denominators, mode Reduce
example : let s := Machine.run (fun x y => x.natAbs - y.natAbs) ⟨true, fun _ => ⟨1, 2⟩⟩
            [.setMode false, .call 1 (fun o => .add (o 0) (o 0)), .setMode true, .call 2 (fun _ => .ofDouble 1 1022 0),
             .call 3 (fun o => .mul (o 1) (o 2))]
          s.mode = true ∧ s.obj 1 = ⟨4, 4⟩ ∧ 0 < (s.obj 3).den := by decide

end Givaro.Props.C10
