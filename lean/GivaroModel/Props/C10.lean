/-
C10 — Rational numbers are exact, canonical and totally ordered.

Every theorem below is about the executable model `Model/Rational.lean`, the branch-by-branch transcription of
givrataddsub.C, givratmuldiv.C, givratcompare.C, givratcstor.C, givratmisc.C, givratio.C, givrational.inl and
qfield.h that the correspondence check ties to the compiled code on every run.

* value of a stored pair: `val r = (r.num : ℚ) / (r.den : ℚ)` in Mathlib's `ℚ` (Lemmas/RationalValue.lean);
* `Valid red r`: the operand invariant of mode `red` — positive denominator, and coprime numerator/denominator
  when `red = true` (`Rational::Reduce`, the default).  `Valid true r ↔ Canon r` (`valid_true_iff_canon`), and
  `Canon` forces zero to be `0/1` (`canon_zero_is_0_1`);
* every operator theorem has the shape  `Valid red a → Valid red b → ∃ r, op a b = some r ∧ Valid red r ∧ val r = …`:
  the operation does not throw, the result satisfies the invariant again (so under the default mode it is canonical)
  and its value is exactly the mathematical one — for *all* numerators and denominators (unbounded), in both modes;
* the order theorems quantify over every function `c` that meets the documented contract of `mpz_cmpabs`
  (`CmpAbsOK`): nothing is assumed about the magnitude of a three-way comparison result.

No numerator/denominator size, exponent size (beyond the C++ parameter type) or double class is bounded anywhere.
-/
import GivaroModel.Lemmas.RationalValue
import GivaroModel.Lemmas.RationalIntegerLayer
set_option linter.unusedVariables false
set_option linter.unusedSimpArgs false
set_option linter.unusedTactic false
set_option linter.unreachableTactic false
namespace Givaro.Props.C10
open Givaro Givaro.Model.Rational Givaro.Spec.Rational Givaro.Lemmas.Rational

-- =====================================================================================================
-- canonical form
-- =====================================================================================================

/-- under the default mode the operand invariant is exactly canonical form -/
theorem valid_true_iff_canon (r : QRep) : Valid true r ↔ Canon r :=
  ⟨valid_true, fun h => canon_valid h true⟩

/-- canonical form stores zero as 0/1 -/
theorem canon_zero_is_0_1 (r : QRep) (h : Canon r) (h0 : val r = 0) : r = ⟨0, 1⟩ := by
  have hd : (r.den : ℚ) ≠ 0 := by have := h.1; exact_mod_cast (by omega : r.den ≠ 0)
  have hn : r.num = 0 := by
    unfold val at h0
    rcases div_eq_zero_iff.mp h0 with h1 | h1
    · exact_mod_cast h1
    · exact absurd h1 hd
  obtain ⟨n, d⟩ := r
  simp only at hn
  subst hn
  have := canon_zero h rfl
  simp only at this
  subst this
  rfl
example : Canon ⟨0, 1⟩ ∧ val ⟨0, 1⟩ = 0 := ⟨⟨by decide, by decide⟩, by simp [val]⟩

/-- canonical form is a normal form: two canonical pairs of the same value are the same pair -/
theorem canon_unique_value (r s : QRep) (hr : Canon r) (hs : Canon s) (h : val r = val s) : r = s := by
  apply canon_unique hr hs
  unfold val at h
  have h1 : (r.den : ℚ) ≠ 0 := by have := hr.1; exact_mod_cast (by omega : r.den ≠ 0)
  have h2 : (s.den : ℚ) ≠ 0 := by have := hs.1; exact_mod_cast (by omega : s.den ≠ 0)
  rw [div_eq_div_iff h1 h2] at h
  exact_mod_cast h
example : Canon ⟨1, 2⟩ ∧ val ⟨1, 2⟩ = val ⟨1, 2⟩ := ⟨⟨by decide, by decide⟩, rfl⟩

/-- soundness and completeness of the check the correspondence driver applies to every result produced under
    the default mode: `r = normalize n d` holds exactly when `r` is canonical and denotes `n/d` -/
theorem driver_canonical_check_iff (r : QRep) (n d : Int) (hd : d ≠ 0) :
    r = normalize n d ↔ (Canon r ∧ val r = (n : ℚ) / (d : ℚ)) := by
  rw [normalize_iff r n d hd]
  constructor
  · intro ⟨c, e⟩
    exact ⟨c, val_of_den (by have := c.1; omega) hd e⟩
  · intro ⟨c, e⟩
    refine ⟨c, ?_⟩
    unfold val at e
    have h1 : (r.den : ℚ) ≠ 0 := by have := c.1; exact_mod_cast (by omega : r.den ≠ 0)
    have h2 : (d : ℚ) ≠ 0 := by exact_mod_cast hd
    rw [div_eq_div_iff h1 h2] at e
    unfold Den
    exact_mod_cast e
example : (⟨-1, 2⟩ : QRep) = normalize 3 (-6) := by decide

-- =====================================================================================================
-- + - * / and negation: exact, invariant-preserving, across every shortcut branch, both modes
-- =====================================================================================================

theorem add_exact (red : Bool) (a b : QRep) (ha : Valid red a) (hb : Valid red b) :
    ∃ r, add red a b = some r ∧ Valid red r ∧ val r = val a + val b := by
  obtain ⟨r, h1, h2, h3⟩ := add_spec red a b ha hb
  refine ⟨r, h1, h2, ?_⟩
  rw [val_of_den (ine h2) (Int.mul_ne_zero (ine ha) (ine hb)) h3]
  unfold val
  have := qne ha; have := qne hb
  push_cast
  field_simp
example : Valid true ⟨1, 6⟩ ∧ Valid true ⟨1, 3⟩ ∧ add true ⟨1, 6⟩ ⟨1, 3⟩ = some ⟨1, 2⟩ :=
  ⟨⟨by decide, fun _ => by decide⟩, ⟨by decide, fun _ => by decide⟩, by decide⟩

theorem sub_exact (red : Bool) (a b : QRep) (ha : Valid red a) (hb : Valid red b) :
    ∃ r, sub red a b = some r ∧ Valid red r ∧ val r = val a - val b := by
  obtain ⟨r, h1, h2, h3⟩ := sub_spec red a b ha hb
  refine ⟨r, h1, h2, ?_⟩
  rw [val_of_den (ine h2) (Int.mul_ne_zero (ine ha) (ine hb)) h3]
  unfold val
  have := qne ha; have := qne hb
  push_cast
  field_simp
example : sub true ⟨1, 2⟩ ⟨1, 2⟩ = some ⟨0, 1⟩ ∧ sub true ⟨1, 6⟩ ⟨1, 3⟩ = some ⟨-1, 6⟩ := by decide

theorem mul_exact (c : Int → Int → Int) (hc : CmpAbsOK c) (red : Bool) (a b : QRep) (ha : Valid red a) (hb : Valid red b) :
    ∃ r, mul c red a b = some r ∧ Valid red r ∧ val r = val a * val b := by
  obtain ⟨r, h1, h2, h3⟩ := mul_spec hc red a b ha hb
  refine ⟨r, h1, h2, ?_⟩
  rw [val_of_den (ine h2) (Int.mul_ne_zero (ine ha) (ine hb)) h3]
  unfold val
  have := qne ha; have := qne hb
  push_cast
  field_simp

theorem div_exact (c : Int → Int → Int) (hc : CmpAbsOK c) (red : Bool) (a b : QRep) (ha : Valid red a) (hb : Valid red b)
    (hnz : val b ≠ 0) :
    ∃ r, div c red a b = some r ∧ Valid red r ∧ val r = val a / val b := by
  have hbn : b.num ≠ 0 := by
    intro h; apply hnz; unfold val; rw [h]; simp
  obtain ⟨r, h1, h2, h3⟩ := div_spec hc red a b ha hb hbn
  refine ⟨r, h1, h2, ?_⟩
  rw [val_of_den (ine h2) (Int.mul_ne_zero (ine ha) hbn) h3]
  unfold val
  have := qne ha; have := qne hb
  have : (b.num : ℚ) ≠ 0 := by exact_mod_cast hbn
  push_cast
  field_simp

/-- division by zero is rejected (`GivMathDivZero`), by both forms -/
theorem div_by_zero_throws (c : Int → Int → Int) (red : Bool) (a b : QRep) (hb : Valid red b) (hz : val b = 0) :
    div c red a b = none ∧ divin red a b = none := by
  have hbn : b.num = 0 := by
    unfold val at hz
    rcases div_eq_zero_iff.mp hz with h | h
    · exact_mod_cast h
    · exact absurd h (qne hb)
  exact ⟨div_zero c red a b hbn, divin_zero red a b hbn⟩

theorem neg_exact (red : Bool) (a : QRep) (ha : Valid red a) :
    ∃ r, neg a = some r ∧ Valid red r ∧ val r = -val a := by
  obtain ⟨r, h1, h2, h3⟩ := neg_spec red a ha
  refine ⟨r, h1, h2, ?_⟩
  rw [val_of_den (ine h2) (ine ha) h3]
  unfold val; push_cast; ring

theorem abs_exact (red : Bool) (a : QRep) (ha : Valid red a) :
    ∃ r, Model.Rational.abs a = some r ∧ Valid red r ∧ val r = |val a| := by
  obtain ⟨r, h1, h2, h3⟩ := abs_spec red a ha
  refine ⟨r, h1, h2, ?_⟩
  rw [val_of_den (ine h2) (ine ha) h3]
  unfold val
  rw [abs_div, abs_of_pos (qpos ha)]
  push_cast; rfl

-- non-vacuity of the contract hypothesis: the ±1-normalised comparison `cUnit` meets it (`cUnit_ok`)
example : mul cUnit true ⟨2, 3⟩ ⟨9, 4⟩ = some ⟨3, 2⟩ ∧ div cUnit true ⟨2, 3⟩ ⟨-4, 9⟩ = some ⟨-3, 2⟩ := by decide

-- =====================================================================================================
-- in-place forms (identity alias map: the destination is not the right operand)
-- =====================================================================================================

/-- `+=` and `-=` store exactly the pair `+` and `-` return -/
theorem addin_subin_same_as_value_forms (red : Bool) (a b : QRep) (ha : Valid red a) (hb : Valid red b) :
    addin red a b = add red a b ∧ subin red a b = sub red a b :=
  ⟨addin_eq_add red a b ha hb, subin_eq_sub red a b ha hb⟩

theorem addin_exact (red : Bool) (a b : QRep) (ha : Valid red a) (hb : Valid red b) :
    ∃ r, addin red a b = some r ∧ Valid red r ∧ val r = val a + val b := by
  rw [addin_eq_add red a b ha hb]; exact add_exact red a b ha hb

theorem subin_exact (red : Bool) (a b : QRep) (ha : Valid red a) (hb : Valid red b) :
    ∃ r, subin red a b = some r ∧ Valid red r ∧ val r = val a - val b := by
  rw [subin_eq_sub red a b ha hb]; exact sub_exact red a b ha hb

theorem mulin_exact (c : Int → Int → Int) (hc : CmpAbsOK c) (red : Bool) (a b : QRep) (ha : Valid red a) (hb : Valid red b) :
    ∃ r, mulin c red a b = some r ∧ Valid red r ∧ val r = val a * val b := by
  obtain ⟨r, h1, h2, h3⟩ := mulin_spec hc red a b ha hb
  refine ⟨r, h1, h2, ?_⟩
  rw [val_of_den (ine h2) (Int.mul_ne_zero (ine ha) (ine hb)) h3]
  unfold val
  have := qne ha; have := qne hb
  push_cast
  field_simp

theorem divin_exact (red : Bool) (a b : QRep) (ha : Valid red a) (hb : Valid red b) (hnz : val b ≠ 0) :
    ∃ r, divin red a b = some r ∧ Valid red r ∧ val r = val a / val b := by
  have hbn : b.num ≠ 0 := by
    intro h; apply hnz; unfold val; rw [h]; simp
  obtain ⟨r, h1, h2, h3⟩ := divin_spec red a b ha hb hbn
  refine ⟨r, h1, h2, ?_⟩
  rw [val_of_den (ine h2) (Int.mul_ne_zero (ine ha) hbn) h3]
  unfold val
  have := qne ha; have := qne hb
  have : (b.num : ℚ) ≠ 0 := by exact_mod_cast hbn
  push_cast
  field_simp
example : addin true ⟨1, 6⟩ ⟨1, 3⟩ = some ⟨1, 2⟩ ∧ divin true ⟨2, 3⟩ ⟨-4, 9⟩ = some ⟨-3, 2⟩ ∧ val ⟨-4, 9⟩ ≠ 0 := by
  refine ⟨by decide, by decide, ?_⟩
  unfold val; norm_num

-- =====================================================================================================
-- powers
-- =====================================================================================================

/-- `pow(Rational, int64_t)`: exact for every `int64_t` exponent of either sign (`INT64_MIN` included);
    a zero base with a negative exponent is the excluded division by zero -/
theorem pow_exact (red : Bool) (x : QRep) (y : Int) (hx : Valid red x) (hy : InS64 y) (hnz : ¬ (val x = 0 ∧ y < 0)) :
    Valid red (powS64 x y) ∧ val (powS64 x y) = val x ^ y := by
  have hnz' : ¬ (x.num = 0 ∧ y < 0) := by
    intro ⟨h1, h2⟩; apply hnz; refine ⟨?_, h2⟩; unfold val; rw [h1]; simp
  obtain ⟨v, hpos, hneg⟩ := powS64_spec red x y hx hy hnz'
  refine ⟨v, ?_⟩
  by_cases h0 : 0 ≤ y
  · rw [hpos h0]
    obtain ⟨k, hk⟩ : ∃ k : ℕ, y.natAbs = k := ⟨_, rfl⟩
    have hyk : y = (k : ℤ) := by omega
    rw [hk]
    unfold val
    rw [show ((x.num : ℚ) / (x.den : ℚ)) ^ y = ((x.num : ℚ) / (x.den : ℚ)) ^ ((k : ℤ)) by rw [hyk]]
    rw [zpow_natCast, div_pow]
    push_cast; rfl
  · have hlt : y < 0 := by omega
    have hxn : x.num ≠ 0 := fun h => hnz' ⟨h, hlt⟩
    have hd := hneg hlt
    rw [val_of_den (ine v) (pow_ne_zero _ hxn) hd]
    obtain ⟨k, hk⟩ : ∃ k : ℕ, y.natAbs = k := ⟨_, rfl⟩
    have hyk : y = -(k : ℤ) := by omega
    rw [hk]
    unfold val
    rw [show ((x.num : ℚ) / (x.den : ℚ)) ^ y = ((x.num : ℚ) / (x.den : ℚ)) ^ (-(k : ℤ)) by rw [hyk]]
    rw [zpow_neg, zpow_natCast, div_pow, inv_div]
    push_cast; rfl
example : Valid true ⟨-2, 3⟩ ∧ InS64 (-3) ∧ powS64 ⟨-2, 3⟩ (-3) = ⟨-27, 8⟩ :=
  ⟨⟨by decide, fun _ => by decide⟩, by decide, by decide⟩

/-- `pow(Rational, uint32_t|uint64_t)` and the `QField::pow` wrappers -/
theorem pow_unsigned_exact (red : Bool) (x : QRep) (l : Int) (hx : Valid red x) (hl : 0 ≤ l) :
    Valid red (powU x l) ∧ val (powU x l) = val x ^ l.toNat := by
  obtain ⟨v, e⟩ := powU_spec red x l hx hl
  refine ⟨v, ?_⟩
  rw [e]; unfold val; rw [div_pow]; push_cast; rfl
example : powU ⟨-2, 3⟩ 3 = ⟨-8, 27⟩ := by decide

-- =====================================================================================================
-- floor / ceil / trunc / round
-- =====================================================================================================

theorem floor_exact (red : Bool) (a : QRep) (ha : Valid red a) : floor a = ⌊val a⌋ := by
  obtain ⟨h1, h2⟩ := floor_spec a ha.1
  symm
  rw [Int.floor_eq_iff]
  unfold val
  have hq := qpos ha
  constructor
  · rw [le_div_iff₀ hq]; exact_mod_cast h1
  · rw [div_lt_iff₀ hq]; exact_mod_cast h2

theorem ceil_exact (red : Bool) (a : QRep) (ha : Valid red a) : ceil a = ⌈val a⌉ := by
  obtain ⟨h1, h2⟩ := ceil_spec a ha.1
  symm
  rw [Int.ceil_eq_iff]
  unfold val
  have hq := qpos ha
  constructor
  · rw [lt_div_iff₀ hq]; exact_mod_cast h1
  · rw [div_le_iff₀ hq]; exact_mod_cast h2

/-- truncation towards zero -/
theorem trunc_exact (red : Bool) (a : QRep) (ha : Valid red a) :
    trunc a = if 0 ≤ val a then ⌊val a⌋ else ⌈val a⌉ := by
  rw [trunc_spec a ha.1, ← floor_exact red a ha, ← ceil_exact red a ha]
  have hq := qpos ha
  have : (0 ≤ val a) ↔ 0 ≤ a.num := by
    unfold val
    rw [le_div_iff₀ hq, zero_mul]
    exact_mod_cast Iff.rfl
  simp only [this]

/-- `round`: an integer nearest to the value, and a tie is never resolved towards zero
    (half away from zero, as C's `round`), for every admissible `mpz_cmpabs` -/
theorem round_exact (c : Int → Int → Int) (hc : CmpAbsOK c) (red : Bool) (a : QRep) (ha : Valid red a) :
    |(round c a : ℚ) - val a| ≤ 1 / 2 ∧
    (0 ≤ val a → val a - (round c a : ℚ) ≠ 1 / 2) ∧
    (val a < 0 → (round c a : ℚ) - val a ≠ 1 / 2) := by
  obtain ⟨h1, h2, h3, h4⟩ := round_spec hc a ha.1
  have hq := qpos ha
  have hq0 := qne ha
  have e1 : (2 * (a.den : ℚ) * (round c a : ℚ) - a.den ≤ 2 * a.num) := by exact_mod_cast h1
  have e2 : (2 * (a.num : ℚ) ≤ 2 * (a.den : ℚ) * (round c a : ℚ) + a.den) := by exact_mod_cast h2
  have hv : val a * a.den = a.num := by unfold val; field_simp
  refine ⟨?_, ?_, ?_⟩
  · rw [abs_le]
    constructor
    · by_contra hh
      rw [not_le] at hh
      have : ((round c a : ℚ) - val a) * a.den < -(1 / 2) * a.den := mul_lt_mul_of_pos_right hh hq
      nlinarith
    · by_contra hh
      rw [not_le] at hh
      have : (1 / 2) * (a.den : ℚ) < ((round c a : ℚ) - val a) * a.den := mul_lt_mul_of_pos_right hh hq
      nlinarith
  · intro h0 heq
    have hn : 0 ≤ a.num := by
      have : 0 ≤ val a * a.den := mul_nonneg h0 (le_of_lt hq)
      rw [hv] at this
      exact_mod_cast this
    apply h3 hn
    have : (2 * (a.num : ℚ) = 2 * (a.den : ℚ) * (round c a : ℚ) + a.den) := by
      have : val a = (round c a : ℚ) + 1 / 2 := by linarith
      rw [← hv, this]; ring
    exact_mod_cast this
  · intro h0 heq
    have hn : a.num < 0 := by
      have : val a * a.den < 0 := mul_neg_of_neg_of_pos h0 hq
      rw [hv] at this
      exact_mod_cast this
    apply h4 hn
    have : (2 * (a.num : ℚ) = 2 * (a.den : ℚ) * (round c a : ℚ) - a.den) := by
      have : val a = (round c a : ℚ) - 1 / 2 := by linarith
      rw [← hv, this]; ring
    exact_mod_cast this
example : floor ⟨-7, 2⟩ = -4 ∧ ceil ⟨-7, 2⟩ = -3 ∧ trunc ⟨-7, 2⟩ = -3 ∧ round cUnit ⟨-7, 2⟩ = -4 ∧ round cUnit ⟨5, 2⟩ = 3
    ∧ round cUnit ⟨7, 3⟩ = 2 := by decide

-- =====================================================================================================
-- the order of ℚ
-- =====================================================================================================

/-- `compare` returns a value whose sign is the sign of `a - b` — for every admissible `mpz_cmpabs`,
    all sizes of numerators and denominators, both modes (only positive denominators are needed) -/
theorem compare_sign (c : Int → Int → Int) (hc : CmpAbsOK c) (a b : QRep) (ha : 0 < a.den) (hb : 0 < b.den) :
    (Model.Rational.compare c a b < 0 ↔ val a < val b) ∧ (Model.Rational.compare c a b = 0 ↔ val a = val b) ∧
    (Model.Rational.compare c a b > 0 ↔ val a > val b) := by
  obtain ⟨h1, h2⟩ := compare_spec hc a b ha hb
  rw [val_lt_iff a b ha hb, val_eq_iff a b ha hb, gt_iff_lt, gt_iff_lt, val_lt_iff b a hb ha]
  refine ⟨h1, h2, ?_⟩
  constructor
  · intro h
    have n1 : ¬ (a.num * b.den < b.num * a.den) := fun q => by have := h1.mpr q; omega
    have n2 : ¬ (a.num * b.den = b.num * a.den) := fun q => by have := h2.mpr q; omega
    omega
  · intro h
    have n1 : ¬ (Model.Rational.compare c a b < 0) := fun q => by have := h1.mp q; omega
    have n2 : ¬ (Model.Rational.compare c a b = 0) := fun q => by have := h2.mp q; omega
    omega

/-- the six comparison operators realise the order of ℚ -/
theorem order_operators (c : Int → Int → Int) (hc : CmpAbsOK c) (a b : QRep) (ha : 0 < a.den) (hb : 0 < b.den) :
    (lt c a b = true ↔ val a < val b) ∧ (gt c a b = true ↔ val a > val b) ∧
    (le c a b = true ↔ val a ≤ val b) ∧ (ge c a b = true ↔ val a ≥ val b) ∧
    (eq c a b = true ↔ val a = val b) ∧ (ne c a b = true ↔ val a ≠ val b) := by
  obtain ⟨h1, h2, h3⟩ := compare_sign c hc a b ha hb
  unfold lt gt le ge eq ne
  simp only [decide_eq_true_eq, beq_iff_eq, bne_iff_ne, ne_eq]
  refine ⟨h1, h3, ?_, ?_, h2, not_congr h2⟩
  · constructor
    · intro h
      by_contra hh
      have : val a > val b := lt_of_not_ge hh
      have := h3.mpr this; omega
    · intro h
      by_contra hh
      have : Model.Rational.compare c a b > 0 := by omega
      have := h3.mp this; linarith
  · constructor
    · intro h
      by_contra hh
      have : val a < val b := lt_of_not_ge hh
      have := h1.mpr this; omega
    · intro h
      by_contra hh
      have : Model.Rational.compare c a b < 0 := by omega
      have := h1.mp this; linarith

/-- total order: for any `a`, `b` exactly one of `a<b`, `a==b`, `a>b` holds, and it matches `sign (a - b)` -/
theorem order_total (c : Int → Int → Int) (hc : CmpAbsOK c) (a b : QRep) (ha : 0 < a.den) (hb : 0 < b.den) :
    ((lt c a b = true ∧ eq c a b = false ∧ gt c a b = false) ∨
     (lt c a b = false ∧ eq c a b = true ∧ gt c a b = false) ∨
     (lt c a b = false ∧ eq c a b = false ∧ gt c a b = true)) ∧
    (lt c a b = true ↔ val a - val b < 0) ∧ (eq c a b = true ↔ val a - val b = 0) ∧ (gt c a b = true ↔ val a - val b > 0) := by
  obtain ⟨h1, h2, _, _, h5, _⟩ := order_operators c hc a b ha hb
  refine ⟨?_, by rw [h1, sub_neg], by rw [h5, sub_eq_zero], by rw [h2, gt_iff_lt, gt_iff_lt, sub_pos]⟩
  rcases lt_trichotomy (val a) (val b) with h | h | h
  · left
    refine ⟨h1.mpr h, ?_, ?_⟩
    · rw [Bool.eq_false_iff]; intro q; have := h5.mp q; linarith
    · rw [Bool.eq_false_iff]; intro q; have := h2.mp q; linarith
  · right; left
    refine ⟨?_, h5.mpr h, ?_⟩
    · rw [Bool.eq_false_iff]; intro q; have := h1.mp q; linarith
    · rw [Bool.eq_false_iff]; intro q; have := h2.mp q; linarith
  · right; right
    refine ⟨?_, ?_, h2.mpr h⟩
    · rw [Bool.eq_false_iff]; intro q; have := h1.mp q; linarith
    · rw [Bool.eq_false_iff]; intro q; have := h5.mp q; linarith
example : CmpAbsOK cUnit ∧ lt cUnit ⟨1, 3⟩ ⟨100000000000000000000000000000000000000001, 3⟩ = true := ⟨cUnit_ok, by decide⟩

-- =====================================================================================================
-- construction: integers, pairs, text, doubles
-- =====================================================================================================

/-- `Rational(int32_t|uint32_t|int64_t|uint64_t)`, `Rational(const Integer&)`, `Rational(Neutral)`, and `QField::init` from them -/
theorem of_integer_exact (n : Int) (one : Bool) :
    Canon (ofWord n) ∧ val (ofWord n) = n ∧ Canon (ofInteger n) ∧ val (ofInteger n) = n ∧
    Canon (ofNeutral one) ∧ val (ofNeutral one) = (if one then 1 else 0) := by
  rw [ofInteger_eq]
  refine ⟨canon_int n, by simp [val, ofWord], canon_int n, by simp [val], ?_, ?_⟩
  · cases one <;> exact canon_int _
  · cases one <;> simp [val, ofNeutral]

/-- the reducing pair constructors `Rational(Integer,Integer)`, `Rational(int64_t,int64_t)`, `Rational(int32_t,int32_t)`,
    `QField::init(a,n,d)` and text `n/d`: canonical and exact for every numerator and every non-zero denominator of either sign -/
theorem of_pair_exact (n d : Int) (hd : d ≠ 0) :
    (∃ r, mk3 n d 1 = some r ∧ Canon r ∧ val r = (n : ℚ) / d) ∧
    (∃ r, mk2S n d = some r ∧ Canon r ∧ val r = (n : ℚ) / d) ∧
    (∃ r, ofText n (some d) = some r ∧ Canon r ∧ val r = (n : ℚ) / d) := by
  obtain ⟨r, h1, h2, h3⟩ := mk3_red_spec n d hd
  have hv := val_of_den (by have := h2.1; omega) hd h3
  exact ⟨⟨r, h1, h2, hv⟩, ⟨r, by rw [mk2S_eq]; exact h1, h2, hv⟩, ⟨r, h1, h2, hv⟩⟩
example : mk3 6 (-8) 1 = some ⟨-3, 4⟩ ∧ mk2S (-9223372036854775808) (-1) = some ⟨9223372036854775808, 1⟩ := by decide

/-- the unsigned pair constructors `Rational(uint64_t,uint64_t)`, `Rational(uint32_t,uint32_t)` -/
theorem of_unsigned_pair_exact (n d : Int) (hn : 0 ≤ n) (hd : 0 < d) :
    ∃ r, mk2U n d = some r ∧ Canon r ∧ val r = (n : ℚ) / d := by
  obtain ⟨r, h1, h2, h3⟩ := mk2U_spec n d hn hd
  exact ⟨r, h1, h2, val_of_den (by have := h2.1; omega) (by omega) h3⟩
example : mk2U 6 8 = some ⟨3, 4⟩ := by decide

/-- a zero denominator is rejected by every pair constructor -/
theorem of_pair_zero_den_throws (n red : Int) : mk3 n 0 red = none ∧ mk2S n 0 = none ∧ mk2U n 0 = none := by
  refine ⟨mk3_zero n red, by rw [mk2S_eq]; exact mk3_zero n 1, mk2U_zero n⟩

/-- `Rational(n, d, 0)`: sign-normalised and exact, not reduced -/
theorem of_pair_noreduce_exact (n d red : Int) (hd : d ≠ 0) (hr : red ≠ 1) :
    ∃ r, mk3 n d red = some r ∧ 0 < r.den ∧ val r = (n : ℚ) / d := by
  obtain ⟨r, h1, h2, h3⟩ := mk3_nored_spec n d red hd hr
  exact ⟨r, h1, h2, val_of_den (by omega) hd h3⟩
example : mk3 6 (-8) 0 = some ⟨-6, 8⟩ := by decide

/-- text without a denominator -/
theorem of_text_integer_exact (n : Int) : ∃ r, ofText n none = some r ∧ Canon r ∧ val r = n := by
  refine ⟨⟨n, 1⟩, by simp [ofText, ofInteger_eq], canon_int n, by simp [val]⟩

/-- the value of the IEEE-754 double with sign bit `s`, biased exponent `e` and mantissa `m` -/
def doubleVal (s e m : Int) : ℚ :=
  (if s = 1 then -1 else 1) *
    (if e = 0 then (m : ℚ) * (2 : ℚ) ^ (-1074 : ℤ) else ((2 : ℚ) ^ 52 + m) * (2 : ℚ) ^ (e - 1075))

/-- `Rational(double)` / `QField::init(r, double)`: for every finite double — both signs, ±0, every subnormal,
    every normal exponent — the result is the exact value, and canonical under the default mode -/
theorem of_double_exact (red : Bool) (s e m : Int) (hs : s = 0 ∨ s = 1) (he0 : 0 ≤ e) (he : e < 2047)
    (hm0 : 0 ≤ m) (hm : m < 4503599627370496) :
    ∃ r, ofDouble red s e m = some r ∧ Valid red r ∧ val r = doubleVal s e m := by
  obtain ⟨r, h1, h2, h3⟩ := ofDouble_spec red s e m hs he0 he hm0 hm
  refine ⟨r, h1, h2, ?_⟩
  have hfd : (doubleFrac s e m).2 ≠ 0 := by
    unfold doubleFrac; split_ifs <;> simp only <;> positivity
  rw [val_of_den (ine h2) hfd h3]
  unfold doubleFrac doubleVal
  by_cases h0 : e = 0
  · simp only [h0, ↓reduceIte]
    rw [zpow_neg]
    push_cast
    rw [div_eq_mul_inv]
    norm_cast
    split_ifs <;> simp <;> ring
  · simp only [h0, ↓reduceIte]
    by_cases h1 : e ≥ 1075
    · simp only [h1, ↓reduceIte]
      obtain ⟨k, hk⟩ : ∃ k : ℕ, (e - 1075).toNat = k := ⟨_, rfl⟩
      have hek : e - 1075 = (k : ℤ) := by omega
      rw [hk, hek, zpow_natCast]
      push_cast
      split_ifs <;> simp <;> ring
    · simp only [h1, ↓reduceIte]
      obtain ⟨k, hk⟩ : ∃ k : ℕ, (1075 - e).toNat = k := ⟨_, rfl⟩
      have hek : e - 1075 = -(k : ℤ) := by omega
      rw [hk, hek, zpow_neg, zpow_natCast]
      push_cast
      rw [div_eq_mul_inv]
      split_ifs <;> simp <;> ring
example : ofDouble true 0 1023 0 = some ⟨1, 1⟩ ∧ ofDouble true 1 1022 0 = some ⟨-1, 2⟩ := by decide

-- =====================================================================================================
-- the field interface QField<Rational>
-- =====================================================================================================

/-- `neg`, `negin`, `inv`, `invin` (destination distinct from the operand) -/
theorem qfield_neg_inv_exact (red : Bool) (a : QRep) (ha : Valid red a) :
    Valid red (fneg a) ∧ val (fneg a) = -val a ∧
    (val a ≠ 0 → Valid red (finv a) ∧ val (finv a) = (val a)⁻¹) := by
  obtain ⟨v, d⟩ := fneg_spec red a ha
  refine ⟨v, ?_, ?_⟩
  · rw [val_of_den (ine v) (ine ha) d]; unfold val; push_cast; ring
  · intro hnz
    have hn : a.num ≠ 0 := by intro h; apply hnz; unfold val; rw [h]; simp
    obtain ⟨v', d'⟩ := finv_spec red a ha hn
    refine ⟨v', ?_⟩
    rw [val_of_den (ine v') hn d']; unfold val; rw [inv_div]
example : finv ⟨-3, 7⟩ = ⟨-7, 3⟩ ∧ fneg ⟨-3, 7⟩ = ⟨3, 7⟩ := by decide

/-- `add sub mul div addin subin mulin divin` are the operators (qfield.h forwards), so the theorems above apply;
    the fused forms compose them: `axpy`, `axpyin`, `maxpy`, `axmy`, `axmyin`, `maxpyin` -/
theorem qfield_fused_exact (c : Int → Int → Int) (hc : CmpAbsOK c) (red : Bool) (a b z : QRep)
    (ha : Valid red a) (hb : Valid red b) (hz : Valid red z) :
    (∃ r, axpy c red a b z = some r ∧ Valid red r ∧ val r = val a * val b + val z) ∧
    (∃ r, axpyin c red z a b = some r ∧ Valid red r ∧ val r = val z + val a * val b) ∧
    (∃ r, maxpy c red a b z = some r ∧ Valid red r ∧ val r = val z - val a * val b) ∧
    (∃ r, axmy c red a b z = some r ∧ Valid red r ∧ val r = val a * val b - val z) ∧
    (∃ r, axmyin c red z a b = some r ∧ Valid red r ∧ val r = val a * val b - val z) ∧
    (∃ r, maxpyin c red z a b = some r ∧ Valid red r ∧ val r = val z - val a * val b) := by
  obtain ⟨p, hp, vp, ep⟩ := mul_exact c hc red a b ha hb
  unfold axpy axpyin maxpy axmy axmyin maxpyin
  simp only [hp, bind2]
  refine ⟨?_, ?_, ?_, ?_, ?_, ?_⟩
  · obtain ⟨r, h1, h2, h3⟩ := add_exact red p z vp hz; exact ⟨r, h1, h2, by rw [h3, ep]⟩
  · obtain ⟨r, h1, h2, h3⟩ := addin_exact red z p hz vp; exact ⟨r, h1, h2, by rw [h3, ep]⟩
  · obtain ⟨r, h1, h2, h3⟩ := sub_exact red z p hz vp; exact ⟨r, h1, h2, by rw [h3, ep]⟩
  · obtain ⟨r, h1, h2, h3⟩ := sub_exact red p z vp hz; exact ⟨r, h1, h2, by rw [h3, ep]⟩
  · obtain ⟨r, h1, h2, h3⟩ := sub_exact red p z vp hz; exact ⟨r, h1, h2, by rw [h3, ep]⟩
  · obtain ⟨r, h1, h2, h3⟩ := subin_exact red z p hz vp; exact ⟨r, h1, h2, by rw [h3, ep]⟩
example : axpy cUnit true ⟨1, 2⟩ ⟨2, 3⟩ ⟨1, 6⟩ = some ⟨1, 2⟩ := by decide

/-- `isZero`, `isOne`, `isMOne`, `areEqual` of the field interface are comparisons with the constants -/
theorem qfield_predicates_exact (c : Int → Int → Int) (hc : CmpAbsOK c) (a b : QRep) (ha : 0 < a.den) (hb : 0 < b.den) :
    (Model.Rational.compare c a ⟨0, 1⟩ = 0 ↔ val a = 0) ∧ (Model.Rational.compare c a ⟨1, 1⟩ = 0 ↔ val a = 1) ∧
    (Model.Rational.compare c a ⟨-1, 1⟩ = 0 ↔ val a = -1) ∧ (Model.Rational.compare c a b = 0 ↔ val a = val b) := by
  have h0 := (compare_sign c hc a ⟨0, 1⟩ ha Int.one_pos).2.1
  have h1 := (compare_sign c hc a ⟨1, 1⟩ ha Int.one_pos).2.1
  have h2 := (compare_sign c hc a ⟨-1, 1⟩ ha Int.one_pos).2.1
  refine ⟨?_, ?_, ?_, (compare_sign c hc a b ha hb).2.1⟩
  · rw [h0]; simp [val]
  · rw [h1]; simp [val]
  · rw [h2]; simp [val]

-- =====================================================================================================
-- further public entry points
-- =====================================================================================================

/-- the mixed forms of givrational.inl (`r + int`, `int - r`, …) apply the operator to `Rational(int)`, which is a valid operand -/
theorem mixed_int_operand_valid (red : Bool) (i : Int) : Valid red (ofWord i) ∧ val (ofWord i) = i :=
  ⟨valid_int red i, by simp [val, ofWord]⟩

/-- `Rational::reduce(const Rational&)`: canonical and of the same value, whatever the mode -/
theorem reduce_exact (a : QRep) (ha : 0 < a.den) : Canon (reduce a) ∧ val (reduce a) = val a := by
  obtain ⟨c, d⟩ := reduce_spec a ha
  exact ⟨c, val_of_den (by have := c.1; omega) (by omega) d⟩
example : reduce ⟨-6, 8⟩ = ⟨-3, 4⟩ := by decide

/-- `absCompare(Rational, Rational)` orders absolute values (numerators non-zero, as at its call sites in `compare`) -/
theorem abs_compare_sign (c : Int → Int → Int) (hc : CmpAbsOK c) (a b : QRep) (ha : 0 < a.den) (hb : 0 < b.den)
    (hna : val a ≠ 0) (hnb : val b ≠ 0) :
    (absCompare c a b < 0 ↔ |val a| < |val b|) ∧ (absCompare c a b = 0 ↔ |val a| = |val b|) := by
  have hna' : a.num ≠ 0 := by intro h; apply hna; unfold val; rw [h]; simp
  have hnb' : b.num ≠ 0 := by intro h; apply hnb; unfold val; rw [h]; simp
  obtain ⟨h1, h2⟩ := absCompare_spec hc a b ha hb hna' hnb'
  have e1 := val_lt_iff ⟨|a.num|, a.den⟩ ⟨|b.num|, b.den⟩ ha hb
  have e2 := val_eq_iff ⟨|a.num|, a.den⟩ ⟨|b.num|, b.den⟩ ha hb
  have hqa : (0 : ℚ) < a.den := by exact_mod_cast ha
  have hqb : (0 : ℚ) < b.den := by exact_mod_cast hb
  have va : |val a| = val ⟨|a.num|, a.den⟩ := by unfold val; rw [abs_div, abs_of_pos hqa]; push_cast; rfl
  have vb : |val b| = val ⟨|b.num|, b.den⟩ := by unfold val; rw [abs_div, abs_of_pos hqb]; push_cast; rfl
  rw [va, vb, e1, e2]
  exact ⟨h1, h2⟩
example : absCompare cUnit ⟨-1, 2⟩ ⟨1, 3⟩ = 1 := by decide

-- =====================================================================================================
-- the Integer layer underneath
-- =====================================================================================================

/-- the `Int` operations the model uses for the `Integer` calls of givrat*.C are what the *translated* gmp++ bodies
    (regenerated from /repo, C01/C02) return, and the framework's `mpz_cmpabs` (opaque magnitude) is an admissible
    comparison — so the order theorems apply to the model of the real `absCompare(Integer,Integer)` -/
theorem integer_layer_is_translated_code (a b : Int) (hb : b ≠ 0) :
    igcd a b = (Gen.gcd_Zc_Zc a b).ret ∧ idiv a b = (Gen.Integer_op_div_Zc_const a b).ret ∧
    idiv a b = (Gen.Integer_op_divin_Zc a b).ret ∧ isign a = (Gen.sign_Zc a).ret ∧ iabs a = (Gen.abs_Zc a).ret ∧
    a + b = (Gen.Integer_op_add_Zc_const a b).ret ∧ a - b = (Gen.Integer_op_sub_Zc_const a b).ret ∧
    a * b = (Gen.Integer_op_mul_Zc_const a b).ret ∧
    Int.fdiv a b = (Gen.Integer_floor_Zc_Zc a b).ret ∧ -(Int.fdiv (-a) b) = (Gen.Integer_ceil_Zc_Zc a b).ret ∧
    ipowS64 a b = (Gen.pow_Zc_s64 a b).ret ∧ ipowU a b = (Gen.pow_Zc_u64 a b).ret ∧
    (Gen.absCompare_Zc_Zc a b).ret = mpz_cmpabs a b ∧ CmpAbsOK mpz_cmpabs := by
  obtain ⟨r1, r2, r3, _⟩ := ring_ops_translated a b
  obtain ⟨f1, f2⟩ := floor_ceil_translated ⟨a, b⟩ hb
  exact ⟨igcd_translated a b, (idiv_translated a b hb).1, (idiv_translated a b hb).2, isign_translated a, iabs_translated a,
    r1, r2, r3, f1, f2, (ipow_translated a b).1, (ipow_translated a b).2, cmpabs_translated.1 a b, cmpabs_translated.2⟩
example : igcd 12 (-18) = 6 ∧ idiv (-7) 2 = -3 := by decide

/-- the headline order statement for the framework's model of GMP itself -/
theorem order_total_gmp (a b : QRep) (ha : 0 < a.den) (hb : 0 < b.den) :
    (lt mpz_cmpabs a b = true ↔ val a < val b) ∧ (eq mpz_cmpabs a b = true ↔ val a = val b) ∧
    (gt mpz_cmpabs a b = true ↔ val a > val b) := by
  obtain ⟨h1, h2, _, _, h5, _⟩ := order_operators mpz_cmpabs cmpabs_translated.2 a b ha hb
  exact ⟨h1, h5, h2⟩

/-- soundness of the other reference functions the correspondence driver compares the implementation with:
    `cmpSpec` is the sign of `a - b`; `floorSpec/ceilSpec/truncSpec/roundSpec` are the floor, the ceiling, the truncation
    and the (unique) nearest integer with ties away from zero — they coincide with the model, hence with ℚ by the
    theorems above -/
theorem driver_reference_functions_sound (c : Int → Int → Int) (hc : CmpAbsOK c) (a b : QRep) (ha : 0 < a.den) (hb : 0 < b.den) :
    (cmpSpec a b < 0 ↔ val a < val b) ∧ (cmpSpec a b = 0 ↔ val a = val b) ∧ (cmpSpec a b > 0 ↔ val a > val b) ∧
    floorSpec a.num a.den = ⌊val a⌋ ∧ ceilSpec a.num a.den = ⌈val a⌉ ∧
    truncSpec a.num a.den = trunc a ∧ roundSpec a.num a.den = round c a := by
  have va : Valid false a := ⟨ha, fun h => by cases h⟩
  obtain ⟨s1, s2, s3⟩ := isign_cases (a.num * b.den - b.num * a.den)
  refine ⟨?_, ?_, ?_, ?_, ?_, truncSpec_eq a ha, roundSpec_eq hc a ha⟩
  · unfold cmpSpec; rw [s1, val_lt_iff a b ha hb]; omega
  · unfold cmpSpec; rw [s2, val_eq_iff a b ha hb]; omega
  · unfold cmpSpec; rw [s3, gt_iff_lt, gt_iff_lt, val_lt_iff b a hb ha]; omega
  · rw [floorSpec_eq a ha]; exact floor_exact false a va
  · rw [ceilSpec_eq a ha]; exact ceil_exact false a va
example : cmpSpec ⟨1, 3⟩ ⟨1, 2⟩ = -1 ∧ roundSpec (-5) 2 = -3 ∧ truncSpec (-5) 2 = -2 := by decide

-- =====================================================================================================
-- whole computations: the operand invariant is inductive
-- =====================================================================================================

/-- a computation built from the constructors and operations of the class -/
inductive Expr where
  | ofInt (n : Int)                       -- Rational(word) / Rational(Integer)
  | ofPair (n d : Int)                    -- Rational(n, d), init(a, n, d), text "n/d"
  | ofDouble (s e m : Int)                -- Rational(double) by IEEE-754 fields
  | add (a b : Expr) | sub (a b : Expr) | mul (a b : Expr) | div (a b : Expr)
  | addin (a b : Expr) | subin (a b : Expr) | mulin (a b : Expr) | divin (a b : Expr)
  | neg (a : Expr) | inv (a : Expr) | powi (a : Expr) (y : Int)

/-- what the code computes (the model; `none` = an exception) -/
def run (c : Int → Int → Int) (red : Bool) : Expr → Option QRep
  | .ofInt n => some (ofInteger n)
  | .ofPair n d => mk3 n d 1
  | .ofDouble s e m => ofDouble red s e m
  | .add a b => bind2 (Model.Rational.add red) (run c red a) (run c red b)
  | .sub a b => bind2 (Model.Rational.sub red) (run c red a) (run c red b)
  | .mul a b => bind2 (Model.Rational.mul c red) (run c red a) (run c red b)
  | .div a b => bind2 (Model.Rational.div c red) (run c red a) (run c red b)
  | .addin a b => bind2 (Model.Rational.addin red) (run c red a) (run c red b)
  | .subin a b => bind2 (Model.Rational.subin red) (run c red a) (run c red b)
  | .mulin a b => bind2 (Model.Rational.mulin c red) (run c red a) (run c red b)
  | .divin a b => bind2 (Model.Rational.divin red) (run c red a) (run c red b)
  | .neg a => (run c red a).bind Model.Rational.neg
  | .inv a => (run c red a).map finv
  | .powi a y => (run c red a).map (fun x => powS64 x y)

/-- what the computation means in ℚ (`none` = not defined: zero denominator, division by zero, 0 to a negative power,
    or an argument outside its C++ type: non-finite double, exponent outside `int64_t`) -/
def meaning : Expr → Option ℚ
  | .ofInt n => some n
  | .ofPair n d => if d = 0 then none else some ((n : ℚ) / d)
  | .ofDouble s e m =>
    if (s = 0 ∨ s = 1) ∧ 0 ≤ e ∧ e < 2047 ∧ 0 ≤ m ∧ m < 4503599627370496 then some (doubleVal s e m) else none
  | .add a b | .addin a b => match meaning a, meaning b with
    | some x, some y => some (x + y) | _, _ => none
  | .sub a b | .subin a b => match meaning a, meaning b with
    | some x, some y => some (x - y) | _, _ => none
  | .mul a b | .mulin a b => match meaning a, meaning b with
    | some x, some y => some (x * y) | _, _ => none
  | .div a b | .divin a b => match meaning a, meaning b with
    | some x, some y => if y = 0 then none else some (x / y) | _, _ => none
  | .neg a => (meaning a).map (fun x => -x)
  | .inv a => match meaning a with
    | some x => if x = 0 then none else some x⁻¹ | none => none
  | .powi a y => match meaning a with
    | some x => if InS64 y ∧ ¬ (x = 0 ∧ y < 0) then some (x ^ y) else none | none => none

/-- **Every defined computation is exact and ends in a value satisfying the invariant** (canonical under the default
    mode): the hypotheses `Valid` of the one-step theorems are discharged by the steps before them. -/
theorem computation_exact (c : Int → Int → Int) (hc : CmpAbsOK c) (red : Bool) (e : Expr) (q : ℚ)
    (h : meaning e = some q) : ∃ r, run c red e = some r ∧ Valid red r ∧ val r = q := by
  induction e generalizing q with
  | ofInt n =>
    simp only [meaning, Option.some.injEq] at h; subst h
    exact ⟨_, rfl, by rw [ofInteger_eq]; exact valid_int red n, (of_integer_exact n true).2.2.2.1⟩
  | ofPair n d =>
    simp only [meaning] at h
    split at h
    · cases h
    · rename_i hd
      simp only [Option.some.injEq] at h; subst h
      obtain ⟨r, h1, h2, h3⟩ := (of_pair_exact n d hd).1
      exact ⟨r, h1, canon_valid h2 red, h3⟩
  | ofDouble s e m =>
    simp only [meaning] at h
    split at h
    · rename_i hr
      simp only [Option.some.injEq] at h; subst h
      exact of_double_exact red s e m hr.1 hr.2.1 hr.2.2.1 hr.2.2.2.1 hr.2.2.2.2
    · cases h
  | add a b iha ihb =>
    simp only [meaning] at h
    split at h
    · rename_i x y hx hy
      simp only [Option.some.injEq] at h; subst h
      obtain ⟨ra, ea, va, wa⟩ := iha x hx
      obtain ⟨rb, eb, vb, wb⟩ := ihb y hy
      obtain ⟨r, h1, h2, h3⟩ := add_exact red ra rb va vb
      exact ⟨r, by simp only [run, ea, eb, bind2, h1], h2, by rw [h3, wa, wb]⟩
    · cases h
  | addin a b iha ihb =>
    simp only [meaning] at h
    split at h
    · rename_i x y hx hy
      simp only [Option.some.injEq] at h; subst h
      obtain ⟨ra, ea, va, wa⟩ := iha x hx
      obtain ⟨rb, eb, vb, wb⟩ := ihb y hy
      obtain ⟨r, h1, h2, h3⟩ := addin_exact red ra rb va vb
      exact ⟨r, by simp only [run, ea, eb, bind2, h1], h2, by rw [h3, wa, wb]⟩
    · cases h
  | sub a b iha ihb =>
    simp only [meaning] at h
    split at h
    · rename_i x y hx hy
      simp only [Option.some.injEq] at h; subst h
      obtain ⟨ra, ea, va, wa⟩ := iha x hx
      obtain ⟨rb, eb, vb, wb⟩ := ihb y hy
      obtain ⟨r, h1, h2, h3⟩ := sub_exact red ra rb va vb
      exact ⟨r, by simp only [run, ea, eb, bind2, h1], h2, by rw [h3, wa, wb]⟩
    · cases h
  | subin a b iha ihb =>
    simp only [meaning] at h
    split at h
    · rename_i x y hx hy
      simp only [Option.some.injEq] at h; subst h
      obtain ⟨ra, ea, va, wa⟩ := iha x hx
      obtain ⟨rb, eb, vb, wb⟩ := ihb y hy
      obtain ⟨r, h1, h2, h3⟩ := subin_exact red ra rb va vb
      exact ⟨r, by simp only [run, ea, eb, bind2, h1], h2, by rw [h3, wa, wb]⟩
    · cases h
  | mul a b iha ihb =>
    simp only [meaning] at h
    split at h
    · rename_i x y hx hy
      simp only [Option.some.injEq] at h; subst h
      obtain ⟨ra, ea, va, wa⟩ := iha x hx
      obtain ⟨rb, eb, vb, wb⟩ := ihb y hy
      obtain ⟨r, h1, h2, h3⟩ := mul_exact c hc red ra rb va vb
      exact ⟨r, by simp only [run, ea, eb, bind2, h1], h2, by rw [h3, wa, wb]⟩
    · cases h
  | mulin a b iha ihb =>
    simp only [meaning] at h
    split at h
    · rename_i x y hx hy
      simp only [Option.some.injEq] at h; subst h
      obtain ⟨ra, ea, va, wa⟩ := iha x hx
      obtain ⟨rb, eb, vb, wb⟩ := ihb y hy
      obtain ⟨r, h1, h2, h3⟩ := mulin_exact c hc red ra rb va vb
      exact ⟨r, by simp only [run, ea, eb, bind2, h1], h2, by rw [h3, wa, wb]⟩
    · cases h
  | div a b iha ihb =>
    simp only [meaning] at h
    split at h
    · rename_i x y hx hy
      split at h
      · cases h
      · rename_i hy0
        simp only [Option.some.injEq] at h; subst h
        obtain ⟨ra, ea, va, wa⟩ := iha x hx
        obtain ⟨rb, eb, vb, wb⟩ := ihb y hy
        obtain ⟨r, h1, h2, h3⟩ := div_exact c hc red ra rb va vb (by rw [wb]; exact hy0)
        exact ⟨r, by simp only [run, ea, eb, bind2, h1], h2, by rw [h3, wa, wb]⟩
    · cases h
  | divin a b iha ihb =>
    simp only [meaning] at h
    split at h
    · rename_i x y hx hy
      split at h
      · cases h
      · rename_i hy0
        simp only [Option.some.injEq] at h; subst h
        obtain ⟨ra, ea, va, wa⟩ := iha x hx
        obtain ⟨rb, eb, vb, wb⟩ := ihb y hy
        obtain ⟨r, h1, h2, h3⟩ := divin_exact red ra rb va vb (by rw [wb]; exact hy0)
        exact ⟨r, by simp only [run, ea, eb, bind2, h1], h2, by rw [h3, wa, wb]⟩
    · cases h
  | neg a iha =>
    simp only [meaning, Option.map_eq_some_iff] at h
    obtain ⟨x, hx, rfl⟩ := h
    obtain ⟨ra, ea, va, wa⟩ := iha x hx
    obtain ⟨r, h1, h2, h3⟩ := neg_exact red ra va
    exact ⟨r, by simp only [run, ea, Option.bind_some, h1], h2, by rw [h3, wa]⟩
  | inv a iha =>
    simp only [meaning] at h
    split at h
    · rename_i x hx
      split at h
      · cases h
      · rename_i hx0
        simp only [Option.some.injEq] at h; subst h
        obtain ⟨ra, ea, va, wa⟩ := iha x hx
        obtain ⟨h2, h3⟩ := (qfield_neg_inv_exact red ra va).2.2 (by rw [wa]; exact hx0)
        exact ⟨finv ra, by simp only [run, ea, Option.map_some], h2, by rw [h3, wa]⟩
    · cases h
  | powi a y iha =>
    simp only [meaning] at h
    split at h
    · rename_i x hx
      split at h
      · rename_i hc'
        simp only [Option.some.injEq] at h; subst h
        obtain ⟨ra, ea, va, wa⟩ := iha x hx
        obtain ⟨h2, h3⟩ := pow_exact red ra y va hc'.1 (by rw [wa]; exact hc'.2)
        exact ⟨powS64 ra y, by simp only [run, ea, Option.map_some], h2, by rw [h3, wa]⟩
      · cases h
    · cases h
-- non-vacuity: ((1/6 + 1/3) / (-3/4))^(-2) * 0.5  is defined, and the model computes 9/8 in canonical form
example : run cUnit true (.mul (.powi (.div (.add (.ofPair 1 6) (.ofPair 2 6)) (.ofPair 3 (-4))) (-2)) (.ofDouble 0 1022 0))
    = some ⟨9, 8⟩ := by decide
example : meaning (.mul (.powi (.div (.add (.ofPair 1 6) (.ofPair 2 6)) (.ofPair 3 (-4))) (-2)) (.ofDouble 0 1022 0))
    = some (9 / 8) := by
  simp only [meaning, doubleVal, InS64]
  norm_num

end Givaro.Props.C10
