/-
C16 — domain objects are self-contained: results do not depend on history; destroying one copy never invalidates another.

Part A is about the one place of the library where copies of a domain object share heap storage: the reference-counted
tables of `Modular<Log16>` (modular-log16.inl, copy constructor / operator= / destructor), modelled by `Share`/`sstep` in
`Model/Domain.lean`.  The theorems hold for ANY number of slots and ANY legal history (induction over the operation list):
the counter of a block is the number of live objects sharing it, a block is freed exactly when nobody shares it, hence a
live object never points to freed tables and destroying one copy leaves all the others intact.  The machine without the
self-assignment test (`sstepNoGuard`, the code before the repair) breaks this after two operations.

Part B is the value-semantics machine the histories of harness/h_history.cpp are judged against (`hstep`/`hrun`/`expected`):
what a probe of a slot must return is a function of the slot and of the parameter set it holds, and of nothing else.
-/
import GivaroModel.Model.Domain
import GivaroModel.Lemmas.DomainLemmas

namespace Givaro.Props.C16
open Givaro.Model.Domain Givaro.Lemmas.Domain

/-! ## A. reference counting -/

/-! ### the three member functions, one at a time -/

/-- the empty heap satisfies the invariant -/
theorem sinv_init : SInv initShare := by
  refine ⟨?_, ?_⟩
  · intro b hb; simp [initShare] at hb
  · intro k b hs
    have := mem_of_getD_some hs
    simp [initShare] at this

/-- what the destructor does to the state when slot k is live -/
theorem destroy_eq {s : Share} {k b0 : Nat} (hs : s.slot k = some b0) :
    sstep s (.destroy k) = { blocks := release s.blocks b0, slots := s.slots.set k none } := by
  simp only [sstep, hs]

example : sstep (sstep initShare (.new 0)) (.destroy 0) = { blocks := [⟨0, true⟩], slots := [none, none, none] } :=
  (destroy_eq (b0 := 0) (by decide)).trans (by decide)

/-- what the copy constructor does to the state when the source slot j is live -/
theorem copy_eq {s : Share} {j b0 : Nat} (k : Nat) (hs : s.slot j = some b0) :
    sstep s (.copy k j) = { blocks := acquire s.blocks b0, slots := s.slots.set k (some b0) } := by
  simp only [sstep, hs]

example : sstep (sstep initShare (.new 0)) (.copy 2 0) = { blocks := [⟨2, false⟩], slots := [some 0, none, some 0] } :=
  (copy_eq (b0 := 0) 2 (by decide)).trans (by decide)

/-- constructor: a fresh block with counter 1 -/
theorem sinv_new {s : Share} {k : Nat} (h : SInv s) (hk : k < s.slots.length) (hn : s.slot k = none) :
    SInv (sstep s (.new k)) := by
  obtain ⟨h1, h2⟩ := h
  have hz : s.slots.count (some s.blocks.length) = 0 := count_eq_zero_of_bound h2
  have hn' : s.slots.getD k none = none := hn
  refine ⟨?_, ?_⟩
  · intro b hb
    simp only [sstep, List.length_append, List.length_singleton] at hb
    simp only [sstep, Share.block, sharers]
    rw [count_set _ hk, hn']
    by_cases hbn : b = s.blocks.length
    · subst hbn
      rw [getD_append_length, hz]; simp
    · have hb' : b < s.blocks.length := by omega
      rw [getD_append_left _ _ _ hb']
      have := h1 b hb'
      simp only [Share.block, sharers] at this
      have hne : ¬ (some s.blocks.length = some b) := by
        intro e; injection e with e; exact hbn e.symm
      simpa [hne] using this
  · intro k' b hs
    simp only [sstep, Share.slot] at hs
    rw [getD_set] at hs
    simp only [sstep, List.length_append, List.length_singleton]
    split at hs
    · injection hs with hs; omega
    · have := h2 k' b hs; omega

example : SInv (sstep initShare (.new 1)) := sinv_new sinv_init (by decide) (by decide)

/-- under the invariant a live object points to an existing block -/
theorem live_block_exists {s : Share} {k b : Nat} (h : SInv s) (hs : s.slot k = some b) : b < s.blocks.length :=
  h.2 k b hs

example : 0 < (sstep initShare (.new 1)).blocks.length :=
  live_block_exists (k := 1) (sinv_new sinv_init (by decide) (by decide)) (by decide)

/-- a block some live object points to has at least one sharer -/
theorem sharers_pos {s : Share} {k b : Nat} (hs : s.slot k = some b) : 0 < sharers s b :=
  count_pos_of_getD hs

example : 0 < sharers (sstep initShare (.new 1)) 0 := sharers_pos (k := 1) (by decide)

/-- under the invariant a live object never points to a freed block -/
theorem sinv_noDangling {s : Share} (h : SInv s) : noDangling s := by
  intro k b hs
  have hb := h.2 k b hs
  have hpos : 0 < sharers s b := sharers_pos hs
  cases hf : (s.block b).freed with
  | false => rfl
  | true => have := (h.1 b hb).2.mp hf; omega

example : noDangling (sstep initShare (.new 1)) := sinv_noDangling (sinv_new sinv_init (by decide) (by decide))
example : ((sstep initShare (.new 1)).block 0).freed = false :=
  sinv_noDangling (sinv_new sinv_init (by decide) (by decide)) 1 0 (by decide)

/-- copy constructor: share the block, counter + 1 -/
theorem sinv_copy {s : Share} {k j b0 : Nat} (h : SInv s) (hk : k < s.slots.length) (hn : s.slot k = none)
    (hj : s.slot j = some b0) : SInv (sstep s (.copy k j)) := by
  obtain ⟨h1, h2⟩ := h
  have hb0 : b0 < s.blocks.length := h2 j b0 hj
  have hpos : 0 < s.slots.count (some b0) := count_pos_of_getD hj
  have hn' : s.slots.getD k none = none := hn
  rw [copy_eq k hj]
  refine ⟨?_, ?_⟩
  · intro b hb
    simp only [acquire_length] at hb
    simp only [Share.block, sharers]
    rw [count_set _ hk, hn']
    have := h1 b hb
    simp only [Share.block, sharers] at this
    by_cases hbb : b0 = b
    · subst hbb
      rw [acquire_getD_self _ hb]
      generalize s.blocks.getD b0 ⟨0, true⟩ = X at this ⊢
      obtain ⟨r, f⟩ := this
      refine ⟨by simp only [r, if_true]; simp, ?_⟩
      constructor
      · intro hf; have := f.mp hf; omega
      · intro hc; simp at hc
    · rw [acquire_getD_ne _ hbb]
      have hne : ¬ (some b0 = some b) := by
        intro e; injection e with e; exact hbb e
      simpa [hne] using this
  · intro k' b hs
    simp only [Share.slot] at hs
    rw [getD_set] at hs
    simp only [acquire_length]
    split at hs
    · injection hs with hs; omega
    · exact h2 k' b hs

example : SInv (sstep (sstep initShare (.new 0)) (.copy 1 0)) :=
  sinv_copy (b0 := 0) (sinv_new sinv_init (by decide) (by decide)) (by decide) (by decide) (by decide)

/-- destructor: counter - 1, free the block when it reaches 0 -/
theorem sinv_destroy {s : Share} {k b0 : Nat} (h : SInv s) (hs : s.slot k = some b0) :
    SInv (sstep s (.destroy k)) := by
  obtain ⟨h1, h2⟩ := h
  have hk : k < s.slots.length := getD_some_lt hs
  have hb0 : b0 < s.blocks.length := h2 k b0 hs
  have hpos : 0 < s.slots.count (some b0) := count_pos_of_getD hs
  have hs' : s.slots.getD k none = some b0 := hs
  rw [destroy_eq hs]
  refine ⟨?_, ?_⟩
  · intro b hb
    simp only [release_length] at hb
    simp only [Share.block, sharers]
    rw [count_set _ hk, hs']
    have := h1 b hb
    simp only [Share.block, sharers] at this
    by_cases hbb : b0 = b
    · subst hbb
      rw [release_getD_self _ hb]
      generalize s.blocks.getD b0 ⟨0, true⟩ = X at this ⊢
      obtain ⟨r, f⟩ := this
      have hf : X.freed = false := by
        cases hfx : X.freed with
        | false => rfl
        | true => have := f.mp hfx; omega
      simp [hf, r]
    · rw [release_getD_ne _ hbb]
      have hne : ¬ (some b0 = some b) := by
        intro e; injection e with e; exact hbb e
      simpa [hne] using this
  · intro k' b hsk
    simp only [Share.slot] at hsk
    rw [getD_set] at hsk
    simp only [release_length]
    split at hsk
    · cases hsk
    · exact h2 k' b hsk

example : SInv (sstep (sstep initShare (.new 0)) (.destroy 0)) :=
  sinv_destroy (b0 := 0) (sinv_new sinv_init (by decide) (by decide)) (by decide)

/-- `operator=` between two DIFFERENT objects is the destructor's release followed by the copy constructor's acquire — exactly
    how the C++ is written (`(*numRefs)--; if (*numRefs==0) delete…; numRefs = F.numRefs; (*numRefs)++`) -/
theorem assign_eq_destroy_then_copy {s : Share} {k j bk bj : Nat} (hkj : k ≠ j) (hk : s.slot k = some bk)
    (hj : s.slot j = some bj) :
    sstep s (.assign k j) = sstep (sstep s (.destroy k)) (.copy k j) := by
  have hj' : ({ blocks := release s.blocks bk, slots := s.slots.set k none } : Share).slot j = some bj := by
    simp only [Share.slot]; rw [getD_set_ne _ _ _ hkj]; exact hj
  rw [destroy_eq hk, copy_eq k hj']
  simp only [sstep, hk, hj, if_neg hkj, List.set_set]

example : sstep (srun sstep initShare [.new 0, .new 1]) (.assign 0 1)
    = sstep (sstep (srun sstep initShare [.new 0, .new 1]) (.destroy 0)) (.copy 0 1) :=
  assign_eq_destroy_then_copy (bk := 0) (bj := 1) (by decide) (by decide) (by decide)

/-! ### A.1 one step -/

/-- A.1 — every legal operation preserves the invariant (any number of slots, any state) -/
theorem sstep_inv {s : Share} {op : SOp} (h : SInv s) (hl : legal s op) : SInv (sstep s op) := by
  cases op with
  | new k => exact sinv_new h hl.1 hl.2
  | copy k j =>
    obtain ⟨hk, hn, hj⟩ := hl
    obtain ⟨b, hb⟩ := Option.isSome_iff_exists.mp hj
    exact sinv_copy h hk hn hb
  | destroy k =>
    obtain ⟨_, hk⟩ := hl
    obtain ⟨b, hb⟩ := Option.isSome_iff_exists.mp hk
    exact sinv_destroy h hb
  | assign k j =>
    obtain ⟨hk, hsk, hsj⟩ := hl
    by_cases hkj : k = j
    · simp only [sstep, if_pos hkj]; exact h
    · obtain ⟨bk, hbk⟩ := Option.isSome_iff_exists.mp hsk
      obtain ⟨bj, hbj⟩ := Option.isSome_iff_exists.mp hsj
      rw [assign_eq_destroy_then_copy hkj hbk hbj]
      have hd := sinv_destroy h hbk
      rw [destroy_eq hbk] at hd ⊢
      refine sinv_copy (b0 := bj) hd ?_ ?_ ?_
      · simpa using hk
      · simp only [Share.slot]; rw [getD_set_self _ _ _ hk]
      · simp only [Share.slot]; rw [getD_set_ne _ _ _ hkj]; exact hbj

example : SInv (sstep (sstep initShare (.new 0)) (.copy 2 0)) :=
  sstep_inv (sstep_inv sinv_init (by decide)) (by decide)

/-! ### A.2 whole histories -/

/-- A.2 — a history whose operations are legal when executed preserves the invariant, from any state satisfying it -/
theorem srun_inv {s : Share} {ops : List SOp} (h : SInv s) (hl : legalRun s ops) : SInv (srun sstep s ops) := by
  induction ops generalizing s with
  | nil => exact h
  | cons op rest ih =>
    obtain ⟨h1, h2⟩ := hl
    exact ih (sstep_inv h h1) h2

example : SInv (srun sstep (sstep initShare (.new 0)) [.copy 1 0, .destroy 0, .assign 1 1]) :=
  srun_inv (sinv_new sinv_init (by decide) (by decide)) (by decide)

/-- A.2 — … in particular from the empty heap -/
theorem srun_inv_init {ops : List SOp} (hl : legalRun initShare ops) : SInv (srun sstep initShare ops) :=
  srun_inv sinv_init hl

/-- a history touching all three member functions, sharing, re-targeting and freeing -/
def demoHistory : List SOp :=
  [.new 0, .copy 1 0, .copy 2 0, .assign 1 2, .destroy 0, .new 0, .assign 2 0, .assign 1 1, .destroy 1, .destroy 2]

example : legalRun initShare demoHistory := by decide
example : SInv (srun sstep initShare demoHistory) := srun_inv_init (by decide)
example : srun sstep initShare demoHistory
    = { blocks := [⟨0, true⟩, ⟨1, false⟩], slots := [some 1, none, none] } := by decide

/-- the states a legal history can reach from the empty heap -/
def Reachable (s : Share) : Prop := ∃ ops, legalRun initShare ops ∧ s = srun sstep initShare ops

theorem Reachable.inv {s : Share} (h : Reachable s) : SInv s := by
  obtain ⟨ops, hl, rfl⟩ := h
  exact srun_inv_init hl

example : Reachable (srun sstep initShare demoHistory) := ⟨demoHistory, by decide, rfl⟩

/-! ### A.3 – A.5 consequences in every reachable state -/

/-- A.3 — in every state reached by a legal history the counter of each block equals the number of live objects sharing it,
    and the block is freed exactly when that number is 0 -/
theorem refcount_eq_sharers {ops : List SOp} (hl : legalRun initShare ops) (b : Nat)
    (hb : b < (srun sstep initShare ops).blocks.length) :
    ((srun sstep initShare ops).block b).refs = sharers (srun sstep initShare ops) b
    ∧ (((srun sstep initShare ops).block b).freed = true ↔ sharers (srun sstep initShare ops) b = 0) :=
  (srun_inv_init hl).1 b hb

example : ((srun sstep initShare [.new 0, .copy 1 0, .copy 2 0]).block 0).refs = 3 :=
  (refcount_eq_sharers (ops := [.new 0, .copy 1 0, .copy 2 0]) (by decide) 0 (by decide)).1.trans (by decide)

/-- A.4 — in every such state a live object never points to a freed block (and the block exists) -/
theorem no_use_after_free {ops : List SOp} (hl : legalRun initShare ops) {k b : Nat}
    (hs : (srun sstep initShare ops).slot k = some b) :
    b < (srun sstep initShare ops).blocks.length ∧ ((srun sstep initShare ops).block b).freed = false :=
  ⟨(srun_inv_init hl).2 k b hs, sinv_noDangling (srun_inv_init hl) k b hs⟩

example : ((srun sstep initShare [.new 0, .copy 1 0, .destroy 0]).block 0).freed = false :=
  (no_use_after_free (ops := [.new 0, .copy 1 0, .destroy 0]) (k := 1) (by decide) (by decide)).2

/-- A.5 (one step, any state satisfying the invariant) — destroying object k leaves every other live object j ≠ k pointing
    to the same block, which still exists and is still not freed -/
theorem destroy_one_keeps_others_step {s : Share} {k j b : Nat} (h : SInv s) (hl : legal s (.destroy k))
    (hjk : j ≠ k) (hj : s.slot j = some b) :
    (sstep s (.destroy k)).slot j = some b
    ∧ b < (sstep s (.destroy k)).blocks.length
    ∧ ((sstep s (.destroy k)).block b).freed = false := by
  have hinv : SInv (sstep s (.destroy k)) := sstep_inv h hl
  have hslot : (sstep s (.destroy k)).slot j = some b := by
    obtain ⟨bk, hbk⟩ := Option.isSome_iff_exists.mp hl.2
    rw [destroy_eq hbk]
    simp only [Share.slot]; rw [getD_set_ne _ _ _ (Ne.symm hjk)]; exact hj
  exact ⟨hslot, hinv.2 j b hslot, sinv_noDangling hinv j b hslot⟩

example : (sstep (sstep (sstep initShare (.new 0)) (.copy 1 0)) (.destroy 0)).slot 1 = some 0
    ∧ 0 < (sstep (sstep (sstep initShare (.new 0)) (.copy 1 0)) (.destroy 0)).blocks.length
    ∧ ((sstep (sstep (sstep initShare (.new 0)) (.copy 1 0)) (.destroy 0)).block 0).freed = false :=
  destroy_one_keeps_others_step (sstep_inv (sstep_inv sinv_init (by decide)) (by decide)) (by decide) (by decide) (by decide)

/-- A.5 — the same after any legal history -/
theorem destroy_one_keeps_others {ops : List SOp} (hl : legalRun initShare ops) {k j b : Nat}
    (hd : legal (srun sstep initShare ops) (.destroy k)) (hjk : j ≠ k)
    (hj : (srun sstep initShare ops).slot j = some b) :
    (sstep (srun sstep initShare ops) (.destroy k)).slot j = some b
    ∧ b < (sstep (srun sstep initShare ops) (.destroy k)).blocks.length
    ∧ ((sstep (srun sstep initShare ops) (.destroy k)).block b).freed = false :=
  destroy_one_keeps_others_step (srun_inv_init hl) hd hjk hj

example : (sstep (srun sstep initShare [.new 0, .copy 1 0, .copy 2 0]) (.destroy 0)).slot 2 = some 0
    ∧ 0 < (sstep (srun sstep initShare [.new 0, .copy 1 0, .copy 2 0]) (.destroy 0)).blocks.length
    ∧ ((sstep (srun sstep initShare [.new 0, .copy 1 0, .copy 2 0]) (.destroy 0)).block 0).freed = false :=
  destroy_one_keeps_others (ops := [.new 0, .copy 1 0, .copy 2 0]) (by decide) (by decide) (by decide) (by decide)

/-- A.5, the other half — the destroyed object is the only one that disappears: the sharers of every block other objects use
    drop by exactly the destroyed object -/
theorem destroy_sharers {s : Share} {k bk : Nat} (hk : s.slot k = some bk) (b : Nat) :
    sharers (sstep s (.destroy k)) b = sharers s b - (if bk = b then 1 else 0) := by
  rw [destroy_eq hk]
  simp only [sharers]
  have hk' : s.slots.getD k none = some bk := hk
  rw [count_set _ (getD_some_lt hk), hk']
  by_cases hb : bk = b
  · simp [hb]
  · have hne : ¬ (some bk = some b) := by
      intro e; injection e with e; exact hb e
    simp [hb, hne]

example : sharers (sstep (srun sstep initShare [.new 0, .copy 1 0]) (.destroy 0)) 0 = 1 := by
  rw [destroy_sharers (bk := 0) (by decide)]; decide

/-! ### A.6 the self-assignment the repair guards against -/

/-- A.6 — without the `this == &F` test, `F = F` on a sole owner releases the tables it keeps using: after
    `[new 0, assign 0 0]` slot 0 is live, points to block 0, and block 0 is freed -/
theorem self_assign_unguarded_counterexample :
    (srun sstepNoGuard initShare [.new 0, .assign 0 0]).slot 0 = some 0
    ∧ ((srun sstepNoGuard initShare [.new 0, .assign 0 0]).block 0).freed = true := by decide

/-- A.6 — hence the unguarded machine leaves the invariant (although the history is legal) -/
theorem self_assign_unguarded_breaks_inv :
    legalRun initShare [.new 0, .assign 0 0]
    ∧ ¬ noDangling (srun sstepNoGuard initShare [.new 0, .assign 0 0])
    ∧ ¬ SInv (srun sstepNoGuard initShare [.new 0, .assign 0 0]) := by
  have hnd : ¬ noDangling (srun sstepNoGuard initShare [.new 0, .assign 0 0]) := by
    intro h
    have := h 0 0 self_assign_unguarded_counterexample.1
    rw [self_assign_unguarded_counterexample.2] at this
    cases this
  exact ⟨by decide, hnd, fun h => hnd (sinv_noDangling h)⟩

/-- A.6 — with the guard (`sstep`) the same history leaves slot 0 on a block that is alive with counter 1 -/
theorem self_assign_guarded_ok :
    (srun sstep initShare [.new 0, .assign 0 0]).slot 0 = some 0
    ∧ (srun sstep initShare [.new 0, .assign 0 0]).block 0 = ⟨1, false⟩
    ∧ SInv (srun sstep initShare [.new 0, .assign 0 0]) :=
  ⟨by decide, by decide, srun_inv_init (by decide)⟩

/-- A.6 — in general the guarded self-assignment does nothing at all -/
theorem self_assign_noop (s : Share) (k : Nat) : sstep s (.assign k k) = s := by
  simp [sstep]

/-- the two machines agree on every operation except the self-assignment -/
theorem sstepNoGuard_eq {s : Share} {op : SOp} (h : ∀ k, op ≠ .assign k k) : sstepNoGuard s op = sstep s op := by
  cases op with
  | assign k j =>
    have hkj : k ≠ j := fun e => h k (by rw [e])
    simp only [sstepNoGuard, sstep, if_neg hkj]
  | new k => rfl
  | copy k j => rfl
  | destroy k => rfl

example : sstepNoGuard (srun sstep initShare [.new 0, .new 1]) (.assign 0 1)
    = sstep (srun sstep initShare [.new 0, .new 1]) (.assign 0 1) :=
  sstepNoGuard_eq (by intro k h; cases h)

/-! ### A.7 assignment between two objects that already share a block -/

/-- A.7 — assigning between two DISTINCT objects that already share one block (the `--` then `++` path on the same counter)
    preserves the invariant and leaves the target on the same, not freed, block -/
theorem assign_between_sharers_ok {s : Share} {k j b : Nat} (h : SInv s) (hkj : k ≠ j)
    (hk : s.slot k = some b) (hj : s.slot j = some b) :
    SInv (sstep s (.assign k j))
    ∧ (sstep s (.assign k j)).slot k = some b
    ∧ ((sstep s (.assign k j)).block b).freed = false := by
  have hlen : k < s.slots.length := getD_some_lt hk
  have hinv : SInv (sstep s (.assign k j)) :=
    sstep_inv h ⟨hlen, by rw [hk]; rfl, by rw [hj]; rfl⟩
  have hslot : (sstep s (.assign k j)).slot k = some b := by
    simp only [sstep, if_neg hkj, hk, hj]
    simp only [Share.slot]
    rw [getD_set_self _ _ _ hlen]
  exact ⟨hinv, hslot, sinv_noDangling hinv k b hslot⟩

/-- A.7, sharper — such an assignment leaves the whole state (every counter, every flag, every slot) exactly as it was -/
theorem assign_between_sharers_noop {s : Share} {k j b : Nat} (h : SInv s) (hkj : k ≠ j)
    (hk : s.slot k = some b) (hj : s.slot j = some b) :
    sstep s (.assign k j) = s := by
  obtain ⟨_, hslot, hfree⟩ := assign_between_sharers_ok h hkj hk hj
  have hlen : k < s.slots.length := getD_some_lt hk
  have hb : b < s.blocks.length := h.2 k b hk
  have hpos : 0 < sharers s b := sharers_pos hk
  have hrefs : (s.blocks.getD b ⟨0, true⟩).refs = sharers s b := (h.1 b hb).1
  have hf0 : (s.blocks.getD b ⟨0, true⟩).freed = false := sinv_noDangling h k b hk
  have hstep : sstep s (.assign k j)
      = { blocks := acquire (release s.blocks b) b, slots := s.slots.set k (some b) } := by
    simp only [sstep, if_neg hkj, hk, hj]
  rw [hstep] at hfree ⊢
  have hblk : (acquire (release s.blocks b) b).getD b ⟨0, true⟩
      = ⟨(s.blocks.getD b ⟨0, true⟩).refs - 1 + 1,
         (s.blocks.getD b ⟨0, true⟩).freed || ((s.blocks.getD b ⟨0, true⟩).refs - 1 == 0)⟩ := by
    rw [acquire_getD_self _ (by simpa using hb), release_getD_self _ hb]
  simp only [Share.block] at hfree
  rw [hblk] at hfree
  have hslots : s.slots.set k (some b) = s.slots := set_getD_self _ hlen hk
  have hblocks : acquire (release s.blocks b) b = s.blocks := by
    have e1 : acquire (release s.blocks b) b
        = s.blocks.set b ((acquire (release s.blocks b) b).getD b ⟨0, true⟩) := by
      rw [acquire_getD_self _ (by simpa using hb)]
      simp only [acquire, release, List.set_set]
    rw [e1, hblk]
    refine set_getD_self (d := ⟨0, true⟩) _ hb ?_
    simp only at hfree
    rw [hfree]
    have : (s.blocks.getD b ⟨0, true⟩).refs - 1 + 1 = (s.blocks.getD b ⟨0, true⟩).refs := by omega
    rw [this]
    cases hx : s.blocks.getD b ⟨0, true⟩ with
    | mk r f => rw [hx] at hf0; simp only at hf0; rw [hf0]
  rw [hslots, hblocks]

example : SInv (sstep (srun sstep initShare [.new 0, .copy 1 0]) (.assign 1 0))
    ∧ (sstep (srun sstep initShare [.new 0, .copy 1 0]) (.assign 1 0)).slot 1 = some 0
    ∧ ((sstep (srun sstep initShare [.new 0, .copy 1 0]) (.assign 1 0)).block 0).freed = false :=
  assign_between_sharers_ok (srun_inv_init (by decide)) (by decide) (by decide) (by decide)

example : sstep (srun sstep initShare [.new 0, .copy 1 0]) (.assign 1 0) = srun sstep initShare [.new 0, .copy 1 0] :=
  assign_between_sharers_noop (b := 0) (srun_inv_init (by decide)) (by decide) (by decide) (by decide)

/-! ## B. value semantics of histories -/

/-! ### B.8 one step -/

/-- B.8 — after `slot k := copy-construct(slot j)` slot k holds the parameter set of slot j (nothing is emitted) -/
theorem copy_holds_source_params (s : Slots) {k : Nat} (j : Nat) (hk : k < s.length) :
    (hstep s (.copy k j)).1.get k = s.get j ∧ (hstep s (.copy k j)).2 = none := by
  refine ⟨?_, rfl⟩
  simp only [hstep, Slots.get, Slots.set]
  rw [getD_set_self _ _ _ hk]

example : (hstep [some 1, none, none] (.copy 2 0)).1.get 2 = some 1 :=
  (copy_holds_source_params [some 1, none, none] 0 (by decide)).1

/-- B.8 — after `slot k = slot j` (both live) slot k holds the parameter set of slot j -/
theorem assign_holds_source_params {s : Slots} {k j pk pj : Nat} (hk : s.get k = some pk) (hj : s.get j = some pj) :
    (hstep s (.assign k j)).1.get k = some pj ∧ (hstep s (.assign k j)).2 = none := by
  have hlen : k < s.length := getD_some_lt hk
  refine ⟨?_, rfl⟩
  simp only [hstep, hk, hj, Slots.set]
  simp only [Slots.get]
  rw [getD_set_self _ _ _ hlen]

example : (hstep [some 1, some 0, none] (.assign 1 0)).1.get 1 = some 1 :=
  (assign_holds_source_params (s := [some 1, some 0, none]) (pk := 0) (by decide) (by decide)).1

/-- B.8 — self-assignment (`S<k>`, and `A<k><k>` alike) changes nothing and emits nothing -/
theorem selfassign_noop (s : Slots) (k : Nat) :
    hstep s (.selfassign k) = (s, none) ∧ hstep s (.assign k k) = (s, none) := by
  refine ⟨rfl, ?_⟩
  simp only [hstep]
  cases hk : s.get k with
  | none => rfl
  | some p =>
    simp only [Slots.set]
    rw [set_getD_self (d := none) _ (getD_some_lt hk) hk]

/-- B.8 — destroying slot k leaves every other slot as it was (and empties k) -/
theorem destroy_keeps_others (s : Slots) {k j : Nat} (hjk : j ≠ k) :
    (hstep s (.destroy k)).1.get j = s.get j ∧ (hstep s (.destroy k)).2 = none := by
  refine ⟨?_, rfl⟩
  simp only [hstep, Slots.get, Slots.set]
  rw [getD_set_ne _ _ _ (Ne.symm hjk)]

example : (hstep [some 1, some 1, none] (.destroy 0)).1.get 1 = some 1 :=
  (destroy_keeps_others [some 1, some 1, none] (by decide)).1

/-- B.8 — a probe reads: it does not change the state -/
theorem probe_does_not_change_state (s : Slots) (k : Nat) : (hstep s (.probe k)).1 = s := rfl

/-- what a probe of slot k must look like in state s: an isolated object `(k, p)` when the slot holds p, nothing when empty -/
def probeOf (s : Slots) (k : Nat) : Option (Nat × Nat) := (s.get k).map (fun p => (k, p))

/-- a probe in the middle of a history emits `probeOf` of the current state, i.e. a function of (k, parameters held) only -/
theorem probe_emits (s : Slots) (k : Nat) : (hstep s (.probe k)).2 = probeOf s k := rfl

/-- frame property: an operation whose target is not slot j leaves slot j as it was -/
theorem hstep_frame (s : Slots) (op : HOp) (j : Nat)
    (h : match op with
      | .new k _ | .copy k _ | .assign k _ | .destroy k => j ≠ k
      | .selfassign _ | .probe _ => True) :
    (hstep s op).1.get j = s.get j := by
  cases op with
  | new k p => simp only [hstep, Slots.get, Slots.set]; rw [getD_set_ne _ _ _ (Ne.symm h)]
  | copy k i => simp only [hstep, Slots.get, Slots.set]; rw [getD_set_ne _ _ _ (Ne.symm h)]
  | assign k i =>
    simp only [hstep]
    split
    · simp only [Slots.get, Slots.set]; rw [getD_set_ne _ _ _ (Ne.symm h)]
    · rfl
  | selfassign k => rfl
  | destroy k => simp only [hstep, Slots.get, Slots.set]; rw [getD_set_ne _ _ _ (Ne.symm h)]
  | probe k => rfl

example : (hstep [some 1, some 0, none] (.assign 1 0)).1.get 0 = some 1 :=
  hstep_frame [some 1, some 0, none] (.assign 1 0) 0 (by decide)

/-! ### B.9 whole histories -/

theorem hrun_nil (s : Slots) : hrun s [] = (s, []) := rfl

theorem hrun_cons (s : Slots) (op : HOp) (rest : List HOp) :
    hrun s (op :: rest)
      = ((hrun (hstep s op).1 rest).1, (hstep s op).2.toList ++ (hrun (hstep s op).1 rest).2) := rfl

/-- no operation creates or removes a slot -/
theorem hstep_length (s : Slots) (op : HOp) : (hstep s op).1.length = s.length := by
  cases op with
  | assign k j =>
    simp only [hstep]
    split
    · simp [Slots.set]
    · rfl
  | new k p => simp [hstep, Slots.set]
  | copy k j => simp [hstep, Slots.set]
  | selfassign k => rfl
  | destroy k => simp [hstep, Slots.set]
  | probe k => rfl

theorem hrun_length (s : Slots) (ops : List HOp) : (hrun s ops).1.length = s.length := by
  induction ops generalizing s with
  | nil => rfl
  | cons op rest ih => rw [hrun_cons]; simp only; rw [ih, hstep_length]

/-- the observations expected of a history: the probes met on the way, then `probeOf` of the final state for slots 0, 1, 2 -/
theorem expected_eq (h : List HOp) :
    expected h = (hrun initSlots h).2 ++ [0, 1, 2].filterMap (probeOf (hrun initSlots h).1) := rfl

/-- the final section of `expected` restricted to slot k is exactly `[(k, p)]` when slot k holds p (and empty when it is empty) -/
theorem final_section_of_slot (s : Slots) {k : Nat} (hk : k < 3) :
    ([0, 1, 2].filterMap (probeOf s)).filter (fun o => o.1 == k) = (probeOf s k).toList := by
  have h3 : k = 0 ∨ k = 1 ∨ k = 2 := by omega
  rcases h3 with rfl | rfl | rfl <;>
    cases h0 : s.get 0 <;> cases h1 : s.get 1 <;> cases h2 : s.get 2 <;>
      simp [probeOf, List.filterMap, List.filter, h0, h1, h2]

example : ([0, 1, 2].filterMap (probeOf [some 1, none, some 0])).filter (fun o => o.1 == 2) = [(2, 0)] :=
  final_section_of_slot [some 1, none, some 0] (by decide)

/-- B.9 — what the final probe of a slot must return is a function of the construction parameters it holds and of nothing
    else: for ANY two histories h1 h2 and slots k1 k2, if slot k1 ends h1 holding parameter set p and slot k2 ends h2 holding
    the same p, then the final section of `expected h1` for slot k1 is exactly `[(k1, p)]` and that of `expected h2` for slot
    k2 is exactly `[(k2, p)]` — the same observation `p`, whatever copies, assignments, destructions and probes happened. -/
theorem expected_depends_only_on_params (h1 h2 : List HOp) (k1 k2 p : Nat)
    (e1 : (hrun initSlots h1).1.get k1 = some p) (e2 : (hrun initSlots h2).1.get k2 = some p) :
    expected h1 = (hrun initSlots h1).2 ++ [0, 1, 2].filterMap (probeOf (hrun initSlots h1).1)
    ∧ expected h2 = (hrun initSlots h2).2 ++ [0, 1, 2].filterMap (probeOf (hrun initSlots h2).1)
    ∧ ([0, 1, 2].filterMap (probeOf (hrun initSlots h1).1)).filter (fun o => o.1 == k1) = [(k1, p)]
    ∧ ([0, 1, 2].filterMap (probeOf (hrun initSlots h2).1)).filter (fun o => o.1 == k2) = [(k2, p)]
    ∧ (k1, p) ∈ expected h1 ∧ (k2, p) ∈ expected h2 := by
  have key : ∀ (h : List HOp) (k : Nat), (hrun initSlots h).1.get k = some p →
      ([0, 1, 2].filterMap (probeOf (hrun initSlots h).1)).filter (fun o => o.1 == k) = [(k, p)] := by
    intro h k e
    have hk : k < 3 := by
      have := getD_some_lt e
      rw [hrun_length] at this; exact this
    rw [final_section_of_slot _ hk]; simp [probeOf, e]
  have mem : ∀ (h : List HOp) (k : Nat), (hrun initSlots h).1.get k = some p → (k, p) ∈ expected h := by
    intro h k e
    have : (k, p) ∈ ([0, 1, 2].filterMap (probeOf (hrun initSlots h).1)).filter (fun o => o.1 == k) := by
      rw [key h k e]; exact List.mem_singleton.mpr rfl
    rw [expected_eq]
    exact List.mem_append_right _ (List.mem_filter.mp this).1
  exact ⟨rfl, rfl, key h1 k1 e1, key h2 k2 e2, mem h1 k1 e1, mem h2 k2 e2⟩

/-- two very different histories ending with slot 2 resp. slot 0 holding parameter set 1 -/
example : (1, 1) ∈ expected [.new 0 1, .copy 1 0, .destroy 0, .new 0 0, .assign 0 1, .probe 0]
    ∧ (0, 1) ∈ expected [.new 0 1] :=
  let r := expected_depends_only_on_params
    [.new 0 1, .copy 1 0, .destroy 0, .new 0 0, .assign 0 1, .probe 0] [.new 0 1] 1 0 1 (by decide) (by decide)
  ⟨r.2.2.2.2.1, r.2.2.2.2.2⟩

/-- every parameter set found in a slot was put there by a constructor of the history (or was there at the start): copies and
    assignments only move construction parameters around, nothing else ever enters a slot -/
theorem params_come_from_construction (s : Slots) (ops : List HOp) {k p : Nat}
    (h : (hrun s ops).1.get k = some p) :
    (∃ k', s.get k' = some p) ∨ (∃ k', HOp.new k' p ∈ ops) := by
  induction ops generalizing s k with
  | nil => exact Or.inl ⟨k, h⟩
  | cons op rest ih =>
    rw [hrun_cons] at h
    rcases ih _ h with ⟨k', hk'⟩ | ⟨k', hk'⟩
    · -- slot k' of the state after `op` holds p: look at where `op` took it from
      have step : (∃ k'', s.get k'' = some p) ∨ (∃ k'', op = HOp.new k'' p) := by
        cases op with
        | new i q =>
          simp only [hstep, Slots.get, Slots.set] at hk'
          rw [getD_set] at hk'
          split at hk'
          · injection hk' with e; subst e; exact Or.inr ⟨i, rfl⟩
          · exact Or.inl ⟨k', hk'⟩
        | copy i j =>
          simp only [hstep, Slots.get, Slots.set] at hk'
          rw [getD_set] at hk'
          split at hk'
          · exact Or.inl ⟨j, hk'⟩
          · exact Or.inl ⟨k', hk'⟩
        | assign i j =>
          simp only [hstep] at hk'
          split at hk'
          · rename_i pi pj hi hj
            simp only [Slots.get, Slots.set] at hk'
            rw [getD_set] at hk'
            split at hk'
            · injection hk' with e; subst e; exact Or.inl ⟨j, hj⟩
            · exact Or.inl ⟨k', hk'⟩
          · exact Or.inl ⟨k', hk'⟩
        | selfassign i => exact Or.inl ⟨k', hk'⟩
        | destroy i =>
          simp only [hstep, Slots.get, Slots.set] at hk'
          rw [getD_set] at hk'
          split at hk'
          · cases hk'
          · exact Or.inl ⟨k', hk'⟩
        | probe i => exact Or.inl ⟨k', hk'⟩
      rcases step with hs | ⟨k'', rfl⟩
      · exact Or.inl hs
      · exact Or.inr ⟨k'', List.mem_cons_self⟩
    · exact Or.inr ⟨k', List.mem_cons_of_mem _ hk'⟩

example : (∃ k', Slots.get [some 5, none, none] k' = some 5) ∨ (∃ k', HOp.new k' 5 ∈ [HOp.copy 1 0, .destroy 0]) :=
  params_come_from_construction [some 5, none, none] [.copy 1 0, .destroy 0] (k := 1) (by decide)

/-- from the empty start: whatever a slot holds at the end was the argument of some constructor call of the history -/
theorem final_params_were_constructed (ops : List HOp) {k p : Nat} (h : (hrun initSlots ops).1.get k = some p) :
    ∃ k', HOp.new k' p ∈ ops := by
  rcases params_come_from_construction initSlots ops h with ⟨k', hk'⟩ | h
  · have := mem_of_getD_some hk'
    simp [initSlots] at this
  · exact h

example : ∃ k', HOp.new k' 1 ∈ [HOp.new 0 1, .copy 1 0, .destroy 0] :=
  final_params_were_constructed [.new 0 1, .copy 1 0, .destroy 0] (k := 1) (by decide)

end Givaro.Props.C16
