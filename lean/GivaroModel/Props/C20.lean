/-
C20 — Random generators respect their ranges and are reproducible from the seed.

Every theorem is about `Model/Random.lean`, the line-by-line model of the code (tied to /repo by the correspondence of
checks/c20.py), and is stated for *all* seeds, bounds, bit sizes, moduli, generator states and sequence lengths.
GMP's generator and mt19937_64 are universally quantified (`RawGen`, word lists) under their documented contracts only.
-/
import GivaroModel.Model.Random
import GivaroModel.Spec.RandomSpec
import GivaroModel.Lemmas.RandomLemmas
import GivaroModel.Lemmas.RandomOrbit
import GivaroModel.Model.RandomDest
import GivaroModel.Lemmas.RandomDestLemmas
namespace Givaro.Props.C20
open Givaro Givaro.Model.Random Givaro.Spec.Random Givaro.Lemmas.Random

/-! ### the checkers say what the property says -/

theorem ltOk_iff (ap : Bool) (m r : Int) :
    ltOk ap m r = true ↔ (if ap = true then 0 ≤ r ∧ r < m else -m < r ∧ r < m) := by
  unfold ltOk; cases ap <;> simp

theorem betweenOk_iff (lo hi r : Int) : betweenOk lo hi r = true ↔ lo ≤ r ∧ r < hi := by
  unfold betweenOk; simp

theorem canonical_iff (p e : Int) : canonical p e = true ↔ 0 ≤ e ∧ e < p := by
  unfold canonical; simp

/-- the bit-size checker agrees with the library's own notion of size (`Integer::bitsize` = `mpz_sizeinbase(·, 2)`):
    "exactly n bits" ⇔ non-zero and `bitsize = n` -/
theorem hasBits_iff_bitsize (n : Nat) (x : Int) (hn : 1 ≤ n) : hasBits n x = true ↔ x ≠ 0 ∧ bitsize x = n := by
  have hpp := two_pow_pos (n - 1)
  unfold hasBits
  simp only [decide_eq_true_eq]
  constructor
  · rintro ⟨_, h1, h2⟩
    have hx : x ≠ 0 := by
      intro h0; subst h0; unfold iabs at h1; simp at h1; omega
    exact ⟨hx, (bitsize_eq_iff x n hx hn).2 ⟨h1, h2⟩⟩
  · rintro ⟨hx, hb⟩
    have := (bitsize_eq_iff x n hx hn).1 hb
    exact ⟨hn, this.1, this.2⟩

example : hasBits 6 63 = true ↔ (63 : Int) ≠ 0 ∧ bitsize 63 = 6 := hasBits_iff_bitsize 6 63 (by decide)

/-! ### GivRandom -/

/-- one step keeps the state in `[1, 2^31 - 2]`: the multiplier is invertible modulo `2^31 - 1`, so the state is never 0
    (a zero state would be absorbing and would make every `nonzerorandom` loop spin forever) -/
theorem givrandom_range (s : Int) (h1 : 1 ≤ s) (h2 : s < givMod) : 1 ≤ givNext s ∧ givNext s < givMod := by
  unfold givMod at h2
  have hw : wrapS64 (givMul * wrapS64 s) = 950706376 * s := by unfold givMul wrapS64; omega
  have hne := giv_mul_ne_zero s h1 h2
  have hr0 := Int.emod_nonneg (950706376 * s) (show (2147483647 : Int) ≠ 0 by decide)
  have hr1 := Int.emod_lt_of_pos (950706376 * s) (show (0 : Int) < 2147483647 by decide)
  unfold givNext
  rw [hw, Int.tmod_eq_emod_of_nonneg (by omega)]
  unfold givMod wrapU64
  generalize 950706376 * s % 2147483647 = r at hne hr0 hr1 ⊢
  clear hw
  omega

example : 1 ≤ givNext 1 ∧ givNext 1 < givMod := givrandom_range 1 (by decide) (by decide)

/-- the signed product of `operator()` is representable (no undefined behaviour) for every state below `2^63 / 950706376`,
    in particular for every state in `[1, 2^31 - 2]` -/
theorem givrandom_no_overflow (s : Int) (h0 : 0 ≤ s) (h1 : s ≤ 9701599010) :
    InS64 (givMul * wrapS64 s) ∧ wrapS64 (givMul * wrapS64 s) = givMul * s := by
  unfold InS64 givMul wrapS64; omega

example : InS64 (givMul * wrapS64 9701599010) ∧ wrapS64 (givMul * wrapS64 9701599010) = givMul * 9701599010 :=
  givrandom_no_overflow _ (by decide) (by decide)

/-- the bound of `givrandom_no_overflow` is sharp -/
theorem givrandom_overflow_threshold : ¬ InS64 (givMul * wrapS64 9701599011) := by decide

/-- the constructor maps every non-zero 64-bit seed into the generator's state space … -/
theorem givinit_range (seed : Int) (h1 : 1 ≤ seed) (h2 : seed < 18446744073709551616) :
    1 ≤ givInit seed ∧ givInit seed < givMod := by
  unfold givInit givMod wrapU64; omega

example : 1 ≤ givInit 18446744073709551615 ∧ givInit 18446744073709551615 < givMod := givinit_range _ (by decide) (by decide)

/-- … and leaves the seeds that are already states unchanged -/
theorem givinit_id (seed : Int) (h1 : 1 ≤ seed) (h2 : seed < givMod) : givInit seed = seed := by
  unfold givMod at h2; unfold givInit givMod wrapU64; omega

example : givInit 2147483646 = 2147483646 := givinit_id _ (by decide) (by decide)

/-- all draws of an arbitrarily long sequence from a valid state lie in `[1, max_rand())` -/
theorem givdraws_range (n : Nat) : ∀ s : Int, 1 ≤ s → s < givMod → ∀ x ∈ givDraws n s, 1 ≤ x ∧ x < givMod := by
  induction n with
  | zero => intro s _ _ x hx; simp [givDraws] at hx
  | succ n ih =>
    intro s h1 h2 x hx
    have hs := givrandom_range s h1 h2
    simp only [givDraws, List.mem_cons] at hx
    rcases hx with rfl | hx
    · exact hs
    · exact ih (givNext s) hs.1 hs.2 x hx

example : ∀ x ∈ givDraws 3 1, 1 ≤ x ∧ x < givMod := givdraws_range 3 1 (by decide) (by decide)

/-- **GivRandom, full statement**: for every non-zero 64-bit seed and every length, every draw is in `[1, 2^31 - 2]`
    (in particular never 0 and below `max_rand()`) -/
theorem givrandom_all_seeds (seed : Int) (h1 : 1 ≤ seed) (h2 : seed < 18446744073709551616) (n : Nat) :
    ∀ x ∈ givDraws n (givInit seed), givOk x = true := by
  intro x hx
  have hi := givinit_range seed h1 h2
  have := givdraws_range n (givInit seed) hi.1 hi.2 x hx
  unfold givMod at this
  simp only [givOk, decide_eq_true_eq]; exact this

example : ∀ x ∈ givDraws 5 (givInit 4294967294), givOk x = true := givrandom_all_seeds _ (by decide) (by decide) 5

/-- the state reached after any number of draws is again a valid state, so no draw of the sequence ever overflows -/
theorem giviter_range (n : Nat) : ∀ s : Int, 1 ≤ s → s < givMod → 1 ≤ givIter n s ∧ givIter n s < givMod := by
  induction n with
  | zero => intro s h1 h2; exact ⟨h1, h2⟩
  | succ n ih => intro s h1 h2; have hs := givrandom_range s h1 h2; exact ih (givNext s) hs.1 hs.2

example : 1 ≤ givIter 4 7 ∧ givIter 4 7 < givMod := giviter_range 4 7 (by decide) (by decide)

theorem givrandom_never_overflows (seed : Int) (h1 : 1 ≤ seed) (h2 : seed < 18446744073709551616) (n : Nat) :
    InS64 (givMul * wrapS64 (givIter n (givInit seed))) := by
  have hi := givinit_range seed h1 h2
  have hs := giviter_range n (givInit seed) hi.1 hi.2
  unfold givMod at hs
  exact (givrandom_no_overflow _ (by omega) (by omega)).1

example : InS64 (givMul * wrapS64 (givIter 9 (givInit 9702500000))) := givrandom_never_overflows _ (by decide) (by decide) 9

/-- distinct states have distinct successors (the step is a permutation of `[1, 2^31 - 2]`): no two seeds of the state
    space merge into one sequence -/
theorem givnext_injective (s t : Int) (hs1 : 1 ≤ s) (hs2 : s < givMod) (ht1 : 1 ≤ t) (ht2 : t < givMod)
    (h : givNext s = givNext t) : s = t := by
  unfold givMod at hs2 ht2
  have hws : wrapS64 (givMul * wrapS64 s) = 950706376 * s := by unfold givMul wrapS64; omega
  have hwt : wrapS64 (givMul * wrapS64 t) = 950706376 * t := by unfold givMul wrapS64; omega
  unfold givNext at h
  rw [hws, hwt, Int.tmod_eq_emod_of_nonneg (by omega), Int.tmod_eq_emod_of_nonneg (by omega)] at h
  unfold givMod wrapU64 at h
  apply giv_mul_inj s t hs1 hs2 ht1 ht2
  have a0 := Int.emod_nonneg (950706376 * s) (show (2147483647 : Int) ≠ 0 by decide)
  have a1 := Int.emod_lt_of_pos (950706376 * s) (show (0 : Int) < 2147483647 by decide)
  have b0 := Int.emod_nonneg (950706376 * t) (show (2147483647 : Int) ≠ 0 by decide)
  have b1 := Int.emod_lt_of_pos (950706376 * t) (show (0 : Int) < 2147483647 by decide)
  generalize 950706376 * s % 2147483647 = x at h a0 a1 ⊢
  generalize 950706376 * t % 2147483647 = y at h b0 b1 ⊢
  clear hws hwt
  omega

example : (3 : Int) = 3 := givnext_injective 3 3 (by decide) (by decide) (by decide) (by decide) rfl

/-- reproducibility: the sequence is a function of the seed alone (the model has no other input; that the *code* has none
    is what the correspondence checks by constructing every generator twice), and a copy of a generator continues with
    the same sequence as the original -/
theorem same_seed_same_sequence (seed₁ seed₂ : Int) (h : seed₁ = seed₂) (n : Nat) :
    givDraws n (givInit seed₁) = givDraws n (givInit seed₂) := by rw [h]

example : givDraws 4 (givInit 5) = givDraws 4 (givInit 5) := same_seed_same_sequence 5 5 rfl 4

/-- the draws after the first `k` are the draws of a generator started (copied) at the state reached after `k` draws -/
theorem givdraws_append (k n : Nat) : ∀ s : Int, givDraws (k + n) s = givDraws k s ++ givDraws n (givIter k s) := by
  induction k with
  | zero => intro s; simp [givDraws, givIter]
  | succ k ih => intro s; rw [Nat.succ_add]; simp only [givDraws, givIter, List.cons_append]; rw [ih]

/-! ### Integer::random* — for every raw generator satisfying GMP's contract -/

theorem pred64_eq (n : Nat) (h1 : 1 ≤ n) (h2 : n < 18446744073709551616) : pred64 n = n - 1 := by
  unfold pred64; omega

section Int
variable {σ : Type} (G : RawGen σ) (hG : G.Lawful)
include hG

theorem signTail_range (ap : Bool) (r b : Int) (st : σ) (h0 : 0 ≤ r) (h1 : r < b) :
    (ap = true → 0 ≤ (signTail G ap r st).1 ∧ (signTail G ap r st).1 < b) ∧
    (-b < (signTail G ap r st).1 ∧ (signTail G ap r st).1 < b) := by
  unfold signTail
  cases ap <;> simp only [Bool.false_eq_true, ↓reduceIte, false_implies, true_and, forall_const]
  · split <;> omega
  · omega

example (st : σ) : (-5 < (signTail G false 3 st).1 ∧ (signTail G false 3 st).1 < 5) :=
  (signTail_range G hG false 3 5 st (by decide) (by decide)).2

/-- draws below a bound are in `[0, m)` (in `(-m, m)` when the sign is random) -/
theorem lessthan_range (ap : Bool) (m : Int) (hm : 0 < m) (st : σ) :
    ltOk ap m (lessthan G ap m st).1 = true := by
  have h := hG.2 st m hm
  have := signTail_range G hG ap (G.range st m).1 m (G.range st m).2 h.1 h.2
  unfold lessthan ltOk
  cases ap <;> simp only [Bool.false_eq_true, ↓reduceIte, decide_eq_true_eq]
  · exact this.2
  · exact this.1 rfl

example (st : σ) : ltOk true 1 (lessthan G true 1 st).1 = true := lessthan_range G hG true 1 (by decide) st

/-- draws of at most `n` bits are in `[0, 2^n)` (`(-2^n, 2^n)` with a random sign), for every `n` including 0 -/
theorem lessthan2exp_range (ap : Bool) (n : Nat) (st : σ) :
    ltOk ap (2 ^ n) (lessthan2exp G ap n st).1 = true := by
  have h := hG.1 st n
  have := signTail_range G hG ap (G.bits st n).1 (2 ^ n) (G.bits st n).2 h.1 h.2
  unfold lessthan2exp ltOk
  cases ap <;> simp only [Bool.false_eq_true, ↓reduceIte, decide_eq_true_eq]
  · exact this.2
  · exact this.1 rfl

/-- draws of an exact bit size have exactly that many bits, for every size `1 ≤ n < 2^64` (words and multi-limb alike);
    the value is positive unless the sign is random -/
theorem exact_bits (ap : Bool) (n : Nat) (h1 : 1 ≤ n) (h2 : n < 18446744073709551616) (r0 : Int) (st : σ) :
    exactOk ap n (exact2exp G ap n r0 st).1 = true ∧ bitsize (exact2exp G ap n r0 st).1 = n := by
  have hp := pred64_eq n h1 h2
  have hn0 : n ≠ 0 := by omega
  have hb := hG.1 st (n - 1)
  have hpow := two_pow_succ' n h1
  have hpp := two_pow_pos (n - 1)
  unfold exact2exp
  simp only [hn0, ne_eq, not_false_eq_true, ↓reduceIte, hp]
  have hd : (lessthan2exp G true (n - 1) st).1 = (G.bits st (n - 1)).1 := by simp [lessthan2exp, signTail]
  rw [hd, setbit_of_lt _ _ hb.1 hb.2]
  generalize (lessthan2exp G true (n - 1) st).2 = st'
  generalize hv : (G.bits st (n - 1)).1 = v at hb ⊢
  have key : ∀ x : Int, (x = v + 2 ^ (n - 1) ∨ x = -(v + 2 ^ (n - 1))) → (ap = true → x = v + 2 ^ (n - 1)) →
      exactOk ap n x = true ∧ bitsize x = n := by
    intro x hx hap
    have hx0 : x ≠ 0 := by rcases hx with h | h <;> omega
    have habs : iabs x = v + 2 ^ (n - 1) := by unfold iabs; rcases hx with h | h <;> split <;> omega
    have hbits : (2 : Int) ^ (n - 1) ≤ iabs x ∧ iabs x < 2 ^ n := by rw [habs]; omega
    refine ⟨?_, (bitsize_eq_iff x n hx0 h1).2 hbits⟩
    unfold exactOk hasBits
    simp only [Bool.and_eq_true, decide_eq_true_eq, Bool.or_eq_true, Bool.not_eq_true']
    refine ⟨⟨h1, hbits⟩, ?_⟩
    cases ap
    · left; rfl
    · right; have := hap rfl; omega
  apply key
  · unfold signTail; cases ap <;> simp only [Bool.false_eq_true, ↓reduceIte]
    · split <;> simp
    · simp
  · intro h; subst h; simp [signTail]

example (st : σ) : bitsize (exact2exp G true 1 0 st).1 = 1 := (exact_bits G hG true 1 (by decide) (by decide) 0 st).2

/-- `random_exact(r, s)`: the draw has exactly the bit size of `s` (whatever the sign and size of `s`, `s = 0` included) -/
theorem exact_of_integer_bits (ap : Bool) (s : Int) (hs : bitsize s < 18446744073709551616) (r0 : Int) (st : σ) :
    bitsize (exactI G ap s r0 st).1 = bitsize s := by
  have h1 : 1 ≤ bitsize s := by unfold bitsize; split <;> omega
  exact (exact_bits G hG ap (bitsize s) h1 hs r0 st).2

example (st : σ) : bitsize (exactI G true 511 0 st).1 = bitsize 511 := exact_of_integer_bits G hG true 511 (by decide) 0 st

/-- draws between bounds lie in `[lo, hi)`, for all `lo < hi` of either sign -/
theorem between_range (lo hi : Int) (h : lo < hi) (st : σ) : betweenOk lo hi (between G lo hi st).1 = true := by
  have := lessthan_range G hG true (hi - lo) (by omega) st
  unfold ltOk at this
  simp only [↓reduceIte, decide_eq_true_eq] at this
  unfold between betweenOk
  simp only [decide_eq_true_eq]; omega

example (st : σ) : betweenOk (-26) 511 (between G (-26) 511 st).1 = true := between_range G hG _ _ (by decide) st

/-- non-zero draws are never zero and stay in the range (word bound = number of bits) -/
theorem nonzero_ne_zero (ap : Bool) (n : Nat) (fuel : Nat) : ∀ (st : σ) (rs : Int × σ),
    nonzeroW G ap n fuel st = some rs → nonzeroOk ap (2 ^ n) rs.1 = true := by
  induction fuel with
  | zero => intro st rs h; simp [nonzeroW] at h
  | succ f ih =>
    intro st rs h
    unfold nonzeroW at h
    split at h
    · exact ih _ _ h
    · rename_i hne
      simp only [Option.some.injEq] at h
      subst h
      unfold nonzeroOk
      simp only [Bool.and_eq_true, decide_eq_true_eq]
      exact ⟨hne, lessthan2exp_range G hG ap n st⟩

/-- the same for an Integer bound -/
theorem nonzero_integer_ne_zero (ap : Bool) (m : Int) (hm : 0 < m) (fuel : Nat) : ∀ (st : σ) (rs : Int × σ),
    nonzeroI G ap m fuel st = some rs → nonzeroOk ap m rs.1 = true := by
  induction fuel with
  | zero => intro st rs h; simp [nonzeroI] at h
  | succ f ih =>
    intro st rs h
    unfold nonzeroI at h
    split at h
    · exact ih _ _ h
    · rename_i hne
      simp only [Option.some.injEq] at h
      subst h
      unfold nonzeroOk
      simp only [Bool.and_eq_true, decide_eq_true_eq]
      exact ⟨hne, lessthan_range G hG ap m hm st⟩

/-- `random_between_2exp(r, m, M)` (also reached by `random_between` on word arguments): `2^m ≤ r < 2^M` for all `m < M` -/
theorem between2exp_range (m M : Nat) (h : m < M) (hM : M < 18446744073709551616) (fuel : Nat) (st : σ) (rs : Int × σ)
    (hr : between2exp G m M fuel st = some rs) : betweenOk (2 ^ m) (2 ^ M) rs.1 = true := by
  unfold between2exp at hr
  have hd : (M + 18446744073709551616 - m) % 18446744073709551616 = M - m := by omega
  rw [hd] at hr
  split at hr
  · simp at hr
  · rename_i d hd'
    simp only [Option.some.injEq] at hr
    subst hr
    have h1 := nonzero_ne_zero G hG true (M - m) fuel st d hd'
    have h2 := lessthan2exp_range G hG true m d.2
    unfold nonzeroOk ltOk at h1
    unfold ltOk at h2
    simp only [↓reduceIte, Bool.and_eq_true, decide_eq_true_eq] at h1 h2
    unfold betweenOk
    simp only [decide_eq_true_eq]
    have hpm := two_pow_pos m
    have hsplit : (2 : Int) ^ M = 2 ^ (M - m) * 2 ^ m := by rw [← pow_add]; congr 1; omega
    rw [hsplit]
    obtain ⟨hne, h10, h11⟩ := h1
    have hd1 : 1 ≤ d.1 := by omega
    have e1 := mul_le_mul_of_nonneg_right hd1 hpm.le
    have e2 := mul_le_mul_of_nonneg_right (show d.1 + 1 ≤ 2 ^ (M - m) by omega) hpm.le
    constructor
    · nlinarith
    · nlinarith

end Int

/-! non-vacuity of the section above: a concrete generator satisfies the contract, and the fuel-bounded loops do return -/

/-- a (very non-random) generator that satisfies GMP's contract: always the largest 1-bit value that fits -/
def constGen : RawGen Unit where
  bits := fun s n => (if n = 0 then 0 else 1, s)
  range := fun s m => (if m ≤ 1 then 0 else 1, s)

theorem constGen_lawful : constGen.Lawful := by
  refine ⟨fun s n => ?_, fun s m hm => ?_⟩
  · simp only [constGen]
    split
    · rename_i h; subst h; decide
    · rename_i h
      have := two_pow_succ' n (by omega)
      have := two_pow_pos (n - 1)
      omega
  · simp only [constGen]; split <;> omega

example : ltOk false 10 (lessthan constGen false 10 ()).1 = true := lessthan_range constGen constGen_lawful false 10 (by decide) ()
example : bitsize (exact2exp constGen false 200 0 ()).1 = 200 := (exact_bits constGen constGen_lawful false 200 (by decide) (by decide) 0 ()).2
example : nonzeroW constGen true 3 1 () = some (1, ()) := by decide
example : nonzeroOk true (2 ^ 3) 1 = true := nonzero_ne_zero constGen constGen_lawful true 3 1 () (1, ()) (by decide)
example : nonzeroI constGen false 7 2 () = some (-1, ()) := by decide
example : nonzeroOk false 7 (-1) = true := nonzero_integer_ne_zero constGen constGen_lawful false 7 (by decide) 2 () (-1, ()) (by decide)
example : between2exp constGen 3 6 1 () = some (9, ()) := by decide
example : betweenOk (2 ^ 3) (2 ^ 6) 9 = true := between2exp_range constGen constGen_lawful 3 6 (by decide) (by decide) 1 () (9, ()) (by decide)

/-! ### ring / field iterators on GivRandom -/

theorem givnext_u64 (g : Int) : 0 ≤ givNext g ∧ givNext g < 18446744073709551616 := by
  unfold givNext wrapU64; omega

/-- `Modular<Storage_t>::init(x, uint64_t)` returns a canonical element, for **every** 64-bit value (not only the values
    GivRandom can produce), every storage type and every modulus that fits the storage type's positive half -/
theorem init_canonical (bits : Nat) (sgn : Bool) (p y : Int) (hb : 1 ≤ bits) (hp : 1 ≤ p) (hfit : p ≤ 2 ^ (bits - 1))
    (hy0 : 0 ≤ y) : canonical p (initU64 bits sgn p y) = true := by
  have hm0 := Int.emod_nonneg y (show p ≠ 0 by omega)
  have hm1 := Int.emod_lt_of_pos y (show 0 < p by omega)
  have ht := tmod_bounds (wrapS64 y) p (by omega)
  unfold canonical initU64
  simp only [decide_eq_true_eq]
  split
  · rw [castSt_id bits sgn _ hb hm0 (by omega)]; exact ⟨hm0, hm1⟩
  · split
    · split
      · rw [castSt_id bits sgn _ hb (by omega) (by omega)]; omega
      · omega
    · exact ⟨hm0, hm1⟩

example : canonical 101 (initU64 32 true 101 18446744073709551615) = true :=
  init_canonical 32 true 101 _ (by decide) (by decide) (by decide) (by decide)

/-- `GIV_randIter`'s sampling size is positive and never exceeds the cardinality of a finite ring, whatever size is asked for -/
theorem sampleSize_bounds (card size : Int) (hc : 1 ≤ card) (hs : 0 ≤ size) :
    0 < sampleSize card size ∧ sampleSize card size ≤ card ∧ (size = 0 → sampleSize card size = card) := by
  unfold sampleSize
  split <;> split <;> omega

example : sampleSize 2 3 = 2 := by decide

section Ring
variable (bits : Nat) (sgn : Bool) (p : Int) (hb : 1 ≤ bits) (hp : 1 ≤ p) (hfit : p ≤ 2 ^ (bits - 1))
include hb hp hfit

theorem modRandom_canonical (g : Int) : canonical p (modRandom bits sgn p g).1 = true :=
  init_canonical bits sgn p _ hb hp hfit (givnext_u64 g).1

theorem modRandomSz_canonical (size g : Int) (hs : 0 < size) : canonical p (modRandomSz bits sgn p size g).1 = true :=
  init_canonical bits sgn p _ hb hp hfit (Int.emod_nonneg _ (by omega))

theorem modNonzero_spec (fuel : Nat) : ∀ (g : Int) (eg : Int × Int), modNonzero bits sgn p fuel g = some eg →
    canonical p eg.1 = true ∧ eg.1 ≠ 0 := by
  induction fuel with
  | zero => intro g eg h; simp [modNonzero] at h
  | succ f ih =>
    intro g eg h
    unfold modNonzero at h
    split at h
    · exact ih _ _ h
    · rename_i hne
      simp only [Option.some.injEq] at h; subst h
      exact ⟨modRandom_canonical bits sgn p hb hp hfit g, hne⟩

theorem modNonzeroSz_spec (size : Int) (hs : 0 < size) (fuel : Nat) : ∀ (g : Int) (eg : Int × Int),
    modNonzeroSz bits sgn p size fuel g = some eg → canonical p eg.1 = true ∧ eg.1 ≠ 0 := by
  induction fuel with
  | zero => intro g eg h; simp [modNonzeroSz] at h
  | succ f ih =>
    intro g eg h
    unfold modNonzeroSz at h
    split at h
    · exact ih _ _ h
    · rename_i hne
      simp only [Option.some.injEq] at h; subst h
      exact ⟨modRandomSz_canonical bits sgn p hb hp hfit size g hs, hne⟩

/-- one draw of any of the eight iterator / member-function forms is canonical, and non-zero for the non-zero forms;
    `size = 0` means "whole ring" for the iterators (fn 1, 2) and is a division by zero for `random(g, r, size)` (fn 6, 7) -/
theorem modStep_spec (fn : Nat) (size : Int) (hs : 0 ≤ size) (hs67 : 6 ≤ fn → size ≠ 0) (fuel : Nat) (g : Int) (eg : Int × Int)
    (h : modStep bits sgn p fn size fuel g = some eg) :
    canonical p eg.1 = true ∧ ((fn = 3 ∨ fn = 5 ∨ fn = 7) → eg.1 ≠ 0) := by
  unfold modStep at h
  split at h
  · simp only [Option.some.injEq] at h; subst h
    exact ⟨modRandom_canonical bits sgn p hb hp hfit g, by omega⟩
  · simp only [Option.some.injEq] at h; subst h
    exact ⟨modRandomSz_canonical bits sgn p hb hp hfit _ g (sampleSize_bounds p size hp hs).1, by omega⟩
  · simp only [Option.some.injEq] at h; subst h
    refine ⟨modRandomSz_canonical bits sgn p hb hp hfit _ g ?_, by omega⟩
    split <;> omega
  · have := modNonzero_spec bits sgn p hb hp hfit fuel g eg h; exact ⟨this.1, fun _ => this.2⟩
  · simp only [Option.some.injEq] at h; subst h
    exact ⟨modRandom_canonical bits sgn p hb hp hfit g, by omega⟩
  · have := modNonzero_spec bits sgn p hb hp hfit fuel g eg h; exact ⟨this.1, fun _ => this.2⟩
  · simp only [Option.some.injEq] at h; subst h
    exact ⟨modRandomSz_canonical bits sgn p hb hp hfit size g (by have := hs67 (by omega); omega), by omega⟩
  · have := modNonzeroSz_spec bits sgn p hb hp hfit size (by have := hs67 (by omega); omega) fuel g eg h
    exact ⟨this.1, fun _ => this.2⟩
  · simp at h

end Ring

/-- termination of `nonzerorandom`, the part that is proved: whenever a draw is not a multiple of the modulus the loop
    stops at that draw.  For moduli `p ≥ 2^31 - 1` (64-bit storage) this is the first draw, from every valid generator state.
    (For smaller moduli termination needs "the orbit of the generator contains a non-multiple of p", which holds because the
    multiplier is a primitive root modulo 2^31 - 1; that fact is not proved here — the correspondence runs the loops under a watchdog.) -/
theorem modNonzero_terminates_large (sgn : Bool) (p g : Int) (hp : givMod ≤ p) (hg1 : 1 ≤ g) (hg2 : g < givMod) (fuel : Nat) :
    modNonzero 64 sgn p (fuel + 1) g = some (givNext g, givNext g) := by
  have hr := givrandom_range g hg1 hg2
  unfold givMod at hp hr
  have hi : initU64 64 sgn p (givNext g) = givNext g := by
    unfold initU64
    simp only [Nat.lt_irrefl, ↓reduceIte]
    have hw : wrapS64 (givNext g) = givNext g := by unfold wrapS64; omega
    cases sgn
    · simp only [Bool.false_eq_true, ↓reduceIte]; exact Int.emod_eq_of_lt (by omega) (by omega)
    · simp only [↓reduceIte, hw]
      have ht : Int.tmod (givNext g) p = givNext g := by
        rw [Int.tmod_eq_emod_of_nonneg (by omega)]; exact Int.emod_eq_of_lt (by omega) (by omega)
      rw [ht, if_neg (by omega)]
  unfold modNonzero modRandom
  simp only [hi]
  rw [if_neg (by omega)]

example : modNonzero 64 false 4294967291 1 5 = some (givNext 5, givNext 5) :=
  modNonzero_terminates_large false 4294967291 5 (by decide) (by decide) (by decide) 0

/-! ### termination of the `nonzerorandom` loops on GivRandom

The multiplier is a primitive root modulo the prime 2^31 - 1 (Lemmas/RandomOrbit.lean, Lucas' criterion), so from every
valid state the generator eventually returns 1, which is a non-zero residue for every modulus `p ≥ 2`. -/

theorem init_one (bits : Nat) (sgn : Bool) (p : Int) (hb : 1 ≤ bits) (hp : 2 ≤ p) (hfit : p ≤ 2 ^ (bits - 1)) :
    initU64 bits sgn p 1 = 1 := by
  have h1 : (1 : Int) % p = 1 := Int.emod_eq_of_lt (by omega) (by omega)
  have hw : wrapS64 1 = 1 := by decide
  have ht : Int.tmod 1 p = 1 := by rw [Int.tmod_eq_emod_of_nonneg (by omega)]; exact h1
  unfold initU64
  rw [h1, hw, ht]
  split
  · exact castSt_id bits sgn 1 hb (by omega) (by omega)
  · split
    · rw [if_neg (by omega)]
    · rfl

theorem modNonzero_isSome_of_iter (bits : Nat) (sgn : Bool) (p : Int) (k : Nat) : ∀ g : Int,
    initU64 bits sgn p (givIter (k + 1) g) ≠ 0 → (modNonzero bits sgn p (k + 1) g).isSome = true := by
  induction k with
  | zero =>
    intro g h
    simp only [givIter] at h
    unfold modNonzero modRandom
    simp only
    rw [if_neg h]; rfl
  | succ k ih =>
    intro g h
    unfold modNonzero
    by_cases h0 : (modRandom bits sgn p g).1 = 0
    · rw [if_pos h0]; exact ih (givNext g) h
    · rw [if_neg h0]; rfl

theorem modNonzeroSz_isSome_of_iter (bits : Nat) (sgn : Bool) (p size : Int) (k : Nat) : ∀ g : Int,
    initU64 bits sgn p (givIter (k + 1) g % size) ≠ 0 → (modNonzeroSz bits sgn p size (k + 1) g).isSome = true := by
  induction k with
  | zero =>
    intro g h
    simp only [givIter] at h
    unfold modNonzeroSz modRandomSz
    simp only
    rw [if_neg h]; rfl
  | succ k ih =>
    intro g h
    unfold modNonzeroSz
    by_cases h0 : (modRandomSz bits sgn p size g).1 = 0
    · rw [if_pos h0]; exact ih (givNext g) h
    · rw [if_neg h0]; rfl

/-- **`Modular<integral>::nonzerorandom(g, a)` terminates** (and so do `GeneralRingNonZeroRandIter` and the leading
    coefficient of a random polynomial): for every storage type, every modulus `p ≥ 2` and every valid generator state
    there is a number of iterations after which the loop has returned -/
theorem nonzerorandom_terminates (bits : Nat) (sgn : Bool) (p : Int) (hb : 1 ≤ bits) (hp : 2 ≤ p) (hfit : p ≤ 2 ^ (bits - 1))
    (g : Int) (hg1 : 1 ≤ g) (hg2 : g < givMod) : ∃ fuel : Nat, (modNonzero bits sgn p fuel g).isSome = true := by
  obtain ⟨k, hk1, hk⟩ := giv_reaches_one g hg1 (by unfold givMod at hg2; exact hg2)
  obtain ⟨j, rfl⟩ : ∃ j, k = j + 1 := ⟨k - 1, by omega⟩
  refine ⟨j + 1, modNonzero_isSome_of_iter bits sgn p j g ?_⟩
  rw [hk, init_one bits sgn p hb hp hfit]; decide

/-- the same for `nonzerorandom(g, a, size)` with a sampling size `≥ 2` (a sample of size 1 contains only 0) -/
theorem nonzerorandom_size_terminates (bits : Nat) (sgn : Bool) (p size : Int) (hb : 1 ≤ bits) (hp : 2 ≤ p) (hfit : p ≤ 2 ^ (bits - 1))
    (hs : 2 ≤ size) (g : Int) (hg1 : 1 ≤ g) (hg2 : g < givMod) :
    ∃ fuel : Nat, (modNonzeroSz bits sgn p size fuel g).isSome = true := by
  obtain ⟨k, hk1, hk⟩ := giv_reaches_one g hg1 (by unfold givMod at hg2; exact hg2)
  obtain ⟨j, rfl⟩ : ∃ j, k = j + 1 := ⟨k - 1, by omega⟩
  refine ⟨j + 1, modNonzeroSz_isSome_of_iter bits sgn p size j g ?_⟩
  rw [hk, Int.emod_eq_of_lt (by omega) (by omega), init_one bits sgn p hb hp hfit]; decide

/-- a random polynomial of any degree is produced after finitely many draws -/
theorem poly_random_terminates (bits : Nat) (sgn : Bool) (p : Int) (hb : 1 ≤ bits) (hp : 2 ≤ p) (hfit : p ≤ 2 ^ (bits - 1))
    (d : Int) (g : Int) (hg1 : 1 ≤ g) (hg2 : g < givMod) : ∃ fuel : Nat, (polyRandomDeg bits sgn p d fuel g).isSome = true := by
  obtain ⟨fuel, hf⟩ := nonzerorandom_terminates bits sgn p hb hp hfit g hg1 hg2
  refine ⟨fuel, ?_⟩
  unfold polyRandomDeg polyRandom
  split
  · rfl
  · cases h : modNonzero bits sgn p fuel g with
    | none => rw [h] at hf; simp at hf
    | some lead => rfl

/-- every seed gives a valid state, so the three theorems above apply to every generator built from a non-zero seed,
    after any number of earlier draws -/
theorem nonzerorandom_terminates_all_seeds (bits : Nat) (sgn : Bool) (p : Int) (hb : 1 ≤ bits) (hp : 2 ≤ p) (hfit : p ≤ 2 ^ (bits - 1))
    (seed : Int) (h1 : 1 ≤ seed) (h2 : seed < 18446744073709551616) (n : Nat) :
    ∃ fuel : Nat, (modNonzero bits sgn p fuel (givIter n (givInit seed))).isSome = true := by
  have hi := givinit_range seed h1 h2
  have hs := giviter_range n (givInit seed) hi.1 hi.2
  exact nonzerorandom_terminates bits sgn p hb hp hfit _ hs.1 hs.2

example : ∃ fuel : Nat, (modNonzero 32 true 2 fuel (givIter 3 (givInit 4294967294))).isSome = true :=
  nonzerorandom_terminates_all_seeds 32 true 2 (by decide) (by decide) (by decide) 4294967294 (by decide) (by decide) 3

/-! ### GFqDom -/

/-- `GFqDom::random(g, a, s)` is a canonical element below `s`, for every sampling size `1 ≤ s ≤ q` (`q < 2^(bits-1)`) -/
theorem gfq_random_canonical (bits : Nat) (q s g : Int) (hb : 1 ≤ bits) (hs : 1 ≤ s) (hsq : s ≤ q) (hq : q < 2 ^ (bits - 1)) :
    0 ≤ (gfqRandom bits q s g).1 ∧ (gfqRandom bits q s g).1 < s ∧ canonical q (gfqRandom bits q s g).1 = true := by
  have hpow := two_pow_pos bits
  have hm0 := Int.emod_nonneg (givNext g % 2 ^ bits) (show s ≠ 0 by omega)
  have hm1 := Int.emod_lt_of_pos (givNext g % 2 ^ bits) (show 0 < s by omega)
  unfold gfqRandom canonical
  simp only [decide_eq_true_eq]
  rw [castSt_id bits true _ hb hm0 (by omega)]
  rw [if_neg (by omega)]
  omega

example : canonical 8 (gfqRandom 32 8 8 1).1 = true := (gfq_random_canonical 32 8 8 1 (by decide) (by decide) (by decide) (by decide)).2.2

/-- `GFqDom::nonzerorandom(g, a, s)` is in `[1, s-1]`: canonical and never zero, for `2 ≤ s ≤ q` -/
theorem gfq_nonzero_range (bits : Nat) (q s g : Int) (hb : 1 ≤ bits) (hs : 2 ≤ s) (hsq : s ≤ q) (hq : q < 2 ^ (bits - 1)) :
    1 ≤ (gfqNonzero bits q s g).1 ∧ (gfqNonzero bits q s g).1 < s ∧ canonical q (gfqNonzero bits q s g).1 = true := by
  have hpow := two_pow_pos bits
  have e := two_pow_succ' bits hb
  have hs1 : (s - 1) % 2 ^ bits = s - 1 := Int.emod_eq_of_lt (by omega) (by omega)
  have hm0 := Int.emod_nonneg (givNext g % 2 ^ bits) (show s - 1 ≠ 0 by omega)
  have hm1 := Int.emod_lt_of_pos (givNext g % 2 ^ bits) (show 0 < s - 1 by omega)
  unfold gfqNonzero canonical
  simp only [decide_eq_true_eq]
  rw [hs1]
  rw [Int.emod_eq_of_lt (a := givNext g % 2 ^ bits % (s - 1) + 1) (by omega) (by omega)]
  rw [castSt_id bits true _ hb (by omega) (by omega)]
  rw [if_neg (by omega)]
  omega

example : 1 ≤ (gfqNonzero 32 8 8 1).1 := (gfq_nonzero_range 32 8 8 1 (by decide) (by decide) (by decide) (by decide)).1

theorem gfqNzLoop_spec (bits : Nat) (q : Int) (hb : 1 ≤ bits) (hq1 : 1 ≤ q) (hq : q < 2 ^ (bits - 1)) (fuel : Nat) :
    ∀ (g : Int) (eg : Int × Int), gfqStep.gfqNzLoop bits q fuel g = some eg → canonical q eg.1 = true ∧ eg.1 ≠ 0 := by
  have hsz := sampleSize_bounds q 0 hq1 (by decide)
  induction fuel with
  | zero => intro g eg h; simp [gfqStep.gfqNzLoop] at h
  | succ f ih =>
    intro g eg h
    unfold gfqStep.gfqNzLoop at h
    split at h
    · exact ih _ _ h
    · rename_i hne
      simp only [Option.some.injEq] at h; subst h
      exact ⟨(gfq_random_canonical bits q _ g hb (by omega) hsz.2.1 hq).2.2, hne⟩

/-- one draw of `GFqDom::RandIter` (= `GIV_randIter`, any requested size), of the non-zero iterator, or of the
    `random`/`nonzerorandom` member functions (explicit sizes within the field) is a canonical element, non-zero where promised -/
theorem gfqStep_spec (bits : Nat) (q : Int) (hb : 1 ≤ bits) (hq2 : 2 ≤ q) (hq : q < 2 ^ (bits - 1)) (fn : Nat) (size : Int)
    (hs : 0 ≤ size) (hs6 : fn = 6 → 1 ≤ size ∧ size ≤ q) (hs7 : fn = 7 → 2 ≤ size ∧ size ≤ q) (fuel : Nat) (g : Int) (eg : Int × Int)
    (h : gfqStep bits q fn size fuel g = some eg) :
    canonical q eg.1 = true ∧ ((fn = 3 ∨ fn = 5 ∨ fn = 7) → eg.1 ≠ 0) := by
  have hsz0 := sampleSize_bounds q 0 (by omega) (by decide)
  have hsz := sampleSize_bounds q size (by omega) hs
  unfold gfqStep at h
  split at h
  · simp only [Option.some.injEq] at h; subst h
    exact ⟨(gfq_random_canonical bits q _ g hb (by omega) hsz0.2.1 hq).2.2, by omega⟩
  · simp only [Option.some.injEq] at h; subst h
    exact ⟨(gfq_random_canonical bits q _ g hb (by omega) hsz.2.1 hq).2.2, by omega⟩
  · have := gfqNzLoop_spec bits q hb (by omega) hq fuel g eg h; exact ⟨this.1, fun _ => this.2⟩
  · simp only [Option.some.injEq] at h; subst h
    exact ⟨(gfq_random_canonical bits q q g hb (by omega) (by omega) hq).2.2, by omega⟩
  · simp only [Option.some.injEq] at h; subst h
    have := gfq_nonzero_range bits q q g hb hq2 (by omega) hq
    exact ⟨this.2.2, fun _ => by omega⟩
  · simp only [Option.some.injEq] at h; subst h
    have := hs6 rfl
    exact ⟨(gfq_random_canonical bits q size g hb this.1 this.2 hq).2.2, by omega⟩
  · simp only [Option.some.injEq] at h; subst h
    have h7 := hs7 rfl
    have := gfq_nonzero_range bits q size g hb h7.1 h7.2 hq
    exact ⟨this.2.2, fun _ => by omega⟩
  · simp at h

theorem giviter_succ_outer (j : Nat) : ∀ g : Int, givIter (j + 1) g = givNext (givIter j g) := by
  induction j with
  | zero => intro g; rfl
  | succ j ih => intro g; simp only [givIter] at ih ⊢; exact ih (givNext g)

theorem gfqNzLoop_isSome_of_iter (bits : Nat) (q : Int) (k : Nat) : ∀ g : Int,
    (gfqRandom bits q (sampleSize q 0) (givIter k g)).1 ≠ 0 → (gfqStep.gfqNzLoop bits q (k + 1) g).isSome = true := by
  induction k with
  | zero =>
    intro g h
    simp only [givIter] at h
    unfold gfqStep.gfqNzLoop
    rw [if_neg h]; rfl
  | succ k ih =>
    intro g h
    unfold gfqStep.gfqNzLoop
    by_cases h0 : (gfqRandom bits q (sampleSize q 0) g).1 = 0
    · rw [if_pos h0]; exact ih (givNext g) h
    · rw [if_neg h0]; rfl

/-- **`GFqDom::NonZeroRandIter` terminates** for every field size `2 ≤ q < 2^(bits-1)` and valid generator state
    (`GFqDom::nonzerorandom` itself has no loop) -/
theorem gfq_nonzero_iterator_terminates (bits : Nat) (q : Int) (hb : 2 ≤ bits) (hq2 : 2 ≤ q) (hq : q < 2 ^ (bits - 1))
    (g : Int) (hg1 : 1 ≤ g) (hg2 : g < givMod) : ∃ fuel : Nat, (gfqStep.gfqNzLoop bits q fuel g).isSome = true := by
  obtain ⟨k, hk1, hk⟩ := giv_reaches_one g hg1 (by unfold givMod at hg2; exact hg2)
  obtain ⟨j, rfl⟩ : ∃ j, k = j + 1 := ⟨k - 1, by omega⟩
  refine ⟨j + 1, gfqNzLoop_isSome_of_iter bits q j g ?_⟩
  have hsz := sampleSize_bounds q 0 (by omega) (by decide)
  have hsq : sampleSize q 0 = q := hsz.2.2 rfl
  have hpow := two_pow_succ' bits (by omega)
  have hpp := two_pow_succ' (bits - 1) (by omega)
  have hp0 := two_pow_pos (bits - 1 - 1)
  have e1 : (1 : Int) % 2 ^ bits = 1 := Int.emod_eq_of_lt (by omega) (by omega)
  have e2 : (1 : Int) % q = 1 := Int.emod_eq_of_lt (by omega) (by omega)
  unfold gfqRandom
  simp only
  rw [← giviter_succ_outer, hk, hsq, e1, e2, castSt_id bits true 1 (by omega) (by omega) (by omega)]
  rw [if_neg (by decide)]; decide

example : ∃ fuel : Nat, (gfqStep.gfqNzLoop 32 8 fuel 5).isSome = true :=
  gfq_nonzero_iterator_terminates 32 8 (by decide) (by decide) (by decide) 5 (by decide) (by decide)

/-! ### random polynomials -/

theorem polyLow_spec (bits : Nat) (sgn : Bool) (p : Int) (hb : 1 ≤ bits) (hp : 1 ≤ p) (hfit : p ≤ 2 ^ (bits - 1)) (d : Nat) :
    ∀ g : Int, (polyLow bits sgn p d g).1.length = d ∧ ∀ c ∈ (polyLow bits sgn p d g).1, canonical p c = true := by
  induction d with
  | zero => intro g; simp [polyLow]
  | succ d ih =>
    intro g
    have h := ih (modRandom bits sgn p g).2
    simp only [polyLow, List.length_append, List.length_cons, List.length_nil, List.mem_append, List.mem_cons, List.not_mem_nil, or_false]
    refine ⟨by omega, ?_⟩
    intro c hc
    rcases hc with hc | rfl
    · exact h.2 c hc
    · exact modRandom_canonical bits sgn p hb hp hfit g

/-- **poly_random_degree**: `Poly1Dom::random(g, r, Degree d)` returns exactly `d + 1` canonical coefficients with a
    non-zero leading one — a polynomial of degree exactly `d` — for every `d ≥ 0`, modulus and generator state -/
theorem poly_random_degree (bits : Nat) (sgn : Bool) (p : Int) (hb : 1 ≤ bits) (hp : 1 ≤ p) (hfit : p ≤ 2 ^ (bits - 1))
    (d fuel : Nat) (g : Int) (r : List Int × Int) (h : polyRandom bits sgn p d fuel g = some r) :
    polyOk p d r.1 = true := by
  unfold polyRandom at h
  split at h
  · simp at h
  · rename_i lead hlead
    simp only [Option.some.injEq] at h; subst h
    have h1 := modNonzero_spec bits sgn p hb hp hfit fuel g lead hlead
    have h2 := polyLow_spec bits sgn p hb hp hfit d lead.2
    have hall : ∀ (l : List Int), (∀ c ∈ l, canonical p c = true) → allB (canonical p) l = true := by
      intro l; induction l with
      | nil => intro _; rfl
      | cons x xs ihx => intro hx; simp only [allB, Bool.and_eq_true]; exact ⟨hx x (by simp), ihx (fun c hc => hx c (by simp [hc]))⟩
    unfold polyOk
    simp only [Bool.and_eq_true, decide_eq_true_eq, List.length_append, List.length_cons, List.length_nil, List.getLast?_append, List.getLast?_singleton]
    refine ⟨⟨by omega, ?_⟩, ?_⟩
    · apply hall
      intro c hc
      simp only [List.mem_append, List.mem_cons, List.not_mem_nil, or_false] at hc
      rcases hc with hc | rfl
      · exact h2.2 c hc
      · exact h1.1
    · simp only [Option.some_or, ne_eq, Option.some.injEq]; exact h1.2

example : (polyRandom 32 true 101 4 64 7).isSome = true := by decide

/-- the same for every requested degree including -∞ (size 0, "same size as b" for `b = 0`): then the zero polynomial -/
theorem poly_random_any_degree (bits : Nat) (sgn : Bool) (p : Int) (hb : 1 ≤ bits) (hp : 1 ≤ p) (hfit : p ≤ 2 ^ (bits - 1))
    (d : Int) (fuel : Nat) (g : Int) (r : List Int × Int) (h : polyRandomDeg bits sgn p d fuel g = some r) :
    polyDegOk p d r.1 = true := by
  unfold polyRandomDeg at h
  unfold polyDegOk
  split at h
  · rename_i hd; simp only [Option.some.injEq] at h; subst h; simp [hd]
  · rename_i hd; rw [if_neg hd]; exact poly_random_degree bits sgn p hb hp hfit d.toNat fuel g r h

example : polyRandomDeg 32 true 101 (-1) 64 7 = some ([], 7) := by decide

/-! ## Destination independence, reproducibility, seed normalisation

Model/RandomDest.lean spells every write to a destination the way the code does; the theorems below say that what the
destination held before the call never shows in the result, that a run of calls on an iterator / generator is determined by
the seed, the construction parameters and the list of calls (not by the destinations), and that a copy continues the sequence. -/

/-! ### Integer::random* -/
section IntDest
variable {σ : Type} (G : RawGen σ)

theorem lessthanD_eq (ap : Bool) (m old : Int) (st : σ) : lessthanD G ap m old st = lessthan G ap m st := rfl
theorem lessthan2expD_eq (ap : Bool) (n : Nat) (old : Int) (st : σ) : lessthan2expD G ap n old st = lessthan2exp G ap n st := rfl
theorem exact2expD_eq (ap : Bool) (m : Nat) (old : Int) (st : σ) : exact2expD G ap m old st = exact2exp G ap m old st := rfl
theorem betweenD_eq (lo hi old : Int) (st : σ) : betweenD G lo hi old st = between G lo hi st := rfl

theorem nonzeroWD_eq (ap : Bool) (n : Nat) (fuel : Nat) : ∀ (old : Int) (st : σ),
    nonzeroWD G ap n fuel old st = nonzeroW G ap n fuel st := by
  induction fuel with
  | zero => intro old st; rfl
  | succ f ih =>
    intro old st
    unfold nonzeroWD nonzeroW
    by_cases h : (lessthan2exp G ap n st).1 = 0
    · have h' : (lessthan2expD G ap n old st).1 = 0 := h
      rw [if_pos h, if_pos h']; exact ih _ _
    · have h' : ¬ (lessthan2expD G ap n old st).1 = 0 := h
      rw [if_neg h, if_neg h']; rfl

theorem nonzeroID_eq (ap : Bool) (m : Int) (fuel : Nat) : ∀ (old : Int) (st : σ),
    nonzeroID G ap m fuel old st = nonzeroI G ap m fuel st := by
  induction fuel with
  | zero => intro old st; rfl
  | succ f ih =>
    intro old st
    unfold nonzeroID nonzeroI
    by_cases h : (lessthan G ap m st).1 = 0
    · have h' : (lessthanD G ap m old st).1 = 0 := h
      rw [if_pos h, if_pos h']; exact ih _ _
    · have h' : ¬ (lessthanD G ap m old st).1 = 0 := h
      rw [if_neg h, if_neg h']; rfl

theorem between2expD_eq (m M fuel : Nat) (old : Int) (st : σ) : between2expD G m M fuel old st = between2exp G m M fuel st := by
  unfold between2expD between2exp
  rw [nonzeroWD_eq]
  cases nonzeroW G true ((M + 18446744073709551616 - m) % 18446744073709551616) fuel st <;> rfl

/-- `random_lessthan`, `random_lessthan_2exp`, `random_between`, `random_between_2exp`, `nonzerorandom` (word and Integer
    bound): the result and the generator state after the call do not depend on what `r` held -/
theorem lessthan_dest_indep (ap : Bool) (m old old' : Int) (st : σ) : lessthanD G ap m old st = lessthanD G ap m old' st := rfl
theorem lessthan2exp_dest_indep (ap : Bool) (n : Nat) (old old' : Int) (st : σ) :
    lessthan2expD G ap n old st = lessthan2expD G ap n old' st := rfl
theorem between_dest_indep (lo hi old old' : Int) (st : σ) : betweenD G lo hi old st = betweenD G lo hi old' st := rfl
theorem between2exp_dest_indep (m M fuel : Nat) (old old' : Int) (st : σ) :
    between2expD G m M fuel old st = between2expD G m M fuel old' st := by rw [between2expD_eq, between2expD_eq]
theorem nonzeroW_dest_indep (ap : Bool) (n fuel : Nat) (old old' : Int) (st : σ) :
    nonzeroWD G ap n fuel old st = nonzeroWD G ap n fuel old' st := by rw [nonzeroWD_eq, nonzeroWD_eq]
theorem nonzeroI_dest_indep (ap : Bool) (m : Int) (fuel : Nat) (old old' : Int) (st : σ) :
    nonzeroID G ap m fuel old st = nonzeroID G ap m fuel old' st := by rw [nonzeroID_eq, nonzeroID_eq]

/-- `random_exact_2exp(r, m)` does not depend on what `r` held, for every bit size `m ≥ 1` — including `m = 1`, where no
    random bit is drawn at all (`random_lessthan_2exp(r, 0)` still overwrites `r` with 0 before the top bit is set) -/
theorem exact2exp_dest_indep (ap : Bool) (m : Nat) (hm : m ≠ 0) (old old' : Int) (st : σ) :
    exact2expD G ap m old st = exact2expD G ap m old' st := by
  unfold exact2expD
  simp only [hm, ne_eq, not_false_eq_true, ↓reduceIte]
  rfl

example (st : Unit) : exact2expD constGen true 1 (2 ^ 300) st = exact2expD constGen true 1 0 st :=
  exact2exp_dest_indep constGen true 1 (by decide) _ _ st

/-- … and the hypothesis is needed: for the (out-of-contract) bit size 0 nothing is drawn and the code sets bit `2^64 - 1` in
    whatever `r` held -/
theorem exact2exp_zero_bits_keeps_old (old : Int) (st : σ) :
    exact2expD G true 0 old st = (setbit old 18446744073709551615, st) := by
  simp [exact2expD, signTail, pred64]

/-- `random_exact(r, const Integer& s)`: unconditional, because `bitsize s ≥ 1` for every `s` -/
theorem exactI_dest_indep (ap : Bool) (s old old' : Int) (st : σ) : exactID G ap s old st = exactID G ap s old' st := by
  unfold exactID
  exact exact2exp_dest_indep G ap (bitsize s) (by unfold bitsize; split <;> omega) old old' st

example (st : Unit) : exactID constGen false 0 (-7) st = exactID constGen false 0 12345 st := exactI_dest_indep constGen false 0 _ _ st

/-- the whole family as one statement: replacing the destination content of any admissible call changes nothing -/
theorem intStep_dest_indep (fuel : Nat) (st : σ) (c : IntCall) (hc : c.admissible) (o : Int) :
    intStep G fuel st (c.withOld o) = intStep G fuel st c := by
  cases c with
  | lessthan ap m old => rfl
  | lessthan2exp ap n old => rfl
  | exact2exp ap n old => simp only [IntCall.withOld, intStep]; rw [exact2exp_dest_indep G ap n hc o old st]
  | exactI ap s old => simp only [IntCall.withOld, intStep]; rw [exactI_dest_indep G ap s o old st]
  | between lo hi old => rfl
  | between2exp m M old => simp only [IntCall.withOld, intStep]; exact between2exp_dest_indep G m M fuel o old st
  | nonzeroW ap n old => simp only [IntCall.withOld, intStep]; exact nonzeroW_dest_indep G ap n fuel o old st
  | nonzeroI ap m old => simp only [IntCall.withOld, intStep]; exact nonzeroI_dest_indep G ap m fuel o old st
  | random0 ap => rfl
  | randBool => rfl

/-- **reproducibility of the Integer generator**: after `Integer::seeding(s)` (state `st`) the values returned by any list of
    admissible calls, and the state left behind, are determined by the calls' kinds and parameters — two runs whose calls differ
    only in what the destinations held are identical -/
theorem int_run_dest_indep (fuel : Nat) (cs : List IntCall) (hcs : ∀ c ∈ cs, c.admissible) (os : List Int) (hlen : os.length = cs.length)
    (st : σ) : runCalls (intStep G fuel) (List.zipWith IntCall.withOld cs os) st = runCalls (intStep G fuel) cs st := by
  induction cs generalizing os st with
  | nil => cases os <;> simp_all [runCalls]
  | cons c cs ih =>
    cases os with
    | nil => simp at hlen
    | cons o os =>
      simp only [List.zipWith_cons_cons, runCalls]
      rw [intStep_dest_indep G fuel st c (hcs c (by simp)) o]
      cases intStep G fuel st c with
      | none => rfl
      | some r => simp only; rw [ih (fun c hc => hcs c (by simp [hc])) os (by simpa using hlen)]

example : runCalls (intStep constGen 4) [IntCall.exact2exp true 1 (2 ^ 200), IntCall.nonzeroW false 3 (-1)] ()
    = runCalls (intStep constGen 4) [IntCall.exact2exp true 1 0, IntCall.nonzeroW false 3 0] () := by decide

/-- the ranges hold for the destination-explicit draws as well (they are the value-level draws) -/
theorem lessthanD_range (hG : G.Lawful) (ap : Bool) (m : Int) (hm : 0 < m) (old : Int) (st : σ) :
    ltOk ap m (lessthanD G ap m old st).1 = true := lessthan_range G hG ap m hm st
theorem exact2expD_bits (hG : G.Lawful) (ap : Bool) (n : Nat) (h1 : 1 ≤ n) (h2 : n < 18446744073709551616) (old : Int) (st : σ) :
    exactOk ap n (exact2expD G ap n old st).1 = true ∧ bitsize (exact2expD G ap n old st).1 = n := exact_bits G hG ap n h1 h2 old st
theorem betweenD_range (hG : G.Lawful) (lo hi : Int) (h : lo < hi) (old : Int) (st : σ) :
    betweenOk lo hi (betweenD G lo hi old st).1 = true := between_range G hG lo hi h st

example : exactOk false 200 (exact2expD constGen false 200 (2 ^ 999) ()).1 = true :=
  (exact2expD_bits constGen constGen_lawful false 200 (by decide) (by decide) _ ()).1

/-! ### RandomIntegerIterator -/

/-- one `nextRandom` does not depend on the destination (for the exact-size iterator: for every bit size ≥ 1) -/
theorem riiNext_dest_indep (u e : Bool) (bits : Nat) (hb : bits ≠ 0) (old old' : Int) (st : σ) :
    riiNextD G u e bits old st = riiNextD G u e bits old' st := by
  unfold riiNextD
  cases e
  · rfl
  · simp only [↓reduceIte]; exact exact2exp_dest_indep G u bits hb old old' st

/-- **RandomIntegerIterator**: the values produced by any list of calls (`++`, `random(a)`/`operator()(a)`, `setBitsize`)
    are determined by the generator state at construction, the current bit size and the calls — neither the content of the
    caller's destinations nor the previously generated `_integer` shows in them -/
theorem rii_run_indep (u e : Bool) (cs : List RiiCall) (hcs : ∀ c ∈ cs, c.admissible) (os : List Int) (hlen : os.length = cs.length)
    (bits : Nat) (hb : bits ≠ 0) (i i' : Int) (st : σ) :
    (runCalls (riiStep G u e) (List.zipWith RiiCall.withOld cs os) ⟨bits, i, st⟩).map (fun r => (r.1, r.2.bits, r.2.gen)) =
    (runCalls (riiStep G u e) cs ⟨bits, i', st⟩).map (fun r => (r.1, r.2.bits, r.2.gen)) := by
  induction cs generalizing os bits i i' st with
  | nil => cases os <;> simp_all [runCalls]
  | cons c cs ih =>
    cases os with
    | nil => simp at hlen
    | cons o os =>
      have hrest : ∀ c ∈ cs, c.admissible := fun c hc => hcs c (by simp [hc])
      have hl : os.length = cs.length := by simpa using hlen
      simp only [List.zipWith_cons_cons, runCalls]
      cases c with
      | inc =>
        simp only [RiiCall.withOld, riiStep]
        rw [riiNext_dest_indep G u e bits hb i i' st]
        have := ih hrest os hl bits hb (riiNextD G u e bits i' st).1 (riiNextD G u e bits i' st).1 (riiNextD G u e bits i' st).2
        revert this
        cases runCalls (riiStep G u e) (List.zipWith RiiCall.withOld cs os) ⟨bits, (riiNextD G u e bits i' st).1, (riiNextD G u e bits i' st).2⟩ <;>
          cases runCalls (riiStep G u e) cs ⟨bits, (riiNextD G u e bits i' st).1, (riiNextD G u e bits i' st).2⟩ <;> simp
      | random old =>
        simp only [RiiCall.withOld, riiStep]
        rw [riiNext_dest_indep G u e bits hb o old st]
        have := ih hrest os hl bits hb i i' (riiNextD G u e bits old st).2
        revert this
        cases runCalls (riiStep G u e) (List.zipWith RiiCall.withOld cs os) ⟨bits, i, (riiNextD G u e bits old st).2⟩ <;>
          cases runCalls (riiStep G u e) cs ⟨bits, i', (riiNextD G u e bits old st).2⟩ <;> simp
      | setBitsize b =>
        have hb' : b ≠ 0 := hcs (.setBitsize b) (by simp)
        simp only [RiiCall.withOld, riiStep]
        rw [riiNext_dest_indep G u e b hb' i i' st]
        have := ih hrest os hl b hb' (riiNextD G u e b i' st).1 (riiNextD G u e b i' st).1 (riiNextD G u e b i' st).2
        revert this
        cases runCalls (riiStep G u e) (List.zipWith RiiCall.withOld cs os) ⟨b, (riiNextD G u e b i' st).1, (riiNextD G u e b i' st).2⟩ <;>
          cases runCalls (riiStep G u e) cs ⟨b, (riiNextD G u e b i' st).1, (riiNextD G u e b i' st).2⟩ <;> simp

example : (runCalls (riiStep constGen true true) [RiiCall.setBitsize 5, RiiCall.random (2 ^ 99), RiiCall.inc] ⟨30, 7, ()⟩).map (·.1)
    = (runCalls (riiStep constGen true true) [RiiCall.setBitsize 5, RiiCall.random 0, RiiCall.inc] ⟨30, -1, ()⟩).map (·.1) := by decide

/-- copy constructor / copy assignment: the copy *is* the state, hence continues with the same sequence -/
theorem rii_copy_continues (u e : Bool) (s : RiiSt σ) (cs : List RiiCall) :
    runCalls (riiStep G u e) cs (riiCopy s) = runCalls (riiStep G u e) cs s := by
  cases s; rfl

/-- two iterators constructed with the same parameters on the same (seeded) generator state are the same object -/
theorem rii_same_seed_same_sequence (u e : Bool) (bits₁ bits₂ : Nat) (st₁ st₂ : σ) (hb : bits₁ = bits₂) (hs : st₁ = st₂) (cs : List RiiCall) :
    runCalls (riiStep G u e) cs (riiCtor G u e bits₁ st₁) = runCalls (riiStep G u e) cs (riiCtor G u e bits₂ st₂) := by rw [hb, hs]

end IntDest

/-! ### rings, fields, polynomials on GivRandom -/

/-- one call of any iterator / member function of `Modular<integral>` does not depend on the destination -/
theorem modStep_dest_indep (bits : Nat) (sgn : Bool) (p : Int) (fn : Nat) (size : Int) (fuel : Nat) (g old old' : Int) :
    modStepD bits sgn p fn size fuel g old = modStepD bits sgn p fn size fuel g old' := by rw [modStepD_eq, modStepD_eq]

/-- **ModularRandIter / GIV_randIter / GeneralRingRandIter / GeneralRingNonZeroRandIter / random / nonzerorandom**: the elements
    returned for a list of calls and the generator state left behind do not depend on what the destinations held -/
theorem modRun_dest_indep (bits : Nat) (sgn : Bool) (p : Int) (fn : Nat) (size : Int) (fuel : Nat) (olds olds' : List Int)
    (h : olds.length = olds'.length) (g : Int) :
    modRun bits sgn p fn size fuel olds g = modRun bits sgn p fn size fuel olds' g := by
  unfold modRun
  apply runCalls_congr _ (fun _ _ => True) (fun s c c' _ => modStep_dest_indep bits sgn p fn size fuel s c c')
  exact List.forall₂_iff_get.2 ⟨h, fun _ _ _ => trivial⟩

example : modRun 32 true 101 5 0 64 [-1, -1, -1] 7 = modRun 32 true 101 5 0 64 [0, 5, 1000] 7 :=
  modRun_dest_indep 32 true 101 5 0 64 _ _ rfl 7

/-- copy semantics: the iterator copied after the calls `cs₁` (the copy constructor copies the GivRandom state) and then given
    `cs₂` returns what the original would have returned; equivalently the sequence for `cs₁ ++ cs₂` is the concatenation -/
theorem modRun_append (bits : Nat) (sgn : Bool) (p : Int) (fn : Nat) (size : Int) (fuel : Nat) (cs₁ cs₂ : List Int) (g : Int)
    (r₁ : List Int × Int) (h₁ : modRun bits sgn p fn size fuel cs₁ g = some r₁)
    (r₂ : List Int × Int) (h₂ : modRun bits sgn p fn size fuel cs₂ r₁.2 = some r₂) :
    modRun bits sgn p fn size fuel (cs₁ ++ cs₂) g = some (r₁.1 ++ r₂.1, r₂.2) := by
  unfold modRun at *
  rw [runCalls_append, h₁]; simp only; rw [h₂]

example : (modRun 32 true 101 0 0 64 [0, 0] 7).isSome = true := by decide

/-- **iterator_canonical**: every element of an arbitrarily long run of calls of `ModularRandIter`, `GIV_randIter` (any
    requested size), `GeneralRingRandIter`, `GeneralRingNonZeroRandIter` or the `random`/`nonzerorandom` member functions of
    `Modular<integral>` is canonical (and non-zero for the non-zero forms), from every generator state and into every destination -/
theorem iterator_canonical (bits : Nat) (sgn : Bool) (p : Int) (hb : 1 ≤ bits) (hp : 1 ≤ p) (hfit : p ≤ 2 ^ (bits - 1))
    (fn : Nat) (size : Int) (hs : 0 ≤ size) (hs67 : 6 ≤ fn → size ≠ 0) (fuel : Nat) (olds : List Int) (g : Int) (r : List Int × Int)
    (h : modRun bits sgn p fn size fuel olds g = some r) :
    r.1.length = olds.length ∧ ∀ e ∈ r.1, canonical p e = true ∧ ((fn = 3 ∨ fn = 5 ∨ fn = 7) → e ≠ 0) := by
  unfold modRun at h
  refine runCalls_all _ (fun e => canonical p e = true ∧ ((fn = 3 ∨ fn = 5 ∨ fn = 7) → e ≠ 0)) ?_ olds g r h
  intro s c o s' hstep
  rw [modStepD_eq] at hstep
  exact modStep_spec bits sgn p hb hp hfit fn size hs hs67 fuel s (o, s') hstep

example : ∀ r, modRun 32 true 101 5 0 64 [-1, -1, -1] 7 = some r → r.1.length = 3 ∧ ∀ e ∈ r.1, canonical 101 e = true ∧ ((5 = 3 ∨ 5 = 5 ∨ 5 = 7) → e ≠ 0) :=
  fun r h => iterator_canonical 32 true 101 (by decide) (by decide) (by decide) 5 0 (by decide) (by decide) 64 _ 7 r h
example : (modRun 32 true 101 5 0 64 [-1, -1, -1] 7).isSome = true := by decide

/-- reproducibility from the seed: an iterator is `(ring, size, GivRandom(seed))`; the same seed and construction parameters
    and the same number of calls give the same elements, whatever the destinations held -/
theorem iterator_same_seed_same_sequence (bits : Nat) (sgn : Bool) (p : Int) (fn : Nat) (size : Int) (fuel : Nat)
    (seed₁ seed₂ : Int) (hseed : seed₁ = seed₂) (olds₁ olds₂ : List Int) (h : olds₁.length = olds₂.length) :
    modRun bits sgn p fn size fuel olds₁ (givInit seed₁) = modRun bits sgn p fn size fuel olds₂ (givInit seed₂) := by
  rw [hseed]; exact modRun_dest_indep bits sgn p fn size fuel olds₁ olds₂ h _

/-- the same three statements for `GFqDom` (its `RandIter` is `GIV_randIter`) -/
theorem gfqRun_dest_indep (bits : Nat) (q : Int) (fn : Nat) (size : Int) (fuel : Nat) (olds olds' : List Int)
    (h : olds.length = olds'.length) (g : Int) : gfqRun bits q fn size fuel olds g = gfqRun bits q fn size fuel olds' g := by
  unfold gfqRun
  apply runCalls_congr _ (fun _ _ => True) (fun s c c' _ => by rw [gfqStepD_eq, gfqStepD_eq])
  exact List.forall₂_iff_get.2 ⟨h, fun _ _ _ => trivial⟩

theorem gfqRun_append (bits : Nat) (q : Int) (fn : Nat) (size : Int) (fuel : Nat) (cs₁ cs₂ : List Int) (g : Int)
    (r₁ : List Int × Int) (h₁ : gfqRun bits q fn size fuel cs₁ g = some r₁)
    (r₂ : List Int × Int) (h₂ : gfqRun bits q fn size fuel cs₂ r₁.2 = some r₂) :
    gfqRun bits q fn size fuel (cs₁ ++ cs₂) g = some (r₁.1 ++ r₂.1, r₂.2) := by
  unfold gfqRun at *
  rw [runCalls_append, h₁]; simp only; rw [h₂]

theorem gfq_iterator_canonical (bits : Nat) (q : Int) (hb : 1 ≤ bits) (hq2 : 2 ≤ q) (hq : q < 2 ^ (bits - 1)) (fn : Nat) (size : Int)
    (hs : 0 ≤ size) (hs6 : fn = 6 → 1 ≤ size ∧ size ≤ q) (hs7 : fn = 7 → 2 ≤ size ∧ size ≤ q) (fuel : Nat) (olds : List Int) (g : Int)
    (r : List Int × Int) (h : gfqRun bits q fn size fuel olds g = some r) :
    r.1.length = olds.length ∧ ∀ e ∈ r.1, canonical q e = true ∧ ((fn = 3 ∨ fn = 5 ∨ fn = 7) → e ≠ 0) := by
  unfold gfqRun at h
  refine runCalls_all _ (fun e => canonical q e = true ∧ ((fn = 3 ∨ fn = 5 ∨ fn = 7) → e ≠ 0)) ?_ olds g r h
  intro s c o s' hstep
  rw [gfqStepD_eq] at hstep
  exact gfqStep_spec bits q hb hq2 hq fn size hs hs6 hs7 fuel s (o, s') hstep

example : (gfqRun 32 8 1 100 64 [-1, -1, -1] 7).isSome = true := by decide
example : gfqRun 32 8 1 100 64 [-1, -1, -1] 7 = gfqRun 32 8 1 100 64 [0, 1, 2] 7 := gfqRun_dest_indep 32 8 1 100 64 _ _ rfl 7

/-- **polynomial draws**: `Poly1Dom::random(g, r, Degree d)` (and the size / "same size as b" / `nonzerorandom` forms that
    forward to it) returns the same polynomial whatever `r` held — longer, shorter, empty or non-canonical -/
theorem poly_dest_indep (bits : Nat) (sgn : Bool) (p : Int) (d : Int) (fuel : Nat) (old old' : List Int) (g : Int) :
    polyRandomD bits sgn p d fuel old g = polyRandomD bits sgn p d fuel old' g := by rw [polyRandomD_eq, polyRandomD_eq]

example : polyRandomD 32 true 101 3 64 (List.replicate 12 1) 7 = polyRandomD 32 true 101 3 64 [] 7 := poly_dest_indep _ _ _ _ _ _ _ _

/-- … and is a polynomial of exactly the requested degree with canonical coefficients (the zero polynomial for degree -∞) -/
theorem poly_randomD_degree (bits : Nat) (sgn : Bool) (p : Int) (hb : 1 ≤ bits) (hp : 1 ≤ p) (hfit : p ≤ 2 ^ (bits - 1))
    (d : Int) (fuel : Nat) (old : List Int) (g : Int) (r : List Int × Int) (h : polyRandomD bits sgn p d fuel old g = some r) :
    polyDegOk p d r.1 = true := by
  rw [polyRandomD_eq] at h
  exact poly_random_any_degree bits sgn p hb hp hfit d fuel g r h

example : (polyRandomD 32 true 101 3 64 (List.replicate 12 1) 7).isSome = true := by decide

/-- a sequence of polynomial draws (each with its own requested degree and destination content) on one generator: the
    polynomials and the generator state left behind depend on the degrees only -/
theorem poly_run_dest_indep (bits : Nat) (sgn : Bool) (p : Int) (fuel : Nat) (cs cs' : List (Int × List Int))
    (h : List.Forall₂ (fun c c' => c.1 = c'.1) cs cs') (g : Int) :
    runCalls (polyStep bits sgn p fuel) cs g = runCalls (polyStep bits sgn p fuel) cs' g := by
  apply runCalls_congr _ (fun c c' => c.1 = c'.1) _ cs cs' h
  intro s c c' hc
  unfold polyStep
  rw [hc]; exact poly_dest_indep bits sgn p c'.1 fuel c.2 c'.2 s

/-! ### RecInt::rand -/

/-- filling a `ruint` limb by limb does not depend on its previous content as soon as writing one limb does not -/
theorem ruTree_dest_indep {σ : Type} (leaf : Int → σ → Int × σ) (hleaf : ∀ o o' s, leaf o s = leaf o' s) (k : Nat) :
    ∀ (old old' : Int) (s : σ), ruTree leaf k old s = ruTree leaf k old' s := by
  induction k with
  | zero => intro old old' s; exact hleaf old old' s
  | succ k ih =>
    intro old old' s
    simp only [ruTree]
    rw [ih (old / 2 ^ (64 * 2 ^ k)) (old' / 2 ^ (64 * 2 ^ k)) s]
    rw [ih (old % 2 ^ (64 * 2 ^ k)) (old' % 2 ^ (64 * 2 ^ k))]

theorem ruTree_range {σ : Type} (leaf : Int → σ → Int × σ) (hleaf : ∀ o s, 0 ≤ (leaf o s).1 ∧ (leaf o s).1 < 2 ^ 64) (k : Nat) :
    ∀ (old : Int) (s : σ), 0 ≤ (ruTree leaf k old s).1 ∧ (ruTree leaf k old s).1 < 2 ^ (64 * 2 ^ k) := by
  induction k with
  | zero => intro old s; simpa [ruTree] using hleaf old s
  | succ k ih =>
    intro old s
    simp only [ruTree]
    have e : (2 : Int) ^ (64 * 2 ^ (k + 1)) = 2 ^ (64 * 2 ^ k) * 2 ^ (64 * 2 ^ k) := by rw [← pow_add]; congr 1; rw [pow_succ]; omega
    have hB := two_pow_pos (64 * 2 ^ k)
    have h1 := ih (old / 2 ^ (64 * 2 ^ k)) s
    have h2 := ih (old % 2 ^ (64 * 2 ^ k)) (ruTree leaf k (old / 2 ^ (64 * 2 ^ k)) s).2
    rw [e]
    constructor
    · nlinarith
    · nlinarith

theorem leafW_dest_indep (o o' : Int) (ws : List Int) : leafW o ws = leafW o' ws := by cases ws <;> rfl
theorem leafG_dest_indep (o o' g : Int) : leafG o g = leafG o' g := by simp only [leafG, overwrite]

/-- **`rand(ruint<K>&)`** (and hence `rand(rint<K>&)`, `rand(rmint<K>&)`): the value and the words consumed do not depend on what
    the destination held; the value is in `[0, 2^(2^K))` for every `K ≥ 6` and every stream of 64-bit words -/
theorem ru_rand_dest_indep (K : Nat) (old old' : Int) (ws : List Int) : ruRandD K old ws = ruRandD K old' ws :=
  ruTree_dest_indep leafW leafW_dest_indep (K - 6) old old' ws

theorem ru_rand_range (K : Nat) (hK : 6 ≤ K) (old : Int) (ws : List Int) (hw : ∀ w ∈ ws, 0 ≤ w ∧ w < 18446744073709551616) :
    0 ≤ (ruRandD K old ws).1 ∧ (ruRandD K old ws).1 < 2 ^ (2 ^ K) := by
  have e : (2 : Int) ^ (2 ^ K) = 2 ^ (64 * 2 ^ (K - 6)) := by
    congr 1
    have : 2 ^ K = 2 ^ 6 * 2 ^ (K - 6) := by rw [← pow_add]; congr 1; omega
    omega
  rw [e]
  -- the tail of a stream of words is a stream of words: strengthen the induction over the tree
  have key : ∀ (k : Nat) (o : Int) (l : List Int), (∀ w ∈ l, 0 ≤ w ∧ w < 18446744073709551616) →
      (0 ≤ (ruTree leafW k o l).1 ∧ (ruTree leafW k o l).1 < 2 ^ (64 * 2 ^ k)) ∧ (∀ w ∈ (ruTree leafW k o l).2, 0 ≤ w ∧ w < 18446744073709551616) := by
    intro k
    induction k with
    | zero =>
      intro o l hl
      cases l with
      | nil => simp [ruTree, leafW, overwrite]
      | cons w t =>
        have hw0 := hl w (by simp)
        simp only [ruTree, leafW, overwrite]
        exact ⟨by simpa using hw0, fun x hx => hl x (by simp [hx])⟩
    | succ k ih =>
      intro o l hl
      simp only [ruTree]
      have e2 : (2 : Int) ^ (64 * 2 ^ (k + 1)) = 2 ^ (64 * 2 ^ k) * 2 ^ (64 * 2 ^ k) := by rw [← pow_add]; congr 1; rw [pow_succ]; omega
      have hB := two_pow_pos (64 * 2 ^ k)
      have h1 := ih (o / 2 ^ (64 * 2 ^ k)) l hl
      have h2 := ih (o % 2 ^ (64 * 2 ^ k)) _ h1.2
      rw [e2]
      exact ⟨⟨by nlinarith [h1.1.1, h2.1.1], by nlinarith [h1.1.2, h2.1.2]⟩, h2.2⟩
  exact (key (K - 6) old ws hw).1

example : 0 ≤ (ruRandD 7 (2 ^ 128 - 1) [1, 2]).1 ∧ (ruRandD 7 (2 ^ 128 - 1) [1, 2]).1 < 2 ^ (2 ^ 7) := ru_rand_range 7 (by decide) _ _ (by decide)
example : ruRandD 7 (2 ^ 128 - 1) [1, 2] = (1 * 2 ^ 64 + 2, []) := by decide

/-- `rand(rmint<K>&)` (both representations): canonical residue, independent of the destination -/
theorem rm_rand_spec (K : Nat) (p : Int) (hp : 1 ≤ p) (old old' : Int) (ws : List Int) :
    canonical p (rmRandD K p old ws).1 = true ∧ canonical p (rmRandMgD K p old ws).1 = true ∧
    rmRandD K p old ws = rmRandD K p old' ws ∧ rmRandMgD K p old ws = rmRandMgD K p old' ws := by
  refine ⟨?_, ?_, ?_, ?_⟩
  · unfold canonical rmRandD; simp only [decide_eq_true_eq]
    exact ⟨Int.emod_nonneg _ (by omega), Int.emod_lt_of_pos _ (by omega)⟩
  · unfold canonical rmRandMgD; simp only [decide_eq_true_eq]
    exact ⟨Int.emod_nonneg _ (by omega), Int.emod_lt_of_pos _ (by omega)⟩
  · unfold rmRandD; rw [ru_rand_dest_indep K old old' ws]
  · unfold rmRandMgD; rw [ru_rand_dest_indep K old old' ws]

example : canonical 101 (rmRandD 6 101 (2 ^ 64 - 1) [12345]).1 = true := (rm_rand_spec 6 101 (by decide) _ 0 _).1

/-- `rand(rint<K>&)`: independent of the destination -/
theorem ri_rand_dest_indep (K : Nat) (old old' : Int) (ws : List Int) : riRandD K old ws = riRandD K old' ws := by
  unfold riRandD
  rw [ru_rand_dest_indep K (old % 2 ^ (2 ^ K)) (old' % 2 ^ (2 ^ K)) ws]

/-- a sequence of `rand` calls on the global generator (the stream `ws` left after `srand(s)`): values and remaining stream do
    not depend on the destinations — `srand(s)` followed by the same calls reproduces the same values -/
theorem ru_run_dest_indep (K : Nat) (olds olds' : List Int) (h : olds.length = olds'.length) (ws : List Int) :
    runCalls (fun ws old => some (ruRandD K old ws)) olds ws = runCalls (fun ws old => some (ruRandD K old ws)) olds' ws := by
  apply runCalls_congr _ (fun _ _ => True) (fun s c c' _ => by rw [ru_rand_dest_indep K c c' s])
  exact List.forall₂_iff_get.2 ⟨h, fun _ _ _ => trivial⟩

/-- `Modular<ruint<K>>::random(g, r)` / `Montgomery<ruint<K>>::random(g, r)` on the generator they are given: canonical,
    independent of the destination; `nonzerorandom` additionally non-zero -/
theorem ruint_ring_random_spec (K : Nat) (p : Int) (hp : 1 ≤ p) (old old' g : Int) :
    canonical p (ruRingRandomD K p old g).1 = true ∧ ruRingRandomD K p old g = ruRingRandomD K p old' g := by
  constructor
  · unfold canonical ruRingRandomD; simp only [decide_eq_true_eq]
    exact ⟨Int.emod_nonneg _ (by omega), Int.emod_lt_of_pos _ (by omega)⟩
  · unfold ruRingRandomD; rw [ruTree_dest_indep leafG leafG_dest_indep (K - 6) old old' g]

theorem ruint_ring_nonzero_spec (K : Nat) (p : Int) (hp : 1 ≤ p) (fuel : Nat) : ∀ (old old' g : Int),
    ruRingNonzeroD K p fuel old g = ruRingNonzeroD K p fuel old' g ∧
    ∀ eg, ruRingNonzeroD K p fuel old g = some eg → canonical p eg.1 = true ∧ eg.1 ≠ 0 := by
  induction fuel with
  | zero => intro old old' g; exact ⟨rfl, fun eg h => by simp [ruRingNonzeroD] at h⟩
  | succ f ih =>
    intro old old' g
    have hi := (ruint_ring_random_spec K p hp old old' g).2
    have hc := (ruint_ring_random_spec K p hp old old' g).1
    constructor
    · simp only [ruRingNonzeroD]
      rw [← hi]
    · intro eg h
      simp only [ruRingNonzeroD] at h
      by_cases h0 : (ruRingRandomD K p old g).1 = 0
      · rw [if_pos h0] at h; exact (ih _ 0 _).2 eg h
      · rw [if_neg h0] at h
        simp only [Option.some.injEq] at h; subst h
        exact ⟨hc, h0⟩

theorem ruRingRun_dest_indep (K : Nat) (p : Int) (hp : 1 ≤ p) (fn fuel : Nat) (olds olds' : List Int) (h : olds.length = olds'.length) (g : Int) :
    ruRingRun K p fn fuel olds g = ruRingRun K p fn fuel olds' g := by
  unfold ruRingRun
  apply runCalls_congr _ (fun _ _ => True) _ _ _ (List.forall₂_iff_get.2 ⟨h, fun _ _ _ => trivial⟩)
  intro s c c' _
  unfold ruRingStepD
  rw [(ruint_ring_random_spec K p hp c c' s).2, (ruint_ring_nonzero_spec K p hp fuel c c' s).1]

example : canonical 101 (ruRingRandomD 7 101 (2 ^ 128 - 1) 5).1 = true := (ruint_ring_random_spec 7 101 (by decide) _ 0 5).1
example : (ruRingRun 7 101 5 8 [2 ^ 128 - 1, 0] 5).isSome = true := by decide

/-! ### GivRandom: the constructor for every 64-bit seed; `operator()(XXX&)` -/

/-- a non-zero seed never consults the clock: `GivRandom(s)` is deterministic, for every non-zero `s` -/
theorem givctor_deterministic (s : Int) (hs : s ≠ 0) (clock clock' : List Int) :
    givCtor s clock = givCtor s clock' ∧ givCtor s clock = some (givInit s) := by
  unfold givCtor; simp [hs]

/-- **every 64-bit seed** — non-zero seeds of any size (multiples of 2^31-1, values ≥ 2^31, 2^63, 2^64-1), and the zero seed for
    every clock reading (`BaseTimer::seed()` is an `int64_t`) — gives a state in `[1, 2^31-2]`: never the absorbing state 0 -/
theorem givctor_range (s : Int) (h0 : 0 ≤ s) (h1 : s < 18446744073709551616) (clock : List Int) (hc : ∀ c ∈ clock, InS64 c)
    (g : Int) (h : givCtor s clock = some g) : 1 ≤ g ∧ g < givMod := by
  unfold givCtor at h
  by_cases hs : s = 0
  · simp only [hs, ne_eq, not_true_eq_false, ↓reduceIte] at h
    cases hf : clock.find? (· ≠ 0) with
    | none => rw [hf] at h; simp at h
    | some c =>
      rw [hf] at h
      simp only [Option.some.injEq] at h; subst h
      have hne : c ≠ 0 := by simpa using List.find?_some hf
      have hin := hc c (List.mem_of_find?_eq_some hf)
      unfold InS64 at hin
      exact givinit_range (wrapU64 c) (by unfold wrapU64; omega) (by unfold wrapU64; omega)
  · simp only [hs, ne_eq, not_false_eq_true, ↓reduceIte, Option.some.injEq] at h; subst h
    exact givinit_range s (by omega) h1

example : givCtor 0 [0, 0, 123456789] = some 123456789 := by decide
example : givCtor 4294967294 [] = some 2 := by decide

/-- a seed handed over as a *signed* 64-bit number (converted to `uint64_t` by the call) is as good as any other: every
    non-zero `int64_t`, negative ones included, gives a valid state -/
theorem givctor_signed (s : Int) (hs : InS64 s) (h0 : s ≠ 0) (clock : List Int) :
    ∃ g, givCtor (wrapU64 s) clock = some g ∧ 1 ≤ g ∧ g < givMod := by
  unfold InS64 at hs
  have hw : wrapU64 s ≠ 0 := by unfold wrapU64; omega
  refine ⟨givInit (wrapU64 s), (givctor_deterministic _ hw clock clock).2, ?_⟩
  exact givinit_range (wrapU64 s) (by unfold wrapU64; omega) (by unfold wrapU64; omega)

example : ∃ g, givCtor (wrapU64 (-5)) [] = some g ∧ 1 ≤ g ∧ g < givMod := givctor_signed (-5) (by decide) (by decide) []

/-- which seeds share a sequence: the constructor identifies exactly the seeds that are congruent modulo `2^31 - 2` (shifted by 1);
    in particular the multiples of the modulus `2^31 - 1` are ordinary seeds: `k (2^31-1) ↦ 1 + (k-1) mod (2^31-2)` -/
theorem givinit_periodic (s : Int) (h1 : 1 ≤ s) (h2 : s + 2147483646 < 18446744073709551616) : givInit (s + 2147483646) = givInit s := by
  unfold givInit givMod wrapU64; omega

theorem givinit_multiple (k : Int) (h1 : 1 ≤ k) (h2 : k * 2147483647 < 18446744073709551616) :
    givInit (k * 2147483647) = 1 + (k - 1) % 2147483646 := by
  have hw : wrapU64 (k * 2147483647 - 1) = k * 2147483647 - 1 := by unfold wrapU64; omega
  have he : (k * 2147483647 - 1) % 2147483646 = (k - 1) % 2147483646 := by
    have : k * 2147483647 - 1 = (k - 1) + k * 2147483646 := by ring
    rw [this, Int.add_mul_emod_self_right]
  have hr0 := Int.emod_nonneg (k - 1) (show (2147483646 : Int) ≠ 0 by decide)
  have hr1 := Int.emod_lt_of_pos (k - 1) (show (0 : Int) < 2147483646 by decide)
  unfold givInit givMod
  rw [hw, show (2147483647 : Int) - 1 = 2147483646 by decide, he]
  generalize (k - 1) % 2147483646 = r at hr0 hr1 ⊢
  unfold wrapU64; omega

example : givInit (3 * 2147483647) = 3 := by decide

/-- every draw of every sequence from every 64-bit seed (zero seed: for every clock) is in range: combination of the above -/
theorem givrandom_every_seed (s : Int) (h0 : 0 ≤ s) (h1 : s < 18446744073709551616) (clock : List Int) (hc : ∀ c ∈ clock, InS64 c)
    (g : Int) (h : givCtor s clock = some g) (n : Nat) : ∀ x ∈ givDraws n g, givOk x = true := by
  intro x hx
  have hg := givctor_range s h0 h1 clock hc g h
  have := givdraws_range n g hg.1 hg.2 x hx
  unfold givMod at this
  simp only [givOk, decide_eq_true_eq]; exact this

/-- `g(x)` (`template<class XXX> XXX& operator()(XXX& x)`): the value written and the new state do not depend on what `x` held -/
theorem givdrawinto_dest_indep (cast : Int → Int) (old old' g : Int) : givDrawInto cast old g = givDrawInto cast old' g := rfl

/-- … and the draw behind it is the ordinary one (same state transition, value = the conversion of `operator()()`) -/
theorem givdrawinto_eq (cast : Int → Int) (old g : Int) : givDrawInto cast old g = (cast (givNext g), givNext g) := rfl

end Givaro.Props.C20
