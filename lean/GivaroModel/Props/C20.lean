/-
C20 — Random generators respect their ranges and are reproducible from the seed.

Every theorem is about `Model/Random.lean`, the line-by-line model of the code (tied to /repo by the correspondence of
checks/c20.py), and is stated for *all* seeds, bounds, bit sizes, moduli, generator states and sequence lengths.
GMP's generator and mt19937_64 are universally quantified (`RawGen`, word lists) under their documented contracts only.
-/
import GivaroModel.Model.Random
import GivaroModel.Spec.RandomSpec
import GivaroModel.Lemmas.RandomLemmas
import GivaroModel.Lemmas.RandomOrbit
namespace Givaro.Props.C20
open Givaro Givaro.Model.Random Givaro.Spec.Random Givaro.Lemmas.Random

/-! ### the checkers say what the property says -/

theorem ltOk_iff (ap : Bool) (m r : Int) :
    ltOk ap m r = true ↔ (if ap = true then 0 ≤ r ∧ r < m else -m < r ∧ r < m) := by
  unfold ltOk; cases ap <;> simp

theorem betweenOk_iff (lo hi r : Int) : betweenOk lo hi r = true ↔ lo ≤ r ∧ r < hi := by
  unfold betweenOk; simp

theorem canonical_iff (p e : Int) : canonical p e = true ↔ 0 ≤ e ∧ e < p := by
  unfold canonical; simp

/-- the bit-size checker agrees with the library's own notion of size (`Integer::bitsize` = `mpz_sizeinbase(·, 2)`):
    "exactly n bits" ⇔ non-zero and `bitsize = n` -/
theorem hasBits_iff_bitsize (n : Nat) (x : Int) (hn : 1 ≤ n) : hasBits n x = true ↔ x ≠ 0 ∧ bitsize x = n := by
  have hpp := two_pow_pos (n - 1)
  unfold hasBits
  simp only [decide_eq_true_eq]
  constructor
  · rintro ⟨_, h1, h2⟩
    have hx : x ≠ 0 := by
      intro h0; subst h0; unfold iabs at h1; simp at h1; omega
    exact ⟨hx, (bitsize_eq_iff x n hx hn).2 ⟨h1, h2⟩⟩
  · rintro ⟨hx, hb⟩
    have := (bitsize_eq_iff x n hx hn).1 hb
    exact ⟨hn, this.1, this.2⟩

example : hasBits 6 63 = true ↔ (63 : Int) ≠ 0 ∧ bitsize 63 = 6 := hasBits_iff_bitsize 6 63 (by decide)

/-! ### GivRandom -/

/-- one step keeps the state in `[1, 2^31 - 2]`: the multiplier is invertible modulo `2^31 - 1`, so the state is never 0
    (a zero state would be absorbing and would make every `nonzerorandom` loop spin forever) -/
theorem givrandom_range (s : Int) (h1 : 1 ≤ s) (h2 : s < givMod) : 1 ≤ givNext s ∧ givNext s < givMod := by
  unfold givMod at h2
  have hw : wrapS64 (givMul * wrapS64 s) = 950706376 * s := by unfold givMul wrapS64; omega
  have hne := giv_mul_ne_zero s h1 h2
  have hr0 := Int.emod_nonneg (950706376 * s) (show (2147483647 : Int) ≠ 0 by decide)
  have hr1 := Int.emod_lt_of_pos (950706376 * s) (show (0 : Int) < 2147483647 by decide)
  unfold givNext
  rw [hw, Int.tmod_eq_emod_of_nonneg (by omega)]
  unfold givMod wrapU64
  generalize 950706376 * s % 2147483647 = r at hne hr0 hr1 ⊢
  clear hw
  omega

example : 1 ≤ givNext 1 ∧ givNext 1 < givMod := givrandom_range 1 (by decide) (by decide)

/-- the signed product of `operator()` is representable (no undefined behaviour) for every state below `2^63 / 950706376`,
    in particular for every state in `[1, 2^31 - 2]` -/
theorem givrandom_no_overflow (s : Int) (h0 : 0 ≤ s) (h1 : s ≤ 9701599010) :
    InS64 (givMul * wrapS64 s) ∧ wrapS64 (givMul * wrapS64 s) = givMul * s := by
  unfold InS64 givMul wrapS64; omega

example : InS64 (givMul * wrapS64 9701599010) ∧ wrapS64 (givMul * wrapS64 9701599010) = givMul * 9701599010 :=
  givrandom_no_overflow _ (by decide) (by decide)

/-- the bound of `givrandom_no_overflow` is sharp -/
theorem givrandom_overflow_threshold : ¬ InS64 (givMul * wrapS64 9701599011) := by decide

/-- the constructor maps every non-zero 64-bit seed into the generator's state space … -/
theorem givinit_range (seed : Int) (h1 : 1 ≤ seed) (h2 : seed < 18446744073709551616) :
    1 ≤ givInit seed ∧ givInit seed < givMod := by
  unfold givInit givMod wrapU64; omega

example : 1 ≤ givInit 18446744073709551615 ∧ givInit 18446744073709551615 < givMod := givinit_range _ (by decide) (by decide)

/-- … and leaves the seeds that are already states unchanged -/
theorem givinit_id (seed : Int) (h1 : 1 ≤ seed) (h2 : seed < givMod) : givInit seed = seed := by
  unfold givMod at h2; unfold givInit givMod wrapU64; omega

example : givInit 2147483646 = 2147483646 := givinit_id _ (by decide) (by decide)

/-- all draws of an arbitrarily long sequence from a valid state lie in `[1, max_rand())` -/
theorem givdraws_range (n : Nat) : ∀ s : Int, 1 ≤ s → s < givMod → ∀ x ∈ givDraws n s, 1 ≤ x ∧ x < givMod := by
  induction n with
  | zero => intro s _ _ x hx; simp [givDraws] at hx
  | succ n ih =>
    intro s h1 h2 x hx
    have hs := givrandom_range s h1 h2
    simp only [givDraws, List.mem_cons] at hx
    rcases hx with rfl | hx
    · exact hs
    · exact ih (givNext s) hs.1 hs.2 x hx

example : ∀ x ∈ givDraws 3 1, 1 ≤ x ∧ x < givMod := givdraws_range 3 1 (by decide) (by decide)

/-- **GivRandom, full statement**: for every non-zero 64-bit seed and every length, every draw is in `[1, 2^31 - 2]`
    (in particular never 0 and below `max_rand()`) -/
theorem givrandom_all_seeds (seed : Int) (h1 : 1 ≤ seed) (h2 : seed < 18446744073709551616) (n : Nat) :
    ∀ x ∈ givDraws n (givInit seed), givOk x = true := by
  intro x hx
  have hi := givinit_range seed h1 h2
  have := givdraws_range n (givInit seed) hi.1 hi.2 x hx
  unfold givMod at this
  simp only [givOk, decide_eq_true_eq]; exact this

example : ∀ x ∈ givDraws 5 (givInit 4294967294), givOk x = true := givrandom_all_seeds _ (by decide) (by decide) 5

/-- the state reached after any number of draws is again a valid state, so no draw of the sequence ever overflows -/
theorem giviter_range (n : Nat) : ∀ s : Int, 1 ≤ s → s < givMod → 1 ≤ givIter n s ∧ givIter n s < givMod := by
  induction n with
  | zero => intro s h1 h2; exact ⟨h1, h2⟩
  | succ n ih => intro s h1 h2; have hs := givrandom_range s h1 h2; exact ih (givNext s) hs.1 hs.2

example : 1 ≤ givIter 4 7 ∧ givIter 4 7 < givMod := giviter_range 4 7 (by decide) (by decide)

theorem givrandom_never_overflows (seed : Int) (h1 : 1 ≤ seed) (h2 : seed < 18446744073709551616) (n : Nat) :
    InS64 (givMul * wrapS64 (givIter n (givInit seed))) := by
  have hi := givinit_range seed h1 h2
  have hs := giviter_range n (givInit seed) hi.1 hi.2
  unfold givMod at hs
  exact (givrandom_no_overflow _ (by omega) (by omega)).1

example : InS64 (givMul * wrapS64 (givIter 9 (givInit 9702500000))) := givrandom_never_overflows _ (by decide) (by decide) 9

/-- distinct states have distinct successors (the step is a permutation of `[1, 2^31 - 2]`): no two seeds of the state
    space merge into one sequence -/
theorem givnext_injective (s t : Int) (hs1 : 1 ≤ s) (hs2 : s < givMod) (ht1 : 1 ≤ t) (ht2 : t < givMod)
    (h : givNext s = givNext t) : s = t := by
  unfold givMod at hs2 ht2
  have hws : wrapS64 (givMul * wrapS64 s) = 950706376 * s := by unfold givMul wrapS64; omega
  have hwt : wrapS64 (givMul * wrapS64 t) = 950706376 * t := by unfold givMul wrapS64; omega
  unfold givNext at h
  rw [hws, hwt, Int.tmod_eq_emod_of_nonneg (by omega), Int.tmod_eq_emod_of_nonneg (by omega)] at h
  unfold givMod wrapU64 at h
  apply giv_mul_inj s t hs1 hs2 ht1 ht2
  have a0 := Int.emod_nonneg (950706376 * s) (show (2147483647 : Int) ≠ 0 by decide)
  have a1 := Int.emod_lt_of_pos (950706376 * s) (show (0 : Int) < 2147483647 by decide)
  have b0 := Int.emod_nonneg (950706376 * t) (show (2147483647 : Int) ≠ 0 by decide)
  have b1 := Int.emod_lt_of_pos (950706376 * t) (show (0 : Int) < 2147483647 by decide)
  generalize 950706376 * s % 2147483647 = x at h a0 a1 ⊢
  generalize 950706376 * t % 2147483647 = y at h b0 b1 ⊢
  clear hws hwt
  omega

example : (3 : Int) = 3 := givnext_injective 3 3 (by decide) (by decide) (by decide) (by decide) rfl

/-- reproducibility: the sequence is a function of the seed alone (the model has no other input; that the *code* has none
    is what the correspondence checks by constructing every generator twice), and a copy of a generator continues with
    the same sequence as the original -/
theorem same_seed_same_sequence (seed₁ seed₂ : Int) (h : seed₁ = seed₂) (n : Nat) :
    givDraws n (givInit seed₁) = givDraws n (givInit seed₂) := by rw [h]

example : givDraws 4 (givInit 5) = givDraws 4 (givInit 5) := same_seed_same_sequence 5 5 rfl 4

/-- the draws after the first `k` are the draws of a generator started (copied) at the state reached after `k` draws -/
theorem givdraws_append (k n : Nat) : ∀ s : Int, givDraws (k + n) s = givDraws k s ++ givDraws n (givIter k s) := by
  induction k with
  | zero => intro s; simp [givDraws, givIter]
  | succ k ih => intro s; rw [Nat.succ_add]; simp only [givDraws, givIter, List.cons_append]; rw [ih]

/-! ### Integer::random* — for every raw generator satisfying GMP's contract -/

theorem pred64_eq (n : Nat) (h1 : 1 ≤ n) (h2 : n < 18446744073709551616) : pred64 n = n - 1 := by
  unfold pred64; omega

section Int
variable {σ : Type} (G : RawGen σ) (hG : G.Lawful)
include hG

theorem signTail_range (ap : Bool) (r b : Int) (st : σ) (h0 : 0 ≤ r) (h1 : r < b) :
    (ap = true → 0 ≤ (signTail G ap r st).1 ∧ (signTail G ap r st).1 < b) ∧
    (-b < (signTail G ap r st).1 ∧ (signTail G ap r st).1 < b) := by
  unfold signTail
  cases ap <;> simp only [Bool.false_eq_true, ↓reduceIte, false_implies, true_and, forall_const]
  · split <;> omega
  · omega

example (st : σ) : (-5 < (signTail G false 3 st).1 ∧ (signTail G false 3 st).1 < 5) :=
  (signTail_range G hG false 3 5 st (by decide) (by decide)).2

/-- draws below a bound are in `[0, m)` (in `(-m, m)` when the sign is random) -/
theorem lessthan_range (ap : Bool) (m : Int) (hm : 0 < m) (st : σ) :
    ltOk ap m (lessthan G ap m st).1 = true := by
  have h := hG.2 st m hm
  have := signTail_range G hG ap (G.range st m).1 m (G.range st m).2 h.1 h.2
  unfold lessthan ltOk
  cases ap <;> simp only [Bool.false_eq_true, ↓reduceIte, decide_eq_true_eq]
  · exact this.2
  · exact this.1 rfl

example (st : σ) : ltOk true 1 (lessthan G true 1 st).1 = true := lessthan_range G hG true 1 (by decide) st

/-- draws of at most `n` bits are in `[0, 2^n)` (`(-2^n, 2^n)` with a random sign), for every `n` including 0 -/
theorem lessthan2exp_range (ap : Bool) (n : Nat) (st : σ) :
    ltOk ap (2 ^ n) (lessthan2exp G ap n st).1 = true := by
  have h := hG.1 st n
  have := signTail_range G hG ap (G.bits st n).1 (2 ^ n) (G.bits st n).2 h.1 h.2
  unfold lessthan2exp ltOk
  cases ap <;> simp only [Bool.false_eq_true, ↓reduceIte, decide_eq_true_eq]
  · exact this.2
  · exact this.1 rfl

/-- draws of an exact bit size have exactly that many bits, for every size `1 ≤ n < 2^64` (words and multi-limb alike);
    the value is positive unless the sign is random -/
theorem exact_bits (ap : Bool) (n : Nat) (h1 : 1 ≤ n) (h2 : n < 18446744073709551616) (r0 : Int) (st : σ) :
    exactOk ap n (exact2exp G ap n r0 st).1 = true ∧ bitsize (exact2exp G ap n r0 st).1 = n := by
  have hp := pred64_eq n h1 h2
  have hn0 : n ≠ 0 := by omega
  have hb := hG.1 st (n - 1)
  have hpow := two_pow_succ' n h1
  have hpp := two_pow_pos (n - 1)
  unfold exact2exp
  simp only [hn0, ne_eq, not_false_eq_true, ↓reduceIte, hp]
  have hd : (lessthan2exp G true (n - 1) st).1 = (G.bits st (n - 1)).1 := by simp [lessthan2exp, signTail]
  rw [hd, setbit_of_lt _ _ hb.1 hb.2]
  generalize (lessthan2exp G true (n - 1) st).2 = st'
  generalize hv : (G.bits st (n - 1)).1 = v at hb ⊢
  have key : ∀ x : Int, (x = v + 2 ^ (n - 1) ∨ x = -(v + 2 ^ (n - 1))) → (ap = true → x = v + 2 ^ (n - 1)) →
      exactOk ap n x = true ∧ bitsize x = n := by
    intro x hx hap
    have hx0 : x ≠ 0 := by rcases hx with h | h <;> omega
    have habs : iabs x = v + 2 ^ (n - 1) := by unfold iabs; rcases hx with h | h <;> split <;> omega
    have hbits : (2 : Int) ^ (n - 1) ≤ iabs x ∧ iabs x < 2 ^ n := by rw [habs]; omega
    refine ⟨?_, (bitsize_eq_iff x n hx0 h1).2 hbits⟩
    unfold exactOk hasBits
    simp only [Bool.and_eq_true, decide_eq_true_eq, Bool.or_eq_true, Bool.not_eq_true']
    refine ⟨⟨h1, hbits⟩, ?_⟩
    cases ap
    · left; rfl
    · right; have := hap rfl; omega
  apply key
  · unfold signTail; cases ap <;> simp only [Bool.false_eq_true, ↓reduceIte]
    · split <;> simp
    · simp
  · intro h; subst h; simp [signTail]

example (st : σ) : bitsize (exact2exp G true 1 0 st).1 = 1 := (exact_bits G hG true 1 (by decide) (by decide) 0 st).2

/-- `random_exact(r, s)`: the draw has exactly the bit size of `s` (whatever the sign and size of `s`, `s = 0` included) -/
theorem exact_of_integer_bits (ap : Bool) (s : Int) (hs : bitsize s < 18446744073709551616) (r0 : Int) (st : σ) :
    bitsize (exactI G ap s r0 st).1 = bitsize s := by
  have h1 : 1 ≤ bitsize s := by unfold bitsize; split <;> omega
  exact (exact_bits G hG ap (bitsize s) h1 hs r0 st).2

example (st : σ) : bitsize (exactI G true 511 0 st).1 = bitsize 511 := exact_of_integer_bits G hG true 511 (by decide) 0 st

/-- draws between bounds lie in `[lo, hi)`, for all `lo < hi` of either sign -/
theorem between_range (lo hi : Int) (h : lo < hi) (st : σ) : betweenOk lo hi (between G lo hi st).1 = true := by
  have := lessthan_range G hG true (hi - lo) (by omega) st
  unfold ltOk at this
  simp only [↓reduceIte, decide_eq_true_eq] at this
  unfold between betweenOk
  simp only [decide_eq_true_eq]; omega

example (st : σ) : betweenOk (-26) 511 (between G (-26) 511 st).1 = true := between_range G hG _ _ (by decide) st

/-- non-zero draws are never zero and stay in the range (word bound = number of bits) -/
theorem nonzero_ne_zero (ap : Bool) (n : Nat) (fuel : Nat) : ∀ (st : σ) (rs : Int × σ),
    nonzeroW G ap n fuel st = some rs → nonzeroOk ap (2 ^ n) rs.1 = true := by
  induction fuel with
  | zero => intro st rs h; simp [nonzeroW] at h
  | succ f ih =>
    intro st rs h
    unfold nonzeroW at h
    split at h
    · exact ih _ _ h
    · rename_i hne
      simp only [Option.some.injEq] at h
      subst h
      unfold nonzeroOk
      simp only [Bool.and_eq_true, decide_eq_true_eq]
      exact ⟨hne, lessthan2exp_range G hG ap n st⟩

/-- the same for an Integer bound -/
theorem nonzero_integer_ne_zero (ap : Bool) (m : Int) (hm : 0 < m) (fuel : Nat) : ∀ (st : σ) (rs : Int × σ),
    nonzeroI G ap m fuel st = some rs → nonzeroOk ap m rs.1 = true := by
  induction fuel with
  | zero => intro st rs h; simp [nonzeroI] at h
  | succ f ih =>
    intro st rs h
    unfold nonzeroI at h
    split at h
    · exact ih _ _ h
    · rename_i hne
      simp only [Option.some.injEq] at h
      subst h
      unfold nonzeroOk
      simp only [Bool.and_eq_true, decide_eq_true_eq]
      exact ⟨hne, lessthan_range G hG ap m hm st⟩

/-- `random_between_2exp(r, m, M)` (also reached by `random_between` on word arguments): `2^m ≤ r < 2^M` for all `m < M` -/
theorem between2exp_range (m M : Nat) (h : m < M) (hM : M < 18446744073709551616) (fuel : Nat) (st : σ) (rs : Int × σ)
    (hr : between2exp G m M fuel st = some rs) : betweenOk (2 ^ m) (2 ^ M) rs.1 = true := by
  unfold between2exp at hr
  have hd : (M + 18446744073709551616 - m) % 18446744073709551616 = M - m := by omega
  rw [hd] at hr
  split at hr
  · simp at hr
  · rename_i d hd'
    simp only [Option.some.injEq] at hr
    subst hr
    have h1 := nonzero_ne_zero G hG true (M - m) fuel st d hd'
    have h2 := lessthan2exp_range G hG true m d.2
    unfold nonzeroOk ltOk at h1
    unfold ltOk at h2
    simp only [↓reduceIte, Bool.and_eq_true, decide_eq_true_eq] at h1 h2
    unfold betweenOk
    simp only [decide_eq_true_eq]
    have hpm := two_pow_pos m
    have hsplit : (2 : Int) ^ M = 2 ^ (M - m) * 2 ^ m := by rw [← pow_add]; congr 1; omega
    rw [hsplit]
    obtain ⟨hne, h10, h11⟩ := h1
    have hd1 : 1 ≤ d.1 := by omega
    have e1 := mul_le_mul_of_nonneg_right hd1 hpm.le
    have e2 := mul_le_mul_of_nonneg_right (show d.1 + 1 ≤ 2 ^ (M - m) by omega) hpm.le
    constructor
    · nlinarith
    · nlinarith

end Int

/-! non-vacuity of the section above: a concrete generator satisfies the contract, and the fuel-bounded loops do return -/

/-- a (very non-random) generator that satisfies GMP's contract: always the largest 1-bit value that fits -/
def constGen : RawGen Unit where
  bits := fun s n => (if n = 0 then 0 else 1, s)
  range := fun s m => (if m ≤ 1 then 0 else 1, s)

theorem constGen_lawful : constGen.Lawful := by
  refine ⟨fun s n => ?_, fun s m hm => ?_⟩
  · simp only [constGen]
    split
    · rename_i h; subst h; decide
    · rename_i h
      have := two_pow_succ' n (by omega)
      have := two_pow_pos (n - 1)
      omega
  · simp only [constGen]; split <;> omega

example : ltOk false 10 (lessthan constGen false 10 ()).1 = true := lessthan_range constGen constGen_lawful false 10 (by decide) ()
example : bitsize (exact2exp constGen false 200 0 ()).1 = 200 := (exact_bits constGen constGen_lawful false 200 (by decide) (by decide) 0 ()).2
example : nonzeroW constGen true 3 1 () = some (1, ()) := by decide
example : nonzeroOk true (2 ^ 3) 1 = true := nonzero_ne_zero constGen constGen_lawful true 3 1 () (1, ()) (by decide)
example : nonzeroI constGen false 7 2 () = some (-1, ()) := by decide
example : nonzeroOk false 7 (-1) = true := nonzero_integer_ne_zero constGen constGen_lawful false 7 (by decide) 2 () (-1, ()) (by decide)
example : between2exp constGen 3 6 1 () = some (9, ()) := by decide
example : betweenOk (2 ^ 3) (2 ^ 6) 9 = true := between2exp_range constGen constGen_lawful 3 6 (by decide) (by decide) 1 () (9, ()) (by decide)

/-! ### ring / field iterators on GivRandom -/

theorem givnext_u64 (g : Int) : 0 ≤ givNext g ∧ givNext g < 18446744073709551616 := by
  unfold givNext wrapU64; omega

/-- `Modular<Storage_t>::init(x, uint64_t)` returns a canonical element, for **every** 64-bit value (not only the values
    GivRandom can produce), every storage type and every modulus that fits the storage type's positive half -/
theorem init_canonical (bits : Nat) (sgn : Bool) (p y : Int) (hb : 1 ≤ bits) (hp : 1 ≤ p) (hfit : p ≤ 2 ^ (bits - 1))
    (hy0 : 0 ≤ y) : canonical p (initU64 bits sgn p y) = true := by
  have hm0 := Int.emod_nonneg y (show p ≠ 0 by omega)
  have hm1 := Int.emod_lt_of_pos y (show 0 < p by omega)
  have ht := tmod_bounds (wrapS64 y) p (by omega)
  unfold canonical initU64
  simp only [decide_eq_true_eq]
  split
  · rw [castSt_id bits sgn _ hb hm0 (by omega)]; exact ⟨hm0, hm1⟩
  · split
    · split
      · rw [castSt_id bits sgn _ hb (by omega) (by omega)]; omega
      · omega
    · exact ⟨hm0, hm1⟩

example : canonical 101 (initU64 32 true 101 18446744073709551615) = true :=
  init_canonical 32 true 101 _ (by decide) (by decide) (by decide) (by decide)

/-- `GIV_randIter`'s sampling size is positive and never exceeds the cardinality of a finite ring, whatever size is asked for -/
theorem sampleSize_bounds (card size : Int) (hc : 1 ≤ card) (hs : 0 ≤ size) :
    0 < sampleSize card size ∧ sampleSize card size ≤ card ∧ (size = 0 → sampleSize card size = card) := by
  unfold sampleSize
  split <;> split <;> omega

example : sampleSize 2 3 = 2 := by decide

section Ring
variable (bits : Nat) (sgn : Bool) (p : Int) (hb : 1 ≤ bits) (hp : 1 ≤ p) (hfit : p ≤ 2 ^ (bits - 1))
include hb hp hfit

theorem modRandom_canonical (g : Int) : canonical p (modRandom bits sgn p g).1 = true :=
  init_canonical bits sgn p _ hb hp hfit (givnext_u64 g).1

theorem modRandomSz_canonical (size g : Int) (hs : 0 < size) : canonical p (modRandomSz bits sgn p size g).1 = true :=
  init_canonical bits sgn p _ hb hp hfit (Int.emod_nonneg _ (by omega))

theorem modNonzero_spec (fuel : Nat) : ∀ (g : Int) (eg : Int × Int), modNonzero bits sgn p fuel g = some eg →
    canonical p eg.1 = true ∧ eg.1 ≠ 0 := by
  induction fuel with
  | zero => intro g eg h; simp [modNonzero] at h
  | succ f ih =>
    intro g eg h
    unfold modNonzero at h
    split at h
    · exact ih _ _ h
    · rename_i hne
      simp only [Option.some.injEq] at h; subst h
      exact ⟨modRandom_canonical bits sgn p hb hp hfit g, hne⟩

theorem modNonzeroSz_spec (size : Int) (hs : 0 < size) (fuel : Nat) : ∀ (g : Int) (eg : Int × Int),
    modNonzeroSz bits sgn p size fuel g = some eg → canonical p eg.1 = true ∧ eg.1 ≠ 0 := by
  induction fuel with
  | zero => intro g eg h; simp [modNonzeroSz] at h
  | succ f ih =>
    intro g eg h
    unfold modNonzeroSz at h
    split at h
    · exact ih _ _ h
    · rename_i hne
      simp only [Option.some.injEq] at h; subst h
      exact ⟨modRandomSz_canonical bits sgn p hb hp hfit size g hs, hne⟩

/-- one draw of any of the eight iterator / member-function forms is canonical, and non-zero for the non-zero forms;
    `size = 0` means "whole ring" for the iterators (fn 1, 2) and is a division by zero for `random(g, r, size)` (fn 6, 7) -/
theorem modStep_spec (fn : Nat) (size : Int) (hs : 0 ≤ size) (hs67 : 6 ≤ fn → size ≠ 0) (fuel : Nat) (g : Int) (eg : Int × Int)
    (h : modStep bits sgn p fn size fuel g = some eg) :
    canonical p eg.1 = true ∧ ((fn = 3 ∨ fn = 5 ∨ fn = 7) → eg.1 ≠ 0) := by
  unfold modStep at h
  split at h
  · simp only [Option.some.injEq] at h; subst h
    exact ⟨modRandom_canonical bits sgn p hb hp hfit g, by omega⟩
  · simp only [Option.some.injEq] at h; subst h
    exact ⟨modRandomSz_canonical bits sgn p hb hp hfit _ g (sampleSize_bounds p size hp hs).1, by omega⟩
  · simp only [Option.some.injEq] at h; subst h
    refine ⟨modRandomSz_canonical bits sgn p hb hp hfit _ g ?_, by omega⟩
    split <;> omega
  · have := modNonzero_spec bits sgn p hb hp hfit fuel g eg h; exact ⟨this.1, fun _ => this.2⟩
  · simp only [Option.some.injEq] at h; subst h
    exact ⟨modRandom_canonical bits sgn p hb hp hfit g, by omega⟩
  · have := modNonzero_spec bits sgn p hb hp hfit fuel g eg h; exact ⟨this.1, fun _ => this.2⟩
  · simp only [Option.some.injEq] at h; subst h
    exact ⟨modRandomSz_canonical bits sgn p hb hp hfit size g (by have := hs67 (by omega); omega), by omega⟩
  · have := modNonzeroSz_spec bits sgn p hb hp hfit size (by have := hs67 (by omega); omega) fuel g eg h
    exact ⟨this.1, fun _ => this.2⟩
  · simp at h

/-- **iterator_canonical**: every element of an arbitrarily long sequence drawn by `ModularRandIter`, `GIV_randIter`,
    `GeneralRingRandIter`, `GeneralRingNonZeroRandIter` or the `random`/`nonzerorandom` member functions of
    `Modular<integral>` is canonical (and non-zero for the non-zero forms), from every generator state -/
theorem iterator_canonical (fn : Nat) (size : Int) (hs : 0 ≤ size) (hs67 : 6 ≤ fn → size ≠ 0) (fuel : Nat) (n : Nat) :
    ∀ (g : Int) (l : List Int), modSeq bits sgn p fn size fuel n g = some l →
      l.length = n ∧ ∀ e ∈ l, canonical p e = true ∧ ((fn = 3 ∨ fn = 5 ∨ fn = 7) → e ≠ 0) := by
  induction n with
  | zero => intro g l h; simp only [modSeq, Option.some.injEq] at h; subst h; simp
  | succ n ih =>
    intro g l h
    unfold modSeq at h
    split at h
    · simp at h
    · rename_i eg heg
      split at h
      · simp at h
      · rename_i l' hl'
        simp only [Option.some.injEq] at h; subst h
        have h1 := modStep_spec bits sgn p hb hp hfit fn size hs hs67 fuel g eg heg
        have h2 := ih eg.2 l' hl'
        refine ⟨by simp [h2.1], ?_⟩
        intro e he
        simp only [List.mem_cons] at he
        rcases he with rfl | he
        · exact h1
        · exact h2.2 e he

end Ring

/-- termination of `nonzerorandom`, the part that is proved: whenever a draw is not a multiple of the modulus the loop
    stops at that draw.  For moduli `p ≥ 2^31 - 1` (64-bit storage) this is the first draw, from every valid generator state.
    (For smaller moduli termination needs "the orbit of the generator contains a non-multiple of p", which holds because the
    multiplier is a primitive root modulo 2^31 - 1; that fact is not proved here — the correspondence runs the loops under a watchdog.) -/
theorem modNonzero_terminates_large (sgn : Bool) (p g : Int) (hp : givMod ≤ p) (hg1 : 1 ≤ g) (hg2 : g < givMod) (fuel : Nat) :
    modNonzero 64 sgn p (fuel + 1) g = some (givNext g, givNext g) := by
  have hr := givrandom_range g hg1 hg2
  unfold givMod at hp hr
  have hi : initU64 64 sgn p (givNext g) = givNext g := by
    unfold initU64
    simp only [Nat.lt_irrefl, ↓reduceIte]
    have hw : wrapS64 (givNext g) = givNext g := by unfold wrapS64; omega
    cases sgn
    · simp only [Bool.false_eq_true, ↓reduceIte]; exact Int.emod_eq_of_lt (by omega) (by omega)
    · simp only [↓reduceIte, hw]
      have ht : Int.tmod (givNext g) p = givNext g := by
        rw [Int.tmod_eq_emod_of_nonneg (by omega)]; exact Int.emod_eq_of_lt (by omega) (by omega)
      rw [ht, if_neg (by omega)]
  unfold modNonzero modRandom
  simp only [hi]
  rw [if_neg (by omega)]

example : modNonzero 64 false 4294967291 1 5 = some (givNext 5, givNext 5) :=
  modNonzero_terminates_large false 4294967291 5 (by decide) (by decide) (by decide) 0

example : ∀ l, modSeq 32 true 101 5 0 64 3 7 = some l → l.length = 3 ∧ ∀ e ∈ l, canonical 101 e = true ∧ ((5 = 3 ∨ 5 = 5 ∨ 5 = 7) → e ≠ 0) :=
  fun l h => iterator_canonical 32 true 101 (by decide) (by decide) (by decide) 5 0 (by decide) (by decide) 64 3 7 l h
example : (modSeq 32 true 101 5 0 64 3 7).isSome = true := by decide

/-! ### termination of the `nonzerorandom` loops on GivRandom

The multiplier is a primitive root modulo the prime 2^31 - 1 (Lemmas/RandomOrbit.lean, Lucas' criterion), so from every
valid state the generator eventually returns 1, which is a non-zero residue for every modulus `p ≥ 2`. -/

theorem init_one (bits : Nat) (sgn : Bool) (p : Int) (hb : 1 ≤ bits) (hp : 2 ≤ p) (hfit : p ≤ 2 ^ (bits - 1)) :
    initU64 bits sgn p 1 = 1 := by
  have h1 : (1 : Int) % p = 1 := Int.emod_eq_of_lt (by omega) (by omega)
  have hw : wrapS64 1 = 1 := by decide
  have ht : Int.tmod 1 p = 1 := by rw [Int.tmod_eq_emod_of_nonneg (by omega)]; exact h1
  unfold initU64
  rw [h1, hw, ht]
  split
  · exact castSt_id bits sgn 1 hb (by omega) (by omega)
  · split
    · rw [if_neg (by omega)]
    · rfl

theorem modNonzero_isSome_of_iter (bits : Nat) (sgn : Bool) (p : Int) (k : Nat) : ∀ g : Int,
    initU64 bits sgn p (givIter (k + 1) g) ≠ 0 → (modNonzero bits sgn p (k + 1) g).isSome = true := by
  induction k with
  | zero =>
    intro g h
    simp only [givIter] at h
    unfold modNonzero modRandom
    simp only
    rw [if_neg h]; rfl
  | succ k ih =>
    intro g h
    unfold modNonzero
    by_cases h0 : (modRandom bits sgn p g).1 = 0
    · rw [if_pos h0]; exact ih (givNext g) h
    · rw [if_neg h0]; rfl

theorem modNonzeroSz_isSome_of_iter (bits : Nat) (sgn : Bool) (p size : Int) (k : Nat) : ∀ g : Int,
    initU64 bits sgn p (givIter (k + 1) g % size) ≠ 0 → (modNonzeroSz bits sgn p size (k + 1) g).isSome = true := by
  induction k with
  | zero =>
    intro g h
    simp only [givIter] at h
    unfold modNonzeroSz modRandomSz
    simp only
    rw [if_neg h]; rfl
  | succ k ih =>
    intro g h
    unfold modNonzeroSz
    by_cases h0 : (modRandomSz bits sgn p size g).1 = 0
    · rw [if_pos h0]; exact ih (givNext g) h
    · rw [if_neg h0]; rfl

/-- **`Modular<integral>::nonzerorandom(g, a)` terminates** (and so do `GeneralRingNonZeroRandIter` and the leading
    coefficient of a random polynomial): for every storage type, every modulus `p ≥ 2` and every valid generator state
    there is a number of iterations after which the loop has returned -/
theorem nonzerorandom_terminates (bits : Nat) (sgn : Bool) (p : Int) (hb : 1 ≤ bits) (hp : 2 ≤ p) (hfit : p ≤ 2 ^ (bits - 1))
    (g : Int) (hg1 : 1 ≤ g) (hg2 : g < givMod) : ∃ fuel : Nat, (modNonzero bits sgn p fuel g).isSome = true := by
  obtain ⟨k, hk1, hk⟩ := giv_reaches_one g hg1 (by unfold givMod at hg2; exact hg2)
  obtain ⟨j, rfl⟩ : ∃ j, k = j + 1 := ⟨k - 1, by omega⟩
  refine ⟨j + 1, modNonzero_isSome_of_iter bits sgn p j g ?_⟩
  rw [hk, init_one bits sgn p hb hp hfit]; decide

/-- the same for `nonzerorandom(g, a, size)` with a sampling size `≥ 2` (a sample of size 1 contains only 0) -/
theorem nonzerorandom_size_terminates (bits : Nat) (sgn : Bool) (p size : Int) (hb : 1 ≤ bits) (hp : 2 ≤ p) (hfit : p ≤ 2 ^ (bits - 1))
    (hs : 2 ≤ size) (g : Int) (hg1 : 1 ≤ g) (hg2 : g < givMod) :
    ∃ fuel : Nat, (modNonzeroSz bits sgn p size fuel g).isSome = true := by
  obtain ⟨k, hk1, hk⟩ := giv_reaches_one g hg1 (by unfold givMod at hg2; exact hg2)
  obtain ⟨j, rfl⟩ : ∃ j, k = j + 1 := ⟨k - 1, by omega⟩
  refine ⟨j + 1, modNonzeroSz_isSome_of_iter bits sgn p size j g ?_⟩
  rw [hk, Int.emod_eq_of_lt (by omega) (by omega), init_one bits sgn p hb hp hfit]; decide

/-- a random polynomial of any degree is produced after finitely many draws -/
theorem poly_random_terminates (bits : Nat) (sgn : Bool) (p : Int) (hb : 1 ≤ bits) (hp : 2 ≤ p) (hfit : p ≤ 2 ^ (bits - 1))
    (d : Int) (g : Int) (hg1 : 1 ≤ g) (hg2 : g < givMod) : ∃ fuel : Nat, (polyRandomDeg bits sgn p d fuel g).isSome = true := by
  obtain ⟨fuel, hf⟩ := nonzerorandom_terminates bits sgn p hb hp hfit g hg1 hg2
  refine ⟨fuel, ?_⟩
  unfold polyRandomDeg polyRandom
  split
  · rfl
  · cases h : modNonzero bits sgn p fuel g with
    | none => rw [h] at hf; simp at hf
    | some lead => rfl

/-- every seed gives a valid state, so the three theorems above apply to every generator built from a non-zero seed,
    after any number of earlier draws -/
theorem nonzerorandom_terminates_all_seeds (bits : Nat) (sgn : Bool) (p : Int) (hb : 1 ≤ bits) (hp : 2 ≤ p) (hfit : p ≤ 2 ^ (bits - 1))
    (seed : Int) (h1 : 1 ≤ seed) (h2 : seed < 18446744073709551616) (n : Nat) :
    ∃ fuel : Nat, (modNonzero bits sgn p fuel (givIter n (givInit seed))).isSome = true := by
  have hi := givinit_range seed h1 h2
  have hs := giviter_range n (givInit seed) hi.1 hi.2
  exact nonzerorandom_terminates bits sgn p hb hp hfit _ hs.1 hs.2

example : ∃ fuel : Nat, (modNonzero 32 true 2 fuel (givIter 3 (givInit 4294967294))).isSome = true :=
  nonzerorandom_terminates_all_seeds 32 true 2 (by decide) (by decide) (by decide) 4294967294 (by decide) (by decide) 3

/-! ### GFqDom -/

/-- `GFqDom::random(g, a, s)` is a canonical element below `s`, for every sampling size `1 ≤ s ≤ q` (`q < 2^(bits-1)`) -/
theorem gfq_random_canonical (bits : Nat) (q s g : Int) (hb : 1 ≤ bits) (hs : 1 ≤ s) (hsq : s ≤ q) (hq : q < 2 ^ (bits - 1)) :
    0 ≤ (gfqRandom bits q s g).1 ∧ (gfqRandom bits q s g).1 < s ∧ canonical q (gfqRandom bits q s g).1 = true := by
  have hpow := two_pow_pos bits
  have hm0 := Int.emod_nonneg (givNext g % 2 ^ bits) (show s ≠ 0 by omega)
  have hm1 := Int.emod_lt_of_pos (givNext g % 2 ^ bits) (show 0 < s by omega)
  unfold gfqRandom canonical
  simp only [decide_eq_true_eq]
  rw [castSt_id bits true _ hb hm0 (by omega)]
  rw [if_neg (by omega)]
  omega

example : canonical 8 (gfqRandom 32 8 8 1).1 = true := (gfq_random_canonical 32 8 8 1 (by decide) (by decide) (by decide) (by decide)).2.2

/-- `GFqDom::nonzerorandom(g, a, s)` is in `[1, s-1]`: canonical and never zero, for `2 ≤ s ≤ q` -/
theorem gfq_nonzero_range (bits : Nat) (q s g : Int) (hb : 1 ≤ bits) (hs : 2 ≤ s) (hsq : s ≤ q) (hq : q < 2 ^ (bits - 1)) :
    1 ≤ (gfqNonzero bits q s g).1 ∧ (gfqNonzero bits q s g).1 < s ∧ canonical q (gfqNonzero bits q s g).1 = true := by
  have hpow := two_pow_pos bits
  have e := two_pow_succ' bits hb
  have hs1 : (s - 1) % 2 ^ bits = s - 1 := Int.emod_eq_of_lt (by omega) (by omega)
  have hm0 := Int.emod_nonneg (givNext g % 2 ^ bits) (show s - 1 ≠ 0 by omega)
  have hm1 := Int.emod_lt_of_pos (givNext g % 2 ^ bits) (show 0 < s - 1 by omega)
  unfold gfqNonzero canonical
  simp only [decide_eq_true_eq]
  rw [hs1]
  rw [Int.emod_eq_of_lt (a := givNext g % 2 ^ bits % (s - 1) + 1) (by omega) (by omega)]
  rw [castSt_id bits true _ hb (by omega) (by omega)]
  rw [if_neg (by omega)]
  omega

example : 1 ≤ (gfqNonzero 32 8 8 1).1 := (gfq_nonzero_range 32 8 8 1 (by decide) (by decide) (by decide) (by decide)).1

theorem gfqNzLoop_spec (bits : Nat) (q : Int) (hb : 1 ≤ bits) (hq1 : 1 ≤ q) (hq : q < 2 ^ (bits - 1)) (fuel : Nat) :
    ∀ (g : Int) (eg : Int × Int), gfqStep.gfqNzLoop bits q fuel g = some eg → canonical q eg.1 = true ∧ eg.1 ≠ 0 := by
  have hsz := sampleSize_bounds q 0 hq1 (by decide)
  induction fuel with
  | zero => intro g eg h; simp [gfqStep.gfqNzLoop] at h
  | succ f ih =>
    intro g eg h
    unfold gfqStep.gfqNzLoop at h
    split at h
    · exact ih _ _ h
    · rename_i hne
      simp only [Option.some.injEq] at h; subst h
      exact ⟨(gfq_random_canonical bits q _ g hb (by omega) hsz.2.1 hq).2.2, hne⟩

/-- one draw of `GFqDom::RandIter` (= `GIV_randIter`, any requested size), of the non-zero iterator, or of the
    `random`/`nonzerorandom` member functions (explicit sizes within the field) is a canonical element, non-zero where promised -/
theorem gfqStep_spec (bits : Nat) (q : Int) (hb : 1 ≤ bits) (hq2 : 2 ≤ q) (hq : q < 2 ^ (bits - 1)) (fn : Nat) (size : Int)
    (hs : 0 ≤ size) (hs6 : fn = 6 → 1 ≤ size ∧ size ≤ q) (hs7 : fn = 7 → 2 ≤ size ∧ size ≤ q) (fuel : Nat) (g : Int) (eg : Int × Int)
    (h : gfqStep bits q fn size fuel g = some eg) :
    canonical q eg.1 = true ∧ ((fn = 3 ∨ fn = 5 ∨ fn = 7) → eg.1 ≠ 0) := by
  have hsz0 := sampleSize_bounds q 0 (by omega) (by decide)
  have hsz := sampleSize_bounds q size (by omega) hs
  unfold gfqStep at h
  split at h
  · simp only [Option.some.injEq] at h; subst h
    exact ⟨(gfq_random_canonical bits q _ g hb (by omega) hsz0.2.1 hq).2.2, by omega⟩
  · simp only [Option.some.injEq] at h; subst h
    exact ⟨(gfq_random_canonical bits q _ g hb (by omega) hsz.2.1 hq).2.2, by omega⟩
  · have := gfqNzLoop_spec bits q hb (by omega) hq fuel g eg h; exact ⟨this.1, fun _ => this.2⟩
  · simp only [Option.some.injEq] at h; subst h
    exact ⟨(gfq_random_canonical bits q q g hb (by omega) (by omega) hq).2.2, by omega⟩
  · simp only [Option.some.injEq] at h; subst h
    have := gfq_nonzero_range bits q q g hb hq2 (by omega) hq
    exact ⟨this.2.2, fun _ => by omega⟩
  · simp only [Option.some.injEq] at h; subst h
    have := hs6 rfl
    exact ⟨(gfq_random_canonical bits q size g hb this.1 this.2 hq).2.2, by omega⟩
  · simp only [Option.some.injEq] at h; subst h
    have h7 := hs7 rfl
    have := gfq_nonzero_range bits q size g hb h7.1 h7.2 hq
    exact ⟨this.2.2, fun _ => by omega⟩
  · simp at h

/-- **GFq iterators**: every element of an arbitrarily long sequence is canonical (non-zero for the non-zero forms) -/
theorem gfq_iterator_canonical (bits : Nat) (q : Int) (hb : 1 ≤ bits) (hq2 : 2 ≤ q) (hq : q < 2 ^ (bits - 1)) (fn : Nat) (size : Int)
    (hs : 0 ≤ size) (hs6 : fn = 6 → 1 ≤ size ∧ size ≤ q) (hs7 : fn = 7 → 2 ≤ size ∧ size ≤ q) (fuel : Nat) (n : Nat) :
    ∀ (g : Int) (l : List Int), gfqSeq bits q fn size fuel n g = some l →
      l.length = n ∧ ∀ e ∈ l, canonical q e = true ∧ ((fn = 3 ∨ fn = 5 ∨ fn = 7) → e ≠ 0) := by
  induction n with
  | zero => intro g l h; simp only [gfqSeq, Option.some.injEq] at h; subst h; simp
  | succ n ih =>
    intro g l h
    unfold gfqSeq at h
    split at h
    · simp at h
    · rename_i eg heg
      split at h
      · simp at h
      · rename_i l' hl'
        simp only [Option.some.injEq] at h; subst h
        have h1 := gfqStep_spec bits q hb hq2 hq fn size hs hs6 hs7 fuel g eg heg
        have h2 := ih eg.2 l' hl'
        refine ⟨by simp [h2.1], ?_⟩
        intro e he
        simp only [List.mem_cons] at he
        rcases he with rfl | he
        · exact h1
        · exact h2.2 e he

example : (gfqSeq 32 8 1 100 64 3 7).isSome = true := by decide

theorem giviter_succ_outer (j : Nat) : ∀ g : Int, givIter (j + 1) g = givNext (givIter j g) := by
  induction j with
  | zero => intro g; rfl
  | succ j ih => intro g; simp only [givIter] at ih ⊢; exact ih (givNext g)

theorem gfqNzLoop_isSome_of_iter (bits : Nat) (q : Int) (k : Nat) : ∀ g : Int,
    (gfqRandom bits q (sampleSize q 0) (givIter k g)).1 ≠ 0 → (gfqStep.gfqNzLoop bits q (k + 1) g).isSome = true := by
  induction k with
  | zero =>
    intro g h
    simp only [givIter] at h
    unfold gfqStep.gfqNzLoop
    rw [if_neg h]; rfl
  | succ k ih =>
    intro g h
    unfold gfqStep.gfqNzLoop
    by_cases h0 : (gfqRandom bits q (sampleSize q 0) g).1 = 0
    · rw [if_pos h0]; exact ih (givNext g) h
    · rw [if_neg h0]; rfl

/-- **`GFqDom::NonZeroRandIter` terminates** for every field size `2 ≤ q < 2^(bits-1)` and valid generator state
    (`GFqDom::nonzerorandom` itself has no loop) -/
theorem gfq_nonzero_iterator_terminates (bits : Nat) (q : Int) (hb : 2 ≤ bits) (hq2 : 2 ≤ q) (hq : q < 2 ^ (bits - 1))
    (g : Int) (hg1 : 1 ≤ g) (hg2 : g < givMod) : ∃ fuel : Nat, (gfqStep.gfqNzLoop bits q fuel g).isSome = true := by
  obtain ⟨k, hk1, hk⟩ := giv_reaches_one g hg1 (by unfold givMod at hg2; exact hg2)
  obtain ⟨j, rfl⟩ : ∃ j, k = j + 1 := ⟨k - 1, by omega⟩
  refine ⟨j + 1, gfqNzLoop_isSome_of_iter bits q j g ?_⟩
  have hsz := sampleSize_bounds q 0 (by omega) (by decide)
  have hsq : sampleSize q 0 = q := hsz.2.2 rfl
  have hpow := two_pow_succ' bits (by omega)
  have hpp := two_pow_succ' (bits - 1) (by omega)
  have hp0 := two_pow_pos (bits - 1 - 1)
  have e1 : (1 : Int) % 2 ^ bits = 1 := Int.emod_eq_of_lt (by omega) (by omega)
  have e2 : (1 : Int) % q = 1 := Int.emod_eq_of_lt (by omega) (by omega)
  unfold gfqRandom
  simp only
  rw [← giviter_succ_outer, hk, hsq, e1, e2, castSt_id bits true 1 (by omega) (by omega) (by omega)]
  rw [if_neg (by decide)]; decide

example : ∃ fuel : Nat, (gfqStep.gfqNzLoop 32 8 fuel 5).isSome = true :=
  gfq_nonzero_iterator_terminates 32 8 (by decide) (by decide) (by decide) 5 (by decide) (by decide)

/-! ### random polynomials -/

theorem polyLow_spec (bits : Nat) (sgn : Bool) (p : Int) (hb : 1 ≤ bits) (hp : 1 ≤ p) (hfit : p ≤ 2 ^ (bits - 1)) (d : Nat) :
    ∀ g : Int, (polyLow bits sgn p d g).1.length = d ∧ ∀ c ∈ (polyLow bits sgn p d g).1, canonical p c = true := by
  induction d with
  | zero => intro g; simp [polyLow]
  | succ d ih =>
    intro g
    have h := ih (modRandom bits sgn p g).2
    simp only [polyLow, List.length_append, List.length_cons, List.length_nil, List.mem_append, List.mem_cons, List.not_mem_nil, or_false]
    refine ⟨by omega, ?_⟩
    intro c hc
    rcases hc with hc | rfl
    · exact h.2 c hc
    · exact modRandom_canonical bits sgn p hb hp hfit g

/-- **poly_random_degree**: `Poly1Dom::random(g, r, Degree d)` returns exactly `d + 1` canonical coefficients with a
    non-zero leading one — a polynomial of degree exactly `d` — for every `d ≥ 0`, modulus and generator state -/
theorem poly_random_degree (bits : Nat) (sgn : Bool) (p : Int) (hb : 1 ≤ bits) (hp : 1 ≤ p) (hfit : p ≤ 2 ^ (bits - 1))
    (d fuel : Nat) (g : Int) (r : List Int × Int) (h : polyRandom bits sgn p d fuel g = some r) :
    polyOk p d r.1 = true := by
  unfold polyRandom at h
  split at h
  · simp at h
  · rename_i lead hlead
    simp only [Option.some.injEq] at h; subst h
    have h1 := modNonzero_spec bits sgn p hb hp hfit fuel g lead hlead
    have h2 := polyLow_spec bits sgn p hb hp hfit d lead.2
    have hall : ∀ (l : List Int), (∀ c ∈ l, canonical p c = true) → allB (canonical p) l = true := by
      intro l; induction l with
      | nil => intro _; rfl
      | cons x xs ihx => intro hx; simp only [allB, Bool.and_eq_true]; exact ⟨hx x (by simp), ihx (fun c hc => hx c (by simp [hc]))⟩
    unfold polyOk
    simp only [Bool.and_eq_true, decide_eq_true_eq, List.length_append, List.length_cons, List.length_nil, List.getLast?_append, List.getLast?_singleton]
    refine ⟨⟨by omega, ?_⟩, ?_⟩
    · apply hall
      intro c hc
      simp only [List.mem_append, List.mem_cons, List.not_mem_nil, or_false] at hc
      rcases hc with hc | rfl
      · exact h2.2 c hc
      · exact h1.1
    · simp only [Option.some_or, ne_eq, Option.some.injEq]; exact h1.2

example : (polyRandom 32 true 101 4 64 7).isSome = true := by decide

/-- the same for every requested degree including -∞ (size 0, "same size as b" for `b = 0`): then the zero polynomial -/
theorem poly_random_any_degree (bits : Nat) (sgn : Bool) (p : Int) (hb : 1 ≤ bits) (hp : 1 ≤ p) (hfit : p ≤ 2 ^ (bits - 1))
    (d : Int) (fuel : Nat) (g : Int) (r : List Int × Int) (h : polyRandomDeg bits sgn p d fuel g = some r) :
    polyDegOk p d r.1 = true := by
  unfold polyRandomDeg at h
  unfold polyDegOk
  split at h
  · rename_i hd; simp only [Option.some.injEq] at h; subst h; simp [hd]
  · rename_i hd; rw [if_neg hd]; exact poly_random_degree bits sgn p hb hp hfit d.toNat fuel g r h

example : polyRandomDeg 32 true 101 (-1) 64 7 = some ([], 7) := by decide

/-! ### RecInt::rand -/

theorem ruFold_range (n : Nat) : ∀ (k : Nat) (acc : Int) (ws : List Int), 0 ≤ acc → acc < 18446744073709551616 ^ k →
    (∀ w ∈ ws, 0 ≤ w ∧ w < 18446744073709551616) →
    0 ≤ (ruFold n acc ws).1 ∧ (ruFold n acc ws).1 < 18446744073709551616 ^ (k + n) := by
  induction n with
  | zero => intro k acc ws h0 h1 _; simpa [ruFold] using ⟨h0, h1⟩
  | succ n ih =>
    intro k acc ws h0 h1 hw
    have hB : (18446744073709551616 : Int) ^ (k + 1) = 18446744073709551616 ^ k * 18446744073709551616 := pow_succ _ _
    have hk : k + (n + 1) = (k + 1) + n := by omega
    cases ws with
    | nil =>
      simp only [ruFold]; rw [hk]
      exact ih (k + 1) _ [] (by positivity) (by rw [hB]; nlinarith) (by simp)
    | cons w ws =>
      have hw0 := hw w (by simp)
      simp only [ruFold]; rw [hk]
      exact ih (k + 1) _ ws (by nlinarith) (by rw [hB]; nlinarith) (fun x hx => hw x (by simp [hx]))

/-- `rand(ruint<K>&)` is in `[0, 2^(2^K))` for every `K ≥ 6` and every word stream -/
theorem ru_rand_range (K : Nat) (hK : 6 ≤ K) (ws : List Int) (hw : ∀ w ∈ ws, 0 ≤ w ∧ w < 18446744073709551616) :
    0 ≤ (ruRand K ws).1 ∧ (ruRand K ws).1 < 2 ^ (2 ^ K) := by
  have h := ruFold_range (ruLimbs K) 0 0 ws (by decide) (by simp) hw
  have e : (18446744073709551616 : Int) ^ (0 + ruLimbs K) = 2 ^ (2 ^ K) := by
    have : (18446744073709551616 : Int) = 2 ^ 64 := by norm_num
    rw [this, ← pow_mul, Nat.zero_add]
    congr 1
    unfold ruLimbs
    have : 2 ^ K = 2 ^ 6 * 2 ^ (K - 6) := by rw [← pow_add]; congr 1; omega
    omega
  unfold ruRand
  rw [e] at h
  exact h

example : 0 ≤ (ruRand 7 [1, 2]).1 ∧ (ruRand 7 [1, 2]).1 < 2 ^ (2 ^ 7) := ru_rand_range 7 (by decide) _ (by decide)

/-- the limb drawn from a GivRandom is a 64-bit word -/
theorem limbG_range (g : Int) : 0 ≤ (limbG g).1 ∧ (limbG g).1 < 18446744073709551616 := by
  unfold limbG; simp only; omega

/-- `Modular<ruint<K>>::random(g, r)` / `Montgomery<ruint<K>>::random(g, r)` return a canonical residue, and
    `nonzerorandom` a non-zero one, for every `K`, modulus `p ≥ 1` and generator state -/
theorem ruint_ring_random_canonical (K : Nat) (p g : Int) (hp : 1 ≤ p) : canonical p (ruRingRandom K p g).1 = true := by
  unfold canonical ruRingRandom
  simp only [decide_eq_true_eq]
  exact ⟨Int.emod_nonneg _ (by omega), Int.emod_lt_of_pos _ (by omega)⟩

theorem ruint_ring_nonzero_spec (K : Nat) (p : Int) (hp : 1 ≤ p) (fuel : Nat) : ∀ (g : Int) (eg : Int × Int),
    ruRingNonzero K p fuel g = some eg → canonical p eg.1 = true ∧ eg.1 ≠ 0 := by
  induction fuel with
  | zero => intro g eg h; simp [ruRingNonzero] at h
  | succ f ih =>
    intro g eg h
    unfold ruRingNonzero at h
    split at h
    · exact ih _ _ h
    · rename_i hne
      simp only [Option.some.injEq] at h; subst h
      exact ⟨ruint_ring_random_canonical K p g hp, hne⟩

example : canonical 101 (ruRingRandom 7 101 5).1 = true := ruint_ring_random_canonical 7 101 5 (by decide)
example : (ruRingNonzero 7 101 8 5).isSome = true := by decide

/-- `rand(rmint<K>&)` (both representations) is a canonical residue for every modulus `p ≥ 1` -/
theorem rm_rand_range (K : Nat) (p : Int) (hp : 1 ≤ p) (ws : List Int) :
    canonical p (rmRand K p ws).1 = true ∧ canonical p (rmRandMg K p ws).1 = true := by
  unfold canonical rmRand rmRandMg
  simp only [decide_eq_true_eq]
  exact ⟨⟨Int.emod_nonneg _ (by omega), Int.emod_lt_of_pos _ (by omega)⟩, ⟨Int.emod_nonneg _ (by omega), Int.emod_lt_of_pos _ (by omega)⟩⟩

example : canonical 101 (rmRand 6 101 [12345]).1 = true := (rm_rand_range 6 101 (by decide) _).1

end Givaro.Props.C20
