/-
C13 — number-theoretic functions and modular square roots match their definitions.

Theorems about the model `Model/NumTheo.lean` (a transcription of givintnumtheo.inl / givintsqrootmod.inl /
`logp` as they are after the repairs fixes/C13_1..5, now committed in /repo).  The GMP primitives are modelled; where a theorem needs
the *contract* of one of them at a call site (`mpz_invert` returns the inverse of an invertible element,
`mpz_legendre` never answers -1 on a residue) the contract is an explicit hypothesis.  Random draws are
universally quantified (`rnd`).  All statements are for every input, modulus and exponent (no size bound).
-/
import GivaroModel.Lemmas.NumTheoLemmas
import GivaroModel.Lemmas.NumTheoOrder
import GivaroModel.Lemmas.NumTheoSqrt
import Mathlib.NumberTheory.ArithmeticFunction.Moebius
import Mathlib.RingTheory.ZMod.UnitsCyclic
import GivaroModel.Spec.NumTheoSpec
namespace Givaro.Props.C13
open Givaro.Model.NumTheo Givaro.Lemmas.NumTheo Givaro.Spec.NumTheo

/-! ## modular exponentiation used by every function below -/

/-- the model's `powmod` (stand-in for `mpz_powm`) is `a^e mod m` for every base, exponent and modulus -/
theorem powmod_exact (a : Int) (e : Nat) (m : Int) : powmod a e m = a ^ e % m := powmod_eq a e m

/-! ## liftings (sqroothensellift, sqrootonemorelift, sqrootmodtwolift, sqrootlinear) -/

/-- `sqroothensellift`: PRECONDITION `x^2 = a [p^k]` (header) and `2x` invertible modulo `p^k` with `mpz_invert`
    returning its inverse; RETURNS a root modulo `p^(2k)`.  `pk` is any non-zero modulus. -/
theorem hensel_step_exact (x a pk : Int) (hpk : pk ≠ 0)
    (hx : (x * x - a) % pk = 0)
    (hinv : (x * 2 * invmod (x * 2) pk - 1) % pk = 0) :
    (sqroothensellift x a pk * sqroothensellift x a pk - a) % (pk * pk) = 0 := by
  unfold sqroothensellift
  obtain ⟨c, hc⟩ := Int.dvd_of_emod_eq_zero hx
  obtain ⟨e, he⟩ := Int.dvd_of_emod_eq_zero hinv
  simp only []
  split
  · next h0 =>
    have : x * x - a = 0 := by linarith
    rw [this]; simp
  · next h0 =>
    have hdiv : Int.tdiv (a - x * x) pk = -c := by
      have : a - x * x = pk * (-c) := by linarith
      rw [this, Int.mul_tdiv_cancel_left _ hpk]
    rw [hdiv]
    obtain ⟨d, hd⟩ := tmod_exists (invmod (x * 2) pk * -c) pk
    rw [hd]
    apply Int.emod_eq_zero_of_dvd
    refine ⟨e * (-c) * (-1) * (-1) - 2 * x * d + (invmod (x * 2) pk * -c - pk * d) * (invmod (x * 2) pk * -c - pk * d), ?_⟩
    linear_combination (1 : Int) * hc + (-c * pk) * he

/-- `sqrootonemorelift`: from a root modulo `pk` (a multiple of `p`) to a root modulo `pk·p` -/
theorem onemorelift_exact (x0 a p pk : Int) (hpk : pk ≠ 0) (hp : p ∣ pk)
    (hx : (x0 * x0 - a) % pk = 0)
    (hinv : (x0 * 2 * invmod (x0 * 2) p - 1) % p = 0) :
    (sqrootonemorelift x0 a p pk * sqrootonemorelift x0 a p pk - a) % (pk * p) = 0 := by
  unfold sqrootonemorelift
  obtain ⟨c, hc⟩ := Int.dvd_of_emod_eq_zero hx
  obtain ⟨e, he⟩ := Int.dvd_of_emod_eq_zero hinv
  obtain ⟨m, hm⟩ := hp
  have hdiv : Int.tdiv (a - x0 * x0) pk = -c := by
    have : a - x0 * x0 = pk * (-c) := by linarith
    rw [this, Int.mul_tdiv_cancel_left _ hpk]
  simp only [hdiv]
  obtain ⟨d1, hd1⟩ := tmod_exists (-c) p
  split
  · next h0 =>
    rw [hd1] at h0
    apply Int.emod_eq_zero_of_dvd
    refine ⟨-d1, ?_⟩
    linear_combination (1 : Int) * hc - pk * h0
  · next h0 =>
    obtain ⟨d, hd⟩ := tmod_exists (invmod (x0 * 2) p * Int.tmod (-c) p) p
    rw [hd, hd1]
    apply Int.emod_eq_zero_of_dvd
    generalize invmod (x0 * 2) p = h0' at *
    refine ⟨-d1 + e * (-c - p * d1) - 2 * x0 * d + (h0' * (-c - p * d1) - p * d) * (h0' * (-c - p * d1) - p * d) * m, ?_⟩
    linear_combination (1 : Int) * hc + (pk * (-c - p * d1)) * he + ((h0' * (-c - p * d1) - p * d) * (h0' * (-c - p * d1) - p * d) * pk) * hm

/-- `sqrootmodtwolift`: from a root modulo `pk = 2·pk1` to a root modulo `pk1^2` (header: `2^k → 2^(2k-2)`) -/
theorem twolift_exact (x a pk : Int) (hpk1 : pk / 2 ≠ 0) (hpk : pk = 2 * (pk / 2))
    (hx : (x * x - a) % pk = 0)
    (hinv : (x * invmod x (pk / 2) - 1) % (pk / 2) = 0) :
    (sqrootmodtwolift x a pk * sqrootmodtwolift x a pk - a) % (pk / 2 * (pk / 2)) = 0 := by
  unfold sqrootmodtwolift
  have hpk0 : pk ≠ 0 := by omega
  obtain ⟨c, hc⟩ := Int.dvd_of_emod_eq_zero hx
  obtain ⟨e, he⟩ := Int.dvd_of_emod_eq_zero hinv
  have hdiv : Int.tdiv (a - x * x) pk = -c := by
    have : a - x * x = pk * (-c) := by linarith
    rw [this, Int.mul_tdiv_cancel_left _ hpk0]
  simp only [hdiv]
  generalize pk / 2 = pk1 at *
  obtain ⟨d1, hd1⟩ := tmod_exists (-c) pk1
  split
  · next h0 =>
    rw [hd1] at h0
    apply Int.emod_eq_zero_of_dvd
    refine ⟨-2 * d1, ?_⟩
    linear_combination (1 : Int) * hc - 2 * pk1 * h0 + (c) * hpk
  · next h0 =>
    obtain ⟨d, hd⟩ := tmod_exists (invmod x pk1 * Int.tmod (-c) pk1) pk1
    rw [hd, hd1]
    apply Int.emod_eq_zero_of_dvd
    generalize invmod x pk1 = h0' at *
    refine ⟨-2 * d1 + 2 * e * (-c - pk1 * d1) - 2 * x * d + (h0' * (-c - pk1 * d1) - pk1 * d) * (h0' * (-c - pk1 * d1) - pk1 * d), ?_⟩
    linear_combination (1 : Int) * hc + (2 * pk1 * (-c - pk1 * d1)) * he + (c) * hpk

example : ((1 : Int) * 1 - 10) % 3 = 0 ∧ ((1 : Int) * 2 * invmod (1 * 2) 3 - 1) % 3 = 0 := by decide +kernel
example : ((3 : Int) * 3 - 17) % 8 = 0 ∧ ((3 : Int) * invmod 3 (8 / 2) - 1) % (8 / 2) = 0 := by decide +kernel

/-- the lift does not change the root modulo `p` (so `2·x` stays invertible modulo `p` along `sqrootlinear`) -/
theorem onemorelift_congr (x0 a p pk : Int) (hp : p ∣ pk) : (sqrootonemorelift x0 a p pk - x0) % p = 0 := by
  unfold sqrootonemorelift
  simp only []
  split
  · simp
  · obtain ⟨m, hm⟩ := hp
    apply Int.emod_eq_zero_of_dvd
    exact ⟨Int.tmod (invmod (x0 * 2) p * Int.tmod (Int.tdiv (a - x0 * x0) pk) p) p * m, by rw [hm]; ring⟩

/-- `sqrootlinear`'s loop: from a root modulo `p^j` to a root modulo `p^(j+n)`; the `mpz_invert` contract is the hypothesis
    `hinv` (every `z ≡ 2·x (mod p)` has its inverse returned) -/
theorem linearLoop_sound (a p : Int) (hp0 : p ≠ 0) : ∀ (n j : Nat) (x : Int),
    (x * x - a) % (p ^ (j + 1)) = 0 →
    (∀ z : Int, (z - x * 2) % p = 0 → (z * invmod z p - 1) % p = 0) →
    (linearLoop a p n x (p ^ (j + 1)) * linearLoop a p n x (p ^ (j + 1)) - a) % (p ^ (j + 1 + n)) = 0 := by
  intro n
  induction n with
  | zero => intro j x hx _; simpa [linearLoop] using hx
  | succ n ih =>
    intro j x hx hinv
    rw [linearLoop]
    have hdvd : p ∣ p ^ (j + 1) := Dvd.intro_left (p ^ j) (by rw [pow_succ])
    have hpk : p ^ (j + 1) ≠ 0 := pow_ne_zero _ hp0
    have h1 := onemorelift_exact x a p (p ^ (j + 1)) hpk hdvd hx (by
      have := hinv (x * 2) (by simp)
      exact this)
    have hc := onemorelift_congr x a p (p ^ (j + 1)) hdvd
    have e : p ^ (j + 1) * p = p ^ (j + 1 + 1) := (pow_succ p (j + 1)).symm
    rw [e] at h1 ⊢
    have := ih (j + 1) (sqrootonemorelift x a p (p ^ (j + 1))) h1 (by
      intro z hz
      apply hinv
      obtain ⟨u, hu⟩ := Int.dvd_of_emod_eq_zero hz
      obtain ⟨v, hv⟩ := Int.dvd_of_emod_eq_zero hc
      apply Int.emod_eq_zero_of_dvd
      exact ⟨u + 2 * v, by linear_combination hu + 2 * hv⟩)
    have e2 : j + 1 + (n + 1) = j + 1 + 1 + n := by omega
    rw [e2]; exact this

/-! ## square roots modulo a prime -/

/-- Tonelli–Shanks main loop: the invariant `x^2 = a·b` gives a root whenever the loop returns a value other than -1;
    for every modulus `p` (primality is not needed for soundness), every `y`, `r` and fuel. -/
theorem tonelliLoop_sound (a p : Int) : ∀ (fuel : Nat) (x b y : Int) (r : Nat) (res : Int),
    (x * x - a * b) % p = 0 → tonelliLoop fuel p x b y r = some res → res ≠ -1 → (res * res - a) % p = 0 := by
  intro fuel
  induction fuel with
  | zero => intro x b y r res _ h; simp [tonelliLoop] at h
  | succ n ih =>
    intro x b y r res hinv h hne
    rw [tonelliLoop] at h
    split at h
    · next hb =>
      injection h with h; subst h; subst hb; simpa using hinv
    · next hb =>
      split at h
      · simp at h
      · next m hm =>
        split at h
        · injection h with h; exact absurd h.symm hne
        · split at h
          · simp at h
          · refine ih _ _ _ _ _ ?_ h hne
            obtain ⟨c, hc⟩ := Int.dvd_of_emod_eq_zero hinv
            set t := powmod y (2 ^ (r - m - 1)) p
            obtain ⟨d1, hd1⟩ := tmod_exists (x * t) p
            obtain ⟨d2, hd2⟩ := tmod_exists (t * t) p
            obtain ⟨d3, hd3⟩ := tmod_exists (b * Int.tmod (t * t) p) p
            rw [hd3, hd1, hd2]
            apply Int.emod_eq_zero_of_dvd
            refine ⟨c * t * t - 2 * x * t * d1 + p * d1 * d1 + a * b * d2 + a * d3, ?_⟩
            linear_combination (t * t) * hc

/-- `sqrootmodprime` on every prime outside the class `p ≡ 9 (mod 16)` (that class: `sqrootmodprime_mueller` below), without any contract hypothesis:
    for every residue `a`, every draw sequence, a returned value other than -1 is a square root of `a`.
    Covers the branches `a ≡ 0,1`, `p ≡ 3 (4)` (`a^((p+1)/4)`), `p ≡ 5 (8)` (Atkin, both sub-branches; uses that 2 is a
    non-residue) and Tonelli–Shanks.
    The statement for all primes is `sqrootmodprime_sound`. -/
theorem sqrootmodprime_sound_other_classes (rnd : Nat → Int) (a : Int) (p : Nat) [hp : Fact p.Prime]
    (hM : p % 16 ≠ 9) (hsq : IsSquare (a : ZMod p)) (res : Int)
    (h : sqrootmodprime rnd a p = some res) (hne : res ≠ -1) : (res * res - a) % (p : Int) = 0 := by
  have hp2 : 2 ≤ p := hp.out.two_le
  have hz : ((a % (p : Int) : Int) : ZMod p) = (a : ZMod p) := ZMod.intCast_mod a p
  suffices hs : (res : ZMod p) * (res : ZMod p) = (a : ZMod p) by
    rw [emod_zero_iff_dvd, ← ZMod.intCast_zmod_eq_zero_iff_dvd]; push_cast; rw [hs]; simp
  unfold sqrootmodprime at h
  simp only [] at h
  split at h
  · next h01 =>
    injection h with h; subst h
    rcases h01 with h0 | h1
    · rw [h0] at hz; rw [h0, ← hz]; simp
    · rw [h1] at hz; rw [h1, ← hz]; simp
  · next h01 =>
    have hz0 : (a : ZMod p) ≠ 0 := by
      intro hc
      rw [ZMod.intCast_zmod_eq_zero_iff_dvd] at hc
      exact h01 (Or.inl (Int.emod_eq_zero_of_dvd hc))
    have heul : (a : ZMod p) ^ (p / 2) = 1 := (ZMod.euler_criterion p hz0).mp hsq
    split at h
    · injection h with h; exact absurd h.symm hne
    · split at h
      · next h3 =>
        injection h with h; subst h
        rw [cast_powmod, hz, ← pow_add]
        have : ((↑p + 1) / 4 : Int).toNat + ((↑p + 1) / 4 : Int).toNat = p / 2 + 1 := by omega
        rw [this, pow_succ, heul, one_mul]
      · split at h
        · next h3 h5 =>
          split at h
          · next ht =>
            injection h with h; subst h
            have h1 : (a : ZMod p) ^ ((↑p - 1) / 4 : Int).toNat = 1 := by
              have := congrArg (fun (t : Int) => (t : ZMod p)) ht
              simpa [cast_powmod, hz] using this
            rw [cast_powmod, hz, ← pow_add]
            have : ((↑p + 3) / 8 : Int).toNat + ((↑p + 3) / 8 : Int).toNat = ((↑p - 1) / 4 : Int).toNat + 1 := by omega
            rw [this, pow_succ, h1, one_mul]
          · next ht =>
            injection h with h; subst h
            have hk1 : (a : ZMod p) ^ ((↑p - 1) / 4 : Int).toNat ≠ 1 := by
              have := powmod_ne_one_cast (a % (p : Int)) ((↑p - 1) / 4 : Int).toNat p hp2 ht
              rwa [hz] at this
            have hk1sq : ((a : ZMod p) ^ ((↑p - 1) / 4 : Int).toNat) * ((a : ZMod p) ^ ((↑p - 1) / 4 : Int).toNat) = 1 := by
              rw [← pow_add]
              have : ((↑p - 1) / 4 : Int).toNat + ((↑p - 1) / 4 : Int).toNat = p / 2 := by omega
              rw [this, heul]
            have hm1 : (a : ZMod p) ^ ((↑p - 1) / 4 : Int).toNat = -1 := by
              rcases mul_self_eq_one_iff.mp hk1sq with h | h
              · exact absurd h hk1
              · exact h
            have hpne2 : p ≠ 2 := by omega
            have h2ne : (2 : ZMod p) ≠ 0 := by
              intro hc
              have : ((2 : Int) : ZMod p) = 0 := by exact_mod_cast hc
              rw [ZMod.intCast_zmod_eq_zero_iff_dvd] at this
              have := Int.le_of_dvd (by norm_num) this
              omega
            have h2ns : ¬ IsSquare (2 : ZMod p) := by
              rw [ZMod.exists_sq_eq_two_iff hpne2]; omega
            have h2 : (2 : ZMod p) ^ (p / 2) = -1 := by
              rcases ZMod.pow_div_two_eq_neg_one_or_one p h2ne with h | h
              · exact absurd ((ZMod.euler_criterion p h2ne).mpr h) h2ns
              · exact h
            rw [cast_tmod]
            push_cast
            rw [cast_powmod]
            push_cast
            try rw [hz]
            set z := (a : ZMod p) with hzdef
            set k3 := ((↑p - 5) / 8 : Int).toNat with hk3
            set k1 := ((↑p - 1) / 4 : Int).toNat with hk1def
            have hk : k3 + k3 + 1 = k1 := by omega
            have hk' : k1 + k1 = p / 2 := by omega
            have e1 : (z * 4) ^ k3 * z * 2 * ((z * 4) ^ k3 * z * 2) = z * (z * 4) ^ (k3 + k3 + 1) := by
              rw [pow_succ, pow_add]; ring
            rw [e1, hk, mul_pow, hm1]
            have e2 : (4 : ZMod p) ^ k1 = 2 ^ (k1 + k1) := by
              rw [pow_add, ← mul_pow]; norm_num
            rw [e2, hk', h2]; ring
        · next h3 h5 =>
          split at h
          · next h9 => exfalso; omega
          · next h9 =>
            split at h
            · simp at h
            · next g hg =>
              have := tonelliLoop_sound (a % (p : Int)) (p : Int) _ _ _ _ _ res (tonelli_init _ _ _) h hne
              have h2 : ((res * res - a % (p : Int) : Int) : ZMod p) = 0 := by
                rw [ZMod.intCast_zmod_eq_zero_iff_dvd]; exact Int.dvd_of_emod_eq_zero this
              push_cast at h2
              try rw [hz] at h2
              exact sub_eq_zero.mp h2

example : (13 : Nat) % 16 ≠ 9 ∧ IsSquare ((4 : Int) : ZMod 13) := ⟨by decide, ⟨2, by decide⟩⟩

/-- DESIGN name: the branch `p ≡ 3 (mod 4)` -/
theorem sqrt_3mod4_exact (rnd : Nat → Int) (a : Int) (p : Nat) [Fact p.Prime] (h3 : p % 4 = 3)
    (hsq : IsSquare (a : ZMod p)) (res : Int) (h : sqrootmodprime rnd a p = some res) (hne : res ≠ -1) :
    (res * res - a) % (p : Int) = 0 :=
  sqrootmodprime_sound_other_classes rnd a p (by omega) hsq res h hne

/-- DESIGN name: Atkin's branch `p ≡ 5 (mod 8)` -/
theorem sqrt_5mod8_exact (rnd : Nat → Int) (a : Int) (p : Nat) [Fact p.Prime] (h5 : p % 8 = 5)
    (hsq : IsSquare (a : ZMod p)) (res : Int) (h : sqrootmodprime rnd a p = some res) (hne : res ≠ -1) :
    (res * res - a) % (p : Int) = 0 :=
  sqrootmodprime_sound_other_classes rnd a p (by omega) hsq res h hne

/-- a non-residue is reported as such: when `mpz_legendre` answers -1 the function returns -1 (every `p`, every branch) -/
theorem sqrootmodprime_reports_nonresidue (rnd : Nat → Int) (a p : Int)
    (h01 : ¬ (a % p = 0 ∨ a % p = 1)) (hleg : legendre (a % p) p = -1) : sqrootmodprime rnd a p = some (-1) := by
  unfold sqrootmodprime
  simp only [h01, hleg, ↓reduceIte]

example : ¬ ((2 : Int) % 3 = 0 ∨ (2 : Int) % 3 = 1) ∧ legendre (2 % 3) 3 = -1 := by decide +kernel

/-- after fix C13_2 `sqrootlinear` passes the report on instead of lifting -1 -/
theorem sqrootlinear_reports_nonresidue (rnd : Nat → Int) (a p : Int) (k : Nat)
    (h : sqrootmodprime rnd a p = some (-1)) : sqrootlinear rnd a p k = some (-1) := by
  unfold sqrootlinear; rw [h]; simp

/-! ## Müller's branch, and `sqrootmodprime` for every prime -/

theorem firstDraw_spec (rnd : Nat → Int) (stop : Int → Bool) : ∀ (fuel i : Nat) (d : Int),
    firstDraw rnd stop fuel i = some d → stop d = true ∧ ∃ j, d = rnd j := by
  intro fuel
  induction fuel with
  | zero => intro i d h; simp [firstDraw] at h
  | succ n ih =>
    intro i d h
    rw [firstDraw] at h
    split at h
    · next hs => injection h with h; subst h; exact ⟨hs, i, rfl⟩
    · exact ih _ _ h

/-- Müller's branch (`p ≡ 9 mod 16`) in the field `Z/p`: with `u = 2 a d²`, `X = u^((p-9)/16)`, `I = u X²` and `I² = -1`,
    the returned `X d (I - 1) a` squares to `a` -/
theorem mueller_algebra {F : Type} [Field F] (z d X : F) (hI : (2 * z * d ^ 2 * X * X) * (2 * z * d ^ 2 * X * X) = -1) :
    (X * d * (2 * z * d ^ 2 * X * X - 1) * z) * (X * d * (2 * z * d ^ 2 * X * X - 1) * z) = z := by
  linear_combination (X ^ 2 * d ^ 2 * z ^ 2 - z) * hI

theorem sqrootmodprime_mueller_root (rnd : Nat → Int) (a : Int) (p : Nat) [hp : Fact p.Prime]
    (hM : p % 16 = 9) (hsq : IsSquare (a : ZMod p))
    (hleg : ∀ d : Int, legendre d p = legendreSym p d) (hrnd : ∀ j, ((rnd j : Int) : ZMod p) ≠ 0)
    (hnl : legendre (a % (p : Int)) p ≠ -1)
    (res : Int) (h : sqrootmodprime rnd a p = some res) : (res : ZMod p) * (res : ZMod p) = (a : ZMod p) := by
  have hp2 : 2 ≤ p := hp.out.two_le
  have hz : ((a % (p : Int) : Int) : ZMod p) = (a : ZMod p) := ZMod.intCast_mod a p
  unfold sqrootmodprime at h
  simp only [] at h
  split at h
  · next h01 =>
    injection h with h; subst h
    rcases h01 with h0 | h1
    · rw [h0] at hz; rw [h0, ← hz]; simp
    · rw [h1] at hz; rw [h1, ← hz]; simp
  · next h01 =>
    have hz0 : (a : ZMod p) ≠ 0 := by
      intro hc
      rw [ZMod.intCast_zmod_eq_zero_iff_dvd] at hc
      exact h01 (Or.inl (Int.emod_eq_zero_of_dvd hc))
    have heul : (a : ZMod p) ^ (p / 2) = 1 := (ZMod.euler_criterion p hz0).mp hsq
    split at h   -- (the test `legendre = -1` has been discharged by `hnl`)
    · next h3 => exfalso; omega
    · split at h
      · next h3 h5 => exfalso; omega
      · split at h
        · next h3 h5 h9 =>
          split at h
          · simp at h
          · next d hd =>
            injection h with h; subst h
            obtain ⟨hstop, j, hj⟩ := firstDraw_spec _ _ _ _ _ hd
            have hd0 : (d : ZMod p) ≠ 0 := by rw [hj]; exact hrnd j
            have hpne2 : p ≠ 2 := by omega
            have h2ne : (2 : ZMod p) ≠ 0 := by
              intro hc
              have : ((2 : Int) : ZMod p) = 0 := by exact_mod_cast hc
              rw [ZMod.intCast_zmod_eq_zero_iff_dvd] at this
              have := Int.le_of_dvd (by norm_num) this
              omega
            have h2 : (2 : ZMod p) ^ (p / 2) = 1 :=
              (ZMod.euler_criterion p h2ne).mp ((ZMod.exists_sq_eq_two_iff hpne2).mpr (by omega))
            set k4 := ((↑p - 1) / 4 : Int).toNat with hk4
            set k16 := ((↑p - 9) / 16 : Int).toNat with hk16
            have hk : k16 + k16 + 1 + (k16 + k16 + 1) = k4 := by omega
            have hk' : k4 + k4 = p / 2 := by omega
            -- w = (2a)^((p-1)/4) = ±1
            have hw2 : ((a : ZMod p) * 2) ^ k4 * ((a : ZMod p) * 2) ^ k4 = 1 := by
              rw [← pow_add, hk', mul_pow, heul, h2, one_mul]
            have hdE : ((legendreSym p d : Int) : ZMod p) = (d : ZMod p) ^ (p / 2) := legendreSym.eq_pow p d
            have hd2 : ((a : ZMod p) * 2) ^ k4 * (d : ZMod p) ^ (p / 2) = -1 := by
              simp only [bne_iff_ne, ne_eq, decide_eq_true_eq] at hstop
              rw [hleg d] at hstop
              rcases legendreSym.eq_one_or_neg_one p hd0 with hl | hl
              · -- legendre d = 1: then s ≠ 1, so x0 ≠ 1, w = -1
                rw [hl] at hstop hdE
                have hx0 : powmod (a % (p : Int) * 2) k4 p ≠ 1 := by
                  intro hc; apply hstop; simp [hc]
                have hw1 := powmod_ne_one_cast _ _ p hp2 hx0
                push_cast at hw1; try rw [hz] at hw1
                rcases mul_self_eq_one_iff.mp hw2 with hh | hh
                · exact absurd hh hw1
                · rw [hh, ← hdE]; simp
              · rw [hl] at hstop hdE
                have hx0 : powmod (a % (p : Int) * 2) k4 p = 1 := by
                  by_contra hc; apply hstop; simp [hc]
                have hw1 : ((a : ZMod p) * 2) ^ k4 = 1 := by
                  have := congrArg (fun (t : Int) => (t : ZMod p)) hx0
                  simp only [cast_powmod] at this
                  push_cast at this; try rw [hz] at this
                  simpa using this
                rw [hw1, ← hdE]; simp
            simp only [cast_tmod, Int.cast_mul, Int.cast_sub, Int.cast_one, cast_powmod, hz, Int.cast_ofNat]
            set z := (a : ZMod p)
            set D := (d : ZMod p)
            have hI : (2 * z * D ^ 2 * (z * 2 * D * D) ^ k16 * (z * 2 * D * D) ^ k16) * (2 * z * D ^ 2 * (z * 2 * D * D) ^ k16 * (z * 2 * D * D) ^ k16) = -1 := by
              have e : (2 * z * D ^ 2 * (z * 2 * D * D) ^ k16 * (z * 2 * D * D) ^ k16) = (z * 2 * D * D) ^ (k16 + k16 + 1) := by
                rw [pow_succ, pow_add]; ring
              rw [e, ← pow_add, hk]
              have e2 : (z * 2 * D * D) ^ k4 = (z * 2) ^ k4 * D ^ (k4 + k4) := by
                rw [pow_add, ← mul_pow, ← mul_pow]; ring_nf
              rw [e2, hk']; exact hd2
            have := mueller_algebra z D ((z * 2 * D * D) ^ k16) hI
            linear_combination this
        · next h3 h5 h9 => exfalso; omega

/-- Müller's branch: a returned value other than -1 is a root (`p ≡ 9 mod 16`) -/
theorem sqrootmodprime_mueller (rnd : Nat → Int) (a : Int) (p : Nat) [hp : Fact p.Prime]
    (hM : p % 16 = 9) (hsq : IsSquare (a : ZMod p))
    (hleg : ∀ d : Int, legendre d p = legendreSym p d) (hrnd : ∀ j, ((rnd j : Int) : ZMod p) ≠ 0)
    (res : Int) (h : sqrootmodprime rnd a p = some res) (hne : res ≠ -1) : (res * res - a) % (p : Int) = 0 := by
  by_cases hl : legendre (a % (p : Int)) p = -1
  · exfalso
    by_cases h01 : a % (p : Int) = 0 ∨ a % (p : Int) = 1
    · unfold sqrootmodprime at h
      simp only [h01, ↓reduceIte] at h
      have hz : ((a % (p : Int) : Int) : ZMod p) = (a : ZMod p) := ZMod.intCast_mod a p
      rw [hleg, legendreSym.eq_neg_one_iff, hz] at hl
      exact hl hsq
    · rw [sqrootmodprime_reports_nonresidue rnd a p h01 hl] at h
      injection h with h; exact hne h.symm
  · have hs := sqrootmodprime_mueller_root rnd a p hM hsq hleg hrnd hl res h
    rw [emod_zero_iff_dvd, ← ZMod.intCast_zmod_eq_zero_iff_dvd]; push_cast; rw [hs]; simp

/-- **`sqrootmodprime` is sound for every prime `p`**: for every residue `a` and every sequence of random draws (non-zero modulo `p`,
    as `nonzerorandom(d, l)` with `2^l < p` produces), a returned value other than -1 squares to `a` modulo `p`.
    `hleg` is the contract of `mpz_legendre` (it is the Legendre symbol); it is only used for the draw accepted in Müller's branch. -/
theorem sqrootmodprime_sound (rnd : Nat → Int) (a : Int) (p : Nat) [hp : Fact p.Prime]
    (hsq : IsSquare (a : ZMod p))
    (hleg : ∀ d : Int, legendre d p = legendreSym p d) (hrnd : ∀ j, ((rnd j : Int) : ZMod p) ≠ 0)
    (res : Int) (h : sqrootmodprime rnd a p = some res) (hne : res ≠ -1) : (res * res - a) % (p : Int) = 0 := by
  by_cases hM : p % 16 = 9
  · exact sqrootmodprime_mueller rnd a p hM hsq hleg hrnd res h hne
  · exact sqrootmodprime_sound_other_classes rnd a p hM hsq res h hne

example : IsSquare ((4 : Int) : ZMod 41) ∧ (41 : Nat) % 16 = 9 := ⟨⟨2, by decide⟩, by decide⟩

/-- the form needed by `sqrootmodprimepower_sound` (`hprime`): under the `mpz_legendre` contract, for *every* `a'` (residue or not)
    a returned value other than -1 is a root — a non-residue is answered by -1 -/
theorem sqrootmodprime_sound_of_contract (rnd : Nat → Int) (p : Nat) [Fact p.Prime]
    (hleg : ∀ d : Int, legendre d p = legendreSym p d) (hrnd : ∀ j, ((rnd j : Int) : ZMod p) ≠ 0) :
    ∀ (a' r : Int), sqrootmodprime rnd a' p = some r → r ≠ -1 → (r * r - a') % (p : Int) = 0 := by
  intro a' r h hne
  by_cases hsq : IsSquare (a' : ZMod p)
  · exact sqrootmodprime_sound rnd a' p hsq hleg hrnd r h hne
  · exfalso
    have hz : ((a' % (p : Int) : Int) : ZMod p) = (a' : ZMod p) := ZMod.intCast_mod a' p
    have hl : legendre (a' % (p : Int)) p = -1 := by
      rw [hleg, legendreSym.eq_neg_one_iff, hz]; exact hsq
    have h01 : ¬ (a' % (p : Int) = 0 ∨ a' % (p : Int) = 1) := by
      rintro (h0 | h1)
      · apply hsq; rw [← hz, h0]; exact ⟨0, by simp⟩
      · apply hsq; rw [← hz, h1]; exact ⟨1, by simp⟩
    rw [sqrootmodprime_reports_nonresidue rnd a' p h01 hl] at h
    injection h with h
    exact hne h.symm

/-! ## completeness of `sqrootmodprime` (Tonelli–Shanks invariant: `y` has order exactly `2^r`, the order of `b` divides `2^(r-1)`) -/

/-- the inner loop `for(m = 0; b2k != 1; ++m) b2k = b2k² % p` returns the least `m` with `b^(2^m) = 1` when one exists below the fuel -/
theorem ordTwo_complete {p : Nat} [hp : Fact p.Prime] : ∀ (fuel : Nat) (b2k : Int) (m j : Nat), 0 ≤ b2k → b2k < p → j < fuel →
    ((b2k : Int) : ZMod p) ^ (2 ^ j) = 1 →
    ∃ m', m' ≤ j ∧ ordTwo fuel b2k p m = some (m + m') ∧ ((b2k : Int) : ZMod p) ^ (2 ^ m') = 1 ∧
      ∀ i < m', ((b2k : Int) : ZMod p) ^ (2 ^ i) ≠ 1 := by
  have hp2 : 2 ≤ p := hp.out.two_le
  intro fuel
  induction fuel with
  | zero => intro b2k m j _ _ hj; omega
  | succ n ih =>
    intro b2k m j h0 h1 hj hx
    rw [ordTwo]
    by_cases hb : b2k = 1
    · rw [if_pos hb]
      exact ⟨0, by omega, rfl, by rw [hb]; simp, by intro i hi; omega⟩
    · rw [if_neg hb]
      have hβ : ((b2k : Int) : ZMod p) ≠ 1 := fun hc => hb ((cast_eq_one_iff b2k p hp2 h0 h1).mp hc)
      have hj1 : 1 ≤ j := by
        by_contra hc
        have : j = 0 := by omega
        rw [this] at hx; simp at hx; exact hβ hx
      have hpp : (0 : Int) < p := by exact_mod_cast (by omega : 0 < p)
      obtain ⟨r0, r1⟩ := tmod_range (b2k * b2k) p (mul_nonneg h0 h0) hpp
      have hx' : ((Int.tmod (b2k * b2k) p : Int) : ZMod p) ^ (2 ^ (j - 1)) = 1 := by
        rw [cast_tmod]; push_cast
        rw [← pow_two, ← pow_mul, ← pow_succ', show j - 1 + 1 = j by omega]; exact hx
      obtain ⟨m'', h1', h2', h3', h4'⟩ := ih (Int.tmod (b2k * b2k) p) (m + 1) (j - 1) r0 r1 (by omega) hx'
      refine ⟨m'' + 1, by omega, by rw [h2']; congr 1; omega, ?_, ?_⟩
      · rw [cast_tmod] at h3'; push_cast at h3'
        rw [← pow_two, ← pow_mul, ← pow_succ'] at h3'; exact h3'
      · intro i hi
        rcases Nat.eq_zero_or_pos i with h | h
        · rw [h]; simpa using hβ
        · have := h4' (i - 1) (by omega)
          rw [cast_tmod] at this; push_cast at this
          rw [← pow_two, ← pow_mul, ← pow_succ', show i - 1 + 1 = i by omega] at this; exact this

/-- the main loop terminates with a non-negative value (never -1, never out of fuel) under the Tonelli–Shanks invariant -/
theorem tonelliLoop_complete {p : Nat} [hp : Fact p.Prime] : ∀ (fuel : Nat) (x b y : Int) (r : Nat), 0 ≤ x → 0 ≤ b → b < p → 1 ≤ r → r ≤ fuel →
    ((y : Int) : ZMod p) ^ (2 ^ (r - 1)) = -1 → ((b : Int) : ZMod p) ^ (2 ^ (r - 1)) = 1 →
    ∃ res, tonelliLoop fuel p x b y r = some res ∧ 0 ≤ res := by
  have hp2 : 2 ≤ p := hp.out.two_le
  have hpp : (0 : Int) < p := by exact_mod_cast (by omega : 0 < p)
  intro fuel
  induction fuel with
  | zero => intro x b y r _ _ _ hr hrf; omega
  | succ n ih =>
    intro x b y r hx0 hb0 hb1 hr hrf hy hb
    rw [tonelliLoop]
    by_cases hb' : b = 1
    · rw [if_pos hb']; exact ⟨x, rfl, hx0⟩
    · rw [if_neg hb']
      obtain ⟨m, hm1, hm2, hm3, hm4⟩ := ordTwo_complete (r + 2) b 0 (r - 1) hb0 hb1 (by omega) hb
      rw [hm2]
      simp only [Nat.zero_add]
      have hβ : ((b : Int) : ZMod p) ≠ 1 := fun hc => hb' ((cast_eq_one_iff b p hp2 hb0 hb1).mp hc)
      have hm0 : 1 ≤ m := by
        by_contra hc
        have : m = 0 := by omega
        rw [this] at hm3; simp at hm3; exact hβ hm3
      rw [if_neg (by omega), if_neg (by omega)]
      set t := powmod y (2 ^ (r - m - 1)) p with ht
      obtain ⟨t0, t1⟩ := powmod_range y (2 ^ (r - m - 1)) p hpp
      obtain ⟨y0, y1⟩ := tmod_range (t * t) p (mul_nonneg t0 t0) hpp
      obtain ⟨x0', _⟩ := tmod_range (x * t) p (mul_nonneg hx0 t0) hpp
      obtain ⟨b0', b1'⟩ := tmod_range (b * Int.tmod (t * t) p) p (mul_nonneg hb0 y0) hpp
      have hty : ((Int.tmod (t * t) p : Int) : ZMod p) ^ (2 ^ (m - 1)) = -1 := by
        rw [cast_tmod]; push_cast; rw [ht, cast_powmod, ← pow_two, ← pow_mul, ← pow_mul]
        have e : 2 ^ (r - m - 1) * (2 * 2 ^ (m - 1)) = 2 ^ (r - 1) := by
          rw [← pow_succ', ← pow_add]; congr 1; omega
        rw [e]; exact hy
      have hbm : ((b : Int) : ZMod p) ^ (2 ^ (m - 1)) = -1 := by
        have hsq : ((b : Int) : ZMod p) ^ (2 ^ (m - 1)) * ((b : Int) : ZMod p) ^ (2 ^ (m - 1)) = 1 := by
          rw [← pow_add, ← two_mul, ← pow_succ', show m - 1 + 1 = m by omega]; exact hm3
        rcases mul_self_eq_one_iff.mp hsq with h | h
        · exact absurd h (hm4 (m - 1) (by omega))
        · exact h
      apply ih _ _ _ m x0' b0' b1' hm0 (by omega) hty
      rw [cast_tmod]; push_cast; rw [mul_pow, hbm, hty]; ring

/-- existence part: under the draw hypotheses `sqrootmodprime` returns a value, and outside Müller's class a non-negative one -/
theorem sqrootmodprime_returns (rnd : Nat → Int) (a : Int) (p : Nat) [hp : Fact p.Prime]
    (hsq : IsSquare (a : ZMod p)) (hleg : ∀ d : Int, legendre d p = legendreSym p d)
    (hdrawN : ∃ j, j < drawFuel ∧ legendre (rnd j) p = -1) (hdrawR : ∃ j, j < drawFuel ∧ legendre (rnd j) p = 1) :
    ∃ res, sqrootmodprime rnd a p = some res ∧ (p % 16 ≠ 9 → 0 ≤ res) := by
  have hp2 : 2 ≤ p := hp.out.two_le
  have hpp : (0 : Int) < p := by exact_mod_cast (by omega : 0 < p)
  have hz : ((a % (p : Int) : Int) : ZMod p) = (a : ZMod p) := ZMod.intCast_mod a p
  have hnl : legendre (a % (p : Int)) p ≠ -1 := by
    rw [hleg, Ne, legendreSym.eq_neg_one_iff, hz]; exact not_not.mpr hsq
  have hamp0 : 0 ≤ a % (p : Int) := Int.emod_nonneg _ (by omega)
  unfold sqrootmodprime
  simp only []
  split
  · exact ⟨_, rfl, fun _ => hamp0⟩
  · next h01 =>
    have hz0 : (a : ZMod p) ≠ 0 := by
      intro hc
      rw [ZMod.intCast_zmod_eq_zero_iff_dvd] at hc
      exact h01 (Or.inl (Int.emod_eq_zero_of_dvd hc))
    have heul : (a : ZMod p) ^ (p / 2) = 1 := (ZMod.euler_criterion p hz0).mp hsq
    have hodd : p % 2 = 1 := by
      rcases hp.out.eq_two_or_odd' with h | h
      · exfalso; subst h; apply h01; omega
      · exact Nat.odd_iff.mp h
    split
    · exact ⟨_, rfl, fun _ => (powmod_range _ _ _ hpp).1⟩
    · split
      · split
        · exact ⟨_, rfl, fun _ => (powmod_range _ _ _ hpp).1⟩
        · refine ⟨_, rfl, fun _ => Int.tmod_nonneg _ ?_⟩
          exact mul_nonneg (mul_nonneg (powmod_range _ _ _ hpp).1 hamp0) (by norm_num)
      · split
        · next h3 h5 h9 =>
          -- Müller: a suitable draw exists
          split
          · next hnone =>
            exfalso
            by_cases hx0 : powmod (a % (p : Int) * 2) ((↑p - 1) / 4 : Int).toNat p ≠ 1
            · obtain ⟨j, hj, hl⟩ := hdrawR
              obtain ⟨d, hd⟩ := firstDraw_complete rnd (fun d => legendre d p != if powmod (a % (p : Int) * 2) ((↑p - 1) / 4 : Int).toNat p ≠ 1 then -1 else 1)
                drawFuel 0 j (by omega) (by omega) (by simp [hx0, hl])
              cases (hnone.symm.trans hd)
            · obtain ⟨j, hj, hl⟩ := hdrawN
              obtain ⟨d, hd⟩ := firstDraw_complete rnd (fun d => legendre d p != if powmod (a % (p : Int) * 2) ((↑p - 1) / 4 : Int).toNat p ≠ 1 then -1 else 1)
                drawFuel 0 j (by omega) (by omega) (by simp [hx0, hl])
              cases (hnone.symm.trans hd)
          · exact ⟨_, rfl, fun h => by omega⟩
        · next h3 h5 h9 =>
          -- Tonelli–Shanks
          split
          · next hnone =>
            exfalso
            obtain ⟨j, hj, hl⟩ := hdrawN
            obtain ⟨d, hd⟩ := firstDraw_complete rnd (fun g => legendre g p == -1) drawFuel 0 j (by omega) (by omega) (by simp [hl])
            cases (hnone.symm.trans hd)
          · next g hg =>
            obtain ⟨hstop, _⟩ := firstDraw_spec _ _ _ _ _ hg
            simp only [beq_iff_eq] at hstop
            have hfuel : ((p : Int) - 1) < 2 ^ ((p : Int).natAbs.log2 + 2) := by
              rw [Int.natAbs_natCast]
              have h1 : p < 2 ^ (p.log2 + 1) := Nat.lt_log2_self
              have h2 : (2 : Nat) ^ (p.log2 + 1) ≤ 2 ^ (p.log2 + 2) := Nat.pow_le_pow_right (by norm_num) (by omega)
              have : (p : Int) < 2 ^ (p.log2 + 2) := by exact_mod_cast lt_of_lt_of_le h1 h2
              omega
            have hpm1 : (0 : Int) < (p : Int) - 1 := by omega
            obtain ⟨s1, s2, s3, _⟩ := splitTwo_spec ((p : Int).natAbs.log2 + 2) ((p : Int) - 1) 0 hpm1 hfuel
            simp only [pow_zero, mul_one] at s1
            set q := (splitTwo ((p : Int).natAbs.log2 + 2) ((p : Int) - 1) 0).1 with hq
            set e := (splitTwo ((p : Int).natAbs.log2 + 2) ((p : Int) - 1) 0).2 with he
            have he1 : 1 ≤ e := by
              by_contra hc
              have : e = 0 := by omega
              rw [this] at s1; simp at s1
              omega
            -- exponents as naturals
            have hqn : (q.toNat : Int) = q := Int.toNat_of_nonneg (by omega)
            have hexp : q.toNat * 2 ^ (e - 1) = p / 2 := by
              have h2e : (2 : Int) ^ e = 2 * 2 ^ (e - 1) := by
                conv_lhs => rw [show e = (e - 1) + 1 by omega]
                rw [pow_succ]; ring
              have : ((q.toNat * 2 ^ (e - 1) : Nat) : Int) = ((p / 2 : Nat) : Int) := by
                push_cast; rw [hqn]
                have h2T : 2 * (q * 2 ^ (e - 1)) = (p : Int) - 1 := by rw [← s1, h2e]; ring
                generalize q * 2 ^ (e - 1) = T at h2T ⊢
                omega
              exact_mod_cast this
            have hgE : ((g : Int) : ZMod p) ^ (p / 2) = -1 := by
              rw [← legendreSym.eq_pow, ← hleg, hstop]; simp
            have hy : ((powmod g q.toNat p : Int) : ZMod p) ^ (2 ^ (e - 1)) = -1 := by
              rw [cast_powmod, ← pow_mul, hexp]; exact hgE
            obtain ⟨x00, x01⟩ := powmod_range (a % (p : Int)) ((q - 1) / 2).toNat p hpp
            set x0 := powmod (a % (p : Int)) ((q - 1) / 2).toNat p with hx0
            obtain ⟨b0, b1⟩ := tmod_range (x0 * x0 * (a % (p : Int))) p (mul_nonneg (mul_nonneg x00 x00) hamp0) hpp
            obtain ⟨xx0, _⟩ := tmod_range (x0 * (a % (p : Int))) p (mul_nonneg x00 hamp0) hpp
            have hb : ((Int.tmod (x0 * x0 * (a % (p : Int))) p : Int) : ZMod p) ^ (2 ^ (e - 1)) = 1 := by
              rw [cast_tmod]; push_cast; rw [hx0, cast_powmod]
              try rw [hz]
              have e1 : (a : ZMod p) ^ ((q - 1) / 2).toNat * (a : ZMod p) ^ ((q - 1) / 2).toNat * (a : ZMod p) = (a : ZMod p) ^ q.toNat := by
                rw [← pow_add, ← pow_succ]; congr 1; omega
              rw [e1, ← pow_mul, hexp]; exact heul
            obtain ⟨res, hres, hres0⟩ := tonelliLoop_complete (p := p) (e + 2) _ _ (powmod g q.toNat p) e xx0 b0 b1 he1 (by omega) hy hb
            exact ⟨res, hres, fun _ => hres0⟩

/-- **completeness of `sqrootmodprime`**: for every prime `p` and every quadratic residue `a` the function returns a square root
    (never -1, never a divergence), provided the random generator produces, within the first `drawFuel` draws, a non-residue and a
    residue (the searches `while (legendre(nonzerorandom(…)) …)`); `hleg`: `mpz_legendre` is the Legendre symbol. -/
theorem sqrootmodprime_complete (rnd : Nat → Int) (a : Int) (p : Nat) [hp : Fact p.Prime]
    (hsq : IsSquare (a : ZMod p)) (hleg : ∀ d : Int, legendre d p = legendreSym p d)
    (hrnd : ∀ j, ((rnd j : Int) : ZMod p) ≠ 0)
    (hdrawN : ∃ j, j < drawFuel ∧ legendre (rnd j) p = -1) (hdrawR : ∃ j, j < drawFuel ∧ legendre (rnd j) p = 1) :
    ∃ res, sqrootmodprime rnd a p = some res ∧ res ≠ -1 ∧ (res * res - a) % (p : Int) = 0 := by
  have hp2 : 2 ≤ p := hp.out.two_le
  obtain ⟨res, h, hpos⟩ := sqrootmodprime_returns rnd a p hsq hleg hdrawN hdrawR
  have hz : ((a % (p : Int) : Int) : ZMod p) = (a : ZMod p) := ZMod.intCast_mod a p
  have hnl : legendre (a % (p : Int)) p ≠ -1 := by
    rw [hleg, Ne, legendreSym.eq_neg_one_iff, hz]; exact not_not.mpr hsq
  by_cases hM : p % 16 = 9
  · have hs := sqrootmodprime_mueller_root rnd a p hM hsq hleg hrnd hnl res h
    refine ⟨res, h, ?_, ?_⟩
    · intro hc
      rw [hc] at hs h
      have ha1 : ((a % (p : Int) : Int) : ZMod p) = 1 := by rw [hz, ← hs]; push_cast; ring
      have h1 := (cast_eq_one_iff _ p hp2 (Int.emod_nonneg _ (by omega)) (Int.emod_lt_of_pos _ (by omega))).mp ha1
      unfold sqrootmodprime at h
      simp [h1] at h
    · rw [emod_zero_iff_dvd, ← ZMod.intCast_zmod_eq_zero_iff_dvd]; push_cast; rw [hs]; simp
  · have hne : res ≠ -1 := by have := hpos hM; omega
    exact ⟨res, h, hne, sqrootmodprime_sound_other_classes rnd a p hM hsq res h hne⟩

/-! ## square roots modulo prime powers, as a whole -/

/-- `sqrootmodprimepower` is sound for every odd prime `p`, every exponent `k ≥ 1`, every `a` and every recursion depth:
    a returned value other than -1 squares to `a` modulo `p^k`.  Composes the `a = b·p^t` branch, `sqrootlinear`,
    the Hensel doubling and the one-more lift.  Hypotheses: soundness of `sqrootmodprime` at this `p` (`hprime`,
    discharged by `sqrootmodprime_sound_of_contract` above, for every prime) and the contract of `mpz_invert` (`hinv`). -/
theorem sqrootmodprimepower_sound (rnd : Nat → Int) (p : Int) (hp : Prime p) (hp2 : ¬ p ∣ 2)
    (hprime : ∀ a' r, sqrootmodprime rnd a' p = some r → r ≠ -1 → (r * r - a') % p = 0)
    (hinv : ∀ z m : Int, IsCoprime z m → (z * invmod z m - 1) % m = 0) :
    ∀ (fuel : Nat) (a : Int) (k : Nat) (res : Int), 1 ≤ k →
      sqrootmodprimepower rnd fuel a p k (p ^ k) = some res → res ≠ -1 → (res * res - a) % p ^ k = 0 := by
  have hp0 : p ≠ 0 := hp.ne_zero
  intro fuel
  induction fuel with
  | zero => intro a k res _ h; simp [sqrootmodprimepower] at h
  | succ n ih =>
    intro a k res hk h hne
    have hpk : p ∣ p ^ k := dvd_pow_self p (by omega)
    rw [sqrootmodprimepower] at h
    simp only [] at h
    split at h
    · next h0 =>
      injection h with h; subst h
      apply sub_emod_emod; rw [h0]; simp
    · split at h
      · next h1 =>
        injection h with h; subst h
        apply sub_emod_emod; rw [h1]; simp
      · split at h
        · next hk1 =>
          subst hk1
          have := hprime _ _ h hne
          simp only [pow_one] at this ⊢
          exact sub_emod_emod _ _ _ this
        · split at h
          · next hk1 hdiv =>
            -- a = b p^t
            split at h
            · next hteven =>
              split at h
              · simp at h
              · next sqrtb hrec =>
                split at h
                · injection h with h; exact absurd h.symm hne
                · next hsb =>
                  injection h with h; subst h
                  have hroot := ih _ k sqrtb hk hrec hsb
                  have hinvt := stripP_inv p ((a % p ^ k).natAbs.log2 + 2) (a % p ^ k) 0
                  simp only [pow_zero, mul_one] at hinvt
                  set b := (stripP ((a % p ^ k).natAbs.log2 + 2) (a % p ^ k) p 0).1 with hb
                  set t := (stripP ((a % p ^ k).natAbs.log2 + 2) (a % p ^ k) p 0).2 with ht
                  apply sub_emod_emod
                  obtain ⟨c, hc⟩ := Int.dvd_of_emod_eq_zero hroot
                  obtain ⟨d, hd⟩ := tmod_exists (powmod p (t / 2) (p ^ k) * sqrtb) (p ^ k)
                  rw [hd, powmod_eq]
                  have hpe : p ^ (t / 2) % p ^ k = p ^ (t / 2) - p ^ k * (p ^ (t / 2) / p ^ k) := by
                    have := Int.emod_add_mul_ediv (p ^ (t / 2)) (p ^ k); linarith
                  rw [hpe, ← hinvt]
                  have htt : p ^ t = p ^ (t / 2) * p ^ (t / 2) := by
                    rw [← pow_add]; congr 1; omega
                  rw [htt]
                  apply Int.emod_eq_zero_of_dvd
                  generalize p ^ (t / 2) / p ^ k = q
                  generalize p ^ (t / 2) = P
                  generalize p ^ k = M at hc ⊢
                  refine ⟨P * P * c - 2 * P * sqrtb * sqrtb * q + M * q * q * sqrtb * sqrtb - 2 * (P - M * q) * sqrtb * d + M * d * d, ?_⟩
                  linear_combination (P * P) * hc
            · injection h with h; exact absurd h.symm hne
          · next hk1 hdiv =>
            have hna : ¬ p ∣ a := not_dvd_of_tmod_ne p a (p ^ k) hpk hdiv
            split at h
            · next hk3 =>
              -- linear version, k = 2
              have hk2 : k = 2 := by omega
              subst hk2
              unfold sqrootlinear at h
              cases hsp : sqrootmodprime rnd a p with
              | none => rw [hsp] at h; simp at h
              | some x =>
                rw [hsp] at h
                simp only [Option.map_some, Option.some.injEq] at h
                by_cases hx1 : x = -1
                · rw [if_pos hx1] at h; exact absurd (h.symm.trans hx1) hne
                · rw [if_neg hx1] at h
                  subst h
                  have hx := hprime _ _ hsp hx1
                  have := linearLoop_sound a p hp0 1 0 x (by simpa using hx) (by
                    intro z hz
                    apply hinv
                    have hc := coprime_two_root p hp hp2 a x p (dvd_refl p) hx hna 1
                    rw [pow_one] at hc
                    obtain ⟨u, hu⟩ := Int.dvd_of_emod_eq_zero hz
                    have : z = x * 2 + p * u := by linarith
                    rw [this]
                    exact IsCoprime.add_mul_left_left hc u)
                  simpa using this
            · next hk3 =>
              split at h
              · next hodd =>
                -- k odd ≥ 3
                split at h
                · simp at h
                · next x hrec =>
                  split at h
                  · next hxm => injection h with h; rw [← h] at hne; exact absurd hxm hne
                  · next hx1 =>
                    split at h
                    · next hxm => injection h with h; rw [← h] at hne; exact absurd hxm hne
                    · next hx2 =>
                      injection h with h; subst h
                      have hkd : 1 ≤ k / 2 := by omega
                      have hx := ih a (k / 2) x hkd hrec hx1
                      have hpkd : p ∣ p ^ (k / 2) := dvd_pow_self p (by omega)
                      have hc1 := coprime_two_root p hp hp2 a x _ hpkd hx hna (k / 2)
                      have h1 := hensel_step_exact x a (p ^ (k / 2)) (pow_ne_zero _ hp0) hx (hinv _ _ hc1)
                      rw [tdiv_pow_self p hp0 k hk]
                      have e1 : p ^ (k / 2) * p ^ (k / 2) = p ^ (k - 1) := by
                        rw [← pow_add]; congr 1; omega
                      rw [e1] at h1
                      have hpk1 : p ∣ p ^ (k - 1) := dvd_pow_self p (by omega)
                      have hc2 := coprime_two_root p hp hp2 a _ _ hpk1 h1 hna 1
                      rw [pow_one] at hc2
                      have h2 := onemorelift_exact _ a p (p ^ (k - 1)) (pow_ne_zero _ hp0) hpk1 h1 (hinv _ _ hc2)
                      have e2 : p ^ (k - 1) * p = p ^ k := by
                        rw [← pow_succ]; congr 1; omega
                      rw [e2] at h2
                      exact h2
              · next heven =>
                split at h
                · simp at h
                · next x hrec =>
                  split at h
                  · injection h with h; exact absurd h.symm hne
                  · next hx1 =>
                    injection h with h; subst h
                    have hkd : 1 ≤ k / 2 := by omega
                    have hx := ih a (k / 2) x hkd hrec hx1
                    have hpkd : p ∣ p ^ (k / 2) := dvd_pow_self p (by omega)
                    have hc1 := coprime_two_root p hp hp2 a x _ hpkd hx hna (k / 2)
                    have h1 := hensel_step_exact x a (p ^ (k / 2)) (pow_ne_zero _ hp0) hx (hinv _ _ hc1)
                    have e1 : p ^ (k / 2) * p ^ (k / 2) = p ^ k := by
                      rw [← pow_add]; congr 1; omega
                    rw [e1] at h1
                    exact h1

/-! ## completeness modulo prime powers (units) -/

theorem three_le_pow (p : Int) (h3 : 3 ≤ p) (k : Nat) (hk : 1 ≤ k) : 3 ≤ p ^ k := by
  calc (3 : Int) ≤ p := h3
    _ = p ^ 1 := (pow_one p).symm
    _ ≤ p ^ k := pow_le_pow_right₀ (by omega) hk

/-- when `a ≡ 1 (mod pk)` the function answers 1 (early return) -/
theorem sqrootmodprimepower_of_one (rnd : Nat → Int) (n : Nat) (a p : Int) (k : Nat) (pk : Int) (h1 : a % pk = 1) :
    sqrootmodprimepower rnd (n + 1) a p k pk = some 1 := by
  rw [sqrootmodprimepower]
  simp [h1]

/-- a value returned by `sqrootmodprimepower` that is a root modulo `p^k ≥ 3` is never the "not a residue" marker -1 -/
theorem result_ne_neg_one (rnd : Nat → Int) (fuel : Nat) (a p : Int) (k : Nat) (h3 : 3 ≤ p ^ k) (res : Int)
    (h : sqrootmodprimepower rnd fuel a p k (p ^ k) = some res) (hroot : (res * res - a) % p ^ k = 0) : res ≠ -1 := by
  intro hc
  subst hc
  cases fuel with
  | zero => simp [sqrootmodprimepower] at h
  | succ n =>
    have h1 : a % p ^ k = 1 := by
      obtain ⟨c, hc⟩ := Int.dvd_of_emod_eq_zero hroot
      have : a = 1 + p ^ k * (-c) := by linarith
      rw [this, Int.add_mul_emod_self_left]
      exact Int.emod_eq_of_lt (by norm_num) (by omega)
    rw [sqrootmodprimepower_of_one rnd n a p k _ h1] at h
    injection h with h; omega

/-- **completeness of `sqrootmodprimepower` on units**: for an odd prime `p ≥ 3`, every `k ≥ 1` and every `a` prime to `p` that is a
    square modulo `p`, the function returns a root modulo `p^k` (never -1, never out of fuel; `k < 2^fuel`, which `ppFuel k` satisfies).
    The checks `if (x == -1) return` on intermediate values never fire on a genuine root: a root equal to -1 would mean `a ≡ 1`, where
    the function answers 1.  `hprimeC` is `sqrootmodprime_complete`.
    Full statement (not proved): the same for every `a` with `IsSquare (a : ZMod (p^k))`, i.e. including `a = b·p^t` (needs the
    valuation argument `t` even, `b` a residue). -/
theorem sqrootmodprimepower_complete_partial (rnd : Nat → Int) (p : Int) (hp : Prime p) (hp3 : 3 ≤ p) (hp2 : ¬ p ∣ 2)
    (hprimeC : ∀ a' : Int, (∃ y, (y * y - a') % p = 0) → ∃ r, sqrootmodprime rnd a' p = some r ∧ r ≠ -1 ∧ (r * r - a') % p = 0)
    (hinv : ∀ z m : Int, IsCoprime z m → (z * invmod z m - 1) % m = 0) :
    ∀ (fuel : Nat) (a : Int) (k : Nat), 1 ≤ k → k < 2 ^ fuel → ¬ p ∣ a → (∃ y, (y * y - a) % p = 0) →
      ∃ res, sqrootmodprimepower rnd fuel a p k (p ^ k) = some res ∧ (res * res - a) % p ^ k = 0 := by
  have hp0 : p ≠ 0 := hp.ne_zero
  intro fuel
  induction fuel with
  | zero => intro a k hk hlt; simp at hlt; omega
  | succ n ih =>
    intro a k hk hlt hna hqr
    have hpk : p ∣ p ^ k := dvd_pow_self p (by omega)
    rw [sqrootmodprimepower]
    simp only []
    split
    · next h0 => exact ⟨0, rfl, by apply sub_emod_emod; rw [h0]; simp⟩
    · split
      · next h1 => exact ⟨1, rfl, by apply sub_emod_emod; rw [h1]; simp⟩
      · split
        · next hk1 =>
          subst hk1
          obtain ⟨y, hy⟩ := hqr
          have hq' : ∃ y, (y * y - a % p ^ 1) % p = 0 := by
            refine ⟨y, ?_⟩
            obtain ⟨c, hc⟩ := Int.dvd_of_emod_eq_zero hy
            have : a % p ^ 1 = a - p * (a / p) := by
              rw [pow_one]; have := Int.emod_add_mul_ediv a p; linarith
            rw [this]; apply Int.emod_eq_zero_of_dvd
            exact ⟨c + a / p, by linarith⟩
          obtain ⟨r, hr, _, hroot⟩ := hprimeC _ hq'
          refine ⟨r, hr, ?_⟩
          rw [pow_one] at hroot ⊢
          exact sub_emod_emod _ _ _ hroot
        · split
          · next hdiv =>
            exfalso; apply hna
            have h1 : p ∣ a % p ^ k := by
              have := tmod_dvd_sub (a % p ^ k) p
              rw [hdiv] at this; simpa using this
            have : a % p ^ k = a - p ^ k * (a / p ^ k) := by have := Int.emod_add_mul_ediv a (p ^ k); linarith
            rw [this] at h1
            have h2 : p ∣ p ^ k * (a / p ^ k) := Dvd.dvd.mul_right hpk _
            have := dvd_add h1 h2
            simpa using this
          · split
            · next hk3 =>
              have hk2 : k = 2 := by omega
              subst hk2
              obtain ⟨x, hx, hx1, hxr⟩ := hprimeC a hqr
              unfold sqrootlinear
              rw [hx]
              simp only [Option.map_some, hx1, ↓reduceIte]
              refine ⟨_, rfl, ?_⟩
              have := linearLoop_sound a p hp0 1 0 x (by simpa using hxr) (by
                intro z hz
                apply hinv
                have hc := coprime_two_root p hp hp2 a x p (dvd_refl p) hxr hna 1
                rw [pow_one] at hc
                obtain ⟨u, hu⟩ := Int.dvd_of_emod_eq_zero hz
                have : z = x * 2 + p * u := by linarith
                rw [this]
                exact IsCoprime.add_mul_left_left hc u)
              simpa using this
            · next hk3 =>
              have hkd : 1 ≤ k / 2 := by omega
              have hkdlt : k / 2 < 2 ^ n := by
                rw [pow_succ] at hlt; omega
              obtain ⟨x, hrec, hx⟩ := ih a (k / 2) hkd hkdlt hna hqr
              have hx1 : x ≠ -1 := result_ne_neg_one rnd n a p (k / 2) (three_le_pow p hp3 _ hkd) x hrec hx
              have hpkd : p ∣ p ^ (k / 2) := dvd_pow_self p (by omega)
              have hc1 := coprime_two_root p hp hp2 a x _ hpkd hx hna (k / 2)
              have h1 := hensel_step_exact x a (p ^ (k / 2)) (pow_ne_zero _ hp0) hx (hinv _ _ hc1)
              rw [hrec]
              split
              · next hodd =>
                simp only [hx1, ↓reduceIte]
                have e1 : p ^ (k / 2) * p ^ (k / 2) = p ^ (k - 1) := by
                  rw [← pow_add]; congr 1; omega
                rw [e1] at h1
                -- the lifted value is not -1 either
                have hx2 : sqroothensellift x a (p ^ (k / 2)) ≠ -1 := by
                  intro hc
                  rw [hc] at h1
                  have ha1 : a % p ^ (k / 2) = 1 := by
                    obtain ⟨c, hcc⟩ := Int.dvd_of_emod_eq_zero h1
                    have hsplit : p ^ (k - 1) = p ^ (k / 2) * p ^ (k / 2) := e1.symm
                    have : a = 1 + p ^ (k / 2) * (-(p ^ (k / 2) * c)) := by rw [hsplit] at hcc; linarith
                    rw [this, Int.add_mul_emod_self_left]
                    exact Int.emod_eq_of_lt (by norm_num) (by have := three_le_pow p hp3 _ hkd; omega)
                  cases n with
                  | zero => simp [sqrootmodprimepower] at hrec
                  | succ n' =>
                    rw [sqrootmodprimepower_of_one rnd n' a p (k / 2) _ ha1] at hrec
                    injection hrec with hrec
                    subst hrec
                    unfold sqroothensellift at hc
                    simp only [] at hc
                    split at hc
                    · omega
                    · have h2 : p ^ (k / 2) ∣ 2 := by
                        refine ⟨-(Int.tmod (invmod (1 * 2) (p ^ (k / 2)) * Int.tdiv (a - 1 * 1) (p ^ (k / 2))) (p ^ (k / 2))), ?_⟩
                        linarith
                      exact hp2 (dvd_trans hpkd h2)
                simp only [hx2, ↓reduceIte]
                refine ⟨_, rfl, ?_⟩
                rw [tdiv_pow_self p hp0 k hk]
                have hpk1 : p ∣ p ^ (k - 1) := dvd_pow_self p (by omega)
                have hc2 := coprime_two_root p hp hp2 a _ _ hpk1 h1 hna 1
                rw [pow_one] at hc2
                have h2 := onemorelift_exact _ a p (p ^ (k - 1)) (pow_ne_zero _ hp0) hpk1 h1 (hinv _ _ hc2)
                have e2 : p ^ (k - 1) * p = p ^ k := by
                  rw [← pow_succ]; congr 1; omega
                rw [e2] at h2
                exact h2
              · next heven =>
                simp only [hx1, ↓reduceIte]
                refine ⟨_, rfl, ?_⟩
                have e1 : p ^ (k / 2) * p ^ (k / 2) = p ^ k := by
                  rw [← pow_add]; congr 1; omega
                rw [e1] at h1
                exact h1

/-! ## square roots modulo powers of two, as a whole -/

/-- the correction step shared by `sqroottwolinear` and the odd-`k` branch: from a root modulo `2^(i-1)` that is not a
    root modulo `2^i`, adding `2^(i-2)` gives a root modulo `2^i` (`i ≥ 4`, `x` odd) -/
theorem two_step (x a : Int) (i : Nat) (hi : 4 ≤ i) (hxo : x % 2 = 1)
    (hx : (x * x - a) % 2 ^ (i - 1) = 0) (hn : ¬ (x * x - a) % 2 ^ i = 0) :
    ((x + 2 ^ (i - 2)) * (x + 2 ^ (i - 2)) - a) % 2 ^ i = 0 := by
  obtain ⟨c, hc⟩ := Int.dvd_of_emod_eq_zero hx
  have e1 : (2 : Int) ^ (i - 1) = 2 * 2 ^ (i - 2) := by
    rw [show i - 1 = (i - 2) + 1 by omega, pow_succ]; ring
  have e2 : (2 : Int) ^ i = 4 * 2 ^ (i - 2) := by
    conv_lhs => rw [show i = (i - 2) + 2 by omega]
    rw [pow_add]; ring
  have e3 : (2 : Int) ^ (i - 2) = 4 * 2 ^ (i - 4) := by
    conv_lhs => rw [show i - 2 = (i - 4) + 2 by omega]
    rw [pow_add]; ring
  have hco : c % 2 = 1 := by
    rcases Int.emod_two_eq_zero_or_one c with h0 | h1
    · exfalso; apply hn
      apply Int.emod_eq_zero_of_dvd
      refine ⟨c / 2, ?_⟩
      have : c = 2 * (c / 2) := by omega
      rw [hc, e1, e2]; conv_lhs => rw [this]
      ring
    · exact h1
  apply Int.emod_eq_zero_of_dvd
  refine ⟨(c + x) / 2 + 2 ^ (i - 4), ?_⟩
  have hm : c + x = 2 * ((c + x) / 2) := by omega
  rw [e1] at hc
  rw [e2]
  generalize (c + x) / 2 = m at hm ⊢
  generalize (2 : Int) ^ (i - 4) = Q at e3 ⊢
  generalize (2 : Int) ^ (i - 2) = P2 at hc e3 ⊢
  linear_combination hc + (2 * P2) * hm + P2 * e3

/-- the loop of `sqroottwolinear` (`k < 29`): from an odd root modulo `2^(i-1)` to a root modulo `2^(i-1+n)` after `n` rounds -/
theorem twoLinearLoop_sound (a : Int) (ha0 : 0 ≤ a) : ∀ (n i : Nat) (x : Int), 4 ≤ i → x % 2 = 1 →
    (x * x - a) % 2 ^ (i - 1) = 0 →
    (twoLinearLoop a n x (2 ^ i) (2 ^ (i - 2)) * twoLinearLoop a n x (2 ^ i) (2 ^ (i - 2)) - a) % 2 ^ (i - 1 + n) = 0 := by
  intro n
  induction n with
  | zero => intro i x _ _ hx; simpa [twoLinearLoop] using hx
  | succ n ih =>
    intro i x hi hxo hx
    rw [twoLinearLoop]
    have hp2 : (2 : Int) ^ i * 2 = 2 ^ (i + 1) := (pow_succ 2 i).symm
    have hp3 : (2 : Int) ^ i / 2 = 2 ^ (i + 1 - 2) := by
      have : (2 : Int) ^ i = 2 * 2 ^ (i + 1 - 2) := by
        conv_lhs => rw [show i = (i + 1 - 2) + 1 by omega]
        rw [pow_succ]; ring
      rw [this, Int.mul_ediv_cancel_left _ (by norm_num)]
    rw [hp2, hp3]
    have hpos : (0 : Int) < 2 ^ i := by positivity
    have hiff : (Int.tmod (x * x) (2 ^ i) ≠ Int.tmod a (2 ^ i)) ↔ ¬ (x * x - a) % 2 ^ i = 0 := by
      rw [Int.tmod_eq_emod_of_nonneg (mul_self_nonneg x), Int.tmod_eq_emod_of_nonneg ha0]
      rw [not_iff_not]
      exact Int.emod_eq_emod_iff_emod_sub_eq_zero
    have e : i - 1 + (n + 1) = (i + 1) - 1 + n := by omega
    rw [e]
    by_cases hc : (x * x - a) % 2 ^ i = 0
    · rw [if_neg (by rw [hiff]; exact not_not.mpr hc)]
      exact ih (i + 1) x (by omega) hxo (by simpa using hc)
    · rw [if_pos (hiff.mpr hc)]
      have hs := two_step x a i hi hxo hx hc
      have hodd : (x + 2 ^ (i - 2)) % 2 = 1 := by
        have : (2 : Int) ^ (i - 2) = 2 * 2 ^ (i - 3) := by
          conv_lhs => rw [show i - 2 = (i - 3) + 1 by omega]
          rw [pow_succ]; ring
        rw [this]; omega
      exact ih (i + 1) _ (by omega) hodd (by simpa using hs)

/-- the `k ≥ 29` branch after its recursive call: quadratic 2-adic lift and, for odd `k`, the correction by `2^(k-2)` -/
theorem twoBigFinish_sound (hinv : ∀ z m : Int, IsCoprime z m → (z * invmod z m - 1) % m = 0)
    (x t : Int) (k : Nat) (hk29 : 29 ≤ k) (hto : t % 2 = 1)
    (hx : (x * x - t) % 2 ^ (k / 2 + 1) = 0)
    (hne : twoBigFinish x t k (2 ^ k) (2 ^ (k / 2 + 1)) ≠ -1) :
    (twoBigFinish x t k (2 ^ k) (2 ^ (k / 2 + 1)) * twoBigFinish x t k (2 ^ k) (2 ^ (k / 2 + 1)) - t) % 2 ^ k = 0 := by
  have hk4 : 4 ≤ k := by omega
  have h2m : (2 : Int) ∣ 2 ^ (k / 2 + 1) := dvd_pow_self 2 (by omega)
  have hxo := odd_of_sq_congr x _ _ h2m hx hto
  have hhalf : (2 : Int) ^ (k / 2 + 1) / 2 = 2 ^ (k / 2) := by
    rw [pow_succ, Int.mul_ediv_cancel _ (by norm_num)]
  have hl := twolift_exact x t (2 ^ (k / 2 + 1))
    (by rw [hhalf]; positivity) (by rw [hhalf, pow_succ]; ring) hx
    (by rw [hhalf]; exact hinv _ _ (coprime_odd_pow x hxo _))
  rw [hhalf, ← pow_add] at hl
  unfold twoBigFinish at hne ⊢
  simp only [] at hne ⊢
  split
  · next hxm => rw [if_pos hxm] at hne; exact absurd hxm hne
  · next hx1 =>
    rw [if_neg hx1] at hne
    split
    · next hke =>
      have e : k / 2 + k / 2 = k := by omega
      rw [e] at hl; exact hl
    · next hko =>
      rw [if_neg hko] at hne
      have e : k / 2 + k / 2 = k - 1 := by omega
      rw [e] at hl
      split
      · next hxm => rw [if_pos hxm] at hne; exact absurd hxm hne
      · next hx2 =>
        have h2m' : (2 : Int) ∣ 2 ^ (k - 1) := dvd_pow_self 2 (by omega)
        have hxo' := odd_of_sq_congr _ _ _ h2m' hl hto
        split
        · next hu =>
          have := tmod_dvd_sub (t - sqrootmodtwolift x t (2 ^ (k / 2 + 1)) * sqrootmodtwolift x t (2 ^ (k / 2 + 1))) (2 ^ k)
          rw [hu] at this
          apply Int.emod_eq_zero_of_dvd
          obtain ⟨w, hw⟩ := this
          exact ⟨w, by linarith⟩
        · next hu =>
          have hq : (2 : Int) ^ k / 4 = 2 ^ (k - 2) := by
            have : (2 : Int) ^ k = 4 * 2 ^ (k - 2) := by
              conv_lhs => rw [show k = (k - 2) + 2 by omega]
              rw [pow_add]; ring
            rw [this, Int.mul_ediv_cancel_left _ (by norm_num)]
          rw [hq]
          apply two_step _ _ k hk4 hxo' hl
          intro hc
          apply hu
          apply Int.tmod_eq_zero_of_dvd
          obtain ⟨w, hw⟩ := Int.dvd_of_emod_eq_zero hc
          exact ⟨-w, by linarith⟩

/-- `sqrootmodpoweroftwo` is sound for every `k ≥ 1`, every `a` (any sign, any size) and every recursion depth:
    a returned value other than -1 squares to `a` modulo `2^k`.  Covers k = 1, 2, 3, the `a = b·4^s` branch, the linear
    version (`k < 29`) and the quadratic version (`k ≥ 29`, both parities).  Hypothesis: the contract of `mpz_invert`. -/
theorem sqrootmodpoweroftwo_sound (hinv : ∀ z m : Int, IsCoprime z m → (z * invmod z m - 1) % m = 0) :
    ∀ (fuel : Nat) (a : Int) (k : Nat) (res : Int), 1 ≤ k →
      sqrootmodpoweroftwo fuel a k (2 ^ k) = some res → res ≠ -1 → (res * res - a) % 2 ^ k = 0 := by
  intro fuel
  induction fuel with
  | zero => intro a k res _ h; simp [sqrootmodpoweroftwo] at h
  | succ n ih =>
    intro a k res hk h hne
    rw [sqrootmodpoweroftwo] at h
    simp only [] at h
    split at h
    · next hk1 =>
      subst hk1
      injection h with h; subst h
      simp only [pow_one]
      rcases Int.emod_two_eq_zero_or_one a with h0 | h1
      · rw [h0]; omega
      · rw [h1]; omega
    · split at h
      · next hk1 hk2 =>
        subst hk2
        apply sub_emod_emod
        split at h
        · next h0 => injection h with h; subst h; rw [h0]; simp
        · split at h
          · next h1 => injection h with h; subst h; rw [h1]; simp
          · injection h with h; exact absurd h.symm hne
      · split at h
        · next hk1 hk2 hk3 =>
          subst hk3
          injection h with h; subst h
          apply sub_emod_emod
          have := sqrootmod8_sound _ hne
          norm_num at this ⊢
          exact this
        · split at h
          · next h0 => injection h with h; subst h; apply sub_emod_emod; rw [h0]; simp
          · split at h
            · next h1 => injection h with h; subst h; apply sub_emod_emod; rw [h1]; simp
            · split at h
              · next heven =>
                split at h
                · next hteven =>
                  split at h
                  · simp at h
                  · next x hrec =>
                    split at h
                    · next hxm => injection h with h; rw [← h] at hne; exact absurd hxm hne
                    · next hx1 =>
                      injection h with h; subst h
                      have hroot := ih _ k x hk hrec hx1
                      have hinvt := stripTwo_inv ((a % 2 ^ k).natAbs.log2 + 2) (a % 2 ^ k) 0
                      simp only [pow_zero, mul_one] at hinvt
                      set b := (stripTwo ((a % 2 ^ k).natAbs.log2 + 2) (a % 2 ^ k) 0).1 with hb
                      set t := (stripTwo ((a % 2 ^ k).natAbs.log2 + 2) (a % 2 ^ k) 0).2 with ht
                      apply sub_emod_emod
                      obtain ⟨c, hc⟩ := Int.dvd_of_emod_eq_zero hroot
                      obtain ⟨d, hd⟩ := tmod_exists (x * 2 ^ (t / 2)) (2 ^ k)
                      rw [hd, ← hinvt]
                      have htt : (2 : Int) ^ t = 2 ^ (t / 2) * 2 ^ (t / 2) := by
                        rw [← pow_add]; congr 1; omega
                      rw [htt]
                      apply Int.emod_eq_zero_of_dvd
                      generalize (2 : Int) ^ (t / 2) = P
                      generalize (2 : Int) ^ k = M at hc ⊢
                      refine ⟨P * P * c - 2 * x * P * d + M * d * d, ?_⟩
                      linear_combination (P * P) * hc
                · injection h with h; exact absurd h.symm hne
              · next hodd =>
                have hto : (a % 2 ^ k) % 2 = 1 := by omega
                have hk4 : 4 ≤ k := by omega
                split at h
                · next hk29 =>
                  injection h with h; subst h
                  apply sub_emod_emod
                  unfold sqroottwolinear at hne ⊢
                  simp only [] at hne ⊢
                  have hk4' : ¬ k < 4 := by omega
                  by_cases h8 : sqrootmod8 (a % 2 ^ k) = -1
                  · rw [if_pos (Or.inl h8)] at hne; exact absurd h8 hne
                  · rw [if_neg (by rintro (h | h); exact h8 h; exact hk4' h)]
                    have hx8 := sqrootmod8_sound _ h8
                    have hx1 := sqrootmod8_odd _ hto h8
                    have := twoLinearLoop_sound (a % 2 ^ k) (Int.emod_nonneg _ (by positivity)) (k - 3) 4
                      (sqrootmod8 (a % 2 ^ k)) (le_refl 4) (by rw [hx1]; rfl) (by norm_num; exact Int.dvd_of_emod_eq_zero hx8)
                    have e : 4 - 1 + (k - 3) = k := by omega
                    rw [e] at this
                    norm_num at this ⊢
                    exact this
                · next hk29 =>
                  have hk29' : 29 ≤ k := by omega
                  have hspk : (2 : Int) * 2 ^ (k / 2) = 2 ^ (k / 2 + 1) := by rw [pow_succ]; ring
                  rw [hspk] at h
                  split at h
                  · simp at h
                  · next x hrec =>
                    injection h with h; subst h
                    apply sub_emod_emod
                    have hx1 : x ≠ -1 := by
                      intro hc; apply hne; unfold twoBigFinish; rw [if_pos hc]; exact hc
                    have hx := ih (a % 2 ^ k) (k / 2 + 1) x (by omega) hrec hx1
                    exact twoBigFinish_sound hinv x (a % 2 ^ k) k hk29' hto hx hne

/-! ## completeness modulo powers of two (odd arguments) -/

/-- for `k ≥ 4`, when `a ≡ 1 (mod 2^k)` the function answers 1 (early return) -/
theorem sqrootmodpoweroftwo_of_one (n : Nat) (a : Int) (k : Nat) (hk : 4 ≤ k) (pk : Int) (h1 : a % pk = 1) :
    sqrootmodpoweroftwo (n + 1) a k pk = some 1 := by
  rw [sqrootmodpoweroftwo]
  have e1 : ¬ k = 1 := by omega
  have e2 : ¬ k = 2 := by omega
  have e3 : ¬ k = 3 := by omega
  simp [h1, e1, e2, e3]

theorem pow2_result_ne_neg_one (fuel : Nat) (a : Int) (k : Nat) (hk : 4 ≤ k) (res : Int)
    (h : sqrootmodpoweroftwo fuel a k (2 ^ k) = some res) (hroot : (res * res - a) % 2 ^ k = 0) : res ≠ -1 := by
  intro hc
  subst hc
  cases fuel with
  | zero => simp [sqrootmodpoweroftwo] at h
  | succ n =>
    have h16 : (16 : Int) ≤ 2 ^ k := by
      calc (16 : Int) = 2 ^ 4 := by norm_num
        _ ≤ 2 ^ k := pow_le_pow_right₀ (by norm_num) hk
    have h1 : a % 2 ^ k = 1 := by
      obtain ⟨c, hc⟩ := Int.dvd_of_emod_eq_zero hroot
      have : a = 1 + 2 ^ k * (-c) := by linarith
      rw [this, Int.add_mul_emod_self_left]
      exact Int.emod_eq_of_lt (by norm_num) (by omega)
    rw [sqrootmodpoweroftwo_of_one n a k hk _ h1] at h
    injection h with h; omega

theorem mod8_of_mod_pow (a : Int) (k : Nat) (hk : 3 ≤ k) : (a % 2 ^ k) % 8 = a % 8 := by
  have : (8 : Int) ∣ 2 ^ k := by
    refine ⟨2 ^ (k - 3), ?_⟩
    conv_lhs => rw [show k = 3 + (k - 3) by omega]
    rw [pow_add]; norm_num
  exact Int.emod_emod_of_dvd a this

/-- **completeness of `sqrootmodpoweroftwo` on odd arguments**: for every `k ≥ 1` and every `a ≡ 1 (mod 8)` (exactly the odd squares
    modulo `2^k`, `k ≥ 3`) the function returns a root modulo `2^k` (never -1, never out of fuel; `k < 2^fuel`).
    Full statement (not proved): every `a` with `IsSquare (a : ZMod (2^k))`, i.e. including `a = b·4^s` and the odd squares modulo 2 and 4. -/
theorem sqrootmodpoweroftwo_complete_partial (hinv : ∀ z m : Int, IsCoprime z m → (z * invmod z m - 1) % m = 0) :
    ∀ (fuel : Nat) (a : Int) (k : Nat), 1 ≤ k → 1 ≤ fuel → k ≤ 2 ^ fuel + 2 → a % 8 = 1 →
      ∃ res, sqrootmodpoweroftwo fuel a k (2 ^ k) = some res ∧ (res * res - a) % 2 ^ k = 0 := by
  intro fuel
  induction fuel with
  | zero => intro a k hk hf; omega
  | succ n ih =>
    intro a k hk _ hlt ha8
    have hao : a % 2 = 1 := by omega
    rw [sqrootmodpoweroftwo]
    simp only []
    split
    · next hk1 =>
      subst hk1
      refine ⟨_, rfl, ?_⟩
      simp only [pow_one]; rw [hao]; omega
    · split
      · next hk1 hk2 =>
        subst hk2
        have h4 : a % 2 ^ 2 = 1 ∨ a % 2 ^ 2 = 3 := by norm_num; omega
        have h41 : a % 2 ^ 2 = 1 := by norm_num; omega
        rw [h41]
        refine ⟨1, by simp, ?_⟩
        norm_num; omega
      · split
        · next hk1 hk2 hk3 =>
          subst hk3
          have h81 : a % 2 ^ 3 = 1 := by norm_num; omega
          rw [h81]
          refine ⟨1, by simp [sqrootmod8], ?_⟩
          norm_num; omega
        · next hk1 hk2 hk3 =>
          have hk4 : 4 ≤ k := by omega
          have ht8 : (a % 2 ^ k) % 8 = 1 := by rw [mod8_of_mod_pow a k (by omega)]; exact ha8
          have hto : (a % 2 ^ k) % 2 = 1 := by omega
          split
          · next h0 => exact ⟨0, rfl, by apply sub_emod_emod; rw [h0]; simp⟩
          · split
            · next h1 => exact ⟨1, rfl, by apply sub_emod_emod; rw [h1]; simp⟩
            · next hn1 =>
              rw [if_neg (by omega)]
              split
              · next hk29 =>
                refine ⟨_, rfl, ?_⟩
                apply sub_emod_emod
                unfold sqroottwolinear
                simp only []
                have h8 : sqrootmod8 (a % 2 ^ k) = 1 := by unfold sqrootmod8; simp [ht8]
                rw [h8]
                rw [if_neg (by rintro (h | h); omega; omega)]
                have := twoLinearLoop_sound (a % 2 ^ k) (Int.emod_nonneg _ (by positivity)) (k - 3) 4 1 (le_refl 4) (by norm_num)
                  (by norm_num; omega)
                have e : 4 - 1 + (k - 3) = k := by omega
                rw [e] at this
                norm_num at this ⊢
                exact this
              · next hk29 =>
                have hk29' : 29 ≤ k := by omega
                have hspk : (2 : Int) * 2 ^ (k / 2) = 2 ^ (k / 2 + 1) := by rw [pow_succ]; ring
                rw [hspk]
                have hn1' : 1 ≤ n := by
                  by_contra hc
                  have : n = 0 := by omega
                  subst this; norm_num at hlt; omega
                have hlt' : k / 2 + 1 ≤ 2 ^ n + 2 := by
                  rw [pow_succ] at hlt
                  omega
                obtain ⟨x, hrec, hx⟩ := ih (a % 2 ^ k) (k / 2 + 1) (by omega) hn1' hlt' ht8
                rw [hrec]
                refine ⟨_, rfl, ?_⟩
                apply sub_emod_emod
                have hx1 : x ≠ -1 := pow2_result_ne_neg_one n _ (k / 2 + 1) (by omega) x hrec hx
                -- the finishing step returns a root unless its own -1 checks fire: they do not
                have hfin : twoBigFinish x (a % 2 ^ k) k (2 ^ k) (2 ^ (k / 2 + 1)) ≠ -1 := by
                  intro hc
                  unfold twoBigFinish at hc
                  simp only [hx1, ↓reduceIte] at hc
                  -- shape of the lifted value
                  have h2m : (2 : Int) ∣ 2 ^ (k / 2 + 1) := dvd_pow_self 2 (by omega)
                  have hxo := odd_of_sq_congr x _ _ h2m hx hto
                  have hhalf : (2 : Int) ^ (k / 2 + 1) / 2 = 2 ^ (k / 2) := by
                    rw [pow_succ, Int.mul_ediv_cancel _ (by norm_num)]
                  have hl := twolift_exact x (a % 2 ^ k) (2 ^ (k / 2 + 1))
                    (by rw [hhalf]; positivity) (by rw [hhalf, pow_succ]; ring) hx
                    (by rw [hhalf]; exact hinv _ _ (coprime_odd_pow x hxo _))
                  rw [hhalf, ← pow_add] at hl
                  have ht0 : 0 ≤ a % 2 ^ k := Int.emod_nonneg _ (by positivity)
                  have ht1 : a % 2 ^ k < 2 ^ k := Int.emod_lt_of_pos _ (by positivity)
                  have h16 : (16 : Int) ≤ 2 ^ k := by
                    calc (16 : Int) = 2 ^ 4 := by norm_num
                      _ ≤ 2 ^ k := pow_le_pow_right₀ (by norm_num) hk4
                  -- a root equal to -1 modulo 2^k is excluded by the branch `tmpa ≠ 1`
                  have hnot : ∀ R : Int, R = -1 → ¬ (R * R - a % 2 ^ k) % 2 ^ k = 0 := by
                    intro R hR hroot
                    subst hR
                    obtain ⟨c, hcc⟩ := Int.dvd_of_emod_eq_zero hroot
                    apply hn1
                    have : a % 2 ^ k = 1 + 2 ^ k * (-c) := by linarith
                    have h2 : (a % 2 ^ k) % 2 ^ k = 1 := by
                      rw [this, Int.add_mul_emod_self_left]; exact Int.emod_eq_of_lt (by norm_num) (by omega)
                    rwa [Int.emod_eq_of_lt ht0 ht1] at h2
                  -- the lifted value X1 is not -1 (k odd): otherwise the recursive call answered 1 and 2^(k/2) would divide 2
                  have hX1 : k % 2 = 1 → sqrootmodtwolift x (a % 2 ^ k) (2 ^ (k / 2 + 1)) ≠ -1 := by
                    intro hko hX
                    have e : k / 2 + k / 2 = k - 1 := by omega
                    rw [e, hX] at hl
                    have hsmall : (a % 2 ^ k) % 2 ^ (k / 2 + 1) = 1 := by
                      obtain ⟨c, hcc⟩ := Int.dvd_of_emod_eq_zero hl
                      have hsplit : (2 : Int) ^ (k - 1) = 2 ^ (k / 2 + 1) * 2 ^ (k - 1 - (k / 2 + 1)) := by
                        rw [← pow_add]; congr 1; omega
                      have : a % 2 ^ k = 1 + 2 ^ (k / 2 + 1) * (-(2 ^ (k - 1 - (k / 2 + 1)) * c)) := by
                        rw [hsplit] at hcc; linarith
                      rw [this, Int.add_mul_emod_self_left]
                      have : (16 : Int) ≤ 2 ^ (k / 2 + 1) := by
                        calc (16 : Int) = 2 ^ 4 := by norm_num
                          _ ≤ 2 ^ (k / 2 + 1) := pow_le_pow_right₀ (by norm_num) (by omega)
                      exact Int.emod_eq_of_lt (by norm_num) (by omega)
                    cases n with
                    | zero => omega
                    | succ n' =>
                      rw [sqrootmodpoweroftwo_of_one n' _ (k / 2 + 1) (by omega) _ hsmall] at hrec
                      injection hrec with hrec
                      subst hrec
                      unfold sqrootmodtwolift at hX
                      simp only [] at hX
                      rw [hhalf] at hX
                      split at hX
                      · omega
                      · have h2 : (2 : Int) ^ (k / 2) ∣ 2 := by
                          refine ⟨-(Int.tmod (invmod 1 (2 ^ (k / 2)) * Int.tmod (Int.tdiv (a % 2 ^ k - 1 * 1) (2 ^ (k / 2 + 1))) (2 ^ (k / 2))) (2 ^ (k / 2))), ?_⟩
                          linarith
                        have h4 : (4 : Int) ∣ 2 ^ (k / 2) := by
                          refine ⟨2 ^ (k / 2 - 2), ?_⟩
                          conv_lhs => rw [show k / 2 = 2 + (k / 2 - 2) by omega]
                          rw [pow_add]; norm_num
                        have := dvd_trans h4 h2
                        omega
                  by_cases hke : k % 2 = 0
                  · rw [if_pos hke] at hc
                    have e : k / 2 + k / 2 = k := by omega
                    rw [e] at hl
                    exact hnot _ hc hl
                  · rw [if_neg hke] at hc
                    have hko : k % 2 = 1 := by omega
                    have hX := hX1 hko
                    rw [if_neg hX] at hc
                    have e : k / 2 + k / 2 = k - 1 := by omega
                    rw [e] at hl
                    split at hc
                    · exact hX hc
                    · next hu =>
                      have h2m' : (2 : Int) ∣ 2 ^ (k - 1) := dvd_pow_self 2 (by omega)
                      have hxo' := odd_of_sq_congr _ _ _ h2m' hl hto
                      have hq : (2 : Int) ^ k / 4 = 2 ^ (k - 2) := by
                        have : (2 : Int) ^ k = 4 * 2 ^ (k - 2) := by
                          conv_lhs => rw [show k = (k - 2) + 2 by omega]
                          rw [pow_add]; ring
                        rw [this, Int.mul_ediv_cancel_left _ (by norm_num)]
                      rw [hq] at hc
                      have hstep := two_step _ _ k hk4 hxo' hl (by
                        intro hcc
                        apply hu
                        apply Int.tmod_eq_zero_of_dvd
                        obtain ⟨w, hw⟩ := Int.dvd_of_emod_eq_zero hcc
                        exact ⟨-w, by linarith⟩)
                      exact hnot _ hc hstep
                exact twoBigFinish_sound hinv x (a % 2 ^ k) k hk29' hto hx hfin

/-! ## square roots modulo a composite: CRT recombination -/

/-- component-wise form: the value returned by `sqrootmod` is a root modulo every prime power of the factor list -/
theorem sqrootmodL_sound_components (rnd : Nat → Int) (a : Int) (fs : List (Int × Nat))
    (hinv : ∀ z m : Int, IsCoprime z m → (z * invmod z m - 1) % m = 0)
    (hpw : List.Pairwise (fun x y : Int × Nat => IsCoprime (x.1 ^ x.2) (y.1 ^ y.2)) fs)
    (hcomp : ∀ pe ∈ fs, ∀ r, sqrtComponent rnd a pe = some r → r ≠ -1 → (r * r - a) % pe.1 ^ pe.2 = 0)
    (res : Int) (h : sqrootmodL rnd a fs = some res) (hne : res ≠ -1) :
    ∀ pe ∈ fs, (res * res - a) % pe.1 ^ pe.2 = 0 := by
  unfold sqrootmodL at h
  simp only [] at h
  change (if (fs.map (sqrtComponent rnd a)).any Option.isNone = true then none else _) = some res at h
  split at h
  · simp at h
  · next hnone =>
    change (if ((fs.map (sqrtComponent rnd a)).map (fun r => r.getD 0)).any (· == -1) = true then some (-1) else _) = some res at h
    split at h
    · injection h with h; exact absurd h.symm hne
    · next hm1 =>
      intro pe hpe
      have hsome : ∃ r, sqrtComponent rnd a pe = some r := by
        cases hc : sqrtComponent rnd a pe with
        | some r => exact ⟨r, rfl⟩
        | none =>
          exfalso; apply hnone
          simp only [List.any_map, List.any_eq_true, Function.comp]
          exact ⟨pe, hpe, by rw [hc]; rfl⟩
      obtain ⟨r, hr⟩ := hsome
      have hr1 : r ≠ -1 := by
        intro hc; apply hm1
        simp only [List.any_map, List.any_eq_true, Function.comp]
        exact ⟨pe, hpe, by rw [hr, hc]; rfl⟩
      have hroot := hcomp pe hpe r hr hr1
      -- the CRT value is congruent to r modulo pe.1^pe.2
      have hzip : (fs.map (fun pe => pe.1 ^ pe.2)).zip ((fs.map (sqrtComponent rnd a)).map (fun r => r.getD 0))
          = fs.map (fun pe => (pe.1 ^ pe.2, (sqrtComponent rnd a pe).getD 0)) := by
        rw [List.map_map, List.zip_map']; rfl
      have hpwz : List.Pairwise (fun x y : Int × Int => IsCoprime x.1 y.1)
          ((fs.map (fun pe => pe.1 ^ pe.2)).zip ((fs.map (sqrtComponent rnd a)).map (fun r => r.getD 0))) := by
        rw [hzip, List.pairwise_map]; exact hpw
      have hcrt := rnsToRing_spec hinv _ _ hpwz (pe.1 ^ pe.2, r) (by
        rw [hzip]; exact List.mem_map.mpr ⟨pe, hpe, by rw [hr]; rfl⟩)
      simp only [] at hcrt
      set X := rnsToRing (fs.map (fun pe => pe.1 ^ pe.2)) ((fs.map (sqrtComponent rnd a)).map (fun r => r.getD 0)) with hX
      obtain ⟨c, hc⟩ := Int.dvd_of_emod_eq_zero hcrt
      obtain ⟨d, hd⟩ := Int.dvd_of_emod_eq_zero hroot
      have hres : res = if X < 0 then -X else X := by
        injection h with h; exact h.symm
      have hsq : res * res = X * X := by
        rw [hres]; split <;> ring
      rw [hsq]
      apply Int.emod_eq_zero_of_dvd
      exact ⟨c * (X + r) + d, by linear_combination (X + r) * hc + hd⟩

/-- `sqrootmod(x, a, n)` on the factor list of `n = ∏ p_i^e_i` (pairwise coprime prime powers): a returned value other
    than -1 squares to `a` modulo `n`.  `hcomp` is the soundness of the per-prime-power computations
    (`sqrootmodprimepower_sound`, `sqrootmodpoweroftwo_sound`); `hinv` the contract of `mpz_invert` used by the CRT. -/
theorem sqrootmod_sound (rnd : Nat → Int) (a : Int) (fs : List (Int × Nat))
    (hinv : ∀ z m : Int, IsCoprime z m → (z * invmod z m - 1) % m = 0)
    (hpw : List.Pairwise (fun x y : Int × Nat => IsCoprime (x.1 ^ x.2) (y.1 ^ y.2)) fs)
    (hcomp : ∀ pe ∈ fs, ∀ r, sqrtComponent rnd a pe = some r → r ≠ -1 → (r * r - a) % pe.1 ^ pe.2 = 0)
    (res : Int) (h : sqrootmodL rnd a fs = some res) (hne : res ≠ -1) :
    (res * res - a) % (fs.map (fun pe => pe.1 ^ pe.2)).prod = 0 := by
  apply Int.emod_eq_zero_of_dvd
  apply prod_dvd_of_pairwise_coprime
  · rw [List.pairwise_map]; exact hpw
  · intro m hm
    obtain ⟨pe, hpe, rfl⟩ := List.mem_map.mp hm
    exact Int.dvd_of_emod_eq_zero (sqrootmodL_sound_components rnd a fs hinv hpw hcomp res h hne pe hpe)

/-- the per-component hypothesis of `sqrootmod_sound` discharged from the two whole-function theorems: every `p ≠ 2` of the
    list is an odd prime at which `sqrootmodprime` is sound, every exponent is ≥ 1 -/
theorem sqrootmod_sound_of_parts (rnd : Nat → Int) (a : Int) (fs : List (Int × Nat))
    (hinv : ∀ z m : Int, IsCoprime z m → (z * invmod z m - 1) % m = 0)
    (hpw : List.Pairwise (fun x y : Int × Nat => IsCoprime (x.1 ^ x.2) (y.1 ^ y.2)) fs)
    (hfs : ∀ pe ∈ fs, 1 ≤ pe.2 ∧ (pe.1 ≠ 2 → Prime pe.1 ∧ ¬ pe.1 ∣ 2 ∧
      ∀ a' r, sqrootmodprime rnd a' pe.1 = some r → r ≠ -1 → (r * r - a') % pe.1 = 0))
    (res : Int) (h : sqrootmodL rnd a fs = some res) (hne : res ≠ -1) :
    (res * res - a) % (fs.map (fun pe => pe.1 ^ pe.2)).prod = 0 := by
  refine sqrootmod_sound rnd a fs hinv hpw ?_ res h hne
  intro pe hpe r hr hr1
  obtain ⟨hk, hodd⟩ := hfs pe hpe
  unfold sqrtComponent at hr
  split at hr
  · next h2 =>
    rw [h2] at hr ⊢
    exact sqrootmodpoweroftwo_sound hinv _ a pe.2 r hk hr hr1
  · next h2 =>
    obtain ⟨hp, hp2, hprime⟩ := hodd h2
    exact sqrootmodprimepower_sound rnd pe.1 hp hp2 hprime hinv _ a pe.2 r hk hr hr1

/-! ## the `mpz_legendre` contract form of the prime-level theorem; sums of two squares modulo p -/

theorem leastNonresidue_spec (p : Int) : ∀ (fuel : Nat) (s l : Int), leastNonresidue p fuel s = some l → legendre l p = -1 := by
  intro fuel
  induction fuel with
  | zero => intro s l h; simp [leastNonresidue] at h
  | succ n ih =>
    intro s l h
    rw [leastNonresidue] at h
    split at h
    · next hs => injection h with h; rw [← h]; exact hs
    · exact ih _ _ h

/-- `sumofsquaresmodprimewithnonresidue(a, b, k, s, p)`: unless one of its two square-root calls reported -1, the returned pair
    satisfies `a² + b² ≡ k (mod p)`.  Hypotheses: soundness of `sqrootmodprime` at `p` and `mpz_invert` returning the inverse of `s`. -/
theorem sosqWithNonresidue_sound (rnd : Nat → Int) (k s p : Int)
    (hprime : ∀ a' r, sqrootmodprime rnd a' p = some r → r ≠ -1 → (r * r - a') % p = 0)
    (hinvs : (s * invmod s p - 1) % p = 0) (a b : Int)
    (h : sosqWithNonresidue rnd k s p = some (a, b)) :
    sqrootmodprime rnd (s - 1) p = some (-1) ∨ a = -1 ∨ (a * a + b * b - k) % p = 0 := by
  unfold sosqWithNonresidue at h
  simp only [] at h
  split at h
  · simp at h
  · next b0 hb0 =>
    split at h
    · simp at h
    · next a0 ha0 =>
      simp only [Option.some.injEq, Prod.mk.injEq] at h
      obtain ⟨h1, h2⟩ := h
      subst h1
      by_cases hb1 : b0 = -1
      · left; rw [hb0, hb1]
      by_cases ha1 : a0 = -1
      · right; left; exact ha1
      right; right
      obtain ⟨c1, hc1⟩ := Int.dvd_of_emod_eq_zero (hprime _ _ hb0 hb1)
      obtain ⟨c2, hc2⟩ := Int.dvd_of_emod_eq_zero (hprime _ _ ha0 ha1)
      obtain ⟨e, he⟩ := Int.dvd_of_emod_eq_zero hinvs
      obtain ⟨d, hd⟩ := tmod_exists (b0 * a0) p
      have hr : k * invmod s p % p = k * invmod s p - p * (k * invmod s p / p) := by
        have := Int.emod_add_mul_ediv (k * invmod s p) p; linarith
      rw [hr] at hc2
      rw [← h2, hd]
      apply Int.emod_eq_zero_of_dvd
      generalize k * invmod s p / p = q at hc2
      generalize invmod s p = il at hc2 he
      refine ⟨k * e - q * s + c2 * s + a0 * a0 * c1 - 2 * b0 * a0 * d + p * d * d, ?_⟩
      linear_combination (a0 * a0) * hc1 + s * hc2 + k * he

/-- `sumofsquaresmodprime(a, b, k, p)` (= `…Deterministic`): unless a square-root call reported -1 (which the
    `mpz_legendre` tests made before each call exclude for a correct `sqrootmodprime`), `a² + b² ≡ k (mod p)` -/
theorem sosqDeterministic_sound (rnd : Nat → Int) (k p : Int)
    (hprime : ∀ a' r, sqrootmodprime rnd a' p = some r → r ≠ -1 → (r * r - a') % p = 0)
    (hinv : ∀ s : Int, legendre s p = -1 → (s * invmod s p - 1) % p = 0) (a b : Int)
    (h : sosqDeterministic rnd k p = some (a, b)) :
    a = -1 ∨ b = -1 ∨ (∃ s, sqrootmodprime rnd (s - 1) p = some (-1)) ∨ (a * a + b * b - k) % p = 0 := by
  unfold sosqDeterministic at h
  simp only [] at h
  split at h
  · next h0 =>
    simp only [Option.some.injEq, Prod.mk.injEq] at h
    right; right; right
    rw [← h.1, ← h.2]
    apply Int.emod_eq_zero_of_dvd
    simpa using Int.dvd_of_emod_eq_zero h0
  · split at h
    · cases hs : sqrootmodprime rnd (k % p) p with
      | none => rw [hs] at h; simp at h
      | some a0 =>
        rw [hs] at h
        simp only [Option.map_some, Option.some.injEq, Prod.mk.injEq] at h
        by_cases ha1 : a0 = -1
        · left; rw [← h.1]; exact ha1
        right; right; right
        have := hprime _ _ hs ha1
        rw [← h.1, ← h.2]
        have h2 := sub_emod_emod _ _ _ this
        simpa using h2
    · split at h
      · cases hs : sqrootmodprime rnd (k % p - 1) p with
        | none => rw [hs] at h; simp at h
        | some b0 =>
          rw [hs] at h
          simp only [Option.map_some, Option.some.injEq, Prod.mk.injEq] at h
          by_cases hb1 : b0 = -1
          · right; left; rw [← h.2]; exact hb1
          right; right; right
          obtain ⟨c, hc⟩ := Int.dvd_of_emod_eq_zero (hprime _ _ hs hb1)
          rw [← h.1, ← h.2]
          apply sub_emod_emod
          apply Int.emod_eq_zero_of_dvd
          exact ⟨c, by linear_combination hc⟩
      · split at h
        · simp at h
        · next l hl =>
          have hleg : legendre l p = -1 := leastNonresidue_spec p _ _ _ hl
          rcases sosqWithNonresidue_sound rnd (k % p) l p hprime (hinv l hleg) a b h with h1 | h1 | h1
          · right; right; left; exact ⟨l, h1⟩
          · left; exact h1
          · right; right; right; exact sub_emod_emod _ _ _ (by
              obtain ⟨c, hc⟩ := Int.dvd_of_emod_eq_zero h1
              apply Int.emod_eq_zero_of_dvd
              exact ⟨c, by linear_combination hc⟩)

/-! ## logp, integer roots -/

/-- **`logp(a, p)` is the floor of the base-`p` logarithm** for every `a ≥ 1` and `p ≥ 2` (no size bound; the machine `int64_t`
    accumulator is exact as long as the result is below 2^31, i.e. always in practice) -/
theorem logp_exact (a p : Int) (hp : 2 ≤ p) (ha : 1 ≤ a) :
    ∃ r : Nat, logp a p = (r : Int) ∧ p ^ r ≤ a ∧ a < p ^ (r + 1) := by
  unfold logp
  by_cases hlt : a < p
  · rw [if_pos hlt]; exact ⟨0, rfl, by simpa using ha, by simpa using hlt⟩
  · rw [if_neg hlt]
    have h1 : p ^ (2 ^ 0) ≤ a := by simpa using (not_lt.mp hlt)
    have hfuel : a < p ^ (2 ^ (0 + (a.natAbs.log2 + 2))) := by
      have hA : a = (a.natAbs : Int) := by omega
      have h2 : a.natAbs < 2 ^ (a.natAbs.log2 + 1) := Nat.lt_log2_self
      have h3 : a.natAbs.log2 + 1 ≤ 2 ^ (a.natAbs.log2 + 2) := by
        have := @Nat.lt_two_pow_self (a.natAbs.log2 + 2); omega
      have h4 : (2 : Nat) ^ (a.natAbs.log2 + 1) ≤ 2 ^ (2 ^ (a.natAbs.log2 + 2)) := Nat.pow_le_pow_right (by norm_num) h3
      have h5 : (a : Int) < 2 ^ (2 ^ (a.natAbs.log2 + 2)) := by
        rw [hA]; exact_mod_cast lt_of_lt_of_le h2 h4
      have h6 : (2 : Int) ^ (2 ^ (a.natAbs.log2 + 2)) ≤ p ^ (2 ^ (a.natAbs.log2 + 2)) := pow_le_pow_left₀ (by norm_num) hp _
      rw [Nat.zero_add]; omega
    obtain ⟨m, hm1, hm2, hm3⟩ := logpBuild_spec a p (a.natAbs.log2 + 2) 0 h1 hfuel
    have hb : logpBuild (a.natAbs.log2 + 2) a p [] = powList p (m + 1) := by
      have : logpBuild (a.natAbs.log2 + 2) a (p ^ (2 ^ 0)) (powList p 0) = logpBuild (a.natAbs.log2 + 2) a p [] := by
        simp [powList]
      rw [← this]; exact hm1
    rw [hb]
    simp only [powList, powList_length]
    have hc : ((2 : Int) ^ m) = ((2 ^ m : Nat) : Int) := by push_cast; rfl
    rw [hc]
    exact logpDown_spec a p m (2 ^ m) hm2 (by rw [← two_mul, ← pow_succ']; exact hm3)

example : (2 : Int) ≤ 3 ∧ (1 : Int) ≤ 100 := by decide

/-- the floor-square-root certificate decides exactly the defining inequalities, and they determine `q` -/
theorem isqrt_certificate (a q : Int) : isqrtChk a q = true ↔ 0 ≤ q ∧ q * q ≤ a ∧ a < (q + 1) * (q + 1) := by
  simp [isqrtChk, and_assoc]

theorem isqrt_certificate_unique (a q q' : Int) (h : isqrtChk a q = true) (h' : isqrtChk a q' = true) : q = q' := by
  rw [isqrt_certificate] at h h'
  obtain ⟨h0, h1, h2⟩ := h
  obtain ⟨h0', h1', h2'⟩ := h'
  by_contra hne
  rcases lt_or_gt_of_ne hne with hlt | hgt
  · have : q + 1 ≤ q' := by omega
    nlinarith
  · have : q' + 1 ≤ q := by omega
    nlinarith

/-- the `logp` certificate is the floor-logarithm property proved for the model in `logp_exact` -/
theorem logp_certificate (a p r : Int) : logpChk a p r = true ↔ 0 ≤ r ∧ p ^ r.toNat ≤ a ∧ a < p ^ (r.toNat + 1) := by
  simp [logpChk, and_assoc]

/-! ## certificates (outputs the property does not determine are decided by these checkers) -/

theorem sqrt_certificate (a x n : Int) : sqrtChk a x n = true ↔ (x * x - a) % n = 0 := by
  simp [sqrtChk]

theorem two_squares_certificate (a b p : Int) : twoSquaresChk a b p = true ↔ a * a + b * b = p := by
  simp [twoSquaresChk]

theorem two_squares_mod_certificate (a b k p : Int) : twoSquaresModChk a b k p = true ↔ (a * a + b * b - k) % p = 0 := by
  simp [twoSquaresModChk]

/-! ## Euler phi -/

/-- `phi(res, Lf, n)` returns Euler's totient of `n` whenever `Lf` lists the prime divisors of `n` (each once, any order):
    every `n`, no size bound.  (`phi(res, n)` obtains `Lf` from `IntFactorDom::set`, property C12.) -/
theorem phi_exact (n : Nat) (Lf : List Nat) (hnd : Lf.Nodup) (hmem : ∀ q, q ∈ Lf ↔ q ∈ n.primeFactors) :
    phiL (Lf.map (Nat.cast : Nat → Int)) n = (Nat.totient n : Int) := by
  unfold phiL
  by_cases h1 : n ≤ 1
  · have : (n : Int) ≤ 1 := by exact_mod_cast h1
    simp only [this, ↓reduceIte]
    have : n = 0 ∨ n = 1 := by omega
    rcases this with h | h <;> subst h <;> simp
  · have h1' : ¬ (n : Int) ≤ 1 := by exact_mod_cast h1
    simp only [h1', ↓reduceIte]
    by_cases h3 : n ≤ 3
    · have : (n : Int) ≤ 3 := by exact_mod_cast h3
      simp only [this, ↓reduceIte]
      have : n = 2 ∨ n = 3 := by omega
      rcases this with h | h <;> subst h
      · simp
      · rw [Nat.totient_prime Nat.prime_three]; norm_num
    · have h3' : ¬ (n : Int) ≤ 3 := by exact_mod_cast h3
      simp only [h3', ↓reduceIte]
      have hpos : ∀ f ∈ Lf, 0 < f := fun f hf => (Nat.prime_of_mem_primeFactors ((hmem f).mp hf)).pos
      have hfin : Lf.toFinset = n.primeFactors := by ext q; simp [hmem]
      have hprod : Lf.prod = ∏ p ∈ n.primeFactors, p := by
        rw [← hfin, List.prod_toFinset _ hnd]; simp
      have hprod1 : (Lf.map (fun f => f - 1)).prod = ∏ p ∈ n.primeFactors, (p - 1) := by
        rw [← hfin, List.prod_toFinset _ hnd]
      rw [phiLoop_cast _ _ hpos, phiLoop_nat _ _ hpos (by rw [hprod]; exact Nat.prod_primeFactors_dvd n),
        hprod, hprod1, ← Nat.totient_eq_div_primeFactors_mul]

example : [3, 2].Nodup ∧ ∀ q, q ∈ [3, 2] ↔ q ∈ (12 : Nat).primeFactors := by
  refine ⟨by decide, ?_⟩
  have : (12 : Nat).primeFactors = {2, 3} := by decide +kernel
  intro q; rw [this]; simp; tauto

/-! ## multiplicative order, primitive-root test -/

/-- `order(g, p, n)` returns the multiplicative order of `p` in `Z/n` — `orderOf`, which is 0 exactly when `p` is not a unit —
    for every `p` and every modulus `n ≥ 2`, given that the factor list of `φ(n)` is well formed. -/
theorem order_exact (a : Int) (n : Nat) (hn : 2 ≤ n) (Lf : List Nat) (hF : PhiFactors n Lf) :
    order a n = (orderOf (a : ZMod n) : Int) := by
  have : Fact (1 < n) := ⟨by omega⟩
  have hz : ((a % (n : Int) : Int) : ZMod n) = (a : ZMod n) := ZMod.intCast_mod a n
  unfold order
  simp only []
  split
  · next h0 =>
    have : (a : ZMod n) = 0 := by rw [← hz, h0]; simp
    rw [this]
    have : orderOf (0 : ZMod n) = 0 := by
      rw [orderOf_eq_zero_iff']; intro k hk; rw [zero_pow (by omega)]; exact zero_ne_one
    rw [this]; rfl
  · split
    · next h1 =>
      have : (a : ZMod n) = 1 := by rw [← hz, h1]; simp
      rw [this, orderOf_one]; rfl
    · split
      · next hc =>
        have hP : ∀ e : Nat, powmod (a % (n : Int)) e n = 1 ↔ (a : ZMod n) ^ e = 1 := by
          intro e; rw [powmod_eq_one_iff _ n hn, hz]
        have hphi0 : 0 < n.totient := Nat.totient_pos.mpr (by omega)
        have hxphi := pow_totient_of_coprime a n hn hc
        rw [hF.list_eq, hF.phi_eq]
        have h2 : ∀ f ∈ Lf, 2 ≤ f := fun f hf => (hF.prime f hf).two_le
        split
        · next hnone =>
          have hne := firstHit_none (a : ZMod n) _ hP n.totient Lf (fun f hf => by have := h2 f hf; omega) hnone
          have := orderOf_eq_of_pow_and_pow_div_prime hphi0 hxphi
            (fun q hq hd => hne q (hF.all q hq hd))
          rw [this]
        · next g rest hsome =>
          obtain ⟨l1, fh, l2, e1, e2, e3, e4, e5⟩ := firstHit_some (a : ZMod n) _ hP n.totient Lf g rest hsome
          have hfh : fh ∈ Lf := by rw [e1]; simp
          have hfd : fh ∣ n.totient := hF.dvd fh hfh
          have hg0 : 0 < n.totient / fh := Nat.div_pos (Nat.le_of_dvd hphi0 hfd) (by have := h2 fh hfh; omega)
          rw [e2, e3]
          obtain ⟨G', r1, r2, r3, r4, r5⟩ := stripAll_spec (a : ZMod n) _ hP (fh :: l2) (n.totient / fh)
            (fun f hf => h2 f (by rw [e1]; simp only [List.mem_append]; exact Or.inr hf)) hg0 e5
          rw [r1]
          have hGphi : G' ∣ n.totient := dvd_trans r3 (Nat.div_dvd_of_dvd hfd)
          have := orderOf_eq_of_pow_and_pow_div_prime r2 r4 (fun q hq hd => by
            have hqL : q ∈ Lf := hF.all q hq (dvd_trans hd hGphi)
            rw [e1] at hqL
            rcases List.mem_append.mp hqL with h | h
            · have hgood : Good (a : ZMod n) q n.totient := fun _ => e4 q h
              exact (Good.mono _ r2 hq.pos hGphi hgood) hd
            · exact r5 q h hd)
          rw [this]
      · next hc =>
        rw [orderOf_eq_zero_of_not_coprime a n hn hc]; rfl

/-- `is_prim_root(p, n)` is true exactly when `p` has order `φ(n)` in `Z/n` (in particular `p` is a unit), every `p`, `n ≥ 2` -/
theorem is_prim_root_iff (a : Int) (n : Nat) (hn : 2 ≤ n) (Lf : List Nat) (hF : PhiFactors n Lf) :
    isPrimRoot a n = true ↔ orderOf (a : ZMod n) = n.totient := by
  have hz : ((a % (n : Int) : Int) : ZMod n) = (a : ZMod n) := ZMod.intCast_mod a n
  have hphi0 : 0 < n.totient := Nat.totient_pos.mpr (by omega)
  unfold isPrimRoot
  simp only []
  split
  · next hc =>
    have hP : ∀ e : Nat, powmod (a % (n : Int)) e n = 1 ↔ (a : ZMod n) ^ e = 1 := by
      intro e; rw [powmod_eq_one_iff _ n hn, hz]
    have hxphi := pow_totient_of_coprime a n hn hc
    rw [hF.list_eq, hF.phi_eq]
    have hall : (List.map (Nat.cast : Nat → Int) Lf).all (fun f => powmod (a % (n : Int)) (Int.tdiv (n.totient : Int) f).toNat n != 1) = true
        ↔ ∀ f ∈ Lf, (a : ZMod n) ^ (n.totient / f) ≠ 1 := by
      simp only [List.all_eq_true, List.mem_map, forall_exists_index, and_imp, forall_apply_eq_imp_iff₂, bne_iff_ne, ne_eq]
      constructor
      · intro h f hf hx
        apply h f hf
        have htd : Int.tdiv (n.totient : Int) (f : Int) = ((n.totient / f : Nat) : Int) := by
          rw [Int.tdiv_eq_ediv_of_nonneg (by positivity)]; norm_cast
        rw [htd, Int.toNat_natCast, hP]; exact hx
      · intro h f hf hx
        apply h f hf
        have htd : Int.tdiv (n.totient : Int) (f : Int) = ((n.totient / f : Nat) : Int) := by
          rw [Int.tdiv_eq_ediv_of_nonneg (by positivity)]; norm_cast
        rw [htd, Int.toNat_natCast, hP] at hx; exact hx
    rw [hall]
    constructor
    · intro h
      exact orderOf_eq_of_pow_and_pow_div_prime hphi0 hxphi (fun q hq hd => h q (hF.all q hq hd))
    · intro h f hf hx
      have hfp := hF.prime f hf
      have hfd := hF.dvd f hf
      have hd : orderOf (a : ZMod n) ∣ n.totient / f := orderOf_dvd_of_pow_eq_one hx
      rw [h] at hd
      have hpos : 0 < n.totient / f := Nat.div_pos (Nat.le_of_dvd hphi0 hfd) hfp.pos
      have hle := Nat.le_of_dvd hpos hd
      have hlt : n.totient / f < n.totient := Nat.div_lt_self hphi0 hfp.one_lt
      omega
  · next hc =>
    rw [orderOf_eq_zero_of_not_coprime a n hn hc]
    constructor
    · intro h; exact absurd h (by simp)
    · intro h; omega

/-- `isorder(g, p, n)` is true exactly when `g` is the order of `p` in `Z/n` (`g = 0`: `p` is not a unit) -/
theorem isorder_iff (g : Nat) (a : Int) (n : Nat) (hn : 2 ≤ n) (Lf : List Nat) (hF : PhiFactors n Lf) :
    isOrder g a n = true ↔ orderOf (a : ZMod n) = g := by
  unfold isOrder
  rw [order_exact a n hn Lf hF, Int.toNat_natCast]
  simp only [Bool.and_eq_true, beq_iff_eq]
  constructor
  · rintro ⟨_, h2⟩; exact_mod_cast h2.symm
  · intro h
    refine ⟨?_, by rw [h]⟩
    rw [powmod_eq_one_iff a n hn, ← h, pow_orderOf_eq_one]

example : PhiFactors 7 [2, 3] :=
  ⟨by decide +kernel, by decide +kernel, by decide, by decide +kernel, by
    intro q hq hd
    have h6 : (7 : Nat).totient = 6 := by decide +kernel
    rw [h6] at hd
    have hle := Nat.le_of_dvd (by norm_num) hd
    interval_cases q <;> simp_all (config := {decide := true})⟩

/-! ## primitive-root search: `lowest_prim_root`, `prim_root` modulo a prime -/

/-- the primitive-root test used by `lowest_prim_root` and `prim_root` (`gcd(A,n) = 1` and `A^(φ/f) ≠ 1` for every listed prime
    factor `f` of `φ(n)`) holds exactly when `A` has order `φ(n)` in `Z/n` -/
theorem primTest_iff_order (A : Int) (n : Nat) (hn : 2 ≤ n) (Lf : List Nat) (hF : PhiFactors n Lf) :
    (Int.gcd A n = 1 ∧ primTest n ((primeFactors (phi n)).map (fun f => Int.tdiv (phi n) f)) A = true)
      ↔ orderOf (A : ZMod n) = n.totient := by
  have hphi0 : 0 < n.totient := Nat.totient_pos.mpr (by omega)
  by_cases hc : Int.gcd A n = 1
  · have hc' : Int.gcd (A % (n : Int)) n = 1 := by rw [Int.gcd_emod]; exact hc
    have hxphi := pow_totient_of_coprime A n hn hc'
    have hP : ∀ e : Nat, powmod A e n = 1 ↔ (A : ZMod n) ^ e = 1 := fun e => powmod_eq_one_iff A n hn e
    rw [hF.list_eq, hF.phi_eq]
    have hall : primTest n ((List.map (Nat.cast : Nat → Int) Lf).map (fun f => Int.tdiv (n.totient : Int) f)) A = true
        ↔ ∀ f ∈ Lf, (A : ZMod n) ^ (n.totient / f) ≠ 1 := by
      unfold primTest
      simp only [List.all_eq_true, List.mem_map, forall_exists_index, and_imp, forall_apply_eq_imp_iff₂, bne_iff_ne, ne_eq]
      constructor
      · intro h f hf hx
        apply h f hf
        have htd : Int.tdiv (n.totient : Int) (f : Int) = ((n.totient / f : Nat) : Int) := by
          rw [Int.tdiv_eq_ediv_of_nonneg (by positivity)]; norm_cast
        rw [htd, Int.toNat_natCast, hP]; exact hx
      · intro h f hf hx
        apply h f hf
        have htd : Int.tdiv (n.totient : Int) (f : Int) = ((n.totient / f : Nat) : Int) := by
          rw [Int.tdiv_eq_ediv_of_nonneg (by positivity)]; norm_cast
        rw [htd, Int.toNat_natCast, hP] at hx; exact hx
    rw [hall]
    constructor
    · rintro ⟨_, h⟩
      exact orderOf_eq_of_pow_and_pow_div_prime hphi0 hxphi (fun q hq hd => h q (hF.all q hq hd))
    · intro h
      refine ⟨hc, ?_⟩
      intro f hf hx
      have hfp := hF.prime f hf
      have hfd := hF.dvd f hf
      have hd : orderOf (A : ZMod n) ∣ n.totient / f := orderOf_dvd_of_pow_eq_one hx
      rw [h] at hd
      have hpos : 0 < n.totient / f := Nat.div_pos (Nat.le_of_dvd hphi0 hfd) hfp.pos
      have hle := Nat.le_of_dvd hpos hd
      have hlt : n.totient / f < n.totient := Nat.div_lt_self hphi0 hfp.one_lt
      omega
  · have hc' : Int.gcd (A % (n : Int)) n ≠ 1 := by rw [Int.gcd_emod]; exact hc
    rw [orderOf_eq_zero_of_not_coprime A n hn hc']
    constructor
    · rintro ⟨h, _⟩; exact absurd h hc
    · intro h; omega

theorem lowestGo_spec (n : Int) (exps : List Int) : ∀ (fuel : Nat) (A0 : Int),
    let T := fun B : Int => Int.gcd B n = 1 ∧ exps.all (fun f => powmod B f.toNat n != 1) = true
    (lowestGo n exps fuel A0 = 0 ∧ ∀ B, A0 ≤ B → B < A0 + fuel → B ≤ n → ¬ T B) ∨
    (A0 ≤ lowestGo n exps fuel A0 ∧ lowestGo n exps fuel A0 ≤ n ∧ T (lowestGo n exps fuel A0) ∧
      ∀ B, A0 ≤ B → B < lowestGo n exps fuel A0 → ¬ T B) := by
  intro fuel
  induction fuel with
  | zero => intro A0 T; left; exact ⟨rfl, fun B h1 h2 => by simp at h2; omega⟩
  | succ k ih =>
    intro A0 T
    rw [lowestGo]
    by_cases hle : A0 ≤ n
    · rw [if_pos hle]
      by_cases ht : Int.gcd A0 n = 1 ∧ exps.all (fun f => powmod A0 f.toNat n != 1) = true
      · rw [if_pos ht]
        right; exact ⟨le_refl _, hle, ht, fun B h1 h2 => by omega⟩
      · rw [if_neg ht]
        rcases ih (A0 + 1) with ⟨h0, hall⟩ | ⟨h1, h2, h3, h4⟩
        · left; refine ⟨h0, ?_⟩
          intro B hb1 hb2 hb3
          by_cases hB : B = A0
          · rw [hB]; exact ht
          · exact hall B (by omega) (by push_cast at hb2 ⊢; omega) hb3
        · right; refine ⟨by omega, h2, h3, ?_⟩
          intro B hb1 hb2
          by_cases hB : B = A0
          · rw [hB]; exact ht
          · exact h4 B (by omega) hb2
    · rw [if_neg hle]
      left; exact ⟨rfl, fun B h1 _ h3 => by omega⟩

/-- **`lowest_prim_root(A, n)`** for `n ≥ 5`, `4 ∤ n`: the result is the least `A ∈ [2, n]` of order `φ(n)` in `Z/n`
    (a primitive root), and `0` exactly when no element of `[2, n]` is a primitive root -/
theorem lowest_prim_root_spec (n : Nat) (hn : 5 ≤ n) (h4 : n % 4 ≠ 0) (Lf : List Nat) (hF : PhiFactors n Lf) :
    (lowestPrimRoot n = 0 ∧ ∀ B : Int, 2 ≤ B → B ≤ n → orderOf (B : ZMod n) ≠ n.totient) ∨
    (2 ≤ lowestPrimRoot n ∧ lowestPrimRoot n ≤ n ∧ orderOf ((lowestPrimRoot n : Int) : ZMod n) = n.totient ∧
      ∀ B : Int, 2 ≤ B → B < lowestPrimRoot n → orderOf (B : ZMod n) ≠ n.totient) := by
  have hn2 : 2 ≤ n := by omega
  have hT : ∀ B : Int, (Int.gcd B n = 1 ∧ ((primeFactors (phi n)).map (fun f => Int.tdiv (phi n) f)).all (fun f => powmod B f.toNat n != 1) = true)
      ↔ orderOf (B : ZMod n) = n.totient := fun B => primTest_iff_order B n hn2 Lf hF
  unfold lowestPrimRoot
  rw [if_neg (by omega), if_neg (by omega)]
  simp only []
  have := lowestGo_spec n ((primeFactors (phi n)).map (fun f => Int.tdiv (phi n) f)) (n : Int).toNat 2
  simp only [] at this
  rcases this with ⟨h0, hall⟩ | ⟨h1, h2, h3, h4'⟩
  · left; refine ⟨h0, ?_⟩
    intro B hb1 hb2
    intro hc
    exact hall B hb1 (by rw [Int.toNat_natCast]; omega) hb2 ((hT B).mpr hc)
  · right; refine ⟨h1, h2, (hT _).mp h3, ?_⟩
    intro B hb1 hb2
    intro hc
    exact h4' B hb1 hb2 ((hT B).mpr hc)

theorem gcd_small_prime (p : Nat) (hp : p.Prime) (c : Nat) (hc0 : 0 < c) (hcp : c < p) : Int.gcd (c : Int) (p : Int) = 1 := by
  rw [Int.gcd_natCast_natCast]
  exact Nat.Coprime.symm ((Nat.Prime.coprime_iff_not_dvd hp).mpr (Nat.not_dvd_of_pos_of_lt hc0 hcp))

/-- **`prim_root(A, n)` for a prime `n = p ≥ 7`**: whatever the random draws, a returned value is a primitive root modulo `p`
    (order `φ(p) = p - 1`).  `hpf`: the factorisation oracle answers `[p]` on the prime `p`; `hF`: factor list of `φ(p)` well formed. -/
theorem prim_root_prime_correct (rnd : Nat → Int) (p : Nat) (hp : p.Prime) (h7 : 7 ≤ p)
    (hpf : primeFactors (p : Int) = [(p : Int)]) (Lf : List Nat) (hF : PhiFactors p Lf)
    (A : Int) (h : primRoot rnd p = some A) : orderOf (A : ZMod p) = p.totient := by
  have hodd : p % 2 = 1 := by
    rcases hp.eq_two_or_odd with h2 | h2
    · omega
    · exact h2
  unfold primRoot at h
  rw [if_neg (by omega), if_neg (by omega)] at h
  simp only [] at h
  rw [if_neg (by omega), hpf] at h
  simp only [Option.map_eq_some_iff] at h
  obtain ⟨A0, hA0, hfin⟩ := h
  have hAA : A = A0 := by
    rw [← hfin]; unfold primRootFinish
    have : ¬ ((p : Int) % 2 = 0) := by omega
    simp [this]
  rw [hAA]
  apply (primTest_iff_order A0 p (by omega) Lf hF).mp
  unfold primRootCand at hA0
  split at hA0
  · next A1 hfind =>
    injection hA0 with hA0; subst hA0
    have hmem := List.mem_of_find?_eq_some hfind
    have htest := List.find?_some hfind
    refine ⟨?_, htest⟩
    simp only [List.mem_cons, List.not_mem_nil, or_false] at hmem
    rcases hmem with h | h | h | h <;> subst h
    · exact gcd_small_prime p hp 2 (by norm_num) (by omega)
    · exact gcd_small_prime p hp 3 (by norm_num) (by omega)
    · exact gcd_small_prime p hp 5 (by norm_num) (by omega)
    · exact gcd_small_prime p hp 6 (by norm_num) (by omega)
  · obtain ⟨hstop, _⟩ := firstDraw_spec _ _ _ _ _ hA0
    simp only [Bool.and_eq_true, beq_iff_eq] at hstop
    exact hstop

/-! ## `prim_root` for n = p^k and n = 2p^k: the lifting theorem for primitive roots and the `A += p` correction -/

/-- `(A + p)^(m+1) ≡ A^(m+1) + (m+1)·A^m·p (mod p²)` -/
theorem add_pow_mod_sq (A p : Int) : ∀ m : Nat, ∃ t : Int, (A + p) ^ (m + 1) = A ^ (m + 1) + (m + 1) * A ^ m * p + p ^ 2 * t := by
  intro m
  induction m with
  | zero => exact ⟨0, by ring⟩
  | succ m ih =>
    obtain ⟨t, ht⟩ := ih
    refine ⟨(A + p) * t + (m + 1) * A ^ m, ?_⟩
    rw [pow_succ, ht]; push_cast; ring

/-- the order modulo `p` divides the order modulo any multiple of `p` -/
theorem orderOf_dvd_of_dvd_modulus (g : Int) (M N : Nat) (hMN : M ∣ N) :
    orderOf (g : ZMod M) ∣ orderOf (g : ZMod N) := by
  apply orderOf_dvd_of_pow_eq_one
  have h := pow_orderOf_eq_one (g : ZMod N)
  have := congrArg (ZMod.castHom hMN (ZMod M)) h
  rw [map_pow, map_intCast, map_one] at this
  exact this

/-- **lifting of primitive roots**: a primitive root `g` modulo the odd prime `p` with `g^(p-1) = 1 + p·c`, `p ∤ c`
    (i.e. `g^(p-1) ≢ 1 mod p²`) has order `p^n (p-1) = φ(p^(n+1))` modulo `p^(n+1)`, for every `n` -/
theorem orderOf_prime_pow_of_lift (p : Nat) (hp : p.Prime) (hp2 : p ≠ 2) (g c : Int)
    (hord : orderOf (g : ZMod p) = p - 1) (hc : g ^ (p - 1) = 1 + p * c) (hcp : ¬ (p : Int) ∣ c) (n : Nat) :
    orderOf (g : ZMod (p ^ (n + 1))) = p ^ n * (p - 1) := by
  have hp1 : 0 < p - 1 := by have := hp.two_le; omega
  have hx : ((g : ZMod (p ^ (n + 1)))) ^ (p - 1) = 1 + (p : ZMod (p ^ (n + 1))) * (c : ZMod (p ^ (n + 1))) := by
    have := congrArg (fun z : Int => (z : ZMod (p ^ (n + 1)))) hc
    simpa using this
  have h1 : orderOf ((g : ZMod (p ^ (n + 1))) ^ (p - 1)) = p ^ n := by
    rw [hx]; exact ZMod.orderOf_one_add_mul_prime hp hp2 c hcp n
  have hdvd : (p - 1) ∣ orderOf (g : ZMod (p ^ (n + 1))) := by
    rw [← hord]; exact orderOf_dvd_of_dvd_modulus g p (p ^ (n + 1)) (dvd_pow_self p (by omega))
  rw [orderOf_pow' _ (by omega : p - 1 ≠ 0), Nat.gcd_eq_right hdvd] at h1
  rw [← h1, Nat.div_mul_cancel hdvd]

/-- the correction step of `prim_root`: for a primitive root `A` modulo the odd prime `p`, one of `A`, `A + p` is a primitive root
    modulo `p^(n+1)`; precisely, if `A` is not, then `A + p` is -/
theorem prim_root_correction (p : Nat) (hp : p.Prime) (hp2 : p ≠ 2) (A : Int)
    (hord : orderOf (A : ZMod p) = p - 1) (n : Nat)
    (hnot : orderOf (A : ZMod (p ^ (n + 1))) ≠ p ^ n * (p - 1)) :
    orderOf ((A + p : Int) : ZMod (p ^ (n + 1))) = p ^ n * (p - 1) := by
  have := Fact.mk hp
  have hp1 : 2 ≤ p - 1 := by have := hp.two_le; omega
  have hpI : Prime (p : Int) := Nat.prime_iff_prime_int.mp hp
  -- A^(p-1) = 1 + p c
  have h1 : (A : ZMod p) ^ (p - 1) = 1 := by rw [← hord]; exact pow_orderOf_eq_one _
  have hdvd : (p : Int) ∣ A ^ (p - 1) - 1 := by
    rw [← ZMod.intCast_zmod_eq_zero_iff_dvd]; push_cast; rw [h1]; simp
  obtain ⟨c, hc⟩ := hdvd
  have hc' : A ^ (p - 1) = 1 + p * c := by linarith
  have hcp : (p : Int) ∣ c := by
    by_contra hcn
    exact hnot (orderOf_prime_pow_of_lift p hp hp2 A c hord hc' hcn n)
  -- p ∤ A
  have hA : ¬ (p : Int) ∣ A := by
    intro hd
    have : (A : ZMod p) = 0 := (ZMod.intCast_zmod_eq_zero_iff_dvd A p).mpr hd
    rw [this] at hord
    have h0 : orderOf (0 : ZMod p) = 0 := by
      rw [orderOf_eq_zero_iff']; intro k hk; rw [zero_pow (by omega)]; exact zero_ne_one
    omega
  -- (A+p)^(p-1) = 1 + p c'
  obtain ⟨t, ht⟩ := add_pow_mod_sq A p (p - 2)
  have e : p - 2 + 1 = p - 1 := by omega
  rw [e] at ht
  obtain ⟨c0, hc0⟩ := hcp
  have hAp : ((A + p : Int) : ZMod p) = (A : ZMod p) := by push_cast; simp
  apply orderOf_prime_pow_of_lift p hp hp2 (A + p) (c + ((p - 2 : Nat) + 1 : Int) * A ^ (p - 2) + p * t) (by rw [hAp]; exact hord)
  · rw [ht, hc']; ring
  · intro hd
    rw [hc0] at hd
    have h2 : (p : Int) ∣ ((p - 2 : Nat) + 1 : Int) * A ^ (p - 2) := by
      have h3 : (p : Int) ∣ (p : Int) * c0 + p * t := ⟨c0 + t, by ring⟩
      have := dvd_sub hd h3
      have e2 : (p : Int) * c0 + ((p - 2 : Nat) + 1 : Int) * A ^ (p - 2) + p * t - (p * c0 + p * t) = ((p - 2 : Nat) + 1 : Int) * A ^ (p - 2) := by ring
      rwa [e2] at this
    rcases hpI.dvd_or_dvd h2 with h | h
    · have hle := Int.le_of_dvd (by positivity) h
      have : ((p - 2 : Nat) : Int) = (p : Int) - 2 := by omega
      omega
    · exact hA (hpI.dvd_of_dvd_pow h)

/-- an odd primitive root modulo an odd `M ≥ 3` is a primitive root modulo `2M` -/
theorem orderOf_two_mul (M : Nat) (hM : 3 ≤ M) (hMo : M % 2 = 1) (x : Int) (hxo : x % 2 = 1)
    (hord : orderOf (x : ZMod M) = M.totient) : orderOf (x : ZMod (2 * M)) = (2 * M).totient := by
  have htot : (2 * M).totient = M.totient := by
    rw [Nat.totient_mul (by rw [Nat.coprime_two_left]; exact Nat.odd_iff.mpr hMo)]; simp
  have hpos : 0 < M.totient := Nat.totient_pos.mpr (by omega)
  have hunit : IsUnit (x : ZMod M) := by
    have h1 : (x : ZMod M) ^ M.totient = 1 := by rw [← hord]; exact pow_orderOf_eq_one _
    exact IsUnit.of_pow_eq_one h1 (by omega)
  have hcM : IsCoprime (M : Int) x := (ZMod.coe_int_isUnit_iff_isCoprime x M).mp hunit
  have hc2 : IsCoprime (2 : Int) x := ⟨-(x / 2), 1, by omega⟩
  have hc : IsCoprime ((2 * M : Nat) : Int) x := by push_cast; exact IsCoprime.mul_left hc2 hcM
  have hg : Int.gcd (x % ((2 * M : Nat) : Int)) ((2 * M : Nat) : Int) = 1 := by
    rw [Int.gcd_emod, Int.gcd_comm]; exact Int.isCoprime_iff_gcd_eq_one.mp hc
  have hxphi := pow_totient_of_coprime x (2 * M) (by omega) hg
  have h1 : orderOf (x : ZMod (2 * M)) ∣ M.totient := by
    rw [← htot]; exact orderOf_dvd_of_pow_eq_one hxphi
  have h2 : M.totient ∣ orderOf (x : ZMod (2 * M)) := by
    rw [← hord]; exact orderOf_dvd_of_dvd_modulus x M (2 * M) (Dvd.intro_left 2 rfl)
  rw [htot]; exact Nat.dvd_antisymm h1 h2

theorem primRootCand_spec (rnd : Nat → Int) (p : Nat) (hp : p.Prime) (h7 : 7 ≤ p) (Lf : List Nat) (hF : PhiFactors p Lf)
    (A0 : Int) (hA0 : primRootCand rnd p ((primeFactors (phi p)).map (fun f => Int.tdiv (phi p) f)) = some A0) :
    orderOf (A0 : ZMod p) = p.totient := by
  apply (primTest_iff_order A0 p (by omega) Lf hF).mp
  unfold primRootCand at hA0
  split at hA0
  · next A1 hfind =>
    injection hA0 with hA0; subst hA0
    have hmem := List.mem_of_find?_eq_some hfind
    have htest := List.find?_some hfind
    refine ⟨?_, htest⟩
    simp only [List.mem_cons, List.not_mem_nil, or_false] at hmem
    rcases hmem with h | h | h | h <;> subst h
    · exact gcd_small_prime p hp 2 (by norm_num) (by omega)
    · exact gcd_small_prime p hp 3 (by norm_num) (by omega)
    · exact gcd_small_prime p hp 5 (by norm_num) (by omega)
    · exact gcd_small_prime p hp 6 (by norm_num) (by omega)
  · obtain ⟨hstop, _⟩ := firstDraw_spec _ _ _ _ _ hA0
    simp only [Bool.and_eq_true, beq_iff_eq] at hstop
    exact hstop

/-- the end of `prim_root` (lift from `p` to `p^k`, then make the value odd when `n = 2p^k`): the result is a primitive root modulo
    `p^k`, and odd when `even` -/
theorem primRootFinish_spec (p : Nat) (hp : p.Prime) (hp2 : p ≠ 2) (k : Nat) (hk : 1 ≤ k)
    (Lf2 : List Nat) (hF2 : PhiFactors (p ^ k) Lf2) (A0 : Int) (hA0 : orderOf (A0 : ZMod p) = p.totient) (even : Bool) :
    orderOf ((primRootFinish A0 p ((p : Int) ^ k) even (decide ((p : Int) ^ k = p)) : Int) : ZMod (p ^ k)) = (p ^ k).totient ∧
      (even = true → primRootFinish A0 p ((p : Int) ^ k) even (decide ((p : Int) ^ k = p)) % 2 = 1) := by
  have hpodd : p % 2 = 1 := by
    rcases hp.eq_two_or_odd with h | h
    · exact absurd h hp2
    · exact h
  have hpI2 : (p : Int) % 2 = 1 := by omega
  have htp : p.totient = p - 1 := Nat.totient_prime hp
  unfold primRootFinish
  by_cases hk1 : k = 1
  · subst hk1
    have hone : ∀ x : Int, orderOf (x : ZMod (p ^ 1)) = orderOf (x : ZMod p) := fun x =>
      Nat.dvd_antisymm (orderOf_dvd_of_dvd_modulus x (p ^ 1) p (by simp)) (orderOf_dvd_of_dvd_modulus x p (p ^ 1) (by simp))
    have htot1 : (p ^ 1).totient = p.totient := by rw [pow_one]
    rw [htot1]
    simp only [pow_one, decide_true, ↓reduceIte]
    by_cases hc : even = true ∧ A0 % 2 = 0
    · rw [if_pos hc]
      refine ⟨?_, fun _ => by omega⟩
      rw [hone]
      have : ((A0 + p : Int) : ZMod p) = (A0 : ZMod p) := by push_cast; simp
      rw [this]; exact hA0
    · rw [if_neg hc]
      refine ⟨by rw [hone]; exact hA0, fun he => ?_⟩
      have : ¬ A0 % 2 = 0 := fun h => hc ⟨he, h⟩
      omega
  · have hk2 : 2 ≤ k := by omega
    have hne : ¬ ((p : Int) ^ k = p) := by
      intro h
      have h' : p ^ k = p ^ 1 := by rw [pow_one]; exact_mod_cast h
      have := Nat.pow_right_injective hp.two_le h'
      omega
    simp only [hne, decide_false, Bool.false_eq_true, ↓reduceIte]
    obtain ⟨n, rfl⟩ : ∃ n, k = n + 1 := ⟨k - 1, by omega⟩
    have htk : (p ^ (n + 1)).totient = p ^ n * (p - 1) := Nat.totient_prime_pow_succ hp n
    have hpk2 : 2 ≤ p ^ (n + 1) := by
      calc 2 ≤ p := hp.two_le
        _ = p ^ 1 := (pow_one p).symm
        _ ≤ p ^ (n + 1) := Nat.pow_le_pow_right hp.pos (by omega)
    have hpkodd : ((p : Int) ^ (n + 1)) % 2 = 1 := by
      have : (p ^ (n + 1)) % 2 = 1 := by rw [Nat.pow_mod, hpodd]; simp
      have h2 : (((p ^ (n + 1) : Nat) : Int)) % 2 = 1 := by omega
      rwa [Nat.cast_pow] at h2
    -- the value after the `A += p` correction is a primitive root modulo p^k
    have hA1 : orderOf (((if (!isPrimRoot A0 ((p : Int) ^ (n + 1))) = true then A0 + p else A0 : Int)) : ZMod (p ^ (n + 1))) = (p ^ (n + 1)).totient := by
      have hiff := is_prim_root_iff A0 (p ^ (n + 1)) hpk2 Lf2 hF2
      rw [Nat.cast_pow] at hiff
      by_cases hpr : isPrimRoot A0 ((p : Int) ^ (n + 1)) = true
      · simp only [hpr, Bool.not_true, Bool.false_eq_true, ↓reduceIte]
        exact hiff.mp hpr
      · have hpr' : isPrimRoot A0 ((p : Int) ^ (n + 1)) = false := by simpa using hpr
        simp only [hpr', Bool.not_false, ↓reduceIte]
        rw [htk]
        apply prim_root_correction p hp hp2 A0 (by rw [hA0, htp]) n
        rw [← htk]; intro hc; exact hpr (hiff.mpr hc)
    set A1 : Int := (if (!isPrimRoot A0 ((p : Int) ^ (n + 1))) = true then A0 + p else A0) with hA1def
    by_cases hc : even = true ∧ A1 % 2 = 0
    · rw [if_pos hc]
      refine ⟨?_, fun _ => by omega⟩
      have : ((A1 + (p : Int) ^ (n + 1) : Int) : ZMod (p ^ (n + 1))) = (A1 : ZMod (p ^ (n + 1))) := by
        push_cast
        have : ((p : ZMod (p ^ (n + 1))) ^ (n + 1)) = 0 := by
          rw [← Nat.cast_pow]; exact ZMod.natCast_self _
        rw [this]; simp
      rw [this]; exact hA1
    · rw [if_neg hc]
      refine ⟨hA1, fun he => ?_⟩
      have : ¬ A1 % 2 = 0 := fun h => hc ⟨he, h⟩
      omega

theorem pow_facts (p : Nat) (hp : p.Prime) (h7 : 7 ≤ p) (k : Nat) (hk : 1 ≤ k) :
    7 ≤ p ^ k ∧ (p ^ k) % 2 = 1 := by
  have hpodd : p % 2 = 1 := by
    rcases hp.eq_two_or_odd with h | h
    · omega
    · exact h
  refine ⟨?_, by rw [Nat.pow_mod, hpodd]; simp⟩
  calc 7 ≤ p := h7
    _ = p ^ 1 := (pow_one p).symm
    _ ≤ p ^ k := Nat.pow_le_pow_right hp.pos hk

/-- **`prim_root(A, n)` for `n = p^k`** (`p ≥ 7` prime, every `k ≥ 1`, every sequence of random draws): a returned value is a primitive root
    modulo `p^k`.  Oracle contracts: the factorisation of `p^k` starts with `p` (`hpf`), the factor lists of `φ(p)` and `φ(p^k)` are
    well formed (`hF`, `hF2`). -/
theorem prim_root_prime_power_correct (rnd : Nat → Int) (p : Nat) (hp : p.Prime) (h7 : 7 ≤ p) (k : Nat) (hk : 1 ≤ k)
    (hpf : ∃ tl, primeFactors ((p : Int) ^ k) = (p : Int) :: tl)
    (Lf : List Nat) (hF : PhiFactors p Lf) (Lf2 : List Nat) (hF2 : PhiFactors (p ^ k) Lf2)
    (A : Int) (h : primRoot rnd ((p ^ k : Nat) : Int) = some A) : orderOf (A : ZMod (p ^ k)) = (p ^ k).totient := by
  obtain ⟨h7k, hodd⟩ := pow_facts p hp h7 k hk
  obtain ⟨tl, hpf⟩ := hpf
  unfold primRoot at h
  rw [if_neg (by omega), if_neg (by omega)] at h
  simp only [] at h
  rw [if_neg (by omega)] at h
  rw [Nat.cast_pow, hpf] at h
  simp only [Option.map_eq_some_iff] at h
  obtain ⟨A0, hA0, hfin⟩ := h
  have hcand := primRootCand_spec rnd p hp h7 Lf hF A0 hA0
  have hdec : decide (((p ^ k : Nat) : Int) % 2 = 0) = false := decide_eq_false (by omega)
  rw [← hfin]
  have := (primRootFinish_spec p hp (by omega) k hk Lf2 hF2 A0 hcand false).1
  rw [Nat.cast_pow] at hdec
  rw [hdec]
  exact this

/-- **`prim_root(A, n)` for `n = 2·p^k`** -/
theorem prim_root_two_prime_power_correct (rnd : Nat → Int) (p : Nat) (hp : p.Prime) (h7 : 7 ≤ p) (k : Nat) (hk : 1 ≤ k)
    (hpf : ∃ tl, primeFactors ((p : Int) ^ k) = (p : Int) :: tl)
    (Lf : List Nat) (hF : PhiFactors p Lf) (Lf2 : List Nat) (hF2 : PhiFactors (p ^ k) Lf2)
    (A : Int) (h : primRoot rnd ((2 * p ^ k : Nat) : Int) = some A) :
    orderOf (A : ZMod (2 * p ^ k)) = (2 * p ^ k).totient := by
  obtain ⟨h7k, hodd⟩ := pow_facts p hp h7 k hk
  obtain ⟨tl, hpf⟩ := hpf
  unfold primRoot at h
  rw [if_neg (by omega), if_neg (by omega)] at h
  simp only [] at h
  rw [if_pos (by omega)] at h
  have htd : Int.tdiv ((2 * p ^ k : Nat) : Int) 2 = (p : Int) ^ k := by
    push_cast; rw [Int.mul_tdiv_cancel_left _ (by norm_num)]
  rw [htd, hpf] at h
  simp only [Option.map_eq_some_iff] at h
  obtain ⟨A0, hA0, hfin⟩ := h
  have hcand := primRootCand_spec rnd p hp h7 Lf hF A0 hA0
  have hdec : decide (((2 * p ^ k : Nat) : Int) % 2 = 0) = true := decide_eq_true (by omega)
  rw [hdec] at hfin
  obtain ⟨h1, h2⟩ := primRootFinish_spec p hp (by omega) k hk Lf2 hF2 A0 hcand true
  rw [← hfin]
  exact orderOf_two_mul (p ^ k) (by omega) hodd _ (h2 rfl) h1

/-! ## Moebius -/

/-- mobius on the exponent list: 0 iff some exponent exceeds 1, else (-1)^(number of primes) -/
theorem mobiusGo_spec : ∀ (es : List Nat) (mob : Int),
    mobiusGo es mob = if es.all (· ≤ 1) then (-1) ^ es.length * mob else 0 := by
  intro es
  induction es with
  | nil => intro mob; simp [mobiusGo]
  | cons e t ih =>
    intro mob
    rw [mobiusGo]
    by_cases he : e > 1
    · have : ¬ e ≤ 1 := by omega
      simp [he, this]
    · have h1 : e ≤ 1 := by omega
      simp only [he, ↓reduceIte, ih, List.all_cons, h1, decide_true, Bool.true_and, List.length_cons]
      split <;> ring

/-- `mobius(lpow)` on a list of exponents: 0 as soon as an exponent exceeds 1, otherwise (-1)^(length) -/
theorem mobiusL_spec (es : List Nat) :
    mobiusL es = if es.all (· ≤ 1) then (-1) ^ es.length else 0 := by
  unfold mobiusL
  by_cases h : es.length ≠ 0
  · rw [if_pos h, mobiusGo_spec, mul_one]
  · have : es = [] := by
      cases es with
      | nil => rfl
      | cons a t => simp at h
    subst this; simp

/-- `mobius(lpow)` on the exponents of the factorisation of `n ≥ 1` is Mathlib's Möbius function of `n`.
    `fs` lists the prime divisors of `n` once each with their multiplicities (contract of `IntFactorDom::set(Lf, Le, n)`). -/
theorem mobius_exact (n : Nat) (hn : n ≠ 0) (fs : List (Nat × Nat))
    (hnd : (fs.map Prod.fst).Nodup) (hmem : ∀ p, p ∈ fs.map Prod.fst ↔ p ∈ n.primeFactors)
    (hexp : ∀ pe ∈ fs, pe.2 = n.factorization pe.1) :
    mobiusL (fs.map Prod.snd) = ArithmeticFunction.moebius n := by
  rw [mobiusL_spec]
  have hsq : (fs.map Prod.snd).all (· ≤ 1) = true ↔ Squarefree n := by
    rw [Nat.squarefree_iff_factorization_le_one hn]
    simp only [List.all_eq_true, List.mem_map, forall_exists_index, and_imp, decide_eq_true_eq]
    constructor
    · intro h p
      by_cases hp : p ∈ n.primeFactors
      · obtain ⟨pe, hpe, rfl⟩ := List.mem_map.mp ((hmem p).mpr hp)
        rw [← hexp pe hpe]; exact h pe.2 pe hpe rfl
      · have : n.factorization p = 0 := by
          rw [← Finsupp.notMem_support_iff, Nat.support_factorization]; exact hp
        omega
    · intro h e pe hpe he
      rw [← he, hexp pe hpe]; exact h pe.1
  have hlen : (fs.map Prod.snd).length = n.primeFactors.card := by
    have hfin : (fs.map Prod.fst).toFinset = n.primeFactors := by ext q; simp only [List.mem_toFinset]; exact hmem q
    rw [← hfin, List.toFinset_card_of_nodup hnd]; simp
  by_cases h : Squarefree n
  · rw [if_pos (hsq.mpr h), ArithmeticFunction.moebius_apply_of_squarefree h, ArithmeticFunction.cardFactors_apply, hlen]
    have hnodup := (Nat.squarefree_iff_nodup_primeFactorsList hn).mp h
    have : n.primeFactors.card = n.primeFactorsList.length := by
      unfold Nat.primeFactors; exact List.toFinset_card_of_nodup hnodup
    rw [this]
  · rw [if_neg (fun hc => h (hsq.mp hc)), ArithmeticFunction.moebius_eq_zero_of_not_squarefree h]

example : (12 : Nat) ≠ 0 ∧ ([(2, 2), (3, 1)].map Prod.fst).Nodup := ⟨by decide, by decide⟩

/-! ## Carmichael functions -/

/-- the value `lambda_inv` computes is the lcm of the textbook `λ(p^e)` over the factor list -/
theorem lambdaInvPrimpow_formula (p e : Nat) (hp : 1 ≤ p) (he : 1 ≤ e) : lambdaInvPrimpow p e = (carmichaelPP p e : Int) := by
  unfold lambdaInvPrimpow carmichaelPP
  by_cases h2 : p = 2
  · subst h2
    simp only [Nat.cast_ofNat, ↓reduceIte]
    by_cases h : e ≤ 2
    · simp only [h, ↓reduceIte]
      have : e = 1 ∨ e = 2 := by omega
      rcases this with h | h <;> subst h <;> simp
    · simp only [h, ↓reduceIte]
      by_cases h3 : e = 3
      · subst h3; simp
      · simp [h3]
  · have : (p : Int) ≠ 2 := by exact_mod_cast h2
    simp only [this, h2, ↓reduceIte]
    push_cast [Nat.cast_sub hp]; ring

theorem lambdaFold_cast : ∀ (rest : List (Nat × Nat)) (l : Nat), (∀ pe ∈ rest, 1 ≤ pe.1 ∧ 1 ≤ pe.2) →
    rest.foldl (fun (z : Int) (qf : Nat × Nat) => ((Int.lcm z (lambdaInvPrimpow qf.1 qf.2) : Nat) : Int)) (l : Int)
      = ((rest.foldl (fun l pe => Nat.lcm l (carmichaelPP pe.1 pe.2)) l : Nat) : Int) := by
  intro rest
  induction rest with
  | nil => intro l _; simp
  | cons pe t ih =>
    intro l hv
    simp only [List.foldl_cons]
    have h := hv pe (by simp)
    rw [lambdaInvPrimpow_formula pe.1 pe.2 h.1 h.2]
    have : ((Int.lcm (l : Int) ((carmichaelPP pe.1 pe.2 : Nat) : Int) : Nat) : Int) = ((Nat.lcm l (carmichaelPP pe.1 pe.2) : Nat) : Int) := by
      simp [Int.lcm]
    rw [this]
    exact ih _ (fun q hq => hv q (by simp [hq]))

/-- the value computed by `lambda_base` on a factor list `(p_i, e_i)` (`p_i ≥ 1`, `e_i ≥ 1`) is the lcm of the textbook
    `λ(p_i^e_i)` -/
theorem lambdaBaseL_formula (fs : List (Nat × Nat)) (hne : fs ≠ []) (hv : ∀ pe ∈ fs, 1 ≤ pe.1 ∧ 1 ≤ pe.2) :
    lambdaBaseL fs = (carmichaelFormula fs : Int) := by
  cases fs with
  | nil => exact absurd rfl hne
  | cons pe t =>
    obtain ⟨p, e⟩ := pe
    have h := hv (p, e) (by simp)
    unfold lambdaBaseL carmichaelFormula
    simp only [List.foldl_cons]
    rw [lambdaInvPrimpow_formula p e h.1 h.2, lambdaFold_cast t _ (fun q hq => hv q (by simp [hq]))]
    simp

/-- `lambda_inv(m)` is the Carmichael formula on the factorisation the code obtains, for every `m ≥ 2`: the early returns for
    m = 2, 3, 4, 8 agree with the general branch.  The factor list is the model's `factorize` (stand-in for
    `IntFactorDom::set`); its well-formedness is the hypothesis `hv`. -/
theorem lambda_inv_formula (m : Int) (hm : 2 ≤ m) (hne : factorize m.natAbs ≠ [])
    (hv : ∀ pe ∈ factorize m.natAbs, 1 ≤ pe.1 ∧ 1 ≤ pe.2) :
    lambdaInv m = (carmichaelFormula (factorize m.natAbs) : Int) := by
  unfold lambdaInv
  by_cases h2 : m = 2
  · subst h2; decide +kernel
  by_cases h3 : m = 3
  · subst h3; decide +kernel
  by_cases h4 : m = 4
  · subst h4; decide +kernel
  by_cases h8 : m = 8
  · subst h8; decide +kernel
  simp only [h2, h3, h4, h8, or_self, ↓reduceIte]
  exact lambdaBaseL_formula _ hne hv

example : factorize (12 : Int).natAbs ≠ [] ∧ ∀ pe ∈ factorize (12 : Int).natAbs, 1 ≤ pe.1 ∧ 1 ≤ pe.2 := by decide +kernel

/-- `lambda` is `lambda_inv` except at `m = 8` (header: "Both functions coincide except for m=8") -/
theorem lambda_eq_lambda_inv (m : Int) : lambda m = if m = 8 then 3 else lambdaInv m := by
  unfold lambda lambdaInv
  by_cases h2 : m = 2
  · subst h2; decide
  by_cases h3 : m = 3
  · subst h3; decide
  by_cases h4 : m = 4
  · subst h4; decide
  by_cases h8 : m = 8
  · subst h8; decide
  simp [h2, h3, h4, h8]

end Givaro.Props.C13
