/-
C13 — number-theoretic functions and modular square roots match their definitions.

Theorems about the model `Model/NumTheo.lean` (a transcription of givintnumtheo.inl / givintsqrootmod.inl /
`logp` as they are after the repairs fixes/C13_1..5).  The GMP primitives are modelled; where a theorem needs
the *contract* of one of them at a call site (`mpz_invert` returns the inverse of an invertible element,
`mpz_legendre` never answers -1 on a residue) the contract is an explicit hypothesis.  Random draws are
universally quantified (`rnd`).  All statements are for every input, modulus and exponent (no size bound).
-/
import GivaroModel.Lemmas.NumTheoLemmas
import GivaroModel.Spec.NumTheoSpec
namespace Givaro.Props.C13
open Givaro.Model.NumTheo Givaro.Lemmas.NumTheo Givaro.Spec.NumTheo

/-! ## modular exponentiation used by every function below -/

/-- the model's `powmod` (stand-in for `mpz_powm`) is `a^e mod m` for every base, exponent and modulus -/
theorem powmod_exact (a : Int) (e : Nat) (m : Int) : powmod a e m = a ^ e % m := powmod_eq a e m

/-! ## liftings (sqroothensellift, sqrootonemorelift, sqrootmodtwolift, sqrootlinear) -/

/-- `sqroothensellift`: PRECONDITION `x^2 = a [p^k]` (header) and `2x` invertible modulo `p^k` with `mpz_invert`
    returning its inverse; RETURNS a root modulo `p^(2k)`.  `pk` is any non-zero modulus. -/
theorem hensel_step_exact (x a pk : Int) (hpk : pk ≠ 0)
    (hx : (x * x - a) % pk = 0)
    (hinv : (x * 2 * invmod (x * 2) pk - 1) % pk = 0) :
    (sqroothensellift x a pk * sqroothensellift x a pk - a) % (pk * pk) = 0 := by
  unfold sqroothensellift
  obtain ⟨c, hc⟩ := Int.dvd_of_emod_eq_zero hx
  obtain ⟨e, he⟩ := Int.dvd_of_emod_eq_zero hinv
  simp only []
  split
  · next h0 =>
    have : x * x - a = 0 := by linarith
    rw [this]; simp
  · next h0 =>
    have hdiv : Int.tdiv (a - x * x) pk = -c := by
      have : a - x * x = pk * (-c) := by linarith
      rw [this, Int.mul_tdiv_cancel_left _ hpk]
    rw [hdiv]
    obtain ⟨d, hd⟩ := tmod_exists (invmod (x * 2) pk * -c) pk
    rw [hd]
    apply Int.emod_eq_zero_of_dvd
    refine ⟨e * (-c) * (-1) * (-1) - 2 * x * d + (invmod (x * 2) pk * -c - pk * d) * (invmod (x * 2) pk * -c - pk * d), ?_⟩
    linear_combination (1 : Int) * hc + (-c * pk) * he

/-- `sqrootonemorelift`: from a root modulo `pk` (a multiple of `p`) to a root modulo `pk·p` -/
theorem onemorelift_exact (x0 a p pk : Int) (hpk : pk ≠ 0) (hp : p ∣ pk)
    (hx : (x0 * x0 - a) % pk = 0)
    (hinv : (x0 * 2 * invmod (x0 * 2) p - 1) % p = 0) :
    (sqrootonemorelift x0 a p pk * sqrootonemorelift x0 a p pk - a) % (pk * p) = 0 := by
  unfold sqrootonemorelift
  obtain ⟨c, hc⟩ := Int.dvd_of_emod_eq_zero hx
  obtain ⟨e, he⟩ := Int.dvd_of_emod_eq_zero hinv
  obtain ⟨m, hm⟩ := hp
  have hdiv : Int.tdiv (a - x0 * x0) pk = -c := by
    have : a - x0 * x0 = pk * (-c) := by linarith
    rw [this, Int.mul_tdiv_cancel_left _ hpk]
  simp only [hdiv]
  obtain ⟨d1, hd1⟩ := tmod_exists (-c) p
  split
  · next h0 =>
    rw [hd1] at h0
    apply Int.emod_eq_zero_of_dvd
    refine ⟨-d1, ?_⟩
    linear_combination (1 : Int) * hc - pk * h0
  · next h0 =>
    obtain ⟨d, hd⟩ := tmod_exists (invmod (x0 * 2) p * Int.tmod (-c) p) p
    rw [hd, hd1]
    apply Int.emod_eq_zero_of_dvd
    generalize invmod (x0 * 2) p = h0' at *
    refine ⟨-d1 + e * (-c - p * d1) - 2 * x0 * d + (h0' * (-c - p * d1) - p * d) * (h0' * (-c - p * d1) - p * d) * m, ?_⟩
    linear_combination (1 : Int) * hc + (pk * (-c - p * d1)) * he + ((h0' * (-c - p * d1) - p * d) * (h0' * (-c - p * d1) - p * d) * pk) * hm

/-- `sqrootmodtwolift`: from a root modulo `pk = 2·pk1` to a root modulo `pk1^2` (header: `2^k → 2^(2k-2)`) -/
theorem twolift_exact (x a pk : Int) (hpk1 : pk / 2 ≠ 0) (hpk : pk = 2 * (pk / 2))
    (hx : (x * x - a) % pk = 0)
    (hinv : (x * invmod x (pk / 2) - 1) % (pk / 2) = 0) :
    (sqrootmodtwolift x a pk * sqrootmodtwolift x a pk - a) % (pk / 2 * (pk / 2)) = 0 := by
  unfold sqrootmodtwolift
  have hpk0 : pk ≠ 0 := by omega
  obtain ⟨c, hc⟩ := Int.dvd_of_emod_eq_zero hx
  obtain ⟨e, he⟩ := Int.dvd_of_emod_eq_zero hinv
  have hdiv : Int.tdiv (a - x * x) pk = -c := by
    have : a - x * x = pk * (-c) := by linarith
    rw [this, Int.mul_tdiv_cancel_left _ hpk0]
  simp only [hdiv]
  generalize pk / 2 = pk1 at *
  obtain ⟨d1, hd1⟩ := tmod_exists (-c) pk1
  split
  · next h0 =>
    rw [hd1] at h0
    apply Int.emod_eq_zero_of_dvd
    refine ⟨-2 * d1, ?_⟩
    linear_combination (1 : Int) * hc - 2 * pk1 * h0 + (c) * hpk
  · next h0 =>
    obtain ⟨d, hd⟩ := tmod_exists (invmod x pk1 * Int.tmod (-c) pk1) pk1
    rw [hd, hd1]
    apply Int.emod_eq_zero_of_dvd
    generalize invmod x pk1 = h0' at *
    refine ⟨-2 * d1 + 2 * e * (-c - pk1 * d1) - 2 * x * d + (h0' * (-c - pk1 * d1) - pk1 * d) * (h0' * (-c - pk1 * d1) - pk1 * d), ?_⟩
    linear_combination (1 : Int) * hc + (2 * pk1 * (-c - pk1 * d1)) * he + (c) * hpk

example : ((1 : Int) * 1 - 10) % 3 = 0 ∧ ((1 : Int) * 2 * invmod (1 * 2) 3 - 1) % 3 = 0 := by decide +kernel
example : ((3 : Int) * 3 - 17) % 8 = 0 ∧ ((3 : Int) * invmod 3 (8 / 2) - 1) % (8 / 2) = 0 := by decide +kernel

/-- the lift does not change the root modulo `p` (so `2·x` stays invertible modulo `p` along `sqrootlinear`) -/
theorem onemorelift_congr (x0 a p pk : Int) (hp : p ∣ pk) : (sqrootonemorelift x0 a p pk - x0) % p = 0 := by
  unfold sqrootonemorelift
  simp only []
  split
  · simp
  · obtain ⟨m, hm⟩ := hp
    apply Int.emod_eq_zero_of_dvd
    exact ⟨Int.tmod (invmod (x0 * 2) p * Int.tmod (Int.tdiv (a - x0 * x0) pk) p) p * m, by rw [hm]; ring⟩

/-- `sqrootlinear`'s loop: from a root modulo `p^j` to a root modulo `p^(j+n)`; the `mpz_invert` contract is the hypothesis
    `hinv` (every `z ≡ 2·x (mod p)` has its inverse returned) -/
theorem linearLoop_sound (a p : Int) (hp0 : p ≠ 0) : ∀ (n j : Nat) (x : Int),
    (x * x - a) % (p ^ (j + 1)) = 0 →
    (∀ z : Int, (z - x * 2) % p = 0 → (z * invmod z p - 1) % p = 0) →
    (linearLoop a p n x (p ^ (j + 1)) * linearLoop a p n x (p ^ (j + 1)) - a) % (p ^ (j + 1 + n)) = 0 := by
  intro n
  induction n with
  | zero => intro j x hx _; simpa [linearLoop] using hx
  | succ n ih =>
    intro j x hx hinv
    rw [linearLoop]
    have hdvd : p ∣ p ^ (j + 1) := Dvd.intro_left (p ^ j) (by rw [pow_succ])
    have hpk : p ^ (j + 1) ≠ 0 := pow_ne_zero _ hp0
    have h1 := onemorelift_exact x a p (p ^ (j + 1)) hpk hdvd hx (by
      have := hinv (x * 2) (by simp)
      exact this)
    have hc := onemorelift_congr x a p (p ^ (j + 1)) hdvd
    have e : p ^ (j + 1) * p = p ^ (j + 1 + 1) := (pow_succ p (j + 1)).symm
    rw [e] at h1 ⊢
    have := ih (j + 1) (sqrootonemorelift x a p (p ^ (j + 1))) h1 (by
      intro z hz
      apply hinv
      obtain ⟨u, hu⟩ := Int.dvd_of_emod_eq_zero hz
      obtain ⟨v, hv⟩ := Int.dvd_of_emod_eq_zero hc
      apply Int.emod_eq_zero_of_dvd
      exact ⟨u + 2 * v, by linear_combination hu + 2 * hv⟩)
    have e2 : j + 1 + (n + 1) = j + 1 + 1 + n := by omega
    rw [e2]; exact this

/-! ## square roots modulo a prime -/

/-- Tonelli–Shanks main loop: the invariant `x^2 = a·b` gives a root whenever the loop returns a value other than -1;
    for every modulus `p` (primality is not needed for soundness), every `y`, `r` and fuel. -/
theorem tonelliLoop_sound (a p : Int) : ∀ (fuel : Nat) (x b y : Int) (r : Nat) (res : Int),
    (x * x - a * b) % p = 0 → tonelliLoop fuel p x b y r = some res → res ≠ -1 → (res * res - a) % p = 0 := by
  intro fuel
  induction fuel with
  | zero => intro x b y r res _ h; simp [tonelliLoop] at h
  | succ n ih =>
    intro x b y r res hinv h hne
    rw [tonelliLoop] at h
    split at h
    · next hb =>
      injection h with h; subst h; subst hb; simpa using hinv
    · next hb =>
      split at h
      · simp at h
      · next m hm =>
        split at h
        · injection h with h; exact absurd h.symm hne
        · split at h
          · simp at h
          · refine ih _ _ _ _ _ ?_ h hne
            obtain ⟨c, hc⟩ := Int.dvd_of_emod_eq_zero hinv
            set t := powmod y (2 ^ (r - m - 1)) p
            obtain ⟨d1, hd1⟩ := tmod_exists (x * t) p
            obtain ⟨d2, hd2⟩ := tmod_exists (t * t) p
            obtain ⟨d3, hd3⟩ := tmod_exists (b * Int.tmod (t * t) p) p
            rw [hd3, hd1, hd2]
            apply Int.emod_eq_zero_of_dvd
            refine ⟨c * t * t - 2 * x * t * d1 + p * d1 * d1 + a * b * d2 + a * d3, ?_⟩
            linear_combination (t * t) * hc

/-- `sqrootmodprime` is sound on every prime except the class `p ≡ 9 (mod 16)` (Müller's branch, not proved):
    for every residue `a`, every draw sequence, a returned value other than -1 is a square root of `a`.
    Covers the branches `a ≡ 0,1`, `p ≡ 3 (4)` (`a^((p+1)/4)`), `p ≡ 5 (8)` (Atkin, both sub-branches; uses that 2 is a
    non-residue) and Tonelli–Shanks.
    Full statement (not proved): the same without `hM`. -/
theorem sqrootmodprime_sound_partial (rnd : Nat → Int) (a : Int) (p : Nat) [hp : Fact p.Prime]
    (hM : p % 16 ≠ 9) (hsq : IsSquare (a : ZMod p)) (res : Int)
    (h : sqrootmodprime rnd a p = some res) (hne : res ≠ -1) : (res * res - a) % (p : Int) = 0 := by
  have hp2 : 2 ≤ p := hp.out.two_le
  have hz : ((a % (p : Int) : Int) : ZMod p) = (a : ZMod p) := ZMod.intCast_mod a p
  suffices hs : (res : ZMod p) * (res : ZMod p) = (a : ZMod p) by
    rw [emod_zero_iff_dvd, ← ZMod.intCast_zmod_eq_zero_iff_dvd]; push_cast; rw [hs]; simp
  unfold sqrootmodprime at h
  simp only [] at h
  split at h
  · next h01 =>
    injection h with h; subst h
    rcases h01 with h0 | h1
    · rw [h0] at hz; rw [h0, ← hz]; simp
    · rw [h1] at hz; rw [h1, ← hz]; simp
  · next h01 =>
    have hz0 : (a : ZMod p) ≠ 0 := by
      intro hc
      rw [ZMod.intCast_zmod_eq_zero_iff_dvd] at hc
      exact h01 (Or.inl (Int.emod_eq_zero_of_dvd hc))
    have heul : (a : ZMod p) ^ (p / 2) = 1 := (ZMod.euler_criterion p hz0).mp hsq
    split at h
    · injection h with h; exact absurd h.symm hne
    · split at h
      · next h3 =>
        injection h with h; subst h
        rw [cast_powmod, hz, ← pow_add]
        have : ((↑p + 1) / 4 : Int).toNat + ((↑p + 1) / 4 : Int).toNat = p / 2 + 1 := by omega
        rw [this, pow_succ, heul, one_mul]
      · split at h
        · next h3 h5 =>
          split at h
          · next ht =>
            injection h with h; subst h
            have h1 : (a : ZMod p) ^ ((↑p - 1) / 4 : Int).toNat = 1 := by
              have := congrArg (fun (t : Int) => (t : ZMod p)) ht
              simpa [cast_powmod, hz] using this
            rw [cast_powmod, hz, ← pow_add]
            have : ((↑p + 3) / 8 : Int).toNat + ((↑p + 3) / 8 : Int).toNat = ((↑p - 1) / 4 : Int).toNat + 1 := by omega
            rw [this, pow_succ, h1, one_mul]
          · next ht =>
            injection h with h; subst h
            have hk1 : (a : ZMod p) ^ ((↑p - 1) / 4 : Int).toNat ≠ 1 := by
              have := powmod_ne_one_cast (a % (p : Int)) ((↑p - 1) / 4 : Int).toNat p hp2 ht
              rwa [hz] at this
            have hk1sq : ((a : ZMod p) ^ ((↑p - 1) / 4 : Int).toNat) * ((a : ZMod p) ^ ((↑p - 1) / 4 : Int).toNat) = 1 := by
              rw [← pow_add]
              have : ((↑p - 1) / 4 : Int).toNat + ((↑p - 1) / 4 : Int).toNat = p / 2 := by omega
              rw [this, heul]
            have hm1 : (a : ZMod p) ^ ((↑p - 1) / 4 : Int).toNat = -1 := by
              rcases mul_self_eq_one_iff.mp hk1sq with h | h
              · exact absurd h hk1
              · exact h
            have hpne2 : p ≠ 2 := by omega
            have h2ne : (2 : ZMod p) ≠ 0 := by
              intro hc
              have : ((2 : Int) : ZMod p) = 0 := by exact_mod_cast hc
              rw [ZMod.intCast_zmod_eq_zero_iff_dvd] at this
              have := Int.le_of_dvd (by norm_num) this
              omega
            have h2ns : ¬ IsSquare (2 : ZMod p) := by
              rw [ZMod.exists_sq_eq_two_iff hpne2]; omega
            have h2 : (2 : ZMod p) ^ (p / 2) = -1 := by
              rcases ZMod.pow_div_two_eq_neg_one_or_one p h2ne with h | h
              · exact absurd ((ZMod.euler_criterion p h2ne).mpr h) h2ns
              · exact h
            rw [cast_tmod]
            push_cast
            rw [cast_powmod]
            push_cast
            try rw [hz]
            set z := (a : ZMod p) with hzdef
            set k3 := ((↑p - 5) / 8 : Int).toNat with hk3
            set k1 := ((↑p - 1) / 4 : Int).toNat with hk1def
            have hk : k3 + k3 + 1 = k1 := by omega
            have hk' : k1 + k1 = p / 2 := by omega
            have e1 : (z * 4) ^ k3 * z * 2 * ((z * 4) ^ k3 * z * 2) = z * (z * 4) ^ (k3 + k3 + 1) := by
              rw [pow_succ, pow_add]; ring
            rw [e1, hk, mul_pow, hm1]
            have e2 : (4 : ZMod p) ^ k1 = 2 ^ (k1 + k1) := by
              rw [pow_add, ← mul_pow]; norm_num
            rw [e2, hk', h2]; ring
        · next h3 h5 =>
          split at h
          · next h9 => exfalso; omega
          · next h9 =>
            split at h
            · simp at h
            · next g hg =>
              have := tonelliLoop_sound (a % (p : Int)) (p : Int) _ _ _ _ _ res (tonelli_init _ _ _) h hne
              have h2 : ((res * res - a % (p : Int) : Int) : ZMod p) = 0 := by
                rw [ZMod.intCast_zmod_eq_zero_iff_dvd]; exact Int.dvd_of_emod_eq_zero this
              push_cast at h2
              try rw [hz] at h2
              exact sub_eq_zero.mp h2

example : (13 : Nat) % 16 ≠ 9 ∧ IsSquare ((4 : Int) : ZMod 13) := ⟨by decide, ⟨2, by decide⟩⟩

/-- DESIGN name: the branch `p ≡ 3 (mod 4)` -/
theorem sqrt_3mod4_exact (rnd : Nat → Int) (a : Int) (p : Nat) [Fact p.Prime] (h3 : p % 4 = 3)
    (hsq : IsSquare (a : ZMod p)) (res : Int) (h : sqrootmodprime rnd a p = some res) (hne : res ≠ -1) :
    (res * res - a) % (p : Int) = 0 :=
  sqrootmodprime_sound_partial rnd a p (by omega) hsq res h hne

/-- DESIGN name: Atkin's branch `p ≡ 5 (mod 8)` -/
theorem sqrt_5mod8_exact (rnd : Nat → Int) (a : Int) (p : Nat) [Fact p.Prime] (h5 : p % 8 = 5)
    (hsq : IsSquare (a : ZMod p)) (res : Int) (h : sqrootmodprime rnd a p = some res) (hne : res ≠ -1) :
    (res * res - a) % (p : Int) = 0 :=
  sqrootmodprime_sound_partial rnd a p (by omega) hsq res h hne

/-- a non-residue is reported as such: when `mpz_legendre` answers -1 the function returns -1 (every `p`, every branch) -/
theorem sqrootmodprime_reports_nonresidue (rnd : Nat → Int) (a p : Int)
    (h01 : ¬ (a % p = 0 ∨ a % p = 1)) (hleg : legendre (a % p) p = -1) : sqrootmodprime rnd a p = some (-1) := by
  unfold sqrootmodprime
  simp only [h01, hleg, ↓reduceIte]

example : ¬ ((2 : Int) % 3 = 0 ∨ (2 : Int) % 3 = 1) ∧ legendre (2 % 3) 3 = -1 := by decide +kernel

/-- after fix C13_2 `sqrootlinear` passes the report on instead of lifting -1 -/
theorem sqrootlinear_reports_nonresidue (rnd : Nat → Int) (a p : Int) (k : Nat)
    (h : sqrootmodprime rnd a p = some (-1)) : sqrootlinear rnd a p k = some (-1) := by
  unfold sqrootlinear; rw [h]; simp

/-! ## certificates (outputs the property does not determine are decided by these checkers) -/

theorem sqrt_certificate (a x n : Int) : sqrtChk a x n = true ↔ (x * x - a) % n = 0 := by
  simp [sqrtChk]

theorem two_squares_certificate (a b p : Int) : twoSquaresChk a b p = true ↔ a * a + b * b = p := by
  simp [twoSquaresChk]

theorem two_squares_mod_certificate (a b k p : Int) : twoSquaresModChk a b k p = true ↔ (a * a + b * b - k) % p = 0 := by
  simp [twoSquaresModChk]

/-! ## Euler phi -/

/-- `phi(res, Lf, n)` returns Euler's totient of `n` whenever `Lf` lists the prime divisors of `n` (each once, any order):
    every `n`, no size bound.  (`phi(res, n)` obtains `Lf` from `IntFactorDom::set`, property C12.) -/
theorem phi_exact (n : Nat) (Lf : List Nat) (hnd : Lf.Nodup) (hmem : ∀ q, q ∈ Lf ↔ q ∈ n.primeFactors) :
    phiL (Lf.map (Nat.cast : Nat → Int)) n = (Nat.totient n : Int) := by
  unfold phiL
  by_cases h1 : n ≤ 1
  · have : (n : Int) ≤ 1 := by exact_mod_cast h1
    simp only [this, ↓reduceIte]
    have : n = 0 ∨ n = 1 := by omega
    rcases this with h | h <;> subst h <;> simp
  · have h1' : ¬ (n : Int) ≤ 1 := by exact_mod_cast h1
    simp only [h1', ↓reduceIte]
    by_cases h3 : n ≤ 3
    · have : (n : Int) ≤ 3 := by exact_mod_cast h3
      simp only [this, ↓reduceIte]
      have : n = 2 ∨ n = 3 := by omega
      rcases this with h | h <;> subst h
      · simp
      · rw [Nat.totient_prime Nat.prime_three]; norm_num
    · have h3' : ¬ (n : Int) ≤ 3 := by exact_mod_cast h3
      simp only [h3', ↓reduceIte]
      have hpos : ∀ f ∈ Lf, 0 < f := fun f hf => (Nat.prime_of_mem_primeFactors ((hmem f).mp hf)).pos
      have hfin : Lf.toFinset = n.primeFactors := by ext q; simp [hmem]
      have hprod : Lf.prod = ∏ p ∈ n.primeFactors, p := by
        rw [← hfin, List.prod_toFinset _ hnd]; simp
      have hprod1 : (Lf.map (fun f => f - 1)).prod = ∏ p ∈ n.primeFactors, (p - 1) := by
        rw [← hfin, List.prod_toFinset _ hnd]
      rw [phiLoop_cast _ _ hpos, phiLoop_nat _ _ hpos (by rw [hprod]; exact Nat.prod_primeFactors_dvd n),
        hprod, hprod1, ← Nat.totient_eq_div_primeFactors_mul]

example : [3, 2].Nodup ∧ ∀ q, q ∈ [3, 2] ↔ q ∈ (12 : Nat).primeFactors := by
  refine ⟨by decide, ?_⟩
  have : (12 : Nat).primeFactors = {2, 3} := by decide +kernel
  intro q; rw [this]; simp; tauto

/-! ## Moebius -/

/-- mobius on the exponent list: 0 iff some exponent exceeds 1, else (-1)^(number of primes) -/
theorem mobiusGo_spec : ∀ (es : List Nat) (mob : Int),
    mobiusGo es mob = if es.all (· ≤ 1) then (-1) ^ es.length * mob else 0 := by
  intro es
  induction es with
  | nil => intro mob; simp [mobiusGo]
  | cons e t ih =>
    intro mob
    rw [mobiusGo]
    by_cases he : e > 1
    · have : ¬ e ≤ 1 := by omega
      simp [he, this]
    · have h1 : e ≤ 1 := by omega
      simp only [he, ↓reduceIte, ih, List.all_cons, h1, decide_true, Bool.true_and, List.length_cons]
      split <;> ring

/-- `mobius(lpow)` on the list of exponents of the factorisation: 0 as soon as an exponent exceeds 1, otherwise
    (-1)^(number of prime factors) — the definition of μ read on the exponent vector.
    Full statement (not proved): `= ArithmeticFunction.moebius n` for the exponent vector of `n`. -/
theorem mobius_exact_partial (es : List Nat) :
    mobiusL es = if es.all (· ≤ 1) then (-1) ^ es.length else 0 := by
  unfold mobiusL
  by_cases h : es.length ≠ 0
  · rw [if_pos h, mobiusGo_spec, mul_one]
  · have : es = [] := by
      cases es with
      | nil => rfl
      | cons a t => simp at h
    subst this; simp

/-! ## Carmichael functions -/

/-- the value `lambda_inv` computes is the lcm of the textbook `λ(p^e)` over the factor list -/
theorem lambdaInvPrimpow_formula (p e : Nat) (hp : 1 ≤ p) (he : 1 ≤ e) : lambdaInvPrimpow p e = (carmichaelPP p e : Int) := by
  unfold lambdaInvPrimpow carmichaelPP
  by_cases h2 : p = 2
  · subst h2
    simp only [Nat.cast_ofNat, ↓reduceIte]
    by_cases h : e ≤ 2
    · simp only [h, ↓reduceIte]
      have : e = 1 ∨ e = 2 := by omega
      rcases this with h | h <;> subst h <;> simp
    · simp only [h, ↓reduceIte]
      by_cases h3 : e = 3
      · subst h3; simp
      · simp [h3]
  · have : (p : Int) ≠ 2 := by exact_mod_cast h2
    simp only [this, h2, ↓reduceIte]
    push_cast [Nat.cast_sub hp]; ring

theorem lambdaFold_cast : ∀ (rest : List (Nat × Nat)) (l : Nat), (∀ pe ∈ rest, 1 ≤ pe.1 ∧ 1 ≤ pe.2) →
    rest.foldl (fun (z : Int) (qf : Nat × Nat) => ((Int.lcm z (lambdaInvPrimpow qf.1 qf.2) : Nat) : Int)) (l : Int)
      = ((rest.foldl (fun l pe => Nat.lcm l (carmichaelPP pe.1 pe.2)) l : Nat) : Int) := by
  intro rest
  induction rest with
  | nil => intro l _; simp
  | cons pe t ih =>
    intro l hv
    simp only [List.foldl_cons]
    have h := hv pe (by simp)
    rw [lambdaInvPrimpow_formula pe.1 pe.2 h.1 h.2]
    have : ((Int.lcm (l : Int) ((carmichaelPP pe.1 pe.2 : Nat) : Int) : Nat) : Int) = ((Nat.lcm l (carmichaelPP pe.1 pe.2) : Nat) : Int) := by
      simp [Int.lcm]
    rw [this]
    exact ih _ (fun q hq => hv q (by simp [hq]))

/-- the value computed by `lambda_base` on a factor list `(p_i, e_i)` (`p_i ≥ 1`, `e_i ≥ 1`) is the lcm of the textbook
    `λ(p_i^e_i)` -/
theorem lambdaBaseL_formula (fs : List (Nat × Nat)) (hne : fs ≠ []) (hv : ∀ pe ∈ fs, 1 ≤ pe.1 ∧ 1 ≤ pe.2) :
    lambdaBaseL fs = (carmichaelFormula fs : Int) := by
  cases fs with
  | nil => exact absurd rfl hne
  | cons pe t =>
    obtain ⟨p, e⟩ := pe
    have h := hv (p, e) (by simp)
    unfold lambdaBaseL carmichaelFormula
    simp only [List.foldl_cons]
    rw [lambdaInvPrimpow_formula p e h.1 h.2, lambdaFold_cast t _ (fun q hq => hv q (by simp [hq]))]
    simp

/-- `lambda_inv(m)` is the Carmichael formula on the factorisation the code obtains, for every `m ≥ 2`: the early returns for
    m = 2, 3, 4, 8 agree with the general branch.  The factor list is the model's `factorize` (stand-in for
    `IntFactorDom::set`); its well-formedness is the hypothesis `hv`. -/
theorem lambda_inv_formula (m : Int) (hm : 2 ≤ m) (hne : factorize m.natAbs ≠ [])
    (hv : ∀ pe ∈ factorize m.natAbs, 1 ≤ pe.1 ∧ 1 ≤ pe.2) :
    lambdaInv m = (carmichaelFormula (factorize m.natAbs) : Int) := by
  unfold lambdaInv
  by_cases h2 : m = 2
  · subst h2; decide +kernel
  by_cases h3 : m = 3
  · subst h3; decide +kernel
  by_cases h4 : m = 4
  · subst h4; decide +kernel
  by_cases h8 : m = 8
  · subst h8; decide +kernel
  simp only [h2, h3, h4, h8, or_self, ↓reduceIte]
  exact lambdaBaseL_formula _ hne hv

example : factorize (12 : Int).natAbs ≠ [] ∧ ∀ pe ∈ factorize (12 : Int).natAbs, 1 ≤ pe.1 ∧ 1 ≤ pe.2 := by decide +kernel

/-- `lambda` is `lambda_inv` except at `m = 8` (header: "Both functions coincide except for m=8") -/
theorem lambda_eq_lambda_inv (m : Int) : lambda m = if m = 8 then 3 else lambdaInv m := by
  unfold lambda lambdaInv
  by_cases h2 : m = 2
  · subst h2; decide
  by_cases h3 : m = 3
  · subst h3; decide
  by_cases h4 : m = 4
  · subst h4; decide
  by_cases h8 : m = 8
  · subst h8; decide
  simp [h2, h3, h4, h8]

end Givaro.Props.C13
