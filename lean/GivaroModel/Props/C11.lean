/-
C11 — rational reconstruction is sound, and complete inside the uniqueness bound.

All theorems speak about the executable model `Model/RatRecon.lean`, which mirrors
givratreconstruct.C / givpoly1ratrecon.inl branch by branch and is tied to the compiled code by the
correspondence run of `checks/c11.py` (every line: model = implementation, implementation accepted by
`soundB`, whose meaning is `soundB_iff`).  Quantifiers: every residue `f : Int` (negative, ≥ m, < -m),
every modulus `m ≥ 2`, every bound `1 ≤ k ≤ m`, both values of `forcereduce`; no bound on sizes.
-/
import GivaroModel.Model.RatRecon
import GivaroModel.Spec.RatReconSpec
import GivaroModel.Lemmas.RatReconLemmas
import GivaroModel.Lemmas.RatReconComplete
import GivaroModel.Lemmas.RatReconPoly
import GivaroModel.Lemmas.RatReconPolyFull
import GivaroModel.Lemmas.RatReconPolyMathlib
namespace Givaro.Props.C11
open Givaro.Model.RatRecon Givaro.Spec.RatRecon Givaro.Lemmas.RatRecon

/-! ### the checkers run by the driver mean what the property says -/

theorem soundB_iff (f m k : Int) (reduce : Bool) (num den : Int) :
    soundB f m k reduce num den = true ↔ Sound f m k reduce num den := by
  unfold soundB Sound
  simp only [Bool.and_eq_true, decide_eq_true_eq, Bool.or_eq_true, Bool.not_eq_true', beq_iff_eq]
  constructor
  · rintro ⟨⟨⟨h1, h2⟩, h3⟩, h4⟩
    refine ⟨Int.dvd_of_emod_eq_zero h1, h2, h3, ?_⟩
    intro hr; cases h4 with
    | inl h => rw [hr] at h; cases h
    | inr h => exact h
  · rintro ⟨h1, h2, h3, h4⟩
    refine ⟨⟨⟨Int.emod_eq_zero_of_dvd h1, h2⟩, h3⟩, ?_⟩
    cases reduce with
    | false => left; rfl
    | true => right; exact h4 rfl

theorem envelopeB_iff (a b m : Int) : envelopeB a b m = true ↔ Envelope a b m := by
  unfold envelopeB Envelope
  simp only [Bool.and_eq_true, decide_eq_true_eq, beq_iff_eq]
  constructor
  · rintro ⟨⟨⟨⟨h1, h2⟩, h3⟩, h4⟩, h5⟩; exact ⟨h1, h2, h3, h4, h5⟩
  · rintro ⟨h1, h2, h3, h4, h5⟩; exact ⟨⟨⟨⟨h1, h2⟩, h3⟩, h4⟩, h5⟩

theorem isResidueOfB_iff (f a b m : Int) : isResidueOfB f a b m = true ↔ IsResidueOf f a b m := by
  unfold isResidueOfB IsResidueOf
  simp only [Bool.and_eq_true, decide_eq_true_eq]
  constructor
  · rintro ⟨⟨h1, h2⟩, h3⟩; exact ⟨h1, h2, Int.dvd_of_emod_eq_zero h3⟩
  · rintro ⟨h1, h2, h3⟩; exact ⟨⟨h1, h2⟩, Int.emod_eq_zero_of_dvd h3⟩

/-! ### Tier A — soundness of `Rational::ratrecon` (= `ZRing<Integer>::ratrecon`) -/

/-- Whenever ratrecon reports success for residue f, modulus m ≥ 2 and bound k ∈ [1,m]:
    num ≡ den·f (mod m), |num| < k, den > 0, and gcd(num,den) = 1 when `forcereduce`.  Every `f : Int`. -/
theorem ratrecon_sound (f m k : Int) (fr : Bool) (hm : 2 ≤ m) (hk : 1 ≤ k) (hkm : k ≤ m)
    (hok : (ratrecon f m k fr).ok = true) :
    Sound f m k fr (ratrecon f m k fr).num (ratrecon f m k fr).den :=
  ratreconFuel_sound f m k fr (fuelFor f m) (by omega) hk (Or.inl hkm) (Nat.le_refl _) hok

example : (ratrecon 75 250 26 true) = ⟨true, -25, 3⟩ := by decide
example : (ratrecon 75 250 17 true).ok = false := by decide
example : (ratrecon (-100) 7 3 true) = ⟨true, -2, 1⟩ := by decide

/-- the loop terminates within `fuelFor f m = r1.toNat + 1` iterations (the loop condition is false in the state
    the model stops in), and any larger fuel gives the same result: the fuel is not a bound on the inputs. -/
theorem fuel_suffices (f m k : Int) (fr : Bool) (fuel : Nat) (hm : 2 ≤ m) (hk : 1 ≤ k) (hkm : k ≤ m)
    (hfuel : fuelFor f m ≤ fuel) :
    (loop k (fuelFor f m) ⟨m, 0, startR1 f m, 1⟩).r1 < k ∧ ratreconFuel fuel f m k fr = ratrecon f m k fr := by
  obtain ⟨h0, _, _⟩ := startR1_facts f m (by omega)
  have hi := linv_init (startR1 f m) m k (by omega) hkm h0
  have hx := loop_exit (startR1 f m) m k hk (fuelFor f m) _ hi (by unfold fuelFor; simp only []; omega)
  refine ⟨hx, ?_⟩
  obtain ⟨j, rfl⟩ := Nat.exists_eq_add_of_le hfuel
  unfold ratrecon ratreconFuel
  rw [loop_stable k _ _ hx j]

example : fuelFor 75 250 ≤ 1000 := by decide

/-! ### the wrappers -/

/-- 7-argument `RationalReconstruction` without widening: same guarantee for the *un-normalised* residue f -/
theorem rationalReconstruction_sound (f m k : Int) (fr : Bool) (hm : 2 ≤ m) (hk : 1 ≤ k) (hkm : k ≤ m)
    (hok : (rationalReconstruction f m k fr false).ok = true) :
    Sound f m k fr (rationalReconstruction f m k fr false).num (rationalReconstruction f m k fr false).den := by
  obtain ⟨x0, xm, xd⟩ := normResidue_facts f m (by omega)
  unfold rationalReconstruction at hok ⊢
  simp only [] at hok ⊢
  split
  · rename_i hx0
    rw [hx0] at xd
    obtain ⟨c, hc⟩ := xd
    exact ⟨⟨c, by simp; omega⟩, by simp; omega, by decide, fun _ => by decide⟩
  · rename_i hx0
    rw [if_neg hx0] at hok
    simp only [Bool.false_eq_true, if_false] at hok ⊢
    exact sound_of_congr f _ m k fr _ _ xd (ratrecon_sound _ m k fr hm hk hkm hok)

example : (rationalReconstruction (-100) 7 3 true false) = ⟨true, -2, 1⟩ := by decide

/-- 7-argument `RationalReconstruction` with widening (`recursive = true`): a reported success is sound for the
    bound that was finally tried, which is `k` itself or lies in `(k, f)`. -/
theorem rationalReconstruction_sound_widen (f m k : Int) (fr rc : Bool) (hm : 2 ≤ m) (hk : 1 ≤ k) (hkm : k ≤ m)
    (hok : (rationalReconstruction f m k fr rc).ok = true) :
    ∃ k', (k' = k ∨ (k < k' ∧ k' < f)) ∧
      Sound f m k' fr (rationalReconstruction f m k fr rc).num (rationalReconstruction f m k fr rc).den := by
  cases rc with
  | false => exact ⟨k, Or.inl rfl, rationalReconstruction_sound f m k fr hm hk hkm hok⟩
  | true =>
    obtain ⟨x0, xm, xd⟩ := normResidue_facts f m (by omega)
    unfold rationalReconstruction at hok ⊢
    simp only [] at hok ⊢
    split
    · rename_i hx0
      rw [hx0] at xd
      obtain ⟨c, hc⟩ := xd
      exact ⟨k, Or.inl rfl, ⟨c, by simp; omega⟩, by simp; omega, by decide, fun _ => by decide⟩
    · rename_i hx0
      rw [if_neg hx0] at hok
      simp only [if_true] at hok ⊢
      rcases widen_cases (normResidue f m) m f fr (widenFuel f) (k + 1) (ratrecon (normResidue f m) m k fr) (by omega)
        with h | ⟨k', h1, h2, h3⟩
      · rw [h] at hok ⊢
        exact ⟨k, Or.inl rfl, sound_of_congr f _ m k fr _ _ xd (ratrecon_sound _ m k fr hm hk hkm hok)⟩
      · rw [h3] at hok ⊢
        refine ⟨k', Or.inr ⟨by omega, h2⟩, sound_of_congr f _ m k' fr _ _ xd ?_⟩
        refine ratreconFuel_sound _ m k' fr _ (by omega) (by omega) ?_ (Nat.le_refl _) hok
        by_cases hk'm : k' ≤ m
        · exact Or.inl hk'm
        · right
          have : startR1 (normResidue f m) m = normResidue f m := by unfold startR1; rw [if_neg (by omega)]
          omega

example : (rationalReconstruction 75 250 17 true true) = ⟨true, -25, 3⟩ := by decide

theorem isqrt_facts (m : Int) (hm : 2 ≤ m) : 1 ≤ isqrt m ∧ isqrt m ≤ m ∧ isqrt m * isqrt m ≤ m := by
  unfold isqrt
  have h1 : 0 < Nat.sqrt m.toNat := Nat.sqrt_pos.mpr (by omega)
  have h2 : Nat.sqrt m.toNat ≤ m.toNat := Nat.sqrt_le_self _
  have h3 : Nat.sqrt m.toNat * Nat.sqrt m.toNat ≤ m.toNat := Nat.sqrt_le _
  have h4 : ((Nat.sqrt m.toNat * Nat.sqrt m.toNat : Nat) : Int) ≤ (m.toNat : Int) := Int.ofNat_le.mpr h3
  rw [Int.natCast_mul] at h4
  refine ⟨by simp only [Int.ofNat_eq_natCast]; omega, by simp only [Int.ofNat_eq_natCast]; omega, ?_⟩
  simp only [Int.ofNat_eq_natCast]
  omega

/-- 4-argument `RationalReconstruction` (default bound ⌊√m⌋, reduced fraction requested) -/
theorem rationalReconstructionDefault_sound (f m : Int) (hm : 2 ≤ m)
    (hok : (rationalReconstructionDefault f m).ok = true) :
    Sound f m (isqrt m) true (rationalReconstructionDefault f m).num (rationalReconstructionDefault f m).den := by
  obtain ⟨h1, h2, _⟩ := isqrt_facts m hm
  exact ratrecon_sound f m (isqrt m) true hm h1 h2 hok

example : rationalReconstructionDefault 145 1009 = ⟨true, 6, 7⟩ := by decide +kernel

/-- 6-argument `RationalReconstruction(a,b,x,m,a_bound,b_bound)`: the numerator bound used is `max(a_bound, x / b_bound)` -/
theorem rationalReconstructionBounds_sound (x m ab bb : Int) (hm : 2 ≤ m) (hab : 1 ≤ ab)
    (hkm : (if Int.tdiv x bb > ab then Int.tdiv x bb else ab) ≤ m)
    (hok : (rationalReconstructionBounds x m ab bb).ok = true) :
    Sound x m (if Int.tdiv x bb > ab then Int.tdiv x bb else ab) true
      (rationalReconstructionBounds x m ab bb).num (rationalReconstructionBounds x m ab bb).den ∧
    (rationalReconstructionBounds x m ab bb).den ≤ bb := by
  unfold rationalReconstructionBounds at hok ⊢
  simp only [Bool.and_eq_true, decide_eq_true_eq] at hok ⊢
  exact ⟨ratrecon_sound x m _ true hm (by split <;> omega) hkm hok.1, hok.2⟩

example : (rationalReconstructionBounds 145 1009 10 10) = ⟨true, 6, 7⟩ := by decide

/-! ### Tier B — completeness inside the uniqueness envelope -/

/-- For every fraction a/b with gcd(a,b) = gcd(b,m) = 1, 4|a| ≤ ⌊√m⌋, 4b ≤ ⌊√m⌋ and *every* representative f of
    a·b⁻¹ mod m (canonical, negative, ≥ m, < -m), reconstruction with the default bound returns exactly a/b. -/
theorem ratrecon_complete (a b m f : Int) (hm : 2 ≤ m) (henv : Envelope a b m) (hf : m ∣ (b * f - a)) :
    rationalReconstructionDefault f m = ⟨true, a, b⟩ := by
  obtain ⟨hb, hab, _, ha4, hb4⟩ := henv
  obtain ⟨k1, k2, k3⟩ := isqrt_facts m hm
  obtain ⟨h0, hd, _⟩ := startR1_facts f m (by omega)
  have hi := linv_init (startR1 f m) m (isqrt m) (by omega) k2 h0
  have hl := loop_inv (startR1 f m) m (isqrt m) k1 (fuelFor f m) _ hi
  have hx := loop_exit (startR1 f m) m (isqrt m) k1 (fuelFor f m) _ hi (by unfold fuelFor; simp only []; omega)
  unfold rationalReconstructionDefault ratrecon ratreconFuel
  exact finish_complete f (startR1 f m) m (isqrt m) a b _ (by omega) k1 k3 hd hf hb hab ha4 hb4 hl hx

example : Envelope 6 7 1009 ∧ (1009 : Int) ∣ (7 * 145 - 6) :=
  ⟨(envelopeB_iff 6 7 1009).mp (by decide +kernel), ⟨1, by decide⟩⟩

/-- the same through `QField<Rational>::ratrecon(r, f, m, recurs)` (= `Rational(f, m, sqrt(m), recurs)`):
    the first call succeeds, so the widening loop does not run -/
theorem qfield_ratrecon_complete (a b m f : Int) (rc : Bool) (hm : 2 ≤ m) (henv : Envelope a b m) (hf : m ∣ (b * f - a)) :
    (qfieldRatreconDefault f m rc).num = a ∧ (qfieldRatreconDefault f m rc).den = b := by
  have h := ratrecon_complete a b m f hm henv hf
  unfold rationalReconstructionDefault isqrt at h
  unfold qfieldRatreconDefault rationalCtor
  simp only []
  cases rc with
  | false => simp only [Bool.false_eq_true, if_false]; rw [h]; exact ⟨rfl, rfl⟩
  | true =>
    simp only [if_true]
    rw [h]
    have : ∀ n newk, widen f m f true n newk ⟨true, a, b⟩ = ⟨true, a, b⟩ := by
      intro n newk; cases n with
      | zero => rfl
      | succ n => unfold widen; simp
    rw [this]; exact ⟨rfl, rfl⟩

/-! ### Tier A (polynomials) — soundness of `Poly1Dom::ratrecon(N,D,P,M,dk,forcereduce)`

Full statement aimed at: the same conclusion for the concrete Poly1Dom primitives.  What is proved: the model of
givpoly1ratrecon.inl (loop, early exits, `ratreconcheck`, unit normalisation) is sound for *every* implementation of
the primitives `degree/divmodin/maxpyin/gcd/leadcoef/divin` that satisfies the polynomial-ring laws `LawfulOps`
(no bound on degrees or on the fuel: a fuel too small only makes the model report failure).  That Poly1Dom's
primitives satisfy these laws is property C08; the driver runs the model with list polynomials over Z/p and compares
with the compiled code on every case.  Quantifier: deg M ≥ 1 and 0 ≤ dk < deg M (the analogue of m ≥ 2, 1 ≤ k ≤ m);
every residue P, including deg P ≥ deg M. -/
theorem poly_ratrecon_sound_partial {P : Type} [CommRing P] (O : PolyOps P) (L : LawfulOps O) (fuel : Nat)
    (p m : P) (dk : Int) (fr : Bool) (hdk : 0 ≤ dk) (hdm : dk < O.deg m)
    (hok : (polyRatrecon6Fuel O fuel p m dk fr).ok = true) :
    PolySound O p m dk fr (polyRatrecon6Fuel O fuel p m dk fr).n (polyRatrecon6Fuel O fuel p m dk fr).d :=
  polyRatrecon6Fuel_sound L fuel p m dk fr hdk hdm hok

/-- the executable instance used by the driver, on one input over Z/7 (M = X³+2, P = 4X²+X+3, dk = 1): success, and the
    Bool checker accepts the pair -/
example : (polyRatrecon 7 [3, 1, 4] [2, 0, 0, 1] 1 true).ok = true ∧
    polySoundB 7 [3, 1, 4] [2, 0, 0, 1] 1 true (polyRatrecon 7 [3, 1, 4] [2, 0, 0, 1] 1 true).n
      (polyRatrecon 7 [3, 1, 4] [2, 0, 0, 1] 1 true).d = true := by decide +kernel

/-! ### Completeness and uniqueness for every modulus, residue and bound (MCA Thm 5.26 for the code as written)

`Solution f m k n d`:  n ≡ d·f (mod m), |n| < k, 0 < d, d·k ≤ m (the documented "0 ≤ den ≤ m/k"), gcd(n,d) = 1. -/

theorem solutionB_iff (f m k n d : Int) : solutionB f m k n d = true ↔ Solution f m k n d := by
  unfold solutionB Solution
  simp only [Bool.and_eq_true, decide_eq_true_eq, beq_iff_eq]
  constructor
  · rintro ⟨⟨⟨⟨h1, h2⟩, h3⟩, h4⟩, h5⟩; exact ⟨Int.dvd_of_emod_eq_zero h1, h2, h3, h4, h5⟩
  · rintro ⟨h1, h2, h3, h4, h5⟩; exact ⟨⟨⟨⟨Int.emod_eq_zero_of_dvd h1, h2⟩, h3⟩, h4⟩, h5⟩

/-- If a reduced fraction within the documented bounds exists, `ratrecon` reports success (either flag); the answer is
    that fraction, except possibly when `2·k·d > m`, where the other of the (at most two) candidates may be returned. -/
theorem ratrecon_complete_general (f m k n d : Int) (fr : Bool) (hm : 2 ≤ m) (hk : 1 ≤ k) (hkm : k ≤ m)
    (hs : Solution f m k n d) :
    (ratrecon f m k fr).ok = true ∧ (ratrecon f m k fr = ⟨true, n, d⟩ ∨ m < 2 * k * d) := by
  obtain ⟨h1, h2, h3, h4, h5⟩ := hs
  obtain ⟨hl, hx, hd⟩ := exitSt_facts f m k (by omega) hk hkm
  rw [ratrecon_eq_finish]
  exact finish_general f _ m k n d fr _ (by omega) hk hkm hd h1 h2 h3 h4 h5 hl hx

example : Solution 145 1009 31 6 7 := (solutionB_iff _ _ _ _ _).mp (by decide)

/-- … hence a reported failure is exact: no reduced fraction within the bounds exists -/
theorem ratrecon_false_no_solution (f m k : Int) (fr : Bool) (hm : 2 ≤ m) (hk : 1 ≤ k) (hkm : k ≤ m)
    (hfalse : (ratrecon f m k fr).ok = false) : ∀ n d, ¬ Solution f m k n d := by
  intro n d hs
  have := (ratrecon_complete_general f m k n d fr hm hk hkm hs).1
  rw [hfalse] at this; cases this

example : (ratrecon 75 250 17 true).ok = false := by decide

/-- uniqueness: inside `2·k·d ≤ m` the answer is exactly the reduced fraction, for both values of `forcereduce` -/
theorem ratrecon_unique (f m k n d : Int) (fr : Bool) (hm : 2 ≤ m) (hk : 1 ≤ k) (hkm : k ≤ m)
    (hs : Solution f m k n d) (h2 : 2 * k * d ≤ m) : ratrecon f m k fr = ⟨true, n, d⟩ := by
  rcases (ratrecon_complete_general f m k n d fr hm hk hkm hs).2 with h | h
  · exact h
  · omega

/-- Wang's uniqueness lemma (independent of the code): two reduced fractions congruent to `f` modulo `m` with
    `|num| ≤ N`, `0 < den ≤ D` and `2·N·D < m` are equal -/
theorem wang_uniqueness (f m N D n1 d1 n2 d2 : Int) (h1 : m ∣ (n1 - d1 * f)) (h2 : m ∣ (n2 - d2 * f))
    (hn1 : -N ≤ n1 ∧ n1 ≤ N) (hn2 : -N ≤ n2 ∧ n2 ≤ N) (hd1 : 0 < d1 ∧ d1 ≤ D) (hd2 : 0 < d2 ∧ d2 ≤ D)
    (hND : 2 * N * D < m) (hg1 : Int.gcd n1 d1 = 1) (hg2 : Int.gcd n2 d2 = 1) : n1 = n2 ∧ d1 = d2 :=
  wang_unique f m N D n1 d1 n2 d2 h1 h2 hn1 hn2 hd1 hd2 hND hg1 hg2

/-- `forcereduce = false`: the call always succeeds and returns the first candidate, whose denominator obeys the
    documented bound `0 < den ≤ m/k` (soundness of the pair is `ratrecon_sound`) -/
theorem ratrecon_noreduce_total (f m k : Int) (hm : 2 ≤ m) (hk : 1 ≤ k) (hkm : k ≤ m) :
    (ratrecon f m k false).ok = true ∧ 0 < (ratrecon f m k false).den ∧ (ratrecon f m k false).den * k ≤ m := by
  obtain ⟨hl, hx, _⟩ := exitSt_facts f m k (by omega) hk hkm
  rw [ratrecon_eq_finish, finish_noreduce]
  exact ⟨rfl, cand1_bound _ m k _ hl hx hkm⟩

/-- with `forcereduce = true`, a success whose denominator breaks `den·k ≤ m` can only be the second candidate: the
    code prints a diagnostic but still returns `true`; the property's soundness clauses do not bound `den` -/
example : (ratrecon 3 8 3 true) = ⟨true, 1, 3⟩ ∧ ¬ ((3 : Int) * 3 ≤ 8) := by decide

/-! ### the wrappers: residue normalisation, widening (`recurs`), default bound `⌊√m⌋`, numerator/denominator bounds -/

theorem solution_congr (f x m k n d : Int) (hx : m ∣ (x - f)) (h : Solution f m k n d) : Solution x m k n d := by
  obtain ⟨⟨c, hc⟩, h2, h3, h4, h5⟩ := h
  obtain ⟨e, he⟩ := hx
  refine ⟨⟨c - d * e, ?_⟩, h2, h3, h4, h5⟩
  have : x = f + m * e := by omega
  rw [this]
  have : n - d * (f + m * e) = (n - d * f) - m * (d * e) := by ring
  rw [this, hc]; ring

/-- 7-argument `RationalReconstruction`, either value of `recursive`: same completeness for the un-normalised residue -/
theorem rationalReconstruction_complete (f m k n d : Int) (fr rc : Bool) (hm : 2 ≤ m) (hk : 1 ≤ k) (hkm : k ≤ m)
    (hs : Solution f m k n d) :
    (rationalReconstruction f m k fr rc).ok = true ∧
      (rationalReconstruction f m k fr rc = ⟨true, n, d⟩ ∨ m < 2 * k * d) := by
  obtain ⟨x0, xm, xd⟩ := normResidue_facts f m (by omega)
  unfold rationalReconstruction
  simp only []
  split
  · rename_i hx0
    -- m ∣ f: the only reduced solution is 0/1
    obtain ⟨⟨c, hc⟩, h2, h3, h4, h5⟩ := hs
    rw [hx0] at xd
    obtain ⟨e, he⟩ := xd
    have hn0 : n = 0 := by
      have hdvd : m ∣ n := ⟨c - d * e, by
        have : f = -(m * e) := by omega
        have h' : n = m * c + d * f := by omega
        rw [h', this]; ring⟩
      exact Int.eq_zero_of_abs_lt_dvd hdvd (abs_lt.mpr ⟨by omega, by omega⟩)
    have hd1 : d = 1 := by
      rw [hn0, Int.gcd_zero_left] at h5
      omega
    rw [hn0, hd1]
    exact ⟨rfl, Or.inl rfl⟩
  · have hs' := solution_congr f _ m k n d xd hs
    obtain ⟨g1, g2⟩ := ratrecon_complete_general _ m k n d fr hm hk hkm hs'
    cases rc with
    | false => simp only [Bool.false_eq_true, if_false]; exact ⟨g1, g2⟩
    | true => simp only [if_true]; rw [widen_of_ok _ _ _ _ _ _ _ g1]; exact ⟨g1, g2⟩

/-- … and its failures are exact.  Without widening: no reduced fraction within the bound `k`.  With widening
    (`newk = k+1, 2(k+1), 4(k+1), … < f`): none within `k` nor within any of the bounds tried (the fuel
    `widenFuel f` always reaches `newk ≥ f`). -/
theorem rationalReconstruction_false (f m k : Int) (fr rc : Bool) (hm : 2 ≤ m) (hk : 1 ≤ k) (hkm : k ≤ m)
    (hfalse : (rationalReconstruction f m k fr rc).ok = false) :
    (∀ n d, ¬ Solution f m k n d) ∧
    (rc = true → ∀ i : Nat, (k + 1) * 2 ^ i < f → (k + 1) * 2 ^ i ≤ m → ∀ n d, ¬ Solution f m ((k + 1) * 2 ^ i) n d) := by
  constructor
  · intro n d hs
    have := (rationalReconstruction_complete f m k n d fr rc hm hk hkm hs).1
    rw [hfalse] at this; cases this
  · intro hrc i hi him n d hs
    subst hrc
    obtain ⟨x0, xm, xd⟩ := normResidue_facts f m (by omega)
    unfold rationalReconstruction at hfalse
    simp only [] at hfalse
    split at hfalse
    · cases hfalse
    · simp only [if_true] at hfalse
      obtain ⟨_, hall⟩ := widen_fail (normResidue f m) m f fr (widenFuel f) (k + 1) _ (by omega)
        (by unfold widenFuel; omega) hfalse
      have hk' : 1 ≤ (k + 1) * 2 ^ i := by
        have : (0 : Int) < 2 ^ i := by positivity
        have : (k + 1) * 1 ≤ (k + 1) * 2 ^ i := Int.mul_le_mul_of_nonneg_left (by omega) (by omega)
        omega
      have := (ratrecon_complete_general _ m _ n d fr hm hk' him (solution_congr f _ m _ n d xd hs)).1
      rw [hall i hi] at this; cases this

example : (rationalReconstruction 75 250 17 true false).ok = false := by decide

/-- `mpz_sqrt` is used exactly: `⌊√m⌋² ≤ m < (⌊√m⌋+1)²`; consequently every `d ≤ ⌊√m⌋` satisfies the denominator bound
    `d·k ≤ m` of the default-bound overloads -/
theorem isqrt_exact (m : Int) (hm : 0 ≤ m) :
    0 ≤ isqrt m ∧ isqrt m * isqrt m ≤ m ∧ m < (isqrt m + 1) * (isqrt m + 1) ∧
      ∀ d, 0 ≤ d → d ≤ isqrt m → d * isqrt m ≤ m := by
  unfold isqrt
  have h3 : Nat.sqrt m.toNat * Nat.sqrt m.toNat ≤ m.toNat := Nat.sqrt_le _
  have h4 : m.toNat < (Nat.sqrt m.toNat + 1) * (Nat.sqrt m.toNat + 1) := Nat.lt_succ_sqrt _
  have h3' : ((Nat.sqrt m.toNat * Nat.sqrt m.toNat : Nat) : Int) ≤ (m.toNat : Int) := Int.ofNat_le.mpr h3
  have h4' : ((m.toNat : Nat) : Int) < (((Nat.sqrt m.toNat + 1) * (Nat.sqrt m.toNat + 1) : Nat) : Int) := Int.ofNat_lt.mpr h4
  simp only [Int.ofNat_eq_natCast]
  push_cast at h3' h4'
  have hmm : (m.toNat : Int) = m := Int.toNat_of_nonneg hm
  rw [hmm] at h3' h4'
  refine ⟨by omega, h3', h4', ?_⟩
  intro d hd0 hd
  have : d * (Nat.sqrt m.toNat : Int) ≤ (Nat.sqrt m.toNat : Int) * (Nat.sqrt m.toNat : Int) :=
    Int.mul_le_mul_of_nonneg_right hd (by omega)
  omega

/-- 4-argument `RationalReconstruction` (bound `⌊√m⌋`, reduced, no widening): complete, exact on failure, unique inside `2kd ≤ m` -/
theorem rationalReconstructionDefault_complete (f m n d : Int) (hm : 2 ≤ m) (hs : Solution f m (isqrt m) n d) :
    (rationalReconstructionDefault f m).ok = true ∧
      (rationalReconstructionDefault f m = ⟨true, n, d⟩ ∨ m < 2 * isqrt m * d) := by
  obtain ⟨k1, k2, _⟩ := isqrt_facts m hm
  exact ratrecon_complete_general f m (isqrt m) n d true hm k1 k2 hs

theorem rationalReconstructionDefault_false (f m : Int) (hm : 2 ≤ m)
    (hfalse : (rationalReconstructionDefault f m).ok = false) : ∀ n d, ¬ Solution f m (isqrt m) n d := by
  obtain ⟨k1, k2, _⟩ := isqrt_facts m hm
  exact ratrecon_false_no_solution f m (isqrt m) true hm k1 k2 hfalse

example : Solution 145 1009 (isqrt 1009) 6 7 := (solutionB_iff _ _ _ _ _).mp (by decide +kernel)

/-- 6-argument overload: numerator bound `k' = max(a_bound, x / b_bound)`; inside the uniqueness bound it returns the
    reduced fraction iff its denominator is `≤ b_bound` -/
theorem rationalReconstructionBounds_complete (x m ab bb n d : Int) (hm : 2 ≤ m) (hab : 1 ≤ ab)
    (hkm : (if Int.tdiv x bb > ab then Int.tdiv x bb else ab) ≤ m)
    (hs : Solution x m (if Int.tdiv x bb > ab then Int.tdiv x bb else ab) n d)
    (h2 : 2 * (if Int.tdiv x bb > ab then Int.tdiv x bb else ab) * d ≤ m) :
    rationalReconstructionBounds x m ab bb = ⟨decide (d ≤ bb), n, d⟩ := by
  unfold rationalReconstructionBounds
  simp only []
  rw [ratrecon_unique x m _ n d true hm (by split <;> omega) hkm hs h2]
  simp

/-- `Rational(f,m,k,recurs)` / `QField::ratrecon(r,f,m,k,recurs)` (no success flag): inside the uniqueness bound the
    object holds exactly the reduced fraction (the first call succeeds, so the widening loop does not run) -/
theorem qfield_ratrecon_unique (f m k n d : Int) (rc : Bool) (hm : 2 ≤ m) (hk : 1 ≤ k) (hkm : k ≤ m)
    (hs : Solution f m k n d) (h2 : 2 * k * d ≤ m) :
    (qfieldRatrecon f m k rc).num = n ∧ (qfieldRatrecon f m k rc).den = d := by
  have h := ratrecon_unique f m k n d true hm hk hkm hs h2
  unfold qfieldRatrecon rationalCtor
  simp only []
  cases rc with
  | false => simp only [Bool.false_eq_true, if_false]; rw [h]; exact ⟨rfl, rfl⟩
  | true => simp only [if_true]; rw [h, widen_of_ok _ _ _ _ _ _ _ rfl]; exact ⟨rfl, rfl⟩

/-! ### Polynomial reconstruction at full strength: the loop of givpoly1ratrecon.inl run on `Polynomial F`

`mathlibOps F` interprets the Poly1Dom primitives called by the code (`degree`, `divmodin`, `maxpyin`, `gcd`,
`leadcoef`, `divin`) by Mathlib's polynomial operations over an arbitrary field `F`; `pdeg` is Givaro's `Degree`
(−1 for 0).  Quantifier: every field, every modulus with `deg M ≥ 1`, every residue `P` (also `deg P ≥ deg M`),
every `0 ≤ dk < deg M`, every fuel `≥ deg P + 2` (the driver uses `|P| + |M| + 2`). -/
section poly
open Polynomial
variable (F : Type) [Field F]

/-- the laws assumed by `poly_ratrecon_sound_partial` and by the generic lemmas are satisfied (non-vacuity) -/
example : EuclidLaws (mathlibOps F) := mathlibOps_laws F
example : (0 : Int) ≤ 1 ∧ (1 : Int) < pdeg (X ^ 2 : F[X]) ∧ ¬ (pdeg (X : F[X]) = 0 ∧ (1 : Int) = 0) := by
  have h : (X ^ 2 : F[X]) ≠ 0 := pow_ne_zero 2 X_ne_zero
  refine ⟨by omega, ?_, by omega⟩
  rw [pdeg_of_ne h, natDegree_X_pow]; norm_num

/-- `Poly1Dom::ratrecon(N,D,P,M,dk)`: the loop terminates, reports success, and returns `N ≡ D·P (mod M)` with
    `deg N ≤ dk`, `D ≠ 0`, `deg D ≤ deg M − dk` and `deg N + deg D < deg M`.
    (`deg N ≤ dk`, not `< dk`: the loop's exit tests are `degN <= dk`; only the early exit uses `degU < dk`.) -/
theorem poly_ratrecon_full (fuel : Nat) (p m : F[X]) (dk : Int) (hdk : 0 ≤ dk) (hdm : dk < pdeg m)
    (hfuel : pdeg p + 2 ≤ fuel) (hcorner : ¬ (pdeg p = 0 ∧ dk = 0)) :
    (polyRatreconFuel (mathlibOps F) fuel p m dk).ok = true ∧
    m ∣ ((polyRatreconFuel (mathlibOps F) fuel p m dk).n - (polyRatreconFuel (mathlibOps F) fuel p m dk).d * p) ∧
    pdeg (polyRatreconFuel (mathlibOps F) fuel p m dk).n ≤ dk ∧
    (polyRatreconFuel (mathlibOps F) fuel p m dk).d ≠ 0 ∧
    pdeg (polyRatreconFuel (mathlibOps F) fuel p m dk).d ≤ pdeg m - dk ∧
    pdeg (polyRatreconFuel (mathlibOps F) fuel p m dk).n + pdeg (polyRatreconFuel (mathlibOps F) fuel p m dk).d < pdeg m := by
  rcases polyRatreconFuel_full (mathlibOps_laws F) fuel p m dk hdk hdm hfuel with ⟨hok, ⟨s, hn, _⟩, h1, h2, h3, h4, _⟩ | ⟨a, b, _⟩
  · exact ⟨hok, ⟨s, by rw [hn]; ring⟩, h1, h2, h3, h4⟩
  · exact absurd ⟨a, b⟩ hcorner

/-- the one in-range input class on which the loop version reports failure: a non-zero constant residue with `dk = 0`
    (where `P/1` itself has degree `≤ dk`): `if ((degV < 0) || (degU == 0)) return false` -/
theorem poly_ratrecon_corner (fuel : Nat) (p m : F[X]) (hdm : 0 < pdeg m) (hp : pdeg p = 0) :
    (polyRatreconFuel (mathlibOps F) fuel p m 0).ok = false := by
  have h1 : (mathlibOps F).deg p = 0 := hp
  have h2 : ¬ ((mathlibOps F).deg p < 0 ∨ (mathlibOps F).deg m = 0) := by
    have : (mathlibOps F).deg m = pdeg m := rfl
    omega
  unfold polyRatreconFuel
  simp only [if_neg h2, if_pos (Or.inr h1 : (mathlibOps F).deg m < 0 ∨ (mathlibOps F).deg p = 0)]

/-- the fuel is not a bound on the input: every sufficient amount gives the same result -/
theorem poly_fuel_suffices (f1 f2 : Nat) (p m : F[X]) (dk : Int) (hdk : 0 ≤ dk) (hdm : dk < pdeg m)
    (h1 : pdeg p + 2 ≤ f1) (h2 : pdeg p + 2 ≤ f2) :
    polyRatreconFuel (mathlibOps F) f1 p m dk = polyRatreconFuel (mathlibOps F) f2 p m dk :=
  polyRatreconFuel_fuel_indep (mathlibOps_laws F) f1 f2 p m dk hdk hdm h1 h2

/-- minimality (hence uniqueness up to a common factor): every `(A,B)` with `A ≡ B·P (mod M)`, `deg A ≤ dk`,
    `deg B < deg M − dk` (and `deg A < dk` in the boundary case `deg P = dk`) is `w·(N,D)` for the returned pair;
    in particular `A·D = B·N`. -/
theorem poly_ratrecon_minimal (fuel : Nat) (p m : F[X]) (dk : Int) (hdk : 0 ≤ dk) (hdm : dk < pdeg m)
    (hfuel : pdeg p + 2 ≤ fuel) (hcorner : ¬ (pdeg p = 0 ∧ dk = 0))
    (a b : F[X]) (hab : m ∣ (a - b * p)) (ha : pdeg a ≤ dk) (hb : pdeg b < pdeg m - dk)
    (hst : pdeg a < dk ∨ pdeg p ≠ dk) :
    ∃ w, a = w * (polyRatreconFuel (mathlibOps F) fuel p m dk).n ∧ b = w * (polyRatreconFuel (mathlibOps F) fuel p m dk).d := by
  rcases polyRatreconFuel_full (mathlibOps_laws F) fuel p m dk hdk hdm hfuel with ⟨_, hfull⟩ | ⟨x, y, _⟩
  · obtain ⟨t, ht⟩ := hab
    exact polyFull_minimal (mathlibOps_laws F) p m dk _ _ hdk hdm hfull a b t (by
      have : a = (a - b * p) + b * p := by ring
      rw [this, ht]; ring) ha hb hst
  · exact absurd ⟨x, y⟩ hcorner

/-- `Poly1Dom::ratreconcheck` (= `ratrecon(…, forcereduce = true)`) answers exactly:
    * `true` iff the row found by the loop is reduced (gcd(N,D) constant);
    * when `true`, the returned pair satisfies the bounds, is reduced, `gcd(D,M) = 1` (so `N/D ≡ P` is a genuine
      fraction modulo `M`) and `D` is monic;
    * whenever *some* `A/B` with `gcd(B,M) = 1` within the bounds is congruent to `P`, the answer is `true` and
      `(A,B) = w·(N,D)` — so `false` means no such fraction exists. -/
theorem poly_ratreconcheck_exact (fuel : Nat) (p m : F[X]) (dk : Int) (hdk : 0 ≤ dk) (hdm : dk < pdeg m)
    (hfuel : pdeg p + 2 ≤ fuel) (hcorner : ¬ (pdeg p = 0 ∧ dk = 0)) :
    ((polyRatrecon6Fuel (mathlibOps F) fuel p m dk true).ok = true ↔
        IsCoprime (polyRatreconFuel (mathlibOps F) fuel p m dk).n (polyRatreconFuel (mathlibOps F) fuel p m dk).d) ∧
    ((polyRatrecon6Fuel (mathlibOps F) fuel p m dk true).ok = true →
        m ∣ ((polyRatrecon6Fuel (mathlibOps F) fuel p m dk true).n - (polyRatrecon6Fuel (mathlibOps F) fuel p m dk true).d * p) ∧
        pdeg (polyRatrecon6Fuel (mathlibOps F) fuel p m dk true).n ≤ dk ∧
        pdeg (polyRatrecon6Fuel (mathlibOps F) fuel p m dk true).d ≤ pdeg m - dk ∧
        IsCoprime (polyRatrecon6Fuel (mathlibOps F) fuel p m dk true).n (polyRatrecon6Fuel (mathlibOps F) fuel p m dk true).d ∧
        IsCoprime (polyRatrecon6Fuel (mathlibOps F) fuel p m dk true).d m ∧
        (polyRatrecon6Fuel (mathlibOps F) fuel p m dk true).d.Monic) ∧
    (∀ a b : F[X], m ∣ (a - b * p) → pdeg a ≤ dk → pdeg b < pdeg m - dk → (pdeg a < dk ∨ pdeg p ≠ dk) → IsCoprime b m →
        (polyRatrecon6Fuel (mathlibOps F) fuel p m dk true).ok = true ∧
        ∃ w, a = w * (polyRatrecon6Fuel (mathlibOps F) fuel p m dk true).n ∧
             b = w * (polyRatrecon6Fuel (mathlibOps F) fuel p m dk true).d) := by
  obtain ⟨h1, h2, h3⟩ := polyCheck_full (mathlibOps_laws F) fuel p m dk hdk hdm hfuel hcorner
  have he : polyRatrecon6Fuel (mathlibOps F) fuel p m dk true = polyRatreconCheckFuel (mathlibOps F) fuel p m dk := by
    unfold polyRatrecon6Fuel; simp
  rw [he]
  refine ⟨h1, fun hok => ?_, fun a b hab ha hb hst hbm => ?_⟩
  · obtain ⟨⟨⟨s, hn, _⟩, g1, _, g3, _, _⟩, c1, c2, c3⟩ := h2 hok
    refine ⟨⟨s, by rw [hn]; ring⟩, g1, g3, c1, c2, ?_⟩
    classical
    exact of_decide_eq_true c3
  · obtain ⟨t, ht⟩ := hab
    exact h3 a b t (by
      have : a = (a - b * p) + b * p := by ring
      rw [this, ht]; ring) ha hb hst hbm

end poly

/-- boundary `deg P = dk` (excluded from the minimality/completeness statements above): the early exit tests `degU < dk`
    while the loop exits test `degN <= dk`, so for P = X, M = X², dk = 1 over GF(2) the loop runs on to the row (0, X) and
    `ratreconcheck` answers `false`, although X/1 has degree ≤ dk.  (List-polynomial instance run by the driver; the
    compiled code agrees on this input.) -/
example : (polyRatrecon 2 [0, 1] [0, 0, 1] 1 true).ok = false ∧ (polyRatrecon 2 [0, 1] [0, 0, 1] 1 false).n = [] := by
  decide +kernel

end Givaro.Props.C11
