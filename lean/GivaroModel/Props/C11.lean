/-
C11 — rational reconstruction is sound, and complete inside the uniqueness bound.

All theorems speak about the executable model `Model/RatRecon.lean`, which mirrors
givratreconstruct.C / givpoly1ratrecon.inl branch by branch and is tied to the compiled code by the
correspondence run of `checks/c11.py` (every line: model = implementation, implementation accepted by
`soundB`, whose meaning is `soundB_iff`).  Quantifiers: every residue `f : Int` (negative, ≥ m, < -m),
every modulus `m ≥ 2`, every bound `1 ≤ k ≤ m`, both values of `forcereduce`; no bound on sizes.
-/
import GivaroModel.Model.RatRecon
import GivaroModel.Spec.RatReconSpec
import GivaroModel.Lemmas.RatReconLemmas
import GivaroModel.Lemmas.RatReconPoly
namespace Givaro.Props.C11
open Givaro.Model.RatRecon Givaro.Spec.RatRecon Givaro.Lemmas.RatRecon

/-! ### the checkers run by the driver mean what the property says -/

theorem soundB_iff (f m k : Int) (reduce : Bool) (num den : Int) :
    soundB f m k reduce num den = true ↔ Sound f m k reduce num den := by
  unfold soundB Sound
  simp only [Bool.and_eq_true, decide_eq_true_eq, Bool.or_eq_true, Bool.not_eq_true', beq_iff_eq]
  constructor
  · rintro ⟨⟨⟨h1, h2⟩, h3⟩, h4⟩
    refine ⟨Int.dvd_of_emod_eq_zero h1, h2, h3, ?_⟩
    intro hr; cases h4 with
    | inl h => rw [hr] at h; cases h
    | inr h => exact h
  · rintro ⟨h1, h2, h3, h4⟩
    refine ⟨⟨⟨Int.emod_eq_zero_of_dvd h1, h2⟩, h3⟩, ?_⟩
    cases reduce with
    | false => left; rfl
    | true => right; exact h4 rfl

theorem envelopeB_iff (a b m : Int) : envelopeB a b m = true ↔ Envelope a b m := by
  unfold envelopeB Envelope
  simp only [Bool.and_eq_true, decide_eq_true_eq, beq_iff_eq]
  constructor
  · rintro ⟨⟨⟨⟨h1, h2⟩, h3⟩, h4⟩, h5⟩; exact ⟨h1, h2, h3, h4, h5⟩
  · rintro ⟨h1, h2, h3, h4, h5⟩; exact ⟨⟨⟨⟨h1, h2⟩, h3⟩, h4⟩, h5⟩

theorem isResidueOfB_iff (f a b m : Int) : isResidueOfB f a b m = true ↔ IsResidueOf f a b m := by
  unfold isResidueOfB IsResidueOf
  simp only [Bool.and_eq_true, decide_eq_true_eq]
  constructor
  · rintro ⟨⟨h1, h2⟩, h3⟩; exact ⟨h1, h2, Int.dvd_of_emod_eq_zero h3⟩
  · rintro ⟨h1, h2, h3⟩; exact ⟨⟨h1, h2⟩, Int.emod_eq_zero_of_dvd h3⟩

/-! ### Tier A — soundness of `Rational::ratrecon` (= `ZRing<Integer>::ratrecon`) -/

/-- Whenever ratrecon reports success for residue f, modulus m ≥ 2 and bound k ∈ [1,m]:
    num ≡ den·f (mod m), |num| < k, den > 0, and gcd(num,den) = 1 when `forcereduce`.  Every `f : Int`. -/
theorem ratrecon_sound (f m k : Int) (fr : Bool) (hm : 2 ≤ m) (hk : 1 ≤ k) (hkm : k ≤ m)
    (hok : (ratrecon f m k fr).ok = true) :
    Sound f m k fr (ratrecon f m k fr).num (ratrecon f m k fr).den :=
  ratreconFuel_sound f m k fr (fuelFor f m) (by omega) hk (Or.inl hkm) (Nat.le_refl _) hok

example : (ratrecon 75 250 26 true) = ⟨true, -25, 3⟩ := by decide
example : (ratrecon 75 250 17 true).ok = false := by decide
example : (ratrecon (-100) 7 3 true) = ⟨true, -2, 1⟩ := by decide

/-- the loop terminates within `fuelFor f m = r1.toNat + 1` iterations (the loop condition is false in the state
    the model stops in), and any larger fuel gives the same result: the fuel is not a bound on the inputs. -/
theorem fuel_suffices (f m k : Int) (fr : Bool) (fuel : Nat) (hm : 2 ≤ m) (hk : 1 ≤ k) (hkm : k ≤ m)
    (hfuel : fuelFor f m ≤ fuel) :
    (loop k (fuelFor f m) ⟨m, 0, startR1 f m, 1⟩).r1 < k ∧ ratreconFuel fuel f m k fr = ratrecon f m k fr := by
  obtain ⟨h0, _, _⟩ := startR1_facts f m (by omega)
  have hi := linv_init (startR1 f m) m k (by omega) hkm h0
  have hx := loop_exit (startR1 f m) m k hk (fuelFor f m) _ hi (by unfold fuelFor; simp only []; omega)
  refine ⟨hx, ?_⟩
  obtain ⟨j, rfl⟩ := Nat.exists_eq_add_of_le hfuel
  unfold ratrecon ratreconFuel
  rw [loop_stable k _ _ hx j]

example : fuelFor 75 250 ≤ 1000 := by decide

/-! ### the wrappers -/

/-- 7-argument `RationalReconstruction` without widening: same guarantee for the *un-normalised* residue f -/
theorem rationalReconstruction_sound (f m k : Int) (fr : Bool) (hm : 2 ≤ m) (hk : 1 ≤ k) (hkm : k ≤ m)
    (hok : (rationalReconstruction f m k fr false).ok = true) :
    Sound f m k fr (rationalReconstruction f m k fr false).num (rationalReconstruction f m k fr false).den := by
  obtain ⟨x0, xm, xd⟩ := normResidue_facts f m (by omega)
  unfold rationalReconstruction at hok ⊢
  simp only [] at hok ⊢
  split
  · rename_i hx0
    rw [hx0] at xd
    obtain ⟨c, hc⟩ := xd
    exact ⟨⟨c, by simp; omega⟩, by simp; omega, by decide, fun _ => by decide⟩
  · rename_i hx0
    rw [if_neg hx0] at hok
    simp only [Bool.false_eq_true, if_false] at hok ⊢
    exact sound_of_congr f _ m k fr _ _ xd (ratrecon_sound _ m k fr hm hk hkm hok)

example : (rationalReconstruction (-100) 7 3 true false) = ⟨true, -2, 1⟩ := by decide

/-- 7-argument `RationalReconstruction` with widening (`recursive = true`): a reported success is sound for the
    bound that was finally tried, which is `k` itself or lies in `(k, f)`. -/
theorem rationalReconstruction_sound_widen (f m k : Int) (fr rc : Bool) (hm : 2 ≤ m) (hk : 1 ≤ k) (hkm : k ≤ m)
    (hok : (rationalReconstruction f m k fr rc).ok = true) :
    ∃ k', (k' = k ∨ (k < k' ∧ k' < f)) ∧
      Sound f m k' fr (rationalReconstruction f m k fr rc).num (rationalReconstruction f m k fr rc).den := by
  cases rc with
  | false => exact ⟨k, Or.inl rfl, rationalReconstruction_sound f m k fr hm hk hkm hok⟩
  | true =>
    obtain ⟨x0, xm, xd⟩ := normResidue_facts f m (by omega)
    unfold rationalReconstruction at hok ⊢
    simp only [] at hok ⊢
    split
    · rename_i hx0
      rw [hx0] at xd
      obtain ⟨c, hc⟩ := xd
      exact ⟨k, Or.inl rfl, ⟨c, by simp; omega⟩, by simp; omega, by decide, fun _ => by decide⟩
    · rename_i hx0
      rw [if_neg hx0] at hok
      simp only [if_true] at hok ⊢
      rcases widen_cases (normResidue f m) m f fr (widenFuel f) (k + 1) (ratrecon (normResidue f m) m k fr) (by omega)
        with h | ⟨k', h1, h2, h3⟩
      · rw [h] at hok ⊢
        exact ⟨k, Or.inl rfl, sound_of_congr f _ m k fr _ _ xd (ratrecon_sound _ m k fr hm hk hkm hok)⟩
      · rw [h3] at hok ⊢
        refine ⟨k', Or.inr ⟨by omega, h2⟩, sound_of_congr f _ m k' fr _ _ xd ?_⟩
        refine ratreconFuel_sound _ m k' fr _ (by omega) (by omega) ?_ (Nat.le_refl _) hok
        by_cases hk'm : k' ≤ m
        · exact Or.inl hk'm
        · right
          have : startR1 (normResidue f m) m = normResidue f m := by unfold startR1; rw [if_neg (by omega)]
          omega

example : (rationalReconstruction 75 250 17 true true) = ⟨true, -25, 3⟩ := by decide

theorem isqrt_facts (m : Int) (hm : 2 ≤ m) : 1 ≤ isqrt m ∧ isqrt m ≤ m ∧ isqrt m * isqrt m ≤ m := by
  unfold isqrt
  have h1 : 0 < Nat.sqrt m.toNat := Nat.sqrt_pos.mpr (by omega)
  have h2 : Nat.sqrt m.toNat ≤ m.toNat := Nat.sqrt_le_self _
  have h3 : Nat.sqrt m.toNat * Nat.sqrt m.toNat ≤ m.toNat := Nat.sqrt_le _
  have h4 : ((Nat.sqrt m.toNat * Nat.sqrt m.toNat : Nat) : Int) ≤ (m.toNat : Int) := Int.ofNat_le.mpr h3
  rw [Int.natCast_mul] at h4
  refine ⟨by simp only [Int.ofNat_eq_natCast]; omega, by simp only [Int.ofNat_eq_natCast]; omega, ?_⟩
  simp only [Int.ofNat_eq_natCast]
  omega

/-- 4-argument `RationalReconstruction` (default bound ⌊√m⌋, reduced fraction requested) -/
theorem rationalReconstructionDefault_sound (f m : Int) (hm : 2 ≤ m)
    (hok : (rationalReconstructionDefault f m).ok = true) :
    Sound f m (isqrt m) true (rationalReconstructionDefault f m).num (rationalReconstructionDefault f m).den := by
  obtain ⟨h1, h2, _⟩ := isqrt_facts m hm
  exact ratrecon_sound f m (isqrt m) true hm h1 h2 hok

example : rationalReconstructionDefault 145 1009 = ⟨true, 6, 7⟩ := by decide +kernel

/-- 6-argument `RationalReconstruction(a,b,x,m,a_bound,b_bound)`: the numerator bound used is `max(a_bound, x / b_bound)` -/
theorem rationalReconstructionBounds_sound (x m ab bb : Int) (hm : 2 ≤ m) (hab : 1 ≤ ab)
    (hkm : (if Int.tdiv x bb > ab then Int.tdiv x bb else ab) ≤ m)
    (hok : (rationalReconstructionBounds x m ab bb).ok = true) :
    Sound x m (if Int.tdiv x bb > ab then Int.tdiv x bb else ab) true
      (rationalReconstructionBounds x m ab bb).num (rationalReconstructionBounds x m ab bb).den ∧
    (rationalReconstructionBounds x m ab bb).den ≤ bb := by
  unfold rationalReconstructionBounds at hok ⊢
  simp only [Bool.and_eq_true, decide_eq_true_eq] at hok ⊢
  exact ⟨ratrecon_sound x m _ true hm (by split <;> omega) hkm hok.1, hok.2⟩

example : (rationalReconstructionBounds 145 1009 10 10) = ⟨true, 6, 7⟩ := by decide

/-! ### Tier B — completeness inside the uniqueness envelope -/

/-- For every fraction a/b with gcd(a,b) = gcd(b,m) = 1, 4|a| ≤ ⌊√m⌋, 4b ≤ ⌊√m⌋ and *every* representative f of
    a·b⁻¹ mod m (canonical, negative, ≥ m, < -m), reconstruction with the default bound returns exactly a/b. -/
theorem ratrecon_complete (a b m f : Int) (hm : 2 ≤ m) (henv : Envelope a b m) (hf : m ∣ (b * f - a)) :
    rationalReconstructionDefault f m = ⟨true, a, b⟩ := by
  obtain ⟨hb, hab, _, ha4, hb4⟩ := henv
  obtain ⟨k1, k2, k3⟩ := isqrt_facts m hm
  obtain ⟨h0, hd, _⟩ := startR1_facts f m (by omega)
  have hi := linv_init (startR1 f m) m (isqrt m) (by omega) k2 h0
  have hl := loop_inv (startR1 f m) m (isqrt m) k1 (fuelFor f m) _ hi
  have hx := loop_exit (startR1 f m) m (isqrt m) k1 (fuelFor f m) _ hi (by unfold fuelFor; simp only []; omega)
  unfold rationalReconstructionDefault ratrecon ratreconFuel
  exact finish_complete f (startR1 f m) m (isqrt m) a b _ (by omega) k1 k3 hd hf hb hab ha4 hb4 hl hx

example : Envelope 6 7 1009 ∧ (1009 : Int) ∣ (7 * 145 - 6) :=
  ⟨(envelopeB_iff 6 7 1009).mp (by decide +kernel), ⟨1, by decide⟩⟩

/-- the same through `QField<Rational>::ratrecon(r, f, m, recurs)` (= `Rational(f, m, sqrt(m), recurs)`):
    the first call succeeds, so the widening loop does not run -/
theorem qfield_ratrecon_complete (a b m f : Int) (rc : Bool) (hm : 2 ≤ m) (henv : Envelope a b m) (hf : m ∣ (b * f - a)) :
    (qfieldRatreconDefault f m rc).num = a ∧ (qfieldRatreconDefault f m rc).den = b := by
  have h := ratrecon_complete a b m f hm henv hf
  unfold rationalReconstructionDefault isqrt at h
  unfold qfieldRatreconDefault rationalCtor
  simp only []
  cases rc with
  | false => simp only [Bool.false_eq_true, if_false]; rw [h]; exact ⟨rfl, rfl⟩
  | true =>
    simp only [if_true]
    rw [h]
    have : ∀ n newk, widen f m f true n newk ⟨true, a, b⟩ = ⟨true, a, b⟩ := by
      intro n newk; cases n with
      | zero => rfl
      | succ n => unfold widen; simp
    rw [this]; exact ⟨rfl, rfl⟩

/-! ### Tier A (polynomials) — soundness of `Poly1Dom::ratrecon(N,D,P,M,dk,forcereduce)`

Full statement aimed at: the same conclusion for the concrete Poly1Dom primitives.  What is proved: the model of
givpoly1ratrecon.inl (loop, early exits, `ratreconcheck`, unit normalisation) is sound for *every* implementation of
the primitives `degree/divmodin/maxpyin/gcd/leadcoef/divin` that satisfies the polynomial-ring laws `LawfulOps`
(no bound on degrees or on the fuel: a fuel too small only makes the model report failure).  That Poly1Dom's
primitives satisfy these laws is property C08; the driver runs the model with list polynomials over Z/p and compares
with the compiled code on every case.  Quantifier: deg M ≥ 1 and 0 ≤ dk < deg M (the analogue of m ≥ 2, 1 ≤ k ≤ m);
every residue P, including deg P ≥ deg M. -/
theorem poly_ratrecon_sound_partial {P : Type} [CommRing P] (O : PolyOps P) (L : LawfulOps O) (fuel : Nat)
    (p m : P) (dk : Int) (fr : Bool) (hdk : 0 ≤ dk) (hdm : dk < O.deg m)
    (hok : (polyRatrecon6Fuel O fuel p m dk fr).ok = true) :
    PolySound O p m dk fr (polyRatrecon6Fuel O fuel p m dk fr).n (polyRatrecon6Fuel O fuel p m dk fr).d :=
  polyRatrecon6Fuel_sound L fuel p m dk fr hdk hdm hok

/-- the executable instance used by the driver, on one input over Z/7 (M = X³+2, P = 4X²+X+3, dk = 1): success, and the
    Bool checker accepts the pair -/
example : (polyRatrecon 7 [3, 1, 4] [2, 0, 0, 1] 1 true).ok = true ∧
    polySoundB 7 [3, 1, 4] [2, 0, 0, 1] 1 true (polyRatrecon 7 [3, 1, 4] [2, 0, 0, 1] 1 true).n
      (polyRatrecon 7 [3, 1, 4] [2, 0, 0, 1] 1 true).d = true := by decide +kernel

end Givaro.Props.C11
