/-
C15 — results do not depend on whether the destination aliases an operand.

For the big-integer layer the content is carried by the generated theorems
`Givaro.Gen.<overload>__al_<pattern>_exact` (one per overload and alias pattern, re-proved on every run against the body
re-executed from /repo's source with the aliased parameters sharing ONE location of the store): the aliased call returns the
specification applied to the operand values.  Together with the `_exact` theorem of the same overload (C01/C02) this is
alias independence: the call with the destination aliasing an input returns what the call with a distinct destination returns.
This file states that corollary for the three-address families the property names.
-/
import GivaroModel.Generated.IntegerThms
import GivaroModel.Generated.IntegerAliasThms
namespace Givaro.Props.C15
open Givaro Givaro.Gen

/-- `add(r,a,b)`: r≡a, r≡b, a≡b, all equal — same result as with a distinct destination `r0` -/
theorem add_alias_independent (r0 x y : Int) :
    (Integer_add_Z_Zc_Zc__al_01 x y).outs = (Integer_add_Z_Zc_Zc r0 x y).outs
    ∧ (Integer_add_Z_Zc_Zc__al_02 y x).outs = (Integer_add_Z_Zc_Zc r0 x y).outs
    ∧ (Integer_add_Z_Zc_Zc__al_12 r0 x).outs = (Integer_add_Z_Zc_Zc r0 x x).outs
    ∧ (Integer_add_Z_Zc_Zc__al_012 x).outs = (Integer_add_Z_Zc_Zc r0 x x).outs := by
  rw [Integer_add_Z_Zc_Zc__al_01_exact, Integer_add_Z_Zc_Zc__al_02_exact, Integer_add_Z_Zc_Zc__al_12_exact,
    Integer_add_Z_Zc_Zc__al_012_exact, Integer_add_Z_Zc_Zc_exact, Integer_add_Z_Zc_Zc_exact]
  simp [Integer_add_Z_Zc_Zc__al_01_spec, Integer_add_Z_Zc_Zc__al_02_spec, Integer_add_Z_Zc_Zc__al_12_spec,
    Integer_add_Z_Zc_Zc__al_012_spec, Integer_add_Z_Zc_Zc_spec]

/-- `sub(r,a,b)` with r≡b (the pattern an in-place implementation gets wrong first) -/
theorem sub_alias_independent (r0 x y : Int) :
    (Integer_sub_Z_Zc_Zc__al_01 x y).outs = (Integer_sub_Z_Zc_Zc r0 x y).outs
    ∧ (Integer_sub_Z_Zc_Zc__al_02 y x).outs = (Integer_sub_Z_Zc_Zc r0 x y).outs := by
  rw [Integer_sub_Z_Zc_Zc__al_01_exact, Integer_sub_Z_Zc_Zc__al_02_exact, Integer_sub_Z_Zc_Zc_exact]
  simp [Integer_sub_Z_Zc_Zc__al_01_spec, Integer_sub_Z_Zc_Zc__al_02_spec, Integer_sub_Z_Zc_Zc_spec]

/-- fused `axpy(r,a,x,y)` with r≡y and r≡a≡x -/
theorem axpy_alias_independent (r0 a x y : Int) :
    (Integer_axpy_Z_Zc_Zc_Zc__al_03 y a x).outs = (Integer_axpy_Z_Zc_Zc_Zc r0 a x y).outs
    ∧ (Integer_axpy_Z_Zc_Zc_Zc__al_012 a y).outs = (Integer_axpy_Z_Zc_Zc_Zc r0 a a y).outs := by
  rw [Integer_axpy_Z_Zc_Zc_Zc__al_03_exact, Integer_axpy_Z_Zc_Zc_Zc__al_012_exact, Integer_axpy_Z_Zc_Zc_Zc_exact,
    Integer_axpy_Z_Zc_Zc_Zc_exact]
  simp [Integer_axpy_Z_Zc_Zc_Zc__al_03_spec, Integer_axpy_Z_Zc_Zc_Zc__al_012_spec, Integer_axpy_Z_Zc_Zc_Zc_spec]

/-- Euclidean `divmod(q,r,a,b)` with the remainder aliasing the divisor and the quotient aliasing the dividend -/
theorem divmod_alias_independent (q0 r0 a b : Int) (hb : b ≠ 0) :
    (Integer_divmod_Z_Z_Zc_Zc__al_02_13 a b).outs = (Integer_divmod_Z_Z_Zc_Zc q0 r0 a b).outs := by
  rw [Integer_divmod_Z_Z_Zc_Zc__al_02_13_exact a b hb, Integer_divmod_Z_Z_Zc_Zc_exact q0 r0 a b hb]
  simp [Integer_divmod_Z_Z_Zc_Zc__al_02_13_spec, Integer_divmod_Z_Z_Zc_Zc_spec]

/-- in-place operator forms `x += x`, `x *= x`, `x -= x` -/
theorem inplace_self_alias (x : Int) :
    (Integer_op_addin_Zc__al_01 x).outs = [x + x] ∧ (Integer_op_mulin_Zc__al_01 x).outs = [x * x]
    ∧ (Integer_op_subin_Zc__al_01 x).outs = [0] := by
  rw [Integer_op_addin_Zc__al_01_exact, Integer_op_mulin_Zc__al_01_exact, Integer_op_subin_Zc__al_01_exact]
  simp [Integer_op_addin_Zc__al_01_spec, Integer_op_mulin_Zc__al_01_spec, Integer_op_subin_Zc__al_01_spec, Spec.add, Spec.mul, Spec.sub]

end Givaro.Props.C15
