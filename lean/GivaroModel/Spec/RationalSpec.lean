/-
C10 — reference functions and Bool checkers for rationals (core Lean only; used by the driver and by
Props/C10.lean, where their meaning in Mathlib's `ℚ` is proved).

A mathematical rational is given as a fraction `n/d` with `d ≠ 0` (not necessarily reduced).
-/
import GivaroModel.Model.Rational
namespace Givaro.Spec.Rational
open Givaro Givaro.Model.Rational

/-- the canonical representative of `n/d` (`d ≠ 0`): positive denominator, coprime, zero is `0/1` -/
def normalize (n d : Int) : QRep :=
  let g : Int := (Int.gcd n d : Int)
  if d < 0 then ⟨-(n / g), -(d / g)⟩ else ⟨n / g, d / g⟩

/-- canonical form: positive denominator, numerator and denominator coprime (hence zero is `0/1`) -/
def canonB (r : QRep) : Bool := r.den > 0 && Int.gcd r.num r.den == 1

/-- operands admissible in mode `red`: positive denominator; canonical when reducing -/
def validB (red : Bool) (r : QRep) : Bool := r.den > 0 && (!red || Int.gcd r.num r.den == 1)

/-- `r` has the value `n/d` (cross-multiplication; meaningful for `r.den ≠ 0`, `d ≠ 0`) -/
def sameValueB (r : QRep) (n d : Int) : Bool := r.num * d == n * r.den

/-- sign of `a - b` for positive denominators -/
def cmpSpec (a b : QRep) : Int := isign (a.num * b.den - b.num * a.den)

/-- floor, ceiling, truncation, rounding to nearest (ties away from zero) of `n/d`, `d > 0` -/
def floorSpec (n d : Int) : Int := n / d
def ceilSpec (n d : Int) : Int := -((-n) / d)
def truncSpec (n d : Int) : Int := if n ≥ 0 then n / d else -((-n) / d)
def roundSpec (n d : Int) : Int := if n ≥ 0 then (2 * n + d) / (2 * d) else -((2 * (-n) + d) / (2 * d))

/-- the fraction denoted by the IEEE-754 double with sign bit `s`, biased exponent `e < 2047`, mantissa `m` -/
def doubleFrac (s e m : Int) : Int × Int :=
  let sg : Int := if s = 1 then -1 else 1
  if e = 0 then (sg * m, 2 ^ 1074)
  else if e ≥ 1075 then (sg * (4503599627370496 + m) * 2 ^ (e - 1075).toNat, 1)
  else (sg * (4503599627370496 + m), 2 ^ (1075 - e).toNat)

end Givaro.Spec.Rational
