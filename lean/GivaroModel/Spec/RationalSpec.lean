/-
C10 — reference functions and Bool checkers for rationals (core Lean only; used by the driver and by
Props/C10.lean, where their meaning in Mathlib's `ℚ` is proved).

A mathematical rational is given as a fraction `n/d` with `d ≠ 0` (not necessarily reduced).
-/
import GivaroModel.Model.Rational
namespace Givaro.Spec.Rational
open Givaro Givaro.Model.Rational

/-- the canonical representative of `n/d` (`d ≠ 0`): positive denominator, coprime, zero is `0/1` -/
def normalize (n d : Int) : QRep :=
  let g : Int := (Int.gcd n d : Int)
  if d < 0 then ⟨-(n / g), -(d / g)⟩ else ⟨n / g, d / g⟩

/-- canonical form: positive denominator, numerator and denominator coprime (hence zero is `0/1`) -/
def canonB (r : QRep) : Bool := r.den > 0 && Int.gcd r.num r.den == 1

/-- operands admissible in mode `red`: positive denominator; canonical when reducing -/
def validB (red : Bool) (r : QRep) : Bool := r.den > 0 && (!red || Int.gcd r.num r.den == 1)

/-- `r` has the value `n/d` (cross-multiplication; meaningful for `r.den ≠ 0`, `d ≠ 0`) -/
def sameValueB (r : QRep) (n d : Int) : Bool := r.num * d == n * r.den

/-- sign of `a - b` for positive denominators -/
def cmpSpec (a b : QRep) : Int := isign (a.num * b.den - b.num * a.den)

/-- floor, ceiling, truncation, rounding to nearest (ties away from zero) of `n/d`, `d > 0` -/
def floorSpec (n d : Int) : Int := n / d
def ceilSpec (n d : Int) : Int := -((-n) / d)
def truncSpec (n d : Int) : Int := if n ≥ 0 then n / d else -((-n) / d)
def roundSpec (n d : Int) : Int := if n ≥ 0 then (2 * n + d) / (2 * d) else -((2 * (-n) + d) / (2 * d))

/-- the fraction denoted by the IEEE-754 double with sign bit `s`, biased exponent `e < 2047`, mantissa `m` -/
def doubleFrac (s e m : Int) : Int × Int :=
  let sg : Int := if s = 1 then -1 else 1
  if e = 0 then (sg * m, 2 ^ 1074)
  else if e ≥ 1075 then (sg * (4503599627370496 + m) * 2 ^ (e - 1075).toNat, 1)
  else (sg * (4503599627370496 + m), 2 ^ (1075 - e).toNat)

-- ---- NoReduce mode: the pair an operation stores (closed formulas; positive denominators) -----------------------------
/-- `a/b + c/d = (ad + cb)/(bd)`, no gcd; a zero operand returns the other operand unchanged, two integers give an integer -/
def addNR (a b : QRep) : QRep :=
  if b.num = 0 then a else if a.num = 0 then b
  else if a.den = 1 ∧ b.den = 1 then ⟨a.num + b.num, 1⟩
  else ⟨a.num * b.den + b.num * a.den, a.den * b.den⟩
def subNR (a b : QRep) : QRep :=
  if b.num = 0 then a else if a.num = 0 then ⟨-b.num, b.den⟩
  else if a.den = 1 ∧ b.den = 1 then ⟨a.num - b.num, 1⟩
  else ⟨a.num * b.den - b.num * a.den, a.den * b.den⟩
/-- `a/b * c/d = (ac)/(bd)`; a zero factor gives `0/1`, the factor `1/1` returns the other operand -/
def mulNR (a b : QRep) : QRep :=
  if b.num = 0 ∨ a.num = 0 then ⟨0, 1⟩
  else if b.num = 1 ∧ b.den = 1 then a else if a.num = 1 ∧ a.den = 1 then b
  else if a.den = 1 ∧ b.den = 1 then ⟨a.num * b.num, 1⟩
  else ⟨a.num * b.num, a.den * b.den⟩
/-- `(a/b) / (c/d) = (ad)/(bc)` with the sign moved to the numerator (`c ≠ 0`).  With equal denominators the code calls the
    *reducing* constructor `Rational(a, c)`: the one gcd taken although the mode says not to. -/
def divNR (a b : QRep) : QRep :=
  if a.num = 0 then ⟨0, 1⟩
  else if b.num = 1 ∧ b.den = 1 then a
  else if a.num = 1 ∧ a.den = 1 then (if b.num < 0 then ⟨-b.den, -b.num⟩ else ⟨b.den, b.num⟩)
  else if a.den = b.den then normalize a.num b.num
  else if 0 < b.num then ⟨a.num * b.den, a.den * b.num⟩ else ⟨-(a.num * b.den), -(a.den * b.num)⟩
/-- `*=` differs from `*` in one stored pair: `0/d *= x` leaves `0/d` -/
def mulinNR (a b : QRep) : QRep :=
  if b.num ≠ 0 ∧ a.num = 0 then a else mulNR a b
/-- `/=` differs from `/` in one stored pair: `0/d /= x` leaves `0/d` -/
def divinNR (a b : QRep) : QRep :=
  if a.num = 0 then a else divNR a b

/-- value of the IEEE-754 bit pattern `bits` (`prec` significand bits incl. the hidden one, `eb` exponent bits) as a fraction
    `(num, den)`; `none` for zero, subnormal and non-finite patterns -/
def ieeeFrac (prec eb : Nat) (bits : Int) : Option (Int × Int) :=
  let sgn : Int := if bits / 2 ^ (prec - 1 + eb) % 2 = 1 then -1 else 1
  let E := bits / 2 ^ (prec - 1) % 2 ^ eb
  let m := bits % 2 ^ (prec - 1) + 2 ^ (prec - 1)
  let bias : Int := 2 ^ (eb - 1) - 1
  let ex := E - bias - (prec - 1 : Nat)
  if E = 0 ∨ E = 2 ^ eb - 1 then none
  else if ex ≥ 0 then some (sgn * m * 2 ^ ex.toNat, 1) else some (sgn * m, 2 ^ (-ex).toNat)

/-- checker for a conversion to floating point: `bits` is a normal number within relative distance `2^-k` of `n/d`
    (`d > 0`); `+0.0` for `n = 0` -/
def floatCheck (prec eb k : Nat) (n d : Int) (bits : Int) : Bool :=
  if n = 0 then bits == 0 else
  match ieeeFrac prec eb bits with
  | some (vn, vd) => iabs (vn * d - n * vd) * 2 ^ k ≤ iabs n * vd      -- |vn/vd - n/d| ≤ 2^-k |n/d|
  | none => false

end Givaro.Spec.Rational
