/-
C06 — specification of the RecInt operations: arithmetic on `Nat`/`Int` modulo `2^(2^K)` ("the value GMP computes
on the same integers, reduced to 2^K bits"), carries/borrows/high parts as the exact quotient, and Bool checkers
where the text gives a defining equation (modular inverses).  Core Lean only.

`spec op K args` returns `none` for an unknown operation, otherwise `(pre, chk)`:
`pre = false` — the line is outside the documented contract (division by zero, non-invertible element, operands
of `div_2_1`/`div_3_2`/`mod_n` outside their stated ranges); `chk results` — the results are the specified ones.
-/
import GivaroModel.Prim.Gmp
namespace Givaro.Spec.RecInt

def M (K : Nat) : Nat := 2 ^ (2 ^ K)
def b2i (b : Bool) : Int := if b then 1 else 0
def sgn (x : Int) : Int := if x < 0 then -1 else if x = 0 then 0 else 1
/-- two's-complement reading of a residue modulo `2^(2^K)` -/
def wrapS (K : Nat) (x : Int) : Int :=
  let v := x % (M K : Int)
  if v < (M K : Int) / 2 then v else v - M K
def inS (K : Nat) (x : Int) : Bool := decide (-((M K : Int) / 2) ≤ x) && decide (x < (M K : Int) / 2)

/-- the six relational operators `<, <=, >, >=, ==, !=` -/
def rels (x y : Int) : List Bool := [decide (x < y), decide (x ≤ y), decide (x > y), decide (x ≥ y), decide (x = y), decide (x ≠ y)]

def exact (e : List Int) : List Int → Bool := fun r => r == e
def nats (e : List Nat) : List Int → Bool := exact (e.map Int.ofNat)

/-- all arguments are residues (unsigned operations) -/
def inU (K : Nat) (a : List Int) : Bool := a.all (fun x => decide (0 ≤ x) && decide (x < (M K : Int)))

/-- `r` is `v` rounded to the nearest double, ties to even (`v < 2^64`): exact below `2^53`; otherwise a multiple of the spacing
    `p = 2^(⌊log2 v⌋ - 52)` at distance at most `p/2`, even in a tie -/
def isRne (v r : Nat) : Bool :=
  if v < 2 ^ 53 then r == v else
  let p := 2 ^ (Nat.log2 v - 52)
  let d := if r ≥ v then r - v else v - r
  r % p == 0 && decide (2 * d ≤ p) && (2 * d != p || (r / p) % 2 == 0)

def spec (op : String) (K : Nat) (args : List Int) : Option (Bool × (List Int → Bool)) :=
  let m := M K
  let nb := 2 ^ K
  let a := args.map Int.toNat
  let okU := inU K args
  let u (pre : Bool) (e : List Nat) : Option (Bool × (List Int → Bool)) := some (okU && pre, nats e)
  let b2n (b : Bool) : Nat := if b then 1 else 0
  match op, a with
  | "add", [b, c] | "addip", [b, c] => u true [(b + c) % m, (b + c) / m]
  | "addnc", [b, c] | "addop", [b, c] | "addplus", [b, c] => u true [(b + c) % m]
  | "addwc", [b, c, cy] | "addwcip", [b, c, cy] => some (inU K [b, c] && decide (cy ≤ 1), nats [(b + c + cy) % m, (b + c + cy) / m])
  | "addwcnc", [b, c, cy] | "addwcipnc", [b, c, cy] => some (inU K [b, c] && decide (cy ≤ 1), nats [(b + c + cy) % m])
  | "add1", [b] | "add1ip", [b] => u true [(b + 1) % m, (b + 1) / m]
  | "add1nc", [b] | "inc", [b] => u true [(b + 1) % m]
  | "addl", [b, c] | "addlip", [b, c] => some (inU K [b] && decide (c < 2 ^ 64), nats [(b + c) % m, (b + c) / m])
  | "addlnc", [b, c] => some (inU K [b] && decide (c < 2 ^ 64), nats [(b + c) % m])
  | "sub", [b, c] | "subip", [b, c] => u true [(b + m - c) % m, b2n (decide (b < c))]
  | "subnc", [b, c] | "subop", [b, c] => u true [(b + m - c) % m]
  | "subwc", [b, c, cy] | "subwcip", [b, c, cy] => some (inU K [b, c] && decide (cy ≤ 1), nats [(b + 2 * m - c - cy) % m, b2n (decide (b < c + cy))])
  | "subwcnc", [b, c, cy] | "subwcipnc", [b, c, cy] => some (inU K [b, c] && decide (cy ≤ 1), nats [(b + 2 * m - c - cy) % m])
  | "sub1", [b] | "sub1ip", [b] => u true [(b + m - 1) % m, b2n (decide (b = 0))]
  | "sub1nc", [b] | "dec", [b] => u true [(b + m - 1) % m]
  | "subl", [b, c] | "sublip", [b, c] => some (inU K [b] && decide (c < 2 ^ 64), nats [(b + m * 2 ^ 64 - c) % m, b2n (decide (b < c))])
  | "sublnc", [b, c] => some (inU K [b] && decide (c < 2 ^ 64), nats [(b + m * 2 ^ 64 - c) % m])
  | "cmp", [b, c] => some (okU, exact [sgn ((b : Int) - c)])
  | "cmpl", [b, c] => some (inU K [b] && decide (c < 2 ^ 64), exact [sgn ((b : Int) - c)])
  | "rel", [b, c] => u true ([decide (b < c), decide (b ≤ c), decide (b > c), decide (b ≥ c), decide (b = c), decide (b ≠ c)].map b2n)
  | "lmul", [b, c] | "lmuln", [b, c] | "lmulk", [b, c] => u true [(b * c) / m, (b * c) % m]
  | "lmul2", [b, c] => u true [b * c]
  | "mul", [b, c] | "mulip", [b, c] | "mulop", [b, c] | "mulal1", [b, c] | "mulal2", [b, c] | "mulstar", [b, c] => u true [(b * c) % m]
  | "mulself", [b] => u true [(b * b) % m, (b * b) % m]
  | "lmull", [b, c] => some (inU K [b] && decide (c < 2 ^ 64), nats [(b * c) / m, (b * c) % m])
  | "mull", [b, c] | "mullip", [b, c] => some (inU K [b] && decide (c < 2 ^ 64), nats [(b * c) % m])
  | "lsq", [b] => u true [b * b]
  | "sq", [b] => u true [(b * b) % m]
  | "laddmul", [b, c, d] => u true [((b * c + d) / m) % m, (b * c + d) % m, (b * c + d) / (m * m)]
  | "laddmulnc", [b, c, d] => u true [((b * c + d) / m) % m, (b * c + d) % m]
  | "laddmul3", [b, c, d] => some (inU K [b, c] && decide (d < m * m), nats [((b * c + d) / m) % m, (b * c + d) % m, (b * c + d) / (m * m)])
  | "addmul", [x, b, c] => u true [(x + b * c) % m]
  | "addmull", [x, b, c] => some (inU K [x, b] && decide (c < 2 ^ 64), nats [(x + b * c) % m])
  | "shl", [x, d] | "shlip", [x, d] | "shli", [x, d] => some (inU K [x], nats [if d ≥ nb then 0 else (x * 2 ^ d) % m])
  | "shr", [x, d] | "shrip", [x, d] | "shri", [x, d] | "shrself", [x, d] => some (inU K [x], nats [if d ≥ nb then 0 else x / 2 ^ d])
  | "shl1", [x] => u true [(2 * x) % m, b2n (decide (x ≥ m / 2))]
  | "shr1", [x] => u true [x / 2, x % 2]
  | "shlx", [x, d] => some (inU K [x], nats [if d ≥ 2 * nb then 0 else (x * 2 ^ d) % (m * m)])
  | "div", [x, y] | "divop", [x, y] | "divip", [x, y] => u (decide (y ≠ 0)) [x / y, x % y]
  | "divl", [x, y] => some (inU K [x] && decide (y ≠ 0) && decide (y < 2 ^ 64), nats [x / y, x % y])
  | "div21", [xh, xl, y] => u (decide (y ≥ m / 2) && decide (xh < y)) [(xh * m + xl) / y, (xh * m + xl) % y]
  | "div32", [x2, x1, x0, y1, y0] =>
      let n := (x2 * m + x1) * m + x0
      let y := y1 * m + y0
      u (decide (y1 ≥ m / 2) && decide (x2 * m + x1 < y)) [n / y, (n % y) / m, (n % y) % m]
  | "modn", [x, y] => some (inU K [y] && decide (y ≠ 0) && decide (x / m < y), nats [x % y])
  | "norm", [x] => u true [if x = 0 then nb else nb - Nat.log2 x - 1]
  | "not", [x] => u true [m - 1 - x]
  | "neg", [x] | "negop", [x] => u true [(m - x) % m]
  | "or", [x, y] => u true [x ||| y]
  | "and", [x, y] => u true [x &&& y]
  | "xor", [x, y] => u true [x ^^^ y]
  | "bits", [x] => u true [b2n (decide (x ≥ m / 2)), x % 2, x ||| (m / 2), x ||| 1]
  | "gcd", [x, y] => u true [Nat.gcd x y]
  | "invmod", [x, y] => some (okU && decide (y ≠ 0) && decide (Nat.gcd x y = 1),
      fun r => match r with | [i] => decide (0 ≤ i) && decide (i < y) && decide ((i.toNat * x) % y = 1 % y) | _ => false)
  | "bezout", [x, y] => some (okU && decide (x ≠ 0) && decide (y ≠ 0),      -- coprime or not: the cofactors of gcd(x, y)
      fun r => match r with
        | [i, j] => decide (0 ≤ i) && decide (0 ≤ j) && decide (i < y) && decide (j ≤ x) &&
                    decide ((i.toNat * x) % y = Nat.gcd x y % y) && decide ((j.toNat * y) % x = Nat.gcd x y % x)
        | _ => false)
  | "expmod", [x, e, y] => u (decide (y ≠ 0)) [Givaro.powModNat x e y]
  | "expmodl", [x, e, y] => some (inU K [x, y] && decide (y ≠ 0) && decide (e < 2 ^ 64), nats [Givaro.powModNat x e y])
  | "arazi", [x] => u (decide (x % 2 = 1)) []  |>.map (fun p => (p.1,
      fun r => match r with | [i] => decide (0 ≤ i) && decide (i < m) && decide ((i.toNat * x) % m = 1 % m) | _ => false))
  | "conv", [z] => some (decide (0 ≤ args.headD 0), nats [z % m, z % m, z % m])
  | _, _ =>
  -- signed operations: arguments are the two's-complement readings
  let okS := args.all (inS K)
  let s (pre : Bool) (e : List Int) : Option (Bool × (List Int → Bool)) := some (okS && pre, exact e)
  let minS : Int := -((m : Int) / 2)
  match op, args with
  | "cmpsl", [x, w] => some (inU K [x] && inS 6 w, exact [sgn (x - w)])
  | "relul", [x, w] => some (inU K [x] && inU 6 [w], exact ((rels x w ++ rels w x).map b2i))
  | "relsl", [x, w] => some (inU K [x] && inS 6 w, exact ((rels x w ++ rels w x).map b2i))
  | "scmp", [x, y] => s true (sgn (x - y) :: (rels x y).map b2i)
  | "scmpsl", [x, w] => some (inS K x && inS 6 w, exact [sgn (x - w)])
  | "scmpul", [x, w] => some (inS K x && inU 6 [w], exact [sgn (x - w)])
  | "srelsl", [x, w] => some (inS K x && inS 6 w, exact ((rels x w ++ rels w x).map b2i))
  | "srelul", [x, w] => some (inS K x && inU 6 [w], exact ((rels x w ++ rels w x).map b2i))
  | "cvu_from", [z] => some (true, exact (List.replicate 7 (z % (m : Int))))
  | "cvu_back", [z] => some (inU K [z], exact (List.replicate 4 z))
  | "cvu_word", [w] => some (decide (-(2:Int)^63 ≤ w) && decide (w < (2:Int)^63),
      exact [w % (m : Int), w % (2:Int)^64, (Givaro.wrapS32 w) % (m : Int), w % (2:Int)^32, w % (m : Int)])
  | "cvu_toword", [z] => some (inU K [z], exact [z % (2:Int)^64, Givaro.wrapS64 z, z % (2:Int)^32, Givaro.wrapS32 z, if z = 0 then 0 else 1])
  | "cvu_dbl", [d] => some (decide (d.natAbs < 2^53), exact [d % (m : Int), (d.natAbs : Int)])
  | "cvu_todbl", [z] => some (decide (0 ≤ z) && decide (z < (2:Int)^64), fun r => match r with     -- (double)a for a < 2^64
      | [x] => decide (0 ≤ x) && isRne z.toNat x.toNat | _ => false)
  | "cvs_todbl", [z] => some (decide (-(2:Int)^63 ≤ z) && decide (z < (2:Int)^63) && inS K z, fun r => match r with
      | [x] => decide (x.natAbs = 0 ∨ (x < 0 ↔ z < 0)) && isRne z.natAbs x.natAbs | _ => false)
  | "cvs_from", [z] => some (true, exact (List.replicate 7 (wrapS K z)))
  | "cvs_back", [z] => some (inS K z, exact (List.replicate 4 z))
  | "cvs_word", [w] => some (decide (-(2:Int)^63 ≤ w) && decide (w < (2:Int)^63),
      exact [wrapS K w, wrapS K (w % (2:Int)^64), Givaro.wrapS32 w, w % (2:Int)^32, wrapS K w])
  | "cvs_toword", [z] => some (inS K z, exact [Givaro.wrapS64 z, z % (2:Int)^64, Givaro.wrapS32 z])
  | "cvs_dbl", [d] => some (decide (d.natAbs < 2^53), exact [d, d])
  | "sconv", [z] => s true [z, z]
  | "sext", [z] => s true [z]
  | "sadd", [b, c] | "saddop", [b, c] => s true [wrapS K (b + c)]
  | "smul", [b, c] | "smulop", [b, c] => s true [wrapS K (b * c)]
  | "slmul", [b, c] => s true [b * c]
  | "slsq", [b] => s true [b * b]
  | "saddmul", [x, b, c] => s true [wrapS K (x + b * c)]
  | "sdivq", [x, y] => s (decide (y ≠ 0) && !(decide (x = minS) && decide (y = -1))) [Int.tdiv x y]
  | "sdivr", [x, y] => s (decide (y > 1)) [Int.tmod x y]
  | "sdivop", [x, y] => s (decide (y > 1)) [Int.tdiv x y, Int.tmod x y]
  | "ssub", [b, c] => s true (List.replicate 4 (wrapS K (b - c)))
  | "saddeq", [b, c] => s true [wrapS K (b + c), wrapS K (b + c), wrapS K (b * c), wrapS K (b * c)]
  | "sneg", [b] => s true [wrapS K (-b), wrapS K (-b), -b - 1]
  | "sbit", [b, c] =>                                  -- bit operations act on the two's-complement images
      let ub := (b % (m : Int)).toNat; let uc := (c % (m : Int)).toNat
      let r : List Int := [wrapS K ((ub &&& uc : Nat) : Int), wrapS K ((ub ||| uc : Nat) : Int), wrapS K ((ub ^^^ uc : Nat) : Int)]
      s true (r ++ r)
  | "sshl", [b, d] => some (inS K b && decide (0 ≤ d), exact (List.replicate 2 (if d ≥ nb then 0 else wrapS K (b * 2 ^ d.toNat))))
  | "sshr", [b, d] => some (inS K b && decide (0 ≤ d),         -- arithmetic shift: the floor of b / 2^d
      exact (List.replicate 2 (if d ≥ nb then (if b < 0 then -1 else 0) else b / 2 ^ d.toNat)))
  | "sdiveq", [x, y] => s (decide (y > 1)) [Int.tdiv x y, Int.tmod x y]
  | "sinvmod", [x, y] => some (okS && decide (y > 1) && decide (Nat.gcd (x % y).toNat y.toNat = 1),
      fun r => match r with | [i] => decide (0 ≤ i) && decide (i < y) && decide ((i * x) % y = 1 % y) | _ => false)
  | "smodn", [x, y] => s (decide (y > 0)) [x % y]
  | "smodn2", [x, y] => some (inS K y && inS (K + 1) x && decide (y > 0) && decide (x.natAbs / m < y.toNat), exact [x % y])
  | _, _ => none

end Givaro.Spec.RecInt
