/-
C13 — reference definitions (brute force, obviously correct) and Bool checkers for outputs the property
does not determine ("a" square root, "a" primitive root, a two-squares decomposition).
Core Lean only.
-/
namespace Givaro.Spec.NumTheo

/-- Euler phi by its definition: the number of `k ∈ [1, n]` coprime to `n` -/
def phiSpec (n : Nat) : Nat := ((List.range n).filter (fun k => Nat.gcd (k + 1) n == 1)).length

/-- is `n` prime (trial division) -/
def isPrime (n : Nat) : Bool := n ≥ 2 && (List.range (n - 2)).all (fun d => (d + 2) * (d + 2) > n || n % (d + 2) != 0)

/-- Moebius by its definition: 0 if a square > 1 divides n, else (-1)^(number of prime divisors) -/
def mobiusSpec (n : Nat) : Int :=
  if (List.range n).any (fun d => d ≥ 2 && d * d ≤ n && n % (d * d) == 0) then 0
  else if ((List.range (n + 1)).filter (fun p => p ≥ 2 && n % p == 0 && isPrime p)).length % 2 = 0 then 1 else -1

/-- least `k ∈ [1, n]` with `a^k ≡ 1 (mod n)`; 0 when there is none (i.e. `gcd(a, n) ≠ 1`) -/
def orderGo (a n : Nat) : Nat → Nat → Nat → Nat
  | 0, _, _ => 0
  | fuel + 1, k, cur => if cur % n == 1 % n then k else orderGo a n fuel (k + 1) (cur * a % n)
def orderSpec (a n : Nat) : Nat := orderGo a n n 1 (a % n)

/-- `a` is a primitive root modulo `n`: a unit of order `phi(n)` -/
def isPrimRootSpec (a n : Nat) : Bool := Nat.gcd a n == 1 && orderSpec a n == phiSpec n

/-- least primitive root in `[1, n]`, 0 when there is none -/
def lowestPrimRootSpec (n : Nat) : Nat :=
  let ph := phiSpec n
  match (List.range n).find? (fun a => Nat.gcd (a + 1) n == 1 && orderSpec (a + 1) n == ph) with
  | some a => a + 1
  | none => 0

/-- Carmichael's function by its definition: the exponent of `(Z/n)^*`, lcm of the orders of the units -/
def carmichaelSpec (n : Nat) : Nat :=
  (List.range n).foldl (fun l a => if Nat.gcd (a + 1) n == 1 then Nat.lcm l (orderSpec (a + 1) n) else l) 1

/-- number of distinct values among `a, a^2, a^3, …` modulo `n` (the "orbit" of the header's documentation) -/
def orbitGo (a n : Nat) : Nat → Nat → Array Bool → Nat → Nat
  | 0, _, _, cnt => cnt
  | fuel + 1, cur, seen, cnt =>
    if seen.getD cur true then cnt else orbitGo a n fuel (cur * a % n) (seen.setIfInBounds cur true) (cnt + 1)
def orbitSize (a n : Nat) : Nat := orbitGo a n (n + 1) (a % n) (Array.replicate n false) 0

/-- maximal orbit size over all elements of `Z/n` -/
def maxOrbitSpec (n : Nat) : Nat := (List.range n).foldl (fun l a => max l (orbitSize a n)) 0

/-- the documented `lambda`: "Both functions coincide except for m=8" (where the orbit 2,4,0 has size 3) -/
def lambdaDocSpec (n : Nat) : Nat := if n = 8 then 3 else carmichaelSpec n

/-- textbook formula for Carmichael's function on a factor list -/
def carmichaelPP (p e : Nat) : Nat :=
  if p = 2 then (if e ≤ 2 then 2 ^ (e - 1) else 2 ^ (e - 2)) else p ^ (e - 1) * (p - 1)
def carmichaelFormula (fs : List (Nat × Nat)) : Nat := fs.foldl (fun l pe => Nat.lcm l (carmichaelPP pe.1 pe.2)) 1

/-- `a` is a square modulo `n` (brute force) -/
def isSquareMod (a : Int) (n : Nat) : Bool := (List.range n).any (fun y => (y * y) % n == (a % (n : Int)).toNat)

/-- Legendre symbol by its definition, `p` an odd prime -/
def legendreSpec (a : Int) (p : Nat) : Int :=
  if (a % (p : Int)) = 0 then 0 else if isSquareMod a p then 1 else -1

/-- Jacobi symbol by its definition: product of Legendre symbols over the factorisation of odd `n` -/
def jacobiSpec (a : Int) (fs : List (Nat × Nat)) : Int :=
  fs.foldl (fun acc pe => acc * (legendreSpec a pe.1) ^ pe.2) 1

/-- floor square root certificate -/
def isqrtChk (a q : Int) : Bool := q ≥ 0 && q * q ≤ a && a < (q + 1) * (q + 1)
/-- floor n-th root certificate -/
def irootChk (a : Int) (n : Nat) (q : Int) (exact : Bool) : Bool :=
  q ≥ 0 && q ^ n ≤ a && a < (q + 1) ^ n && (exact == (q ^ n == a))
/-- floor of the base-p logarithm, `a ≥ 1`, `p ≥ 2` -/
def logpChk (a p r : Int) : Bool := r ≥ 0 && p ^ r.toNat ≤ a && a < p ^ (r.toNat + 1)

/-- modular square root certificate -/
def sqrtChk (a x n : Int) : Bool := (x * x - a) % n == 0

/-- Euler's criterion (used as the residue test for odd primes too large for brute force) -/
def powmodS (a : Int) (e : Nat) (m : Int) : Int :=
  if h : e = 0 then 1 % m
  else let r := powmodS (a * a % m) (e / 2) m; if e % 2 = 1 then a * r % m else r
termination_by e
decreasing_by omega

/-- is `a` a quadratic residue modulo the odd prime `p` (0 counts as a residue) -/
def isQRprime (a p : Int) : Bool :=
  if p = 2 then true else
  let am := a % p
  am == 0 || (if p < 4096 then isSquareMod am p.toNat else powmodS am ((p - 1) / 2).toNat p == 1)

/-- strip the factor `p` from `a ≠ 0` -/
def valuation : Nat → Int → Int → Nat → Int × Nat
  | 0, b, _, t => (b, t)
  | fuel + 1, b, p, t => if b % p = 0 ∧ b ≠ 0 then valuation fuel (b / p) p (t + 1) else (b, t)

/-- is `a` a square modulo `p^k` (`p` prime): `a ≡ 0`, or `a = p^t b` with `t` even and `b` a square mod `p^(k-t)`
    — for odd `p` iff `b` is a residue mod `p`; for `p = 2` iff `b ≡ 1` mod `min(8, 2^(k-t))` -/
def isQRprimepower (a p : Int) (k : Nat) : Bool :=
  let pk := p ^ k
  let am := a % pk
  if am = 0 then true else
  if pk < 4096 then isSquareMod am pk.toNat else
  let (b, t) := valuation (am.natAbs.log2 + 2) am p 0
  if t % 2 ≠ 0 then false
  else if p = 2 then (if k - t ≥ 3 then b % 8 == 1 else if k - t = 2 then b % 4 == 1 else true)
  else isQRprime b p

/-- verdict on a modular square root output `x` (−1 = "not a residue") for `n = ∏ p^e` -/
def sqrtVerdict (a x n : Int) (fs : List (Int × Nat)) : Bool :=
  let qr := fs.all (fun pe => isQRprimepower a pe.1 pe.2)
  if x = -1 then !qr else qr && sqrtChk a x n

/-- two-squares certificates -/
def twoSquaresChk (a b p : Int) : Bool := a * a + b * b == p
def twoSquaresModChk (a b k p : Int) : Bool := (a * a + b * b - k) % p == 0

end Givaro.Spec.NumTheo
