/-
C14 — specification-side definitions (core Lean only): what the property text demands of the outputs,
written as obviously-correct reference functions and Bool checkers.  Nothing here looks at the model.
-/
namespace Givaro.Spec.CRT

def prod : List Int → Int
  | [] => 1
  | p :: ps => p * prod ps

/-- value of a mixed-radix digit string: `m_0 + p_0 (m_1 + p_1 (m_2 + …))` -/
def mrValue : List Int → List Int → Int
  | p :: ps, m :: ms => m + p * mrValue ps ms
  | _, _ => 0

/-- pairwise coprime, every modulus positive -/
def pairwiseCoprime : List Int → Bool
  | [] => true
  | p :: ps => ps.all (fun q => Int.gcd p q == 1) && pairwiseCoprime ps

def allPos (ps : List Int) : Bool := ps.all (fun p => decide (0 < p))

def canonical (ps rs : List Int) : Bool :=
  ps.length == rs.length && (ps.zip rs).all (fun pr => decide (0 ≤ pr.2) && decide (pr.2 < pr.1))

/-- "the unique integer in [0, product of moduli) having those residues" -/
def crtChk (ps rs : List Int) (x : Int) : Bool :=
  decide (0 ≤ x) && decide (x < prod ps) && (ps.zip rs).all (fun pr => x % pr.1 == pr.2 % pr.1)

/-- "the mixed-radix digits are each below their modulus" (and they are digits of `x`) -/
def digitsChk (ps ms : List Int) (x : Int) : Bool :=
  canonical ps ms && mrValue ps ms == x

/-- "conversion of an integer to residues returns its canonical remainders" -/
def residuesChk (ps : List Int) (a : Int) (ts : List Int) : Bool :=
  ts == ps.map (fun p => a % p)

/-- reciprocals: `c_k * (p_0 ⋯ p_{k-1}) ≡ 1 (mod p_k)` for `k ≥ 1`; `cs` lists `c_1 …`; `pre` = primes before -/
def ckChkGo : List Int → List Int → List Int → Bool
  | pre, p :: ps, c :: cs => ((c * prod pre - 1) % p == 0) && ckChkGo (pre ++ [p]) ps cs
  | _, [], [] => true
  | _, _, _ => false

def ckChk (ps cs : List Int) : Bool :=
  match ps with
  | [] => cs.isEmpty
  | p0 :: rest => ckChkGo [p0] rest cs

/-- the law documented for the two-modulus functor: `res ≡ A (mod M)` and `res ≡ e (mod D)` -/
def craChk (M d A e res : Int) : Bool := (res - A) % M == 0 && (res - e) % d == 0

/-- reference evaluation `Σ c_i x^i mod p` -/
def evalRef (p : Int) (P : List Int) (x : Int) : Int :=
  (P.foldr (fun c acc => acc * x + c) 0) % p

/-- polynomial CRT: degree `< n`, canonical coefficients, normalised, value `r_i` at `a_i` -/
def polyChk (p : Int) (as rs P : List Int) : Bool :=
  decide (P.length ≤ as.length) && P.all (fun c => decide (0 ≤ c) && decide (c < p))
    && (P.getLast? != some 0)
    && (as.zip rs).all (fun ar => evalRef p P ar.1 == ar.2 % p)

def distinctMod (p : Int) : List Int → Bool
  | [] => true
  | a :: as => as.all (fun b => Int.gcd p (b - a) == 1) && distinctMod p as

end Givaro.Spec.CRT
