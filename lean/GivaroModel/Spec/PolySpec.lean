/-
C08 — reference polynomial arithmetic on coefficient lists and the Bool checkers the driver applies to the
implementation's output.  Core Lean only.  `Lemmas/PolyLemmas.lean` proves that `sadd/sneg/ssub/sscale/smul/seval`
are the operations of `Polynomial K` under `toPoly`, that `eqv` decides equality of polynomials and `sdeg` is the degree;
`Props/C08.lean` proves that the certificates checked here (division, gcd, inverse) determine what the property asks for.
Functions used only to *find* a certificate (`sdivmod`, `sxgcd`) need no proof: their result is re-checked by
multiplication (`divides`, Bezout identity) before it is trusted.
-/
namespace Givaro.Spec.Poly

variable {K : Type} [Zero K] [One K] [Add K] [Sub K] [Neg K] [Mul K] [Div K] [Inv K] [DecidableEq K]

/-- normal form: no leading zero coefficient -/
def norm : List K → List K
  | [] => []
  | a :: P =>
    match norm P with
    | [] => if a = 0 then [] else [a]
    | b :: Q => a :: b :: Q

def eqv (P Q : List K) : Bool := decide (norm P = norm Q)
/-- degree, `-1` for the zero polynomial -/
def sdeg (P : List K) : Int := ((norm P).length : Int) - 1
def coeff (P : List K) (i : Nat) : K := P.getD i 0

def sadd : List K → List K → List K
  | [], Q => Q
  | P, [] => P
  | a :: P, b :: Q => (a + b) :: sadd P Q
def sneg (P : List K) : List K := P.map (fun a => -a)
def ssub (P Q : List K) : List K := sadd P (sneg Q)
def sscale (c : K) (P : List K) : List K := P.map (fun a => c * a)
/-- schoolbook product: `(a + X P) Q = a Q + X (P Q)` -/
def smul : List K → List K → List K
  | [], _ => []
  | a :: P, Q => sadd (sscale a Q) (0 :: smul P Q)
/-- evaluation: `(a + X P)(v) = a + v P(v)` -/
def seval (P : List K) (v : K) : K := P.foldr (fun a acc => a + v * acc) 0
def zeros (n : Nat) : List K := List.replicate n 0
def natCast : Nat → K
  | 0 => 0
  | n + 1 => natCast n + 1
def spow (P : List K) : Nat → List K
  | 0 => [1]
  | n + 1 => smul P (spow P n)

/-- long division, used only to *find* certificates (fuel = number of quotient coefficients + 1) -/
def sdivmodAux (B : List K) (lcInv : K) (lenB : Nat) : Nat → List K → List K → List K × List K
  | 0, q, r => (q, norm r)
  | fuel + 1, q, r =>
    let r := norm r
    if r.length < lenB then (q, r) else
      let k := r.length - lenB
      let c := (r.getLast?.getD 0) * lcInv
      let r' := (ssub r (zeros k ++ sscale c B)).take (r.length - 1)     -- the leading term cancels
      sdivmodAux B lcInv lenB fuel (sadd q (zeros k ++ [c])) r'

/-- `(q, r)` with `A = B q + r`, `deg r < deg B` when `B ≠ 0`; `(0, A)` for `B = 0` -/
def sdivmod (A B : List K) : List K × List K :=
  let Bn := norm B
  match Bn.getLast? with
  | none => ([], norm A)
  | some lc => sdivmodAux Bn (1 / lc) Bn.length (A.length + 1) [] A

def smod (A B : List K) : List K := (sdivmod A B).2

/-- `D ∣ A`, certified: the quotient found by long division is multiplied back -/
def divides (D A : List K) : Bool :=
  if (norm D).isEmpty then (norm A).isEmpty else eqv (smul D (sdivmod A D).1) A

/-- `A = B Q + R ∧ deg R < deg B` -/
def chkDivmod (A B Q R : List K) : Bool := eqv (sadd (smul B Q) R) A && decide (sdeg R < sdeg B)
/-- `∃ R, A = B Q + R ∧ deg R < deg B` -/
def chkQuo (A B Q : List K) : Bool := decide (sdeg (ssub A (smul B Q)) < sdeg B)
/-- `deg R < deg B ∧ B ∣ A - R` -/
def chkRem (A B R : List K) : Bool := decide (sdeg R < sdeg B) && divides B (ssub A R)
/-- `m A = B Q + R ∧ deg R < deg B ∧ m ≠ 0` -/
def chkPdivmod (A B Q R : List K) (m : K) : Bool :=
  decide (m ≠ 0) && eqv (sadd (smul B Q) R) (sscale m A) && decide (sdeg R < sdeg B)
def chkPmod (A B R : List K) (m : K) : Bool :=
  decide (m ≠ 0) && decide (sdeg R < sdeg B) && divides B (ssub (sscale m A) R)

/-- extended Euclid, used only to *find* a gcd with cofactors: returns `(g, u, v)` -/
def sxgcdAux : Nat → (List K × List K × List K) → (List K × List K × List K) → (List K × List K × List K)
  | 0, x, _ => x
  | fuel + 1, (r0, s0, t0), (r1, s1, t1) =>
    if (norm r1).isEmpty then (r0, s0, t0) else
      let (q, r) := sdivmod r0 r1
      sxgcdAux fuel (r1, s1, t1) (r, ssub s0 (smul q s1), ssub t0 (smul q t1))
def sxgcd (P Q : List K) : List K × List K × List K :=
  sxgcdAux (P.length + Q.length + 2) (norm P, [1], []) (norm Q, [], [1])

/-- `g` is a greatest common divisor of `P, Q`, certified: `g ∣ P`, `g ∣ Q`, `g = P u + Q v` -/
def isGcdCert (P Q g u v : List K) : Bool :=
  divides g P && divides g Q && eqv (sadd (smul P u) (smul Q v)) g

/-- `D` is a gcd of `P, Q`: a certified gcd `g` is found and `D ∣ g`, `g ∣ D` (+ `D` is a common divisor) -/
def chkGcd (P Q D : List K) : Bool :=
  let (g, u, v) := sxgcd P Q
  isGcdCert P Q g u v && divides D g && divides g D
/-- extended gcd: divisibility and the Bezout identity `D = P U + Q V` (then `D` is a gcd: `gcd_certificate`) -/
def chkGcdExt (P Q D U V : List K) : Bool := isGcdCert P Q D U V
/-- lcm: a common multiple whose degree is `deg P + deg Q - deg gcd` (zero when an operand is zero) -/
def chkLcm (P Q L : List K) : Bool :=
  if (norm P).isEmpty || (norm Q).isEmpty then (norm L).isEmpty else
  let (g, u, v) := sxgcd P Q
  isGcdCert P Q g u v && divides P L && divides Q L && decide (sdeg L = sdeg P + sdeg Q - sdeg g)
/-- coprime operands (precondition of the modular inverse), certified -/
def coprime (P Q : List K) : Bool :=
  let (g, u, v) := sxgcd P Q
  isGcdCert P Q g u v && decide (sdeg g = 0)
/-- `U P = 1 mod Q` -/
def chkInvmod (P Q U : List K) : Bool := divides Q (ssub (smul U P) [1])
/-- `U P = e mod Q` with `deg e = 0` -/
def chkInvmodUnit (P Q U : List K) : Bool := decide (sdeg (smod (smul U P) Q) = 0)

def spowmodAux (U : List K) : Nat → List K → Nat → List K → List K
  | 0, _, _, acc => acc
  | fuel + 1, base, n, acc =>
    if n = 0 then acc else
      let acc' := if n % 2 = 1 then smod (smul acc base) U else acc
      spowmodAux U fuel (smod (smul base base) U) (n / 2) acc'
def spowmod (P : List K) (n : Nat) (U : List K) : List K := spowmodAux U (n + 1) (smod P U) n (smod [1] U)

/-- coefficients `lo … hi` of the product -/
def smulWindow (P Q : List K) (lo cnt : Nat) : List K :=
  let PQ := smul P Q
  (List.range cnt).map (fun i => coeff PQ (i + lo))

def sdiff (P : List K) : List K := (List.range (P.length - 1)).map (fun i => (natCast (i + 1) : K) * coeff P (i + 1))
/-- reversal of the stored coefficient vector: `X^(n-1) · P(1/X)` for `n` stored coefficients (the degree + 1 of a
    normalised polynomial) -/
def sreverse (P : List K) : List K := P.reverse
/-- `P(X^b)`; for `b = 0` this is the constant `P(1)` -/
def scompose (P : List K) (b : Nat) : List K :=
  let Pn := norm P
  if b = 0 then [seval Pn 1] else
  (List.range ((Pn.length - 1) * b + 1)).map (fun j => if j % b = 0 then coeff Pn (j / b) else 0)

end Givaro.Spec.Poly
