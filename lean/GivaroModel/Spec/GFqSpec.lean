/-
C05 — specification side: schoolbook arithmetic of F_p[X]/(f) on coefficient lists (low degree first,
exactly `k` coefficients in `[0,p)`), the p-adic coding the library uses to name a polynomial by an
integer (`Poly1PadicDom::eval`: `code = Σ c_i p^i`), and the executable validity checker for the three
Zech tables of a constructed `GFqDom`.
Core Lean only: linked into the driver.
-/
import GivaroModel.Model.Zech
namespace Givaro.Spec.GFq

/-- the `k` low p-adic digits of `n`, low first -/
def digits (p : Nat) : Nat → Nat → List Nat
  | 0, _ => []
  | k + 1, n => (n % p) :: digits p k (n / p)

/-- `Σ d_i p^i` -/
def undigits (p : Nat) : List Nat → Nat
  | [] => 0
  | d :: ds => d + p * undigits p ds

def polyAdd (p : Nat) : List Nat → List Nat → List Nat
  | a :: as, b :: bs => ((a + b) % p) :: polyAdd p as bs
  | as, [] => as
  | [], bs => bs

def polyNeg (p : Nat) (a : List Nat) : List Nat := a.map (fun x => (p - x % p) % p)

def polySub (p : Nat) (a b : List Nat) : List Nat := polyAdd p a (polyNeg p b)

def polyScale (p : Nat) (c : Nat) (a : List Nat) : List Nat := a.map (fun x => (c * x) % p)

/-- `a · X mod f` for a *monic* `f = X^k + flow` (`flow` = its `k` low coefficients), `a` of length `k`:
    shift up, and replace the overflowing `lead · X^k` by `- lead · flow`. -/
def polyMulX (p : Nat) (flow : List Nat) (a : List Nat) : List Nat :=
  match a.getLast? with
  | none => []
  | some lead => polySub p (0 :: a.dropLast) (polyScale p lead flow)

/-- `a · b mod f`, Horner in `b` from the high coefficient -/
def polyMul (p : Nat) (flow : List Nat) (a : List Nat) : List Nat → List Nat
  | [] => a.map (fun _ => 0)
  | b :: bs => polyAdd p (polyMulX p flow (polyMul p flow a bs)) (polyScale p b a)

/-- the field description a `GFqDom` reports: `p`, `k`, p-adic code of the modulus -/
structure Field where
  p : Nat
  k : Nat
  irred : Nat
deriving Repr

namespace Field
variable (F : Field)
def q : Nat := F.p ^ F.k
/-- low `k` coefficients of the modulus -/
def flow : List Nat := digits F.p F.k F.irred
/-- the modulus is monic of degree `k` (for `k = 1` the constructor leaves `_irred` unset: not used) -/
def monic : Bool := F.irred / F.p ^ F.k == 1
def cadd (a b : Nat) : Nat := undigits F.p (polyAdd F.p (digits F.p F.k a) (digits F.p F.k b))
def cneg (a : Nat) : Nat := undigits F.p (polyNeg F.p (digits F.p F.k a))
def csub (a b : Nat) : Nat := undigits F.p (polySub F.p (digits F.p F.k a) (digits F.p F.k b))
/-- product of two codes modulo the modulus; for `k = 1` plain multiplication modulo `p` -/
def cmul (a b : Nat) : Nat :=
  if F.k ≤ 1 then (a * b) % F.p
  else undigits F.p (polyMul F.p F.flow (digits F.p F.k a) (digits F.p F.k b))
/-- `a + 1` on codes — the successor used by the constructor for `_plus1` -/
def csucc (a : Nat) : Nat := if a % F.p = F.p - 1 then a - (F.p - 1) else a + 1
end Field

def isPrime (p : Nat) : Bool :=
  p ≥ 2 && (List.range (p.sqrt + 1)).all (fun d => d < 2 || d == p || p % d != 0)

/-- dumped tables of a constructed field (`_log2pol`, `_pol2log` as naturals, `_plus1` signed) -/
structure Tables where
  F : Field
  mOne : Int
  log2pol : Array Nat
  pol2log : Array Nat
  plus1 : Array Int

namespace Tables
variable (T : Tables)
def q : Nat := T.F.q
def l2p (i : Nat) : Nat := T.log2pol.getD i 0
def p2l (i : Nat) : Nat := T.pol2log.getD i 0
def pl1 (i : Nat) : Int := T.plus1.getD i 0

/-- the generator-multiplication chain: `log2pol[i+1] = log2pol[i] · log2pol[1] mod f` for `1 ≤ i ≤ q-2`,
    and it closes: `log2pol[q-1] · log2pol[1] = log2pol[1]`, `log2pol[q-1] = 1` -/
def chainOk : Bool :=
  let g := T.l2p 1
  (List.range (T.q - 2)).all (fun j => T.l2p (j + 2) == T.F.cmul (T.l2p (j + 1)) g) &&
  T.l2p (T.q - 1) == 1

/-- `pol2log ∘ log2pol = id` on `[0,q)` and every entry of `log2pol` is a code `< q`
    (so `log2pol` is injective on a finite set into itself, hence a bijection, with inverse `pol2log`) -/
def bijOk : Bool :=
  (List.range T.q).all (fun i => T.l2p i < T.q && T.p2l (T.l2p i) == i)

/-- `plus1[i]` is the pre-shifted logarithm of `γ^i + 1`, checked directly against `log2pol`:
    if the successor of `log2pol[i]` is the zero polynomial then `plus1[i] = 0` and `i` is the index the object
    calls `mOne`; otherwise `-(q-1) < plus1[i] < 0` and `log2pol[plus1[i] + (q-1)] = log2pol[i] + 1`. -/
def plus1Ok : Bool :=
  T.pl1 0 == 0 &&
  (List.range (T.q - 1)).all (fun j =>
    let c := T.F.csucc (T.l2p (j + 1))
    if c == 0 then T.pl1 (j + 1) == 0 && T.mOne == ((j + 1 : Nat) : Int)
    else decide (-((T.q : Int) - 1) < T.pl1 (j + 1)) && decide (T.pl1 (j + 1) < 0) &&
         T.l2p (T.pl1 (j + 1) + ((T.q : Int) - 1)).toNat == c)

/-- the element called `mOne` is the one whose polynomial plus one is zero -/
def mOneOk : Bool := T.F.csucc (T.l2p T.mOne.toNat) == 0

/-- everything the abstract theorem `Props.C05.zech_ops_correct` assumes, for the concrete quotient
    `F_p[X]/(f)` in coefficient-list arithmetic (`Props.C05.tablesValid_gives_ZechHyp`) -/
def tablesValid : Bool :=
  isPrime T.F.p && decide (T.F.k ≥ 1) && decide (T.q ≥ 2) &&
  (T.F.k == 1 || T.F.monic) &&
  T.log2pol.size == T.q && T.pol2log.size == T.q && T.plus1.size == T.q &&
  T.l2p 0 == 0 && decide (1 ≤ T.mOne) && decide (T.mOne ≤ (T.q : Int) - 1) &&
  T.chainOk && T.bijOk && T.plus1Ok && T.mOneOk

/-- the data members the arithmetic reads, as the model's `Dom` (`(plun)[(UT)(c)]`: the index is converted to unsigned) -/
def dom : Givaro.Model.Zech.Dom :=
  { mun := (T.q : Int) - 1, mo := T.mOne, pl := fun i => T.pl1 i.toNat }
end Tables

/-- brute-force irreducibility of the monic polynomial with low coefficients `flow` over F_p
    (used only for small `q`, as an independent cross-check of the constructed modulus):
    no `a, b` of degree `< k`, both of degree ≥ 1 … — done instead through the field test:
    every non-zero code has a multiplicative inverse among the codes. -/
def allInvertible (F : Field) : Bool :=
  (List.range (F.q - 1)).all (fun j =>
    (List.range (F.q - 1)).any (fun i => F.cmul (j + 1) (i + 1) == 1))

end Givaro.Spec.GFq
