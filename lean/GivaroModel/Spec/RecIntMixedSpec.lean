/-
C06 — specification of the mixed operations `ruint<K> / rint<K>  ⊗  built-in scalar`: convert the scalar to ℤ by its C++ value,
compute in ℤ, wrap to the width and signedness of the result type (the recursive class or the scalar type).  Core Lean only.

`mixedSpec form K cls ty x w y results` : `none` = unknown form; otherwise `(pre, ok)`.  `results` starts with the static result
kind printed by the harness (0/8/9: the form does not compile / link for this class and type — nothing to compare).
-/
import GivaroModel.Spec.RecIntSpec
namespace Givaro.Spec.RecInt

def tyBits : Nat → Nat
  | 0 => 8 | 1 => 8 | 2 => 16 | 3 => 16 | 4 => 32 | 5 => 32 | 6 => 64 | 7 => 64 | _ => 1
def tySigned (ty : Nat) : Bool := ty == 1 || ty == 3 || ty == 5 || ty == 7
/-- the range of the scalar type -/
def inT (ty : Nat) (w : Int) : Bool :=
  if ty == 8 then decide (w = 0) || decide (w = 1)
  else if tySigned ty then decide (-(2 : Int) ^ (tyBits ty - 1) ≤ w) && decide (w < (2 : Int) ^ (tyBits ty - 1))
  else decide (0 ≤ w) && decide (w < (2 : Int) ^ tyBits ty)
/-- conversion of an integer to the scalar type (modular; `bool`: non-zero) -/
def wrapT (ty : Nat) (v : Int) : Int :=
  if ty == 8 then (if v = 0 then 0 else 1)
  else
    let m : Int := (2 : Int) ^ tyBits ty
    let r := v % m
    if tySigned ty && decide (r ≥ m / 2) then r - m else r
/-- conversion to the recursive class: `ruint<K>` (cls = 0) or `rint<K>` (cls = 1) -/
def wrapX (cls K : Nat) (v : Int) : Int := if cls == 0 then v % (M K : Int) else wrapS K v
def inX (cls K : Nat) (x : Int) : Bool := if cls == 0 then inU K [x] else inS K x

/-- the value in ℤ of the one-result forms -/
def mixedVal (form : String) (K cls : Nat) (x w y : Int) : Option Int :=
  let nb : Int := (2 : Int) ^ K
  match form with
  | "add_xt" | "add_tx" | "addeq" | "add3" | "add3c" | "add2" => some (x + w)
  | "sub_xt" | "subeq" | "sub3" | "sub3c" | "sub2" => some (x - w)
  | "sub_tx" => some (w - x)
  | "mul_xt" | "mul_tx" | "muleq" | "mul3" | "mul2" | "lmul3" => some (x * w)
  | "div_xt" | "diveq" | "divq" => some (Int.tdiv x w)
  | "mod_xt" | "modeq" | "divr" => some (Int.tmod x w)
  | "and_xt" | "andeq" => some (Givaro.iland x w)
  | "or_xt" | "oreq" => some (Givaro.ilor x w)
  | "xor_xt" | "xoreq" => some (Givaro.ilxor x w)
  | "shl_xt" | "shleq" => some (if w ≥ nb then 0 else x * (2 : Int) ^ w.toNat)
  | "shr_xt" | "shreq" => some (if w ≥ nb then (if x < 0 then -1 else 0) else x / (2 : Int) ^ w.toNat)
  | "addmul" => some (y + x * (w % (2 : Int) ^ 64))           -- the parameter type is UDItype: the scalar is converted at the call
  | "expmod" => some ((Givaro.powModNat x.toNat w.toNat y.toNat : Nat) : Int)
  | _ => none

def mixedPre (form : String) (K cls ty : Nat) (x w y : Int) : Bool :=
  let isDiv := form == "div_xt" || form == "diveq" || form == "divq" || form == "mod_xt" || form == "modeq" || form == "divr" || form == "div"
  let isShift := form == "shl_xt" || form == "shleq" || form == "shr_xt" || form == "shreq"
  inX cls K x && inT ty w &&
  (!isDiv || (decide (w ≠ 0) && !(cls == 1 && decide (x = -((M K : Int) / 2)) && decide (w = -1)))) &&
  (!isShift || decide (w ≥ 0)) &&
  (form != "expmod" || (cls == 0 && inU K [y] && decide (y ≠ 0) && decide (w ≥ 0))) &&
  (form != "addmul" || (inX cls K y))

def mixedSpec (form : String) (K cls ty : Nat) (x w y : Int) (res : List Int) : Option (Bool × Bool) :=
  let pre := mixedPre form K cls ty x w y
  match res with
  | [] => some (pre, false)
  | rt :: vals =>
    if rt = 0 || rt = 8 || rt = 9 then some (false, true) else       -- does not compile / link: nothing to compare
    match form with
    | "rel_xt" => some (pre, rt = 3 && vals == (rels x w).map b2i)
    | "rel_tx" => some (pre, rt = 3 && vals == (rels w x).map b2i)
    | "cmp" => some (pre, rt = 4 && vals == [sgn (x - w)])
    | "div" => some (pre, rt = 6 && vals == [wrapX cls K (Int.tdiv x w), wrapT ty (Int.tmod x w)])
    | _ =>
      match mixedVal form K cls x w y with
      | none => none
      | some v =>
        if rt = 1 then some (pre, vals == [wrapX cls K v])
        else if rt = 2 then some (pre, vals == [wrapT ty v])
        else if rt = 7 then some (pre, vals == [wrapX cls (K + 1) v])
        else if rt = 5 then
          -- value + carry/borrow flag; the flag is specified for ruint and a non-negative scalar only
          match vals with
          | [r, c] =>
            let flagOk := if cls == 0 && decide (w ≥ 0) then
                (if form == "add3c" then c == (x + w) / (M K : Int) else c == b2i (decide (x < w))) else true
            some (pre, r == wrapX cls K v && flagOk)
          | _ => some (pre, false)
        else some (pre, false)

end Givaro.Spec.RecInt
