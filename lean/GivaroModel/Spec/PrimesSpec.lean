/-
C12 — reference functions and Bool checkers (core Lean only).

`isPrimeDec` is plain trial division (`Props/C12.lean: isPrimeDec_iff` proves `isPrimeDec n = true ↔ Nat.Prime n`).
`mrPrime` is the deterministic Miller–Rabin test with the first thirteen primes as bases (a primality test for every
n < 3317044064679887385961981 > 2^81 by Sorenson–Webster; that fact is *not* proved here: it is the "deterministic primality test" the
property compares the 64-bit answers with).
-/
import GivaroModel.Prim.Gmp
namespace Givaro.Spec.Primes
open Givaro

/-- no divisor `k ≥ d` with `k*k ≤ n` (fuel-bounded trial division) -/
def noDivFrom (n : Nat) : Nat → Nat → Bool
  | 0, _ => true
  | fuel+1, d => if n < d * d then true else if n % d = 0 then false else noDivFrom n fuel (d + 1)

def isPrimeDec (n : Nat) : Bool := decide (2 ≤ n) && noDivFrom n n 2

/-! Miller–Rabin -/
def oddPart : Nat → Nat → Nat → Nat × Nat
  | 0, d, s => (d, s)
  | fuel+1, d, s => if d % 2 = 1 ∨ d = 0 then (d, s) else oddPart fuel (d / 2) (s + 1)

def mrSquares (n : Nat) : Nat → Nat → Bool
  | 0, _ => false
  | s+1, x => let y := x * x % n; if y = n - 1 then true else mrSquares n s y

/-- `true` = `n` passes the strong test to base `a` -/
def mrBase (n d s a : Nat) : Bool :=
  if a % n = 0 then true else
  let x := powModNat (a % n) d n
  x = 1 || x = n - 1 || mrSquares n (s - 1) x

def mrBases : List Nat := [2, 3, 5, 7, 11, 13, 17, 19, 23, 29, 31, 37, 41]
/-- the least strong pseudoprime to all thirteen bases (Sorenson–Webster 2015): `mrPrime` is a primality test below it -/
def mrLimit : Nat := 3317044064679887385961981

def mrPrime (n : Nat) : Bool :=
  if n < 2 then false else if n < 4 then true else if n % 2 = 0 then false else
  let (d, s) := oddPart (Nat.log2 n + 1) (n - 1) 0
  mrBases.all (mrBase n d s)

/-- the reference primality predicate of the correspondence: trial division below 2^20, Miller–Rabin above -/
def primeN (n : Nat) : Bool := if n < 1048576 then isPrimeDec n else mrPrime n
def primeI (n : Int) : Bool := decide (2 ≤ n) && primeN n.toNat

/-- no prime among `lo, lo+1, …, lo+len-1` -/
def noPrimeIn (lo : Int) (len : Nat) : Bool := (List.range len).all (fun i => !primeI (lo + (i : Int)))

/-- `r` is the closest prime strictly above `p` (the gap is bounded so that the checker is total and cheap) -/
def chkNext (p r : Int) : Bool :=
  decide (p < r) && decide (r - p < 100000) && primeI r && noPrimeIn (p + 1) (r - p - 1).toNat

/-- `r` is the closest prime strictly below `p`, or the documented value 2 when there is none (`p ≤ 2`) -/
def chkPrev (p r : Int) : Bool :=
  if p ≤ 2 then r == 2 else
  decide (r < p) && decide (p - r < 100000) && primeI r && noPrimeIn (r + 1) (p - r - 1).toNat

/-- a single returned factor: divides `n`; non-trivial when `n > 1` is composite -/
def chkFactor (n f : Int) : Bool :=
  decide (f ≠ 0) && decide (n % f = 0) && (if 1 < n ∧ !primeI n then decide (1 < f ∧ f < n) else true)

/-- a single returned *prime* factor (`iffactorprime`, `primefactor`) of `n > 1` -/
def chkPrimeFactor (n f : Int) : Bool :=
  if n ≤ 1 then chkFactor n f else primeI f && decide (n % f = 0)

def prodPow : List (Nat × Nat) → Nat
  | [] => 1
  | (p, e) :: fs => p ^ e * prodPow fs

def distinct : List Nat → Bool
  | [] => true
  | x :: xs => !xs.contains x && distinct xs

/-- complete factorisation of `n ≠ 0`: distinct primes, exponents ≥ 1, product `|n|` -/
def chkFactorisation (n : Int) (fs : List (Nat × Nat)) : Bool :=
  fs.all (fun pe => primeN pe.1 && decide (1 ≤ pe.2)) && distinct (fs.map (·.1)) && prodPow fs == n.natAbs

/-- number of divisors from a (checked) factorisation -/
def tau (fs : List (Nat × Nat)) : Nat := (fs.map (fun pe => pe.2 + 1)).foldl (· * ·) 1

/-- the divisor list is exactly the set of positive divisors of `n ≠ 0`: every entry divides, no entry twice,
    and there are `∏ (eᵢ+1)` of them, where `fs` is a factorisation accepted by `chkFactorisation` -/
def chkDivisors (n : Int) (fs : List (Nat × Nat)) (ds : List Nat) : Bool :=
  chkFactorisation n fs && ds.all (fun d => decide (0 < d) && n.natAbs % d == 0) && distinct ds && ds.length == tau fs

/-- floor k-th root by bisection -/
def irootAux (n k : Nat) : Nat → Nat → Nat → Nat
  | 0, lo, _ => lo
  | fuel+1, lo, hi =>
    if hi ≤ lo + 1 then lo else
    let mid := (lo + hi) / 2
    if mid ^ k ≤ n then irootAux n k fuel mid hi else irootAux n k fuel lo mid
def iroot (n k : Nat) : Nat :=
  if k = 0 then 0 else irootAux n k (Nat.log2 n + 2) 0 (2 ^ (Nat.log2 n / k + 1))

/-- `n = r^k` for a prime `r` and some `k ≥ 2` -/
def properPrimePower (n : Nat) : Bool :=
  (List.range (Nat.log2 n + 1)).any (fun k => decide (2 ≤ k) && (let r := iroot n k; r ^ k == n && primeN r))

/-- prime-power test: `(e, q)` with `q` prime and `q^e = n`, or `e = 0` when `n` is not a proper prime power -/
def chkPrimePower (n : Int) (e q : Nat) : Bool :=
  if e = 0 then !(decide (0 < n) && properPrimePower n.toNat)
  else primeN q && ((q ^ e : Nat) : Int) == n

end Givaro.Spec.Primes
