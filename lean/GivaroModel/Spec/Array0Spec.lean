/-
C17 — the value-semantics machine against which `Array0` is judged.

Every handle denotes a list of cells; a cell is `some v` (determined) or `none` (the property leaves it unspecified:
cells exposed again by growing after a shrink, or obtained from `allocate`).  Handles made by the NoCopy constructor or by
`logcopy` are *aliases*: they belong to the same group and denote the same list; every other copy is a value copy.
Core Lean only.
-/
namespace Givaro.Spec.Array0Spec

structure AState (α : Type) where
  grp  : List (Option Nat)            -- alias group of each handle (none: no storage)
  vals : Nat → List (Option α)        -- the list a group denotes
  next : Nat

variable {α : Type}

def ainit (α : Type) (n : Nat) : AState α := { grp := List.replicate n none, vals := fun _ => [], next := 0 }

def grpOf (a : AState α) (h : Nat) : Option Nat := (a.grp.getD h none)
def value (a : AState α) (h : Nat) : List (Option α) :=
  match grpOf a h with | none => [] | some g => a.vals g
def members (a : AState α) (g : Nat) : Nat := (a.grp.filter (· == some g)).length
def sole (a : AState α) (h : Nat) : Bool :=
  match grpOf a h with | none => false | some g => members a g == 1
def setGrp (a : AState α) (h : Nat) (x : Option Nat) : AState α := { a with grp := a.grp.set h x }
def setVal (a : AState α) (g : Nat) (l : List (Option α)) : AState α :=
  { a with vals := fun j => if j = g then l else a.vals j }
/-- a new list owned by `h` alone (the empty list needs no storage) -/
def fresh (a : AState α) (h : Nat) (l : List (Option α)) : AState α :=
  if l.isEmpty then setGrp a h none
  else { grp := a.grp.set h (some a.next), vals := fun j => if j = a.next then l else a.vals j, next := a.next + 1 }

def resized (l : List (Option α)) (sz : Nat) (pad : Option α) : List (Option α) :=
  l.take sz ++ List.replicate (sz - l.length) pad

def aresize [Inhabited α] (a : AState α) (h sz : Nat) : AState α :=
  match grpOf a h with
  | some g => if members a g == 1 then setVal a g (resized (a.vals g) sz none)
              else fresh a h (resized (a.vals g) sz (some default))
  | none => fresh a h (resized [] sz (some default))

inductive AOp (α : Type) where
  | build (h sz : Nat) (t : α) | share (h g : Nat) | valueCopy (h g : Nat) | destroy (h : Nat)
  | allocate (h sz : Nat) | resize (h sz : Nat) | reserve (h sz : Nat) | pushBack (h : Nat) (v : α)
  | write (h i : Nat) (v : α) | copy (h g : Nat) | pushBackSelf (h i : Nat)

def astep [Inhabited α] (a : AState α) : AOp α → AState α
  | .build h sz t => fresh a h (List.replicate sz (some t))
  | .share h g => if h = g then a else setGrp a h (grpOf a g)
  | .valueCopy h g => if h = g then a else fresh a h (value a g)
  | .destroy h => setGrp a h none
  | .allocate h sz =>
    match grpOf a h with
    | some g => if members a g == 1 then setVal a g (List.replicate sz none)
                else fresh a h (List.replicate sz (some default))
    | none => fresh a h (List.replicate sz (some default))
  | .resize h sz => aresize a h sz
  | .reserve h sz => aresize (aresize a h sz) h 0
  | .pushBack h v =>
    let k := (value a h).length
    let a := aresize a h (k + 1)
    match grpOf a h with
    | some g => setVal a g ((a.vals g).set k (some v))
    | none => a
  | .write h i v =>
    match grpOf a h with
    | some g => if i < (a.vals g).length then setVal a g ((a.vals g).set i (some v)) else a
    | none => a
  | .pushBackSelf h i =>
    let old := value a h
    if i < old.length then
      let a := aresize a h (old.length + 1)
      match grpOf a h with
      | some g => setVal a g ((a.vals g).set old.length (old.getD i none))
      | none => a
    else a
  | .copy h g =>
    if grpOf a h = grpOf a g then a else
    let v := value a g
    let a := aresize a h v.length
    match grpOf a h with
    | some gh => setVal a gh v
    | none => a

/-- an observed list of cells agrees with a denoted one: same length, equal wherever the cell is determined -/
def matchesB [BEq α] : List α → List (Option α) → Bool
  | [], [] => true
  | x :: xs, y :: ys => (match y with | none => true | some v => x == v) && matchesB xs ys
  | _, _ => false


/-! ## The deterministic value-semantics machine (the target of the simulation theorem)

No reference counts, no liveness, no release, no faults: a handle is `(group, logical size)`, a group denotes a list of
cells, groups are never reclaimed (garbage-collected semantics), aliases are handles with the same group.  Cells beyond
the logical size are *retained storage*: they reappear when the sole owner grows again within the retained length; the
property leaves them unspecified (the correspondence's verdict ignores them, see the `none` cells of `AState` above),
the machine records them so that the refinement `abs (run Model.init ops) = vrun vinit ops` is an equality. -/

structure VHandle where
  grp  : Option Nat
  size : Nat
deriving DecidableEq, Repr

structure VState (α : Type) where
  n     : Nat
  hs    : Nat → VHandle
  cells : Nat → List α
  next  : Nat

def vinit (α : Type) (n : Nat) : VState α := { n := n, hs := fun _ => ⟨none, 0⟩, cells := fun _ => [], next := 0 }

def vupd {β : Type} (f : Nat → β) (i : Nat) (v : β) : Nat → β := fun j => if j = i then v else f j

def vcount (p : Nat → Bool) : Nat → Nat
  | 0 => 0
  | k + 1 => vcount p k + (if p k then 1 else 0)

/-- number of handles in group `g` -/
def vmembers (a : VState α) (g : Nat) : Nat := vcount (fun h => (a.hs h).grp == some g) a.n

/-- what handle `h` denotes -/
def vvalue (a : VState α) (h : Nat) : List α :=
  match (a.hs h).grp with
  | none => []
  | some g => (a.cells g).take (a.hs h).size

def vdrop (a : VState α) (h : Nat) : VState α := { a with hs := vupd a.hs h ⟨none, 0⟩ }

def vfresh (a : VState α) (h : Nat) (l : List α) (sz : Nat) : VState α :=
  { a with hs := vupd a.hs h ⟨some a.next, sz⟩, cells := vupd a.cells a.next l, next := a.next + 1 }

def vsetSize (a : VState α) (h sz : Nat) : VState α := { a with hs := vupd a.hs h { (a.hs h) with size := sz } }

/-- the handle is the only member of its group and the retained storage has room for `sz` cells -/
def vsoleWithRoom (a : VState α) (h sz : Nat) : Bool :=
  match (a.hs h).grp with
  | none => false
  | some g => decide (vmembers a g = 1 ∧ (a.cells g).length ≥ sz)

def vbuild (a : VState α) (h sz : Nat) (t : α) : VState α :=
  let a := vdrop a h
  if sz ≠ 0 then vfresh a h (List.replicate sz t) sz else a

def vshare (a : VState α) (h g : Nat) : VState α :=
  if h = g then a else
  let a := vdrop a h
  { a with hs := vupd a.hs h (a.hs g) }

def vvalueCopy (a : VState α) (h g : Nat) : VState α :=
  if h = g then a else
  let a := vdrop a h
  if (a.hs g).size ≠ 0 then vfresh a h (vvalue a g) (a.hs g).size else a

def vallocate [Inhabited α] (a : VState α) (h sz : Nat) : VState α :=
  if vsoleWithRoom a h sz then vsetSize a h sz else
  let a := vdrop a h
  if sz > 0 then vfresh a h (List.replicate sz default) sz else a

def vresize [Inhabited α] (a : VState α) (h sz : Nat) : VState α :=
  if vsoleWithRoom a h sz then vsetSize a h sz else
  if sz > 0 then
    let k := if (a.hs h).size < sz then (a.hs h).size else sz
    vfresh (vdrop a h) h ((vvalue a h).take k ++ List.replicate (sz - k) default) sz
  else vdrop a h

def vsetCells (a : VState α) (g : Nat) (l : List α) : VState α := { a with cells := vupd a.cells g l }

def vwrite (a : VState α) (h i : Nat) (v : α) : VState α :=
  if i < (a.hs h).size then
    match (a.hs h).grp with
    | some g => vsetCells a g ((a.cells g).set i v)
    | none => a
  else a

def vpushBack [Inhabited α] (a : VState α) (h : Nat) (v : α) : VState α :=
  let a := vresize a h ((a.hs h).size + 1)
  vwrite a h ((a.hs h).size - 1) v

/-- appending the handle's own cell `i` appends its value -/
def vpushBackSelf [Inhabited α] (a : VState α) (h i : Nat) : VState α :=
  if i < (a.hs h).size then
    match (vvalue a h)[i]? with
    | some v => vpushBack a h v
    | none => a
  else a

def vcopy [Inhabited α] (a : VState α) (h g : Nat) : VState α :=
  if (a.hs g).grp = (a.hs h).grp then a else
  let a := vresize a h (a.hs g).size
  let l := (vvalue a g).take (a.hs h).size
  match (a.hs h).grp with
  | some gh => if l.isEmpty then a else vsetCells a gh (l ++ (a.cells gh).drop l.length)
  | none => a

inductive VOp (α : Type) where
  | build (h sz : Nat) (t : α) | share (h g : Nat) | valueCopy (h g : Nat) | drop (h : Nat)
  | allocate (h sz : Nat) | resize (h sz : Nat) | reserve (h sz : Nat) | pushBack (h : Nat) (v : α)
  | pushBackSelf (h i : Nat)
  | write (h i : Nat) (v : α) | copy (h g : Nat)

def VOp.handles : VOp α → List Nat
  | .build h _ _ => [h] | .share h g => [h, g] | .valueCopy h g => [h, g] | .drop h => [h]
  | .allocate h _ => [h] | .resize h _ => [h] | .reserve h _ => [h] | .pushBack h _ => [h] | .pushBackSelf h _ => [h] | .write h _ _ => [h]
  | .copy h g => [h, g]

def vstepCore [Inhabited α] (a : VState α) : VOp α → VState α
  | .build h sz t => vbuild a h sz t
  | .share h g => vshare a h g
  | .valueCopy h g => vvalueCopy a h g
  | .drop h => vdrop a h
  | .allocate h sz => vallocate a h sz
  | .resize h sz => vresize a h sz
  | .reserve h sz => vresize (vresize a h sz) h 0
  | .pushBack h v => vpushBack a h v
  | .pushBackSelf h i => vpushBackSelf a h i
  | .write h i v => vwrite a h i v
  | .copy h g => vcopy a h g

/-- operations naming a handle outside `[0, n)` do nothing -/
def vstep [Inhabited α] (a : VState α) (op : VOp α) : VState α :=
  if op.handles.any (fun h => decide (a.n ≤ h)) then a else vstepCore a op

def vrun [Inhabited α] (a : VState α) (ops : List (VOp α)) : VState α := ops.foldl vstep a

end Givaro.Spec.Array0Spec
