/-
C17 — the value-semantics machine against which `Array0` is judged.

Every handle denotes a list of cells; a cell is `some v` (determined) or `none` (the property leaves it unspecified:
cells exposed again by growing after a shrink, or obtained from `allocate`).  Handles made by the NoCopy constructor or by
`logcopy` are *aliases*: they belong to the same group and denote the same list; every other copy is a value copy.
Core Lean only.
-/
namespace Givaro.Spec.Array0Spec

structure AState (α : Type) where
  grp  : List (Option Nat)            -- alias group of each handle (none: no storage)
  vals : Nat → List (Option α)        -- the list a group denotes
  next : Nat

variable {α : Type}

def ainit (α : Type) (n : Nat) : AState α := { grp := List.replicate n none, vals := fun _ => [], next := 0 }

def grpOf (a : AState α) (h : Nat) : Option Nat := (a.grp.getD h none)
def value (a : AState α) (h : Nat) : List (Option α) :=
  match grpOf a h with | none => [] | some g => a.vals g
def members (a : AState α) (g : Nat) : Nat := (a.grp.filter (· == some g)).length
def sole (a : AState α) (h : Nat) : Bool :=
  match grpOf a h with | none => false | some g => members a g == 1
def setGrp (a : AState α) (h : Nat) (x : Option Nat) : AState α := { a with grp := a.grp.set h x }
def setVal (a : AState α) (g : Nat) (l : List (Option α)) : AState α :=
  { a with vals := fun j => if j = g then l else a.vals j }
/-- a new list owned by `h` alone (the empty list needs no storage) -/
def fresh (a : AState α) (h : Nat) (l : List (Option α)) : AState α :=
  if l.isEmpty then setGrp a h none
  else { grp := a.grp.set h (some a.next), vals := fun j => if j = a.next then l else a.vals j, next := a.next + 1 }

def resized (l : List (Option α)) (sz : Nat) (pad : Option α) : List (Option α) :=
  l.take sz ++ List.replicate (sz - l.length) pad

def aresize [Inhabited α] (a : AState α) (h sz : Nat) : AState α :=
  match grpOf a h with
  | some g => if members a g == 1 then setVal a g (resized (a.vals g) sz none)
              else fresh a h (resized (a.vals g) sz (some default))
  | none => fresh a h (resized [] sz (some default))

inductive AOp (α : Type) where
  | build (h sz : Nat) (t : α) | share (h g : Nat) | valueCopy (h g : Nat) | destroy (h : Nat)
  | allocate (h sz : Nat) | resize (h sz : Nat) | reserve (h sz : Nat) | pushBack (h : Nat) (v : α)
  | write (h i : Nat) (v : α) | copy (h g : Nat)

def astep [Inhabited α] (a : AState α) : AOp α → AState α
  | .build h sz t => fresh a h (List.replicate sz (some t))
  | .share h g => if h = g then a else setGrp a h (grpOf a g)
  | .valueCopy h g => if h = g then a else fresh a h (value a g)
  | .destroy h => setGrp a h none
  | .allocate h sz =>
    match grpOf a h with
    | some g => if members a g == 1 then setVal a g (List.replicate sz none)
                else fresh a h (List.replicate sz (some default))
    | none => fresh a h (List.replicate sz (some default))
  | .resize h sz => aresize a h sz
  | .reserve h sz => aresize (aresize a h sz) h 0
  | .pushBack h v =>
    let k := (value a h).length
    let a := aresize a h (k + 1)
    match grpOf a h with
    | some g => setVal a g ((a.vals g).set k (some v))
    | none => a
  | .write h i v =>
    match grpOf a h with
    | some g => if i < (a.vals g).length then setVal a g ((a.vals g).set i (some v)) else a
    | none => a
  | .copy h g =>
    if grpOf a h = grpOf a g then a else
    let v := value a g
    let a := aresize a h v.length
    match grpOf a h with
    | some gh => setVal a gh v
    | none => a

/-- an observed list of cells agrees with a denoted one: same length, equal wherever the cell is determined -/
def matchesB [BEq α] : List α → List (Option α) → Bool
  | [], [] => true
  | x :: xs, y :: ys => (match y with | none => true | some v => x == v) && matchesB xs ys
  | _, _ => false

end Givaro.Spec.Array0Spec
