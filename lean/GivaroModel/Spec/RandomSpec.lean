/-
C20 — specification side: the documented set of every kind of draw, as decidable checkers (core Lean only).
A random draw is not determined by the property, so the implementation's output is never compared with "the" value:
it is passed through these checkers (Props/C20.lean proves them equivalent to the property's text and proves that the
model always satisfies them).
-/
namespace Givaro.Spec.Random

/-- `|x|` -/
def iabs (x : Int) : Int := if x < 0 then -x else x

/-- draw below a bound: `[0, m)`; with a random sign (ALWAYSPOSITIVE = false): `(-m, m)` -/
def ltOk (ap : Bool) (m r : Int) : Bool :=
  if ap then decide (0 ≤ r ∧ r < m) else decide (-m < r ∧ r < m)

/-- `x` has exactly `n` bits: `2^(n-1) ≤ |x| < 2^n` (n ≥ 1) -/
def hasBits (n : Nat) (x : Int) : Bool :=
  decide (1 ≤ n ∧ 2 ^ (n - 1) ≤ iabs x ∧ iabs x < 2 ^ n)

/-- draw of an exact bit size (positive unless the sign is random) -/
def exactOk (ap : Bool) (n : Nat) (r : Int) : Bool := hasBits n r && (!ap || decide (0 < r))

/-- draw between bounds: `[lo, hi)` -/
def betweenOk (lo hi r : Int) : Bool := decide (lo ≤ r ∧ r < hi)

/-- non-zero draw below a bound -/
def nonzeroOk (ap : Bool) (m r : Int) : Bool := decide (r ≠ 0) && ltOk ap m r

/-- canonical element of Z/p in the positive representation `[0, p)` (Modular, Montgomery: the stored residue) -/
def canonical (p e : Int) : Bool := decide (0 ≤ e ∧ e < p)

/-- canonical element in the balanced representation `[⌊p/2⌋ - p + 1, ⌊p/2⌋]` -/
def canonicalBal (p e : Int) : Bool := decide (p / 2 - p + 1 ≤ e ∧ e ≤ p / 2)

/-- range of GivRandom: `[1, max_rand())` with `max_rand() = 2^31 - 1` -/
def givOk (x : Int) : Bool := decide (1 ≤ x ∧ x < 2147483647)

def allB {α : Type} (f : α → Bool) : List α → Bool
  | [] => true
  | x :: xs => f x && allB f xs

/-- polynomial of the requested degree `d` with canonical coefficients (`cs` = c_0 … c_{size-1}) -/
def polyOk (p : Int) (d : Nat) (cs : List Int) : Bool :=
  decide (cs.length = d + 1) && allB (canonical p) cs && decide (cs.getLast? ≠ some 0)

/-- the same for a degree that may be -∞ (any negative number): then only the zero polynomial, of size 0 -/
def polyDegOk (p : Int) (d : Int) (cs : List Int) : Bool :=
  if d < 0 then cs.isEmpty else polyOk p d.toNat cs

end Givaro.Spec.Random
