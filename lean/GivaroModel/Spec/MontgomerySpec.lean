/-
Specification side of C07: plain residue arithmetic on `Int`, and the Boolean checkers the driver applies to the
implementation's outputs.  Core Lean only.  Nothing here mentions Montgomery reduction: an element `x` kept
in Montgomery form with radix `M` (`M = 2^16`, resp. `2^(2^K)`) represents the residue `a` iff
`0 ≤ x < p` and `x ≡ a·M (mod p)`.
-/
namespace Givaro.Spec.Montgomery

/-- `x` is the Montgomery form (radix `M`) of the residue `a` modulo `p` -/
def IsRep (M p x a : Int) : Prop := 0 ≤ x ∧ x < p ∧ x % p = (a * M) % p

def repOk (M p x a : Int) : Bool := decide (0 ≤ x) && decide (x < p) && decide (x % p = (a * M) % p)

theorem repOk_iff (M p x a : Int) : repOk M p x a = true ↔ IsRep M p x a := by
  simp [repOk, IsRep, and_assoc]

/-- admissible modulus of `Montgomery<int32_t>`: odd, `3 ≤ p ≤ maxCardinality() = 40503` -/
def admissible32 (p : Int) : Bool := decide (3 ≤ p) && decide (p ≤ 40503) && decide (p % 2 = 1)
/-- admissible modulus of the RecInt forms: odd, `3 ≤ p < R` -/
def admissibleR (R p : Int) : Bool := decide (3 ≤ p) && decide (p < R) && decide (p % 2 = 1)

/-- plain residue arithmetic (the right-hand sides of the property) -/
def rAdd (p a b : Int) : Int := (a + b) % p
def rSub (p a b : Int) : Int := (a - b) % p
def rMul (p a b : Int) : Int := (a * b) % p
def rNeg (p a : Int) : Int := (-a) % p
def rAxpy (p a b c : Int) : Int := (a * b + c) % p
def rAxmy (p a b c : Int) : Int := (a * b - c) % p
def rMaxpy (p a b c : Int) : Int := (c - a * b) % p
def rPow (p a : Int) (e : Nat) : Int := (a ^ e) % p

/-- square-and-multiply on plain residues (used by the driver only: `a ^ e` with a 1024-bit `e` is not computable) -/
def powMod (p : Int) : Nat → Int → Int → Int → Int
  | 0, acc, _, _ => acc
  | fuel + 1, acc, x, e =>
    if e = 0 then acc
    else powMod p fuel (if e % 2 = 1 then (acc * x) % p else acc) ((x * x) % p) (e / 2)

/-- `y` is the inverse of `b` modulo `p` (checker: the property determines it only through this equation) -/
def isInvOf (p b y : Int) : Bool := decide (0 ≤ y) && decide (y < p) && decide ((y * b) % p = 1 % p)
/-- `y = a / b` modulo `p` -/
def isQuotOf (p a b y : Int) : Bool := decide (0 ≤ y) && decide (y < p) && decide ((y * b) % p = a % p)

end Givaro.Spec.Montgomery
