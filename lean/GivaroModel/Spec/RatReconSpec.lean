/-
C11 — specification of rational reconstruction: the property's text as Props, and the Bool checkers the
correspondence driver runs on every reported success (their equivalence with the Props is
`Givaro.Props.C11.soundB_iff` / `completeB_iff`).  Core Lean only.
-/
import GivaroModel.Model.RatRecon
namespace Givaro.Spec.RatRecon
open Givaro.Model.RatRecon

/-- "the returned pair satisfies num = den*f (mod m), |num| < k, den > 0 and, when a reduced fraction is
    requested, gcd(num, den) = 1" -/
def Sound (f m k : Int) (reduce : Bool) (num den : Int) : Prop :=
  m ∣ (num - den * f) ∧ (num.natAbs : Int) < k ∧ 0 < den ∧ (reduce = true → Int.gcd num den = 1)

def soundB (f m k : Int) (reduce : Bool) (num den : Int) : Bool :=
  decide ((num - den * f) % m = 0) && decide ((num.natAbs : Int) < k) && decide (0 < den)
    && (!reduce || Int.gcd num den == 1)

/-- the uniqueness envelope of the property: gcd(a,b) = gcd(b,m) = 1, |a|, b ≤ √m / 4 -/
def Envelope (a b m : Int) : Prop :=
  0 < b ∧ Int.gcd a b = 1 ∧ Int.gcd b m = 1 ∧ 4 * (a.natAbs : Int) ≤ isqrt m ∧ 4 * b ≤ isqrt m

def envelopeB (a b m : Int) : Bool :=
  decide (0 < b) && Int.gcd a b == 1 && Int.gcd b m == 1 && decide (4 * (a.natAbs : Int) ≤ isqrt m)
    && decide (4 * b ≤ isqrt m)

/-- `f` is the canonical representative of a·b⁻¹ mod m -/
def IsResidueOf (f a b m : Int) : Prop := 0 ≤ f ∧ f < m ∧ m ∣ (b * f - a)
def isResidueOfB (f a b m : Int) : Bool := decide (0 ≤ f) && decide (f < m) && decide ((b * f - a) % m = 0)

/-! ### polynomial checker (list polynomials over Z/p) -/

/-- N ≡ D·P (mod M), deg N ≤ dk, D ≠ 0, and gcd(N,D) constant when a reduced fraction is requested -/
def polySoundB (pr : Int) (p m : LPoly) (dk : Int) (reduce : Bool) (n d : LPoly) : Bool :=
  let diff := lsub pr (lreduce pr n) (lmul pr (lreduce pr d) (lreduce pr p))
  (ldivmod pr diff m).2.isEmpty && decide (ldeg n ≤ dk) && !(lreduce pr d).isEmpty
    && (!reduce || decide (ldeg (lgcd pr (lreduce pr n) (lreduce pr d)) ≤ 0))

end Givaro.Spec.RatRecon
