/-
C11 — specification of rational reconstruction: the property's text as Props, and the Bool checkers the
correspondence driver runs on every reported success (their equivalence with the Props is
`Givaro.Props.C11.soundB_iff` / `completeB_iff`).  Core Lean only.
-/
import GivaroModel.Model.RatRecon
namespace Givaro.Spec.RatRecon
open Givaro.Model.RatRecon

/-- "the returned pair satisfies num = den*f (mod m), |num| < k, den > 0 and, when a reduced fraction is
    requested, gcd(num, den) = 1" -/
def Sound (f m k : Int) (reduce : Bool) (num den : Int) : Prop :=
  m ∣ (num - den * f) ∧ (num.natAbs : Int) < k ∧ 0 < den ∧ (reduce = true → Int.gcd num den = 1)

def soundB (f m k : Int) (reduce : Bool) (num den : Int) : Bool :=
  decide ((num - den * f) % m = 0) && decide ((num.natAbs : Int) < k) && decide (0 < den)
    && (!reduce || Int.gcd num den == 1)

/-- the uniqueness envelope of the property: gcd(a,b) = gcd(b,m) = 1, |a|, b ≤ √m / 4 -/
def Envelope (a b m : Int) : Prop :=
  0 < b ∧ Int.gcd a b = 1 ∧ Int.gcd b m = 1 ∧ 4 * (a.natAbs : Int) ≤ isqrt m ∧ 4 * b ≤ isqrt m

def envelopeB (a b m : Int) : Bool :=
  decide (0 < b) && Int.gcd a b == 1 && Int.gcd b m == 1 && decide (4 * (a.natAbs : Int) ≤ isqrt m)
    && decide (4 * b ≤ isqrt m)

/-- `f` is the canonical representative of a·b⁻¹ mod m -/
def IsResidueOf (f a b m : Int) : Prop := 0 ≤ f ∧ f < m ∧ m ∣ (b * f - a)
def isResidueOfB (f a b m : Int) : Bool := decide (0 ≤ f) && decide (f < m) && decide ((b * f - a) % m = 0)

/-- a reduced solution within the bounds the code documents ("|num| < k and 0 <= den <= m/k") -/
def Solution (f m k n d : Int) : Prop :=
  m ∣ (n - d * f) ∧ (n.natAbs : Int) < k ∧ 0 < d ∧ d * k ≤ m ∧ Int.gcd n d = 1

def solutionB (f m k n d : Int) : Bool :=
  decide ((n - d * f) % m = 0) && decide ((n.natAbs : Int) < k) && decide (0 < d) && decide (d * k ≤ m) && Int.gcd n d == 1

/-- brute force over the whole (finite) box: does any reduced solution exist?  (driver, small m only) -/
def existsSolutionB (f m k : Int) : Bool :=
  (List.range (m / k).toNat).any fun d0 =>
    (List.range (2 * k.toNat)).any fun n0 => solutionB f m k ((n0 : Int) - k + 1) ((d0 : Int) + 1)

/-! ### polynomial checker (list polynomials over Z/p) -/

/-- N ≡ D·P (mod M), deg N ≤ dk, D ≠ 0, and gcd(N,D) constant when a reduced fraction is requested -/
def polySoundB (pr : Int) (p m : LPoly) (dk : Int) (reduce : Bool) (n d : LPoly) : Bool :=
  let diff := lsub pr (lreduce pr n) (lmul pr (lreduce pr d) (lreduce pr p))
  (ldivmod pr diff m).2.isEmpty && decide (ldeg n ≤ dk) && !(lreduce pr d).isEmpty
    && (!reduce || decide (ldeg (lgcd pr (lreduce pr n) (lreduce pr d)) ≤ 0))

/-- bounds tried by the widening loop: (k+1)·2^i < f, restricted to those ≤ m -/
def widenBounds (k f m : Int) : Nat → Int → List Int
  | 0, _ => []
  | n + 1, b => if b < f then (if b ≤ m then [b] else []) ++ widenBounds k f m n (b * 2) else []

/-- what the completeness theorems say about a reported failure, decided by brute force (driver, small m):
    no reduced solution within `k`, nor (with widening) within any bound that was tried -/
def failureExactB (f m k : Int) (rc : Bool) : Bool :=
  !existsSolutionB f m k &&
    (!rc || (widenBounds k f m 64 (k + 1)).all (fun b => !existsSolutionB f m b))

/-- the full polynomial contract proved in Props/C11 (`poly_ratrecon_full`, `poly_ratreconcheck_exact`) -/
def polyFullB (pr : Int) (p m : LPoly) (dk : Int) (reduce : Bool) (n d : LPoly) : Bool :=
  polySoundB pr p m dk reduce n d && decide (ldeg d ≤ ldeg m - dk) && decide (ldeg n + ldeg d < ldeg m)
    && (!reduce || (decide (ldeg (lgcd pr (lreduce pr d) (lreduce pr m)) ≤ 0) && llead (lreduce pr d) == 1))

/-- all coefficient lists of a given length over Z/pr -/
def allLists (pr : Nat) : Nat → List LPoly
  | 0 => [[]]
  | n + 1 => (allLists pr n).flatMap (fun l => (List.range pr).map (fun (c : Nat) => Int.ofNat c :: l))

/-- does a fraction A/B ≡ P (mod M) with gcd(B,M) = 1, deg A ≤ dk, deg B < deg M − dk (deg A < dk when deg P = dk) exist?
    brute force over all B (driver, small fields and degrees only) -/
def existsPolySolutionB (pr : Int) (p m : LPoly) (dk : Int) : Bool :=
  (allLists pr.toNat (ldeg m - dk).toNat).any fun b =>
    let b' := lnorm b
    !b'.isEmpty &&
      (let a := (ldivmod pr (lmul pr b' (lreduce pr p)) m).2
       decide (ldeg a ≤ dk) && (decide (ldeg a < dk) || decide (ldeg (lreduce pr p) ≠ dk)) &&
         decide (ldeg (lgcd pr b' (lreduce pr m)) ≤ 0))

end Givaro.Spec.RatRecon
