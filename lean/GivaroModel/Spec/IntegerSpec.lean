/-
Specification functions for the big-integer API (C01, C02): the Z-operations the header
`gmp++_int.h` documents, written with core Lean's `Int` operations.  Which overload is specified
by which function is the table `translate/integer_spec.py`.  That these functions *are* the
documented conventions (truncation / floor / ceiling / non-negative remainder) is proved in
`Props/C02.lean`.  Core Lean only (linked into the driver).
-/
import GivaroModel.Prim.Word
namespace Givaro.Spec

def add (a b : Int) : Int := a + b
def sub (a b : Int) : Int := a - b
def mul (a b : Int) : Int := a * b
def neg (a : Int) : Int := -a
def iabs (a : Int) : Int := if a < 0 then -a else a
def sgn (a : Int) : Int := if a < 0 then -1 else if a = 0 then 0 else 1
def b2i (p : Prop) [Decidable p] : Int := if p then 1 else 0

/-- `/`, `div`, `divin`, `trunc`: quotient rounded toward zero -/
def tdivQ (n d : Int) : Int := Int.tdiv n d
/-- `%`, `%=`, `trem`: remainder of the truncating division (sign of the dividend) -/
def tmodR (n d : Int) : Int := Int.tmod n d
/-- `floor` -/
def fdivQ (n d : Int) : Int := Int.fdiv n d
/-- `frem` -/
def fmodR (n d : Int) : Int := Int.fmod n d
/-- `ceil` -/
def cdivQ (n d : Int) : Int := -(Int.fdiv (-n) d)
/-- `crem` -/
def cmodR (n d : Int) : Int := -(Int.fmod (-n) d)
/-- `divmod`, `quo`: quotient of the division with non-negative remainder -/
def edivQ (n d : Int) : Int := n / d
/-- `mod`, `modin`, `divmod`, `rem`: `0 ≤ r < |d|` -/
def emodR (n d : Int) : Int := n % d

def land (a b : Int) : Int := iland a b
def lor (a b : Int) : Int := ilor a b
def lxor (a b : Int) : Int := ilxor a b
def lnot (a : Int) : Int := -a - 1
def shl (a k : Int) : Int := a * 2 ^ k.toNat
/-- `>>` is documented as division by `2^k` in the same manner as `/` (truncation) -/
def shr (a k : Int) : Int := Int.tdiv a (2 ^ k.toNat)

def gcd (a b : Int) : Int := (Int.gcd a b : Int)
def lcm (a b : Int) : Int := (Int.lcm a b : Int)
def pow (b e : Int) : Int := b ^ e.toNat
def isqrt (a : Int) : Int := (Nat.sqrt a.toNat : Int)
/-- `powmod`: the representative in `[0, |m|)` -/
def powmod (b e m : Int) : Int := (b ^ e.toNat) % m
/-- certificate for a modular inverse: `0 ≤ u < |m|` (or `u = 0` when `|m| = 1`) and `u·a ≡ 1 (mod m)` -/
def isInvMod (u a m : Int) : Bool := decide (0 ≤ u ∧ u < iabs m ∧ (u * a) % m = 1 % m)
/-- certificate for an extended gcd -/
def isBezout (g u v a b : Int) : Bool := decide (g = (Int.gcd a b : Int) ∧ u * a + v * b = g)
/-- number of binary digits of `|a|` (1 for 0) -/
def bitsize (a : Int) : Int := (ndigits 2 a.natAbs a.natAbs : Nat)

end Givaro.Spec
