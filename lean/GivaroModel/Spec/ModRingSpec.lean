/-
Specification of residue-ring arithmetic (C03, C04): the mathematically exact result in Z, mapped to
the canonical representative of the ring (`[0,m)` for the plain rings, `[⌊m/2⌋-m+1, ⌊m/2⌋]` for the
balanced ones).  Core Lean only (linked into the driver).
-/
namespace Givaro.Spec.ModRing

/-- canonical representative in `[0,m)` -/
def canonU (m x : Int) : Int := x % m

/-- canonical representative in `[⌊m/2⌋ - m + 1, ⌊m/2⌋]` -/
def canonB (m x : Int) : Int := if x % m > m / 2 then x % m - m else x % m

def canon (balanced : Bool) (m x : Int) : Int := if balanced then canonB m x else canonU m x

def isCanonU (m x : Int) : Prop := 0 ≤ x ∧ x < m
def isCanonB (m x : Int) : Prop := m / 2 - m + 1 ≤ x ∧ x ≤ m / 2
def isCanon (balanced : Bool) (m x : Int) : Prop := if balanced then isCanonB m x else isCanonU m x

instance (m x : Int) : Decidable (isCanonU m x) := by unfold isCanonU; exact inferInstance
instance (m x : Int) : Decidable (isCanonB m x) := by unfold isCanonB; exact inferInstance
instance (b : Bool) (m x : Int) : Decidable (isCanon b m x) := by unfold isCanon; exact inferInstance

/-- the exact integer each operation denotes (operands in the order of the harness line) -/
def exactZ (op : String) (a : Array Int) : Option Int :=
  let g (i : Nat) : Int := a.getD i 0
  match op, a.size with
  | "add", 2 | "addin", 2 => some (g 0 + g 1)
  | "sub", 2 | "subin", 2 => some (g 0 - g 1)
  | "mul", 2 | "mulin", 2 => some (g 0 * g 1)
  | "neg", 1 | "negin", 1 => some (- g 0)
  | "axpy", 3 => some (g 0 * g 1 + g 2)          -- r = a*x + y
  | "axmy", 3 => some (g 0 * g 1 - g 2)          -- r = a*x - y
  | "maxpy", 3 => some (g 2 - g 0 * g 1)         -- r = y - a*x
  | "axpyin", 3 => some (g 1 * g 2 + g 0)        -- r = a*x + r      (args r a x)
  | "axmyin", 3 => some (g 1 * g 2 - g 0)        -- r = a*x - r
  | "maxpyin", 3 => some (g 0 - g 1 * g 2)       -- r = r - a*x
  | "reduce1", 1 | "reduce2", 1 => some (g 0)
  | _, _ => none

/-- `r` is the canonical element with `r * b ≡ a (mod m)` (unique when `b` is a unit) -/
def isQuot (bal : Bool) (m a b r : Int) : Bool := decide (isCanon bal m r ∧ (r * b - a) % m = 0)

def isUnit (m a : Int) : Bool := Int.gcd a m == 1

end Givaro.Spec.ModRing
