/-
C05 — specification side for the polynomial-quotient extension `Extension<BaseField>` (extension.h):
schoolbook arithmetic of B[Y]/(f) where the coefficient field B = F_p[X]/(g) is given by p-adic codes
(`Spec.GFq.Field`), and for the q-adic / Kronecker packings of GFqExtFast and GFqKronecker.
Core Lean only: linked into the driver.
-/
import GivaroModel.Spec.GFqSpec
namespace Givaro.Spec.GFqExt
open Givaro.Spec.GFq

/-- drop high zero coefficients -/
def pnorm (a : List Nat) : List Nat := (a.reverse.dropWhile (· == 0)).reverse

def padd (B : Field) : List Nat → List Nat → List Nat
  | a :: as, b :: bs => B.cadd a b :: padd B as bs
  | as, [] => as
  | [], bs => bs

def pneg (B : Field) (a : List Nat) : List Nat := a.map B.cneg
def psub (B : Field) (a b : List Nat) : List Nat := padd B a (pneg B b)
def pscale (B : Field) (c : Nat) (a : List Nat) : List Nat := a.map (B.cmul c)

/-- schoolbook product -/
def pmul (B : Field) : List Nat → List Nat → List Nat
  | [], _ => []
  | a :: as, b => padd B (pscale B a b) (0 :: pmul B as b)

/-- inverse of a non-zero base-field code by search (the base fields used here are small) -/
def binv (B : Field) (a : Nat) : Nat :=
  ((List.range B.q).find? (fun x => B.cmul a x == 1 % B.q)).getD 0

/-- remainder of `a` modulo `f` (`f` normalised, non-zero) -/
def pmodAux (B : Field) (f : List Nat) (linv : Nat) : Nat → List Nat → List Nat
  | 0, a => a
  | fuel + 1, a =>
    let a := pnorm a
    if a.length < f.length then a else
    let c := B.cmul (a.getLast?.getD 0) linv
    let shift := List.replicate (a.length - f.length) 0
    pmodAux B f linv fuel (pnorm (psub B a (shift ++ pscale B c f)))

def pmod (B : Field) (a f : List Nat) : List Nat :=
  let f := pnorm f
  pmodAux B f (binv B (f.getLast?.getD 1)) (a.length + 1) a

structure Ext where
  B : Field
  f : List Nat
  e : Nat

namespace Ext
variable (E : Ext)
def red (a : List Nat) : List Nat := pmod E.B a E.f
def add (a b : List Nat) := E.red (padd E.B a b)
def sub (a b : List Nat) := E.red (psub E.B a b)
def neg (a : List Nat) := E.red (pneg E.B a)
def mul (a b : List Nat) := E.red (pmul E.B a b)
/-- an element: reduced, coefficients are base-field codes -/
def isElt (a : List Nat) : Bool := (pnorm a).length ≤ E.e && a.all (· < E.B.q)
end Ext

/-- value of the base-`b` digit string `ds` (low first) -/
def evalAt (b : Nat) : List Nat → Nat
  | [] => 0
  | d :: ds => d + b * evalAt b ds

end Givaro.Spec.GFqExt
