/-
C05 — specification side for the polynomial-quotient extension `Extension<BaseField>` (extension.h):
schoolbook arithmetic of B[Y]/(f) where the coefficient field B = F_p[X]/(g) is given by p-adic codes
(`Spec.GFq.Field`), and for the q-adic / Kronecker packings of GFqExtFast and GFqKronecker.
Core Lean only: linked into the driver.
-/
import GivaroModel.Spec.GFqSpec
namespace Givaro.Spec.GFqExt
open Givaro.Spec.GFq

/-- drop high zero coefficients -/
def pnorm (a : List Nat) : List Nat := (a.reverse.dropWhile (· == 0)).reverse

def padd (B : Field) : List Nat → List Nat → List Nat
  | a :: as, b :: bs => B.cadd a b :: padd B as bs
  | as, [] => as
  | [], bs => bs

def pneg (B : Field) (a : List Nat) : List Nat := a.map B.cneg
def psub (B : Field) (a b : List Nat) : List Nat := padd B a (pneg B b)
def pscale (B : Field) (c : Nat) (a : List Nat) : List Nat := a.map (B.cmul c)

/-- schoolbook product -/
def pmul (B : Field) : List Nat → List Nat → List Nat
  | [], _ => []
  | a :: as, b => padd B (pscale B a b) (0 :: pmul B as b)

/-- `a^e` in the base field by square-and-multiply -/
def bpow (B : Field) (a : Nat) : Nat → Nat → Nat
  | 0, _ => 1 % B.q
  | fuel + 1, e =>
    if e = 0 then 1 % B.q
    else
      let h := bpow B (B.cmul a a) fuel (e / 2)
      if e % 2 = 1 then B.cmul a h else h

/-- inverse of a non-zero base-field code: `a^(q-2)` (Fermat; the base field has `q` elements) -/
def binv (B : Field) (a : Nat) : Nat := bpow B a 64 (B.q - 2)

/-- remainder of `a` modulo `f` (`f` normalised, non-zero) -/
def pmodAux (B : Field) (f : List Nat) (linv : Nat) : Nat → List Nat → List Nat
  | 0, a => a
  | fuel + 1, a =>
    let a := pnorm a
    if a.length < f.length then a else
    let c := B.cmul (a.getLast?.getD 0) linv
    let shift := List.replicate (a.length - f.length) 0
    pmodAux B f linv fuel (pnorm (psub B a (shift ++ pscale B c f)))

def pmod (B : Field) (a f : List Nat) : List Nat :=
  let f := pnorm f
  pmodAux B f (binv B (f.getLast?.getD 1)) (a.length + 1) a

structure Ext where
  B : Field
  f : List Nat
  e : Nat

namespace Ext
variable (E : Ext)
def red (a : List Nat) : List Nat := pmod E.B a E.f
def add (a b : List Nat) := E.red (padd E.B a b)
def sub (a b : List Nat) := E.red (psub E.B a b)
def neg (a : List Nat) := E.red (pneg E.B a)
def mul (a b : List Nat) := E.red (pmul E.B a b)
/-- an element: reduced, coefficients are base-field codes -/
def isElt (a : List Nat) : Bool := (pnorm a).length ≤ E.e && a.all (· < E.B.q)
end Ext

/-- value of the base-`b` digit string `ds` (low first) -/
def evalAt (b : Nat) : List Nat → Nat
  | [] => 0
  | d :: ds => d + b * evalAt b ds

end Givaro.Spec.GFqExt

/-! ### coefficient-list instance of the `Poly1Dom` operations used by `Extension` (for the driver) -/
namespace Givaro.Spec.GFqExt
open Givaro.Spec.GFq

/-- long division: `(quotient, remainder)` of `a` by `f` (`f` normalised, non-zero) -/
def pdivmodAux (B : Field) (f : List Nat) (linv : Nat) : Nat → List Nat → List Nat → List Nat × List Nat
  | 0, q, a => (q, a)
  | fuel + 1, q, a =>
    let a := pnorm a
    if a.length < f.length then (q, a) else
    let c := B.cmul (a.getLast?.getD 0) linv
    let shift := List.replicate (a.length - f.length) 0
    pdivmodAux B f linv fuel (padd B q (shift ++ [c])) (pnorm (psub B a (shift ++ pscale B c f)))

def pdivmod (B : Field) (a f : List Nat) : List Nat × List Nat :=
  let f := pnorm f
  pdivmodAux B f (binv B (f.getLast?.getD 1)) (a.length + 1) [] a

/-- extended Euclid: `(r0, t0, r1, t1)` with `t_i · a ≡ r_i (mod f)` -/
def pegcdAux (B : Field) : Nat → List Nat → List Nat → List Nat → List Nat → List Nat × List Nat
  | 0, r0, t0, _, _ => (r0, t0)
  | fuel + 1, r0, t0, r1, t1 =>
    if (pnorm r1).isEmpty then (r0, t0) else
    let (q, r2) := pdivmod B r0 r1
    pegcdAux B fuel r1 t1 r2 (psub B t0 (pmul B q t1))

/-- inverse of `a` modulo `f` (reduced), `[]` when `a ≡ 0` -/
def pinvmod (B : Field) (a f : List Nat) : List Nat :=
  let a := pmod B a f
  let (g, t) := pegcdAux B (f.length + 2) (pnorm f) [] a [1 % B.q]
  match pnorm g with
  | [c] => pmod B (pscale B (binv B c) t) f
  | _ => []


/-- monic gcd-like remainder sequence: the last non-zero remainder of Euclid on `(a, b)` -/
def pgcdAux (B : Field) : Nat → List Nat → List Nat → List Nat
  | 0, a, _ => a
  | fuel + 1, a, b => if (pnorm b).isEmpty then pnorm a else pgcdAux B fuel b (pmod B a b)

def pgcd (B : Field) (a b : List Nat) : List Nat := pgcdAux B (a.length + b.length + 2) a b

/-- `x^n mod f` by square-and-multiply -/
def ppowmod (B : Field) (f x : List Nat) : Nat → Nat → List Nat
  | 0, _ => [1 % B.q]
  | fuel + 1, n =>
    if n = 0 then [1 % B.q]
    else
      let h := ppowmod B f (pmod B (pmul B x x) f) fuel (n / 2)
      if n % 2 = 1 then pmod B (pmul B x h) f else h

/-- Ben-Or's irreducibility test over the base field with `q` elements, written from the definition, independent of the
    library: `f` (degree `d ≥ 1`) is irreducible iff `gcd(X^(q^i) - X, f)` is constant for `i = 1 … ⌊d/2⌋`. -/
def isIrreducible (B : Field) (f : List Nat) : Bool :=
  let f := pnorm f
  let d := f.length - 1
  if d = 0 then false else
  let x : List Nat := [0, 1 % B.q]
  let rec go (fuel : Nat) (i : Nat) (xi : List Nat) : Bool :=
    match fuel with
    | 0 => true
    | fuel + 1 =>
      if i > d / 2 then true else
      let xi' := ppowmod B f xi 200 B.q          -- X^(q^i) mod f
      let g := pgcd B (psub B xi' (pmod B x f)) f
      if (pnorm g).length > 1 then false else go fuel (i + 1) xi'
  go (d + 1) 1 (pmod B x f)

end Givaro.Spec.GFqExt
