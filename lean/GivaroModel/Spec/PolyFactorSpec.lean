/-
C09 — obviously-correct reference deciders and certificate checkers (core Lean only).

* `bruteIrreducible`: degree ≥ 1 and no monic divisor of degree 1 … ⌊n/2⌋ (exponential; `Props/C09.lean` proves it
  equivalent to Mathlib's `Irreducible` for every finite field).
* `checkFactorList`: the certificate of a factorisation — every factor passes `irr`, factors pairwise non-associate,
  multiplicities positive, `∏ gᵉ = c · P` with `c ≠ 0`.
* `checkSqrfree`: parts pairwise coprime, each square-free, `∏ gᵢ^(i+1) = c · P`.
* `bruteOrder`: least `e ≥ 1` with `A^e = 1 (mod F)` by repeated multiplication, 0 if there is none below the bound.
-/
import GivaroModel.Model.PolyFactorArith
namespace Givaro.Spec.PolyFactor
open Givaro.Model.PolyFactor

section
variable {α : Type} [DecidableEq α] (F : FOps α)

/-- `g ∣ P` for a non-zero `g`, by long division -/
def dividesB (g P : Poly α) : Bool := pmod F P g = []

def bruteIrreducible (elems : List α) (P : Poly α) : Bool :=
  let n := (norm F P).length - 1
  decide ((norm F P).length ≥ 2) &&
  (List.range (n / 2)).all (fun d0 => (monics F elems (d0 + 1)).all (fun g => ! dividesB F g P))

/-- `a = c · b` for some non-zero constant `c` (both non-zero) -/
def associatedB (a b : Poly α) : Bool :=
  let a' := norm F a
  let b' := norm F b
  a' ≠ [] && b' ≠ [] && (monicize F a' = monicize F b')

def prodPow (L : List (Poly α × Nat)) : Poly α :=
  L.foldr (fun ge acc => pmul F (ppow F ge.1 ge.2) acc) [F.one]

def pairwiseB {β : Type} (r : β → β → Bool) : List β → Bool
  | [] => true
  | x :: xs => xs.all (fun y => r x y) && pairwiseB r xs

/-- certificate of a complete factorisation of `P ≠ 0`; `irr` is the irreducibility decider used for the factors -/
def checkFactorList (irr : Poly α → Bool) (P : Poly α) (L : List (Poly α × Nat)) : Bool :=
  norm F P ≠ [] &&
  L.all (fun ge => irr ge.1 && decide (ge.2 ≥ 1)) &&
  pairwiseB (fun a b => ! associatedB F a.1 b.1) L &&
  associatedB F (prodPow F L) P

/-- coprime: the monic gcd is 1 (uses the Euclid loop of the model; both arguments non-zero) -/
def coprimeB (a b : Poly α) : Bool := degree F (pgcd F a b) ≤ 0

def squarefreeB (g : Poly α) : Bool := degree F g ≤ 0 || coprimeB F g (diff F g)

def indexed {β : Type} : List β → Nat → List (β × Nat)
  | [], _ => []
  | x :: xs, i => (x, i) :: indexed xs (i + 1)

/-- certificate of a square-free decomposition `P ~ ∏ gᵢ^(i+1)` -/
def checkSqrfree (P : Poly α) (G : List (Poly α)) : Bool :=
  norm F P ≠ [] &&
  G.all (fun g => norm F g ≠ [] && squarefreeB F g) &&
  pairwiseB (fun a b => coprimeB F a b) G &&
  associatedB F (prodPow F (indexed G 1)) P

/-- least `e` in `1..bound` with `A^e ≡ 1 (mod Fm)`, else 0 -/
def bruteOrderLoop (A Fm : Poly α) : Nat → Nat → Poly α → Nat
  | 0, _, _ => 0
  | fuel + 1, e, cur => if isOneP F cur then e else bruteOrderLoop A Fm fuel (e + 1) (pmod F (pmul F cur A) Fm)

def bruteOrder (bound : Nat) (A Fm : Poly α) : Nat :=
  let A' := pmod F A Fm
  bruteOrderLoop F A' Fm bound 1 A'

/-- order certificate: `A^o = 1` and `A^(o/r) ≠ 1` for every prime `r ∣ o` (`primes` = the prime divisors of `o`) -/
def checkOrder (A Fm : Poly α) (o : Nat) (primes : List Nat) : Bool :=
  decide (o ≥ 1) && isOneP F (powmod F A o Fm) && primes.all (fun r => ! isOneP F (powmod F A (o / r) Fm))

end
end Givaro.Spec.PolyFactor
