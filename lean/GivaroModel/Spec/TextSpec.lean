/-
C19 — what the property demands of an observed round trip (Bool checkers used by the driver on the
implementation's output and by the theorems of Props/C19.lean on the model's output).  Core Lean only.
-/
import GivaroModel.Model.Text
namespace Givaro.Spec.Text
open Givaro.Model.Text

/-- the text that follows a number must not continue it -/
def startsWithDigit (rest : List Char) : Bool :=
  match rest with
  | [] => false
  | c :: _ => isDigit c

def dropBlanks (l : List Char) : List Char := l.dropWhile (· = ' ')

/-- after an integer-valued rational (printed without denominator) the text must not look like a denominator:
    the first non-blank character is not `/` -/
def looksLikeDen (rest : List Char) : Bool :=
  match dropBlanks rest with
  | [] => false
  | c :: _ => c = '/'

/-- observed outcome of one read: value, failbit, unread text -/
structure Obs (α : Type) where
  val  : α
  fail : Bool
  rem  : List Char

/-- the property for one value: the value read is the value written, the stream has not failed, and exactly the
    characters of the number were consumed -/
def roundTripOk {α : Type} [BEq α] (orig : α) (rest : List Char) (o : Obs α) : Bool :=
  o.val == orig && !o.fail && o.rem == rest

/-- same, but blanks following the number may have been consumed as well (what sequences need) -/
def roundTripOkUpToBlanks {α : Type} [BEq α] (orig : α) (rest : List Char) (o : Obs α) : Bool :=
  o.val == orig && !o.fail && dropBlanks o.rem == dropBlanks rest && o.rem.length ≤ rest.length

/-- admissible separator for a sequence: non-empty and its first character does not continue a number -/
def sepOk (sep : List Char) : Bool := !sep.isEmpty && !startsWithDigit sep
/-- … and, for rationals, does not look like the start of a denominator -/
def sepOkRat (sep : List Char) : Bool := sepOk sep && !looksLikeDen sep

end Givaro.Spec.Text
