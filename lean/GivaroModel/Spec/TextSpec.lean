/-
C19 — what the property demands of an observed round trip (Bool checkers used by the driver on the
implementation's output and by the theorems of Props/C19.lean on the model's output).  Core Lean only.
-/
import GivaroModel.Model.Text
namespace Givaro.Spec.Text
open Givaro.Model.Text

/-- the text that follows a number must not continue it -/
def startsWithDigit (rest : List Char) : Bool :=
  match rest with
  | [] => false
  | c :: _ => isDigit c

def dropBlanks (l : List Char) : List Char := l.dropWhile (· = ' ')

/-- after an integer-valued rational (printed without denominator) the text must not look like a denominator:
    the first non-blank character is not `/` -/
def looksLikeDen (rest : List Char) : Bool :=
  match dropBlanks rest with
  | [] => false
  | c :: _ => c = '/'

/-- observed outcome of one read: value, failbit, unread text -/
structure Obs (α : Type) where
  val  : α
  fail : Bool
  rem  : List Char

/-- the property for one value: the value read is the value written, the stream has not failed, and exactly the
    characters of the number were consumed -/
def roundTripOk {α : Type} [BEq α] (orig : α) (rest : List Char) (o : Obs α) : Bool :=
  o.val == orig && !o.fail && o.rem == rest

/-- same, but blanks following the number may have been consumed as well (what sequences need) -/
def roundTripOkUpToBlanks {α : Type} [BEq α] (orig : α) (rest : List Char) (o : Obs α) : Bool :=
  o.val == orig && !o.fail && dropBlanks o.rem == dropBlanks rest && o.rem.length ≤ rest.length

/-- admissible separator for a sequence: non-empty and its first character does not continue a number -/
def sepOk (sep : List Char) : Bool := !sep.isEmpty && !startsWithDigit sep
/-- … and, for rationals, does not look like the start of a denominator -/
def sepOkRat (sep : List Char) : Bool := sepOk sep && !looksLikeDen sep

/-! ### reference parser for the infix form that `Poly1Dom::write` emits (the library has no such reader)

    poly ::= "0" | term (" + " term)*          terms by strictly increasing degree, no zero coefficient
    term ::= "1" | "(" int ")"                 degree 0 (first term only)
           | ["(" int ")*"] name ["^" nat]     degree 1 without exponent, degree ≥ 2 with it; coefficient one is not written
    The parser knows the indeterminate name of the domain. -/

def stripPrefix : List Char → List Char → Option (List Char)
  | [], t => some t
  | _ :: _, [] => none
  | a :: p, b :: t => if a = b then stripPrefix p t else none

/-- optional `-`, then a non-empty maximal run of digits -/
def readIntPrefix (t : List Char) : Option (Int × List Char) :=
  let neg := t.head? = some '-'
  let b := if neg then t.drop 1 else t
  let ds := b.takeWhile isDigit
  if ds.isEmpty then none
  else some ((if neg then -(digitsValue ds : Int) else (digitsValue ds : Int)), b.dropWhile isDigit)

def readNatPrefix (t : List Char) : Option (Nat × List Char) :=
  let ds := t.takeWhile isDigit
  if ds.isEmpty then none else some (digitsValue ds, t.dropWhile isDigit)

/-- what follows the indeterminate: `^l` with `l ≥ 2`, or nothing (degree 1) -/
def degreePart (c : Int) (t : List Char) : Option (Int × Nat × List Char) :=
  match t with
  | [] => some (c, 1, [])
  | a :: t' =>
    if a = '^' then
      match readNatPrefix t' with
      | none => none
      | some (l, t'') => if 2 ≤ l then some (c, l, t'') else none
    else some (c, 1, a :: t')

/-- one term: (coefficient, degree, unread text) -/
def parseTerm (x : List Char) (t : List Char) : Option (Int × Nat × List Char) :=
  match t with
  | [] => none
  | a :: t1 =>
    if a = '(' then
      match readIntPrefix t1 with
      | none => none
      | some (c, t2) =>
        match t2 with
        | [] => none
        | b :: t3 =>
          if b ≠ ')' then none
          else if c = 1 then none                       -- a coefficient one is never written in parentheses
          else
            match t3 with
            | [] => some (c, 0, [])
            | d :: t4 =>
              if d = '*' then (stripPrefix x t4).bind (degreePart c)
              else some (c, 0, d :: t4)
    else
      match stripPrefix x (a :: t1) with
      | some t' => degreePart 1 t'
      | none => if a = '1' then some (1, 0, t1) else none

/-- terms separated by `" + "`; `k` = number of coefficients already produced (the next degree allowed) -/
def parseLoop (x : List Char) : Nat → Nat → List Int → List Char → Option (List Int)
  | 0, _, _, _ => none
  | f + 1, k, acc, t =>
    match parseTerm x t with
    | none => none
    | some (c, l, rest) =>
      if c = 0 ∨ l < k then none
      else
        match rest with
        | [] => some (acc ++ List.replicate (l - k) 0 ++ [c])
        | r :: rs =>
          match stripPrefix [' ', '+', ' '] (r :: rs) with
          | some t' => parseLoop x f (l + 1) (acc ++ List.replicate (l - k) 0 ++ [c]) t'
          | none => none

/-- the polynomial (coefficients `c_0 …`, degree-normalised) that an infix text denotes; `none` = not well-formed -/
def parsePoly (x : List Char) (t : List Char) : Option (List Int) :=
  match parseLoop x (t.length + 1) 0 [] t with
  | some P => some P
  | none => if t = ['0'] then some [] else none

/-- indeterminate names for which the infix form is unambiguous: non-empty, not starting with a digit or `(`
    (with the name `1` the texts of `1` and of the indeterminate coincide) -/
def nameOk (x : List Char) : Bool :=
  match x with
  | [] => false
  | c :: _ => !isDigit c && c != '('

end Givaro.Spec.Text
