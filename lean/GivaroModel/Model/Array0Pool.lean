/-
C17 — Array0 composed with the pooled allocator.

`Model/Array0.lean` runs over an abstract store whose block identifiers are never reused.  Here every abstract block is
backed by a block of the pool of `Model/FreeList.lean`: an allocation of the abstract store is a call of
`GivMMFreeList::allocate` (`GivaroMM<T>::allocate(s)` asks for `s*sizeof(T)` bytes, `GivaroMM<int>::allocate(1)` for
`sizeof(int)` = 4), the last release of a block is `GivMMFreeList::desallocate`.  The pool client is the slot client of
`FreeList.lean`: the data block `b` lives in slot `2b`, the counter cell `c` in slot `2c+1`; the slot records which
*physical* block backs the abstract one, and the pool may hand the same physical block out again after its release.

The pool calls of one Array0 operation are read off the abstract step (blocks that appeared, blocks that died), in the
order of the code: `reallocate` (resize, push_back, copy, operator=) obtains the new data block *before* `destroy()`
releases the old data block and the old counter and only then obtains the new counter; the constructors and `allocate`
release first (`~Array0` / `destroy()`), then obtain data block and counter; `reserve` is two `reallocate`.
Core Lean only.
-/
import GivaroModel.Model.Array0
import GivaroModel.Model.FreeList
namespace Givaro.Model.Array0Pool
open Givaro.Model.Array0 Givaro.Model.FreeList

variable {α : Type}

def keyD (b : Nat) : Nat := 2 * b
def keyC (c : Nat) : Nat := 2 * c + 1

/-- identifiers `lo, lo+1, …, hi-1` -/
def idsFrom (lo hi : Nat) : List Nat := (List.range (hi - lo)).map (· + lo)

/-- data blocks released by the step `s → s'` -/
def relD (s s' : State α) : List FreeList.Op :=
  ((List.range s.dnext).filter (fun b => s.dlive b && !s'.dlive b)).map (fun b => .free (keyD b))
def relC (s s' : State α) : List FreeList.Op :=
  ((List.range s.cnext).filter (fun c => s.clive c && !s'.clive c)).map (fun c => .free (keyC c))
/-- data blocks obtained by the step (`w` = sizeof(T)); the block length is the number of elements asked for -/
def newD (w : Nat) (s s' : State α) : List FreeList.Op :=
  (idsFrom s.dnext s'.dnext).map (fun b => .alloc (keyD b) ((s'.ddata b).length * w))
def newC (s s' : State α) : List FreeList.Op :=
  (idsFrom s.cnext s'.cnext).map (fun c => .alloc (keyC c) 4)
/-- blocks obtained and released again inside the same step (none in the present code; kept for completeness) -/
def lateD (s s' : State α) : List FreeList.Op :=
  ((idsFrom s.dnext s'.dnext).filter (fun b => !s'.dlive b)).map (fun b => .free (keyD b))
def lateC (s s' : State α) : List FreeList.Op :=
  ((idsFrom s.cnext s'.cnext).filter (fun c => !s'.clive c)).map (fun c => .free (keyC c))

/-- the pool calls of the abstract step `s → s'`; `allocFirst` = the new data block is obtained before the releases -/
def events (w : Nat) (allocFirst : Bool) (s s' : State α) : List FreeList.Op :=
  if allocFirst then newD w s s' ++ relD s s' ++ relC s s' ++ newC s s' ++ lateD s s' ++ lateC s s'
  else relD s s' ++ relC s s' ++ newD w s s' ++ newC s s' ++ lateD s s' ++ lateC s s'

/-- does the operation go through `reallocate` (new data block first)? -/
def allocFirst : Op α → Bool
  | .resize _ _ | .pushBack _ _ | .pushBackSelf _ _ | .copy _ _ | .assign _ _ | .reserve _ _ => true
  | _ => false

/-- the pool calls of one operation (`reserve(s)` = `reallocate(s); reallocate(0)`) -/
def opEvents [Inhabited α] (w : Nat) (s : State α) (op : Op α) : List FreeList.Op :=
  match op with
  | .reserve h sz =>
    let s1 := step s (.resize h sz)
    events w true s s1 ++ events w true s1 (step s1 (.resize h 0))
  | op => events w (allocFirst op) s (step s op)

structure PState (α : Type) where
  arr  : State α
  pool : Client

def pinit (α : Type) (n : Nat) : PState α := { arr := init α n, pool := Client.init }

def pstep [Inhabited α] (w : Nat) (p : PState α) (op : Op α) : PState α :=
  { arr := step p.arr op, pool := crun p.pool (opEvents w p.arr op) }

def prun [Inhabited α] (w : Nat) (p : PState α) (ops : List (Op α)) : PState α := ops.foldl (pstep w) p

/-- the physical block behind a data block / counter cell -/
def physD (p : PState α) (b : Nat) : Option Nat := p.pool.slot (keyD b)
def physC (p : PState α) (c : Nat) : Option Nat := p.pool.slot (keyC c)

/-- number of physical blocks on the free lists of classes `< k` -/
def freeCount (pl : Pool) : Nat → Nat
  | 0 => 0
  | k + 1 => freeCount pl k + (pl.free k).length

end Givaro.Model.Array0Pool
