/-
C01 — the overloads of the gmp++ Integer API that lie outside the translator's dialect (floating-point operands, loops, limb access),
transcribed by hand.  Every body is a thin wrapper of one GMP primitive (`mpz_cmp_d`, `mpz_cmpabs_d`, `mpz_fac_ui`, `mpz_size`,
`mpz_getlimbn`, `mpz_import`/`mpz_export`-style limb loops) or a short loop (`pp`).  Core Lean only (linked into the driver).

A finite IEEE-754 double is the dyadic rational `m * 2^e` (m, e integers); ±infinity are separate values; NaN is outside every
contract (GMP documents the result of `mpz_cmp_d` on a NaN as undefined) and the driver answers PRE.
-/
namespace Givaro.Model.IntegerExtra

/-- decoded floating-point operand -/
inductive Fl where
  | fin (m e : Int)      -- the value m * 2^e
  | inf (neg : Bool)
  | nan
deriving Repr, DecidableEq

/-- decode a binary64 bit pattern -/
def decode64 (bits : Nat) : Fl :=
  let sign := bits / 2^63 % 2 == 1
  let ex := bits / 2^52 % 2^11
  let fr := bits % 2^52
  if ex == 2047 then (if fr == 0 then .inf sign else .nan)
  else
    let m : Int := Int.ofNat (if ex == 0 then fr else fr + 2^52)
    let e : Int := Int.ofNat (if ex == 0 then 1 else ex) - 1075
    .fin (if sign then -m else m) e

/-- decode a binary32 bit pattern -/
def decode32 (bits : Nat) : Fl :=
  let sign := bits / 2^31 % 2 == 1
  let ex := bits / 2^23 % 2^8
  let fr := bits % 2^23
  if ex == 255 then (if fr == 0 then .inf sign else .nan)
  else
    let m : Int := Int.ofNat (if ex == 0 then fr else fr + 2^23)
    let e : Int := Int.ofNat (if ex == 0 then 1 else ex) - 150
    .fin (if sign then -m else m) e

def sgn (x : Int) : Int := if x < 0 then -1 else if x = 0 then 0 else 1

/-- GMP contract of `mpz_cmp_d(a, d)`: the sign of a − d, exactly (no rounding of a), infinities ordered as expected -/
def cmpD (a : Int) : Fl → Option Int
  | .fin m e => some (if 0 ≤ e then sgn (a - m * 2 ^ e.toNat) else sgn (a * 2 ^ (-e).toNat - m))
  | .inf neg => some (if neg then 1 else -1)
  | .nan => none

/-- GMP contract of `mpz_cmpabs_d(a, d)`: the sign of |a| − |d| -/
def cmpAbsD (a : Int) : Fl → Option Int
  | .fin m e => some (if 0 ≤ e then sgn ((a.natAbs : Int) - (m.natAbs : Int) * 2 ^ e.toNat) else sgn ((a.natAbs : Int) * 2 ^ (-e).toNat - (m.natAbs : Int)))
  | .inf _ => some (-1)
  | .nan => none

/-- the six relational operators, `Integer OP floating` (member operators): `mpz_cmp_d(this, l) OP 0` -/
inductive Rel where | eq | ne | lt | le | gt | ge
deriving Repr, DecidableEq

def Rel.holds : Rel → Int → Bool
  | .eq, c => c == 0 | .ne, c => c != 0 | .lt, c => c < 0 | .le, c => c ≤ 0 | .gt, c => 0 < c | .ge, c => 0 ≤ c

/-- mirrored operator: `l OP n` is implemented as `n OP' l` -/
def Rel.swap : Rel → Rel
  | .eq => .eq | .ne => .ne | .lt => .gt | .le => .ge | .gt => .lt | .ge => .le

def opMember (r : Rel) (a : Int) (d : Fl) : Option Bool := (cmpD a d).map r.holds
/-- free operators `floating OP Integer` as written in gmp++_int_compare.C: `n OP' l` -/
def opFree (r : Rel) (d : Fl) (a : Int) : Option Bool := opMember r.swap a d

/-- `Integer(double)`, `operator=(double)`, `ZRing<Integer>::init(x, double)`: `mpz_set_d` — the value truncated toward zero, exactly,
    whatever its size (no detour through a machine word); infinities and NaN are outside GMP's contract -/
def ofFl : Fl → Option Int
  | .fin m e => some (if 0 ≤ e then m * 2 ^ e.toNat else Int.tdiv m (2 ^ (-e).toNat))
  | _ => none

/-- `operator double()`: `mpz_get_d` — the 53 most significant bits of |a| (truncation toward zero): (a < 0, mantissa, exponent) with
    |a| = mantissa·2^exponent + dropped low bits; exact when |a| < 2^53 -/
def toDyTrunc (a : Int) : Bool × Nat × Nat :=
  let n := a.natAbs
  let sh := (if n = 0 then 0 else n.log2 + 1) - 53
  (decide (a < 0), n / 2 ^ sh, sh)

/-- `fact(l)`: `mpz_fac_ui` -/
def fact : Nat → Nat
  | 0 => 1
  | n + 1 => (n + 1) * fact n

/-- little-endian 64-bit limbs of |a| (GMP's representation: no limb for 0) -/
def limbs (n : Nat) : List Nat :=
  if h : n = 0 then [] else (n % 2^64) :: limbs (n / 2^64)
termination_by n
decreasing_by exact Nat.div_lt_self (Nat.pos_of_ne_zero h) (by decide)

def ofLimbs : List Nat → Nat
  | [] => 0
  | l :: ls => l + 2^64 * ofLimbs ls

/-- `Integer::operator[](i)`: limb i of |a|, 0 beyond the size -/
def limbAt (a : Int) (i : Nat) : Nat := (limbs a.natAbs).getD i 0
/-- `length(a)` = `mpz_size(a) * sizeof(uint64_t)` -/
def length (a : Int) : Nat := (limbs a.natAbs).length * 8
/-- `Integer(const std::vector<limb>&)`: the non-negative integer with these limbs (leading zero limbs allowed) -/
def ofVector (v : List Nat) : Int := (ofLimbs (v.map (· % 2^64)) : Nat)

/-- `pp(P, Q)`: U := P; V := gcd(P,Q); while V ≠ 1 { U := U / V (truncated); V := gcd(U, V) }.  Fuel = bit length of P suffices. -/
def ppLoop : Nat → Int → Nat → Int
  | 0, u, _ => u
  | fuel + 1, u, v => if v = 1 then u else
      let u' := Int.tdiv u v
      ppLoop fuel u' (Int.gcd u' v)

def pp (p q : Int) : Int := ppLoop (p.natAbs.log2 + 2) p (Int.gcd p q)

end Givaro.Model.IntegerExtra
