/-
C12 — executable model of `IntPrimeDom::isprimepower` (givintprime.C), branch by branch.
`isp` stands for `IntPrimeDom::isprime`, `root u k` for `mpz_root` (floor of the k-th root): parameters, so that the
theorems of Props/C12.lean hold for every implementation meeting the stated contracts; the driver instantiates them with
`ispB` (tables + reference test) and the bisection `iroot`.  Core Lean only.
-/
import GivaroModel.Model.Primes
namespace Givaro.Model.Primes
open Givaro

/-! ### `IntPrimeDom::isprimepower(q, u)` (givintprime.C) -/

/-- GMP's table of primes below 1000 without the leading 2 (`for (i = 1; primes[i] != 0; i++)`) -/
def smallOddPrimes : List Nat :=
  [3, 5, 7, 11, 13, 17, 19, 23, 29, 31, 37, 41, 43, 47, 53, 59, 61, 67, 71, 73, 79, 83, 89, 97, 101, 103, 107, 109, 113, 127, 131,
   137, 139, 149, 151, 157, 163, 167, 173, 179, 181, 191, 193, 197, 199, 211, 223, 227, 229, 233, 239, 241, 251, 257, 263, 269, 271,
   277, 281, 283, 293, 307, 311, 313, 317, 331, 337, 347, 349, 353, 359, 367, 373, 379, 383, 389, 397, 401, 409, 419, 421, 431, 433,
   439, 443, 449, 457, 461, 463, 467, 479, 487, 491, 499, 503, 509, 521, 523, 541, 547, 557, 563, 569, 571, 577, 587, 593, 599, 601,
   607, 613, 617, 619, 631, 641, 643, 647, 653, 659, 661, 673, 677, 683, 691, 701, 709, 719, 727, 733, 739, 743, 751, 757, 761, 769,
   773, 787, 797, 809, 811, 821, 823, 827, 829, 839, 853, 857, 859, 863, 877, 881, 883, 887, 907, 911, 919, 929, 937, 941, 947, 953,
   967, 971, 977, 983, 991, 997]
def SMALLEST_OMITTED_PRIME : Nat := 1009

/-- `for( ; !(((unsigned int)t) & 0x1) ; t>>=1, ++n2)` on `t > 0`: returns `(t, n2)` -/
def twoLoop : Nat → Nat → Nat → Nat × Nat
  | 0, t, n2 => (t, n2)
  | fuel+1, t, n2 => if t % 2 = 1 then (t, n2) else twoLoop fuel (t / 2) (n2 + 1)

/-- `for (n = 2;; ++n) { divmod(q,rem,u2,prime); if (rem != 0) break; swap(q,u2); }` returns `(u2, n)` -/
def multLoop (p : Nat) : Nat → Nat → Nat → Nat × Nat
  | 0, u2, n => (u2, n)
  | fuel+1, u2, n => if u2 % p ≠ 0 then (u2, n) else multLoop p fuel (u2 / p) (n + 1)

/-- floor of the `k`-th root (`mpz_root`), by bisection on `[lo, hi)` -/
def irootAux (n k : Nat) : Nat → Nat → Nat → Nat
  | 0, lo, _ => lo
  | fuel+1, lo, hi =>
    if hi ≤ lo + 1 then lo else
    let mid := (lo + hi) / 2
    if mid ^ k ≤ n then irootAux n k fuel mid hi else irootAux n k fuel lo mid
def iroot (n k : Nat) : Nat :=
  if k = 0 then 0 else irootAux n k (Nat.log2 n + 2) 0 (2 ^ (Nat.log2 n / k + 1))

/-- the scan of the small primes; `none` = no listed prime divides `u` -/
def smallScan (u : Nat) : List Nat → Option (Nat × Nat)
  | [] => none
  | p :: ps =>
    if u % p = 0 then
      if u % (p * p) ≠ 0 then some (0, 0)
      else
        let (u2, n) := multLoop p (u + 1) (u / (p * p)) 2
        if u2 = 1 then some (n, p) else some (0, 0)
    else smallScan u ps

/-- `for (nth = 2;; ++nth) { if (!isprime(nth)) continue; exact = root(q,u2,nth); … }`
    `root u k` stands for `mpz_root` (floor of the k-th root; its return value "exact" is `q^k = u`);
    `again q` is the recursive call on an exact root that is not prime (fixes/C12_4).
    The loop of the code is unbounded; `fuel` bounds it in the model (`rootScan_fuel` in Lemmas/PrimesPower.lean:
    the loop returns at the first prime `nth` with `2^nth > u` at the latest, which Bertrand puts below `2·log2 u + 3`). -/
def rootScan (isp : Int → Bool) (root : Nat → Nat → Nat) (again : Nat → Nat × Nat) (u : Nat) : Nat → Nat → Nat × Nat
  | 0, _ => (0, 0)
  | fuel+1, nth =>
    if !isp (nth : Int) then rootScan isp root again u fuel (nth + 1) else
    let q := root u nth
    if q ^ nth = u then
      if isp (q : Int) then (nth, q)
      else if q < 2 then (0, q)
      else let (k, r) := again q; (nth * k, r)
    else if q < SMALLEST_OMITTED_PRIME then (0, q)
    else rootScan isp root again u fuel (nth + 1)

/-- body of `isprimepower(q, u)` with the exponent not yet truncated to `unsigned int`; returns `(e, q)`, `q` is meaningful
    only when `e ≠ 0`.  First line: guard of fixes/C12_3.  `depth` bounds the recursion of fixes/C12_4 (the argument strictly
    decreases).  The dead `usize < 0` tests of the source are omitted (`size()` is never negative). -/
def isprimepowerAux (isp : Int → Bool) (root : Nat → Nat → Nat) : Nat → Int → Nat × Nat
  | 0, _ => (0, 0)
  | depth+1, ui =>
    if ui ≤ 0 then (0, 0) else
    let u := ui.toNat
    if (u % 18446744073709551616) % 4 = 2 then (0, 0) else
    let (t, n2) := twoLoop (u + 1) u 0
    if n2 > 0 then (if t = 1 then (n2, 2) else (0, 0)) else
    match smallScan u smallOddPrimes with
    | some r => r
    | none => rootScan isp root (fun q => isprimepowerAux isp root depth (q : Int)) u (2 * Nat.log2 u + 4) 2

/-- `unsigned int isprimepower(Rep& q, const Rep& u)`: every `return` converts to `unsigned int`
    (`(unsigned int)n2`, `(unsigned int)n`, `(uint32_t)nth`, `(uint32_t)nth * isprimepower(q,qq)`); reduction modulo 2^32
    commutes with the product, so truncating once at the end is the same function. -/
def isprimepower (isp : Int → Bool) (root : Nat → Nat → Nat) (u : Int) : Nat × Nat :=
  let r := isprimepowerAux isp root (u.toNat + 1) u
  (r.1 % 4294967296, r.2)

end Givaro.Model.Primes
