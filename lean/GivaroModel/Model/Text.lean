/-
C19 — executable model of givaro's text input/output (core Lean only; linked into the driver).

What is mirrored, branch by branch:
  * `std::istream` as used by the library: a character buffer with `failbit`/`eofbit`, `get`, `putback`
    (libstdc++ 12 semantics: `get` on a non-good stream sets failbit; `get` at end sets eof|fail;
    `putback` clears eofbit first and does nothing on a failed stream);
  * GMP's `operator>>(istream&, mpz_ptr)` / `operator<<(ostream&, mpz_srcptr)` (cxx/ismpz.cc, cxx/osmpz.cc
    of GMP 6.2, default flags `dec|skipws`) — *contract*, validated by the correspondence;
  * `Integer::print`, `operator>>(istream&, Integer&)`, `Integer(const char*)` (`mpz_init_set_str`),
    `Integer::operator std::string` (gmp++_int_io.C, gmp++_int_cstor.C, gmp++_int_misc.C);
  * `Rational::print`, `operator>>(istream&, Rational&)`, `Rational(const Integer&, const Integer&)`,
    `Rational(const char*)` (givratio.C, givratcstor.C, givratmisc.C `reduce`);
  * RecInt `display_dec` (`char result[1024]`, repeated division by ten), `operator<<`/`>>` for
    `ruint<K>` and `rint<K>`, `mpz_to_ruint`, `mpz_to_rint` (rudisplay.h, rdisplay.h, ruconvert.h, rconvert.h);
  * libstdc++ `num_get` for the native integer types (ring elements stored in machine words);
  * ring element `write`/`read` (modular-implem.h, modular-balanced-*.inl, modular-extended.inl,
    montgomery-*.inl, modular-log16.inl, gfq.inl, zring.h), with `init`/`convert` at their specification (`initNorm`);
  * `Poly1Dom::write` (infix) and `Poly1Dom::read` (`deg c_deg … c_0`) (givpoly1io.inl).

Three defects of the pinned tree are repaired by fixes/C19_1..3; the model mirrors the repaired code and keeps the pinned
variants of the first two (`ratReadOld`, `ruShowGen true`; driver mode `text_pinned`) so that the defects stay stated.
-/
namespace Givaro.Model.Text

/-! ### characters -/

/-- `isdigit` in the C locale -/
def isDigit (c : Char) : Bool := 48 ≤ c.toNat && c.toNat ≤ 57
/-- `isspace` in the C locale: space, \t \n \v \f \r -/
def isSpace (c : Char) : Bool := c.toNat = 32 || (9 ≤ c.toNat && c.toNat ≤ 13)
def digitChar (d : Nat) : Char := Char.ofNat (48 + d)
def digitVal (c : Char) : Nat := c.toNat - 48

/-! ### decimal output of a natural number (GMP `mpz_get_str`/`operator<<`, libstdc++ `num_put`: contract) -/

def decDigitsF : Nat → Nat → List Char
  | 0, _ => []
  | f + 1, n => if n < 10 then [digitChar n] else decDigitsF f (n / 10) ++ [digitChar (n % 10)]

/-- decimal digits, most significant first, no leading zero (`"0"` for zero) -/
def decDigits (n : Nat) : List Char := decDigitsF (n + 1) n

/-- `o << (mpz_srcptr) z` with the default flags: optional `-`, decimal digits -/
def showInt (n : Int) : List Char :=
  if n < 0 then '-' :: decDigits n.natAbs else decDigits n.natAbs

/-! ### input stream -/

structure IStream where
  buf  : List Char
  fail : Bool := false
  eof  : Bool := false
deriving DecidableEq, Repr

namespace IStream
def good (s : IStream) : Bool := !s.fail && !s.eof
def ofList (l : List Char) : IStream := ⟨l, false, false⟩
/-- `setstate(failbit)` -/
def setFail (s : IStream) : IStream := { s with fail := true }
end IStream

/-- `istream::get(char&)`: `none` when nothing was extracted (the `char` is then left unchanged) -/
def getc (s : IStream) : Option Char × IStream :=
  if s.good then
    match s.buf with
    | [] => (none, ⟨[], true, true⟩)
    | c :: r => (some c, ⟨r, false, false⟩)
  else (none, s.setFail)

/-- `istream::putback(c)`: clears eofbit, then (sentry) does nothing but set failbit on a failed stream -/
def putback (c : Char) (s : IStream) : IStream :=
  if s.fail then ⟨s.buf, true, false⟩ else ⟨c :: s.buf, false, false⟩

/-! ### GMP `operator>>(istream&, mpz_ptr)` -/

/-- `while (isspace(c) && i.get(c)) ;` on a good stream with buffer `buf` -/
def skipWsG (c : Char) : List Char → Char × IStream
  | [] => if isSpace c then (c, ⟨[], true, true⟩) else (c, ⟨[], false, false⟩)
  | d :: r => if isSpace c then skipWsG d r else (c, ⟨d :: r, false, false⟩)

def skipWs (c : Char) (s : IStream) : Char × IStream :=
  if s.good then skipWsG c s.buf
  else if isSpace c then (c, s.setFail) else (c, s)

/-- `while (isdigit(c)) { ok = true; s += c; if (!i.get(c)) break; }` on a good stream; the string `s`
    is represented by the number it denotes (`mpz_set_str` contract).  Returns (ok, value, c, stream). -/
def digitsG (c : Char) (ok : Bool) (v : Nat) : List Char → Bool × Nat × Char × IStream
  | [] => if isDigit c then (true, v * 10 + digitVal c, c, ⟨[], true, true⟩) else (ok, v, c, ⟨[], false, false⟩)
  | d :: r => if isDigit c then digitsG d true (v * 10 + digitVal c) r else (ok, v, c, ⟨d :: r, false, false⟩)

def digits (c : Char) (s : IStream) : Bool × Nat × Char × IStream :=
  if s.good then digitsG c false 0 s.buf
  else if isDigit c then (true, digitVal c, c, s.setFail) else (false, 0, c, s)

/-- `i >> z`: `none` = read failed, `z` unchanged -/
def gmpRead (s : IStream) : Option Int × IStream :=
  let g := getc s                                   -- char c = 0; i.get(c);
  let c0 := g.1.getD (Char.ofNat 0)
  let w := skipWs c0 g.2                           -- skipws is set by default
  let c1 := w.1
  let sg : Bool × Char × IStream :=                -- if (c == '-' || c == '+') { if (c == '-') s = "-"; i.get(c); }
    if c1 = '-' ∨ c1 = '+' then
      let g2 := getc w.2
      (decide (c1 = '-'), g2.1.getD c1, g2.2)
    else (false, c1, w.2)
  let d := digits sg.2.1 sg.2.2                    -- base 10 (ios::dec is set by default)
  let ok := d.1
  let v := d.2.1
  let c3 := d.2.2.1
  let s4 := d.2.2.2
  let s5 := if s4.good then putback c3 s4          -- last character read was non-numeric
            else if s4.eof && ok then { s4 with fail := false }   -- i.clear(ios::eofbit)
            else s4
  if ok then (some (if sg.1 then -(v : Int) else (v : Int)), s5)
  else (none, s5.setFail)

/-- `operator>>(std::istream&, Integer& a)`: returns the new value of `a` -/
def intRead (a : Int) (s : IStream) : Int × IStream :=
  let r := gmpRead s
  (r.1.getD a, r.2)

/-- `mpz_set_str(z, s, 10)` (contract, mpz/set_str.c): leading white space is skipped, optional `-`, the next
    character must be a digit, then white space anywhere is ignored and every other character must be a digit;
    `none` = error (-1), `z` unchanged -/
def mpzSetStr (s : List Char) : Option Int :=
  let t := s.dropWhile isSpace
  let neg := t.head? = some '-'
  let u := if neg then t.drop 1 else t
  match u with
  | [] => none
  | c :: _ =>
    if !isDigit c then none
    else
      let ds := u.filter (fun c => !isSpace c)
      if !ds.all isDigit then none
      else
        let v := ds.foldl (fun acc c => acc * 10 + digitVal c) 0
        some (if neg then -(v : Int) else (v : Int))

/-- `Integer::Integer(const char*)`: `mpz_init_set_str` (value 0 when the string is rejected) -/
def intOfString (s : List Char) : Int := (mpzSetStr s).getD 0

/-- `Integer::operator std::string()`: `print` into an `ostringstream` -/
def intToString (n : Int) : List Char := showInt n

/-! ### Rational -/

/-- `Rational::reduce()` -/
def ratReduce (n d : Int) : Int × Int :=
  let t : Int := (Int.gcd n d : Nat)
  if t ≠ 1 then (Int.tdiv n t, Int.tdiv d t) else (n, d)

/-- `Rational(const Integer& n, const Integer& d, int red = 1)`; `none` = GivMathDivZero thrown -/
def ratMk (n d : Int) : Option (Int × Int) :=
  if d = 0 then none
  else
    -- `if (isZero(n)) { num = 0; den = 1; }` is overwritten by the next statement (no `else`)
    let nd : Int × Int := if 0 < d then (n, d) else (-n, -d)
    some (ratReduce nd.1 nd.2)

/-- `Rational(const Integer& n)` -/
def ratOfInt (n : Int) : Int × Int := (n, 1)

/-- `Rational::print` -/
def showRat (r : Int × Int) : List Char :=
  if r.2 > 1 then showInt r.1 ++ '/' :: showInt r.2 else showInt r.1

/-- the blank-skipping loop of `operator>>(istream&, Rational&)` as it was on the pinned tree:
    `while ((ch==' ') && (in)) in.get(ch);` -/
def blankGOld (ch : Char) : List Char → Char × IStream
  | [] => if ch = ' ' then (ch, ⟨[], true, true⟩) else (ch, ⟨[], false, false⟩)
  | d :: r => if ch = ' ' then blankGOld d r else (ch, ⟨d :: r, false, false⟩)

def blanksOld (ch : Char) (s : IStream) : Char × IStream :=
  if s.good then blankGOld ch s.buf
  else if ch = ' ' ∧ !s.fail then (ch, s.setFail) else (ch, s)

/-- `istream::peek()` is EOF? (sets eofbit at the end of the buffer; a non-good stream gives EOF) -/
def peekIsEof (s : IStream) : Bool × IStream :=
  if s.good then
    match s.buf with
    | [] => (true, ⟨[], false, true⟩)
    | _ :: _ => (false, s)
  else (true, s)

/-- repaired loop (fixes/C19_1.patch): `while ((ch==' ') && (in.peek() != EOF)) in.get(ch);` on a good stream -/
def blankG (ch : Char) : List Char → Char × IStream
  | [] => if ch = ' ' then (ch, ⟨[], false, true⟩) else (ch, ⟨[], false, false⟩)
  | d :: r => if ch = ' ' then blankG d r else (ch, ⟨d :: r, false, false⟩)

def blanks (ch : Char) (s : IStream) : Char × IStream :=
  if s.good then blankG ch s.buf
  else if ch = ' ' then (ch, s.setFail) else (ch, s)     -- `peek` on a non-good stream sets failbit

/-- `operator>>(std::istream&, Rational& r)`.  `old = true` is the loop of the pinned tree.
    Result `none` = the constructor threw (zero denominator). -/
def ratReadGen (old : Bool) (s : IStream) : Option (Int × Int) × IStream :=
  let r1 := intRead 0 s                            -- Integer num; in >> num;
  let num := r1.1
  let s1 := r1.2
  if !s1.good || s1.eof then (some (ratOfInt num), s1)
  else
    let g := getc s1                                -- in.get(ch)
    if g.2.eof then (some (ratOfInt num), g.2)
    else
      let ch := g.1.getD ' '
      let b := if old then blanksOld ch g.2 else blanks ch g.2
      if b.1 = '/' then
        let r2 := intRead 1 b.2                    -- Integer den = 1; in >> den;
        (ratMk num r2.1, r2.2)
      else (ratMk num 1, putback b.1 b.2)

def ratRead (s : IStream) : Option (Int × Int) × IStream := ratReadGen false s
def ratReadOld (s : IStream) : Option (Int × Int) × IStream := ratReadGen true s

/-- `Rational::Rational(const char*)`: `istringstream input(s); Rational r; input >> r;` -/
def ratOfString (s : List Char) : Option (Int × Int) := (ratRead (IStream.ofList s)).1

/-! ### sequences: values written with a separator are read back one after the other; after each value the
    reader consumes the separator with `get` (what a caller has to do for a non-blank separator) -/

def dropSep : Nat → IStream → IStream
  | 0, s => s
  | k + 1, s => dropSep k (getc s).2

/-- `istream::peek()` -/
def peek (s : IStream) : Option Char × IStream :=
  if s.good then
    match s.buf with
    | [] => (none, ⟨[], false, true⟩)
    | c :: _ => (some c, s)
  else (none, s.setFail)

/-- separator consumption that tolerates blanks already eaten by the preceding read (harness `dropsep_tol`):
    `for (char c : sep) { if (is.peek() == c) is.get(); else if (c == ' ') continue; else break; }` -/
def dropSepTol : List Char → IStream → IStream
  | [], s => s
  | c :: cs, s =>
    let p := peek s
    if p.1 = some c then dropSepTol cs (getc p.2).2
    else if c = ' ' then dropSepTol cs p.2
    else p.2

def intReadSeq (sepLen : Nat) : Nat → IStream → List Int × IStream
  | 0, s => ([], s)
  | k + 1, s =>
    let r := intRead 0 s
    let s' := if k = 0 then r.2 else dropSep sepLen r.2
    let rest := intReadSeq sepLen k s'
    (r.1 :: rest.1, rest.2)

def ratReadSeq (old : Bool) (sep : List Char) : Nat → IStream → List (Option (Int × Int)) × IStream
  | 0, s => ([], s)
  | k + 1, s =>
    let r := ratReadGen old s
    let s' := if k = 0 then r.2 else dropSepTol sep r.2
    let rest := ratReadSeq old sep k s'
    (r.1 :: rest.1, rest.2)

def joinSep (sep : List Char) : List (List Char) → List Char
  | [] => []
  | [x] => x
  | x :: y :: r => x ++ sep ++ joinSep sep (y :: r)

/-! ### RecInt -/

/-- the loop of `display_dec`: `for (i = 0; b != 0 && i < 1024; i++) { div(b, m, b, ten); result[i] = '0'+m; }`
    followed by the reversed output; `fuel = 1024 - i`, `acc` = the characters already produced, most significant first -/
def ruLoop : Nat → Nat → List Char → List Char
  | 0, _, acc => acc
  | f + 1, b, acc => if b = 0 then acc else ruLoop f (b / 10) (digitChar (b % 10) :: acc)

/-- `display_dec(out, ruint<K> a)`.  On the pinned tree the buffer was `char result[1024]` and the loop stopped
    after 1024 digits (`pinned = true`); since fixes/C19_2.patch the digits go to a `std::string` and the loop runs
    until `b == 0` (fuel `a + 1` is never exhausted: `ruLoop_fuel`). -/
def ruShowGen (pinned : Bool) (a : Nat) : List Char :=
  (if a = 0 then ['0'] else []) ++ ruLoop (if pinned then 1024 else a + 1) a []
def ruShow (a : Nat) : List Char := ruShowGen false a

/-- `operator<<(ostream&, ruint<K>)`: K = 6 is `out << a.Value` (libstdc++ `num_put` of a `uint64_t`) -/
def ruintShowGen (pinned : Bool) (K : Nat) (a : Nat) : List Char := if K = 6 then decDigits a else ruShowGen pinned a
def ruintShow (K : Nat) (a : Nat) : List Char := ruintShowGen false K a

/-- the limb loop of `mpz_to_ruint`: `limb l = c.get_ui(); set_limb(a, l, i); c >>= 64;` (`get_ui` = low limb of |c|,
    `>>=` = floor shift) -/
def mpzToRuintLoop (bits : Nat) : Nat → Int → Nat → Nat → Nat
  | 0, _, _, acc => acc
  | n + 1, c, i, acc =>
    let l := c.natAbs % 2 ^ 64
    mpzToRuintLoop bits n (c / (2 ^ 64 : Int)) (i + 1) (acc + l * 2 ^ (64 * i))

/-- `mpz_to_ruint` (since 52dbea7): `mpz_fdiv_r_2exp(c, b, 2^K)` — `c = b mod 2^(2^K)`, a negative `b` becomes its two's
    complement — then the `NBLIMB` limbs of `c` -/
def mpzToRuint (K : Nat) (b : Int) : Nat :=
  mpzToRuintLoop (2 ^ K) (2 ^ K / 64) (b % ((2 ^ 2 ^ K : Nat) : Int)) 0 0

/-- `operator>>(istream&, ruint<K>&)`: `mpz_class g; is >> g; mpz_to_ruint(a, g);` -/
def ruintRead (K : Nat) (s : IStream) : Nat × IStream :=
  let r := intRead 0 s
  (mpzToRuint K r.1, r.2)

/-- `rint<K>` as the signed value of its 2^K-bit pattern -/
def toSigned (K : Nat) (u : Nat) : Int := if u < 2 ^ (2 ^ K - 1) then (u : Int) else (u : Int) - (2 ^ (2 ^ K) : Nat)
def toPattern (K : Nat) (a : Int) : Nat := (a % ((2 ^ (2 ^ K) : Nat) : Int)).toNat

/-- `display_dec(out, rint<K> a)`: `-` then the magnitude `(-a).Value` (computed in the type) -/
def rintShowGen (pinned : Bool) (K : Nat) (a : Int) : List Char :=
  if a < 0 then '-' :: ruShowGen pinned (toPattern K (-a)) else ruShowGen pinned (toPattern K a)
def rintShow (K : Nat) (a : Int) : List Char := rintShowGen false K a

/-- `mpz_to_rint`: for `b < 0` convert `-b` and negate in the type -/
def mpzToRint (K : Nat) (b : Int) : Int :=
  if b < 0 then toSigned K (toPattern K (-(mpzToRuint K (-b) : Int)))
  else toSigned K (mpzToRuint K b)

def rintRead (K : Nat) (s : IStream) : Int × IStream :=
  let r := intRead 0 s
  (mpzToRint K r.1, r.2)

/-! ### libstdc++ `num_get` for native integers (formatted extraction with the default flags `dec|skipws`) -/

/-- `istream::sentry` of a formatted extractor: skips white space; reaching the end sets eof|fail -/
def sentryWs (s : IStream) : Bool × IStream :=
  if s.good then
    match s.buf.dropWhile isSpace with
    | [] => (false, ⟨[], true, true⟩)
    | c :: b => (true, ⟨c :: b, false, false⟩)
  else (false, s.setFail)

def digitsValue (ds : List Char) : Nat := ds.foldl (fun acc c => acc * 10 + digitVal c) 0

/-- `num_get::_M_extract_int` in base 10 for a `w`-bit type: optional sign (consumed even when no digit follows),
    digits; no digit → 0 and failbit; magnitude out of range → the type's limit and failbit; eofbit when the scan
    reached the end.  An unsigned type accepts `-` and negates modulo 2^w. -/
def numGetInt (signed : Bool) (w : Nat) (buf : List Char) : Int × IStream :=
  let neg := buf.head? = some '-'
  let b1 := if neg || buf.head? = some '+' then buf.drop 1 else buf
  let ds := b1.takeWhile isDigit
  let rest := b1.dropWhile isDigit
  let eof := rest.isEmpty
  if ds.isEmpty then (0, ⟨rest, true, eof⟩)
  else
    let m : Int := (digitsValue ds : Nat)
    let hi : Int := if signed then 2 ^ (w - 1) - 1 else 2 ^ w - 1
    let maxMag : Int := if signed && neg then 2 ^ (w - 1) else hi
    if m > maxMag then ((if signed && neg then -(2 ^ (w - 1)) else hi), ⟨rest, true, eof⟩)
    else if signed then ((if neg then -m else m), ⟨rest, false, eof⟩)
    else ((if neg then (2 ^ w - m) % 2 ^ w else m), ⟨rest, false, eof⟩)

/-- `is >> tmp` for a native integer `tmp` (left at `dflt` when the sentry fails) -/
def nativeRead (signed : Bool) (w : Nat) (dflt : Int) (s : IStream) : Int × IStream :=
  let se := sentryWs s
  if se.1 then numGetInt signed w se.2.buf else (dflt, se.2)

/-- `is >> tmp` for `float`/`double` (`mant` = 24/53), restricted to the fragment the round trips use: optional sign,
    digits, not followed by `.`/`e`/`E`, magnitude exactly representable.  `none` = outside the modelled fragment. -/
def floatRead (mant : Nat) (s : IStream) : Option (Int × IStream) :=
  let se := sentryWs s
  if !se.1 then none
  else
    let buf := se.2.buf
    let neg := buf.head? = some '-'
    let b1 := if neg || buf.head? = some '+' then buf.drop 1 else buf
    let ds := b1.takeWhile isDigit
    let rest := b1.dropWhile isDigit
    match rest with
    | c :: _ => if c = '.' ∨ c = 'e' ∨ c = 'E' then none
                else if ds.isEmpty ∨ digitsValue ds > 2 ^ mant then none
                else some ((if neg then -(digitsValue ds : Int) else digitsValue ds), ⟨rest, false, false⟩)
    | [] => if ds.isEmpty ∨ digitsValue ds > 2 ^ mant then none
            else some ((if neg then -(digitsValue ds : Int) else digitsValue ds), ⟨[], false, true⟩)

/-! ### ring elements -/

inductive Reader where
  | gmp                      -- `Integer tmp; s >> tmp; init(a, tmp)`
  | sint (w : Nat)           -- `Element/int64_t tmp; is >> tmp; init(x, tmp)`
  | flt (mant : Nat)         -- ModularBalanced<float|double>
deriving DecidableEq, Repr

/-- how a ring reads and normalises: `card = 0` is ZRing (no reduction) -/
structure RingIO where
  reader : Reader
  balanced : Bool
  card : Int
  /-- `init` is the canonical map only for |v| ≤ 2^exact: floating storage behind an integer reader (ModularExtended:
      beyond, `double(v)` rounds) or a fixed-width conversion of the `Integer` read (Montgomery<ruint<K>>) — what happens
      beyond is C04's subject; 0 = no such limit -/
  exact : Nat := 0
  /-- the indeterminate content of an uninitialised local (`Element tmp;`, `TT t;`, `int64_t tmp;`, `long deg;`) that a
      native extractor leaves untouched when its sentry fails (stream already failed or at its end).  No theorem depends
      on it (round trips never reach that branch); the driver evaluates the model with two different values and does not
      judge a line whose outcome depends on it. -/
  uninit : Int := 0
deriving Repr

/-- the canonical map Z → ring as the representative that `write` prints (C03/C04/C05 specification of `init`):
    `[0, p)`, or `[-(p-1)/2 .. p/2]` (`_halfp = p >> 1`) for the balanced rings -/
def initNorm (R : RingIO) (v : Int) : Int :=
  if R.card = 0 then v
  else
    let r := v % R.card
    if R.balanced && r > R.card / 2 then r - R.card else r

/-- `F.write(os, a)`: every ring prints the representative in decimal — `s << a`, `s << int32_t(a)` for 8-bit storage,
    `s << (int64_t) a` for floating storage (Modular<float|double>, ModularExtended; ModularBalanced<double> since
    fixes/C19_3.patch), `s << _log2pol[a]` (GFqDom), `s << _tab_rep2value[a]` (Log16), `display_dec` (ruint storage).
    ModularBalanced<float> still does `os << x` on the `float`: with the default precision 6 that is the same text
    because its representatives stay below 10^6 (`maxCardinality() = 8191`; validated up to that modulus). -/
def elemShow (rep : Int) : List Char := showInt rep

/-- `F.read(is, a)`; `none` = outside the modelled fragment of floating-point input -/
def elemRead (R : RingIO) (s : IStream) : Option (Int × IStream) :=
  match R.reader with
  | .gmp =>
    let r := intRead 0 s
    if R.exact ≠ 0 ∧ r.1.natAbs > 2 ^ R.exact then none else some (initNorm R r.1, r.2)
  | .sint w =>
    let r := nativeRead true w R.uninit s
    if R.exact ≠ 0 ∧ r.1.natAbs > 2 ^ R.exact then none else some (initNorm R r.1, r.2)
  | .flt m => (floatRead m s).map (fun r => (initNorm R r.1, r.2))

/-! ### Poly1Dom -/

/-- one term `(c)*X^l` of the infix form (`c ≠ 0`, `l ≥ 1`): no coefficient when `c` is one, no exponent when `l = 1` -/
def polyTerm (x : List Char) (c : Int) (l : Nat) : List Char :=
  (if c ≠ 1 then '(' :: elemShow c ++ ")*".toList else []) ++ x ++ (if l ≥ 2 then '^' :: decDigits l else [])

def polyTail (x : List Char) : List Int → Int → Nat → List Char
  | [], _, _ => []
  | c :: cs, prev, l =>
    (if prev ≠ 0 then " + ".toList else []) ++ (if c ≠ 0 then polyTerm x c l else []) ++ polyTail x cs c (l + 1)

/-- the body of `Poly1Dom::write` on the degree-normalised copy `P` (`0` when it is empty) -/
def polyShow (x : List Char) (P : List Int) : List Char :=
  match P with
  | [] => ['0']
  | c0 :: cs =>
    (if c0 ≠ 0 then (if c0 = 1 then elemShow c0 else '(' :: elemShow c0 ++ [')']) else []) ++ polyTail x cs c0 1

/-- coefficients `P[deg] … P[0]` read one after the other -/
def polyReadCoeffs (R : RingIO) : Nat → IStream → Option (List Int × IStream)
  | 0, s => some ([], s)
  | k + 1, s =>
    match elemRead R s with
    | none => none
    | some (c, s1) => (polyReadCoeffs R k s1).map (fun r => (c :: r.1, r.2))

/-- `Poly1Dom::read(i, P)`: `long deg; i >> deg; init(P, Degree(deg)); for (; deg >= 0; --deg) _domain.read(i, P[deg]);`
    returns the coefficients `P[0] …` -/
def polyRead (R : RingIO) (s : IStream) : Option (List Int × IStream) :=
  let d := nativeRead true 64 R.uninit s
  if d.1 < 0 then some ([], d.2)
  else (polyReadCoeffs R (d.1.toNat + 1) d.2).map (fun r => (r.1.reverse, r.2))

/-- `setdegree`: drop the zero leading coefficients (the trailing zeros of the stored vector) -/
def polyNorm : List Int → List Int
  | [] => []
  | c :: cs =>
    match polyNorm cs with
    | [] => if c = 0 then [] else [c]
    | d :: ds => c :: d :: ds

/-- `Poly1Dom::write(o, R)` on the vector as it is stored:
    `if (R.size()) { Rep P; assign(P, R); setdegree(P); if (P.size()) { …infix form of P…; return o; } } return o << "0";` -/
def polyWrite (x : List Char) (R : List Int) : List Char :=
  match R with
  | [] => ['0']
  | _ :: _ =>
    match polyNorm R with
    | [] => ['0']
    | c0 :: cs => polyShow x (c0 :: cs)

/-! ### RecInt string constructors -/

/-- `mpz_class m(s)` for the texts the printers produce (optional `-`, decimal digits without leading zero, so the
    base-0 prefix detection of `mpz_class(const char*)` sees a decimal number or the single digit `0`); `none` = it throws -/
def mpzClassOfString (s : List Char) : Option Int := mpzSetStr s

/-- `ruint<K>::ruint(const char* b)`: `mpz_class m(b); mpz_to_ruint(*this, m);` -/
def ruintOfString (K : Nat) (s : List Char) : Option Nat := (mpzClassOfString s).map (mpzToRuint K)

/-- `rint<K> a("…")` goes through `template <typename T> rint(const T& b) : Value(b)`, i.e. `ruint<K>(const char*)`:
    the bit pattern is `mpz_to_ruint` of the (possibly negative) number, read as a signed value -/
def rintOfString (K : Nat) (s : List Char) : Option Int := (ruintOfString K s).map (toSigned K)

end Givaro.Model.Text
