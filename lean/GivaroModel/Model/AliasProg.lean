/-
C15 (ring / field / rational / polynomial interfaces) — the event language of translate/aliasfp.py, its store semantics and the
read-after-write discipline (core Lean only).

A C++ object is a block of consecutive *leaves* (opaque objects: one leaf; RecInt's ruint<K>/rint<K>/rmint<K>: one leaf per limb,
`.High`/`.Low`/`.Value` are sub-blocks).  A store maps locations (natural numbers) to values of an arbitrary type `V`.
A function body is a `Prog` over *references* to blocks of its formal parameters (`Ref.par i off len`: leaves `off … off+len-1` of
formal `i`) and of its local frame (`Ref.loc off len`).  An environment gives the base location of every formal and of the frame.
Primitives, pure computations and conditions are uninterpreted functions of the values read at the time of the call.
`call q args frame` runs the callee's program `q` (a sub-term: the call graph is acyclic by construction) with its formals bound to
the blocks `args` of the caller and a fresh frame above the caller's.

The same program is run twice: with the locations as they are (`φ = id`: all formals distinct objects) and with every location
passed through a renaming `φ` that identifies the aliased objects (the aliased call).  `safe` is the discipline, evaluated
with a bit set `D` of *dirty* locations (locations whose content in the aliased run no longer equals the content in the distinct
run): nothing dirty is ever read; a store to `w` cleans `w` and dirties every other location that `φ` identifies with `w`
(`conf w`); copying a block onto a block that is the same object in the aliased run changes nothing.

Address tests (`ifAlias`) are answered by `Sem.al` on the UN-renamed locations, i.e. identically in both runs: with
`al l l' := (φ l == φ l')` the renamed run is the real aliased execution, and the `id` run is the execution on distinct objects in which
every address test is answered as in the aliased call.  (That the guarded and the unguarded path of such a test agree on distinct
objects is not an aliasing matter and is not expressed here.)
-/
namespace Givaro.Model.AliasProg

/-- a block of leaves of a formal parameter or of the local frame -/
inductive Ref where
  | par (i off len : Nat)
  | loc (off len : Nat)
deriving Repr, Inhabited

inductive Prog where
  | skip
  /-- `outs := interp f (values of ins)`: an external primitive, a built-in operator, a pure computation, or a library call whose
      arguments are not in conflict (a function of the values of its inputs) -/
  | prim (f : Nat) (outs ins : List Ref)
  /-- leaf-wise copy of a block (assignment, copy construction, by-value parameter, `assign`) -/
  | copy (dst src : Ref)
  | seq (p q : Prog)
  /-- branch on an uninterpreted condition of the values of `ins` -/
  | ite (c : Nat) (ins : List Ref) (t e : Prog)
  /-- explicit address test `&a == &b` -/
  | ifAlias (a b : Ref) (t e : Prog)
  /-- `while cond(ins) do body` -/
  | loop (c : Nat) (ins : List Ref) (body : Prog)
  | brk
  | ret
  /-- call of a library function whose body is `callee`; formal `k` of the callee is bound to the block `args[k]` -/
  | call (callee : Prog) (args : List Ref) (frame : Nat)
deriving Inhabited

structure Env where
  /-- base location of each formal parameter -/
  ρ : List Nat
  /-- base location of the local frame -/
  sp : Nat

def Ref.start (E : Env) : Ref → Nat
  | .par i off _ => E.ρ.getD i 0 + off
  | .loc off _ => E.sp + off

def Ref.len : Ref → Nat
  | .par _ _ n => n
  | .loc _ n => n

def Ref.locs (E : Env) (r : Ref) : List Nat := List.range' (r.start E) r.len

def locsOf (E : Env) : List Ref → List Nat
  | [] => []
  | r :: rs => r.locs E ++ locsOf E rs

def Env.callee (E : Env) (args : List Ref) (frame : Nat) : Env := ⟨args.map (·.start E), E.sp + frame⟩

/-! ## store semantics -/

abbrev Store (V : Type) := Nat → V

def Store.set {V : Type} (σ : Store V) (l : Nat) (v : V) : Store V := fun x => if x = l then v else σ x

/-- the uninterpreted part of an execution -/
structure Sem (V : Type) where
  /-- `interp f vals k`: the `k`-th output leaf of primitive `f` applied to the values read -/
  interp : Nat → List V → Nat → V
  /-- value of condition `c` on the values read -/
  cond : Nat → List V → Bool
  /-- answer of an address test on two locations -/
  al : Nat → Nat → Bool

def readL {V : Type} (φ : Nat → Nat) (σ : Store V) (ls : List Nat) : List V := ls.map (fun l => σ (φ l))

def writeL {V : Type} (φ : Nat → Nat) (g : Nat → V) : Store V → List Nat → Nat → Store V
  | σ, [], _ => σ
  | σ, l :: ls, k => writeL φ g (σ.set (φ l) (g k)) ls (k + 1)

def copyL {V : Type} (φ : Nat → Nat) : Store V → List (Nat × Nat) → Store V
  | σ, [] => σ
  | σ, (d, s) :: r => copyL φ (σ.set (φ d) (σ (φ s))) r

inductive Status where
  | norm | brk | ret | oom
deriving DecidableEq, Repr

/-- `while test do body`, at most `fuel` iterations (`oom` when the fuel does not suffice) -/
def iter {V : Type} (test : Store V → Bool) (body : Store V → Store V × Status) : Nat → Store V → Store V × Status
  | 0, σ => if test σ then (σ, .oom) else (σ, .norm)
  | n + 1, σ =>
    if test σ then
      match body σ with
      | (σ', .norm) => iter test body n σ'
      | (σ', .brk) => (σ', .norm)
      | (σ', .ret) => (σ', .ret)
      | (σ', .oom) => (σ', .oom)
    else (σ, .norm)

/-- execution with every location passed through the renaming `φ` (`φ = id`: the call on distinct objects) -/
def run {V : Type} (S : Sem V) (φ : Nat → Nat) (fuel : Nat) : Prog → Env → Store V → Store V × Status
  | .skip, _, σ => (σ, .norm)
  | .prim f outs ins, E, σ => (writeL φ (S.interp f (readL φ σ (locsOf E ins))) σ (locsOf E outs) 0, .norm)
  | .copy d s, E, σ => (copyL φ σ ((d.locs E).zip (s.locs E)), .norm)
  | .seq p q, E, σ =>
    match run S φ fuel p E σ with
    | (σ', .norm) => run S φ fuel q E σ'
    | r => r
  | .ite c ins t e, E, σ =>
    if S.cond c (readL φ σ (locsOf E ins)) then run S φ fuel t E σ else run S φ fuel e E σ
  | .ifAlias a b t e, E, σ =>
    if S.al (a.start E) (b.start E) then run S φ fuel t E σ else run S φ fuel e E σ
  | .loop c ins body, E, σ =>
    iter (fun σ => S.cond c (readL φ σ (locsOf E ins))) (fun σ => run S φ fuel body E σ) fuel σ
  | .brk, _, σ => (σ, .brk)
  | .ret, _, σ => (σ, .ret)
  | .call q args frame, E, σ =>
    match run S φ fuel q (E.callee args frame) σ with
    | (σ', .oom) => (σ', .oom)
    | (σ', _) => (σ', .norm)

/-! ## the discipline -/

def bit (l : Nat) : Nat := 1 <<< l
/-- remove the bits of `m` from `D` -/
def clr (D m : Nat) : Nat := D ^^^ (D &&& m)
def mask (s len : Nat) : Nat := ((1 <<< len) - 1) <<< s
def Ref.mask (E : Env) (r : Ref) : Nat := Givaro.Model.AliasProg.mask (r.start E) r.len

def masks (E : Env) : List Ref → Nat
  | [] => 0
  | r :: rs => r.mask E ||| masks E rs

/-- a store to `w`: `w` becomes clean, every other location identified with it becomes dirty -/
def wr (conf : Nat → Nat) (D w : Nat) : Nat := clr D (bit w) ||| clr (conf w) (bit w)

def wrL (conf : Nat → Nat) : Nat → List Nat → Nat
  | D, [] => D
  | D, w :: ws => wrL conf (wr conf D w) ws

def cpL (conf : Nat → Nat) (al : Nat → Nat → Bool) : Nat → List (Nat × Nat) → Option Nat
  | D, [] => some D
  | D, (d, s) :: r =>
    if D.testBit s then none
    else cpL conf al (if al d s then clr D (bit d) else wr conf D d) r

/-- dirty sets at the three ways a program can complete; `nr = false`: the program never completes normally (it always leaves by
    `break` / `return`), so what follows it in a sequence is dead code and is not examined -/
structure Exits where
  nr : Bool
  n : Nat
  b : Nat
  r : Nat
deriving Repr, DecidableEq

/-- the discipline: `safe conf al p E D = some x` when, started with dirty set `D`, `p` never reads a dirty location; `x` bounds the
    dirty set at normal completion, at `break` and at `return` -/
def safe (conf : Nat → Nat) (al : Nat → Nat → Bool) : Prog → Env → Nat → Option Exits
  | .skip, _, D => some ⟨true, D, 0, 0⟩
  | .prim _ outs ins, E, D =>
    if D &&& masks E ins = 0 then some ⟨true, wrL conf D (locsOf E outs), 0, 0⟩ else none
  | .copy d s, E, D =>
    match cpL conf al D ((d.locs E).zip (s.locs E)) with
    | some D' => some ⟨true, D', 0, 0⟩
    | none => none
  | .seq p q, E, D =>
    match safe conf al p E D with
    | none => none
    | some x =>
      if x.nr then
        match safe conf al q E x.n with
        | none => none
        | some y => some ⟨y.nr, y.n, x.b ||| y.b, x.r ||| y.r⟩
      else some x
  | .ite _ ins t e, E, D =>
    if D &&& masks E ins = 0 then
      match safe conf al t E D, safe conf al e E D with
      | some x, some y => some ⟨x.nr || y.nr, x.n ||| y.n, x.b ||| y.b, x.r ||| y.r⟩
      | _, _ => none
    else none
  | .ifAlias a b t e, E, D =>
    if al (a.start E) (b.start E) then safe conf al t E D else safe conf al e E D
  | .loop _ ins body, E, D =>
    match safe conf al body E D with
    | none => none
    | some x =>
      -- candidate invariant at the loop head: what is dirty on entry or after one pass
      let I := D ||| x.n
      match safe conf al body E I with
      | none => none
      | some y =>
        if (y.n ||| I = I) ∧ (I &&& masks E ins = 0) then some ⟨true, I ||| y.b, 0, y.r⟩ else none
  | .brk, _, D => some ⟨false, 0, D, 0⟩
  | .ret, _, D => some ⟨false, 0, 0, D⟩
  | .call q args frame, E, D =>
    match safe conf al q (E.callee args frame) D with
    | none => none
    | some x => some ⟨true, x.n ||| x.b ||| x.r, 0, 0⟩

/-! ## alias patterns: finitely many classes of identified locations -/

/-- an alias pattern: the non-trivial classes, each as (representative, bit set of its members) -/
abbrev Classes := List (Nat × Nat)

def findClass (cls : Classes) (l : Nat) : Option (Nat × Nat) := cls.find? (fun c => c.2.testBit l)

/-- the renaming of the aliased call: every member of a class is the class's representative -/
def phiOf (cls : Classes) (l : Nat) : Nat :=
  match findClass cls l with
  | some c => c.1
  | none => l

def confOf (cls : Classes) (l : Nat) : Nat :=
  match findClass cls l with
  | some c => c.2
  | none => 0

def alOf (cls : Classes) (l l' : Nat) : Bool := phiOf cls l == phiOf cls l'

/-- representatives are pairwise different and belong to their class -/
def clsOK (cls : Classes) : Bool :=
  cls.all (fun c => c.2.testBit c.1) && (cls.map (·.1)).Nodup

/-! ## table entries -/

structure Entry where
  kind : String
  op : String
  pat : String
  /-- number of leaves of every formal; formals are laid out consecutively from location 0, the frame follows -/
  sizes : List Nat
  /-- bit set of the output leaves -/
  outs : Nat
  /-- bit set of the leaves whose initial content is unrelated in the two runs (pure destinations in "strong" mode; 0 otherwise) -/
  d0 : Nat
  cls : Classes
  prog : Prog

def bases : Nat → List Nat → List Nat
  | _, [] => []
  | b, s :: ss => b :: bases (b + s) ss

def Entry.env (e : Entry) : Env := ⟨bases 0 e.sizes, e.sizes.foldl (· + ·) 0⟩

def safeEntry (e : Entry) : Bool :=
  clsOK e.cls &&
  match safe (confOf e.cls) (alOf e.cls) e.prog e.env e.d0 with
  | some x => ((if x.nr then x.n else 0) ||| x.r) &&& e.outs == 0
  | none => false

end Givaro.Model.AliasProg
