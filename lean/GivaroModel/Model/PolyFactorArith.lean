/-
C09 — list-polynomial arithmetic over an explicit coefficient structure (core Lean only).

`Poly α = List α`, little endian (`p[i]` is the coefficient of `X^i`), *not* necessarily normalised: like the
`givvector` behind `Poly1Dom<Domain,Dense>::Rep`, a list may carry trailing zero coefficients; `norm` is `setdegree`.
The coefficient field is a record of operations (`FOps`), so that the same functions are
  * executed by the correspondence driver on p-adic codes of GF(p^k) (`Driver/PolyFactor.lean`), and
  * instantiated with the operations of an arbitrary Mathlib `Field` in the theorems (`Lemmas/PolyFactorLemmas.lean`).
(C08 owns the polynomial arithmetic proper; this file is C09's private copy — see PROMPT: namespace Givaro.Model.PolyFactor.)
-/
namespace Givaro.Model.PolyFactor

structure FOps (α : Type) where
  zero : α
  one : α
  add : α → α → α
  neg : α → α
  mul : α → α → α
  inv : α → α

abbrev Poly (α : Type) := List α

section
variable {α : Type} [DecidableEq α] (F : FOps α)

def coeff (p : Poly α) (i : Nat) : α := p.getD i F.zero

/-- `setdegree`: strip trailing zero coefficients -/
def norm : Poly α → Poly α
  | [] => []
  | a :: p => if norm p = [] ∧ a = F.zero then [] else a :: norm p

/-- `Degree` of givdegree.h: -1 for the zero polynomial -/
def degree (p : Poly α) : Int := ((norm F p).length : Int) - 1

def isZeroP (p : Poly α) : Bool := norm F p = []

/-- leading coefficient (zero for the zero polynomial) -/
def lcoef (p : Poly α) : α := (norm F p).getLastD F.zero

def padd : Poly α → Poly α → Poly α
  | [], q => q
  | p, [] => p
  | a :: p, b :: q => F.add a b :: padd p q

def pneg (p : Poly α) : Poly α := p.map F.neg
def psub (p q : Poly α) : Poly α := padd F p (pneg F q)
def smul (c : α) (p : Poly α) : Poly α := p.map (F.mul c)

def pmul : Poly α → Poly α → Poly α
  | [], _ => []
  | a :: p, q => padd F (smul F a q) (F.zero :: pmul p q)

def ppow (p : Poly α) : Nat → Poly α
  | 0 => [F.one]
  | n + 1 => pmul F p (ppow p n)

/-- Horner-style long division by a normalised non-zero `b` of degree `db` with `ilc = 1/lc(b)`:
    returns (quotient, remainder) with `a = q b + r`, `r` of length ≤ db. -/
def divmodAux (b : Poly α) (db : Nat) (ilc : α) : Poly α → Poly α × Poly α
  | [] => ([], [])
  | a0 :: a' =>
    let qr := divmodAux b db ilc a'
    let r1 := a0 :: qr.2
    let c := F.mul (r1.getD db F.zero) ilc
    (c :: qr.1, (psub F r1 (smul F c b)).take db)

/-- `divmod`; division by the zero polynomial is totalised to (0, a) — every user states `b ≠ 0`. -/
def divmod (a b : Poly α) : Poly α × Poly α :=
  let b' := norm F b
  if b' = [] then ([], a) else divmodAux F b' (b'.length - 1) (F.inv (lcoef F b)) a

def pdiv (a b : Poly α) : Poly α := norm F (divmod F a b).1
def pmod (a b : Poly α) : Poly α := norm F (divmod F a b).2

/-- the remainder sequence of `Poly1Dom::gcd`: `do { R = U mod G; if R = 0 break; U = G; G = R } while (1)` -/
def gcdLoop : Nat → Poly α → Poly α → Poly α
  | 0, _, G => G
  | n + 1, U, G =>
    let R := pmod F U G
    if R = [] then G else gcdLoop n G R

/-- `Poly1Dom::gcd(G,P,Q)` (givpoly1gcd.inl): *not* made monic; the four early exits return an argument as it is;
    a constant result of the loop is replaced by `one`. -/
def pgcd (P Q : Poly α) : Poly α :=
  let dU := degree F P
  let dG := degree F Q
  if dU < 0 ∨ dG = 0 then norm F Q
  else if dG < 0 ∨ dU = 0 then norm F P
  else
    let U := if dU ≥ dG then norm F P else norm F Q
    let G := if dU ≥ dG then norm F Q else norm F P
    let G' := gcdLoop F (G.length + 1) U G
    if degree F G' ≤ 0 then [F.one] else G'

/-- `Poly1Dom::powmod(W,P,pwr,U)` (givpoly1misc.inl): right-to-left binary powering, `puiss = P mod U`, `W = one`. -/
def powmodLoop (U : Poly α) : Nat → Nat → Poly α → Poly α → Poly α
  | 0, _, W, _ => W
  | fuel + 1, n, W, puiss =>
    if n = 0 then W else
    let W' := if n % 2 = 1 then pmod F (pmul F W puiss) U else W
    powmodLoop U fuel (n / 2) W' (pmod F (pmul F puiss puiss) U)

def powmod (P : Poly α) (e : Nat) (U : Poly α) : Poly α :=
  norm F (powmodLoop F U (e.log2 + 2) e [F.one] (pmod F P U))

/-- `Poly1Dom::diff` (givpoly1misc.inl): `cste` is incremented by `one` per coefficient -/
def diffAux (cste : α) : Poly α → Poly α
  | [] => []
  | a :: q => F.mul a (F.add cste F.one) :: diffAux (F.add cste F.one) q

def diff (Q : Poly α) : Poly α :=
  match norm F Q with
  | [] => []
  | _ :: t => diffAux F F.zero t

def monicize (p : Poly α) : Poly α := smul F (F.inv (lcoef F p)) (norm F p)

/-- all coefficient lists of length `n` over the listed elements -/
def allLists (elems : List α) : Nat → List (Poly α)
  | 0 => [[]]
  | n + 1 => (allLists elems n).flatMap (fun t => elems.map (fun a => a :: t))

/-- all monic polynomials of degree exactly `d` -/
def monics (elems : List α) (d : Nat) : List (Poly α) := (allLists elems d).map (fun t => t ++ [F.one])

def isOneP (p : Poly α) : Bool := norm F p = [F.one]

end
end Givaro.Model.PolyFactor
