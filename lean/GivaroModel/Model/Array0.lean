/-
C17 — executable model of `Array0<T>` (src/kernel/bstruct/givarray0.inl) over an abstract block store.

Handles are the four fields of the class (`_cnt`, `_size`, `_psz`, `_d`); the store has *data blocks* (the `T*` blocks
obtained from `GivaroMM<T>::allocate`, with the list of constructed cells) and *counter cells* (the `int*` blocks obtained
from `GivaroMM<int>::allocate(1)`).  Block identifiers are never reused: a released block stays in the store with
`live = false`, so that every later access through a stale pointer is visible as a `fault` (the state the C++ program
reaches by undefined behaviour: null/stale counter dereference, read of a released block, double release).
That the real pool may recycle a released block only for a *new* allocation is the subject of `Model/FreeList.lean`.

Transcription notes (line numbers of givarray0.inl):
  * `destroy` l.79-90, `build` l.23-34, NoCopy ctor l.51-60, WithCopy ctor l.65-75, `allocate` l.94-110,
    `reallocate` l.115-138, `push_back` l.141-145, `copy` l.157-167, `logcopy` l.171-182, `operator=` l.187-192.
  * constructors are applied by the harness to a slot whose previous object has been destroyed (`H->~A(); new (H) A(…)`),
    the model's `ctor…` operations therefore start with `destroy`.
  * in `reallocate` the new block is obtained before the old one is released; identifiers being fresh, the order of the
    two is immaterial in this store; what matters (and is kept) is that the old cells are *read before* the release.
Core Lean only (linked into the driver).
-/
namespace Givaro.Model.Array0

/-- pointwise update of a total map -/
def upd {β : Type} (f : Nat → β) (i : Nat) (v : β) : Nat → β := fun j => if j = i then v else f j

@[simp] theorem upd_same {β : Type} (f : Nat → β) (i : Nat) (v : β) : upd f i v i = v := by simp [upd]
theorem upd_other {β : Type} (f : Nat → β) (i j : Nat) (v : β) (h : j ≠ i) : upd f i v j = f j := by simp [upd, h]

structure Handle where
  cnt  : Option Nat      -- `_cnt`  (none = null)
  size : Nat             -- `_size`
  psz  : Nat             -- `_psz`
  d    : Option Nat      -- `_d`    (none = null)
deriving DecidableEq, Repr, Inhabited

def Handle.empty : Handle := ⟨none, 0, 0, none⟩

structure State (α : Type) where
  n     : Nat                 -- number of handle slots
  hs    : Nat → Handle
  dlive : Nat → Bool
  ddata : Nat → List α        -- constructed cells of a data block (its physical size is the length)
  dnext : Nat
  clive : Nat → Bool
  cval  : Nat → Int
  cnext : Nat
  fault : Bool

def init (α : Type) (n : Nat) : State α :=
  { n := n, hs := fun _ => Handle.empty, dlive := fun _ => false, ddata := fun _ => [], dnext := 0,
    clive := fun _ => false, cval := fun _ => 0, cnext := 0, fault := false }

variable {α : Type}

def faulted (s : State α) : State α := { s with fault := true }
def setH (s : State α) (h : Nat) (H : Handle) : State α := { s with hs := upd s.hs h H }

/-- `Array0<T>::destroy()` -/
def destroy (s : State α) (h : Nat) : State α :=
  let H := s.hs h
  if H.psz = 0 then setH s h Handle.empty else
  match H.cnt with
  | none => faulted s                                   -- `--(*_cnt)` through a null pointer
  | some c =>
    if s.clive c = false then faulted s else            -- counter cell already released
    let v := s.cval c - 1
    if v = 0 then
      match H.d with
      | none => faulted s
      | some b =>
        if s.dlive b = false then faulted s else        -- double release
        { s with cval := upd s.cval c 0, clive := upd s.clive c false, dlive := upd s.dlive b false,
                 hs := upd s.hs h Handle.empty }
    else { s with cval := upd s.cval c v, hs := upd s.hs h Handle.empty }

/-- a new data block with cells `l` and a new counter cell holding 1, attached to handle `h` with logical size `sz` -/
def attachFresh (s : State α) (h : Nat) (l : List α) (sz : Nat) : State α :=
  { s with dlive := upd s.dlive s.dnext true, ddata := upd s.ddata s.dnext l, dnext := s.dnext + 1,
           clive := upd s.clive s.cnext true, cval := upd s.cval s.cnext 1, cnext := s.cnext + 1,
           hs := upd s.hs h ⟨some s.cnext, sz, l.length, some s.dnext⟩ }

/-- the body shared by the NoCopy constructor and `logcopy` once `*this` is empty:
    `_psz = p._psz; _size = p._size; if (_psz != 0) { _d = p._d; _cnt = p._cnt; (*_cnt)++; } else { _d = 0; _cnt = 0; }` -/
def attachShare (s : State α) (h g : Nat) : State α :=
  let P := s.hs g
  if P.psz ≠ 0 then
    match P.cnt with
    | none => faulted s
    | some c =>
      if s.clive c = false then faulted s else
      { s with cval := upd s.cval c (s.cval c + 1), hs := upd s.hs h ⟨some c, P.size, P.psz, P.d⟩ }
  else setH s h ⟨none, P.size, P.psz, none⟩

/-- the first `k` cells of a block, `none` when the block is released or shorter (undefined behaviour in C++) -/
def readCells (s : State α) (b : Option Nat) (k : Nat) : Option (List α) :=
  match b with
  | none => if k = 0 then some [] else none
  | some b => if k = 0 then some [] else if s.dlive b = true ∧ k ≤ (s.ddata b).length then some ((s.ddata b).take k) else none

/-- `Array0(size_t s, const T& t)` on a destroyed slot -/
def ctorBuild (s : State α) (h sz : Nat) (t : α) : State α :=
  let s := destroy s h
  if s.fault then s else
  if sz ≠ 0 then attachFresh s h (List.replicate sz t) sz else setH s h ⟨none, 0, 0, none⟩

/-- `Array0(const Self_t& p, givNoCopy)` on a destroyed slot (`g ≠ h`) -/
def ctorNoCopy (s : State α) (h g : Nat) : State α :=
  if h = g then s else
  let s := destroy s h
  if s.fault then s else attachShare s h g

/-- `Array0(const Self_t& p, givWithCopy)` on a destroyed slot (`g ≠ h`) -/
def ctorWithCopy (s : State α) (h g : Nat) : State α :=
  if h = g then s else
  let s := destroy s h
  if s.fault then s else
  let P := s.hs g
  if P.size ≠ 0 then
    match readCells s P.d P.size with
    | none => faulted s
    | some l => attachFresh s h l P.size
  else setH s h ⟨none, 0, 0, none⟩

/-- does the fast path `(*_cnt == 1) && (_psz >= s)` apply?  `none` = the counter cell is stale (fault) -/
def soleWithRoom (s : State α) (H : Handle) (sz : Nat) : Option Bool :=
  match H.cnt with
  | none => some false
  | some c => if s.clive c = false then none else some (s.cval c = 1 ∧ H.psz ≥ sz)

/-- `Array0<T>::allocate(size_t s)` -/
def allocate [Inhabited α] (s : State α) (h sz : Nat) : State α :=
  let H := s.hs h
  match soleWithRoom s H sz with
  | none => faulted s
  | some true => setH s h { H with size := sz }
  | some false =>
    let s := if H.cnt.isSome then destroy s h else s
    if s.fault then s else
    if sz > 0 then attachFresh s h (List.replicate sz default) sz
    else setH s h { (s.hs h) with cnt := none, size := 0, psz := 0 }      -- `_d` is left as it is

/-- `Array0<T>::reallocate(size_t s)` (= `resize`) -/
def reallocate [Inhabited α] (s : State α) (h sz : Nat) : State α :=
  let H := s.hs h
  match soleWithRoom s H sz with
  | none => faulted s
  | some true => setH s h { H with size := sz }
  | some false =>
    if sz > 0 then
      let k := if H.size < sz then H.size else sz
      if H.cnt.isSome then
        match readCells s H.d k with                    -- `initone(&tmp[i], _d[i])`, i < k
        | none => faulted s
        | some l =>
          let s := destroy s h
          if s.fault then s else attachFresh s h (l ++ List.replicate (sz - k) default) sz
      else
        if k ≠ 0 then faulted s                          -- cells [0,k) of the new block would stay unconstructed
        else attachFresh s h (List.replicate sz default) sz
    else destroy s h

/-- store `v` in cell `i` of block `b` -/
def writeCell (s : State α) (b : Option Nat) (i : Nat) (v : α) : State α :=
  match b with
  | none => faulted s
  | some b =>
    if s.dlive b = true ∧ i < (s.ddata b).length then { s with ddata := upd s.ddata b ((s.ddata b).set i v) }
    else faulted s

/-- `push_back(a)`: `reallocate(_size+1); back() = a;` -/
def pushBack [Inhabited α] (s : State α) (h : Nat) (v : α) : State α :=
  let s := reallocate s h ((s.hs h).size + 1)
  if s.fault then s else
  let H := s.hs h
  if H.size = 0 then faulted s else writeCell s H.d (H.size - 1) v

/-- `if (i < size()) push_back((*this)[i])` (the guard is the harness's): the argument refers into the array itself.
    `push_back` copies it before the storage can move: `const T tmp(a); reallocate(_size+1); back() = tmp;` -/
def pushBackSelf [Inhabited α] (s : State α) (h i : Nat) : State α :=
  let H := s.hs h
  if i < H.size then
    match readCells s H.d (i + 1) with                  -- `T tmp(_d[i])`
    | none => faulted s
    | some l =>
      match l[i]? with
      | some v => pushBack s h v
      | none => faulted s
  else s

/-- `push_back` as it was before the repair, applied to its own cell `i`: `reallocate(_size+1); back() = a;`
    where the reference `a` still designates cell `i` of the block the handle had *before* `reallocate`. -/
def pushBackSelfOld [Inhabited α] (s : State α) (h i : Nat) : State α :=
  let H := s.hs h
  if i < H.size then
    let s1 := reallocate s h (H.size + 1)
    if s1.fault then s1 else
    match readCells s1 H.d (i + 1) with                 -- read through the stale reference
    | none => faulted s1                                -- the old block has been destroyed and released
    | some l =>
      match l[i]? with
      | some v => writeCell s1 (s1.hs h).d ((s1.hs h).size - 1) v
      | none => faulted s1
  else s

/-- `if (i < size()) write(i, v)` (the guard is the harness's) -/
def write (s : State α) (h i : Nat) (v : α) : State α :=
  let H := s.hs h
  if i < H.size then writeCell s H.d i v else s

/-- overwrite the first `l.length` cells of block `b` -/
def writeCells (s : State α) (b : Option Nat) (l : List α) : State α :=
  match b with
  | none => if l.isEmpty then s else faulted s
  | some b =>
    if l.isEmpty then s else
    if s.dlive b = true ∧ l.length ≤ (s.ddata b).length then
      { s with ddata := upd s.ddata b (l ++ (s.ddata b).drop l.length) }
    else faulted s

/-- `Array0<T>::copy(const Array0<T>& src)` (= `operator=`) -/
def copy [Inhabited α] (s : State α) (h g : Nat) : State α :=
  if (s.hs g).d = (s.hs h).d then s else                 -- `if (src._d == _d) return *this;`
  let s := reallocate s h (s.hs g).size
  if s.fault then s else
  match readCells s (s.hs g).d (s.hs h).size with        -- `baseThis[i] = baseP[i]`, i < _size
  | none => faulted s
  | some l => writeCells s (s.hs h).d l

/-- `Array0<T>::logcopy(const Array0<T>& src)` -/
def logcopy (s : State α) (h g : Nat) : State α :=
  if h = g then s else                                   -- `if (this == &src) return *this;`
  let s := destroy s h
  if s.fault then s else attachShare s h g

/-- `reserve(s)`: `reallocate(s); reallocate(0);` -/
def reserve [Inhabited α] (s : State α) (h sz : Nat) : State α :=
  let s := reallocate s h sz
  if s.fault then s else reallocate s h 0

inductive Op (α : Type) where
  | build (h sz : Nat) (t : α)
  | noCopy (h g : Nat)
  | withCopy (h g : Nat)
  | destroy (h : Nat)
  | allocate (h sz : Nat)
  | resize (h sz : Nat)
  | reserve (h sz : Nat)
  | pushBack (h : Nat) (v : α)
  | pushBackSelf (h i : Nat)
  | write (h i : Nat) (v : α)
  | copy (h g : Nat)
  | logcopy (h g : Nat)
  | assign (h g : Nat)
deriving Repr

def Op.handles : Op α → List Nat
  | .build h _ _ => [h] | .noCopy h g => [h, g] | .withCopy h g => [h, g] | .destroy h => [h]
  | .allocate h _ => [h] | .resize h _ => [h] | .reserve h _ => [h] | .pushBack h _ => [h] | .pushBackSelf h _ => [h] | .write h _ _ => [h]
  | .copy h g => [h, g] | .logcopy h g => [h, g] | .assign h g => [h, g]

/-- the operation proper -/
def stepCore [Inhabited α] (s : State α) : Op α → State α
  | .build h sz t => ctorBuild s h sz t
  | .noCopy h g => ctorNoCopy s h g
  | .withCopy h g => ctorWithCopy s h g
  | .destroy h => destroy s h
  | .allocate h sz => allocate s h sz
  | .resize h sz => reallocate s h sz
  | .reserve h sz => reserve s h sz
  | .pushBack h v => pushBack s h v
  | .pushBackSelf h i => pushBackSelf s h i
  | .write h i v => write s h i v
  | .copy h g => copy s h g
  | .logcopy h g => logcopy s h g
  | .assign h g => copy s h g

/-- one operation; operations naming a slot outside `[0, n)` and operations on a faulted state do nothing -/
def step [Inhabited α] (s : State α) (op : Op α) : State α :=
  if s.fault then s else
  if op.handles.any (fun h => decide (s.n ≤ h)) then s else stepCore s op

def run [Inhabited α] (s : State α) (ops : List (Op α)) : State α := ops.foldl step s

/-- logical contents of a handle: the first `_size` cells of its block -/
def contents (s : State α) (h : Nat) : List α :=
  match (s.hs h).d with
  | none => []
  | some b => (s.ddata b).take (s.hs h).size

/-- number of `k < n` with `p k` -/
def countBelow (p : Nat → Bool) : Nat → Nat
  | 0 => 0
  | k + 1 => countBelow p k + (if p k then 1 else 0)

/-- number of handles whose `_cnt` is the cell `c` -/
def sharers (s : State α) (c : Nat) : Nat := countBelow (fun h => (s.hs h).cnt == some c) s.n

/-- live blocks that no handle refers to (data blocks, counter cells) -/
def leaked (s : State α) : Nat :=
  countBelow (fun b => s.dlive b && !(List.range s.n).any (fun h => (s.hs h).d == some b && (s.hs h).psz != 0)) s.dnext +
  countBelow (fun c => s.clive c && !(List.range s.n).any (fun h => (s.hs h).cnt == some c)) s.cnext

end Givaro.Model.Array0
