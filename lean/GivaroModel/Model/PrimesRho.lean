/-
C12 — executable model of the rho search inside `IntFactorDom::Pollard(gen, g, n, threshold)` (givintfactor.inl) as a function of the
start values it draws (`this->random(gen, y, n)` = `mpz_urandomm(n)`, one draw per (re)try).  Brent's variant as written:
`m` counts the steps, `x` is reset to `y` each time `m+1` reaches the power of two `p`, `y ← y² + Pollard_cst mod n`,
`g = gcd(y - x, n)`.  `threshold = 0`: loop until `g ≠ 1`, and start again with a fresh `y` when `g = n`;  `threshold ≠ 0`: at most
`threshold - 1` steps over all retries.  The unbounded loop takes fuel (`none` = fuel or supplied starts exhausted).  Core Lean only.
-/
namespace Givaro.Model.Primes

/-- `Pollard_fctin(y, n)`: `mulin(x,x); addin(x,Pollard_cst); modin(x,n)` with `Pollard_cst = 1` -/
def pollardFct (y n : Int) : Int := (y * y + 1) % n

/-- `while(isOne(g)) { if (areEqual(p, addin(m,one))) { x=y; mulin(p,2); } Pollard_fctin(y,n); gcd(g,sub(t,y,x),n); }`
    state `(m, p, x, y)`; returns the first `g ≠ 1` -/
def rhoLoop0 (n : Int) : Nat → Int → Int → Int → Int → Option Int
  | 0, _, _, _, _ => none
  | fuel+1, m, p, x, y =>
    let m1 := m + 1
    let x1 := if p = m1 then y else x
    let p1 := if p = m1 then p * 2 else p
    let y1 := pollardFct y n
    let g := (Int.gcd (y1 - x1) n : Int)
    if g = 1 then rhoLoop0 n fuel m1 p1 x1 y1 else some g

/-- `threshold = 0`:  the loop, then `if (g == n) Pollard(gen, g, n, 0)` — a fresh start value per retry -/
def pollard0 (n : Int) (fuel : Nat) : List Int → Option Int
  | [] => none
  | y :: ys =>
    match rhoLoop0 n fuel 0 1 0 y with
    | none => none
    | some g => if g = n then pollard0 n fuel ys else some g

/-- `while( isOne(g) && (++c < threshold)) { … }`  state `(c, g, m, p, x, y)`; returns `(g, c)` -/
def rhoLoopT (n : Int) (threshold : Nat) : Nat → Nat → Int → Int → Int → Int → Int → Int × Nat
  | 0, c, g, _, _, _, _ => (g, c)
  | fuel+1, c, g, m, p, x, y =>
    if g = 1 then
      if c + 1 < threshold then
        let m1 := m + 1
        let x1 := if p = m1 then y else x
        let p1 := if p = m1 then p * 2 else p
        let y1 := pollardFct y n
        rhoLoopT n threshold fuel (c + 1) (Int.gcd (y1 - x1) n : Int) m1 p1 x1 y1
      else (g, c + 1)
    else (g, c)

/-- `threshold ≠ 0`: the loop, then `if ((g == n)&&(c<threshold)) Pollard(gen, g, n, threshold-c)` -/
def pollardT (n : Int) : List Int → Nat → Option Int
  | [], _ => none
  | y :: ys, threshold =>
    let r := rhoLoopT n threshold threshold 0 1 0 1 0 y
    if r.1 = n ∧ r.2 < threshold then pollardT n ys (threshold - r.2) else some r.1

/-- `Pollard(gen, g, n, threshold)` with the start values `ys` it draws -/
def pollardStarts (isp : Int → Bool) (fuel : Nat) (n : Int) (threshold : Nat) (ys : List Int) : Option Int :=
  if n < 3 then some n else
  if isp n then some n else
  if threshold = 0 then pollard0 n fuel ys else pollardT n ys threshold

end Givaro.Model.Primes
