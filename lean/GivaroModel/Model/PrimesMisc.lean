/-
C12 — executable model of `FermatDom` (givintprime.C) and of the Monte-Carlo tests' deterministic guards (givintprime.inl).
Core Lean only.
-/
import GivaroModel.Prim.Gmp
namespace Givaro.Model.Primes
open Givaro

/-- `FermatDom::fermat(f, n)`: `assign(f,one) <<= (1u << n); addin(f,1u)` — `1u << n` is an `unsigned int` shift (n < 32) -/
def fermat (n : Nat) : Nat := 1 * 2 ^ ((2 ^ n) % 4294967296) + 1

/-- `FermatDom::pepin(fn)` (private): `z = (fn-1)/2; y = 3^z mod fn; y -= fn; y = -y; return isOne(y)` -/
def pepinOf (fn : Nat) : Bool :=
  let z := (fn - 1) / 2
  let y := powModNat 3 z fn
  decide ((fn : Int) - (y : Int) = 1)

/-- `FermatDom::pepin(n)` as it was: Pépin's criterion with base 3 applied to every n, `F_0 = 3` included (kept for the
    counterexample) -/
def pepin_unfixed (n : Nat) : Bool := pepinOf (fermat n)

/-- `FermatDom::pepin(n)` with fixes/C12_7: `if (n == 0) return true;` (F_0 = 3 is prime; base 3 is not coprime to it) -/
def pepin (n : Nat) : Bool := if n = 0 then true else pepinOf (fermat n)

end Givaro.Model.Primes
