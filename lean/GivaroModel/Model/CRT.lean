/-
C14 — executable model of the CRT / residue-number-system code of givaro (core Lean only).

Mirrors, loop by loop,
  * `IntRNSsystem`            src/kernel/integer/givintrns.h, givintrns_cstor.inl, givintrns_convert.inl
  * `RNSsystem<RING,Domain>`  src/kernel/field/givrns.h, givrnscstor.inl, givrnsconvert.inl
  * `ChineseRemainder`        src/kernel/field/chineseremainder.h
  * `Poly1CRT<Field>`         src/library/poly1/givpoly1crt.h, givpoly1crtcstor.inl, givpoly1crtconvert.inl
`RNSsystemFixed` (givrnsfixed.inl) has no model of its own: its output is compared by the driver with the
specification checker and with the (proved) Garner conversion on the same primes and residues.

Conventions
  * `Integer` values are `Int`; `Integer::mod`/`modin` is `mpz_mod`, i.e. Lean's `%` on `Int` (result in `[0,|d|)`).
  * The Bezout cofactor returned by `mpz_gcdext` (used by `IntRNSsystem::ComputeCk`) and the inverse computed by
    `Domain::inv` are *not determined* beyond their contract, so every function that needs one takes the cofactor
    function `cof : Int → Int → Int` as a parameter (`cof p x` = the cofactor `v` of `x` in `u*p + v*x = gcd p x`);
    theorems quantify over every `cof` satisfying the contract, the driver runs `cofEuclid`.
  * Operations of a residue domain `Modular<T>(p)` on canonical elements are exact arithmetic mod `p`
    (that is property C03/C04); the model of `RNSsystem` writes them as `(…) % p`.
  * Loops are structural recursion over the prefix already processed (`acc`, most recent first) or `foldl`s that run
    in the order of the C++ loop.
-/
namespace Givaro.Model.CRT

/-! ### extended Euclid (one admissible instance of the `mpz_gcdext` / `inv` contract) -/

/-- `(g, u, v)` with `u*a + v*b = g` -/
def xgcdAux : Nat → Int → Int → Int × Int × Int
  | 0, a, _ => (a, 1, 0)
  | fuel + 1, a, b =>
    if b = 0 then (a, 1, 0)
    else
      let r := xgcdAux fuel b (a % b)
      (r.1, r.2.2, r.2.1 - (a / b) * r.2.2)

def xgcd (a b : Int) : Int × Int × Int := xgcdAux (b.natAbs + 1) a b

/-- cofactor of `x` in a Bezout relation for `(p, x)` -/
def cofEuclid (p x : Int) : Int := (xgcd p x).2.2

def prodList (ps : List Int) : Int := ps.foldl (· * ·) 1

/-! ### IntRNSsystem -/

/-- `ComputeCk` inner loop (givintrns_cstor.inl:86-88): `prod = p_0; for i in 1..k-1: modin(mulin(prod,p_i), p_k)`.
    For `k = 1` the product `p_0` is *not* reduced. -/
def intProdMod (pk : Int) : List Int → Int
  | [] => 1
  | p0 :: rest => rest.foldl (fun prod pi => (prod * pi) % pk) p0

/-- `ComputeCk` outer loop: `_ck[0] = 0`, `gcd(g,u,_ck[k],_primes[k],prod)` for `k ≥ 1`.  `pre` = primes before `k`. -/
def intCkGo (cof : Int → Int → Int) : List Int → List Int → List Int
  | _, [] => []
  | pre, p :: ps =>
    (match pre with
     | [] => 0
     | _ => cof p (intProdMod p pre)) :: intCkGo cof (pre ++ [p]) ps

def intComputeCk (cof : Int → Int → Int) (ps : List Int) : List Int := intCkGo cof [] ps

/-- Horner scheme of `RnsToMixedRadix` (givintrns_convert.inl:37-43): `tmp = mixrad[i-1];
    for j = i-2 … 0: modin(addin(mulin(tmp,p_j), mixrad[j]), p_i)`.
    `acc` = `[(p_{i-1}, m_{i-1}), …, (p_0, m_0)]`. For `i = 1` the value `mixrad[0]` is not reduced. -/
def intHorner (pi : Int) : List (Int × Int) → Int
  | [] => 0
  | (_, m) :: rest => rest.foldl (fun tmp (pm : Int × Int) => (tmp * pm.1 + pm.2) % pi) m

/-- the `i` loop of `RnsToMixedRadix`: `mixrad[0] = residu[0]`, then
    `mod(mixrad[i], mulin(sub(tmp, residu[i], tmp), _ck[i]), _primes[i])`. -/
def intGarnerGo : List (Int × Int) → List Int → List Int → List Int → List (Int × Int)
  | acc, p :: ps, c :: cs, r :: rs =>
    let m := match acc with
      | [] => r
      | _ => ((r - intHorner p acc) * c) % p
    intGarnerGo ((p, m) :: acc) ps cs rs
  | acc, _, _, _ => acc

def intRnsToMixedRadix (ps ck rs : List Int) : List Int :=
  ((intGarnerGo [] ps ck rs).reverse).map (·.2)

/-- `MixedRadixToRing`: `res = mixrad[size-1]; for i = size-2 … 0: addin(mulin(res,p_i), mixrad[i])`
    (identical loop in givintrns_convert.inl:66-73 and givrnsconvert.inl:70-80 with `RING = Integer`). -/
def mixedRadixToRing (ps ms : List Int) : Int :=
  match (ps.zip ms).reverse with
  | [] => 0
  | (_, m) :: rest => rest.foldl (fun res (pm : Int × Int) => res * pm.1 + pm.2) m

/-- `RingToRns`: `mod(rns[i], a, _primes[i])` -/
def ringToRns (ps : List Int) (a : Int) : List Int := ps.map (fun p => a % p)

/-- the object: `_primes`, `_prod`, `_ck` (the fast-conversion members are never used by any defined function) -/
structure IntSys where
  primes : List Int
  prod : Int
  ck : List Int
  deriving Repr, BEq, DecidableEq

namespace IntSys
/-- `IntRNSsystem(const array&)` and the template constructor: `_primes(inprimes), _prod(one), _ck(0)` -/
def ofPrimes (ps : List Int) : IntSys := ⟨ps, 1, []⟩
/-- default constructor -/
def empty : IntSys := ⟨[], 1, []⟩
/-- copy constructor (member-wise: `_primes(R._primes), _prod(R._prod), _ck(R._ck)`) -/
def copy (s : IntSys) : IntSys := ⟨s.primes, s.prod, s.ck⟩
/-- the copy constructor as it stood before fixes/C14_1.patch: `_ck(R._primes)` -/
def copyUnrepaired (s : IntSys) : IntSys := ⟨s.primes, s.prod, s.primes⟩
/-- implicit `operator=` : member-wise assignment of the three vectors/Integer -/
def assign (_dst src : IntSys) : IntSys := ⟨src.primes, src.prod, src.ck⟩
/-- `ComputeCk`: `if (_ck.size() != 0) return;` -/
def computeCk (cof : Int → Int → Int) (s : IntSys) : IntSys :=
  if s.ck.length != 0 then s else { s with ck := intComputeCk cof s.primes }
/-- `ComputeProd`: `if (isOne(_prod)) for pi: mulin(_prod, *pi)` -/
def computeProd (s : IntSys) : IntSys :=
  if s.prod = 1 then { s with prod := s.primes.foldl (· * ·) s.prod } else s
def rnsToMixedRadix (cof : Int → Int → Int) (s : IntSys) (rs : List Int) : IntSys × List Int :=
  let s' := s.computeCk cof
  (s', intRnsToMixedRadix s'.primes s'.ck rs)
def rnsToRing (cof : Int → Int → Int) (s : IntSys) (rs : List Int) : IntSys × Int :=
  let r := s.rnsToMixedRadix cof rs
  (r.1, mixedRadixToRing r.1.primes r.2)
def toRns (s : IntSys) (a : Int) : List Int := ringToRns s.primes a
def reciprocals (cof : Int → Int → Int) (s : IntSys) : IntSys × List Int :=
  let s' := s.computeCk cof
  (s', s'.ck)
def product (s : IntSys) : IntSys × Int :=
  let s' := s.computeProd
  (s', s'.prod)
end IntSys

/-! ### RNSsystem<RING, Domain> (RING = Integer, Domain = a modular ring with canonical elements) -/

/-- `ComputeCk` inner loop (givrnscstor.inl:69-71): `init(prod, p_0); for i in 1..k-1: mulin(prod, init(tmp, p_i))` in `Z/p_k` -/
def rnsProdMod (pk : Int) : List Int → Int
  | [] => 1 % pk
  | p0 :: rest => rest.foldl (fun prod pi => (prod * (pi % pk)) % pk) (p0 % pk)

/-- `_primes[k].inv(_ck[k], prod)`; `_ck[0]` is left undefined by the code (modelled as 0, never compared) -/
def rnsCkGo (cof : Int → Int → Int) : List Int → List Int → List Int
  | _, [] => []
  | pre, p :: ps =>
    (match pre with
     | [] => 0
     | _ => (cof p (rnsProdMod p pre)) % p) :: rnsCkGo cof (pre ++ [p]) ps

def rnsComputeCk (cof : Int → Int → Int) (ps : List Int) : List Int := rnsCkGo cof [] ps

/-- Horner scheme of `RNSsystem::RnsToMixedRadix` (givrnsconvert.inl:37-50): every step in `Z/p_i`:
    `init(tmp, convert(mixrad[i-1]))`, then `axpy(t2, tmp, init(p_j), init(convert(mixrad[j])))`. -/
def rnsHorner (pi : Int) : List (Int × Int) → Int
  | [] => 0
  | (_, m) :: rest => rest.foldl (fun tmp (pm : Int × Int) => (tmp * (pm.1 % pi) + (pm.2 % pi)) % pi) (m % pi)

/-- `assign(mixrad[0], residu[0])`, then `sub(t2, residu[i], tmp); mul(mixrad[i], t2, _ck[i])` in `Z/p_i` -/
def rnsGarnerGo : List (Int × Int) → List Int → List Int → List Int → List (Int × Int)
  | acc, p :: ps, c :: cs, r :: rs =>
    let m := match acc with
      | [] => r
      | _ => (((r - rnsHorner p acc) % p) * c) % p
    rnsGarnerGo ((p, m) :: acc) ps cs rs
  | acc, _, _, _ => acc

def rnsRnsToMixedRadix (ps ck rs : List Int) : List Int :=
  ((rnsGarnerGo [] ps ck rs).reverse).map (·.2)

/-- the object: `_primes` (domains, identified with their characteristics), `_ck` -/
structure RnsSys where
  primes : List Int
  ck : List Int
  deriving Repr, BEq, DecidableEq

namespace RnsSys
def empty : RnsSys := ⟨[], []⟩
def ofPrimes (ps : List Int) : RnsSys := ⟨ps, []⟩
/-- copy constructor: `_primes(R._primes, givWithCopy()), _ck(R._ck, givWithCopy())` -/
def copy (s : RnsSys) : RnsSys := ⟨s.primes, s.ck⟩
/-- implicit `operator=`: `Array0::operator=` is the physical `copy` (sizes follow the source) -/
def assign (_dst src : RnsSys) : RnsSys := ⟨src.primes, src.ck⟩
/-- `setPrimes`: `_primes.allocate(0); _primes.copy(inprimes); _ck.resize(0)` -/
def setPrimes (_s : RnsSys) (ps : List Int) : RnsSys := ⟨ps, []⟩
def computeCk (cof : Int → Int → Int) (s : RnsSys) : RnsSys :=
  if s.ck.length != 0 then s else { s with ck := rnsComputeCk cof s.primes }
def rnsToMixedRadix (cof : Int → Int → Int) (s : RnsSys) (rs : List Int) : RnsSys × List Int :=
  let s' := s.computeCk cof
  (s', rnsRnsToMixedRadix s'.primes s'.ck rs)
def rnsToRing (cof : Int → Int → Int) (s : RnsSys) (rs : List Int) : RnsSys × Int :=
  let r := s.rnsToMixedRadix cof rs
  (r.1, mixedRadixToRing r.1.primes r.2)
def toRns (s : RnsSys) (a : Int) : List Int := ringToRns s.primes a
def reciprocals (cof : Int → Int → Int) (s : RnsSys) : RnsSys × List Int :=
  let s' := s.computeCk cof
  (s', s'.ck)
end RnsSys

/-! ### ChineseRemainder<Ring, Domain, REDUCE> -/

/-- constructor: `invin(init(u, M)); convert(C_12, u); C_12 *= M` -/
def craInit (cof : Int → Int → Int) (M d : Int) : Int := ((cof d (M % d)) % d) * M
/-- `operator()` with `REDUCE = true`: `init(smallA, A); sub(smallM, e, smallA); convert(res, smallM); res *= C_12; res += A` -/
def craApply (c12 d A e : Int) : Int := ((e - A % d) % d) * c12 + A
/-- `operator()` with `REDUCE = false`: `convert(res, e); res -= A; res *= C_12; res += A` -/
def craApplyNoReduce (c12 A e : Int) : Int := (e - A) * c12 + A

/-! ### ChineseRemainder over a residue domain that does not store elements as their canonical integer
(`Montgomery<int32_t>`: `x·2^32 mod p`; `GFqDom<int32_t>` and `Modular<Log16>`: discrete logarithms) -/

/-- what the functor uses of its `Domain`: elements are opaque codes, reached only through `init`/`convert`/`sub`/`inv` -/
structure ResidueDom where
  d : Int                       -- characteristic
  init : Int → Int              -- `init(u, Integer)`
  convert : Int → Int           -- `convert(Integer&, u)`
  sub : Int → Int → Int         -- `sub(r, a, b)`
  inv : Int → Int               -- `invin(u)`

/-- constructor: `invin(init(u, M)); convert(C_12, u); C_12 *= M` -/
def craInitD (D : ResidueDom) (M : Int) : Int := D.convert (D.inv (D.init M)) * M
/-- `REDUCE = true`: `init(smallA, A); sub(smallM, e, smallA); convert(res, smallM); res *= C_12; res += A` (`e` is a domain element) -/
def craApplyD (D : ResidueDom) (c12 A e : Int) : Int := D.convert (D.sub e (D.init A)) * c12 + A
/-- `REDUCE = false`: `convert(res, e); res -= A; res *= C_12; res += A` -/
def craApplyNoReduceD (D : ResidueDom) (c12 A e : Int) : Int := (D.convert e - A) * c12 + A

/-- the canonical-storage domain (`Modular<T>`): codes are the residues themselves -/
def canonicalDom (cof : Int → Int → Int) (d : Int) : ResidueDom :=
  ⟨d, fun x => x % d, fun a => a % d, fun a b => (a - b) % d, fun a => (cof d (a % d)) % d⟩

/-- Montgomery storage with radix `R` (`Rinv·R ≡ 1 mod d`): the code of `x` is `x·R mod d` -/
def montgomeryDom (cof : Int → Int → Int) (d R Rinv : Int) : ResidueDom :=
  ⟨d, fun x => (x * R) % d, fun a => (a * Rinv) % d, fun a b => (a - b) % d,
   fun a => ((cof d ((a * Rinv) % d)) * R) % d⟩

/-! ### Poly1CRT<Field>: coefficient lists, low degree first, over `Z/p` -/

/-- `Poly1Dom::eval`: Horner from the leading coefficient, `axpy(tmp, res, val, P[i])` in the field -/
def polyEval (p : Int) (P : List Int) (x : Int) : Int :=
  P.foldr (fun c acc => (acc * x + c) % p) 0

/-- `mulin(prod, irred)` with `irred = X - a` (`irred[0] = -a`, `irred[1] = 1`) -/
def polyMulXSub (p : Int) (P : List Int) (a : Int) : List Int :=
  let sh := 0 :: P            -- X * P
  let sc := P ++ [0]          -- P (padded)
  (sh.zip sc).map (fun xy => (xy.1 - a * xy.2) % p)

/-- `mul(_ck[k], prod, invC)` -/
def polyScale (p : Int) (P : List Int) (s : Int) : List Int := P.map (fun c => (c * s) % p)

/-- `axpyin(I, addon, ck)`: coefficient-wise `I[i] += addon * ck[i]`, `I` extended when shorter -/
def polyAxpyin (p : Int) : List Int → Int → List Int → List Int
  | [], s, ys => ys.map (fun y => (s * y) % p)
  | xs, _, [] => xs
  | x :: xs, s, y :: ys => ((x + s * y) % p) :: polyAxpyin p xs s ys

/-- `ComputeCk`: `prod *= (X - a_{k-1}); invC = 1/eval(prod, a_k); _ck[k] = prod * invC` for `k = 1..Size-1`
    (entry 0 and entry `Size` are never read by the conversions). `prev` = point `a_{k-1}`. -/
def polyCkGo (cof : Int → Int → Int) (p : Int) : List Int → Int → List Int → List (List Int)
  | _, _, [] => []
  | prod, prev, a :: as =>
    let prod' := polyMulXSub p prod prev
    let invC := (cof p (polyEval p prod' a)) % p
    polyScale p prod' invC :: polyCkGo cof p prod' a as

def polyComputeCk (cof : Int → Int → Int) (p : Int) : List Int → List (List Int)
  | [] => []
  | a0 :: as => [] :: polyCkGo cof p [1 % p] a0 as

/-- `RnsToRing` loop: `addon = rns[i] - eval(I, a_i); axpyin(I, addon, _ck[i])` -/
def polyGarnerGo (p : Int) : List Int → List Int → List (List Int) → List Int → List Int
  | I, a :: as, c :: cs, r :: rs =>
    let addon := ((-(polyEval p I a)) % p + r) % p
    polyGarnerGo p (polyAxpyin p I addon c) as cs rs
  | I, _, _, _ => I

/-- `RnsToRing`: `assign(I, Degree(0), rns[0])`, then the loop from `i = 1` -/
def polyRnsToRing (p : Int) (as : List Int) (ck : List (List Int)) (rs : List Int) : List Int :=
  match as, ck, rs with
  | _ :: as', _ :: ck', r0 :: rs' => polyGarnerGo p [r0 % p] as' ck' rs'
  | _, _, _ => []

def polyRingToRns (p : Int) (as : List Int) (P : List Int) : List Int := as.map (polyEval p P)

/-- strip leading (high-degree) zero coefficients: the observable value of a polynomial -/
def polyNorm (P : List Int) : List Int :=
  (P.reverse.dropWhile (· == 0)).reverse

structure PolySys where
  p : Int
  points : List Int
  ck : List (List Int)
  deriving Repr, BEq

namespace PolySys
def ofPoints (p : Int) (as : List Int) : PolySys := ⟨p, as, []⟩
/-- copy constructor: every member from the same member -/
def copy (s : PolySys) : PolySys := ⟨s.p, s.points, s.ck⟩
def computeCk (cof : Int → Int → Int) (s : PolySys) : PolySys :=
  if s.ck.length != 0 then s else { s with ck := polyComputeCk cof s.p s.points }
def rnsToRing (cof : Int → Int → Int) (s : PolySys) (rs : List Int) : PolySys × List Int :=
  let s' := s.computeCk cof
  (s', polyRnsToRing s'.p s'.points s'.ck rs)
def toRns (s : PolySys) (P : List Int) : List Int := polyRingToRns s.p s.points P
end PolySys

/-! ### RNSsystemFixed<Ints> (givrnsfixed.inl): the table of the constructor, `RnsToRingLeft/Right`, the final Garner step -/

/-- the two last entries `p0, p1` of a level are combined: `prod = p0*p1` goes one level up, and the slot of `p1` is overwritten
    by `inv(p1, p0, p1) *= p0`, i.e. `(p0^{-1} mod p1) * p0` (`mpz_invert`: the canonical inverse).  Returns (new level, prod). -/
def fixedPairLast (cof : Int → Int → Int) (lev : List Int) : List Int × Int :=
  match lev.reverse with
  | p1 :: p0 :: rest => (rest.reverse ++ [p0, ((cof p1 (p0 % p1)) % p1) * p0], p0 * p1)
  | _ => (lev, 0)

/-- `for (i = 1; i < _primes.size(); ++i)` after a `push_back` on level 0: `cur` is level `i-1` (already updated), the second argument
    the levels `i, i+1, …`; `if (s & 1) break;` -/
def fixedLoop (cof : Int → Int → Int) : List Int → List (List Int) → List (List Int)
  | cur, [] => [cur]
  | cur, next :: rest =>
    if cur.length % 2 = 1 then cur :: next :: rest
    else (fixedPairLast cof cur).1 :: fixedLoop cof (next ++ [(fixedPairLast cof cur).2]) rest

/-- `if (! (_primes.back().size() & 1))`: the top level became even, a new level is opened -/
def fixedClose (cof : Int → Int → Int) (levels : List (List Int)) : List (List Int) :=
  match levels.reverse with
  | [] => []
  | top :: below =>
    if top.length % 2 = 1 then levels
    else below.reverse ++ [(fixedPairLast cof top).1, [(fixedPairLast cof top).2]]

/-- one iteration of the constructor's loop over `inprimes` -/
def fixedPush (cof : Int → Int → Int) (levels : List (List Int)) (p : Int) : List (List Int) :=
  match levels with
  | [] => []
  | l0 :: rest => fixedClose cof (fixedLoop cof (l0 ++ [p]) rest)

/-- the table `_primes` after the constructor (`_primes.resize(1)` first) -/
def fixedBuild (cof : Int → Int → Int) (ps : List Int) : List (List Int) := ps.foldl (fixedPush cof) [[]]

/-- `RnsToRingLeft` (`reduce = true`: ends with `Integer::modin(I, _primes[level][col])`, i.e. `mpz_mod`) and `RnsToRingRight`
    (`reduce = false`): `u0 = Left(level-1, 2col); I = Right(level-1, 2col+1); I -= u0; I *= _primes[level-1][2col+1]; I += u0` -/
def fixedRec (tree : List (List Int)) (rs : List Int) (reduce : Bool) : Nat → Nat → Int
  | 0, col => rs.getD col 0
  | level + 1, col =>
    let u0 := fixedRec tree rs true level (2 * col)
    let u1 := fixedRec tree rs false level (2 * col + 1)
    let v := (u1 - u0) * ((tree.getD level []).getD (2 * col + 1) 0) + u0
    if reduce then v % ((tree.getD (level + 1) []).getD col 0) else v

/-- the loops `for (i = _primes.size(); i--;) if (_primes[i].size() & 1) …` of the constructor (`Mods[--numodd] = _primes[i].back()`)
    and of `RnsToRing` (`RnsToRingLeft(Reds[--ir], rns, i, --is)`): the levels of odd size contribute their last column; the arrays are
    filled from the end while `i` runs downwards, so index 0 is the lowest odd level.  `i` = index of the first level of `levels`. -/
def fixedOddFrom : Nat → List (List Int) → List (Nat × Nat)
  | _, [] => []
  | i, lev :: rest => (if lev.length % 2 = 1 then [(i, lev.length - 1)] else []) ++ fixedOddFrom (i + 1) rest

def fixedMods (tree : List (List Int)) : List Int :=
  (fixedOddFrom 0 tree).map (fun ic => (tree.getD ic.1 []).getD ic.2 0)

def fixedReds (tree : List (List Int)) (rs : List Int) : List Int :=
  (fixedOddFrom 0 tree).map (fun ic => fixedRec tree rs true ic.1 ic.2)

/-- the object: the table and the inner `RNSsystem<Ints, Modular<Ints>>` (`_RNS.setPrimes(Mods)` in the constructor) -/
structure FixedSys where
  tree : List (List Int)
  rns : RnsSys
  deriving Repr, BEq

namespace FixedSys
def ofPrimes (cof : Int → Int → Int) (ps : List Int) : FixedSys :=
  let t := fixedBuild cof ps
  ⟨t, RnsSys.setPrimes RnsSys.empty (fixedMods t)⟩
def empty : FixedSys := ⟨[], RnsSys.empty⟩
/-- copy constructor `_primes(R._primes), _RNS(R._RNS)` and the implicit assignment -/
def copy (s : FixedSys) : FixedSys := ⟨s.tree, s.rns.copy⟩
def assign (dst src : FixedSys) : FixedSys := ⟨src.tree, RnsSys.assign dst.rns src.rns⟩
/-- `RnsToRing`: the reductions of the odd levels, then `_RNS.RnsToRing(I, Reds)` -/
def rnsToRing (cof : Int → Int → Int) (s : FixedSys) (rs : List Int) : FixedSys × Int :=
  let r := s.rns.rnsToRing cof (fixedReds s.tree rs)
  (⟨s.tree, r.1⟩, r.2)
/-- `size()` returns `_primes.size()`: the number of *levels* of the table -/
def size (s : FixedSys) : Nat := s.tree.length
/-- `ith(i)` returns `_primes.front()[i]`: for an odd `i` that has been paired this is the recombination constant, not the modulus -/
def ith (s : FixedSys) (i : Nat) : Int := (s.tree.getD 0 []).getD i 0
end FixedSys

/-! ### several objects, interleaved operations (operation lists of any length) -/

/-- one operation of a program that manipulates any number of `IntRNSsystem` objects (slots are object names) -/
inductive IntOp
  | construct (s : Nat) (ps : List Int)       -- slot s := IntRNSsystem(ps)             (either constructor)
  | default (s : Nat)                         -- slot s := IntRNSsystem()
  | copyConstruct (s t : Nat)                 -- slot s := IntRNSsystem(slot t)
  | assign (s t : Nat)                        -- slot s = slot t                         (s = t allowed)
  | toRing (s : Nat) (rs : List Int)          -- RnsToRing / RnsToMixedRadix on slot s   (fills `_ck`)
  | reciprocals (s : Nat)                     -- Reciprocals() / reciprocal(i)
  | product (s : Nat)                         -- product()                               (fills `_prod`)
  | toRns (s : Nat) (a : Int)                 -- RingToRns                               (no state change)

abbrev IntEnv := Nat → IntSys

def IntEnv.init : IntEnv := fun _ => IntSys.empty
def IntEnv.set (e : IntEnv) (s : Nat) (v : IntSys) : IntEnv := fun i => if i = s then v else e i

def intStep (cof : Int → Int → Int) (e : IntEnv) : IntOp → IntEnv
  | .construct s ps => e.set s (IntSys.ofPrimes ps)
  | .default s => e.set s IntSys.empty
  | .copyConstruct s t => e.set s (e t).copy
  | .assign s t => e.set s (IntSys.assign (e s) (e t))
  | .toRing s rs => e.set s ((e s).rnsToRing cof rs).1
  | .reciprocals s => e.set s ((e s).reciprocals cof).1
  | .product s => e.set s (e s).product.1
  | .toRns _ _ => e

def intRun (cof : Int → Int → Int) (e : IntEnv) (ops : List IntOp) : IntEnv := ops.foldl (intStep cof) e

/-- the cache-free reading of a program: which moduli list each object holds -/
def intPrimesStep (e : Nat → List Int) : IntOp → (Nat → List Int)
  | .construct s ps => fun i => if i = s then ps else e i
  | .default s => fun i => if i = s then [] else e i
  | .copyConstruct s t => fun i => if i = s then e t else e i
  | .assign s t => fun i => if i = s then e t else e i
  | _ => e

def intPrimesRun (e : Nat → List Int) (ops : List IntOp) : Nat → List Int := ops.foldl intPrimesStep e

/-- the same for `RNSsystem<RING,Domain>` objects (which also have `setPrimes`) -/
inductive RnsOp
  | construct (s : Nat) (ps : List Int)
  | default (s : Nat)
  | copyConstruct (s t : Nat)
  | assign (s t : Nat)
  | setPrimes (s : Nat) (ps : List Int)
  | toRing (s : Nat) (rs : List Int)
  | reciprocals (s : Nat)
  | toRns (s : Nat) (a : Int)

abbrev RnsEnv := Nat → RnsSys

def RnsEnv.init : RnsEnv := fun _ => RnsSys.empty
def RnsEnv.set (e : RnsEnv) (s : Nat) (v : RnsSys) : RnsEnv := fun i => if i = s then v else e i

def rnsStep (cof : Int → Int → Int) (e : RnsEnv) : RnsOp → RnsEnv
  | .construct s ps => e.set s (RnsSys.ofPrimes ps)
  | .default s => e.set s RnsSys.empty
  | .copyConstruct s t => e.set s (e t).copy
  | .assign s t => e.set s (RnsSys.assign (e s) (e t))
  | .setPrimes s ps => e.set s ((e s).setPrimes ps)
  | .toRing s rs => e.set s ((e s).rnsToRing cof rs).1
  | .reciprocals s => e.set s ((e s).reciprocals cof).1
  | .toRns _ _ => e

def rnsRun (cof : Int → Int → Int) (e : RnsEnv) (ops : List RnsOp) : RnsEnv := ops.foldl (rnsStep cof) e

def rnsPrimesStep (e : Nat → List Int) : RnsOp → (Nat → List Int)
  | .construct s ps => fun i => if i = s then ps else e i
  | .default s => fun i => if i = s then [] else e i
  | .copyConstruct s t => fun i => if i = s then e t else e i
  | .assign s t => fun i => if i = s then e t else e i
  | .setPrimes s ps => fun i => if i = s then ps else e i
  | _ => e

def rnsPrimesRun (e : Nat → List Int) (ops : List RnsOp) : Nat → List Int := ops.foldl rnsPrimesStep e

end Givaro.Model.CRT
