/-
C12 — the container-output functions of `IntFactorDom` called on a container that is *not* empty (givintfactor.inl).
`divisors(L, Lf, Le)` builds its result in a local list and ends with `return L = Res;`: the previous content of `L` is
dropped (also when `L` is the list of factors itself).  `set(Lf, Lo, n, loops)`, `set(Lf, n)` (and `Erathostene`, `write`)
`push_back` every factor: what the containers held stays in front, untouched.  Core Lean only.
-/
import GivaroModel.Model.PrimesFactor
namespace Givaro.Model.Primes
open Givaro

/-- `divisors(L, Lf, Le)` when `L` holds `old` on entry: `Container Res(1,Rep(1)); …; return L = Res;` -/
def divisorsInto (_old : List Nat) (fs : List (Nat × Nat)) : List Nat :=
  let res : List Nat := [1]
  fs.foldl divisorsStep res

/-- `set(Lf, Lo, n)` when `(Lf, Lo)` hold the pairs `old` on entry: the loop of `set` pushing onto them -/
def setInto (pf : Nat → Nat) (old : List (Nat × Nat)) (n : Int) : Option (List (Nat × Nat) × Bool) :=
  setLoop pf (n.natAbs + 1) n.natAbs old.reverse true

/-- `set(Lf, n)` when `Lf` holds `old` on entry -/
def set1Into (pf : Nat → Nat) (old : List Nat) (n : Int) : Option (List Nat) :=
  set1Loop pf (n.natAbs + 1) n.natAbs old.reverse

end Givaro.Model.Primes
