/-
C05 — model of the polynomial-quotient extension `Extension<BaseField>` (src/kernel/field/extension.h:230-330).

Every member function is a short composition of `Poly1Dom` calls on the stored irreducible polynomial `_irred`; the
compositions are transcribed literally below over an abstract record `PolyOps` of the `Poly1Dom` operations used
(`_pD.add`, `_pD.mul`, `_pD.modin`, `_pD.invmod`, …).  What those operations compute is C08's subject: the theorems of
`Lemmas/GFqExtension.lean` take their laws (`PolyLaws`) as the contract.  A reference to `r` that is written and then read
becomes a `let`.  Core Lean only: linked into the driver, where `PolyOps` is instantiated with coefficient-list arithmetic
over the base field's p-adic codes (`Spec/GFqExtSpec.lean`).
-/
namespace Givaro.Model.GFqExtension

/-- the `Poly1Dom` operations `Extension` calls, by value (`modin r f` is `r mod f`, `invmod a f` the inverse of `a` modulo `f`,
    `maxpy a b c = c - a*b`) -/
structure PolyOps (E : Type) where
  add : E → E → E
  sub : E → E → E
  neg : E → E
  mul : E → E → E
  modin : E → E → E
  invmod : E → E → E
  maxpy : E → E → E → E

/-- an `Extension` object: the polynomial domain `_pD` and the stored modulus `_irred` -/
structure Ext (E : Type) where
  pD : PolyOps E
  irred : E

namespace Ext
variable {E : Type} (X : Ext E)

/-- `add(r,a,b) = _pD.add(r,a,b)` -/
def add (a b : E) : E := X.pD.add a b
/-- `sub(r,a,b) = _pD.sub(r,a,b)` -/
def sub (a b : E) : E := X.pD.sub a b
/-- `neg(r,a) = _pD.neg(r,a)` -/
def neg (a : E) : E := X.pD.neg a
/-- `mul(r,a,b) = _pD.modin(_pD.mul(r,a,b), _irred)` -/
def mul (a b : E) : E := X.pD.modin (X.pD.mul a b) X.irred
/-- `inv(r,a) = _pD.invmod(r,a,_irred)` -/
def inv (a : E) : E := X.pD.invmod a X.irred
/-- `div(r,a,b) : PolElement ib; inv(ib,b); return mul(r,a,ib)` -/
def div (a b : E) : E := let ib := X.inv b; X.mul a ib
/-- `axpy(r,a,b,c) : PolElement ab; mul(ab,a,b); return add(r,ab,c)` -/
def axpy (a b c : E) : E := let ab := X.mul a b; X.add ab c
/-- `maxpy(r,a,b,c) = _pD.modin(_pD.maxpy(r,a,b,c), _irred)` -/
def maxpy (a b c : E) : E := X.pD.modin (X.pD.maxpy a b c) X.irred
/-- `maxpyin(r,a,b) = _pD.modin(_pD.maxpyin(r,a,b), _irred)` (`r - a*b`) -/
def maxpyin (r a b : E) : E := X.pD.modin (X.pD.maxpy a b r) X.irred
/-- `axmy(r,a,b,c) = subin(mul(r,a,b), c)` -/
def axmy (a b c : E) : E := let r := X.mul a b; X.pD.sub r c
/-- `axmyin(r,a,b) : maxpyin(r,a,b); return negin(r)` -/
def axmyin (r a b : E) : E := X.pD.neg (X.maxpyin r a b)
def addin (r b : E) : E := X.pD.add r b
def subin (r b : E) : E := X.pD.sub r b
def negin (r : E) : E := X.pD.neg r
/-- `mulin(r,b) = _pD.modin(_pD.mulin(r,b), _irred)` -/
def mulin (r b : E) : E := X.pD.modin (X.pD.mul r b) X.irred
/-- `invin(r) : a(r); _pD.invmod(r,a,_irred)` -/
def invin (r : E) : E := X.pD.invmod r X.irred
/-- `divin(r,b) : inv(tmp,b); _pD.modin(_pD.mulin(r,tmp), _irred)` -/
def divin (r b : E) : E := let tmp := X.inv b; X.pD.modin (X.pD.mul r tmp) X.irred
/-- `axpyin(r,b,c) : _pD.mul(tmp,b,c); _pD.modin(_pD.addin(r,tmp), _irred)` -/
def axpyin (r b c : E) : E := let tmp := X.pD.mul b c; X.pD.modin (X.pD.add r tmp) X.irred
end Ext


/-! ### what an extension reports about itself (extension.h:140-150)

    Extension(const BaseField_t& bF, ex) : _characteristic(bF.characteristic()), _extension_order(ex),
        _exponent(ex * Exponent_Trait(bF)), _cardinality(pow(bF.cardinality(), ex))

`Exponent_Trait(bF)` is `bF.exponent()` for every field that has one (repair C05_5; on the pinned tree only for
`GFqDom<int64_t>` and `Extension<…>`, 1 for every other base — `extMetaPinned`). -/

/-- `cardinality()`, `characteristic()`, `exponent()` of a field object -/
structure FieldMeta where
  card : Nat
  char : Nat
  expo : Nat
deriving Repr, BEq

/-- the meta data of `Extension(bF, ex)` and its `order()` -/
def extMeta (b : FieldMeta) (ex : Nat) : FieldMeta × Nat :=
  ({ card := b.card ^ ex, char := b.char, expo := ex * b.expo }, ex)

/-- pinned tree, base field of a type the trait was not specialised for: `Exponent_Trait(bF) = 1` -/
def extMetaPinned (b : FieldMeta) (ex : Nat) : FieldMeta × Nat :=
  ({ card := b.card ^ ex, char := b.char, expo := ex * 1 }, ex)

end Givaro.Model.GFqExtension
