/-
C20 — executable model of the random generators of givaro (core Lean only; linked into the driver).

Mirrors, branch by branch:
  * `GivRandom`                       src/kernel/system/givrandom.h
  * `Integer::random*`                src/kernel/gmp++/gmp++_int_rand.inl   (on an abstract raw generator = GMP's)
  * `RandomIntegerIterator`           src/kernel/integer/random-integer.h
  * `Modular<integral>::random…`      src/kernel/ring/modular-integral.h (+ `init(Element&, uint64_t)` of modular-integral.inl)
  * `ModularRandIter`, `GIV_randIter`, `GeneralRingRandIter`, `GeneralRingNonZeroRandIter`   src/kernel/system/givranditer.h
  * `GFqDom::random/nonzerorandom`    src/kernel/field/gfq.inl
  * `Poly1Dom::random` of a degree    src/library/poly1/givpoly1misc.inl
  * `RecInt::rand` (ruint, rint, rmint) and everything that has a destination: Model/RandomDest.lean

Machine words are `Int` with explicit `wrap…` where the C++ converts (Prim/Word.lean).  Loops that wait for a
non-zero draw take fuel.  GMP's generator and `std::mt19937_64` are *abstract*: the theorems of Props/C20.lean hold
for every generator satisfying the documented contract (`get_z_bits n ∈ [0, 2^n)`, `get_z_range m ∈ [0, m)`, words in
`[0, 2^64)`); the driver instantiates the generator with the raw draws recorded by the harness.
-/
import GivaroModel.Prim.Word
namespace Givaro.Model.Random
open Givaro

/-! ## GivRandom -/

/-- `_GIVRAN_MULTIPLYER_` -/
def givMul : Int := 950706376
/-- `_GIVRAN_MODULO_` = 2^31 - 1 = `max_rand()` -/
def givMod : Int := 2147483647

/-- `GivRandom(s)` for a non-zero `s` (a zero seed is replaced by the clock: not reproducible, outside the property):
    `_seed = 1 + (_seed - 1) % (_GIVRAN_MODULO_ - 1)` in `uint64_t`. -/
def givInit (s : Int) : Int := wrapU64 (1 + wrapU64 (s - 1) % (givMod - 1))

/-- `operator()`: `_seed = (uint64_t)((int64_t)_GIVRAN_MULTIPLYER_ * (int64_t)_seed % (int64_t)_GIVRAN_MODULO_)`;
    the signed product is given its two's-complement meaning (DESIGN §3.1), `%` truncates.  The new state is the value returned. -/
def givNext (s : Int) : Int := wrapU64 (Int.tmod (wrapS64 (givMul * wrapS64 s)) givMod)

/-- state after `n` draws -/
def givIter : Nat → Int → Int
  | 0, s => s
  | n+1, s => givIter n (givNext s)

/-- the first `n` values returned from state `s` -/
def givDraws : Nat → Int → List Int
  | 0, _ => []
  | n+1, s => givNext s :: givDraws n (givNext s)

/-- summary of a long run (what `givlong` of the harness prints): last, sum mod 2^64, max, min -/
structure GivSummary where
  last : Int
  sum : Int
  max : Int
  min : Int
deriving DecidableEq, Repr

def givSummaryGo : Nat → Int → GivSummary → GivSummary
  | 0, _, acc => acc
  | n+1, s, acc =>
    let x := givNext s
    givSummaryGo n x ⟨x, wrapU64 (acc.sum + x), if x > acc.max then x else acc.max, if x < acc.min then x else acc.min⟩

def givSummary (n : Nat) (s : Int) : GivSummary := givSummaryGo n s ⟨0, 0, 0, 18446744073709551615⟩

/-! ## Integer::random* on an abstract raw generator -/

/-- the two entry points of `gmp_randclass` the library uses; `σ` is the hidden generator state -/
structure RawGen (σ : Type) where
  /-- `get_z_bits(n)` (mpz_urandomb) -/
  bits : σ → Nat → Int × σ
  /-- `get_z_range(m)` (mpz_urandomm) -/
  range : σ → Int → Int × σ

/-- GMP's documented contract (manual §9.1): `mpz_urandomb` is in `[0, 2^n - 1]`, `mpz_urandomm` in `[0, m - 1]` -/
def RawGen.Lawful {σ : Type} (G : RawGen σ) : Prop :=
  (∀ s n, 0 ≤ (G.bits s n).1 ∧ (G.bits s n).1 < 2 ^ n) ∧
  (∀ s m, 0 < m → 0 ≤ (G.range s m).1 ∧ (G.range s m).1 < m)

section Int
variable {σ : Type} (G : RawGen σ)

/-- `Integer::RandBool()`: `Integer::random(1U)` is a 1-bit draw -/
def randBool (st : σ) : Bool × σ := ((G.bits st 1).1 != 0, (G.bits st 1).2)

/-- the common tail `if(!ALWAYSPOSITIVE) if (Integer::RandBool()) Integer::negin(r);` -/
def signTail (ap : Bool) (r : Int) (st : σ) : Int × σ :=
  if ap then (r, st) else (if (randBool G st).1 then -r else r, (randBool G st).2)

/-- `random_lessthan<AP>(r, const Integer& m)` -/
def lessthan (ap : Bool) (m : Int) (st : σ) : Int × σ :=
  signTail G ap (G.range st m).1 (G.range st m).2

/-- `random_lessthan_2exp<AP>(r, const uint64_t& m)` (= `random_lessthan<AP>(r, const uint64_t&)`, `random<AP,T>(r, word)`) -/
def lessthan2exp (ap : Bool) (n : Nat) (st : σ) : Int × σ :=
  signTail G ap (G.bits st n).1 (G.bits st n).2

/-- `m - 1_ui64` on a `uint64_t` bit count -/
def pred64 (m : Nat) : Nat := (m + 18446744073709551615) % 18446744073709551616

/-- `mpz_setbit(r, k)` (two's complement for negative `r`) -/
def setbit (r : Int) (k : Nat) : Int := ilor r (2 ^ k)

/-- `random_exact_2exp<AP>(r, const uint64_t& m)`; `r0` is the content of `r` before the call (kept when `m = 0`) -/
def exact2exp (ap : Bool) (m : Nat) (r0 : Int) (st : σ) : Int × σ :=
  let d : Int × σ := if m ≠ 0 then lessthan2exp G true (pred64 m) st else (r0, st)
  signTail G ap (setbit d.1 (pred64 m)) d.2

/-- `Integer::bitsize()`: `mpz_sizeinbase(x, 2)` (1 for 0; the sign is ignored) -/
def bitsize (x : Int) : Nat := if x = 0 then 1 else Nat.log2 x.natAbs + 1

/-- `random_exact<AP>(r, const Integer& s)` -/
def exactI (ap : Bool) (s : Int) (r0 : Int) (st : σ) : Int × σ := exact2exp G ap (bitsize s) r0 st

/-- `random_between(r, const Integer& m, const Integer& M)`: `random_lessthan(r, Integer(M-m)); r += m` -/
def between (lo hi : Int) (st : σ) : Int × σ :=
  ((lessthan G true (hi - lo) st).1 + lo, (lessthan G true (hi - lo) st).2)

/-- `nonzerorandom<AP,T>(r, word)`: `while (isZero(random<AP,T>(r, size))) {}` -/
def nonzeroW (ap : Bool) (n : Nat) : Nat → σ → Option (Int × σ)
  | 0, _ => none
  | f+1, st =>
    if (lessthan2exp G ap n st).1 = 0 then nonzeroW ap n f (lessthan2exp G ap n st).2
    else some (lessthan2exp G ap n st)

/-- `nonzerorandom<AP,Integer>(r, m)` -/
def nonzeroI (ap : Bool) (m : Int) : Nat → σ → Option (Int × σ)
  | 0, _ => none
  | f+1, st =>
    if (lessthan G ap m st).1 = 0 then nonzeroI ap m f (lessthan G ap m st).2
    else some (lessthan G ap m st)

/-- `random_between_2exp(r, m, M)`: `r = nonzerorandom((uint64_t)M-m); r1 = random_lessthan_2exp(m); r <<= m; r += r1` -/
def between2exp (m M : Nat) (fuel : Nat) (st : σ) : Option (Int × σ) :=
  match nonzeroW G true ((M + 18446744073709551616 - m) % 18446744073709551616) fuel st with
  | none => none
  | some rs => some (rs.1 * 2 ^ m + (lessthan2exp G true m rs.2).1, (lessthan2exp G true m rs.2).2)

/-- `Integer::random<AP>()`: `rez = Integer::random(sizeof(mp_limb_t)*8); if (!AP) if (RandBool()) negin(rez)` -/
def random0 (ap : Bool) (st : σ) : Int × σ := signTail G ap (G.bits st 64).1 (G.bits st 64).2

end Int

/-! ## Modular<integral> (modular-integral.h/.inl) and the iterators of givranditer.h -/

/-- conversion to the storage type (`Caster<Element>` = `static_cast`) -/
def castSt (bits : Nat) (sgn : Bool) (x : Int) : Int :=
  if sgn then (x + 2 ^ (bits - 1)) % 2 ^ bits - 2 ^ (bits - 1) else x % 2 ^ bits

/-- `Modular<Storage_t>::init(Element& x, uint64_t y)` — the overload chosen for the value type of `GivRandom`:
    * `sizeof(uint64_t) > sizeof(Storage_t)`:  `x = Caster<Element>(y % Source(_p))`
    * `int64_t`:  `reduce(Caster<Element>(x, y))`, i.e. `x = (int64_t)y; x %= p; if (x < 0) x += p`
    * `uint64_t`: `reduce(x, Caster<Element>(y))`, i.e. `x = y % p` -/
def initU64 (bits : Nat) (sgn : Bool) (p y : Int) : Int :=
  if bits < 64 then castSt bits sgn (y % p)
  else if sgn then
    (if Int.tmod (wrapS64 y) p < 0 then castSt bits sgn (Int.tmod (wrapS64 y) p + p) else Int.tmod (wrapS64 y) p)
  else y % p

/-- `random(g, r)`: `init(r, g())`; returns (element, new generator state) -/
def modRandom (bits : Nat) (sgn : Bool) (p : Int) (g : Int) : Int × Int :=
  (initU64 bits sgn p (givNext g), givNext g)

/-- `random(g, r, size)`: `init(r, g() % size)` (`uint64_t % Residu_t`, computed in `uint64_t`) -/
def modRandomSz (bits : Nat) (sgn : Bool) (p size : Int) (g : Int) : Int × Int :=
  (initU64 bits sgn p (givNext g % size), givNext g)

/-- `nonzerorandom(g, a)`: `while (isZero(init(a, g()))) ;` -/
def modNonzero (bits : Nat) (sgn : Bool) (p : Int) : Nat → Int → Option (Int × Int)
  | 0, _ => none
  | f+1, g =>
    if (modRandom bits sgn p g).1 = 0 then modNonzero bits sgn p f (modRandom bits sgn p g).2
    else some (modRandom bits sgn p g)

/-- `nonzerorandom(g, a, size)` -/
def modNonzeroSz (bits : Nat) (sgn : Bool) (p size : Int) : Nat → Int → Option (Int × Int)
  | 0, _ => none
  | f+1, g =>
    if (modRandomSz bits sgn p size g).1 = 0 then modNonzeroSz bits sgn p size f (modRandomSz bits sgn p size g).2
    else some (modRandomSz bits sgn p size g)

/-- `GIV_randIter::sampleSize(F, size)`: zero, or more than the cardinality of a finite ring, means the entire ring:
    `card = std::max(F.cardinality(), 1); return (size && (F.cardinality() < 1 || size < card)) ? size : card` -/
def sampleSize (card size : Int) : Int :=
  if size ≠ 0 ∧ (card < 1 ∨ size < (if card < 1 then 1 else card)) then size else (if card < 1 then 1 else card)

/-- which draw an iterator / member function makes (the `fn` column of the harness):
    0 `ModularRandIter`, 1 `GIV_randIter(F, seed, size)`, 2 `GeneralRingRandIter(F, seed, size)`,
    3 `GeneralRingNonZeroRandIter` over `ModularRandIter`, 4 `random(g,r)`, 5 `nonzerorandom(g,r)`,
    6 `random(g,r,size)`, 7 `nonzerorandom(g,r,size)` -/
def modStep (bits : Nat) (sgn : Bool) (p : Int) (fn : Nat) (size : Int) (fuel : Nat) (g : Int) : Option (Int × Int) :=
  match fn with
  | 0 => some (modRandom bits sgn p g)
  | 1 => some (modRandomSz bits sgn p (sampleSize p size) g)
  | 2 => some (modRandomSz bits sgn p (if size ≠ 0 then size else p) g)                            -- `_size ? g() % _size : g()` with `_size = size ? size : cardinality()`
  | 3 => modNonzero bits sgn p fuel g                                                             -- `do _r.random(a); while (isZero(a))`
  | 4 => some (modRandom bits sgn p g)
  | 5 => modNonzero bits sgn p fuel g
  | 6 => some (modRandomSz bits sgn p size g)
  | 7 => modNonzeroSz bits sgn p size fuel g
  | _ => none

/-! ## GFqDom (gfq.inl) -/

/-- `random(g, a, s)`: `a = Rep((UTT)(g()) % s); return a = (a<0 ? a+(Rep)_q : a)`; `bits` = width of `Rep`/`UTT` -/
def gfqRandom (bits : Nat) (q s : Int) (g : Int) : Int × Int :=
  let a := castSt bits true ((givNext g % 2 ^ bits) % s)
  (if a < 0 then castSt bits true (a + castSt bits true q) else a, givNext g)

/-- `nonzerorandom(g, a, s)`: `a = Rep(((UTT)(g()) % (s-1)) + 1); return a = (a<0 ? a+(Rep)_q : a)` -/
def gfqNonzero (bits : Nat) (q s : Int) (g : Int) : Int × Int :=
  let a := castSt bits true (((givNext g % 2 ^ bits) % ((s - 1) % 2 ^ bits) + 1) % 2 ^ bits)
  (if a < 0 then castSt bits true (a + castSt bits true q) else a, givNext g)

/-- fn as for `modStep` (`GFqDom::RandIter` is `GIV_randIter`; `random(g,r)` is `random(g,r,_q)`) -/
def gfqStep (bits : Nat) (q : Int) (fn : Nat) (size : Int) (fuel : Nat) (g : Int) : Option (Int × Int) :=
  match fn with
  | 0 => some (gfqRandom bits q (sampleSize q 0) g)
  | 1 => some (gfqRandom bits q (sampleSize q size) g)
  | 3 => gfqNzLoop fuel g
  | 4 => some (gfqRandom bits q q g)
  | 5 => some (gfqNonzero bits q q g)
  | 6 => some (gfqRandom bits q size g)
  | 7 => some (gfqNonzero bits q size g)
  | _ => none
where
  /-- `GeneralRingNonZeroRandIter` over `GIV_randIter(F, seed)` -/
  gfqNzLoop : Nat → Int → Option (Int × Int)
    | 0, _ => none
    | f+1, g =>
      if (gfqRandom bits q (sampleSize q 0) g).1 = 0 then gfqNzLoop f (gfqRandom bits q (sampleSize q 0) g).2
      else some (gfqRandom bits q (sampleSize q 0) g)

/-! ## Poly1Dom<Modular<int32_t>>::random(g, r, Degree d) (givpoly1misc.inl) -/

/-- the lower coefficients: `for (int i = d; i--;) _domain.random(g, r[i])` — drawn from index `d-1` down to 0;
    returns the coefficients in index order `c_0 … c_{d-1}` -/
def polyLow (bits : Nat) (sgn : Bool) (p : Int) : Nat → Int → List Int × Int
  | 0, g => ([], g)
  | d+1, g =>
    let c := modRandom bits sgn p g           -- coefficient of index d
    let rest := polyLow bits sgn p d c.2       -- indices d-1 … 0
    (rest.1 ++ [c.1], rest.2)

/-- `random(g, r, Degree d)` for `d ≥ 0`: `r.resize(d+1); _domain.nonzerorandom(g, r[d]); lower coefficients`;
    coefficients in index order `c_0 … c_d` -/
def polyRandom (bits : Nat) (sgn : Bool) (p : Int) (d : Nat) (fuel : Nat) (g : Int) : Option (List Int × Int) :=
  match modNonzero bits sgn p fuel g with
  | none => none
  | some lead => some ((polyLow bits sgn p d lead.2).1 ++ [lead.1], (polyLow bits sgn p d lead.2).2)

/-- `random(g, r, Degree d)` for every `d` (`Degree(a)` normalises every negative `a` to -1 = `Degree::deginfty`):
    `if (d == Degree::deginfty) { r.resize(0); return r; }` then the above.  `random(g, r, uint64_t s)` is
    `random(g, r, Degree(s-1))`, `random(g, r, b)` is `random(g, r, b.size())`, `random(g, r)` is degree 0;
    the `nonzerorandom` forms forward to the `random` forms. -/
def polyRandomDeg (bits : Nat) (sgn : Bool) (p : Int) (d : Int) (fuel : Nat) (g : Int) : Option (List Int × Int) :=
  if d < 0 then some ([], g) else polyRandom bits sgn p d.toNat fuel g

end Givaro.Model.Random
