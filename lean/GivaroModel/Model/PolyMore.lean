/-
C08 — the remaining members of `Poly1Dom<Domain,Dense>` (givpoly1misc.inl, givpoly1cstor.inl, givpoly1muldiv.inl,
givpoly1dense.h) that `Model/Poly.lean` does not hold: further observers, `setEntry`, the constructor / assignment
families, the scalar-by-polynomial quotient and remainder, the scalar remainder, `inv`, and the shapes of `random`.
Core Lean only.
-/
import GivaroModel.Model.Poly

namespace Givaro.Model.PolyMore
open Givaro.Model.Poly

variable {K : Type} [Zero K] [One K] [Add K] [Sub K] [Neg K] [Mul K] [Div K] [Inv K] [DecidableEq K]

/-! ### observers (all of them normalise their argument first, through `const_cast`) -/

/-- `isMOne`: after `setDegree`, size 1 and the coefficient is minus one -/
def isMOne (P : List K) : Bool :=
  match setdegree P with
  | [a] => decide (a = -1)
  | _ => false

/-- `isUnit`: after `setDegree`, size 1 and the coefficient is a unit of the field (`_domain.isUnit`: non-zero) -/
def isUnit (P : List K) : Bool :=
  match setdegree P with
  | [a] => !decide (a = 0)
  | _ => false

/-- `areNEqual` -/
def areNEqual (P Q : List K) : Bool := !decide (setdegree P = setdegree Q)

/-- index of the first non-zero coefficient from position `i` on -/
def firstNZ : Nat → List K → Option Nat
  | _, [] => none
  | i, a :: t => if a = 0 then firstNZ (i + 1) t else some i

/-- `val(d, P)`: `deginfty` (-1) for the zero polynomial in any storage, else the index of the first non-zero coefficient
    (the trailing `return d = 0` is not reachable on a normalised non-zero vector) -/
def val (P : List K) : Int :=
  match setdegree P with
  | [] => -1
  | L => ((firstNZ 0 L).getD 0 : Nat)

/-- `setEntry(P, c, i)`: `degree(dP, P)` normalises `P` in place, then the four cases of the source -/
def setEntry (P : List K) (c : K) (i : Nat) : List K :=
  let Pn := setdegree P
  let dP : Int := (Pn.length : Int) - 1
  if c = 0 then
    if dP < (i : Int) then Pn                                   -- nothing happens
    else if dP = (i : Int) then setdegree (Pn.set i c)          -- degree is killed
    else Pn.set i c                                             -- element is killed
  else if dP < (i : Int) then (pad (i + 1) Pn).set i c          -- P.resize(i+1)
  else Pn.set i c

/-- `shiftin(R, s)` -/
def shiftin (R : List K) (s : Nat) : List K := zeros s ++ R

/-! ### constructors and assignments (givpoly1cstor.inl) -/

/-- `init(P)` -/
def init0 : List K := []
/-- `init(P, Val)`: one coefficient, whatever its value -/
def initVal (v : K) : List K := [v]
/-- `init(P, {x, y, …})` -/
def initList (L : List K) : List K := L
/-- `init(P, Degree d)`: the monomial `X^d` -/
def initDeg (d : Nat) : List K := zeros d ++ [1]
/-- `init(P, Degree d, Val)` and `assign(P, Degree d, lcoeff)`: `Val·X^d`, the empty vector when `Val` is zero -/
def initDegVal (d : Nat) (v : K) : List K := if v = 0 then [] else zeros d ++ [v]
/-- `assign(P, cste) = assign(P, Degree(0), cste)` -/
def assignVal (v : K) : List K := initDegVal 0 v
/-- `assign(Val, P)` and `convert(Val, P)`: `P[0]` when `P.size()` is not zero, else zero (no normalisation) -/
def toScalar (P : List K) : K := match P with | [] => 0 | a :: _ => a

/-! ### scalar / polynomial mixed quotient and remainder (givpoly1muldiv.inl) -/

/-- `div(R, u, P)` (`P` not zero): zero when `u` is zero or `deg P >= 1`, else `u / P[0]` -/
def valDiv (u : K) (P : List K) : List K :=
  if u = 0 then [] else
  match setdegree P with
  | [p0] => setdegree [u / p0]
  | _ => []

/-- `mod(R, u, P)` (`P` not zero): `u` when `deg P >= 1` (stored as it is, also when zero), else zero -/
def valMod (u : K) (P : List K) : List K :=
  match setdegree P with
  | _ :: _ :: _ => [u]
  | _ => []

/-- `mod(R, P, u)`, `modin(R, u)` (`u` not zero): every polynomial is a multiple of a non-zero constant -/
def modVal (_P : List K) (_u : K) : List K := []

/-- `inv(R, P) = div(R, one, P)`, `invin` -/
def inv (thr : Nat) (P : List K) : List K := Givaro.Model.Poly.div thr [1] P

/-- `isDivisor(P, Q)` (givpoly1dense.h): `Q | P`, decided as `isZero(Q) ? isZero(P) : isZero(mod(R, P, Q))` -/
def isDivisor (thr : Nat) (P Q : List K) : Bool :=
  if isZero Q then isZero P else isZero (Givaro.Model.Poly.mod thr P Q)

/-! ### `random` / `nonzerorandom` (givpoly1misc.inl): the draws are C17's, the shape is determined here -/

/-- `random(g, r, Degree d)`: `deginfty` gives the empty vector, else `d+1` coefficients, the leading one drawn first by
    `nonzerorandom`, then `r[d-1], …, r[0]` by `random` (`draws`: the values in the order they are drawn) -/
def randomDeg (d : Int) (lead : K) (draws : List K) : List K :=
  if d < 0 then [] else (pad d.toNat draws).reverse ++ [lead]

/-- the `Degree` each overload passes on: `random(g,r)` → 0, `random(g,r,uint64_t s)` → `s-1` (`s = 0` wraps to
    `deginfty`), `random(g,r,Degree d)` → `d` (negative values are `deginfty`), `random(g,r,b)` → `b.size()-1`;
    the four `nonzerorandom` overloads forward to these -/
def randomTarget (overload : String) (arg : Int) : Int :=
  if overload == "0" then 0
  else if overload == "s" || overload == "b" then arg - 1
  else if arg < 0 then -1 else arg

end Givaro.Model.PolyMore
