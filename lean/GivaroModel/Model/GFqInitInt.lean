/-
C04 (round 2) — `GFqDom<TT>::init(Rep&, <integer / floating / Integer>)` and `convert` (src/kernel/field/gfq.inl:646-826), one model
function per overload, for both storage types the library instantiates (`TT = int32_t`: `W = 32`, `UTT = uint32_t`;
`TT = int64_t`: `W = 64`, `UTT = uint64_t`; `UT = size_t`).  Core Lean only.

Every overload reduces the source modulo the CARDINALITY `_q = p^k` (the documented convention: for `k > 1` the integer is decoded
p-adically, it is not reduced modulo `p`), looks the code up in `_pol2log`, and returns `zero` directly for a negative multiple of `_q`.
The model returns the index it looks up (`none` = the `return r = zero` shortcut); `initG` is the element.

Source value `a`: an integer (floating sources: a finite integer-valued `double`; `float` forwards to the `double` overload).
`fmod`, `double(UTT)` below `2^53`… are exact on these values.  The model is of the tree WITH fixes/C04_10.patch: the unrepaired
test `tr > Signed_Trait<UTT>::max()` compares with the double `2^64` when `UTT = uint64_t` (`2^64 - 1` rounds up), so a source of
magnitude exactly `2^64` took the cast `(uint64_t)tr` (undefined behaviour; 0 on x86-64) and `GFqDom<int64_t>(3).init(e, 2^64)` was
`zero` instead of the element 1.  The repaired test is `tr >= double(max)`; `(UTT)tr` is then only reached below `2^W`.
-/
import GivaroModel.Prim.Word
import GivaroModel.Spec.GFqSpec
import GivaroModel.Model.ModInitMont
namespace Givaro.Model.GFqInitInt
open Givaro Givaro.Spec.GFq
open Givaro.Model.MontInit (Src)

def wrapU (W : Nat) (x : Int) : Int := if W = 32 then wrapU32 x else wrapU64 x
def wrapS (W : Nat) (x : Int) : Int := if W = 32 then wrapS32 x else wrapS64 x
/-- `static_cast<double>(Signed_Trait<UTT>::max())` (`2^64 - 1` rounds to `2^64`) -/
def smaxD (W : Nat) : Int := if W = 32 then 4294967295 else 18446744073709551616
/-- `maxCardinality()` -/
def maxQ (W : Nat) : Int := if W = 32 then 65536 else 4294967296

/-- the reduction shared by the two branches of `init(Rep&, double)` -/
def redF64 (W : Nat) (q tr : Int) : Int :=
  if tr ≥ smaxD W then tr % q                            -- if (tr >= double(max)) tr = fmod(tr, (double)_q)
  else if tr ≥ wrapS W q then wrapU W tr % q             -- if (tr >= (TT)_q) tr = double((UTT)tr % _q)
  else tr

/-- `init(Rep& r, const double Residu)` -/
def codeF64 (W : Nat) (q a : Int) : Option Int :=
  if a < 0 then
    let tr := redF64 W q (-a)                            -- tr = -tr; …
    if tr ≠ 0 then some (wrapU64 (wrapU W (q - wrapU W tr)))   -- _pol2log[ UT(_q - (UTT)tr) ]
    else none                                            -- return r = zero
  else
    some (wrapU64 (redF64 W q a))                        -- _pol2log[ (UT)tr ]

/-- `init(Rep& r, const int32_t Residu)` (also reached by `int8_t`, `uint8_t`, `int16_t`, `uint16_t` through integral promotion) -/
def codeS32 (q a : Int) : Option Int :=
  if a < 0 then
    let utr := wrapU32 (0 - wrapU32 a)                   -- uint32_t(0) - (uint32_t)tr
    let utr := if utr ≥ q then wrapU32 (utr % q) else utr
    if utr ≠ 0 then some (wrapU64 (wrapU64 q - wrapU64 utr))   -- _pol2log[(UT)_q - (UT)utr]
    else none
  else
    let tr := if a ≥ wrapS32 q then wrapS32 (wrapU32 a % q) else a     -- if (tr >= (int32_t)_q) tr = int32_t((uint32_t)tr % _q)
    some (wrapU64 tr)

/-- `init(Rep& r, const int64_t Residu)` -/
def codeS64 (q a : Int) : Option Int :=
  if a < 0 then
    let utr := wrapU64 (0 - wrapU64 a)
    let utr := if utr ≥ q then utr % q else utr                 -- (uint64_t)_q widens
    if utr ≠ 0 then some (wrapU64 (wrapU64 q - wrapU64 utr))
    else none
  else
    let tr := if a ≥ wrapS64 q then Int.tmod a (wrapS64 q) else a      -- tr % (int64_t)_q
    some (wrapU64 tr)

/-- `init(Rep& r, const uint64_t Residu)`; `init(Rep& r, const uint32_t Residu)` widens to `uint64_t` and has the same body -/
def codeU64 (q a : Int) : Option Int :=
  let tr := if a ≥ q then a % q else a
  some (wrapU64 tr)

/-- `init(Rep& r, const Integer Residu)`: `(Integer)(-_q)` negates the UNSIGNED `_q` (so the comparison is true for every negative
    source and the remainder is always taken) -/
def codeZ (W : Nat) (q a : Int) : Option Int :=
  if a < 0 then
    let tr := if a ≤ wrapU W (-q) then wrapU W ((-a) % q) else wrapU W (-a)
    if tr ≠ 0 then some (wrapU64 (wrapU W (q - tr)))     -- _pol2log[ _q - (UTT)tr ]
    else none
  else
    let tr := if a ≥ q then wrapU W (a % q) else wrapU W a
    some (wrapU64 tr)

/-- overload resolution -/
def code (W : Nat) (q : Int) : Src → Int → Option Int
  | .s8, a | .u8, a | .s16, a | .u16, a | .s32, a => codeS32 q a
  | .u32, a | .u64, a => codeU64 q a
  | .s64, a => codeS64 q a
  | .f32, a | .f64, a => codeF64 W q a
  | .Z, a => codeZ W q a

/-- the element `init` returns (`zero` is the index 0) -/
def initG (T : Tables) (W : Nat) (s : Src) (a : Int) : Nat :=
  match code W (T.q : Int) s a with
  | none => 0
  | some c => T.p2l c.toNat

/-- `convert(·, a)`: `_log2pol[(UT)a]`, cast to the target type -/
def convertG (T : Tables) (e : Nat) : Nat := T.l2p e

end Givaro.Model.GFqInitInt
