/-
C09 — executable model of givpoly1factor.inl / givpoly1proot.inl / givpoly1sqrfree.inl (core Lean only).

Each function mirrors the C++ body named in its doc comment, branch by branch, over the list arithmetic of
`Model/PolyFactorArith.lean`.  `q` is `MOD = _domain.residu()`, the cardinality of the coefficient field.
Random choices (`SplitFactor`, `find_irred_randomial`, `give_random_prim_root`) are parameters: a candidate list / a
splitting function supplied from outside — theorems quantify over all of them.
-/
import GivaroModel.Model.PolyFactorArith
namespace Givaro.Model.PolyFactor

section
variable {α : Type} [DecidableEq α] (F : FOps α)

/-- `Unit`: `init(Unit, Degree(1))` = X -/
def polX : Poly α := [F.zero, F.one]

/-- the loop `for (dp = 1; dp <= dPo; ++dp) { D = W; W = D^MOD mod P; G1 = gcd(W - X, P); if deg G1 > 0 return 0 }`
    of `is_irreducible`; `n` = remaining iterations -/
def irrLoop (q : Nat) (P : Poly α) : Nat → Poly α → Bool
  | 0, _ => true
  | n + 1, W =>
    let W' := powmod F W q P
    let G1 := pgcd F (psub F W' (polX F)) P
    if degree F G1 > 0 then false else irrLoop q P n W'

/-- `Poly1FactorDom::is_irreducible(P, MOD)` (givpoly1factor.inl), with the guard `deg P <= 0 -> 0` of fixes/C09_2. -/
def isIrreducible (q : Nat) (P : Poly α) : Bool :=
  if degree F P ≤ 0 then false else
  let W := pgcd F (diff F P) P
  if degree F W > 0 then false
  else irrLoop F q P ((degree F P).toNat / 2) (polX F)

/-- distinct prime divisors of `n` in increasing order (`IntFactorDom::set` + `sort`; its correctness is C12's) -/
def primeFactorsAux : Nat → Nat → Nat → List Nat
  | 0, _, _ => []
  | fuel + 1, n, d =>
    if n ≤ 1 then []
    else if d * d > n then [n]
    else if n % d = 0 then
      d :: primeFactorsAux fuel (stripFactor fuel n d) (d + 1)
    else primeFactorsAux fuel n (d + 1)
where
  stripFactor : Nat → Nat → Nat → Nat
    | 0, n, _ => n
    | f + 1, n, d => if d > 1 ∧ n % d = 0 ∧ n > 0 then stripFactor f (n / d) d else n

def primeFactors (n : Nat) : List Nat := primeFactorsAux (n.sqrt + 2) n 2

/-- `is_irreducible2` (givpoly1proot.inl; Rabin's test) as repaired by fixes/C09_3:
    square-free, `X^(q^n) - X = 0 mod P`, and `gcd(X^(q^(n/r)) - X, P) = 1` for every prime `r | n`. -/
def isIrreducible2 (q : Nat) (P : Poly α) : Bool :=
  if degree F P ≤ 0 then false else
  let W := pgcd F (diff F P) P
  if degree F W > 0 then false else
  let n := (degree F P).toNat
  let G1 := powmod F (polX F) (q ^ n) P
  if degree F (pmod F (psub F G1 (polX F)) P) ≥ 0 then false else
  (primeFactors n).all (fun r =>
    let G := powmod F (polX F) (q ^ (n / r)) P
    ! (degree F (pgcd F (psub F G (polX F)) P) > 0))

/-- the `while (!isZero(Z))` loop of `sqrfree`; `acc` = Fact[0..count) in reverse; returns the written slots -/
def sqrfreeLoop (Nfact : Nat) : Nat → List (Poly α) → Poly α → Poly α → List (Poly α)
  | 0, acc, _, _ => acc.reverse
  | fuel + 1, acc, W, Z =>
    if isZeroP F Z then (W :: acc).reverse
    else
      let Fc := pgcd F W Z
      let W' := pdiv F W Fc
      let Y := pdiv F Z Fc
      let Z' := psub F Y (diff F W')
      if acc.length + 1 ≥ Nfact then (Fc :: acc).reverse
      else sqrfreeLoop Nfact fuel (Fc :: acc) W' Z'

/-- `Poly1Dom::sqrfree(Nfact, Fact, P)` (givpoly1sqrfree.inl, Yun), as repaired by fixes/C09_1 (the derivative is that of
    the monic associate; the slot test is `>=`).  Returns the list of the slots written, `Fact[i]` ↦ multiplicity `i+1`. -/
def sqrfree (Nfact : Nat) (P : Poly α) : List (Poly α) :=
  if Nfact = 0 then [] else
  let A := smul F (F.inv (lcoef F P)) (norm F P)
  let B := diff F A
  let D := pgcd F A B
  let C := smul F (F.inv (lcoef F D)) (norm F D)
  if norm F C = [F.one] then [A]
  else
    let W := pdiv F A C
    let Y := pdiv F B C
    let Z := psub F Y (diff F W)
    sqrfreeLoop F Nfact Nfact [] W Z

/-- `is_prim_root(P, F)` (givpoly1proot.inl) with the list `L` of the distinct prime divisors of `q^n - 1`
    (what `IntFactorDom::set` returns) as a parameter -/
def isPrimRootL (q : Nat) (P Fm : Poly α) (L : List Nat) : Bool :=
  let A := pmod F P Fm
  if degree F (pgcd F A Fm) = 0 then
    let qp := q ^ (degree F Fm).toNat - 1
    L.all (fun l => ! isOneP F (powmod F A (qp / l) Fm))
  else false

/-- `is_prim_root(P, F)`: the group order `q^n - 1` is an exact (multiprecision) integer -/
def isPrimRoot (q : Nat) (P Fm : Poly α) : Bool :=
  isPrimRootL F q P Fm (primeFactors (q ^ (degree F Fm).toNat - 1))

/-- second phase of `order`: `for (--li; li != end; ++li) while (g % li == 0 && A^(g/li) == 1) g = g/li` -/
def orderStrip (A Fm : Poly α) : Nat → Nat → Nat → Nat
  | 0, g, _ => g
  | fuel + 1, g, l => if l > 1 ∧ g % l = 0 ∧ isOneP F (powmod F A (g / l) Fm) then orderStrip A Fm fuel (g / l) l else g

/-- `order(P, F)` (givpoly1proot.inl) with the sorted prime list `L` of `q^n - 1` as a parameter: 0 when `P` is not
    invertible modulo `F` -/
def orderL (q : Nat) (P Fm : Poly α) (L : List Nat) : Nat :=
  let A := pmod F P Fm
  if degree F (pgcd F A Fm) = 0 then
    let qp := q ^ (degree F Fm).toNat - 1
    -- first prime with A^(qp/l) = 1
    match L.dropWhile (fun l => ! isOneP F (powmod F A (qp / l) Fm)) with
    | [] => qp
    | l :: rest => (l :: rest).foldl (fun g li => orderStrip F A Fm (g.log2 + 1) g li) (qp / l)
  else 0

def order (q : Nat) (P Fm : Poly α) : Nat :=
  orderL F q P Fm (primeFactors (q ^ (degree F Fm).toNat - 1))

/-! ### the irreducible-polynomial searches: loops over candidates -/

/-- `R[i] = a` on a vector -/
def setCoef (R : Poly α) (i : Nat) (a : α) : Poly α := R.set i a

/-- X^n as stored by `init(R, Degree(n))` -/
def xpow (n : Nat) : Poly α := List.replicate n F.zero ++ [F.one]

/-- first candidate accepted by `test`, scanning in order -/
def firstThat (test : Poly α → Bool) : List (Poly α) → Option (Poly α)
  | [] => none
  | c :: cs => if test c then some c else firstThat test cs

/-- candidates of `find_irred_binomial`: `R[0] = a` for every residue `a` in the enumeration order `elems` -/
def binomials (elems : List α) (n : Nat) : List (Poly α) := elems.map (fun a => setCoef (xpow F n) 0 a)

/-- candidates of `find_irred_trinomial`: `for d = d0..n/2, for b, for a ≠ first`: `R[d] = b; R[0] = a`
    (`d0 = 1` in `creux_random_irreducible`, `2` in `ixe_irreducible`) -/
def trinomials (elems : List α) (n d0 : Nat) : List (Poly α) :=
  (List.range (n / 2 + 1 - d0)).flatMap (fun i => elems.flatMap (fun b => (elems.drop 1).map (fun a =>
    setCoef (setCoef (xpow F n) (d0 + i) b) 0 a)))

/-- candidates of `find_irred_randomial`: a random polynomial whose coefficient of `X^n` is overwritten by one -/
def randomials (n : Nat) (stream : List (Poly α)) : List (Poly α) :=
  stream.map (fun r => setCoef (r.take (n + 1) ++ List.replicate (n + 1 - r.length) F.zero) n F.one)

/-- `creux_random_irreducible(R, n)`: binomials, then trinomials, then random monic candidates (`none`: the C++ keeps looping) -/
def creuxIrreducible (q : Nat) (elems : List α) (stream : List (Poly α)) (n : Nat) : Option (Poly α) :=
  firstThat (isIrreducible F q) (binomials F elems n ++ trinomials F elems n 1 ++ randomials F n stream)

/-- `random_irreducible(R, n)` -/
def randomIrreducible (q : Nat) (stream : List (Poly α)) (n : Nat) : Option (Poly α) :=
  firstThat (isIrreducible F q) (randomials F n stream)

/-- `ixe_irreducible(R, n)`: the same scans (trinomial middle degree from 2) with the extra test `is_prim_root(X, R)` -/
def ixeIrreducible (q : Nat) (elems : List α) (stream : List (Poly α)) (n : Nat) : Option (Poly α) :=
  firstThat (fun R => isIrreducible F q R && isPrimRoot F q (polX F) R)
    (binomials F elems n ++ trinomials F elems n 2 ++ randomials F n stream)

/-- `give_prim_root` / `give_random_prim_root`: the first candidate accepted by `is_prim_root(·, F)` -/
def givePrimRoot (q : Nat) (Fm : Poly α) (cands : List (Poly α)) : Option (Poly α) :=
  firstThat (fun R => isPrimRoot F q R Fm) cands

end
end Givaro.Model.PolyFactor
