/-
C20 (follow-up round) — the random-drawing entry points of the ring / field classes that Model/Random.lean does not cover,
each as a function of the draw(s) it takes from the GivRandom generator (core Lean only; linked into the driver).

Every class below has the same two member functions (modular-floating.h, modular-balanced-{int32,int64,float,double}.h,
montgomery-int32.h, zring.h):

    random(g, r)         { return init(r, g()); }
    nonzerorandom(g, a)  { while (isZero(init(a, g()))) ; return a; }

and the iterator classes of givranditer.h on top of them.  What differs is the overload `init(Element&, uint64_t)` chosen for
the value type of `GivRandom` and `cardinality()`; these two are the `RingDraw` record, transcribed per class:

  * `Modular<float>`, `Modular<double>`              modular-floating.inl   `r = Caster<Element>(a % Caster<Source>(_p))`
  * `ModularBalanced<int32_t|int64_t|float|double>`  modular-balanced-*.inl `x = static_cast<Element>(y % (uint64_t)_p); NORMALISE_HI(x)`
  * `Montgomery<int32_t>`                            montgomery-int32.inl   `r = (Element)(a % uint64_t(_p)); redc(r, r * _B2p)`
  * `ZRing<intN_t|uintN_t|float|double>`             zring.h                `Caster<Element>(x, y)`; cardinality 0
  * `GF2`                                            gf2.h                  `e = static_cast<bool>(g() & 1u)`; `nonzerorandom` is `e = true` and draws nothing
  * `Extension<Modular<int32_t>>`                    extension.h            forwards to `Poly1Dom::random` with a clamped size

The destination's previous content is an explicit argument everywhere (as in Model/RandomDest.lean).
-/
import GivaroModel.Model.Random
import GivaroModel.Model.RandomDest
import GivaroModel.Model.Montgomery
import GivaroModel.Model.Rational
namespace Givaro.Model.RandomRings
open Givaro Givaro.Model.Random

/-- what a ring class contributes to its random functions -/
structure RingDraw where
  /-- `init(Element& r, uint64_t y)`: the value stored in `r` -/
  init : Int → Int
  /-- `cardinality()` as read by the constructors of the iterators -/
  card : Int

/-! ## the classes -/

/-- `Modular<float>` / `Modular<double>`: `init(r, a)` for an unsigned integral source at least as wide as the storage type is
    `r = Caster<Element>(a % Caster<Source>(_p))` — computed in `uint64_t`; the conversion of a residue below `p ≤ maxCardinality()`
    (2^12 resp. 2^26.5) to the floating type is exact -/
def fltRing (p : Int) : RingDraw := ⟨fun y => y % p, p⟩

/-- `ModularBalanced<T>`: `x = static_cast<Element>(y % static_cast<uint64_t>(_p)); if (x > _halfp) x -= _p;` with
    `_halfp = p >> 1` (integral) resp. `floor(p / 2.f)` (floating); `wr` is the conversion to the element type
    (`wrapS32`, `wrapS64`, identity for the floating types: every value involved is an integer below 2^24 resp. 2^53) -/
def balRing (wr : Int → Int) (p : Int) : RingDraw :=
  ⟨fun y => let x := wr (y % p); if x > p / 2 then wr (x - p) else x, p⟩

/-- `Montgomery<int32_t>`: `init(r, const uint64_t a)` of Model/Montgomery.lean (the element is the Montgomery form) -/
def mgRing (p : Int) : RingDraw := ⟨Givaro.Model.Montgomery.initU64 (Givaro.Model.Montgomery.mk32 p), p⟩

/-- `ZRing<intN_t>` / `ZRing<uintN_t>`: `init(r, y)` is `Caster<Element>(r, y)` = `static_cast`; `cardinality()` is 0 -/
def zintRing (bits : Nat) (sgn : Bool) : RingDraw := ⟨castSt bits sgn, 0⟩

/-- `ZRing<double>`: the conversion of a `uint64_t` below 2^53 is exact (GivRandom's values are below 2^31) -/
def zfltRing : RingDraw := ⟨fun y => y, 0⟩

/-! ## the member functions and iterators, generic in the class -/

/-- `random(g, r)`: `init(r, g())` -/
def rRandomD (R : RingDraw) (old g : Int) : Int × Int := (overwrite old (R.init (givNext g)), givNext g)

/-- `GeneralRingRandIter::operator()(a)`: `ring().init(a, _size ? _givrand() % static_cast<random_t>(_size) : _givrand())` -/
def rRandomSzD (R : RingDraw) (sz : Int) (old g : Int) : Int × Int :=
  (overwrite old (R.init (if sz ≠ 0 then givNext g % sz else givNext g)), givNext g)

/-- `nonzerorandom(g, a)`: `while (isZero(init(a, g()))) ;` — also `GeneralRingNonZeroRandIter`: `do _r.random(a); while (isZero(a))` -/
def rNonzeroD (R : RingDraw) : Nat → Int → Int → Option (Int × Int)
  | 0, _, _ => none
  | f+1, old, g =>
    if (rRandomD R old g).1 = 0 then rNonzeroD R f (rRandomD R old g).1 (rRandomD R old g).2
    else some (rRandomD R old g)

/-- one call; `fn` as in the harness: 0 `Ring::RandIter(F, seed)` (`ModularRandIter`; for `ZRing` it is `GeneralRingRandIter`
    with size 0 and cardinality 0, the same draw), 2 `GeneralRingRandIter(F, seed, size)` (`_size = size ? size : cardinality()`),
    3 `GeneralRingNonZeroRandIter` over fn 0, 4 `random(g, r)`, 5 `nonzerorandom(g, r)` -/
def rStepD (R : RingDraw) (fn : Nat) (size : Int) (fuel : Nat) (g : Int) (old : Int) : Option (Int × Int) :=
  match fn with
  | 0 => some (rRandomD R old g)
  | 2 => some (rRandomSzD R (if size ≠ 0 then size else R.card) old g)
  | 3 => rNonzeroD R fuel old g
  | 4 => some (rRandomD R old g)
  | 5 => rNonzeroD R fuel old g
  | _ => none

/-- the elements returned for a list of calls (one destination content per call) and the final generator state -/
def rRun (R : RingDraw) (fn : Nat) (size : Int) (fuel : Nat) (olds : List Int) (g : Int) : Option (List Int × Int) :=
  runCalls (rStepD R fn size fuel) olds g

/-! ## GF2 (gf2.h): `Element = bool` (1 / 0) -/

/-- `random(g, e, size = 0)`: `e = static_cast<bool>(g() & 1u)` -/
def gf2RandomD (old g : Int) : Int × Int := (overwrite old (givNext g % 2), givNext g)

/-- `nonzerorandom(g, e, size = 0)`: `e = true` — the generator is not advanced -/
def gf2NonzeroD (old g : Int) : Int × Int := (overwrite old 1, g)

/-- `GeneralRingNonZeroRandIter<GF2, GIV_randIter<GF2,bool>>`: `do _r.random(a); while (isZero(a))` -/
def gf2NzLoopD : Nat → Int → Int → Option (Int × Int)
  | 0, _, _ => none
  | f+1, old, g =>
    if (gf2RandomD old g).1 = 0 then gf2NzLoopD f (gf2RandomD old g).1 (gf2RandomD old g).2 else some (gf2RandomD old g)

/-- fn: 0 `GF2::RandIter(F, seed)`, 1 `GIV_randIter<GF2,bool>(F, seed, size)` (both call `random(g, e, _size)`, which ignores
    the size), 3 the non-zero iterator, 4/6 `random(g, e[, size])`, 5/7 `nonzerorandom(g, e[, size])` -/
def gf2StepD (fn : Nat) (fuel : Nat) (g : Int) (old : Int) : Option (Int × Int) :=
  match fn with
  | 0 => some (gf2RandomD old g)
  | 1 => some (gf2RandomD old g)
  | 3 => gf2NzLoopD fuel old g
  | 4 => some (gf2RandomD old g)
  | 5 => some (gf2NonzeroD old g)
  | 6 => some (gf2RandomD old g)
  | 7 => some (gf2NonzeroD old g)
  | _ => none

def gf2Run (fn : Nat) (fuel : Nat) (olds : List Int) (g : Int) : Option (List Int × Int) :=
  runCalls (gf2StepD fn fuel) olds g

/-! ## Extension<Modular<int32_t>> (extension.h): elements are the polynomials of `Poly1Dom<Modular<int32_t>>` -/

/-- `Poly1Dom::random(g, r, uint64_t s)` is `random(g, r, Degree(s-1))`: `s - 1` in `uint64_t`, converted to the `int64_t`
    parameter of `Degree(int64_t a)`, which maps every negative `a` to `Degree::deginfty` (-1) -/
def degOfSize (s : Int) : Int :=
  if wrapS64 (wrapU64 (wrapU64 s - 1)) < 0 then -1 else wrapS64 (wrapU64 (wrapU64 s - 1))

/-- the degree asked of `Poly1Dom::random` by the six forms; `e` = `_extension_order` (`Residu_t` = `uint32_t`), `arg` = the
    `int64_t s` (kinds 1, 4) resp. `b.size()` (kinds 2, 5):
      0/3  `random(g, r)` / `nonzerorandom(g, r)`:        `Degree((int64_t)_extension_order - 1)`
      1/4  `random(g, r, int64_t s)`:                     `_pD.random(g, r, (s >= _extension_order ? _extension_order - 1 : s))` —
           the third argument is an `int64_t`, for which overload resolution picks `random(g, r, uint64_t size)` (an integral
           conversion beats the user-defined conversion to `Degree`)
      2/5  `random(g, r, const Element& b)`:              `_pD.random(g, r, b.size())` -/
def extDegree (e : Int) (kind : Nat) (arg : Int) : Int :=
  if kind % 3 = 0 then (if e - 1 < 0 then -1 else e - 1)
  else if kind % 3 = 1 then degOfSize (if arg ≥ e then wrapU32 (e - 1) else arg)
  else degOfSize arg

/-- one draw of an extension-field element into a vector that held `old` -/
def extRandomD (p e : Int) (kind : Nat) (arg : Int) (fuel : Nat) (old : List Int) (g : Int) : Option (List Int × Int) :=
  polyRandomD 32 true p (extDegree e kind arg) fuel old g

/-! ## Poly1Dom<Domain>::random over any coefficient domain (givpoly1misc.inl) -/

/-- what `Poly1Dom::random` uses of its coefficient domain: `_domain.random(g, c)` and `_domain.nonzerorandom(g, c)`, each as a
    function of what `c` held and of the generator state -/
structure CoefDraw where
  randomD : Int → Int → Int × Int
  nonzeroD : Nat → Int → Int → Option (Int × Int)

/-- `for (int i = d; i--;) _domain.random(g, r[i])`: writes `r[i-1] … r[0]` in place -/
def polyFillG (D : CoefDraw) : Nat → List Int → Int → List Int × Int
  | 0, r, g => (r, g)
  | i+1, r, g => polyFillG D i (r.set i (D.randomD (r.getD i 0) g).1) (D.randomD (r.getD i 0) g).2

/-- `random(g, r, Degree d)`: `if (d == deginfty) { r.resize(0); return r; } r.resize(d+1); _domain.nonzerorandom(g, r[d]);` then the
    lower coefficients from index `d-1` down to 0.  `old` is what the vector held. -/
def polyRandomG (D : CoefDraw) (d : Int) (fuel : Nat) (old : List Int) (g : Int) : Option (List Int × Int) :=
  if d < 0 then some (vresize old 0, g)
  else
    match D.nonzeroD fuel ((vresize old (d.toNat + 1)).getD d.toNat 0) g with
    | none => none
    | some lead => some (polyFillG D d.toNat ((vresize old (d.toNat + 1)).set d.toNat lead.1) lead.2)

/-- `GFqDom<intN_t>` as a coefficient domain: `random(g, a)` is `random(g, a, _q)`, `nonzerorandom(g, a)` is one draw (no loop) -/
def gfqCoef (bits : Nat) (q : Int) : CoefDraw :=
  ⟨fun old g => gfqRandomD bits q q old g, fun _ old g => some (gfqNonzeroD bits q q old g)⟩

/-- a `RingDraw` class as a coefficient domain -/
def ringCoef (R : RingDraw) : CoefDraw := ⟨rRandomD R, rNonzeroD R⟩

/-! ## QField<Rational> (qfield.h): numerator and denominator are draws of GMP's generator (abstract, as in Model/Random.lean) -/

section QF
open Givaro.Model.Rational
variable {σ : Type} (G : RawGen σ)

/-- `B.nume()`, `B.deno()` of `B = Rational(a, b)` (reduced by the constructor) -/
def qfBound (a b : Int) : QRep := (mk3 a b 1).getD ⟨0, 1⟩

/-- the four forms; `old` is what `r` held (`r = Rational(…)` assigns both members):
      0  `random(g, r, int64_t s)`:        `r = Rational(Integer::random(s), Integer::nonzerorandom(s))` — `Integer::random(s)` is
         `random_lessthan<true>` of `s` bits, `nonzerorandom(s)` the loop around it; the two arguments are evaluated right to left
         by the compiler the library is built with (the order is unspecified in C++: the model follows g++)
      1  `nonzerorandom(g, r, s)`:         `r = Rational(Integer::nonzerorandom(s), Integer::nonzerorandom(s))`
      2  `random(g, r, const Rep& b)`:     `Integer::random(rnum, b.nume()); Integer::nonzerorandom(rden, b.deno()); r = Rational(rnum, rden)`
      3  `nonzerorandom(g, r, b)`:         both through `nonzerorandom`
    the generator argument `g` is not used by any of them -/
def qfRandomD (kind : Nat) (a b : Int) (fuel : Nat) (old : QRep) (st : σ) : Option (QRep × σ) :=
  match kind with
  | 0 =>
    match nonzeroWD G true a.toNat fuel 0 st with
    | none => none
    | some d => (mk3 (lessthan2expD G true a.toNat 0 d.2).1 d.1 1).map (fun q => (overwrite old q, (lessthan2expD G true a.toNat 0 d.2).2))
  | 1 =>
    match nonzeroWD G true a.toNat fuel 0 st with
    | none => none
    | some d =>
      match nonzeroWD G true a.toNat fuel 0 d.2 with
      | none => none
      | some n => (mk3 n.1 d.1 1).map (fun q => (overwrite old q, n.2))
  | 2 =>
    match nonzeroID G true (qfBound a b).den fuel 0 (lessthanD G true (qfBound a b).num 0 st).2 with
    | none => none
    | some d => (mk3 (lessthanD G true (qfBound a b).num 0 st).1 d.1 1).map (fun q => (overwrite old q, d.2))
  | 3 =>
    match nonzeroID G true (qfBound a b).num fuel 0 st with
    | none => none
    | some n =>
      match nonzeroID G true (qfBound a b).den fuel 0 n.2 with
      | none => none
      | some d => (mk3 n.1 d.1 1).map (fun q => (overwrite old q, d.2))
  | _ => none

end QF

/-! ## GIV_randIter as an object: copy construction and copy assignment (givranditer.h) -/

/-- the data members that matter: `_size` (a `const Residu_t`) and `_givrand` -/
structure GivIt where
  size : Int
  g : Int
deriving DecidableEq, Repr

/-- copy constructor: `_ring(R._ring), _size(R._size), _givrand(R._givrand)` -/
def GivIt.copy (c : GivIt) : GivIt := ⟨c.size, c.g⟩

/-- `operator=` of the pinned tree: `_givrand = R._givrand; const_cast<Ring&>(_ring) = R._ring;` — the const member `_size` of
    the assigned-to iterator stays as it was -/
def GivIt.assign (d c : GivIt) : GivIt := ⟨d.size, c.g⟩

/-- `operator=` as repaired by fixes/C20_5.patch: `_size = R._size` as well -/
def GivIt.assignFixed (_d c : GivIt) : GivIt := ⟨c.size, c.g⟩

/-- `operator()(elt)` on `GFqDom`: `ring().random(_givrand, elt, _size)` -/
def GivIt.draw (bits : Nat) (q : Int) (it : GivIt) (old : Int) : Int × GivIt :=
  ((gfqRandomD bits q it.size old it.g).1, ⟨it.size, (gfqRandomD bits q it.size old it.g).2⟩)

end Givaro.Model.RandomRings
