/-
C17 — allocation accounting of the RecInt <-> GMP conversion helpers (recint/ruconvert.h, rconvert.h, gmp++_int.h).
Only the *number of outstanding GMP limb blocks* is modelled: an `mpz_t` variable is initialised or not,
`mpz_init_set` always obtains a new block for its destination (whatever the destination held),
`mpz_set`/`mpz_import` reuse (reallocate) the destination's block, `mpz_clear` releases it.
Core Lean only.
-/
namespace Givaro.Model.Leak

structure G where
  live   : Int               -- limb blocks outstanding
  inited : Nat → Bool        -- per variable

inductive I where
  | initSet (x : Nat)        -- `mpz_init_set(x, …)`, also `mpz_class r;` followed by a first assignment
  | set (x : Nat)            -- `mpz_set(x, …)`, `mpz_import(x, …)`: needs an initialised destination
  | clear (x : Nat)          -- `mpz_clear(x)` / destructor
deriving Repr

def exec (g : G) : I → G
  | .initSet x => { live := g.live + 1, inited := fun y => if y = x then true else g.inited y }
  | .set _ => g
  | .clear x => if g.inited x then { live := g.live - 1, inited := fun y => if y = x then false else g.inited y } else g

def execAll (g : G) (is : List I) : G := is.foldl exec g

/-- `ruint_to_mpz_t(a, b)`: `mpz_class r; ruint_to_mpz(r, b); mpz_init_set(a, r.get_mpz_t());` then `~r` (r = variable 100) -/
def ruint_to_mpz_t (a : Nat) : List I := [.initSet 100, .set 100, .initSet a, .clear 100]

/-- `Integer(const ruint<K>&)`: `ruint_to_mpz_t(get_mpz(), n)` on the raw representation -/
def ctorIntegerRuint (t : Nat) : List I := ruint_to_mpz_t t

/-- `Caster(Integer& t, const ruint<K>& n)`: `return t = Integer(n);` (temporary = variable 101) -/
def casterIntegerRuint (t : Nat) : List I := ctorIntegerRuint 101 ++ [.set t, .clear 101]

/-- the body before the repair: `ruint_to_mpz_t(t.get_mpz(), n)` applied to the live `t` -/
def casterIntegerRuintOld (t : Nat) : List I := ruint_to_mpz_t t

/-- `mpz_t_to_ruint(a, b)`: `mpz_class r(b); mpz_to_ruint(a, r)` (which copies `r` into `c`, variable 102) -/
def mpz_t_to_ruint : List I := [.initSet 100, .initSet 102, .clear 102, .clear 100]

end Givaro.Model.Leak
