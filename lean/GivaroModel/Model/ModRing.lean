/-
Executable model of givaro's residue rings (C03), mirroring the `.inl` files branch by branch.

 (a) `Modular<Storage,Compute>` over machine integers   — modular-integral.inl, modular-general.inl
 (b) `Modular<float|double[,double]>`                    — modular-floating.inl      (exact-integer model)
 (c) `ModularBalanced<float|double>`                     — modular-balanced-{float,double}.inl (exact-integer)
     `ModularBalanced<int32_t|int64_t>`                  — modular-balanced-int{32,64}.inl (soft-float quotient estimate)
 (e) `Modular<Integer>`                                  — modular-integer.inl
 (f) `Modular<ruint<K>[,ruint<K+1>]>`                    — modular-ruint.inl over arithmetic modulo 2^(2^K)

Machine words are `Int` with explicit wrap-arounds exactly where the C++ converts (DESIGN §3.1); an
expression on operands narrower than `int` is evaluated in `int` (integral promotion).  Floating
values are `Int`; an operation returns `none` as soon as a mathematical intermediate leaves the range
in which every integer is representable (DESIGN §3.3).  Core Lean only.
-/
namespace Givaro.Model.ModRing

def wrapUw (w : Nat) (x : Int) : Int := x % (2 : Int) ^ w
def wrapSw (w : Nat) (x : Int) : Int := (x + (2 : Int) ^ (w - 1)) % (2 : Int) ^ w - (2 : Int) ^ (w - 1)

/-! ## (a) integral storage -/

/-- storage width, storage signedness, compute width (`Compute_t` is always made unsigned) -/
structure ICfg where
  s : Nat
  sg : Bool
  c : Nat
deriving DecidableEq, Repr

namespace ICfg
variable (k : ICfg)

/-- `static_cast<Element>` -/
def toE (x : Int) : Int := if k.sg then wrapSw k.s x else wrapUw k.s x
/-- `static_cast<Residu_t>` = `make_unsigned<Storage_t>` -/
def toR (x : Int) : Int := wrapUw k.s x
/-- `static_cast<Compute_t>` -/
def toC (x : Int) : Int := wrapUw k.c x
/-- value of an arithmetic expression on `Compute_t` operands (in `int` below 32 bits) -/
def arC (x : Int) : Int := if k.c < 32 then wrapSw 32 x else wrapUw k.c x
/-- … on `Element` operands -/
def arE (x : Int) : Int := if k.s < 32 then wrapSw 32 x else k.toE x
/-- … on `make_unsigned<Element>` operands -/
def arU (x : Int) : Int := if k.s < 32 then wrapSw 32 x else wrapUw k.s x

/-- the configurations the library instantiates -/
def valid : Prop := (k.s = 8 ∨ k.s = 16 ∨ k.s = 32 ∨ k.s = 64) ∧ (k.c = k.s ∨ k.c = 2 * k.s)
instance : Decidable k.valid := by unfold valid; exact inferInstance

/-- `maxCardinality()` (modular-implem.h:131-150) -/
def maxCard : Int :=
  if k.c = k.s then (2 : Int) ^ (k.s / 2)            -- (Residu_t)1 << (k << 2)
  else if k.sg then (2 : Int) ^ (k.s - 1) - 1        -- repunit >> 1
  else (2 : Int) ^ k.s - 1                           -- repunit
def minCard (_k : ICfg) : Int := 2

/-- `mOne` as the constructor computes it: `static_cast<Element>(p - static_cast<Element>(1))` -/
def mOne (p : Int) : Int := k.toE (k.arU (p - 1))

/-- mul / mulin: `Caster<Element>(Caster<Compute_t>(a)*Caster<Compute_t>(b) % _pc)` -/
def mul (p a b : Int) : Int := k.toE (Int.tmod (k.arC (k.toC a * k.toC b)) (k.toC p))

/-- sub / subin: `(a < b) ? (Caster<Element>(_p) - b) + a : a - b` -/
def sub (p a b : Int) : Int :=
  if a < b then k.toE (k.arE (k.arE (k.toE p - b) + a)) else k.toE (k.arE (a - b))

/-- add / addin (`GenericAdd`, unsigned-wrap test; the signed variant computes in the unsigned type) -/
def add (p a b : Int) : Int :=
  if k.sg then
    let rr := k.toR (k.arU (k.toR a + k.toR b))
    k.toE (if rr ≥ k.toR p ∨ rr < k.toR a then k.toR (k.arU (rr - k.toR p)) else rr)
  else
    let r := k.toE (k.arE (a + b))
    if r ≥ k.toE p ∨ r < a then k.toE (k.arE (r - k.toE p)) else r

/-- neg / negin -/
def neg (p a : Int) : Int := if a = 0 then 0 else k.toE (k.arE (k.toE p - a))

/-- axpy(r,a,b,c) ; axpyin(r,a,b) is `axpy p a b r` -/
def axpy (p a b c : Int) : Int :=
  k.toE (Int.tmod (k.arC (k.arC (k.toC a * k.toC b) + k.toC c)) (k.toC p))

/-- axmy(r,a,b,c) ; axmyin(r,a,b) is `axmy p a b r` -/
def axmy (p a b c : Int) : Int :=
  k.toE (Int.tmod (k.arC (k.arC (k.arC (k.toC a * k.toC b) + k.toC p) - k.toC c)) (k.toC p))

/-- maxpy(r,a,b,c) ; maxpyin(r,a,b) is `maxpy p a b r` -/
def maxpy (p a b c : Int) : Int :=
  let r := k.toE (Int.tmod (k.arC (k.arC (k.toC a * k.toC b) + k.arC (k.toC p - k.toC c))) (k.toC p))
  k.neg p r

/-- one state of `extended_euclid<Storage_t>` (modular-general.inl:78) -/
structure EuState where
  u0 : Int
  u1 : Int
  d : Int
  r1 : Int
  ng : Bool
deriving DecidableEq, Repr

/-- the loop body -/
def euStep (st : EuState) : EuState :=
  let q := k.toE (Int.tdiv st.d st.r1)
  { u0 := st.u1,
    u1 := k.toE (k.arE (k.arE (q * st.u1) + st.u0)),
    d := st.r1,
    r1 := k.toE (k.arE (st.d - k.arE (q * st.r1))),
    ng := !st.ng }

/-- `while (r1 != 0)` with fuel -/
def euLoop : Nat → EuState → EuState
  | 0, st => st
  | fuel + 1, st => if st.r1 = 0 then st else euLoop fuel (k.euStep st)

/-- `extended_euclid(x, d, a, b)`: returns `(x, d)` -/
def euclid (a b : Int) : Int × Int :=
  let st := k.euLoop (2 * k.s + 2 + a.natAbs) ⟨0, 1, b, a, true⟩
  (if st.ng ∧ st.u0 > 0 then k.toE (k.arE (b - st.u0)) else st.u0, st.d)

/-- inv / invin -/
def inv (p a : Int) : Int :=
  let r := (k.euclid a (k.toE p)).1
  if r < 0 then k.toE (k.arE (r + k.toE p)) else r

/-- div(r,a,b): `Element ib; return mul(r, a, inv(ib, b))` ; divin(r,a) = mulin(r, inv(ia,a)) -/
def div (p a b : Int) : Int := k.mul p a (k.inv p b)
def divin (p r a : Int) : Int := k.mul p r (k.inv p a)

/-- isUnit (modular-implem.h:207) -/
def isUnit (p a : Int) : Bool :=
  let d := (k.euclid a (k.toE p)).2
  d == 1 || d == k.mOne p

/-- reduce(x,y): signed `y % Caster<E>(p)` then `+p` when negative; unsigned `y % p` -/
def reduce (p y : Int) : Int :=
  if k.sg then
    let x := k.toE (Int.tmod y (k.toE p))
    if x < 0 then k.toE (x + p) else x     -- `x + p` is evaluated in int / the unsigned type; both agree after the cast
  else k.toE (Int.tmod y p)

/-! ### init (C04), modular-integral.inl:27-110 — integer sources.
    `w`, `ss`: width and signedness of `Source`; overload selection mirrors the `enable_if` conditions. -/

/-- negin -/
def negin (p r : Int) : Int := if r = 0 then 0 else k.toE (k.arE (k.toE p - r))

/-- value of an arithmetic expression on `Source` operands (int promotion below 32 bits) -/
def arSrc (w : Nat) (ss : Bool) (x : Int) : Int :=
  if w < 32 then wrapSw 32 x else if ss then wrapSw w x else wrapUw w x
def toSrc (w : Nat) (ss : Bool) (x : Int) : Int := if ss then wrapSw w x else wrapUw w x

/-- value of an arithmetic expression on `make_unsigned<Source>` operands -/
def arUSrc (w : Nat) (x : Int) : Int := if w < 32 then wrapSw 32 x else wrapUw w x

def initInt (w : Nat) (ss : Bool) (p y : Int) : Int :=
  if w > k.s then
    if ss then
      -- IS_SINT(Source) && sizeof(Source) > sizeof(Storage_t):
      --   USource uy = (y < 0) ? USource(USource(0) - USource(y)) : USource(y);
      --   x = Caster<Element>(uy % USource(_p)); return (y < 0 ? negin(x) : x);
      let uy := if y < 0 then wrapUw w (arUSrc w (0 - wrapUw w y)) else wrapUw w y
      let x := k.toE (Int.tmod uy (wrapUw w p))
      if y < 0 then k.negin p x else x
    else
      -- IS_UINT(Source) wider: x = Caster<Element>(y % Source(_p))
      k.toE (Int.tmod y (toSrc w ss p))
  else if k.sg then
    if ss then
      -- _init_small_s, signed source: reduce(Caster<Element>(x,y))
      k.reduce p (k.toE y)
    else
      -- _init_small_s, unsigned source: Caster<Element>(Common_t(y) % Common_t(residu())), Common_t = unsigned storage type (int below 32 bits)
      k.toE (Int.tmod (k.arU y) (k.arU p))
  else
    -- _init_small_u, integral source:
    --   uy = (y < 0) ? Element(Element(0) - Caster<Element>(y)) : Caster<Element>(y); reduce(x, uy); if (y < 0) negin(x);
    let uy := if y < 0 then k.toE (k.arE (0 - k.toE y)) else k.toE y
    let x := k.reduce p uy
    if y < 0 then k.negin p x else x

/-- the constants of the constructor (modular-implem.h:63): zero, one, mOne -/
def zero : Int := k.toE 0
def one : Int := k.toE 1

end ICfg

/-! ## (b) floating storage, exact-integer model -/

/-- `fit bits x`: the value is kept only inside the range where every integer is representable -/
def fit (bits : Nat) (x : Int) : Option Int :=
  if -((2 : Int) ^ bits) ≤ x ∧ x ≤ (2 : Int) ^ bits then some x else none

/-- mantissa widths of `Storage_t` and `Compute_t` -/
structure FCfg where
  ms : Nat
  mc : Nat
deriving DecidableEq, Repr

namespace FCfg
variable (k : FCfg)

def valid : Prop := (k.ms = 24 ∧ k.mc = 24) ∨ (k.ms = 53 ∧ k.mc = 53) ∨ (k.ms = 24 ∧ k.mc = 53)
instance : Decidable k.valid := by unfold valid; exact inferInstance

/-- maxCardinality(): 4096.f ; 94906266 ; 16777216.f (modular-implem.h:152-159) -/
def maxCard : Int := if k.ms = 53 then 94906266 else if k.mc = 24 then 4096 else 16777216
def minCard (_k : FCfg) : Int := 2

def fS := fit k.ms
def fC := fit k.mc

/-- add / addin: `tmp = y + z` in Compute_t ; `tmp < _pc ? tmp : tmp - _pc` -/
def add (p y z : Int) : Option Int := do
  let tmp ← k.fC (y + z)
  let r ← if tmp < p then pure tmp else k.fC (tmp - p)
  k.fS r

/-- sub / subin: `(y>=z) ? y-z : (Caster<Element>(_pc)-z)+y` in Element -/
def sub (p y z : Int) : Option Int :=
  if y ≥ z then k.fS (y - z) else do
    let t ← k.fS (p - z)
    k.fS (t + y)

/-- mul / mulin: `fmod(y*z, _pc)` (fmod is exact and keeps the sign of the dividend) -/
def mul (p y z : Int) : Option Int := do
  let t ← k.fC (y * z)
  k.fS (Int.tmod t p)

def neg (p y : Int) : Option Int := if y = 0 then some 0 else k.fS (p - y)

/-- axpy / axpyin -/
def axpy (p a x y : Int) : Option Int := do
  let t ← k.fC (a * x)
  let u ← k.fC (t + y)
  k.fS (Int.tmod u p)

/-- axmy: `fmod(a*x + (_pc - y), _pc)` -/
def axmy (p a x y : Int) : Option Int := do
  let t ← k.fC (a * x)
  let v ← k.fC (p - y)
  let u ← k.fC (t + v)
  k.fS (Int.tmod u p)

/-- maxpy: the same value, then negin -/
def maxpy (p a x y : Int) : Option Int := do
  let r ← k.axmy p a x y
  k.neg p r

/-- maxpyin(r,a,x): `tmp = a*x + (_pc - r)` ; `tmp < _pc ? tmp : fmod(tmp,_pc)` ; negin -/
def maxpyin (p r a x : Int) : Option Int := do
  let t ← k.fC (a * x)
  let v ← k.fC (p - r)
  let tmp ← k.fC (t + v)
  let r' ← k.fS (if tmp < p then tmp else Int.tmod tmp p)
  k.neg p r'

/-- axmyin(r,a,x): maxpyin then negin -/
def axmyin (p r a x : Int) : Option Int := do
  let r' ← k.maxpyin p r a x
  k.neg p r'

/-- state of the floating `extended_euclid` (modular-general.inl:117): u1 v1 u3 v3 -/
structure FEu where
  u1 : Int
  v1 : Int
  u3 : Int
  v3 : Int

/-- loop body: `q = floor(u3 / v3)` is modelled as the exact floor (see the report: the rounded
    quotient of two integers below 2^mantissa has the same floor) -/
def feuLoop : Nat → FEu → Option FEu
  | 0, st => some st
  | fuel + 1, st =>
    if st.v3 = 0 then some st else do
      let q := Int.fdiv st.u3 st.v3
      let qv ← k.fS (q * st.v1)
      let v1' ← k.fS (st.u1 - qv)
      let qw ← k.fS (q * st.v3)
      let v3' ← k.fS (st.u3 - qw)
      feuLoop fuel ⟨st.v1, v1', st.v3, v3'⟩

/-- returns (x, d) -/
def euclid (a b : Int) : Option (Int × Int) := do
  let st ← k.feuLoop (2 * k.ms + 4 + a.natAbs) ⟨1, 0, a, b⟩
  pure (st.u1, st.u3)

def inv (p y : Int) : Option Int := do
  let (x, _) ← k.euclid y p
  if x < 0 then k.fS (x + p) else pure x

def div (p y z : Int) : Option Int := do
  let i ← k.inv p z
  k.mul p y i

def divin (p x y : Int) : Option Int := do
  let i ← k.inv p y
  k.mul p x i

/-- isUnit: `isOne(d) || isMOne(d)` with `mOne = p - 1` -/
def isUnit (p a : Int) : Option Bool := do
  let (_, d) ← k.euclid a p
  pure (d == 1 || d == p - 1)

/-- reduce: `fmod(y, p)` then `+p` when negative -/
def reduce (p y : Int) : Option Int :=
  let x := Int.tmod y p
  if x < 0 then k.fS (x + p) else some x

end FCfg

/-! ## (c) balanced rings -/

/-- NORMALISE -/
def normB (p x : Int) : Int :=
  let halfp := p / 2
  let mhalfp := halfp - p + 1
  if x < mhalfp then x + p else if x > halfp then x - p else x

/-- `ModularBalanced<float|double>`: mantissa width -/
structure BFCfg where
  mb : Nat
deriving DecidableEq, Repr

namespace BFCfg
variable (k : BFCfg)
def valid : Prop := k.mb = 24 ∨ k.mb = 53
instance : Decidable k.valid := by unfold valid; exact inferInstance
/-- maxCardinality(): 8191.f ; 189812531 -/
def maxCard : Int := if k.mb = 24 then 8191 else 189812531
def minCard (_k : BFCfg) : Int := 3
def f := fit k.mb

/-- reduce: `x = fmod(y,_p); NORMALISE(x)` -/
def reduce (p y : Int) : Option Int := k.f (normB p (Int.tmod y p))
def add (p a b : Int) : Option Int := do let r ← k.f (a + b); k.f (normB p r)
def sub (p a b : Int) : Option Int := do let r ← k.f (a - b); k.f (normB p r)
/-- neg: `r = -a; if (r < _mhalfp) r += _p` -/
def neg (p a : Int) : Option Int :=
  let r := -a
  if r < p / 2 - p + 1 then k.f (r + p) else some r
def mul (p a b : Int) : Option Int := do let r ← k.f (a * b); k.reduce p r
def axpy (p a x y : Int) : Option Int := do let t ← k.f (a * x); let r ← k.f (t + y); k.reduce p r
def axmy (p a x y : Int) : Option Int := do let t ← k.f (a * x); let r ← k.f (t - y); k.reduce p r
def maxpy (p a x y : Int) : Option Int := do let t ← k.f (a * x); let r ← k.f (y - t); k.reduce p r

/-- floating Euclid on `(a, p)` with `a` possibly negative -/
def inv (p a : Int) : Option Int := do
  let (x, _) ← (FCfg.mk k.mb k.mb).euclid a p
  k.f (normB p x)
def div (p a b : Int) : Option Int := do let i ← k.inv p b; k.mul p a i
def isUnit (p a : Int) : Option Bool := do
  let (_, d) ← (FCfg.mk k.mb k.mb).euclid a p
  pure (d == 1 || d == -1)
end BFCfg

/-! ### soft-float for the quotient estimate of `ModularBalanced<int32_t|int64_t>` -/

def natLog2 (n : Nat) : Nat := Nat.log2 n

/-- round-to-nearest-even of the rational `n/d` (`d > 0`) to `prec` significant bits, as `(mant, exp)`
    with value `mant * 2^exp`; no subnormals / overflow (magnitudes here are moderate) -/
def rne (prec : Nat) (n : Int) (d : Nat) : Int × Int :=
  if n = 0 ∨ d = 0 then (0, 0) else
  let N := n.natAbs
  -- first guess of the exponent, then adjust so that 2^(prec-1) ≤ q < 2^prec
  let e0 : Int := (natLog2 N : Int) - (natLog2 d : Int) - (prec : Int)
  let quo (e : Int) : Nat × Nat × Nat :=     -- (floor, remainder, divisor) of N / (d * 2^e)
    if e ≥ 0 then let dd := d * 2 ^ e.toNat; (N / dd, N % dd, dd)
    else let nn := N * 2 ^ (-e).toNat; (nn / d, nn % d, d)
  let e := if (quo (e0 + 1)).1 ≥ 2 ^ (prec - 1) then e0 + 1
           else if (quo e0).1 ≥ 2 ^ (prec - 1) then e0 else e0 - 1
  let (q, r, dd) := quo e
  let q' := if 2 * r > dd then q + 1 else if 2 * r = dd then (if q % 2 = 1 then q + 1 else q) else q
  let (m, e') := if q' ≥ 2 ^ prec then (q' / 2, e + 1) else (q', e)
  ((if n < 0 then -(m : Int) else (m : Int)), e')

/-- a dyadic `(m, e)` as the fraction `num / den` -/
def dyNum (x : Int × Int) : Int := if x.2 ≥ 0 then x.1 * 2 ^ x.2.toNat else x.1
def dyDen (x : Int × Int) : Nat := if x.2 ≥ 0 then 1 else 2 ^ (-x.2).toNat

def dyMul (x y : Int × Int) : Int × Int := (x.1 * y.1, x.2 + y.2)
def dyRne (x : Int × Int) : Int × Int := rne 53 (dyNum x) (dyDen x)
/-- truncation toward zero (`static_cast<Element>(double)`) -/
def dyTrunc (x : Int × Int) : Int := Int.tdiv (dyNum x) (dyDen x)
def dyOfInt (x : Int) : Int × Int := rne 53 x 1
def dyAdd (x y : Int × Int) : Int × Int :=
  let e := if x.2 ≤ y.2 then x.2 else y.2
  (x.1 * 2 ^ (x.2 - e).toNat + y.1 * 2 ^ (y.2 - e).toNat, e)

/-- `ModularBalanced<intW_t>` -/
structure BICfg where
  w : Nat
deriving DecidableEq, Repr

namespace BICfg
variable (k : BICfg)
def valid : Prop := k.w = 32 ∨ k.w = 64
instance : Decidable k.valid := by unfold valid; exact inferInstance
/-- maxCardinality(): 131072 ; 6074000999 -/
def maxCard : Int := if k.w = 32 then 131072 else 6074000999
def minCard (_k : BICfg) : Int := 3
def wr (x : Int) : Int := wrapSw k.w x

/-- `_dinvp = 1. / static_cast<double>(p)` -/
def dinvp (p : Int) : Int × Int := rne 53 1 p.toNat

/-- `r = a*b + c - q*p` in `Element` (two's complement), then NORMALISE — for *any* quotient estimate -/
def fmaQ (p q a b c : Int) : Int := normB p (k.wr (k.wr (k.wr (a * b) + c) - k.wr (q * p)))

/-- `q = (Element)(double(a) * double(b) * _dinvp)` -/
def qMul (p a b : Int) : Int := dyTrunc (dyRne (dyMul (dyRne (dyMul (dyOfInt a) (dyOfInt b))) (dinvp p)))
/-- `q = (Element)((double(a) * double(x) + double(y)) * _dinvp)` (unfused) -/
def qAxpy (p a x y : Int) : Int :=
  dyTrunc (dyRne (dyMul (dyRne (dyAdd (dyRne (dyMul (dyOfInt a) (dyOfInt x))) (dyOfInt y))) (dinvp p)))

def mul (p a b : Int) : Int := k.fmaQ p (qMul p a b) a b 0
def axpy (p a x y : Int) : Int := k.fmaQ p (qAxpy p a x y) a x y
def axmy (p a x y : Int) : Int := k.fmaQ p (qAxpy p a x (-y)) a x (-y)
def add (p a b : Int) : Int := normB p (k.wr (a + b))
def sub (p a b : Int) : Int := normB p (k.wr (a - b))
/-- neg: `r = -a; if (r < _mhalfp) r += _p` -/
def neg (p a : Int) : Int :=
  let r := k.wr (-a)
  if r < p / 2 - p + 1 then k.wr (r + p) else r
def maxpy (p a x y : Int) : Int := k.neg p (k.axmy p a x y)
/-- reduce: `x = y % _p; NORMALISE(x)` -/
def reduce (_k : BICfg) (p y : Int) : Int := normB p (Int.tmod y p)
/-- ModularBalanced<int32_t>::init(int64_t | uint64_t): `x = (Element)(y % (Source)_p)`; NORMALISE / NORMALISE_HI -/
def initWide (ss : Bool) (p y : Int) : Int :=
  let x := k.wr (Int.tmod y p)
  if ss then normB p x else (if x > p / 2 then x - p else x)
end BICfg

/-! ## (e) `Modular<Integer>` (modular-integer.inl): `Integer::modin` is `mpz_mod` (result in `[0,|p|)`) -/
namespace ZMod'
def mul (p a b : Int) : Int := (a * b) % p
def sub (p a b : Int) : Int := let r := a - b; if r < 0 then r + p else r
def add (p a b : Int) : Int := let r := a + b; if r ≥ p then r - p else r
def neg (p a : Int) : Int := if a = 0 then a else p - a
def axpy (p a b c : Int) : Int := (a * b + c) % p
def axmy (p a b c : Int) : Int := (a * b - c) % p
def maxpy (p a b c : Int) : Int := (c - a * b) % p
/-- axmyin: maxpyin then negin -/
def axmyin (p r a b : Int) : Int := neg p ((r - a * b) % p)
def reduce (p a : Int) : Int := let r := Int.tmod a p; if r < 0 then r + p else r
end ZMod'

/-! (f) `Modular<ruint<K>[,ruint<K+1>]>` and `Modular<rint<K>>`: Model/ModRingRecInt.lean -/

end Givaro.Model.ModRing
