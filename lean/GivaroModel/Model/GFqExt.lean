/-
C05 — model of what GFqExtFast / GFqExt (gfqext.h) add to GFqDom: the q-adic packing of an element's
coefficients into a double (`_BITS = 53 / (2k-1)` bits per coefficient), and the "defensive" pre-reduction of
`GFqExt::init(Rep&, double)`.  Doubles that hold integers below 2^53 are modelled as `Nat` (exact).
Core Lean only: linked into the driver.
-/
namespace Givaro.Model.GFqExt

/-- `_pceil`: smallest `c ≥ 1` with `p ≤ 2^c` (loop of `builddoubletables`: `for (ppow = 2; ppow < p; ppow <<= 1, ++_pceil)`) -/
def pceilAux (p : Nat) : Nat → Nat → Nat → Nat
  | 0, _, c => c
  | fuel + 1, ppow, c => if ppow < p then pceilAux p fuel (ppow * 2) (c + 1) else c
def pceil (p : Nat) : Nat := pceilAux p p 2 1

/-- `_BITS = std::numeric_limits<double>::digits / ((e << 1) - 1)` -/
def bits (k : Nat) : Nat := 53 / (2 * k - 1)

/-- `_MODOUT = (1 << (_pceil * _exponent)) - 1` — the size of the lookup tables minus one -/
def modout (p k : Nat) : Nat := 2 ^ (pceil p * k) - 1

/-- `GFqExt::init(pad, d)`: `tmp = fmod(d, _fMODOUT); DirectFather_t::init(pad, tmp > 0 ? tmp : tmp + _fMODOUT)`
    — the value handed to the q-adic transform, for an integer-valued `d ≥ 0` -/
def defensiveArg (p k d : Nat) : Nat :=
  let tmp := d % modout p k
  if tmp > 0 then tmp else tmp + modout p k

/-- the coefficients the q-adic transform reads from `d`: `2k-1` digits in base `2^bits` -/
def qadicDigits (k : Nat) (d : Nat) : List Nat :=
  let b := 2 ^ bits k
  (List.range (2 * k - 1)).map (fun i => (d / b ^ i) % b)


/-- `maxdot()`: `_maxn = (_BASE - 1)/(P-1)/(P-1)/e` (after repair C05_6) — the number of products that may be accumulated -/
def maxdot (p k : Nat) : Nat := (2 ^ bits k - 1) / (p - 1) / (p - 1) / k

/-- pinned tree: `_maxn = _BASE/(P-1)/(P-1)/e` -/
def maxdotPinned (p k : Nat) : Nat := 2 ^ bits k / (p - 1) / (p - 1) / k

/-- `convert(double&, a)`: the coefficients packed `bits` bits apart (an integer below 2^53, exact in a double) -/
def pack (k : Nat) : List Nat → Nat
  | [] => 0
  | c :: cs => c + pack k cs * 2 ^ bits k

end Givaro.Model.GFqExt
