/-
C04 (round 2) — `init` / `convert` / `reduce` of the two Montgomery rings, one model function per overload that
overload resolution selects for a source type.  Core Lean only.

(a) `Montgomery<int32_t>` (src/kernel/ring/montgomery-int32.h:130-155, montgomery-int32.inl:241-272)

      init(x)                      x = 0
      init(x, double a)            r = (Element) fmod(|a|, double(_p)); if (a < 0.0) negin(r); redc(r, r * _B2p)
      init(x, int64_t a)           ua = |a| in uint64_t; r = (Element)(ua % uint64_t(_p)); if (a < 0) negin(r); redc(r, r * _B2p)
      init(x, uint64_t a)          r = (Element)(a % uint64_t(_p)); redc(r, r * _B2p)
      init(x, const Integer& a)    r = (Element)(|a| % _p); if (a < 0) negin(r); redc(r, r * _B2p)
      template<T> init(r, a)       Caster<Element>(r, a < 0 ? -a : a) %= _p; if (a < 0) negin(r); redc(r, r * _B2p)
                                   ("T is supposed to be fit into an Element": int8/16/32, uint8/16/32, float below 2^32)
      convert(T& r, a)             r = Caster<T>(redc(c, a))
      reduce(x, y) / reduce(x)     x = y % _p  /  x %= _p            (on the stored word)

    The source value is the integer `a` (floating sources: the integer-valued `a`; `fmod` and the truncating cast are exact on
    them).  `a < 0 ? -a : a` of the template is evaluated in `int` after integral promotion for the 8/16-bit types and in
    `int32_t` itself for `int32_t` — where `-INT32_MIN` overflows (undefined behaviour that both builds resolve by wrapping:
    `wrapS32`; UBSan reports it, fixes/C04_10.patch removes it).

(b) `Montgomery<RecInt::ruint<K>>` (src/kernel/ring/montgomery-ruint.h:124-175)

      init(x)                      x = 0
      init(r, T a)  T integral ≤ 64 bit   ua = |a| in uint64_t; reduce(r, Caster<Element>(ua)); if (a < 0) negin(r); to_mg(r)
      init(r, T a)  T floating            if (!isfinite(a)) r = zero; else init(r, Integer(double(a)))
      init(r, const Integer& a)           Integer::mod(t, a, Integer(_p)); r = Caster<Element>(t); to_mg(r)
      convert(T& r, a)                    Caster<T>(r, mg_reduc(tmp, a))
      reduce(x, y) / reduce(x)            x = y % _p

    `Model.Montgomery.initR` is the machine-integer body (its `% C.R` is `Caster<Element>(ua)`, the identity since `ua < 2^64 ≤ R`),
    `Model.Montgomery.initZ` the `Integer` body.
-/
import GivaroModel.Model.Montgomery
namespace Givaro.Model.MontInit
open Givaro Givaro.Model.Montgomery

/-- the source types of the correspondence grid -/
inductive Src where
  | s8 | u8 | s16 | u16 | s32 | u32 | s64 | u64 | f32 | f64 | Z
deriving Repr, DecidableEq

/-- `a` is a value of the source type (floating sources: an integer-valued finite float/double; that it is exactly
    representable is not needed by any proof) -/
def Src.holds : Src → Int → Prop
  | .s8, a => -128 ≤ a ∧ a ≤ 127 | .u8, a => 0 ≤ a ∧ a ≤ 255
  | .s16, a => -32768 ≤ a ∧ a ≤ 32767 | .u16, a => 0 ≤ a ∧ a ≤ 65535
  | .s32, a => -2147483648 ≤ a ∧ a ≤ 2147483647 | .u32, a => 0 ≤ a ∧ a ≤ 4294967295
  | .s64, a => -9223372036854775808 ≤ a ∧ a ≤ 9223372036854775807 | .u64, a => 0 ≤ a ∧ a ≤ 18446744073709551615
  | .f32, _ => True | .f64, _ => True | .Z, _ => True

instance (s : Src) (a : Int) : Decidable (s.holds a) := by cases s <;> unfold Src.holds <;> infer_instance

/-! ## (a) Montgomery<int32_t> -/

/-- `redc(r, r * _B2p)`: the common last statement of every `init` -/
def toMg32 (F : Ring32) (r : Int) : Int := redc F (wrapU32 (r * F.B2p))

/-- the template `init(r, const T& a)` for an integral `T` of `w ≤ 32` bits: `prom = true` when `-a` is computed after
    integral promotion (8/16-bit types), `false` for `int32_t` / `uint32_t` -/
def initTpl (F : Ring32) (prom : Bool) (a : Int) : Int :=
  let m := if a < 0 then (if prom then -a else wrapS32 (-a)) else a      -- a < 0 ? -a : a
  let r := wrapU32 m                                                      -- Caster<Element>(r, ·)
  let r := r % F.p                                                        -- %= _p
  let r := if a < 0 then neg32 F r else r                                 -- if (a < 0) negin(r)
  toMg32 F r

/-- the template at `T = float` (an integer-valued `a` with `|a| < 2^32`: the cast `float → uint32_t` truncates, exact here) -/
def initTplF32 (F : Ring32) (a : Int) : Int :=
  let m := if a < 0 then -a else a
  let r := wrapU32 m % F.p
  let r := if a < 0 then neg32 F r else r
  toMg32 F r

/-- `init(r, const double a)` -/
def initF64 (F : Ring32) (a : Int) : Int :=
  let m := (if a < 0 then -a else a) % F.p           -- fmod((a < 0.0) ? -a : a, double(_p))       [exact]
  let r := wrapU32 m                                 -- static_cast<Element>
  let r := if a < 0 then neg32 F r else r
  toMg32 F r

/-- `init(r, const int64_t a)` -/
def initS64 (F : Ring32) (a : Int) : Int :=
  let ua := if a < 0 then wrapU64 (0 - wrapU64 a) else wrapU64 a         -- uint64_t(0) - static_cast<uint64_t>(a)
  let r := wrapU32 (ua % F.p)
  let r := if a < 0 then neg32 F r else r
  toMg32 F r

/-- `init(r, const uint64_t a)` -/
def initUns64 (F : Ring32) (a : Int) : Int := toMg32 F (wrapU32 (a % F.p))

/-- `init(r, const Integer& a)`: `Integer % uint32_t` of a non-negative `Integer` is the remainder -/
def initInteger (F : Ring32) (a : Int) : Int :=
  let r := wrapU32 ((if a < 0 then -a else a) % F.p)
  let r := if a < 0 then neg32 F r else r
  toMg32 F r

/-- overload resolution for a source type -/
def init32 (F : Ring32) : Src → Int → Int
  | .s8, a | .u8, a | .s16, a | .u16, a => initTpl F true a
  | .s32, a | .u32, a => initTpl F false a
  | .s64, a => initS64 F a
  | .u64, a => initUns64 F a
  | .f32, a => initTplF32 F a
  | .f64, a => initF64 F a
  | .Z, a => initInteger F a

/-- `init(x)` -/
def init0 : Int := 0
/-- `reduce(x, y)` / `reduce(x)` on a stored `uint32_t` word -/
def reduce32 (F : Ring32) (y : Int) : Int := y % F.p

/-! ## (b) Montgomery<ruint<K>> -/

/-- overload resolution for a source type (`_init<2>` for machine integers, `_init<1>` for finite floating values, the
    `Integer` overload) -/
def initRSrc (C : MgCtx) : Src → Int → Int
  | .f32, a | .f64, a | .Z, a => initZ C a
  | _, a => initR C a

/-- `reduce(x, y)` / `reduce(x)` on a stored `ruint<K>` -/
def reduceR (C : MgCtx) (y : Int) : Int := y % C.p

end Givaro.Model.MontInit
