/-
Model of the Montgomery-form residue arithmetic of givaro (C07).  Core Lean only.

(a) `Montgomery<int32_t>`           src/kernel/ring/montgomery-int32.h / .inl
    `uint32_t` arithmetic is `Int` with an explicit `wrapU32` after every operation that the C++ performs
    in `uint32_t`; `x & MASK32` (MASK32 = 2^16 - 1) on an unsigned word is `x % 65536`, `x >> HALF_BITS32`
    is `x / 65536`.  `extended_euclid<Storage_t>` (ring/modular-general.inl) is transcribed with the
    conversion to `Storage_t` after every arithmetic operation; it is used at `uint32_t` (for `_nim`) and at
    `int32_t` (for `inv`, `isUnit`).

(b) `Montgomery<RecInt::ruint<K>>`  src/kernel/ring/montgomery-ruint.h / .inl
    `RecInt::rmint<K, MG_ACTIVE>`   src/kernel/recint/rmg*.h + rmadd.h rmsub.h rmneg.h rmmul.h rmdiv.h
    `RecInt::rmint<K, MG_INACTIVE>` src/kernel/recint/rmb*.h + the same common files
    A `ruint<K>` is an `Int` in `[0, R)`, `R = 2^(2^K)`.  The `ruint` primitives these files call
    (`mul`, `lmul`, `lsquare`, `laddmul`, `add`, `sub`, `cmp`, `div`, `mod_n`, unary minus) are used through
    their arithmetic contracts modulo `R` (they are the subject of C06); everything above them — the
    Montgomery reduction with its carry test, `to_mg`, `arazi_qi`, `inv_mod`, the two exponentiation loops,
    the constructors — is transcribed branch by branch.
-/
import GivaroModel.Prim.Word
namespace Givaro.Model.Montgomery
open Givaro

/-! ## extended_euclid (modular-general.inl, integral version) -/

/-- The `while (r1 != 0)` loop.  State `(u0, u1, r1, d, neg)`; returns `(u0, d, neg)` at exit.
    `wrap` = conversion to `Storage_t`, `dv` = division of `Storage_t`. -/
def eeLoop (wrap : Int → Int) (dv : Int → Int → Int) : Nat → Int → Int → Int → Int → Bool → Int × Int × Bool
  | 0, u0, _, _, d, neg => (u0, d, neg)
  | fuel + 1, u0, u1, r1, d, neg =>
    if r1 = 0 then (u0, d, neg)
    else
      let q := dv d r1                          -- q = d / r1;
      let u1' := wrap (wrap (q * u1) + u0)      -- t = u1; u1 = q * u1 + u0; u0 = t;
      let r1' := wrap (d - wrap (q * r1))       -- t = r1; r1 = d - q * r1; d = t;
      eeLoop wrap dv fuel u1 u1' r1' r1 (!neg)

/-- `extended_euclid(x, d, a, b)`: returns `(x, d)`.  The fuel `a + 2` suffices whenever `0 ≤ a`
    (`r1` decreases strictly from the second iteration on): `eeLoop_spec` in Lemmas/MontgomeryLemmas. -/
def extendedEuclid (wrap : Int → Int) (dv : Int → Int → Int) (a b : Int) : Int × Int :=
  let s := eeLoop wrap dv (a.toNat + 2) 0 1 a b true
  let u0 := s.1
  let d := s.2.1
  let neg := s.2.2
  (if neg = true ∧ u0 > 0 then wrap (b - u0) else u0, d)

/-- `invext<uint32_t>(a, b)` -/
def invextU32 (a b : Int) : Int := (extendedEuclid wrapU32 (fun x y => x / y) a b).1
/-- `invext<int32_t>(x, a, b)` (signed division truncates) -/
def invextS32 (a b : Int) : Int := (extendedEuclid wrapS32 Int.tdiv a b).1

/-! ## (a) Montgomery<int32_t> -/

/-- `maxCardinality()` of `Montgomery<int32_t>` -/
def maxCard32 : Int := 40503

/-- the data members of the ring object -/
structure Ring32 where
  p : Int
  Bp : Int
  B2p : Int
  B3p : Int
  nim : Int
  one : Int
  mOne : Int
deriving Repr, DecidableEq

/-- `Montgomery(Residu_t p, int = 1)` (the member initialisers in declaration order) -/
def mk32 (p : Int) : Ring32 :=
  let Bp := wrapU32 (65536 % p)                               -- (Residu_t) B32 % p
  let B2p := wrapU32 (wrapU32 (Bp * 65536) % p)               -- (_Bp << HALF_BITS32) % p
  let B3p := wrapU32 (wrapU32 (B2p * 65536) % p)              -- (_B2p << HALF_BITS32) % p
  let nim := wrapU32 (65536 - invextU32 p 65536)              -- B32 - invext(_p, B32)
  { p := p, Bp := Bp, B2p := B2p, B3p := B3p, nim := nim, one := Bp, mOne := wrapU32 (p - Bp) }

/-- final step shared by the six reductions: `return (r >= _p ? r -= _p : r)` -/
def condSub (p r : Int) : Int := if r ≥ p then wrapU32 (r - p) else r

/-- `redc(r, c)` -/
def redc (F : Ring32) (c : Int) : Int :=
  let r := c % 65536                  -- r = c & MASK32
  let r := wrapU32 (r * F.nim)        -- r *= _nim
  let r := r % 65536                  -- r &= MASK32
  let r := wrapU32 (r * F.p)          -- r *= _p
  let r := wrapU32 (r + c)            -- r += c
  let r := r / 65536                  -- r >>= HALF_BITS32
  condSub F.p r

/-- `redcal(c)` -/
def redcal (F : Ring32) (c : Int) : Int :=
  let c0 := c % 65536
  let c0 := wrapU32 (c0 * F.nim) % 65536
  let c0 := wrapU32 (c + wrapU32 (c0 * F.p))
  let c0 := c0 / 65536
  condSub F.p c0

/-- `redcsal(c)` -/
def redcsal (F : Ring32) (c : Int) : Int :=
  let c0 := wrapU32 (c * F.nim) % 65536
  let c0 := wrapU32 (c + wrapU32 (c0 * F.p))
  let c0 := c0 / 65536
  condSub F.p c0

/-- `redcs(r, c)` -/
def redcs (F : Ring32) (c : Int) : Int :=
  let r := wrapU32 (c * F.nim) % 65536
  let r := wrapU32 (c + wrapU32 (r * F.p))
  let r := r / 65536
  condSub F.p r

/-- `redcin(r)` -/
def redcin (F : Ring32) (r : Int) : Int :=
  let c0 := r % 65536
  let c0 := wrapU32 (c0 * F.nim) % 65536
  let r := wrapU32 (r + wrapU32 (c0 * F.p))
  let r := r / 65536
  condSub F.p r

/-- `redcsin(r)` -/
def redcsin (F : Ring32) (r : Int) : Int :=
  let c0 := wrapU32 (r * F.nim) % 65536
  let r := wrapU32 (r + wrapU32 (c0 * F.p))
  let r := r / 65536
  condSub F.p r

/-- `__GIVARO_MONTG32_MUL` -/
def mul32 (F : Ring32) (a b : Int) : Int := redc F (wrapU32 (a * b))
/-- `__GIVARO_MONTG32_MULIN`: `redcin(r *= a)` -/
def mulin32 (F : Ring32) (r a : Int) : Int := redcin F (wrapU32 (r * a))
/-- `__GIVARO_MONTG32_SUB`: `r = (a>=b) ? a-b : (p-b)+a` -/
def sub32 (F : Ring32) (a b : Int) : Int :=
  if a ≥ b then wrapU32 (a - b) else wrapU32 (wrapU32 (F.p - b) + a)
/-- `__GIVARO_MONTG32_SUBIN`: `if (r<a) r += (p-a); else r -= a;` -/
def subin32 (F : Ring32) (r a : Int) : Int :=
  if r < a then wrapU32 (r + wrapU32 (F.p - a)) else wrapU32 (r - a)
/-- `__GIVARO_MONTG32_ADD` / `ADDIN`: `r = a+b; r = (r < p ? r : r-p)` -/
def add32 (F : Ring32) (a b : Int) : Int :=
  let r := wrapU32 (a + b)
  if r < F.p then r else wrapU32 (r - F.p)
/-- `__GIVARO_MONTG32_NEG` / `NEGIN` -/
def neg32 (F : Ring32) (a : Int) : Int := if a = 0 then 0 else wrapU32 (F.p - a)
/-- `inv(r, a)` -/
def inv32 (F : Ring32) (a : Int) : Int :=
  let t := invextS32 (wrapS32 a) (wrapS32 F.p)          -- invext(t, int32_t(a), int32_t(_p))
  let t := if t < 0 then wrapS32 (wrapU32 t + F.p) else t    -- if (t < 0) t += _p   (computed in uint32_t, stored in int32_t)
  redc F (wrapU32 (wrapU32 t * F.B3p))
/-- `isUnit(a)` -/
def isUnit32 (F : Ring32) (a : Int) : Bool :=
  let d := (extendedEuclid wrapS32 Int.tdiv (wrapS32 a) (wrapS32 F.p)).2
  d = 1 || d = -1
/-- `div(r, a, b)`: `mulin(inv(r, b), a)` -/
def div32 (F : Ring32) (a b : Int) : Int := mulin32 F (inv32 F b) a
/-- `divin(r, a)`: `inv(ia, a); mulin(r, ia)` -/
def divin32 (F : Ring32) (r a : Int) : Int := mulin32 F r (inv32 F a)
/-- `__GIVARO_MONTG32_MULADD`: `r = redcal(a*b) + c; r = (r < p ? r : r-p)` -/
def axpy32 (F : Ring32) (a b c : Int) : Int :=
  let r := wrapU32 (redcal F (wrapU32 (a * b)) + c)
  if r < F.p then r else wrapU32 (r - F.p)
/-- `__GIVARO_MONTG32_MULADDIN`: `r += redcal(a*b); …` -/
def axpyin32 (F : Ring32) (r a b : Int) : Int :=
  let r := wrapU32 (r + redcal F (wrapU32 (a * b)))
  if r < F.p then r else wrapU32 (r - F.p)
/-- `axmy(r,a,b,c)`: `subin(mul(r,a,b), c)` -/
def axmy32 (F : Ring32) (a b c : Int) : Int := subin32 F (mul32 F a b) c
/-- `maxpy(r,a,b,c)`: `sub(r, c, mul(t,a,b))` -/
def maxpy32 (F : Ring32) (a b c : Int) : Int := sub32 F c (mul32 F a b)
/-- `maxpyin(r,a,b)`: `subin(r, mul(t,a,b))` -/
def maxpyin32 (F : Ring32) (r a b : Int) : Int := subin32 F r (mul32 F a b)
/-- `axmyin(r,a,b)`: `maxpyin(r,a,b); negin(r)` -/
def axmyin32 (F : Ring32) (r a b : Int) : Int := neg32 F (maxpyin32 F r a b)

/-- `init(r, const uint64_t a)` -/
def initU64 (F : Ring32) (a : Int) : Int :=
  let r := wrapU32 (a % F.p)                         -- static_cast<Element>(a % uint64_t(_p))
  redc F (wrapU32 (r * F.B2p))
/-- `init(r, const int64_t a)` (also the model of the `Integer` overload and of the template overload:
    they differ only in the type in which `|a| % p` is computed) -/
def initI64 (F : Ring32) (a : Int) : Int :=
  let r := wrapU32 ((if a < 0 then -a else a) % F.p) -- static_cast<Element>(std::abs(a) % int64_t(_p))
  let r := if a < 0 then neg32 F r else r            -- if (a < 0) negin(r)
  redc F (wrapU32 (r * F.B2p))
/-- `convert(r, a)` -/
def convert32 (F : Ring32) (a : Int) : Int := redc F a

/-! ## (b) RecInt -/

/-- `ruint<K>` primitives through their contracts modulo `R` -/
def uMul (R a b : Int) : Int := (a * b) % R                 -- mul(a, b, c): low part
def uAdd (R a b : Int) : Int := (a + b) % R                 -- add(a, b)
def uCarry (R a b : Int) : Bool := decide (a + b ≥ R)       -- add(r, a, b, c): the carry
def uSub (R a b : Int) : Int := (a - b) % R                 -- sub(a, b, c)
def uNeg (R a : Int) : Int := (-a) % R                      -- operator-

/-- number of bits of level `n` (`ruint<6+n>`) -/
def bitsOf (n : Nat) : Nat := 64 * 2 ^ n
def radix (n : Nat) : Int := 2 ^ bitsOf n

/-- `arazi_qi` at a limb (`ruint<6>`): `uint64_t` arithmetic, the loop `for (i = 2; i < 64; i <<= 1)` runs 5 times -/
def araziLimbLoop : Nat → Int → Int → Int
  | 0, _, u => u
  | k + 1, amone, u =>
    let amone := wrapU64 (amone * amone)       -- amone *= amone
    let amone1 := wrapU64 (amone + 1)          -- ++amone
    let u := wrapU64 (u * amone1)              -- u.Value *= amone
    let amone := wrapU64 (amone1 - 1)          -- --amone
    araziLimbLoop k amone u

def araziLimb (a : Int) : Int :=
  if a = 1 then 1
  else
    let amone := wrapU64 (a - 1)
    let u := araziLimbLoop 5 amone 1
    wrapU64 (u * wrapU64 (2 - a))              -- u.Value *= (2 - a.Value)

/-- `arazi_qi(u, a)` on `ruint<6+n>` -/
def arazi : Nat → Int → Int
  | 0, a => araziLimb a
  | n + 1, a =>
    let H := radix n
    let aL := a % H
    let aH := a / H
    let uL := arazi n aL                       -- arazi_qi(u.Low, a.Low)
    let t1 := (uL * aL) / H                    -- lmul(t1, t2, u.Low, a.Low): t1 = high half
    let t2 := uMul H uL aH                     -- mul(t2, u.Low, a.High)
    let t1 := uAdd H t1 t2                     -- add(t1, t2)
    let t1 := uMul H t1 uL                     -- mul(t1, u.Low)
    uL + H * uNeg H t1                         -- copy(u.High, -t1)

/-- the data of a Montgomery context over `ruint<K>` (`R = 2^(2^K)`) -/
structure MgCtx where
  R : Int
  p : Int
  p1 : Int
  r : Int
  r2 : Int
  r3 : Int
deriving Repr, DecidableEq

/-- `mg_reduc(a, b)` of `Montgomery<ruint<K>>` (both overloads: `b` an `Element` or a `LargeElement`) and
    `reduction(t, a)` of `rmint<K, MGA>` (both overloads) — the four bodies are the same text:
    `mul(b0, b.Low, p1); laddmul(r, a, b0, b0, p, b); if (r || a >= p) sub(a, p);` -/
def mgReduc (C : MgCtx) (b : Int) : Int :=
  let b0 := uMul C.R (b % C.R) C.p1            -- m = b * p1 mod r
  let t := b0 * C.p + b                        -- (r | a | b0) = b0 * p + b
  let a := (t / C.R) % C.R
  let r : Bool := decide (t / (C.R * C.R) ≠ 0)
  if r = true ∨ a ≥ C.p then uSub C.R a C.p else a

/-- `Montgomery<ruint<K>>::Montgomery(const Residu_t& p)` for `K = 6 + n` -/
def mkR (n : Nat) (p : Int) : MgCtx :=
  let R := radix n
  let mp := uNeg R p
  let p1 := arazi n mp                         -- arazi_qi(_p1, -_p)
  let r := mp % p                              -- mod_n(_r, -_p, _p)
  let r2 := (r * r) % p                        -- lmul; mod_n
  let r3 := (r2 * r) % p
  { R := R, p := p, p1 := p1, r := r, r2 := r2, r3 := r3 }

def mulR (C : MgCtx) (a b : Int) : Int := mgReduc C (a * b)          -- lmul(res, a, b); mg_reduc(r, res)
def toMgR (C : MgCtx) (b : Int) : Int := mulR C b C.r2               -- to_mg(a, b): mul(a, b, _r2)
/-- `add` / `addin` (and `rmint` `add`): `add(ret, r, a, b); if (ret || r >= p) sub(r, p)` -/
def addR (C : MgCtx) (a b : Int) : Int :=
  let ret := uCarry C.R a b
  let r := uAdd C.R a b
  if ret = true ∨ r ≥ C.p then uSub C.R r C.p else r
/-- `sub(r, a, b)`: `if (a < b) { sub(r, p, b); add(r, a); } else sub(r, a, b)` -/
def subR (C : MgCtx) (a b : Int) : Int :=
  if a < b then uAdd C.R (uSub C.R C.p b) a else uSub C.R a b
/-- `subin(r, a)`: `if (r < a) add(r, p - a); else sub(r, a)` -/
def subinR (C : MgCtx) (r a : Int) : Int :=
  if r < a then uAdd C.R r (uSub C.R C.p a) else uSub C.R r a
def negR (C : MgCtx) (a : Int) : Int := if a = 0 then 0 else uSub C.R C.p a

/-- the loop of `inv_mod(a, b, c)` (ruinvmod.h); state `(a2, b2, a, x)` -/
def invModLoop (R c : Int) : Nat → Int → Int → Int → Int → Int
  | 0, _, _, a, _ => a
  | fuel + 1, a2, b2, a, x =>
    if b2 = 0 then a
    else
      let q := a2 / b2                                   -- div(q, r, a2, b2)
      let r := a2 % b2
      let temp := (q * x) % c                            -- lmul(resmul, q, x); mod_n(temp, resmul, c)
      let temp := if temp ≠ 0 then uSub R c temp else temp
      let ret := uCarry R temp a                         -- add(ret, temp, a)
      let temp := uAdd R temp a
      let temp := if ret = true ∨ temp ≥ c then uSub R temp c else temp
      invModLoop R c fuel b2 r x temp
/-- `inv_mod(a, b, c)` -/
def invMod (R b c : Int) : Int := invModLoop R c (c.toNat + 2) b c 1 0

def invR (C : MgCtx) (a : Int) : Int := mulR C (invMod C.R a C.p) C.r3      -- inv_mod(r, a, _p); mulin(r, _r3)
def divR (C : MgCtx) (a b : Int) : Int := mulR C (invR C b) a               -- mulin(inv(r, b), a)
def divinR (C : MgCtx) (r a : Int) : Int := mulR C r (invR C a)             -- mulin(r, inv(ia, a))
def axpyR (C : MgCtx) (a b c : Int) : Int := addR C (mulR C a b) c          -- mul(r,a,b); addin(r,c)
def axpyinR (C : MgCtx) (r a b : Int) : Int := addR C r (mulR C a b)
def maxpyR (C : MgCtx) (a b c : Int) : Int := subR C c (mulR C a b)         -- mul(r,a,b); sub(r,c,r)
def maxpyinR (C : MgCtx) (r a b : Int) : Int := subinR C r (mulR C a b)
def axmyR (C : MgCtx) (a b c : Int) : Int := subinR C (mulR C a b) c        -- mul(r,a,b); subin(r,c)
def axmyinR (C : MgCtx) (r a b : Int) : Int := subR C (mulR C a b) r        -- mul(res,a,b); sub(r,res,r)
/-- `init(r, a)`: `reduce(r, |a|); if (a < 0) negin(r); to_mg(r)` -/
def initR (C : MgCtx) (a : Int) : Int :=
  let r := ((if a < 0 then -a else a) % C.R) % C.p
  let r := if a < 0 then negR C r else r
  toMgR C r
def convertR (C : MgCtx) (a : Int) : Int := mgReduc C a
/-- `isUnit`: `gcd(d, a, _p); d == 1 || d == -1` (gcd through its contract) -/
def isUnitR (C : MgCtx) (a : Int) : Bool := Int.gcd a C.p = 1

/-! ### rmint<K, MG_ACTIVE> -/

/-- `rmint<K,MGA>::init_module(p)`: `p1 = arazi_qi(-p); r = (-p) mod p` (`r2`, `r3` unused: 0) -/
def mkA (n : Nat) (p : Int) : MgCtx :=
  let R := radix n
  let mp := uNeg R p
  { R := R, p := p, p1 := arazi n mp, r := mp % p, r2 := 0, r3 := 0 }

/-- `to_mg(a, b)`: `res.High = b; res.Low = 0; mod_n(a, res, p)` -/
def toMgA (C : MgCtx) (b : Int) : Int := (b * C.R) % C.p
def mulA (C : MgCtx) (b c : Int) : Int := mgReduc C (b * c)
def squareA (C : MgCtx) (b : Int) : Int := mgReduc C (b * b)
def getRuintA (C : MgCtx) (a : Int) : Int := mgReduc C a
def addmulA (C : MgCtx) (a b c : Int) : Int := addR C a (mulA C b c)
/-- `inv(a, b)`: `reduction(a, b); inv_mod(a, a, p); to_mg(a)` -/
def invA (C : MgCtx) (b : Int) : Int := toMgA C (invMod C.R (mgReduc C b) C.p)
/-- `div(a, b, c)` (rmdiv.h): `inv(ci, c); if (ci == 0) reset(a); else mul(a, b, ci)` -/
def divA (C : MgCtx) (b c : Int) : Int :=
  let ci := invA C c
  if ci = 0 then 0 else mulA C b ci
/-- `exp(a, b, const UDItype& c)` (rmgexp.h): right-to-left binary -/
def expBinLoopA (C : MgCtx) : Nat → Int → Int → Int → Int
  | 0, a, _, _ => a
  | fuel + 1, a, x, e =>
    if e = 0 then a
    else
      let a := if e % 2 = 1 then mulA C a x else a
      expBinLoopA C fuel a (mulA C x x) (e / 2)
def expU64A (C : MgCtx) (b e : Int) : Int := expBinLoopA C 64 C.r b e

/-- table `g[0..15]` of `exp(a, b, const ruint<K>& c)`: `g[0] = r; g[i] = g[i-1] * b` -/
def gTable (C : MgCtx) (b : Int) : Nat → List Int → List Int
  | 0, acc => acc.reverse
  | k + 1, acc =>
    match acc with
    | [] => gTable C b k [C.r]
    | g :: _ => gTable C b k (mulA C g b :: acc)

/-- the window loops: nibbles `j = top … 1` do `a = a * g[nib]; a = a^16`, the last nibble only multiplies -/
def expWinLoopA (C : MgCtx) (g : List Int) (e : Int) : Nat → Int → Int
  | 0, a => mulA C a (g.getD (e % 16).toNat 0)
  | j + 1, a =>
    let nib := (e / 16 ^ (j + 1)) % 16
    let a := mulA C a (g.getD nib.toNat 0)
    let a := squareA C (squareA C (squareA C (squareA C a)))
    expWinLoopA C g e j a
/-- `exp(a, b, const ruint<K>& c)` for `K = 6 + n` (`2^K / 4` nibbles) -/
def expWinA (n : Nat) (C : MgCtx) (b e : Int) : Int :=
  let g := gTable C b 16 []
  expWinLoopA C g e (bitsOf n / 4 - 1) C.r
/-- `rmint(const T b)` for signed `T`: `Value(|b|); mod_n(Value, p); if (b < 0) sub(Value, p, Value); to_mg` -/
def ctorSignedA (C : MgCtx) (b : Int) : Int :=
  let v := (if b < 0 then -b else b) % C.p
  let v := if b < 0 then uSub C.R C.p v else v
  toMgA C v

/-! ### rmint<K, MG_INACTIVE> -/
def mulI (p b c : Int) : Int := (b * c) % p                         -- lmul; mod_n
def addmulI (p a b c : Int) : Int := (b * c + a) % p                -- laddmul(res, b, c, a); reduction
/-- `exp_mod(a, b, c, n)` (ruexp.h): all bits of the exponent type are scanned -/
def expModLoop (n : Int) : Nat → Int → Int → Int → Int
  | 0, a, _, _ => a
  | fuel + 1, a, x, e =>
    let a := if e % 2 = 1 then (a * x) % n else a
    expModLoop n fuel a ((x * x) % n) (e / 2)
def expModI (bits : Nat) (p b e : Int) : Int := expModLoop p bits 1 b e
def divI (R p b c : Int) : Int :=
  let ci := invMod R c p
  if ci = 0 then 0 else mulI p b ci
/-- `rmint<K,MGI>(const T b)` for signed `T`:
    `Value(|b|); mod_n(Value, p); if (b < 0 && Value != 0) sub(Value, p, Value)` -/
def ctorSignedI (R p b : Int) : Int :=
  let v := (if b < 0 then -b else b) % p
  if b < 0 ∧ v ≠ 0 then uSub R p v else v
/-- `rmint<K,MGI>(const rmint<K,MGA>& c)`: `Value(get_ruint(c)) { reduction(*this); }` -/
def ctorIfromA (C : MgCtx) (x : Int) : Int := (getRuintA C x) % C.p

/-! ### built-in scalars mixed with `rmint` operands (`T` arithmetic): every overload first builds `rmint(c)` -/
/-- `mul(a, b, const T& c)` (rmgmul.h): `cr(c); mul(a, b, cr)` -/
def mulScalarA (C : MgCtx) (b v : Int) : Int := mulA C b (ctorSignedA C v)
/-- `mul(a, b, const T& c)` (rmbmul.h): `cr(c); mul(a, b, cr)` -/
def mulScalarI (R p b v : Int) : Int := mulI p b (ctorSignedI R p v)
/-- `inv(a, const T& b)` (rmginv.h): `br(b); inv(a, br)` -/
def invScalarA (C : MgCtx) (v : Int) : Int := invA C (ctorSignedA C v)
/-- `inv(a, const T& b)` (rmbinv.h): `br(b); inv(a, br)` -/
def invScalarI (R p v : Int) : Int := invMod R (ctorSignedI R p v) p

/-! ### sources of any magnitude: construction from `ruint<K>` / `rint<K>`, `mpz_to_rmint`, `init` from an `Integer`, `==` -/

/-- `rint<K>::isNegative()`: the top bit of the word -/
def rintNeg (R c : Int) : Bool := decide (c ≥ R / 2)
/-- `rmint<K,MGA>(const ruint<K>& c)`: `Value(c) { to_mg(*this); }` — any word `c` -/
def ctorRuintA (C : MgCtx) (c : Int) : Int := toMgA C c
/-- `rmint<K,MGI>(const ruint<K>& c)`: `Value(c) { reduction(*this); }` with `reduction(t)`: `mod_n(t.Value, t.p)` -/
def ctorRuintI (p c : Int) : Int := c % p
/-- `rmint<K,MGA>(const rint<K>& c)`: `Value(c.isNegative() ? (-c).Value : c.Value) { to_mg(*this); if (c.isNegative()) neg(*this); }` -/
def ctorRintA (C : MgCtx) (c : Int) : Int :=
  let m := if rintNeg C.R c = true then uNeg C.R c else c
  let x := toMgA C m
  if rintNeg C.R c = true then negR C x else x
/-- `rmint<K,MGI>(const rint<K>& c)`: `Value(|c|) { reduction(*this); if (c.isNegative()) neg(*this); }` -/
def ctorRintI (R p c : Int) : Int :=
  let m := if rintNeg R c = true then uNeg R c else c
  let v := m % p
  if rintNeg R c = true then negR ⟨R, p, 0, 0, 0, 0⟩ v else v
/-- `mpz_to_rmint(a, b)` (rmconvert.h, repaired): `c = b mod p` over Z; `mpz_to_ruint(a.Value, c); get_ready(a)` -/
def mpzToA (C : MgCtx) (b : Int) : Int := toMgA C (b % C.p)
def mpzToI (p b : Int) : Int := (b % p) % p
/-- `Montgomery<ruint<K>>::init(Element&, const Integer&)` (repaired): `Integer::mod(t, a, p); r = t; to_mg(r)` -/
def initZ (C : MgCtx) (a : Int) : Int := toMgR C (a % C.p)
/-- `operator==(const rmint<K,MGA>& a, const T& b)` / `(…, const ruint<K>& b)`: `rmint<K,MGA> br(b); a.Value == br.Value` -/
def eqScalarA (C : MgCtx) (x b : Int) : Bool := decide (x = ctorSignedA C b)
/-- `operator==(const rmint<K,MGI>& a, const T& b)` (repaired): `rmint<K,MGI> br(b); a.Value == br.Value` -/
def eqScalarI (R p v b : Int) : Bool := decide (v = ctorSignedI R p b)

end Givaro.Model.Montgomery
