/-
C08 — executable model of `Interpolation<Domain>` (src/library/poly1/givinterp.h): incremental Newton interpolation with a
divided-difference column, core Lean only.

The object holds `inter` (the interpolant so far), `Pi = Π (X - x_j)` over all points but the last, `Points` and the column
`DD` (`DD[j] = f[x_j, …, x_k]`).  `Points` and `DD` are stored here most recent first, because `operator()` walks them
with reverse iterators.
-/
import GivaroModel.Model.Poly

namespace Givaro.Model.PolyInterp
open Givaro.Model.Poly

variable {K : Type} [Zero K] [One K] [Add K] [Sub K] [Neg K] [Mul K] [Div K] [Inv K] [DecidableEq K]

/-- `shiftin(R, s)`: `R.insert(R.begin(), s, zero)` (givpoly1muldiv.inl) -/
def shiftin (R : List K) (s : Nat) : List K := zeros s ++ R

structure St (K : Type) where
  inter : List K
  Pi : List K
  ptsR : List K      -- `Points`, most recent first
  ddR : List K       -- `DD`, most recent first

/-- constructor: `Pi(this->one)`, everything else empty -/
def init : St K := ⟨[], [1], [], []⟩

/-- the loop `for (prev = DD.rbegin(), next = DD.rbegin(), point = Points.rbegin(); ++next != DD.rend(); ++prev, ++point)
    divin(subin(*next, *prev), sub(tmp, *point, x))`: arguments are the entry `*prev` just computed, the older entries of
    `DD` and the older points, all walked backwards -/
def ddUpdate (x : K) : K → List K → List K → List K
  | prev, d :: ds, p :: ps => ((d - prev) / (p - x)) :: ddUpdate x ((d - prev) / (p - x)) ds ps
  | _, _, _ => []

/-- `operator()(x, f)` -/
def step (st : St K) (x f : K) : St K :=
  if st.ddR.isEmpty then
    -- first point: `DD = [f]`, `Pi` stays `1`
    ⟨addin st.inter (mulVal st.Pi f), st.Pi, x :: st.ptsR, [f]⟩
  else
    let M := mulVal st.Pi (st.ptsR.headD 0)              -- mul(M, Pi, Points.back())
    let Pi1 := subin (shiftin st.Pi 1) M                 -- shiftin(Pi, 1); subin(Pi, M)
    let dd1 := f :: ddUpdate x f st.ddR st.ptsR
    ⟨addin st.inter (mulVal Pi1 (dd1.getLast?.getD 0)),   -- mul(M, Pi, DD.front()); addin(inter, M)
     Pi1, x :: st.ptsR, dd1⟩

/-- the object after `I(x_0, f_0); I(x_1, f_1); …` -/
def run (pts : List (K × K)) : St K := pts.foldl (fun st p => step st p.1 p.2) init

/-- `interpolator()` -/
def interpolator (pts : List (K × K)) : List K := (run pts).inter

end Givaro.Model.PolyInterp
