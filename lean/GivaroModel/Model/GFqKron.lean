/-
C05 — model of what `GFqKronecker<TT,Ints>` (gfqkronecker.h) adds to `GFqDom`: the shift/mask state and the Kronecker
conversions between an element and an integer packing of its coefficients.

    GFqKronecker(P,e) : _degree(e-1), _epmunsq(e*(P-1)*(P-1)) { buildsmalltables(); setShift(digits(UTT)/((e<<1)-1)); }
    setShift(i) : _SHIFTS = i; _sBASE = 1 << _SHIFTS; _sMASK = _sBASE - 1; return _sMAXN = (_sBASE - 1) / _epmunsq;
    setMaxn(n)  : _sMAXN = n; m = _sMAXN * _epmunsq; _SHIFTS = 0; for (_sBASE = 1; _sBASE <= m; ++_SHIFTS, _sBASE <<= 1);
                  _sMASK = _sBASE - 1; return _SHIFTS;
  (after repair C05_4; the pinned tree had `_sBASE / _epmunsq` and `_sBASE < m`: `setShiftPinned`, `setMaxnPinned` below)
    convert(r,a): r = Σ_i coeff_i(a) << (_SHIFTS * i)
    init(a,r)   : coefficient j of the polynomial is ((r >> (_SHIFTS*j)) & _sMASK) % p, j = 0 … 2e-2;  a = H·X^e + L

`Ints` is an arbitrary-precision integer (`Nat`: only non-negative packings occur); the element side is the coefficient list
of the polynomial (the table lookups `_log2bin`, `_bin2log`, `_Xk` are the bijection of `GFqDom`).  Core Lean only.
-/
namespace Givaro.Model.GFqKron

structure KState where
  p : Nat
  k : Nat
  shift : Nat
  base : Nat
  mask : Nat
  maxn : Nat
deriving Repr, BEq

/-- `_epmunsq = e (P-1)²` -/
def epmunsq (p k : Nat) : Nat := k * (p - 1) * (p - 1)

def setShift (s : KState) (i : Nat) : KState :=
  let base := 1 <<< i
  { s with shift := i, base := base, mask := base - 1, maxn := (base - 1) / epmunsq s.p s.k }

/-- `for (_sBASE = 1; _sBASE <= m; ++_SHIFTS, _sBASE <<= 1);` -/
def growBase (m : Nat) : Nat → Nat → Nat → Nat × Nat
  | 0, sh, b => (sh, b)
  | fuel + 1, sh, b => if b ≤ m then growBase m fuel (sh + 1) (b <<< 1) else (sh, b)

/-- pinned tree: `_sMAXN = _sBASE / _epmunsq` -/
def setShiftPinned (s : KState) (i : Nat) : KState :=
  let base := 1 <<< i
  { s with shift := i, base := base, mask := base - 1, maxn := base / epmunsq s.p s.k }

/-- pinned tree: `for (_sBASE = 1; _sBASE < m; …)` -/
def growBasePinned (m : Nat) : Nat → Nat → Nat → Nat × Nat
  | 0, sh, b => (sh, b)
  | fuel + 1, sh, b => if b < m then growBasePinned m fuel (sh + 1) (b <<< 1) else (sh, b)

def setMaxnPinned (s : KState) (n : Nat) : KState :=
  let m := n * epmunsq s.p s.k
  let (sh, b) := growBasePinned m (m + 1) 0 1
  { s with maxn := n, shift := sh, base := b, mask := b - 1 }

def setMaxn (s : KState) (n : Nat) : KState :=
  let m := n * epmunsq s.p s.k
  let (sh, b) := growBase m (m + 1) 0 1
  { s with maxn := n, shift := sh, base := b, mask := b - 1 }

/-- the constructor: `setShift(64 / (2e - 1))` for `UTT = uint64_t` -/
def ctor (p k : Nat) : KState :=
  setShift { p := p, k := k, shift := 0, base := 0, mask := 0, maxn := 0 } (64 / (2 * k - 1))

inductive Op where
  | shift (i : Nat)
  | maxn (n : Nat)
deriving Repr

def step (s : KState) : Op → KState
  | .shift i => setShift s i
  | .maxn n => setMaxn s n

def run (s : KState) (ops : List Op) : KState := ops.foldl step s

/-- `convert(r, a)`: the coefficients `cs` (low first, `k` of them) packed with `_SHIFTS` bits each -/
def convert (s : KState) : List Nat → Nat
  | [] => 0
  | c :: cs => c + (convert s cs <<< s.shift)

/-- the `2k-1` coefficients `init(a, r)` reads from `r` -/
def unpack (s : KState) (r : Nat) : List Nat :=
  (List.range (2 * s.k - 1)).map (fun j => ((r >>> (s.shift * j)) &&& s.mask) % s.p)

end Givaro.Model.GFqKron
