/-
C12 — executable model of the primality / factorisation code of
  src/kernel/integer/givintprime.{h,C,inl}, givintfactor.{h,inl}, gmp++/gmp++_int_misc.C (Protected::prevprime).

The model mirrors the code branch by branch.  Machine words are `Int` with explicit wraps where the C++ converts
(`(int32_t)convert(l,n)`, the `int` subtraction `TP[here] - n`).  Array reads go through `tpRead`, which makes a
read outside the declared array visible as `none` (`search_in_bounds` in Props/C12.lean proves it never happens).
What the code gets from GMP's probabilistic test (`mpz_probab_prime_p`) and from Pollard/Lenstra is a *parameter*
(`oracle`, `pf`): theorems quantify over every oracle satisfying the stated contract.
Core Lean only (linked into the driver).
-/
import GivaroModel.Prim.Word
import GivaroModel.Prim.Gmp
import GivaroModel.Model.PrimesTables
namespace Givaro.Model.Primes
open Givaro

/-! ### `isprime_Tabule`, `isprime_Tabule2` (givintprime.C) -/

/-- `TP[here]` where `TP = &IP[2]`: element `here+2` of an array of `size` ints; `none` = read outside the array -/
def tpRead (tab : Nat → Int) (size : Nat) (here : Int) : Option Int :=
  if 0 ≤ here + 2 ∧ here + 2 < (size : Int) then some (tab (here + 2).toNat) else none

/-- the loop `for (loop = L; loop; loop >>= 1) { a = TP[here]-n; if (a==0) return 1;
      if (a>0) here -= (++plus >>= 1); else here += (++plus >>= 1); } return 0;`
    (`fuel` bounds the number of halvings of `loop`; 32 suffices for an `int`) -/
def searchAux (tab : Nat → Int) (size : Nat) (n : Int) : Nat → Nat → Int → Int → Option Int
  | 0, _, _, _ => some 0
  | fuel+1, loop, plus, here =>
    if loop = 0 then some 0 else
    match tpRead tab size here with
    | none => none
    | some t =>
      let a := wrapS32 (t - n)
      if a = 0 then some 1 else
      let plus' := (plus + 1) / 2
      if a > 0 then searchAux tab size n fuel (loop / 2) plus' (here - plus')
      else searchAux tab size n fuel (loop / 2) plus' (here + plus')

/-- `int IntPrimeDom::isprime_Tabule(const int n)` : `plus = LOGMAX >> 1; here = plus; …` -/
def isprime_Tabule (n : Int) : Option Int :=
  searchAux ipAt ipSize n 32 LOGMAX ((LOGMAX / 2 : Nat) : Int) ((LOGMAX / 2 : Nat) : Int)

/-- `int IntPrimeDom::isprime_Tabule2(const int n)` -/
def isprime_Tabule2 (n : Int) : Option Int :=
  searchAux ip2At ip2Size n 32 LOGMAX2 ((LOGMAX2 / 2 : Nat) : Int) ((LOGMAX2 / 2 : Nat) : Int)

/-! ### `IntPrimeDom::isprime` (givintprime.h) -/

/-- `(int32_t)convert(l,n)` : `Integer → int64_t` is `mpz_get_si`, then the narrowing conversion -/
def toInt32 (n : Int) : Int := wrapS32 (mpz_get_si n)

/-- `isprime(n, r)`; `oracle n` stands for `Protected::probab_prime(n, r) = mpz_probab_prime_p`.
    The first line is the guard added by fixes/C12_2 (before it, `isprime(-1)` matched the `-1` padding of `IP`). -/
def isprime (oracle : Int → Int) (n : Int) : Option Int :=
  if n < 2 then some 0 else
  if n < (BOUNDARY_isprime : Int) then isprime_Tabule (toInt32 n)
  else if n < (BOUNDARY_2_isprime : Int) then isprime_Tabule2 (toInt32 n)
  else some (wrapS32 (oracle n))

/-- the code before fixes/C12_2 (kept for the counterexample theorem) -/
def isprime_unfixed (oracle : Int → Int) (n : Int) : Option Int :=
  if n < (BOUNDARY_isprime : Int) then isprime_Tabule (toInt32 n)
  else if n < (BOUNDARY_2_isprime : Int) then isprime_Tabule2 (toInt32 n)
  else some (wrapS32 (oracle n))

/-- truth value the callers use: `while (! isprime(n,r))` (an out-of-bounds read would be undefined: treated as false) -/
def ispB (oracle : Int → Int) (n : Int) : Bool :=
  match isprime oracle n with
  | some v => v != 0
  | none => false

/-! ### `nextprime`, `prevprime` (givintprime.C) -/

/-- `while (! isprime(n,r)) addin(n,2);`  (`none` = fuel exhausted) -/
def upLoop (isp : Int → Bool) : Nat → Int → Option Int
  | 0, _ => none
  | fuel+1, n => if isp n then some n else upLoop isp fuel (n + 2)

/-- `while (! isprime(n,r)) subin(n,2);` -/
def downLoop (isp : Int → Bool) : Nat → Int → Option Int
  | 0, _ => none
  | fuel+1, n => if isp n then some n else downLoop isp fuel (n - 2)

/-- `nextprime(n, p)` / `nextprimein(n)`: `if (p <= 1) return 2; n = p + ((p&1u) ? 2 : 1); while …` -/
def nextprime (isp : Int → Bool) (fuel : Nat) (p : Int) : Option Int :=
  if p ≤ 1 then some 2 else upLoop isp fuel (p + (if p % 2 = 1 then 2 else 1))

/-- `prevprime(n, p)` / `prevprimein(n)` with the bound of fixes/C12_1: `if (p <= 3) return 2;`
    (the unchanged code had `p <= 2` and walked 3 → 1 → -1) -/
def prevprime (isp : Int → Bool) (fuel : Nat) (p : Int) : Option Int :=
  if p ≤ 3 then some 2 else downLoop isp fuel (p - (if p % 2 = 1 then 2 else 1))

/-- the unchanged code (kept for the counterexample theorem) -/
def prevprime_unfixed (isp : Int → Bool) (fuel : Nat) (p : Int) : Option Int :=
  if p ≤ 2 then some 2 else downLoop isp fuel (p - (if p % 2 = 1 then 2 else 1))

/-! ### `IntFactorDom::factor` (givintfactor.h): the deterministic cascades; Pollard/Lenstra is the oracle `rho` -/

def firstPrimesOrder : List Nat := [23, 19, 17, 2, 3, 5, 7, 11]
def secondPrimesOrder : List Nat := [31, 29, 37, 41, 43, 71, 67, 61, 59, 53, 47, 97, 89, 83, 79]
def PROD_first_primes : Nat := 223092870
def PROD_second_primes : Nat := 10334565887047481278774629361

/-- the macro `factor_first_primes` / `factor_second_primes`: first listed prime dividing `n`, else the last one -/
def cascade (n : Int) : List Nat → Nat → Nat
  | [], last => last
  | p :: ps, last => if n % (p : Int) = 0 then p else cascade n ps last

/-- `factor(r, n, loops)` -/
def factor (rho : Int → Int) (n : Int) : Int :=
  if Int.gcd n PROD_first_primes = 1 then
    if Int.gcd n PROD_second_primes = 1 then rho n
    else (cascade n secondPrimesOrder 73 : Nat)
  else (cascade n firstPrimesOrder 13 : Nat)

/-! ### `IntFactorDom::set(Lf, Lo, n, loops)` (givintfactor.inl) -/

/-- `c=0; r=0; divexact(u,nn,g); while (r == 0) { nn.copy(u); divmod(u,r,nn,g); c++; }`
    state: `u`, `c`; returns the final `(nn, c)` -/
def divLoop (g : Nat) : Nat → Nat → Nat → Option (Nat × Nat)
  | 0, _, _ => none
  | fuel+1, u, c =>
    let nn := u
    if nn % g = 0 then divLoop g fuel (nn / g) (c + 1) else some (nn, c + 1)

/-- the outer loop `while (nn > 1) { iffactorprime(g,nn,loops); if (g == 1) { factocomplete=false; g=nn; } … }`
    `pf` stands for `iffactorprime` -/
def setLoop (pf : Nat → Nat) : Nat → Nat → List (Nat × Nat) → Bool → Option (List (Nat × Nat) × Bool)
  | 0, _, _, _ => none
  | fuel+1, nn, acc, complete =>
    if nn ≤ 1 then some (acc.reverse, complete) else
    let g0 := pf nn
    let complete' := if g0 = 1 then false else complete
    let g := if g0 = 1 then nn else g0
    match divLoop g (nn + 1) (nn / g) 0 with
    | none => none
    | some (nn', c) => setLoop pf fuel nn' ((g, c) :: acc) complete'

/-- `bool set(Lf, Lo, n, loops)` : `if (n<0) neg(nn,n) else nn=n` -/
def set (pf : Nat → Nat) (n : Int) : Option (List (Nat × Nat) × Bool) :=
  setLoop pf (n.natAbs + 1) n.natAbs [] true

/-! ### `divisors(L, Lf, Le)` (givintfactor.inl) -/

/-- `Itmp = *lr; for (i = e; i--;) { Itmp = Itmp * p; Res2.push_back(Itmp); }` -/
def mulChain (p : Nat) : Nat → Nat → List Nat
  | 0, _ => []
  | e+1, d => (d * p) :: mulChain p e (d * p)

/-- one round of the outer loop: `Res2` from every element of `Res`, then `Res.splice(Res.end(), Res2)` -/
def divisorsStep (res : List Nat) (pe : Nat × Nat) : List Nat :=
  res ++ res.flatMap (mulChain pe.1 pe.2)

def divisors (fs : List (Nat × Nat)) : List Nat := fs.foldl divisorsStep [1]

/-! ### `Protected::prevprime` (gmp++_int_misc.C): same walk with `mpz_probab_prime_p` directly -/

/-- with the bound of fixes/C12_5 (`p <= 3`; the unchanged code had `p < 3` and returned -3 for 3) -/
def protectedPrevprime (isp : Int → Bool) (fuel : Nat) (p : Int) : Option Int :=
  if p ≤ 3 then some 2 else downLoop isp fuel (p - (if p % 2 = 1 then 2 else 1))

end Givaro.Model.Primes
