/-
C12 — executable model of the primality / factorisation code of
  src/kernel/integer/givintprime.{h,C,inl}, givintfactor.{h,inl}, gmp++/gmp++_int_misc.C (Protected::prevprime).

The model mirrors the code branch by branch.  Machine words are `Int` with explicit wraps where the C++ converts
(`(int32_t)convert(l,n)`, the `int` subtraction `TP[here] - n`).  Array reads go through `tpRead`, which makes a
read outside the declared array visible as `none` (`search_in_bounds` in Props/C12.lean proves it never happens).
What the code gets from GMP's probabilistic test (`mpz_probab_prime_p`) and from Pollard/Lenstra is a *parameter*
(`oracle`, `pf`): theorems quantify over every oracle satisfying the stated contract.
Core Lean only (linked into the driver).
-/
import GivaroModel.Prim.Word
import GivaroModel.Prim.Gmp
import GivaroModel.Model.PrimesTables
namespace Givaro.Model.Primes
open Givaro

/-! ### `isprime_Tabule`, `isprime_Tabule2` (givintprime.C) -/

/-- `TP[here]` where `TP = &IP[2]`: element `here+2` of an array of `size` ints; `none` = read outside the array -/
def tpRead (tab : Nat → Int) (size : Nat) (here : Int) : Option Int :=
  if 0 ≤ here + 2 ∧ here + 2 < (size : Int) then some (tab (here + 2).toNat) else none

/-- the loop `for (loop = L; loop; loop >>= 1) { a = TP[here]-n; if (a==0) return 1;
      if (a>0) here -= (++plus >>= 1); else here += (++plus >>= 1); } return 0;`
    (`fuel` bounds the number of halvings of `loop`; 32 suffices for an `int`) -/
def searchAux (tab : Nat → Int) (size : Nat) (n : Int) : Nat → Nat → Int → Int → Option Int
  | 0, _, _, _ => some 0
  | fuel+1, loop, plus, here =>
    if loop = 0 then some 0 else
    match tpRead tab size here with
    | none => none
    | some t =>
      let a := wrapS32 (t - n)
      if a = 0 then some 1 else
      let plus' := (plus + 1) / 2
      if a > 0 then searchAux tab size n fuel (loop / 2) plus' (here - plus')
      else searchAux tab size n fuel (loop / 2) plus' (here + plus')

/-- `int IntPrimeDom::isprime_Tabule(const int n)` : `plus = LOGMAX >> 1; here = plus; …` -/
def isprime_Tabule (n : Int) : Option Int :=
  searchAux ipAt ipSize n 32 LOGMAX ((LOGMAX / 2 : Nat) : Int) ((LOGMAX / 2 : Nat) : Int)

/-- `int IntPrimeDom::isprime_Tabule2(const int n)` -/
def isprime_Tabule2 (n : Int) : Option Int :=
  searchAux ip2At ip2Size n 32 LOGMAX2 ((LOGMAX2 / 2 : Nat) : Int) ((LOGMAX2 / 2 : Nat) : Int)

/-! ### `IntPrimeDom::isprime` (givintprime.h) -/

/-- `(int32_t)convert(l,n)` : `Integer → int64_t` is `mpz_get_si`, then the narrowing conversion -/
def toInt32 (n : Int) : Int := wrapS32 (mpz_get_si n)

/-- `isprime(n, r)`; `oracle n` stands for `Protected::probab_prime(n, r) = mpz_probab_prime_p`.
    The first line is the guard added by fixes/C12_2 (before it, `isprime(-1)` matched the `-1` padding of `IP`). -/
def isprime (oracle : Int → Int) (n : Int) : Option Int :=
  if n < 2 then some 0 else
  if n < (BOUNDARY_isprime : Int) then isprime_Tabule (toInt32 n)
  else if n < (BOUNDARY_2_isprime : Int) then isprime_Tabule2 (toInt32 n)
  else some (wrapS32 (oracle n))

/-- the code before fixes/C12_2 (kept for the counterexample theorem) -/
def isprime_unfixed (oracle : Int → Int) (n : Int) : Option Int :=
  if n < (BOUNDARY_isprime : Int) then isprime_Tabule (toInt32 n)
  else if n < (BOUNDARY_2_isprime : Int) then isprime_Tabule2 (toInt32 n)
  else some (wrapS32 (oracle n))

/-- truth value the callers use: `while (! isprime(n,r))` (an out-of-bounds read would be undefined: treated as false) -/
def ispB (oracle : Int → Int) (n : Int) : Bool :=
  match isprime oracle n with
  | some v => v != 0
  | none => false

/-! ### `nextprime`, `prevprime` (givintprime.C) -/

/-- `while (! isprime(n,r)) addin(n,2);`  (`none` = fuel exhausted) -/
def upLoop (isp : Int → Bool) : Nat → Int → Option Int
  | 0, _ => none
  | fuel+1, n => if isp n then some n else upLoop isp fuel (n + 2)

/-- `while (! isprime(n,r)) subin(n,2);` -/
def downLoop (isp : Int → Bool) : Nat → Int → Option Int
  | 0, _ => none
  | fuel+1, n => if isp n then some n else downLoop isp fuel (n - 2)

/-- `nextprime(n, p)` / `nextprimein(n)`: `if (p <= 1) return 2; n = p + ((p&1u) ? 2 : 1); while …` -/
def nextprime (isp : Int → Bool) (fuel : Nat) (p : Int) : Option Int :=
  if p ≤ 1 then some 2 else upLoop isp fuel (p + (if p % 2 = 1 then 2 else 1))

/-- `prevprime(n, p)` / `prevprimein(n)` with the bound of fixes/C12_1: `if (p <= 3) return 2;`
    (the unchanged code had `p <= 2` and walked 3 → 1 → -1) -/
def prevprime (isp : Int → Bool) (fuel : Nat) (p : Int) : Option Int :=
  if p ≤ 3 then some 2 else downLoop isp fuel (p - (if p % 2 = 1 then 2 else 1))

/-- the unchanged code (kept for the counterexample theorem) -/
def prevprime_unfixed (isp : Int → Bool) (fuel : Nat) (p : Int) : Option Int :=
  if p ≤ 2 then some 2 else downLoop isp fuel (p - (if p % 2 = 1 then 2 else 1))

/-! ### `IntFactorDom::factor` (givintfactor.h): the deterministic cascades; Pollard/Lenstra is the oracle `rho` -/

def firstPrimesOrder : List Nat := [23, 19, 17, 2, 3, 5, 7, 11]
def secondPrimesOrder : List Nat := [31, 29, 37, 41, 43, 71, 67, 61, 59, 53, 47, 97, 89, 83, 79]
def PROD_first_primes : Nat := 223092870
def PROD_second_primes : Nat := 10334565887047481278774629361

/-- the macro `factor_first_primes` / `factor_second_primes`: first listed prime dividing `n`, else the last one -/
def cascade (n : Int) : List Nat → Nat → Nat
  | [], last => last
  | p :: ps, last => if n % (p : Int) = 0 then p else cascade n ps last

/-- `factor(r, n, loops)` -/
def factor (rho : Int → Int) (n : Int) : Int :=
  if Int.gcd n PROD_first_primes = 1 then
    if Int.gcd n PROD_second_primes = 1 then rho n
    else (cascade n secondPrimesOrder 73 : Nat)
  else (cascade n firstPrimesOrder 13 : Nat)

/-! ### `IntFactorDom::set(Lf, Lo, n, loops)` (givintfactor.inl) -/

/-- `c=0; r=0; divexact(u,nn,g); while (r == 0) { nn.copy(u); divmod(u,r,nn,g); c++; }`
    state: `u`, `c`; returns the final `(nn, c)` -/
def divLoop (g : Nat) : Nat → Nat → Nat → Option (Nat × Nat)
  | 0, _, _ => none
  | fuel+1, u, c =>
    let nn := u
    if nn % g = 0 then divLoop g fuel (nn / g) (c + 1) else some (nn, c + 1)

/-- the outer loop `while (nn > 1) { iffactorprime(g,nn,loops); if (g == 1) { factocomplete=false; g=nn; } … }`
    `pf` stands for `iffactorprime` -/
def setLoop (pf : Nat → Nat) : Nat → Nat → List (Nat × Nat) → Bool → Option (List (Nat × Nat) × Bool)
  | 0, _, _, _ => none
  | fuel+1, nn, acc, complete =>
    if nn ≤ 1 then some (acc.reverse, complete) else
    let g0 := pf nn
    let complete' := if g0 = 1 then false else complete
    let g := if g0 = 1 then nn else g0
    match divLoop g (nn + 1) (nn / g) 0 with
    | none => none
    | some (nn', c) => setLoop pf fuel nn' ((g, c) :: acc) complete'

/-- `bool set(Lf, Lo, n, loops)` : `if (n<0) neg(nn,n) else nn=n` -/
def set (pf : Nat → Nat) (n : Int) : Option (List (Nat × Nat) × Bool) :=
  setLoop pf (n.natAbs + 1) n.natAbs [] true

/-! ### `divisors(L, Lf, Le)` (givintfactor.inl) -/

/-- `Itmp = *lr; for (i = e; i--;) { Itmp = Itmp * p; Res2.push_back(Itmp); }` -/
def mulChain (p : Nat) : Nat → Nat → List Nat
  | 0, _ => []
  | e+1, d => (d * p) :: mulChain p e (d * p)

/-- one round of the outer loop: `Res2` from every element of `Res`, then `Res.splice(Res.end(), Res2)` -/
def divisorsStep (res : List Nat) (pe : Nat × Nat) : List Nat :=
  res ++ res.flatMap (mulChain pe.1 pe.2)

def divisors (fs : List (Nat × Nat)) : List Nat := fs.foldl divisorsStep [1]

/-! ### `IntPrimeDom::isprimepower(q, u)` (givintprime.C) -/

/-- GMP's table of primes below 1000 without the leading 2 (`for (i = 1; primes[i] != 0; i++)`) -/
def smallOddPrimes : List Nat :=
  [3, 5, 7, 11, 13, 17, 19, 23, 29, 31, 37, 41, 43, 47, 53, 59, 61, 67, 71, 73, 79, 83, 89, 97, 101, 103, 107, 109, 113, 127, 131,
   137, 139, 149, 151, 157, 163, 167, 173, 179, 181, 191, 193, 197, 199, 211, 223, 227, 229, 233, 239, 241, 251, 257, 263, 269, 271,
   277, 281, 283, 293, 307, 311, 313, 317, 331, 337, 347, 349, 353, 359, 367, 373, 379, 383, 389, 397, 401, 409, 419, 421, 431, 433,
   439, 443, 449, 457, 461, 463, 467, 479, 487, 491, 499, 503, 509, 521, 523, 541, 547, 557, 563, 569, 571, 577, 587, 593, 599, 601,
   607, 613, 617, 619, 631, 641, 643, 647, 653, 659, 661, 673, 677, 683, 691, 701, 709, 719, 727, 733, 739, 743, 751, 757, 761, 769,
   773, 787, 797, 809, 811, 821, 823, 827, 829, 839, 853, 857, 859, 863, 877, 881, 883, 887, 907, 911, 919, 929, 937, 941, 947, 953,
   967, 971, 977, 983, 991, 997]
def SMALLEST_OMITTED_PRIME : Nat := 1009

/-- `for( ; !(((unsigned int)t) & 0x1) ; t>>=1, ++n2)` on `t > 0`: returns `(t, n2)` -/
def twoLoop : Nat → Nat → Nat → Nat × Nat
  | 0, t, n2 => (t, n2)
  | fuel+1, t, n2 => if t % 2 = 1 then (t, n2) else twoLoop fuel (t / 2) (n2 + 1)

/-- `for (n = 2;; ++n) { divmod(q,rem,u2,prime); if (rem != 0) break; swap(q,u2); }` returns `(u2, n)` -/
def multLoop (p : Nat) : Nat → Nat → Nat → Nat × Nat
  | 0, u2, n => (u2, n)
  | fuel+1, u2, n => if u2 % p ≠ 0 then (u2, n) else multLoop p fuel (u2 / p) (n + 1)

/-- floor of the `k`-th root (`mpz_root`), by bisection on `[lo, hi)` -/
def irootAux (n k : Nat) : Nat → Nat → Nat → Nat
  | 0, lo, _ => lo
  | fuel+1, lo, hi =>
    if hi ≤ lo + 1 then lo else
    let mid := (lo + hi) / 2
    if mid ^ k ≤ n then irootAux n k fuel mid hi else irootAux n k fuel lo mid
def iroot (n k : Nat) : Nat :=
  if k = 0 then 0 else irootAux n k (Nat.log2 n + 2) 0 (2 ^ (Nat.log2 n / k + 1))

/-- the scan of the small primes; `none` = no listed prime divides `u` -/
def smallScan (u : Nat) : List Nat → Option (Nat × Nat)
  | [] => none
  | p :: ps =>
    if u % p = 0 then
      if u % (p * p) ≠ 0 then some (0, 0)
      else
        let (u2, n) := multLoop p (u + 1) (u / (p * p)) 2
        if u2 = 1 then some (n, p) else some (0, 0)
    else smallScan u ps

/-- `for (nth = 2;; ++nth) { if (!isprime(nth)) continue; exact = root(q,u2,nth); … }`
    with the repair of fixes/C12_4 (`again q` is the recursive call on an exact root that is not prime) -/
def rootScan (isp : Int → Bool) (again : Nat → Nat × Nat) (u : Nat) : Nat → Nat → Nat × Nat
  | 0, _ => (0, 0)
  | fuel+1, nth =>
    if !isp (nth : Int) then rootScan isp again u fuel (nth + 1) else
    let q := iroot u nth
    if q ^ nth = u then
      if isp (q : Int) then (nth, q)
      else if q < 2 then (0, q)
      else let (k, r) := again q; (k * nth, r)
    else if q < SMALLEST_OMITTED_PRIME then (0, q)
    else rootScan isp again u fuel (nth + 1)

/-- `unsigned int isprimepower(Rep& q, const Rep& u)`: returns `(e, q)`; `q` is meaningful only when `e ≠ 0`.
    First line: guard of fixes/C12_3 (the unchanged code returned 1 for 0 and (3,3) for -27). `depth` bounds the
    recursion of fixes/C12_4 (each level at least halves the bit length). -/
def isprimepowerAux (isp : Int → Bool) : Nat → Int → Nat × Nat
  | 0, _ => (0, 0)
  | depth+1, ui =>
    if ui ≤ 0 then (0, 0) else
    let u := ui.toNat
    if (u % 18446744073709551616) % 4 = 2 then (0, 0) else
    let (t, n2) := twoLoop (u + 1) u 0
    if n2 > 0 then (if t = 1 then (n2 % 4294967296, 2) else (0, 0)) else
    match smallScan u smallOddPrimes with
    | some r => r
    | none => rootScan isp (fun q => isprimepowerAux isp depth (q : Int)) u (Nat.log2 u + 3) 2

def isprimepower (isp : Int → Bool) (u : Int) : Nat × Nat :=
  isprimepowerAux isp (Nat.log2 u.natAbs + 2) u

/-! ### `Protected::prevprime` (gmp++_int_misc.C): same walk with `mpz_probab_prime_p` directly -/

/-- with the bound of fixes/C12_5 (`p <= 3`; the unchanged code had `p < 3` and returned -3 for 3) -/
def protectedPrevprime (isp : Int → Bool) (fuel : Nat) (p : Int) : Option Int :=
  if p ≤ 3 then some 2 else downLoop isp fuel (p - (if p % 2 = 1 then 2 else 1))

end Givaro.Model.Primes
