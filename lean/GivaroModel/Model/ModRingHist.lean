/-
Histories of ring operations (C03): a program is a list of instructions over a small register file;
each instruction is one call of the ring API (`F.add(r[d], r[a], r[b])`, `F.axpyin(r[d], r[a], r[b])`, …).
The same program is run (1) on the ring's *representation* with the model of the ring's code and
(2) on plain residues with the exact operation followed by the canonical map.  Core Lean only.
-/
import GivaroModel.Model.ModRing
import GivaroModel.Model.ModRingRecInt
import GivaroModel.Model.ModRingExt
namespace Givaro.Model.ModRing

/-- one call of the ring API on registers; `d` is the destination.  For the in-place forms the
    destination is also the first operand (`addin(r,a)`: r ← r + a; `axpyin(r,a,x)`: r ← a·x + r). -/
inductive Instr where
  | add (d a b : Nat) | sub (d a b : Nat) | mul (d a b : Nat) | neg (d a : Nat)
  | axpy (d a x y : Nat) | axmy (d a x y : Nat) | maxpy (d a x y : Nat)
  | addin (d a : Nat) | subin (d a : Nat) | mulin (d a : Nat) | negin (d : Nat)
  | axpyin (d a x : Nat) | axmyin (d a x : Nat) | maxpyin (d a x : Nat)
deriving Repr, DecidableEq

/-- the register file: four registers (an index above 3 denotes the last one) -/
structure Regs where
  r0 : Int
  r1 : Int
  r2 : Int
  r3 : Int
deriving DecidableEq, Repr

def Regs.get (r : Regs) : Nat → Int
  | 0 => r.r0 | 1 => r.r1 | 2 => r.r2 | _ => r.r3
def Regs.set (r : Regs) (i : Nat) (v : Int) : Regs :=
  match i with
  | 0 => { r with r0 := v } | 1 => { r with r1 := v } | 2 => { r with r2 := v } | _ => { r with r3 := v }
instance : CoeFun Regs (fun _ => Nat → Int) := ⟨Regs.get⟩

/-- the operations of one ring on its representation (`none`: the exact-integer model of a floating
    ring left the range in which every integer is representable) -/
structure RingOps where
  add : Int → Int → Option Int
  sub : Int → Int → Option Int
  mul : Int → Int → Option Int
  neg : Int → Option Int
  axpy : Int → Int → Int → Option Int      -- a x y ↦ a·x + y
  axmy : Int → Int → Int → Option Int      -- a x y ↦ a·x − y
  maxpy : Int → Int → Int → Option Int     -- a x y ↦ y − a·x
  axpyin : Int → Int → Int → Option Int    -- r a x ↦ a·x + r
  axmyin : Int → Int → Int → Option Int    -- r a x ↦ a·x − r
  maxpyin : Int → Int → Int → Option Int   -- r a x ↦ r − a·x
  addin : Int → Int → Option Int           -- r a ↦ r + a   (the in-place bodies, where the code has separate ones)
  subin : Int → Int → Option Int           -- r a ↦ r − a
  mulin : Int → Int → Option Int           -- r a ↦ r·a
  negin : Int → Option Int

def RingOps.step (O : RingOps) (r : Regs) : Instr → Option Regs
  | .add d a b => (O.add (r a) (r b)).map (r.set d)
  | .sub d a b => (O.sub (r a) (r b)).map (r.set d)
  | .mul d a b => (O.mul (r a) (r b)).map (r.set d)
  | .neg d a => (O.neg (r a)).map (r.set d)
  | .axpy d a x y => (O.axpy (r a) (r x) (r y)).map (r.set d)
  | .axmy d a x y => (O.axmy (r a) (r x) (r y)).map (r.set d)
  | .maxpy d a x y => (O.maxpy (r a) (r x) (r y)).map (r.set d)
  | .addin d a => (O.addin (r d) (r a)).map (r.set d)
  | .subin d a => (O.subin (r d) (r a)).map (r.set d)
  | .mulin d a => (O.mulin (r d) (r a)).map (r.set d)
  | .negin d => (O.negin (r d)).map (r.set d)
  | .axpyin d a x => (O.axpyin (r d) (r a) (r x)).map (r.set d)
  | .axmyin d a x => (O.axmyin (r d) (r a) (r x)).map (r.set d)
  | .maxpyin d a x => (O.maxpyin (r d) (r a) (r x)).map (r.set d)

def RingOps.run (O : RingOps) : List Instr → Regs → Option Regs
  | [], r => some r
  | i :: is, r => (O.step r i).bind (O.run is)

/-- the same instruction on plain residues: exact integer operation, then the canonical map `cn` -/
def stepZ (cn : Int → Int) (r : Regs) : Instr → Regs
  | .add d a b => r.set d (cn (r a + r b))
  | .sub d a b => r.set d (cn (r a - r b))
  | .mul d a b => r.set d (cn (r a * r b))
  | .neg d a => r.set d (cn (- r a))
  | .axpy d a x y => r.set d (cn (r a * r x + r y))
  | .axmy d a x y => r.set d (cn (r a * r x - r y))
  | .maxpy d a x y => r.set d (cn (r y - r a * r x))
  | .addin d a => r.set d (cn (r d + r a))
  | .subin d a => r.set d (cn (r d - r a))
  | .mulin d a => r.set d (cn (r d * r a))
  | .negin d => r.set d (cn (- r d))
  | .axpyin d a x => r.set d (cn (r a * r x + r d))
  | .axmyin d a x => r.set d (cn (r a * r x - r d))
  | .maxpyin d a x => r.set d (cn (r d - r a * r x))

def runZ (cn : Int → Int) : List Instr → Regs → Regs
  | [], r => r
  | i :: is, r => runZ cn is (stepZ cn r i)

/-! ### the operation tables of the modelled rings (which model function each API call is) -/

def ICfg.ops (k : ICfg) (p : Int) : RingOps where
  add a b := some (k.add p a b)
  sub a b := some (k.sub p a b)
  mul a b := some (k.mul p a b)
  neg a := some (k.neg p a)
  axpy a x y := some (k.axpy p a x y)
  axmy a x y := some (k.axmy p a x y)
  maxpy a x y := some (k.maxpy p a x y)
  axpyin r a x := some (k.axpy p a x r)
  axmyin r a x := some (k.axmy p a x r)
  maxpyin r a x := some (k.maxpy p a x r)
  addin r a := some (k.add p r a)
  subin r a := some (k.sub p r a)
  mulin r a := some (k.mul p r a)
  negin r := some (k.neg p r)

def FCfg.ops (k : FCfg) (p : Int) : RingOps where
  add := k.add p
  sub := k.sub p
  mul := k.mul p
  neg := k.neg p
  axpy := k.axpy p
  axmy := k.axmy p
  maxpy := k.maxpy p
  axpyin r a x := k.axpy p a x r
  axmyin := k.axmyin p
  maxpyin := k.maxpyin p
  addin r a := k.add p r a
  subin r a := k.sub p r a
  mulin r a := k.mul p r a
  negin r := k.neg p r

def BFCfg.ops (k : BFCfg) (p : Int) : RingOps where
  add := k.add p
  sub := k.sub p
  mul := k.mul p
  neg := k.neg p
  axpy := k.axpy p
  axmy := k.axmy p
  maxpy := k.maxpy p
  axpyin r a x := k.axpy p a x r
  axmyin r a x := k.axmy p a x r
  maxpyin r a x := k.maxpy p a x r
  addin r a := k.add p r a
  subin r a := k.sub p r a
  mulin r a := k.mul p r a
  negin r := k.neg p r

def BICfg.ops (k : BICfg) (p : Int) : RingOps where
  add a b := some (k.add p a b)
  sub a b := some (k.sub p a b)
  mul a b := some (k.mul p a b)
  neg a := some (k.neg p a)
  axpy a x y := some (k.axpy p a x y)
  axmy a x y := some (k.axmy p a x y)
  maxpy a x y := some (k.maxpy p a x y)
  axpyin r a x := some (k.axpy p a x r)
  axmyin r a x := some (k.axmy p a x r)
  maxpyin r a x := some (k.maxpy p a x r)
  addin r a := some (k.add p r a)
  subin r a := some (k.sub p r a)
  mulin r a := some (k.mul p r a)
  negin r := some (k.neg p r)

def zOps (p : Int) : RingOps where
  add a b := some (ZMod'.add p a b)
  sub a b := some (ZMod'.sub p a b)
  mul a b := some (ZMod'.mul p a b)
  neg a := some (ZMod'.neg p a)
  axpy a x y := some (ZMod'.axpy p a x y)
  axmy a x y := some (ZMod'.axmy p a x y)
  maxpy a x y := some (ZMod'.maxpy p a x y)
  axpyin r a x := some (ZMod'.axpy p a x r)
  axmyin r a x := some (ZMod'.axmyin p r a x)
  maxpyin r a x := some (ZMod'.maxpy p a x r)
  addin r a := some (ZMod'.add p r a)
  subin r a := some (ZMod'.sub p r a)
  mulin r a := some (ZMod'.mul p r a)
  negin r := some (ZMod'.neg p r)

def RCfg.ops (k : RCfg) (p : Int) : RingOps where
  add a b := some (k.add p a b)
  sub a b := some (k.sub p a b)
  mul a b := some (k.mul p a b)
  neg a := some (k.neg p a)
  axpy a x y := some (k.axpy p a x y)
  axmy a x y := some (k.axmy p a x y)
  maxpy a x y := some (k.maxpy p a x y)
  axpyin r a x := some (k.axpyin p r a x)
  axmyin r a x := some (k.axmy p a x r)
  maxpyin r a x := some (k.maxpyin p r a x)
  addin r a := some (k.add p r a)
  subin r a := some (k.subin p r a)
  mulin r a := some (k.mul p r a)
  negin r := some (k.neg p r)

def ECfg.ops (k : ECfg) (p : Int) : RingOps where
  add := k.add p
  sub := k.sub p
  mul := k.mul p
  neg := k.neg p
  axpy := k.axpy p
  axmy := k.axmy p
  maxpy := k.maxpy p
  axpyin r a x := k.axpy p a x r
  axmyin r a x := k.axmy p a x r
  maxpyin r a x := k.maxpy p a x r
  addin := k.add p
  subin := k.sub p
  mulin := k.mul p
  negin := k.neg p

end Givaro.Model.ModRing
