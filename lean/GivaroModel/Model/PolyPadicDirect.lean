/-
C08 — the direct conversions of `Poly1PadicDom` (givpoly1padic.h): `evaldirect` and the integral `radixdirect`, core Lean only.
Coefficients are canonical residues, as in `Givaro.Model.Padic`.
-/
import GivaroModel.Model.Poly

namespace Givaro.Model.Padic

/-- `radixdirect(P, E, n)` with an integral `TT`: `P.resize(n)`; `s = r / p; P[i] = r - s·p; r = s` — `n` digits, least
    significant first, *not* normalised -/
def radixDirect (p : Nat) : Nat → Nat → List Nat
  | 0, _ => []
  | n + 1, r => (r - (r / p) * p) :: radixDirect p n (r / p)

/-- `evaldirect(E, P)`: `0` for the empty vector; else from the last coefficient downwards `E = E·p + P[i]`
    (the first round `0·p + P.back()` is the assignment `E = elem(*pi)`) -/
def evalDirect (p : Nat) (P : List Nat) : Nat := P.foldr (fun c E => E * p + c) 0

end Givaro.Model.Padic
