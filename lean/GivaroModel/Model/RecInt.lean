/-
C06 — executable model of RecInt's fixed-precision unsigned integers `ruint<K>` (src/kernel/recint).

`RU n` is `ruint<6+n>`: level 0 is one 64-bit limb (`ruint<__RECINT_LIMB_SIZE>`, field `Value`), level n+1 is
the pair `Low, High` of two level-n values.  Every function below is a transcription of the C++ template of the
same name: the generic recursive template is the `n+2` (or `n+1`) equation, the `__RECINT_LIMB_SIZE+1` and
`__RECINT_LIMB_SIZE` specialisations are the level-1 and level-0 equations, exactly as written in the source
(`__RECINT_USE_FAST_128` is not defined in this configuration, so the `#else` branches are the live ones).
Mutation through a reference is a returned value; a `bool&` carry is the second component.

Limbs are `Nat` below `B64`; every C++ `uint64_t` operation wraps explicitly with `% B64`.
The `longlong.h` macros (`recint_add_ssaaaa`, `recint_sub_ddmmss`, `recint_umul_ppmm`, `recint_udiv_qrnnd`) are
*modelled by their arithmetic contracts* (reclonglong.h:58-100), not verified.

In-place overloads (`a += b`, `add(r, a, b)`, …) have the same bodies as the three-operand ones with `b := a`
(the limb specialisations copy the operand they overwrite first: `auto bp(b.Value)`); they are tied to the same
model function by separate harness keys.
Core Lean only (linked into the driver).
-/
namespace Givaro.Model.RecInt

def B64 : Nat := 18446744073709551616

inductive RU : Nat → Type
  | limb : Nat → RU 0
  | node : {n : Nat} → RU n → RU n → RU (n+1)      -- Low, High

/-- `NBBITS<6+n>::value` -/
def bits : Nat → Nat
  | 0 => 64
  | n+1 => 2 * bits n

/-- `2^(NBBITS)` : the base one level up -/
def Bn (n : Nat) : Nat := 2 ^ bits n

def val : {n : Nat} → RU n → Nat
  | _, .limb v => v
  | _, .node (n := n) l h => val l + Bn n * val h

def WF : {n : Nat} → RU n → Prop
  | _, .limb v => v < B64
  | _, .node l h => WF l ∧ WF h

def ofNat : (n : Nat) → Nat → RU n
  | 0, v => .limb (v % B64)
  | n+1, v => .node (ofNat n (v % Bn n)) (ofNat n (v / Bn n))

def lo : RU (n+1) → RU n | .node l _ => l
def hi : RU (n+1) → RU n | .node _ h => h

/-- `reset` -/
def zero : (n : Nat) → RU n
  | 0 => .limb 0
  | n+1 => .node (zero n) (zero n)
/-- `fill_with_1` -/
def ones : (n : Nat) → RU n
  | 0 => .limb (B64 - 1)
  | n+1 => .node (ones n) (ones n)
/-- `ruint<K>(limb)` : `Low(b)` recursively, the rest default-constructed (0) -/
def ofLimb : (n : Nat) → Nat → RU n
  | 0, v => .limb v
  | n+1, v => .node (ofLimb n v) (zero n)

def limbsLS : {n : Nat} → RU n → List Nat        -- least significant first (`pointers_list`)
  | _, .limb v => [v]
  | _, .node l h => limbsLS l ++ limbsLS h

/-! ### longlong.h contracts (on limbs < B64) -/
/-- `recint_add_ssaaaa(sh, sl, ah, al, bh, bl)` : (sh, sl) -/
def add_ss (ah al bh bl : Nat) : Nat × Nat :=
  let s := (al + B64 * ah + bl + B64 * bh) % (B64 * B64)
  (s / B64, s % B64)
/-- `recint_sub_ddmmss(sh, sl, ah, al, bh, bl)` : (sh, sl) -/
def sub_dd (ah al bh bl : Nat) : Nat × Nat :=
  let s := (al + B64 * ah + B64 * B64 - (bl + B64 * bh)) % (B64 * B64)
  (s / B64, s % B64)
/-- `recint_umul_ppmm(ph, pl, a, b)` : (ph, pl) -/
def umul_pp (a b : Nat) : Nat × Nat := ((a * b) / B64, (a * b) % B64)
/-- `recint_udiv_qrnnd(q, r, nh, nl, d)` : (q, r); contract requires nh < d and d normalised -/
def udiv_qrnnd (nh nl d : Nat) : Nat × Nat := (((nh * B64 + nl) / d) % B64, (nh * B64 + nl) % d)

def mk1 (p : Nat × Nat) : RU 1 := .node (.limb p.2) (.limb p.1)     -- (High, Low) pair to ruint<7>

/-! ### rucmp.h -/
def cmp : {n : Nat} → RU n → RU n → Int
  | _, .limb a, .limb b => if a < b then -1 else if a = b then 0 else 1
  | _, .node al ah, .node bl bh => let ch := cmp ah bh; if ch = 0 then cmp al bl else ch

def isZero : {n : Nat} → RU n → Bool          -- `a == 0` / `a != 0` : cmp(a, int 0)
  | _, .limb a => a == 0
  | _, .node l h => isZero h && isZero l

/-- `cmp(const ruint<K>&, const T&)` for unsigned `T` (c < B64) -/
def cmp_l : {n : Nat} → RU n → Nat → Int
  | _, .limb a, c => if a < c then -1 else if a = c then 0 else 1
  | _, .node l h, c => if isZero h then cmp_l l c else 1

/-! ### ruadd.h -/
/-- `add_wc(bool& r, a, b, c, cy)` -/
def add_wc : {n : Nat} → RU n → RU n → Bool → RU n × Bool
  | 0, .limb b, .limb c, cy =>
      let a := (b + c) % B64
      if cy then (.limb ((a + 1) % B64), decide ((a + 1) % B64 ≤ b)) else (.limb a, decide (a < b))
  | 1, .node (.limb bl) (.limb bh), .node (.limb cl) (.limb ch), cy =>
      let s := add_ss bh bl ch cl
      if cy then
        let s' := add_ss s.1 s.2 0 1
        (mk1 s', decide (cmp (mk1 s') (mk1 (bh, bl)) ≤ 0))
      else (mk1 s, decide (cmp (mk1 s) (mk1 (bh, bl)) < 0))
  | _+2, .node bl bh, .node cl ch, cy =>
      let p := add_wc bl cl cy
      let q := add_wc bh ch p.2
      (.node p.1 q.1, q.2)

/-- `add(bool& r, a, b, c)` -/
def add : {n : Nat} → RU n → RU n → RU n × Bool
  | 0, .limb b, .limb c => let a := (b + c) % B64; (.limb a, decide (a < b))
  | 1, .node (.limb bl) (.limb bh), .node (.limb cl) (.limb ch) =>
      let s := add_ss bh bl ch cl
      (mk1 s, decide (cmp (mk1 s) (mk1 (bh, bl)) < 0))
  | _+2, .node bl bh, .node cl ch =>
      let p := add bl cl
      let q := add_wc bh ch p.2
      (.node p.1 q.1, q.2)

/-- `add_wc(a, b, c, cy)` (the carry is lost) -/
def add_wcNC : {n : Nat} → RU n → RU n → Bool → RU n
  | 0, .limb b, .limb c, cy => .limb ((b + c + (if cy then 1 else 0)) % B64)
  | 1, .node (.limb bl) (.limb bh), .node (.limb cl) (.limb ch), cy =>
      let s := add_ss bh bl ch cl
      if cy then mk1 (add_ss s.1 s.2 0 1) else mk1 s
  | _+2, .node bl bh, .node cl ch, cy =>
      let p := add_wc bl cl cy
      .node p.1 (add_wcNC bh ch p.2)

/-- `add(a, b, c)` (the carry is lost) -/
def addNC : {n : Nat} → RU n → RU n → RU n
  | 0, .limb b, .limb c => .limb ((b + c) % B64)
  | 1, .node (.limb bl) (.limb bh), .node (.limb cl) (.limb ch) => mk1 (add_ss bh bl ch cl)
  | _+2, .node bl bh, .node cl ch =>
      let p := add bl cl
      .node p.1 (add_wcNC bh ch p.2)

/-- `add(bool& r, a, b, const T& c)` for an unsigned word `c` (also `T = bool`) -/
def add_l : {n : Nat} → RU n → Nat → RU n × Bool
  | 0, .limb b, c => let a := (b + c) % B64; (.limb a, decide (a < c))
  | 1, .node (.limb bl) (.limb bh), c =>
      let s := add_ss bh bl 0 c
      (mk1 s, decide (cmp_l (mk1 s) c < 0))
  | _+2, .node bl bh, c =>
      let p := add_l bl c
      let q := add_l bh (if p.2 then 1 else 0)
      (.node p.1 q.1, q.2)

/-- `add_1(bool& r, a, b)` and `add_1(bool& r, a)` -/
def add_1 : {n : Nat} → RU n → RU n × Bool
  | 0, .limb b => let a := (b + 1) % B64; (.limb a, decide (a = 0))
  | 1, .node (.limb bl) (.limb bh) =>
      let s := add_ss bh bl 0 1
      (mk1 s, isZero (mk1 s))
  | _+2, .node bl bh =>
      let p := add_1 bl
      let q := add_l bh (if p.2 then 1 else 0)
      (.node p.1 q.1, q.2)

/-! ### rusub.h -/
def sub_wc : {n : Nat} → RU n → RU n → Bool → RU n × Bool
  | 0, .limb b, .limb c, cy =>
      (.limb ((b + B64 + B64 - c - (if cy then 1 else 0)) % B64), if cy then decide (b ≤ c) else decide (b < c))
  | 1, .node (.limb bl) (.limb bh), .node (.limb cl) (.limb ch), cy =>
      let r := if cy then decide (cmp (mk1 (bh, bl)) (mk1 (ch, cl)) ≤ 0) else decide (cmp (mk1 (bh, bl)) (mk1 (ch, cl)) < 0)
      let s := sub_dd bh bl ch cl
      (if cy then mk1 (sub_dd s.1 s.2 0 1) else mk1 s, r)
  | _+2, .node bl bh, .node cl ch, cy =>
      let p := sub_wc bl cl cy
      let q := sub_wc bh ch p.2
      (.node p.1 q.1, q.2)

def sub : {n : Nat} → RU n → RU n → RU n × Bool
  | 0, .limb b, .limb c => (.limb ((b + B64 - c) % B64), decide (b < c))
  | 1, .node (.limb bl) (.limb bh), .node (.limb cl) (.limb ch) =>
      (mk1 (sub_dd bh bl ch cl), decide (cmp (mk1 (bh, bl)) (mk1 (ch, cl)) < 0))
  | _+2, .node bl bh, .node cl ch =>
      let p := sub bl cl
      let q := sub_wc bh ch p.2
      (.node p.1 q.1, q.2)

def sub_wcNC : {n : Nat} → RU n → RU n → Bool → RU n
  | 0, .limb b, .limb c, cy => .limb ((b + B64 + B64 - c - (if cy then 1 else 0)) % B64)
  | 1, .node (.limb bl) (.limb bh), .node (.limb cl) (.limb ch), cy =>
      let s := sub_dd bh bl ch cl
      mk1 (sub_dd s.1 s.2 0 (if cy then 1 else 0))
  | _+2, .node bl bh, .node cl ch, cy =>
      let p := sub_wc bl cl cy
      .node p.1 (sub_wcNC bh ch p.2)

def subNC : {n : Nat} → RU n → RU n → RU n
  | 0, .limb b, .limb c => .limb ((b + B64 - c) % B64)
  | 1, .node (.limb bl) (.limb bh), .node (.limb cl) (.limb ch) => mk1 (sub_dd bh bl ch cl)
  | _+2, .node bl bh, .node cl ch =>
      let p := sub bl cl
      .node p.1 (sub_wcNC bh ch p.2)

/-- `sub(bool& r, a, b, const T& c)` for an unsigned word `c` -/
def sub_l : {n : Nat} → RU n → Nat → RU n × Bool
  | 0, .limb b, c => (.limb ((b + B64 - c) % B64), decide (b < c))
  | 1, .node (.limb bl) (.limb bh), c =>
      (mk1 (sub_dd bh bl 0 c), decide (cmp_l (mk1 (bh, bl)) c < 0))
  | _+2, .node bl bh, c =>
      let p := sub_l bl c
      let q := sub_l bh (if p.2 then 1 else 0)
      (.node p.1 q.1, q.2)

def sub_1 : {n : Nat} → RU n → RU n × Bool
  | 0, .limb b => (.limb ((b + B64 - 1) % B64), decide (b = 0))
  | 1, .node (.limb bl) (.limb bh) => (mk1 (sub_dd bh bl 0 1), isZero (mk1 (bh, bl)))
  | _+2, .node bl bh =>
      let p := sub_1 bl
      let q := sub_l bh (if p.2 then 1 else 0)
      (.node p.1 q.1, q.2)

/-! ### rufiddling.h -/
def not_ : {n : Nat} → RU n → RU n
  | _, .limb c => .limb (B64 - 1 - c)
  | _, .node l h => .node (not_ l) (not_ h)

/-- `neg(r, c)` : `r = ~c; ++r` (`operator++` is the in-place `add_1` without carry = first component) -/
def neg (c : RU n) : RU n := (add_1 (not_ c)).1

def lor : {n : Nat} → RU n → RU n → RU n
  | _, .limb b, .limb c => .limb (b ||| c)
  | _, .node bl bh, .node cl ch => .node (lor bl cl) (lor bh ch)
def land : {n : Nat} → RU n → RU n → RU n
  | _, .limb b, .limb c => .limb (b &&& c)
  | _, .node bl bh, .node cl ch => .node (land bl cl) (land bh ch)
def lxor : {n : Nat} → RU n → RU n → RU n
  | _, .limb b, .limb c => .limb (b ^^^ c)
  | _, .node bl bh, .node cl ch => .node (lxor bl cl) (lxor bh ch)

def highest_bit : {n : Nat} → RU n → Bool
  | _, .limb a => decide (a &&& 9223372036854775808 ≠ 0)
  | _, .node _ h => highest_bit h
def lowest_bit : {n : Nat} → RU n → Bool
  | _, .limb a => decide (a &&& 1 ≠ 0)
  | _, .node l _ => lowest_bit l
def set_highest_bit : {n : Nat} → RU n → RU n
  | _, .limb a => .limb (a ||| 9223372036854775808)
  | _, .node l h => .node l (set_highest_bit h)
def set_lowest_bit : {n : Nat} → RU n → RU n
  | _, .limb a => .limb (a ||| 1)
  | _, .node l h => .node (set_lowest_bit l) h

/-! ### rushift.h -/
/-- `left_shift_1(bool& z, b, a)` -/
def left_shift_1 : {n : Nat} → RU n → RU n × Bool
  | _, .limb a => (.limb ((a * 2) % B64), decide (a &&& 9223372036854775808 ≠ 0))
  | _, .node al ah =>
      let h := left_shift_1 ah
      let l := left_shift_1 al
      (.node l.1 (if l.2 then set_lowest_bit h.1 else h.1), h.2)
/-- `right_shift_1(bool& z, b, a)` -/
def right_shift_1 : {n : Nat} → RU n → RU n × Bool
  | _, .limb a => (.limb (a / 2), decide (a &&& 1 ≠ 0))
  | _, .node al ah =>
      let h := right_shift_1 ah
      let l := right_shift_1 al
      (.node (if h.2 then set_highest_bit l.1 else l.1) h.1, l.2)

mutual
/-- `left_shift(b, a, d)` (count of an unsigned or non-negative type wide enough for `NBBITS<K>`) -/
def left_shift : {n : Nat} → RU n → Nat → RU n
  | 0, .limb a, d => if d = 0 then .limb a else if d < 64 then .limb ((a * 2 ^ d) % B64) else .limb 0
  | n+1, .node al ah, d =>
      if d = 0 then .node al ah
      else if d = 1 then (left_shift_1 (.node al ah)).1
      else if d > bits (n+1) then zero (n+1)
      else if bits n > d then
        let ahd := left_shift ah d
        let bh := right_shift al (bits n - d)
        .node (left_shift al d) (lor bh ahd)
      else if bits n < d then .node (zero n) (left_shift al (d - bits n))
      else .node (zero n) al
/-- `right_shift(b, a, d)` -/
def right_shift : {n : Nat} → RU n → Nat → RU n
  | 0, .limb a, d => if d = 0 then .limb a else if d < 64 then .limb (a / 2 ^ d) else .limb 0
  | n+1, .node al ah, d =>
      if d = 0 then .node al ah
      else if d = 1 then (right_shift_1 (.node al ah)).1
      else if d > bits (n+1) then zero (n+1)
      else if bits n > d then
        let ald := right_shift al d
        let bl := left_shift ah (bits n - d)
        .node (lor bl ald) (right_shift ah d)
      else if bits n < d then .node (right_shift ah (d - bits n)) (zero n)
      else .node ah (zero n)
end

/-- `left_shift(ruint<K+1>& b, const ruint<K>& a, d)` -/
def left_shift_x (a : RU n) (d : Nat) : RU (n+1) :=
  if d = 0 then .node a (zero n)
  else if d > bits (n+1) then zero (n+1)
  else if bits n > d then .node (left_shift a d) (right_shift a (bits n - d))
  else if bits n < d then .node (zero n) (left_shift a (d - bits n))
  else .node (zero n) a

/-! ### rumul.h, ruaddmul.h   (`t` = `__RECINT_THRESHOLD_KARA`; level n is K = n + 6) -/
/-- `lmul(limb& ret, a, b, const T& c)` : (a, ret) -/
def lmul_l : {n : Nat} → RU n → Nat → RU n × Nat
  | _, .limb b, c => let p := umul_pp b c; (.limb p.2, p.1)
  | _, .node bl bh, c =>
      let l := lmul_l bl c
      let h := lmul_l bh c
      let s := add_l h.1 l.2
      (.node l.1 s.1, (h.2 + (if s.2 then 1 else 0)) % B64)

mutual
/-- `lmul_naive(ah, al, b, c)` as the double-width value `node al ah` -/
def lmul_naive {n : Nat} (t : Nat) (b c : RU n) : RU (n+1) :=
  match n, b, c with
  | 0, .limb b, .limb c => let p := umul_pp b c; .node (.limb p.2) (.limb p.1)
  | _+1, .node bl bh, .node cl ch =>
      let blcl := lmul_naive t bl cl
      let bcmid0 := lmul_naive t bh cl
      let m := laddmul3 t bl ch bcmid0
      let ah0 := laddmul1NC t bh ch (hi m.1)
      let s := add (hi blcl) (lo m.1)
      let ah1 := if s.2 then (add_1 ah0).1 else ah0
      let ah2 := if m.2 then RU.node (lo ah1) (add_1 (hi ah1)).1 else ah1
      .node (.node (lo blcl) s.1) ah2
termination_by (n, 0)
/-- `lmul_kara(ah, al, b, c)` -/
def lmul_kara {n : Nat} (t : Nat) (b c : RU n) : RU (n+1) :=
  match n, b, c with
  | 0, b, c => lmul_naive t b c
  | _+1, .node bl bh, .node cl ch =>
      let bb := add bh bl
      let cc := add ch cl
      let ah := lmul t bh ch
      let al := lmul t bl cl
      let bc0 := lmul t bb.1 cc.1
      let s1 := if bb.2 then add (hi bc0) cc.1 else (hi bc0, false)
      let s2 := if cc.2 then add s1.1 bb.1 else (s1.1, false)
      let bc1 : RU _ := .node (lo bc0) s2.1
      let d3 := sub bc1 ah
      let d4 := sub d3.1 al
      -- r = (rb&rc)+rt1+rt2-rt3-rt4  stored in a bool
      let ri : Int := (if bb.2 && cc.2 then 1 else 0) + (if s1.2 then 1 else 0) + (if s2.2 then 1 else 0)
                      - (if d3.2 then 1 else 0) - (if d4.2 then 1 else 0)
      let r : Bool := decide (ri ≠ 0)
      let s5 := add (hi al) (lo d4.1)
      let ah1 := if s5.2 then (add_1 ah).1 else ah
      let s6 := add (lo ah1) (hi d4.1)
      let ahH := if s6.2 || r then (add_l (hi ah1) ((if s6.2 then 1 else 0) + (if r then 1 else 0))).1 else hi ah1
      .node (.node (lo al) s5.1) (.node s6.1 ahH)
termination_by (n, 1)
/-- `lmul(ah, al, b, c)` : `if (K < __RECINT_THRESHOLD_KARA) lmul_naive else lmul_kara` -/
def lmul {n : Nat} (t : Nat) (b c : RU n) : RU (n+1) :=
  match n with
  | 0 => lmul_naive t b c
  | n+1 => if n + 1 + 6 < t then lmul_naive t b c else lmul_kara t b c
termination_by (n, 2)
/-- `laddmul(bool& r, ah, al, b, c, d)` with `d : ruint<K>` -/
def laddmul1 {n : Nat} (t : Nat) (b c d : RU n) : RU (n+1) × Bool :=
  match n, b, c, d with
  | 0, .limb b, .limb c, .limb d =>
      let p := umul_pp b c
      let s := add_ss p.1 p.2 0 d
      (mk1 s, decide (s.1 = 0) && decide (s.2 < d))
  | _+1, .node bl bh, .node cl ch, d =>
      let x := laddmul3 t bl cl d                     -- rlow, blcld
      let bcmid0 := lmul t bh cl
      let m := laddmul3 t bl ch bcmid0                -- rmid, bcmid
      let h := laddmul1 t bh ch (hi m.1)              -- rhigh, ah
      let s := add (hi x.1) (lo m.1)                  -- rlow2
      let a1 := if x.2 then add_1 h.1 else (h.1, false)
      let a2 := if s.2 then add_1 a1.1 else (a1.1, false)
      let a3 := if m.2 then add_1 (hi a2.1) else (hi a2.1, false)
      (.node (.node (lo x.1) s.1) (.node (lo a2.1) a3.1), a1.2 || a2.2 || a3.2 || h.2)
termination_by (n, 0)
/-- `laddmul(ah, al, b, c, d)` with `d : ruint<K>`, the carry is lost -/
def laddmul1NC {n : Nat} (t : Nat) (b c d : RU n) : RU (n+1) :=
  match n, b, c, d with
  | 0, .limb b, .limb c, .limb d =>
      let p := umul_pp b c
      mk1 (add_ss p.1 p.2 0 d)
  | _+1, .node bl bh, .node cl ch, d =>
      let x := laddmul3 t bl cl d
      let bcmid0 := lmul t bh cl
      let m := laddmul3 t bl ch bcmid0
      let h := laddmul1NC t bh ch (hi m.1)
      let s := add (hi x.1) (lo m.1)
      let a1 := if x.2 then (add_1 h).1 else h
      let a2 := if s.2 then (add_1 a1).1 else a1
      let a3 := if m.2 then (add_1 (hi a2)).1 else hi a2
      .node (.node (lo x.1) s.1) (.node (lo a2) a3)
termination_by (n, 0)
/-- `laddmul(bool& r, ah, al, b, c, d)` with `d : ruint<K+1>` -/
def laddmul3 {n : Nat} (t : Nat) (b c : RU n) (d : RU (n+1)) : RU (n+1) × Bool :=
  match n, b, c, d with
  | 0, .limb b, .limb c, .node (.limb dl) (.limb dh) =>
      let p := umul_pp b c
      let s := add_ss p.1 p.2 dh dl
      (mk1 s, decide (s.1 < dh) || (decide (s.1 = dh) && decide (s.2 < dl)))
  | _+1, .node bl bh, .node cl ch, .node dl dh =>
      let x := laddmul3 t bl cl dl                    -- rlow, blcldl
      let bcmid0 := lmul t bh cl
      let m := laddmul3 t bl ch bcmid0                -- rmid, bcmid
      let h := laddmul3 t bh ch dh                    -- rhigh, ah
      let s := add (hi x.1) (lo m.1)                  -- rlow2, al.High
      let s2 := add (lo h.1) (hi m.1)                 -- rmid2, ah.Low
      let ah0 : RU _ := .node s2.1 (hi h.1)
      let a1 := if x.2 then add_1 ah0 else (ah0, false)
      let a2 := if s.2 then add_1 a1.1 else (a1.1, false)
      let a3 := if m.2 then add_1 (hi a2.1) else (hi a2.1, false)
      let a4 := if s2.2 then add_1 a3.1 else (a3.1, false)
      (.node (.node (lo x.1) s.1) (.node (lo a2.1) a4.1), a1.2 || a2.2 || a3.2 || a4.2 || h.2)
termination_by (n, 0)
end

/-- `mul(al, b, c)` : the low half of the product -/
def mul {n : Nat} (t : Nat) (b c : RU n) : RU n :=
  match n, b, c with
  | 0, .limb b, .limb c => .limb ((b * c) % B64)
  | _+1, .node bl bh, .node cl ch =>
      let bcmid0 := mul t bl ch
      let bcmid := addNC bcmid0 (mul t bh cl)         -- addmul(bcmid, b.High, c.Low): mul(bc, b, c); add(a, bc)   [level 0: a += b*c]
      let al := lmul t bl cl
      .node (lo al) (addNC (hi al) bcmid)

/-- `addmul(a, b, c)` : `a += b*c`, the high part is lost -/
def addmul {n : Nat} (t : Nat) (a b c : RU n) : RU n := addNC a (mul t b c)

/-- `mul(a, b, const T& c)` -/
def mul_l (b : RU n) (c : Nat) : RU n := (lmul_l b c).1

/-- `lsquare(ruint<K+1>& a, const ruint<K>& b)` -/
def lsquare {n : Nat} (t : Nat) (b : RU n) : RU (n+1) :=
  match n, b with
  | 0, .limb b => let p := umul_pp b b; .node (.limb p.2) (.limb p.1)
  | _+1, .node bl bh =>
      let bhbl0 := lmul t bh bl
      let aH := lsquare t bh
      let aL := lsquare t bl
      let rbb := highest_bit bhbl0
      let bhbl := (left_shift_1 bhbl0).1
      let s1 := add (hi aL) (lo bhbl)                  -- ralb
      let s2 := add (lo aH) (hi bhbl)                  -- rbah
      let aH1 : RU _ := .node s2.1 (hi aH)
      let aH2 := if s1.2 then (add_1 aH1).1 else aH1
      let aHH := if s2.2 || rbb then (add_l (hi aH2) ((if s2.2 then 1 else 0) + (if rbb then 1 else 0))).1 else hi aH2
      .node (.node (lo aL) s1.1) (.node (lo aH2) aHH)

/-- `square(al, b)` -/
def square {n : Nat} (t : Nat) (b : RU n) : RU n :=
  match n, b with
  | 0, .limb b => .limb ((b * b) % B64)
  | _+1, .node bl bh =>
      let bhbll := mul t bh bl
      let al := lsquare t bl
      .node (lo al) (addNC (hi al) (left_shift_1 bhbll).1)

/-! ### rutools.h, rudiv.h -/
def clzLoop : Nat → Nat → Nat → Nat → Nat        -- fuel mask limb d
  | 0, _, _, d => d
  | f+1, mask, l, d => if mask = 0 then d else if l &&& mask ≠ 0 then d else clzLoop f (mask / 2) l (d + 1)
def normGo : List Nat → Nat → Nat
  | [], d => d
  | l :: ls, d => if l = 0 then normGo ls (d + 64) else clzLoop 65 9223372036854775808 l d
/-- `normalization(d, b)` : number of zero bits above the highest set bit (reverse limb iterator) -/
def normalization (b : RU n) : Nat := normGo (limbsLS b).reverse 0

mutual
/-- `div_3_2(q, r1, r0, a2, a1, a0, b1, b0)` : (q, r1, r0) -/
def div_3_2 {n : Nat} (t : Nat) (a2 a1 a0 b1 b0 : RU n) : RU n × RU n × RU n :=
  match n, a2, a1, a0, b1, b0 with
  | 0, .limb a2, .limb a1, .limb a0, .limb b1, .limb b0 =>
      let qc : Nat × Nat × Bool :=
        if a2 < b1 then let x := udiv_qrnnd a2 a1 b1; (x.1, x.2, false)
        else (B64 - 1, (a1 + b1) % B64, decide ((a1 + b1) % B64 < a1))
      let q := qc.1; let c := qc.2.1; let ret := qc.2.2
      let d := umul_pp q b0
      let r := sub_dd c a0 d.1 d.2
      if !ret && (decide (d.1 > c) || (decide (d.1 = c) && decide (d.2 > a0))) then
        let q := (q + B64 - 1) % B64
        let r0 := (r.2 + b0) % B64
        let r1 := (r.1 + b1) % B64
        let r1 := if r0 < b0 then (r1 + 1) % B64 else r1
        if decide (r1 > b1) || (decide (r1 = b1) && decide (r0 ≥ b0)) then
          let q := (q + B64 - 1) % B64
          let r0' := (r0 + b0) % B64
          let r1' := (r1 + b1) % B64
          let r1' := if r0' < b0 then (r1' + 1) % B64 else r1'
          (.limb q, .limb r1', .limb r0')
        else (.limb q, .limb r1, .limb r0)
      else (.limb q, .limb r.1, .limb r.2)
  | _+1, a2, a1, a0, b1, b0 =>
      let qc : RU _ × RU _ × Bool :=
        if cmp a2 b1 < 0 then let x := div_2_1 t a2 a1 b1; (x.1, x.2, false)
        else let s := add a1 b1; (ones _, s.1, s.2)
      let q := qc.1; let c := qc.2.1; let ret1 := qc.2.2
      let d := lmul t q b0
      let d1 := hi d; let d0 := lo d
      let s0 := sub a0 d0
      let r1 := sub_wcNC c d1 s0.2
      if !ret1 && (decide (cmp d1 c > 0) || (decide (cmp d1 c = 0) && decide (cmp d0 a0 > 0))) then
        let q := (sub_1 q).1
        let x0 := add s0.1 b0
        let x1 := add_wc r1 b1 x0.2
        if !x1.2 then
          let q := (sub_1 q).1
          let y0 := add x0.1 b0
          (q, add_wcNC x1.1 b1 y0.2, y0.1)
        else (q, x1.1, x0.1)
      else (q, r1, s0.1)
termination_by (n, 1)
/-- `div_2_1(q, r, ah, al, b)` : (q, r) -/
def div_2_1 {n : Nat} (t : Nat) (ah al b : RU n) : RU n × RU n :=
  match n, ah, al, b with
  | 0, .limb ah, .limb al, .limb b => let x := udiv_qrnnd ah al b; (.limb x.1, .limb x.2)
  | _+1, .node ahl ahh, .node all alh, .node bl bh =>
      let x := div_3_2 t ahh ahl alh bh bl
      let y := div_3_2 t x.2.1 x.2.2 all bh bl
      (.node y.1 x.1, .node y.2.2 y.2.1)
termination_by (n, 0)
end

/-- `div(q, r, a, b)` : (q, r).  The limb specialisation is `a/b, a%b`. -/
def div {n : Nat} (t : Nat) (a b : RU n) : RU n × RU n :=
  match n, a, b with
  | 0, .limb a, .limb b => (.limb (a / b), .limb (a % b))
  | _+1, a, b =>
      let d := normalization b
      let aa := left_shift_x a d
      let bb := left_shift b d
      let x := div_2_1 t (hi aa) (lo aa) bb
      (x.1, right_shift x.2 d)

/-- `mod_n(a, const ruint<K+1>& b, n)` -/
def mod_n2 {n : Nat} (t : Nat) (b : RU (n+1)) (m : RU n) : RU n :=
  let d := normalization m
  let bb := left_shift_x b d
  let nn := left_shift m d
  let x := div_2_1 t (lo (hi bb)) (hi (lo bb)) nn
  let y := div_2_1 t x.2 (lo (lo bb)) nn
  right_shift y.2 d

/-! ### rugcd.h, ruinvmod.h, ruexp.h, rmgmodule.h (loops take fuel; the driver supplies enough) -/
def gcdLoop {n : Nat} (t : Nat) : Nat → RU n → RU n → RU n
  | 0, c, _ => c
  | f+1, c, d => if isZero d then c else gcdLoop t f d (div t c d).2
def gcd {n : Nat} (t : Nat) (a b : RU n) : RU n := gcdLoop t (2 * bits n + 2) a b

/-- the loop body of `inv_mod` : state (a, x, a2, b2) -/
def invLoop {n : Nat} (t : Nat) (c : RU n) : Nat → RU n → RU n → RU n → RU n → RU n
  | 0, a, _, _, _ => a
  | f+1, a, x, a2, b2 =>
      if isZero b2 then a else
      let qr := div t a2 b2
      let temp0 := mod_n2 t (lmul t qr.1 x) c
      let temp1 := if !(isZero temp0) then subNC c temp0 else temp0
      let s := add temp1 a
      let temp2 := if s.2 || decide (cmp s.1 c ≥ 0) then subNC s.1 c else s.1
      invLoop t c f x temp2 b2 qr.2
/-- `inv_mod(a, b, c)` -/
def inv_mod {n : Nat} (t : Nat) (b c : RU n) : RU n :=
  invLoop t c (2 * bits n + 2) (ofLimb n 1) (zero n) b c

def bitsLS (ls : List Nat) : List Bool :=            -- all bits, least significant first, 64 per limb
  ls.flatMap (fun l => (List.range 64).map (fun j => decide ((l / 2 ^ j) % 2 = 1)))
/-- `exp_mod(a, b, c, n)` -/
def exp_mod {n : Nat} (t : Nat) (b c m : RU n) : RU n :=
  ((bitsLS (limbsLS c)).foldl (fun (st : RU n × RU n) bit =>
      let a := if bit then mod_n2 t (lmul t st.1 st.2) m else st.1
      (a, mod_n2 t (lsquare t st.2) m)) ((div t (ofLimb n 1) m).2, b)).1      -- a = 1; mod_n(a, n)
/-- `exp_mod(a, b, const T& c, n)` for `T = uint64_t` -/
def exp_mod_l {n : Nat} (t : Nat) (b : RU n) (c : Nat) (m : RU n) : RU n :=
  ((bitsLS [c]).foldl (fun (st : RU n × RU n) bit =>
      let a := if bit then mod_n2 t (lmul t st.1 st.2) m else st.1
      (a, mod_n2 t (lsquare t st.2) m)) ((div t (ofLimb n 1) m).2, b)).1      -- a = 1; mod_n(a, n)

def araziLimbLoop : Nat → Nat → Nat → Nat → Nat     -- fuel i amone u
  | 0, _, _, u => u
  | f+1, i, amone, u =>
      if i < 64 then
        let amone := (amone * amone) % B64
        araziLimbLoop f (i * 2) amone ((u * ((amone + 1) % B64)) % B64)
      else u
/-- `arazi_qi(u, a)` -/
def arazi_qi {n : Nat} (t : Nat) (a : RU n) : RU n :=
  match n, a with
  | 0, .limb a =>
      if a = 1 then .limb 1 else
      let u := araziLimbLoop 7 2 ((a + B64 - 1) % B64) 1
      .limb ((u * ((2 + B64 - a) % B64)) % B64)
  | _+1, .node al ah =>
      let ul := arazi_qi t al
      let p := lmul t ul al
      let t1 := hi p
      let t2 := mul t ul ah
      let t1 := addNC t1 t2
      let t1 := mul t t1 ul
      .node ul (neg t1)

/-! ### ruconvert.h / rconvert.h (after fixes/C06_6: `mpz_to_ruint` reduces its argument modulo 2^bits first) -/
/-- `NBLIMB<6+n>::value` -/
def nblimb : Nat → Nat
  | 0 => 1
  | n+1 => 2 * nblimb n
/-- `set_limb(a, b, index)` -/
def set_limb : {n : Nat} → RU n → Nat → Nat → RU n
  | _, .limb v, b, i => if i = 0 then .limb b else .limb v
  | _, .node (n := n) l h, b, i =>
      if i < nblimb n then .node (set_limb l b i) h else .node l (set_limb h b (i - nblimb n))
/-- `mpz_to_ruint(a, b)`: `c = b mod 2^bits; reset(a); for i < NBLIMB: set_limb(a, c.get_ui(), i); c >>= 64` -/
def mpz_to_ruint (n : Nat) (z : Int) : RU n :=
  ((List.range (nblimb n)).foldl (fun (st : RU n × Nat) i => (set_limb st.1 (st.2 % B64) i, st.2 / B64))
    (zero n, (z % (Bn n : Int)).toNat)).1
def limbsVal : List Nat → Nat
  | [] => 0
  | l :: ls => l + B64 * limbsVal ls
/-- `ruint_to_mpz(a, b)`: `mpz_import` of the contiguous limbs, least significant first (GMP contract) -/
def ruint_to_mpz (b : RU n) : Int := (limbsVal (limbsLS b) : Nat)
/-- `ms_limb` -/
def ms_limb : {n : Nat} → RU n → Nat
  | _, .limb v => v
  | _, .node _ h => ms_limb h
/-- `rint::isNegative()` -/
def isNegative (b : RU n) : Bool := decide (ms_limb b &&& 9223372036854775808 ≠ 0)
/-- `mpz_to_rint(a, b)` -/
def mpz_to_rint (n : Nat) (z : Int) : RU n := if z < 0 then neg (mpz_to_ruint n (-z)) else mpz_to_ruint n z
/-- `rint_to_mpz(a, b)` -/
def rint_to_mpz (b : RU n) : Int := if isNegative b then -(ruint_to_mpz (neg b)) else ruint_to_mpz b

/-! ### mixed operands: `ruint<K>` (and `rint<K>` through its `Value`) ⊗ built-in scalar, after fixes/C06_11…14
    The scalar is an `Int` (its C++ value); every built-in integral type has `|w| ≤ 2^64 - 1`, so the magnitude is a limb. -/
/-- `__recint_mag(c)` for a negative scalar: `limb(0) - limb(c)` -/
def smag (w : Int) : Nat := (-w).toNat
/-- `a + c`, `c + a`, `a += c`, `add(a, b, c)`, `add(a, c)`: a negative scalar subtracts its magnitude -/
def add_s (a : RU n) (w : Int) : RU n := if w < 0 then (sub_l a (smag w)).1 else (add_l a w.toNat).1
/-- `a - c`, `a -= c`, `sub(a, b, c)`, `sub(a, c)` -/
def sub_s (a : RU n) (w : Int) : RU n := if w < 0 then (add_l a (smag w)).1 else (sub_l a w.toNat).1
/-- `c - a`: `sub(a, b, c); return -a` -/
def rsub_s (a : RU n) (w : Int) : RU n := neg (sub_s a w)
/-- `a * c`, `c * a`, `a *= c`, `mul(a, b, c)`, `mul(a, c)`: a negative scalar negates the product by its magnitude -/
def mul_s (a : RU n) (w : Int) : RU n := if w < 0 then neg (mul_l a (smag w)) else mul_l a w.toNat
/-- `cmp(a, c)` for a signed or unsigned scalar -/
def cmp_s (a : RU n) (w : Int) : Int := if w < 0 then 1 else cmp_l a w.toNat
/-- `a / c`, `a /= c`, `div_q(q, a, c)`: `ruint bb(|c|); div(q, r, a, bb)`, negated for a negative scalar -/
def divq_s (t : Nat) (a : RU n) (w : Int) : RU n :=
  if w < 0 then neg (div t a (ofLimb n (smag w))).1 else (div t a (ofLimb n w.toNat)).1
/-- `a % c`, `a %= c`, `div_r(r, a, c)`: the remainder of the division by the magnitude -/
def mod_s (t : Nat) (a : RU n) (w : Int) : RU n :=
  if w < 0 then (div t a (ofLimb n (smag w))).2 else (div t a (ofLimb n w.toNat)).2

end Givaro.Model.RecInt
