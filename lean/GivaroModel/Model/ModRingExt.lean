/-
`ModularExtended<float|double>` (modular-extended.h / .inl), FMA path (`FP_FAST_FMA`, the repository's flags):
    abh = a*b;  abl = fma(a,b,-abh);  q = floor(abh*_invp);  pql = fma(-q,_p,abh);  r = abl + pql;  one correction.
Values are integers; `abh` is the product rounded to the mantissa (soft-float `rne`), `abl = a·b − abh` is the
error-free low part an FMA returns (the FMA contract), `q` is the floor of the rounded `abh·rne(1/p)`; the
remaining operations are modelled in the exact-integer style (`fit`: `none` as soon as a value leaves the range in
which every integer is representable).  The Dekker/Veltkamp path used without FMA computes the same `abl`, `pql`
when no rounding occurs; it is tied by correspondence (configuration S).  Core Lean only.
-/
import GivaroModel.Model.ModRing
namespace Givaro.Model.ModRing

/-- mantissa bits (24 / 53) -/
structure ECfg where
  mant : Nat
deriving DecidableEq, Repr

/-- a dyadic that is an integer, as that integer; floor of a dyadic -/
def dyFloor (x : Int × Int) : Int := Int.fdiv (dyNum x) (dyDen x)

namespace ECfg
variable (k : ECfg)
def valid : Prop := k.mant = 24 ∨ k.mant = 53
instance : Decidable k.valid := by unfold valid; exact inferInstance
/-- maxCardinality(): 2^(23-2) - 1 ; 2^(52-2) - 1 -/
def maxCard : Int := (2 : Int) ^ (k.mant - 3) - 1
def f := fit k.mant
/-- an integer rounded to the mantissa -/
def rneI (x : Int) : Int := dyFloor (rne k.mant x 1)
/-- `_invp = 1 / _p` -/
def invp (p : Int) : Int × Int := rne k.mant 1 p.toNat
/-- `q = std::floor(x * _invp)` for an (already representable) integer `x` -/
def qEst (p x : Int) : Int :=
  let pr := dyMul (rne k.mant x 1) (k.invp p)
  dyFloor (rne k.mant (dyNum pr) (dyDen pr))

/-- the multiplication with an explicit quotient estimate `q` -/
def mulQ (p q a b : Int) : Option Int := do
  let abh := k.rneI (a * b)               -- abh = a * b (rounded)
  let abl := a * b - abh                  -- abl = fma(a, b, -abh): exact (FMA contract)
  let pql ← k.f (abh - q * p)             -- pql = fma(-q, _p, abh)
  let r ← k.f (abl + pql)                 -- r = abl + pql
  if r ≥ p then k.f (r - p) else if r < 0 then k.f (r + p) else some r

def mul (p a b : Int) : Option Int := k.mulQ p (k.qEst p (k.rneI (a * b))) a b

/-- reduce with an explicit quotient estimate: `pql = fma(-q,_p,a)`; one correction -/
def reduceQ (p q a : Int) : Option Int := do
  let r ← k.f (a - q * p)
  if r ≥ p then k.f (r - p) else if r < 0 then k.f (r + p) else some r
def reduce (p a : Int) : Option Int := k.reduceQ p (k.qEst p a) a

def add (p a b : Int) : Option Int := do let r ← k.f (a + b); if r ≥ p then k.f (r - p) else some r
def sub (p a b : Int) : Option Int := do let r ← k.f (a - b); if r < 0 then k.f (r + p) else some r
def neg (p a : Int) : Option Int := let r := -a; if r < 0 then k.f (r + p) else some r
def axpy (p a x y : Int) : Option Int := do let t ← k.mul p a x; k.add p t y
def axmy (p a x y : Int) : Option Int := do let t ← k.mul p a x; k.sub p t y
def maxpy (p a x y : Int) : Option Int := do let t ← k.mul p a x; k.sub p y t
/-- inv: the floating `extended_euclid`, then `+p` when negative -/
def inv (p y : Int) : Option Int := (FCfg.mk k.mant k.mant).inv p y
def div (p a b : Int) : Option Int := do let i ← k.inv p b; k.mul p a i
def divin (p r y : Int) : Option Int := do let i ← k.inv p y; k.mul p r i
def isUnit (p a : Int) : Option Bool := (FCfg.mk k.mant k.mant).isUnit p a
end ECfg
end Givaro.Model.ModRing
