/-
C17 — executable model of the pooled allocator (src/kernel/memory/givaromm.h, givaromm.C):
`BlocFreeList::search_binary`, `GivMMFreeList::{allocate,_allocate,desallocate,resize}` and
`GivMMRefCount::{allocate,desallocate,assign,incrc,resize}` over block identifiers; the free lists are one LIFO list of
identifiers per size class (`TabFree[i]` with the `nextfree` links), `malloc` hands out a fresh identifier.
The table `TabSize` is regenerated from givaromm.C on every run (Generated/TabSize.lean).
Core Lean only.
-/
import GivaroModel.Generated.TabSize
namespace Givaro.Model.FreeList
open Givaro.Gen.C17

def updF {β : Type} (f : Nat → β) (i : Nat) (v : β) : Nat → β := fun j => if j = i then v else f j

/-- `BlocFreeList::TabSize[i]` -/
def tab (i : Nat) : Nat := tabSizeArr.getD i 0

/-- the `do { … } while (min != med)` loop of `search_binary` for an arbitrary table `t`; `fuel` bounds the iterations -/
def sbLoop (t : Nat → Nat) : Nat → Nat → Nat → Nat → Nat → Nat
  | 0, _, _, max, _ => max
  | fuel + 1, sz, min, max, med =>
    let curr := t med % 4294967296                       -- `curr = (unsigned int) TabSize[med]`
    if curr = sz then med
    else
      let min' := if curr < sz then med else min
      let max' := if curr < sz then max else med
      let med' := (max' + min') / 2                       -- `(max+min)>>1`
      if min' ≠ med' then sbLoop t fuel sz min' max' med' else max'

/-- `BlocFreeList::search_binary(sz)`; `none` = throws GivError (size above the largest class) -/
def searchBinary (sz : Nat) : Option Nat :=
  if sz ≤ 32 then some (if sz = 0 then 0 else sz - 1)
  else if sz > tab (lenTables - 1) then none
  else some (sbLoop tab lenTables sz 0 (lenTables - 1) 8)

structure Pool where
  free : Nat → List Nat      -- `TabFree[i]`: head first
  idx  : Nat → Nat           -- `u.index` of a block that is handed out
  rc   : Nat → Int           -- `data[0]` (GivMMRefCount only)
  next : Nat                 -- number of blocks obtained from malloc

def Pool.init : Pool := { free := fun _ => [], idx := fun _ => 0, rc := fun _ => 0, next := 0 }

/-- `GivMMFreeList::_allocate` / the inlined fast path of `allocate` (same result: the head of `TabFree[index]`, else malloc) -/
def allocate (p : Pool) (sz : Nat) : Option (Pool × Nat) :=
  match searchBinary sz with
  | none => none
  | some i =>
    match p.free i with
    | b :: rest => some ({ p with free := updF p.free i rest, idx := updF p.idx b i }, b)
    | [] => some ({ p with next := p.next + 1, idx := updF p.idx p.next i }, p.next)

/-- `GivMMFreeList::desallocate(p)` for a non-null pointer -/
def desallocate (p : Pool) (b : Nat) : Pool :=
  let i := p.idx b
  { p with free := updF p.free i (b :: p.free i) }

/-- `GivMMFreeList::resize(src, oldsize, newsize)`; the block keeps `oldsize` bytes when it moves -/
def resize (p : Pool) (src : Option Nat) (oldsize newsize : Nat) : Option (Pool × Nat) :=
  match src with
  | none => allocate p newsize
  | some b =>
    if newsize ≤ oldsize then some (p, b)
    else if tab (p.idx b) ≥ newsize then some (p, b)
    else match allocate p newsize with
      | none => none
      | some (p', b') => some (desallocate p' b, b')

/-- `GivMMRefCount::allocate(s)` -/
def rcAllocate (p : Pool) (s : Nat) : Option (Pool × Nat) :=
  match allocate p (s + 8) with
  | none => none
  | some (p', b) => some ({ p' with rc := updF p'.rc b 1 }, b)

/-- `GivMMRefCount::desallocate(p)` for a non-null pointer -/
def rcDesallocate (p : Pool) (b : Nat) : Pool :=
  let v := p.rc b - 1
  let p := { p with rc := updF p.rc b v }
  if v = 0 then desallocate p b else p

def rcIncr (p : Pool) (b : Nat) : Pool := { p with rc := updF p.rc b (p.rc b + 1) }

/-- `GivMMRefCount::assign(&dest, src)`: returns the pool and the new value of `*dest` -/
def rcAssign (p : Pool) (dest src : Option Nat) : Pool × Option Nat :=
  if src = dest then (p, dest) else
  let p := match dest with | some d => rcDesallocate p d | none => p
  match src with
  | none => (p, none)
  | some s => (rcIncr p s, some s)

/-- `GivMMRefCount::resize(p, oldsize, newsize)` -/
def rcResize (p : Pool) (src : Option Nat) (oldsize newsize : Nat) : Option (Pool × Nat) :=
  match src with
  | none => rcAllocate p newsize
  | some b =>
    if p.rc b = 1 then
      if newsize ≤ oldsize then some (p, b)
      else if tab (p.idx b) ≥ 8 + newsize then some (p, b)
      else rcAllocate (rcDesallocate p b) newsize
    else rcAllocate { p with rc := updF p.rc b (p.rc b - 1) } newsize

/-! ### a client with slots (what the harness does): the pointer of a slot is forgotten when it is freed -/

inductive Op where
  | alloc (k sz : Nat)        -- `if (!P[k]) P[k] = allocate(sz)`
  | free (k : Nat)            -- `desallocate(P[k]); P[k] = 0`
  | resize (k sz : Nat)       -- `if (P[k]) P[k] = resize(P[k], S[k], sz)`
  | resizeNull (k sz : Nat)   -- `if (!P[k]) P[k] = resize(0, 0, sz)`
deriving Repr

structure Client where
  pool : Pool
  slot : Nat → Option Nat
  sz   : Nat → Nat

def Client.init : Client := { pool := Pool.init, slot := fun _ => none, sz := fun _ => 0 }

/-- one client operation; the `Option Nat` is the block handed out by this step, if any; a throwing call changes nothing -/
def cstep (c : Client) : Op → Client × Option Nat
  | .alloc k sz =>
    match c.slot k with
    | some _ => (c, none)
    | none => match allocate c.pool sz with
      | none => (c, none)
      | some (p, b) => ({ pool := p, slot := updF c.slot k (some b), sz := updF c.sz k sz }, some b)
  | .free k =>
    match c.slot k with
    | none => (c, none)
    | some b => ({ c with pool := desallocate c.pool b, slot := updF c.slot k none, sz := updF c.sz k 0 }, none)
  | .resize k sz =>
    match c.slot k with
    | none => (c, none)
    | some b => match resize c.pool (some b) (c.sz k) sz with
      | none => (c, none)
      | some (p, b') => ({ pool := p, slot := updF c.slot k (some b'), sz := updF c.sz k (if sz > c.sz k then sz else c.sz k) }, some b')
  | .resizeNull k sz =>
    match c.slot k with
    | some _ => (c, none)
    | none => match resize c.pool none 0 sz with
      | none => (c, none)
      | some (p, b) => ({ pool := p, slot := updF c.slot k (some b), sz := updF c.sz k sz }, some b)

/-- does the call made by this step throw (size above the largest class)? -/
def cthrows (c : Client) : Op → Bool
  | .alloc k sz => (c.slot k).isNone && (searchBinary sz).isNone
  | .free _ => false
  | .resize k sz =>
    match c.slot k with
    | none => false
    | some b => decide (sz > c.sz k) && decide (tab (c.pool.idx b) < sz) && (searchBinary sz).isNone
  | .resizeNull k sz => (c.slot k).isNone && (searchBinary sz).isNone

def crun (c : Client) (ops : List Op) : Client := ops.foldl (fun c o => (cstep c o).1) c

end Givaro.Model.FreeList
