/-
C17 — executable model of `RefCountPtr<T>` (src/kernel/memory/givpointer.h): slots hold (object, counter) pairs; objects
are identified by the value given at construction (the harness uses distinct values). Tied by correspondence only.
Core Lean only.
-/
namespace Givaro.Model.RefPtr

structure St where
  slot  : Nat → Option Nat      -- the object (and its counter cell) a slot points to
  cnt   : Nat → Int             -- `*_count` of an object
  alive : Nat → Bool            -- the object has not been deleted

def St.init : St := { slot := fun _ => none, cnt := fun _ => 0, alive := fun _ => false }

def updR {β : Type} (f : Nat → β) (i : Nat) (v : β) : Nat → β := fun j => if j = i then v else f j

/-- `if (--*_count == 0) { delete _data; desallocate(_count); }` -/
def release (s : St) (o : Nat) : St :=
  let v := s.cnt o - 1
  { s with cnt := updR s.cnt o v, alive := if v = 0 then updR s.alive o false else s.alive }

inductive Op where
  | new (k v : Nat) | copy (k j : Nat) | assign (k j : Nat) | del (k : Nat)

def step (s : St) : Op → St
  | .new k v => match s.slot k with
    | some _ => s
    | none => { slot := updR s.slot k (some v), cnt := updR s.cnt v 1, alive := updR s.alive v true }
  | .copy k j => match s.slot k, s.slot j with
    | some o, none => { s with slot := updR s.slot j (some o), cnt := updR s.cnt o (s.cnt o + 1) }
    | _, _ => s
  | .assign k j => match s.slot k, s.slot j with
    | some o, some o' =>
      if k = j then s else                       -- `if (this == &ptr) return *this;`
      let s := release s o'
      { s with slot := updR s.slot j (some o), cnt := updR s.cnt o (s.cnt o + 1) }
    | _, _ => s
  | .del k => match s.slot k with
    | none => s
    | some o => { (release s o) with slot := updR s.slot k none }

/-- number of live objects -/
def liveCount (s : St) (ids : List Nat) : Nat := (ids.eraseDups.filter (fun o => s.alive o)).length

end Givaro.Model.RefPtr
