/-
C17 — executable model of `RefCountPtr<T>` (src/kernel/memory/givpointer.h): a slot holds a pointer to an object and to
its counter cell (both created by the constructor from a raw pointer); objects are numbered in order of creation and
remember the value they were constructed with.  `Props/C17.lean` shows that this is the one-cell special case of the
Array0 model (`refcountptr_is_one_block_array0`).  Core Lean only.
-/
namespace Givaro.Model.RefPtr

structure St where
  slot  : Nat → Option Nat      -- the object (and its counter cell) a slot points to
  cnt   : Nat → Int             -- `*_count` of an object
  alive : Nat → Bool            -- the object has not been deleted
  val   : Nat → Nat             -- what the object was constructed with
  next  : Nat                   -- number of objects created

def St.init : St := { slot := fun _ => none, cnt := fun _ => 0, alive := fun _ => false, val := fun _ => 0, next := 0 }

def updR {β : Type} (f : Nat → β) (i : Nat) (v : β) : Nat → β := fun j => if j = i then v else f j

/-- `if (--*_count == 0) { delete _data; desallocate(_count); }` -/
def release (s : St) (o : Nat) : St :=
  let v := s.cnt o - 1
  { s with cnt := updR s.cnt o v, alive := if v = 0 then updR s.alive o false else s.alive }

inductive Op where
  | new (k v : Nat)        -- `if (!S[k]) S[k] = new RefCountPtr(new T(v))`
  | copy (k j : Nat)       -- `if (S[k] && !S[j]) S[j] = new RefCountPtr(*S[k])`
  | assign (k j : Nat)     -- `if (S[k] && S[j]) *S[j] = *S[k]`
  | del (k : Nat)          -- `delete S[k]; S[k] = 0`

def Op.slots : Op → List Nat
  | .new k _ => [k] | .copy k j => [k, j] | .assign k j => [k, j] | .del k => [k]

def step (s : St) : Op → St
  | .new k v => match s.slot k with
    | some _ => s
    | none => { slot := updR s.slot k (some s.next), cnt := updR s.cnt s.next 1, alive := updR s.alive s.next true,
                val := updR s.val s.next v, next := s.next + 1 }
  | .copy k j => match s.slot k, s.slot j with
    | some o, none => { s with slot := updR s.slot j (some o), cnt := updR s.cnt o (s.cnt o + 1) }
    | _, _ => s
  | .assign k j => match s.slot k, s.slot j with
    | some o, some o' =>
      if k = j then s else                       -- `if (this == &ptr) return *this;`
      let s := release s o'
      { s with slot := updR s.slot j (some o), cnt := updR s.cnt o (s.cnt o + 1) }
    | _, _ => s
  | .del k => match s.slot k with
    | none => s
    | some o => { (release s o) with slot := updR s.slot k none }

def run (s : St) (ops : List Op) : St := ops.foldl step s

/-- number of live objects -/
def liveCount (s : St) : Nat := ((List.range s.next).filter (fun o => s.alive o)).length

end Givaro.Model.RefPtr
