/-
C17 — the operation of the value-semantics machine (Spec/Array0Spec.lean) an Array0 operation stands for.
Core Lean only (used by the simulation theorem and by the driver).
-/
import GivaroModel.Model.Array0
import GivaroModel.Spec.Array0Spec
namespace Givaro.Model.Array0
open Givaro.Spec.Array0Spec
variable {α : Type}

def toV : Op α → VOp α
  | .build h sz t => .build h sz t
  | .noCopy h g => .share h g
  | .withCopy h g => .valueCopy h g
  | .destroy h => .drop h
  | .allocate h sz => .allocate h sz
  | .resize h sz => .resize h sz
  | .reserve h sz => .reserve h sz
  | .pushBack h v => .pushBack h v
  | .pushBackSelf h i => .pushBackSelf h i
  | .write h i v => .write h i v
  | .copy h g => .copy h g
  | .logcopy h g => .share h g
  | .assign h g => .copy h g

end Givaro.Model.Array0
