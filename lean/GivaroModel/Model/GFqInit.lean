/-
C05 — model of `GFqDom::init(Rep&, const Vector&)` (gfq.inl:832): initialisation from a polynomial over the prime field.

    Degree d; Pdom.degree(d, P);
    if (d >= (int64_t)_exponent) { Irreducible = PAD.radix(tmp, _irred); Pdom.mod(modP, P, Irreducible);
                                   PAD.eval(tr, modP); return r = _pol2log[(size_t)tr]; }
    else                         { PAD.eval(tr, P);    return r = _pol2log[(size_t)tr]; }

The vector is given by the integers `c_i ∈ [0,p)` its prime-field coefficients stand for.  `Pdom.mod` is taken by its C08
meaning (remainder of the polynomial division; parameter `modF`), `PAD.eval` is `Σ c_i p^i`.  An index outside the table is
`none` (the C++ reads past `_pol2log`).  Core Lean only.
-/
import GivaroModel.Spec.GFqSpec
namespace Givaro.Model.GFqInit
open Givaro.Spec.GFq

/-- `Degree` of the stored coefficients: index of the last non-zero one, `-1` for the zero polynomial -/
def degreeOf (cs : List Nat) : Int := (((cs.reverse.dropWhile (· == 0)).length : Nat) : Int) - 1

/-- `init(r, P)`: `modF` is `Pdom.mod(·, Irreducible)` (result as `k` coefficients) -/
def initVec (T : Tables) (modF : List Nat → List Nat) (cs : List Nat) : Option Nat :=
  let d := degreeOf cs
  let tr := if d ≥ (T.F.k : Int) then undigits T.F.p (modF cs) else undigits T.F.p cs
  if tr < T.pol2log.size then some (T.p2l tr) else none

end Givaro.Model.GFqInit
