/-
C08 — executable model of `Poly1Dom<Domain,Dense>` (src/library/poly1/givpoly1*.inl), core Lean only.

A polynomial is the `std::vector` of its coefficients, least significant first, *as stored*: the library
normalises lazily (`add`/`sub`/`neg`/scalar forms do not strip leading zeros, the observers do, through
`const_cast`).  The model mirrors that: every function returns the raw storage the C++ leaves behind.
The coefficient domain is any type with the operations of a field; nothing is assumed about them here.

Iterator ranges `(Rbeg,Rend)`, `(Pbeg,Pend)`, `(Qbeg,Qend)` of the range forms become: the length `n` of the
R range and the two sub-lists; the function returns the new content of the R range.
-/
namespace Givaro.Model.Poly

variable {K : Type} [Zero K] [One K] [Add K] [Sub K] [Neg K] [Mul K] [Div K] [Inv K] [DecidableEq K]

/-! ### givpoly1misc.inl: normalisation and observers -/

/-- `setdegree`: drop the leading (high-index) zero coefficients; `[]` is the zero polynomial.
    (The C++ scans with an `int` index from `size()-1` downwards and `resize`s; same function.) -/
def setdegree : List K → List K
  | [] => []
  | a :: P =>
    match setdegree P with
    | [] => if a = 0 then [] else [a]
    | b :: Q => a :: b :: Q

/-- `degree(d, P)`: normalises `P` (through `const_cast`) and returns `size()-1`; `-1` is `Degree::deginfty`. -/
def degree (P : List K) : Int := ((setdegree P).length : Int) - 1

/-- `isZero`: after `setDegree`, size 0, or size 1 with a zero coefficient -/
def isZero (P : List K) : Bool :=
  match setdegree P with
  | [] => true
  | [a] => decide (a = 0)
  | _ => false

/-- `isOne`: after `setDegree`, size 1 and the coefficient is one -/
def isOne (P : List K) : Bool :=
  match setdegree P with
  | [a] => decide (a = 1)
  | _ => false

/-- `leadcoef`: zero for the zero polynomial, else `P[degree]` -/
def leadcoef (P : List K) : K := ((setdegree P).getLast?).getD 0

/-- `areEqual`: both arguments are normalised, then compared coefficient by coefficient -/
def areEqual (P Q : List K) : Bool := decide (setdegree P = setdegree Q)

/-- `getEntry(c, i, P)` -/
def getEntry (i : Nat) (P : List K) : K := (setdegree P).getD i 0

/-- `assign(P, Degree(0), c)` / `assign(P, c)`: the constant polynomial `c` (`[]` when `c` is zero) -/
def assignC (c : K) : List K := if c = 0 then [] else [c]

/-- `assign(P, Q)` (givpoly1cstor.inl): copies the *normalised* `Q` -/
def assign (Q : List K) : List K := setdegree Q

/-! ### givpoly1addsub.inl -/

/-- `add(R,P,Q)`: `sP == 0 → R = Q`, `sQ == 0 → R = P`, else coefficientwise on the common part and a copy of the rest -/
def add : List K → List K → List K
  | [], Q => Q
  | P, [] => P
  | a :: P, b :: Q => (a + b) :: add P Q

/-- `neg(R,P)` -/
def neg (P : List K) : List K := P.map (fun a => -a)

/-- `sub(R,P,Q)`: `sQ == 0 → R = P`, `sP == 0 → neg(R,Q)`, else `P[i]-Q[i]`, then `-Q[i]` or `P[i]` -/
def sub : List K → List K → List K
  | P, [] => P
  | [], Q => neg Q
  | a :: P, b :: Q => (a - b) :: sub P Q

/-- `addin(R,P)` -/
def addin (R P : List K) : List K :=
  if P.isEmpty then R
  else if R.isEmpty then assign P
  else if R.length < P.length then add P R      -- tmp = P; tmp[i] += R[i]
  else add R P

/-- `subin(R,P)`: both non-trivial branches end in `setdegree` -/
def subin (R P : List K) : List K :=
  if P.isEmpty then R
  else if R.isEmpty then neg P
  else if R.length < P.length then setdegree (setdegree (sub R P))
  else setdegree (sub R P)

/-- `subin(R, Rbeg, Rend, P, Pbeg, Pend)` with `(Rbeg,Rend)` the whole of `R` (the only use in the library) -/
def subin3 (M L : List K) : List K :=
  if L.isEmpty then M
  else if M.length < L.length then setdegree (sub M L)
  else sub M L

/-- `negin` -/
def negin (R : List K) : List K := neg R

/-- `add(R,P,Val)` (as repaired by fixes/C08_1: the zero test is on the degree, not on `size()`) -/
def addVal (P : List K) (v : K) : List K :=
  match setdegree P with
  | [] => [v]
  | a :: t => (a + v) :: t

/-- `add(R,Val,P)` -/
def valAdd (v : K) (P : List K) : List K :=
  match setdegree P with
  | [] => [v]
  | a :: t => (v + a) :: t

/-- `sub(R,P,Val)` -/
def subVal (P : List K) (v : K) : List K :=
  match setdegree P with
  | [] => [-v]
  | a :: t => (a - v) :: t

/-- `sub(R,Val,P)` (as repaired by fixes/C08_1: `Val - P`) -/
def valSub (v : K) (P : List K) : List K :=
  match setdegree P with
  | [] => [v]
  | a :: t => (v - a) :: neg t

/-- `sub(R,Val,P)` as it is on the unchanged tree: `-Val` for `P = 0`, and `R[0] = Val + P[0]` -/
def valSub_unrepaired (v : K) (P : List K) : List K :=
  match P with
  | [] => [-v]
  | a :: t => (v + a) :: neg t

/-- `addin(R,Val)` -/
def addinVal (R : List K) (v : K) : List K :=
  match R with
  | [] => [v]
  | a :: t => (a + v) :: t

/-- `subin(R,Val)` -/
def subinVal (R : List K) (v : K) : List K :=
  match R with
  | [] => [-v]
  | a :: t => (a - v) :: t

/-! ### givpoly1muldiv.inl: scalar forms -/

/-- `mul(R,P,u)`, `mul(R,u,P)`, `mulin(R,u)` -/
def mulVal (P : List K) (u : K) : List K := P.map (fun a => a * u)

/-- `div(R,P,u)`, `divin(R,u)`: coefficientwise division, then `setdegree` -/
def divVal (P : List K) (u : K) : List K := setdegree (P.map (fun a => a / u))

/-! ### givpoly1kara.inl: products on ranges -/

/-- a range of `n` zero coefficients -/
def zeros (n : Nat) : List K := List.replicate n 0

/-- content of a range of length `n` after `L` was written at its beginning and the rest left zero -/
def pad (n : Nat) (L : List K) : List K := (L ++ zeros n).take n

/-- first row of `stdmul`: `R[j] = P[0]*Q[j]` (written as zero when either factor is zero), zero-filled to the range -/
def row0 (a : K) : Nat → List K → List K
  | 0, _ => []
  | n + 1, [] => 0 :: row0 a n []
  | n + 1, b :: Q => (if a = 0 then 0 else if b = 0 then 0 else a * b) :: row0 a n Q

/-- inner loop `for (ri, bi) axpyin(*ri, a, *bi)` stopping at the end of either range -/
def zipAxpy (a : K) : List K → List K → List K
  | r :: R, b :: Q => (r + a * b) :: zipAxpy a R Q
  | R, _ => R

/-- the same loop started at offset `off` of the R range -/
def axpyRow (a : K) (Q : List K) : Nat → List K → List K
  | 0, R => zipAxpy a R Q
  | _ + 1, [] => []
  | off + 1, r :: R => r :: axpyRow a Q off R

/-- outer loop of `stdmul` over the remaining coefficients of `P` (rows whose coefficient is zero are skipped;
    a row starting at or after the end of the range changes nothing, which is the loop's `rig != Rend` test) -/
def rowsFrom (Q : List K) : Nat → List K → List K → List K
  | _, [], R => R
  | off, a :: P, R => rowsFrom Q (off + 1) P (if a = 0 then R else axpyRow a Q off R)

/-- `stdmul(R, Rbeg, Rend, P, Pbeg, Pend, Q, Qbeg, Qend)`.  An empty `P` range makes the C++ `assign(R, zero)`,
    i.e. the *whole* vector becomes the zero polynomial (modelled as `[]`; reachable only where the range is the whole vector). -/
def stdmulR (n : Nat) (P Q : List K) : List K :=
  if n = 0 then [] else
  match P with
  | [] => []
  | a :: Pt => rowsFrom Q 1 Pt (row0 a n Q)

/-- `*ri -= *mi` from offset `off`, stopping at the end of either range (update of `R` with the middle term) -/
def zipSub : List K → List K → List K
  | r :: R, m :: M => (r - m) :: zipSub R M
  | R, _ => R

def subRow (M : List K) : Nat → List K → List K
  | 0, R => zipSub R M
  | _ + 1, [] => []
  | off + 1, r :: R => r :: subRow M off R

/-- one level of `karamul(R, Rbeg, Rend, P, Pbeg, Pend, Q, Qbeg, Qend)`; `mul` is the generic range product used for
    the three recursive calls (`halfP, halfQ, half, halfR, highs, rrems, midts` as in the source) -/
def karaStep (mul : Nat → List K → List K → List K) (n : Nat) (P Q : List K) : List K :=
  if n = 0 then [] else
  let halfP := P.length / 2
  let halfQ := Q.length / 2
  let half := min halfP halfQ
  let halfR := min (2 * half) n
  let Pl := P.take half
  let Ph := P.drop half
  let Ql := Q.take half
  let Qh := Q.drop half
  let lo := pad halfR (mul halfR Pl Ql)                       -- PlQl in the first part of R
  if ¬ (half < n) then pad n lo
  else
    let highs := Ph.length + Qh.length - 1
    let rrems := n - halfR
    let midts := min highs (n - half)
    let PHQH : List K := if rrems < midts then pad midts (mul midts Ph Qh) else []
    let hi : List K := if rrems < midts then PHQH.take rrems else pad rrems (mul rrems Ph Qh)
    let PHPL := setdegree (sub Ph Pl)                        -- Ph - Pl
    let QHQL := setdegree (sub Qh Ql)                        -- Qh - Ql
    let M0 := setdegree (mul midts PHPL QHQL)                -- (Ph-Pl)(Qh-Ql)
    let M1 := setdegree (subin3 M0 lo)                       -- -= PlQl
    let M2 := setdegree (if rrems < highs then subin M1 PHQH else subin3 M1 hi)   -- -= PhQh
    subRow M2 half (lo ++ hi)

/-- generic `mul` on ranges: Karatsuba when both ranges are longer than `thr` (= `KARA_THRESHOLD`), else schoolbook.
    `fuel` bounds the recursion depth (at fuel 0 the schoolbook product is used). -/
def mulR (thr : Nat) : Nat → Nat → List K → List K → List K
  | 0, n, P, Q => stdmulR n P Q
  | fuel + 1, n, P, Q =>
    if P.length > thr ∧ Q.length > thr then karaStep (mulR thr fuel) n P Q else stdmulR n P Q

/-- `stdmul(R,P,Q)` -/
def stdmul (P Q : List K) : List K :=
  if P.isEmpty ∨ Q.isEmpty then [] else setdegree (pad (P.length + Q.length - 1) (stdmulR (P.length + Q.length - 1) P Q))

/-- `karamul(R,P,Q)`: forces the first level -/
def karamul (thr : Nat) (P Q : List K) : List K :=
  if P.isEmpty ∨ Q.isEmpty then []
  else setdegree (karaStep (mulR thr (P.length + Q.length)) (P.length + Q.length - 1) P Q)

/-- `mul(R,P,Q)` -/
def mul (thr : Nat) (P Q : List K) : List K :=
  if P.isEmpty ∨ Q.isEmpty then []
  else setdegree (pad (P.length + Q.length - 1) (mulR thr (P.length + Q.length) (P.length + Q.length - 1) P Q))

/-- `mulin(R,P)`: `mul(tmp,R,P); assign(R,tmp)` -/
def mulin (thr : Nat) (R P : List K) : List K := assign (mul thr R P)

/-! ### givpoly1kara.inl: dedicated squaring (`stdsqr`, `sqrrec`, dispatch on `SQR_THRESHOLD`) -/

/-- inner loop of `stdsqr`: `axpyin(*rit, *backpit, *forpit)` with `backpit` walking down to `Pbeg` and `forpit` up to `Pend`
    (`back` is the part of `P` before `pit`, nearest coefficient first) -/
def dot : List K → List K → K → K
  | a :: A, b :: B, acc => dot A B (acc + a * b)
  | _, _, acc => acc

/-- body of the `for(++rit,++pit; rit != Rend; ++pit, ++rit)` loop of `stdsqr`: two coefficients per position of `pit`:
    the odd one `2·Σ P[t-1-s]P[t+s]` and the even one `2·Σ P[t-1-s]P[t+1+s] + P[t]²` -/
def stdsqrFrom (two : K) : List K → List K → List K
  | _, [] => []
  | back, p :: fwd =>
    (dot back (p :: fwd) 0 * two) :: (dot back fwd 0 * two + p * p) :: stdsqrFrom two (p :: back) fwd

/-- `stdsqr(R, Rbeg, Rend, P, Pbeg, Pend, two)`; PRECONDITION of the source: the R range has `2·|P|-1` places and `P` is not
    empty (an empty `P` range dereferences `Pbeg`) -/
def stdsqr (two : K) : List K → List K
  | [] => []
  | p0 :: rest => (p0 * p0) :: stdsqrFrom two [p0] rest

/-- `*ri += *mi` from offset `off` (update of `R` with the doubled cross product) -/
def zipAdd : List K → List K → List K
  | r :: R, m :: M => (r + m) :: zipAdd R M
  | R, _ => R

def addRow (M : List K) : Nat → List K → List K
  | 0, R => zipAdd R M
  | _ + 1, [] => []
  | off + 1, r :: R => r :: addRow M off R

/-- one level of `sqrrec`: `Pl²` in `R[0, 2·half-1)`, a zero, `Ph²` in `R[2·half, 2|P|-1)`, then `+= 2·Pl·Ph` at offset `half`;
    `sq` is the generic range square used for the two recursive calls, `mul` the generic range product -/
def sqrStep (sq : List K → List K) (mul : Nat → List K → List K → List K) (two : K) (P : List K) : List K :=
  let half := P.length / 2
  let Pl := P.take half
  let Ph := P.drop half
  let lo := pad (2 * half - 1) (sq Pl)
  let hi := pad (2 * P.length - 1 - 2 * half) (sq Ph)
  let M := mulVal (setdegree (pad P.length (mul P.length Pl Ph))) two      -- Rep M(P.size()); mul; setdegree; mulin(M,two)
  addRow M half (lo ++ 0 :: hi)

/-- generic `sqr` on ranges: recursive when the P range is longer than `thr` (= `SQR_THRESHOLD`; the product inside uses
    `KARA_THRESHOLD`, which has the same value in the source and in both harness builds) -/
def sqrR (thr : Nat) (two : K) : Nat → List K → List K
  | 0, P => stdsqr two P
  | fuel + 1, P =>
    if P.length > thr then sqrStep (sqrR thr two fuel) (mulR thr P.length) two P else stdsqr two P

/-- `sqr(R,P)`: no `setdegree` at the end (the result carries `2·size-1` coefficients) -/
def sqr (thr : Nat) (P : List K) : List K :=
  if P.isEmpty then [] else sqrR thr (1 + 1) P.length P

/-! ### givpoly1muldiv.inl: truncated product `mul(R,P,Q,Val,deg)` (coefficients `Val … deg` of the product) -/

/-- for each `i` the inner loop `for (; j<sP && k>=0; ++j,--k) axpyin(R[i],P[j],Q[k])` starts at
    `k = min(i+Val, sQ-1)`, `j = i+Val-k`; then `setdegree` -/
def mulWindow (P Q : List K) (val deg : Nat) : List K :=
  if P.isEmpty ∨ Q.isEmpty then [] else
  let newS := if deg < val then 0 else deg - val + 1
  setdegree ((List.range newS).map (fun i =>
    let k0 := if i + val ≥ Q.length then Q.length - 1 else i + val
    let j0 := i + val - k0
    dot (P.drop j0) ((Q.take (k0 + 1)).reverse) 0))

/-! ### givpoly1midmul.inl: middle products on ranges -/

/-- `*ri += *ai * b` along the two ranges (inner loop of `stdmidmul`, `axpyin(*ri,*ai,*bi)` with `bi` fixed) -/
def zipAxpyR (b : K) : List K → List K → List K
  | r :: R, a :: A => (r + a * b) :: zipAxpyR b R A
  | R, _ => R

/-- first row of `stdmidmul`: `R[i] = P[i]*Q[n-1]` (written as zero when either factor is zero), zero-filled to the range -/
def midRow0 (b : K) : Nat → List K → List K
  | 0, _ => []
  | n + 1, [] => 0 :: midRow0 b n []
  | n + 1, a :: P => (if b = 0 then 0 else if a = 0 then 0 else a * b) :: midRow0 b n P

/-- the rows `t = 1, 2, …` of `stdmidmul`: `P` advanced by one (`++aig`), `Q` walked down from `Q[n-2]` (`--bi`, here the
    reversed rest of `Q`), rows with a zero coefficient of `Q` skipped; stops at the end of either -/
def midRows : List K → List K → List K → List K
  | _ :: P, b :: Qr, R => midRows P Qr (if b = 0 then R else zipAxpyR b R P)
  | _, _, R => R

/-- `stdmidmul(R,Rbeg,Rend,P,Pbeg,Pend,Q,Qbeg,Qend)` on an R range of length `r` (`Q` not empty: `--bi` from `Qend`) -/
def stdmidmulR (r : Nat) (P Q : List K) : List K :=
  if r = 0 then [] else
  match Q.reverse with
  | [] => zeros r
  | bl :: Qr => midRows P Qr (midRow0 bl r P)

/-- coefficientwise sum / difference of two ranges stopping at the shorter (`TMP` constructions and the `S2` updates) -/
def zipAddS : List K → List K → List K
  | a :: A, b :: B => (a + b) :: zipAddS A B
  | _, _ => []
def zipSubS : List K → List K → List K
  | a :: A, b :: B => (a - b) :: zipSubS A B
  | _, _ => []

/-- one level of `karamidmul` (balanced: `|P| = 2|Q|-1`, R range of length `r`); `mid` is the generic range middle product
    used for the three recursive calls; `n0, n1, P0end, P1beg, P1plus, P1minus, P2beg, Qmid, Rmid` as in the source -/
def karamidStep (mid : Nat → List K → List K → List K) (r : Nat) (P Q : List K) : List K :=
  if r = 0 then [] else
  match Q with
  | [q] => pad r [P.getD 0 0 * q]
  | _ =>
    let n := Q.length
    let n0 := n / 2
    let n1 := n0 + n % 2
    let Q0 := Q.take n0
    let Q1 := Q.drop n0
    let P0 := P.take (2 * n1 - 1)
    let P1p := (P.drop n1).take (2 * n1 - 1)
    let P1m := (P.drop n1).take (2 * n0 - 1)
    let P2 := P.drop (2 * n1)
    let rmid := min n1 r
    -- R0 <- S0 = MP(P1+ + P0, Q1)
    let R0 := pad rmid (mid rmid (pad (2 * n1 - 1) (zipAddS P0 P1p)) Q1)
    -- R1 <- S1 = MP(P1- + P2, Q0)
    let R1 := pad (r - rmid) (mid (r - rmid) (pad (2 * n0 - 1) (zipAddS P1m P2)) Q0)
    -- Rtmp <- S2 = MP(P1+, Q1 - X^(n%2) Q0)
    let TMP := if n0 = n1 then zipSubS Q1 Q0 else (Q1.getD 0 0) :: zipSubS (Q1.drop 1) Q0
    let S2 := pad n1 (mid n1 P1p (pad n1 TMP))
    -- R0 -= S2 ; R1 += S2
    zipSub R0 S2 ++ zipAdd R1 S2

/-- generic `midmul` on ranges: `stdmidmul` when `min(m,n) <= thr`, `karamidmul` when balanced, otherwise blocks of
    balanced products along `P` (`m > n`) or along `Q` with accumulation into `R` (`m < n`) and a recursive call for
    what is left; `m = |P| - |Q| + 1` -/
def midR (thr : Nat) : Nat → Nat → List K → List K → List K
  | 0, r, P, Q => stdmidmulR r P Q
  | fuel + 1, r, P, Q =>
    let n := Q.length
    let m := P.length + 1 - n
    if P.length + 1 ≤ n ∨ min m n ≤ thr then stdmidmulR r P Q
    else if m = n then karamidStep (midR thr fuel) r P Q
    else if m > n then
      -- for (i = 0; i <= m-n; i += n) karamidmul(R[i,i+n), P[i,i+2n-1), Q);  then midmul on the rest
      let blocks := (m - n) / n + 1
      let done := (List.range blocks).flatMap (fun c =>
        karamidStep (midR thr fuel) n ((P.drop (c * n)).take (2 * n - 1)) Q)
      let i := blocks * n
      if i < m then done ++ pad (r - i) (midR thr fuel (r - i) (P.drop i) Q) else pad r done
    else
      -- m < n: blocks of m coefficients of Q from the bottom against windows of P from the top, accumulated into R
      let blocks := n / m
      let parts := (List.range blocks).map (fun c =>
        karamidStep (midR thr fuel) m ((P.take (P.length - c * m)).drop (P.length - c * m - (2 * m - 1)))
          ((Q.drop (c * m)).take m))
      let acc := match parts with
        | [] => zeros m
        | p0 :: rest => rest.foldl (fun R T => zipAdd R T) p0     -- the first block is written into R, the others added
      let used := blocks * m
      if used < n then zipAdd acc (pad m (midR thr fuel m (P.take (P.length - used)) (Q.drop used))) else acc

/-- `midmul(R,P,Q)` -/
def midmul (thr : Nat) (P Q : List K) : List K :=
  if P.isEmpty ∨ Q.isEmpty then []
  else setdegree (pad (P.length - Q.length + 1) (midR thr (P.length + Q.length) (P.length - Q.length + 1) P Q))

/-- `stdmidmul(R,P,Q)` -/
def stdmidmul (P Q : List K) : List K :=
  setdegree (pad (P.length - Q.length + 1) (stdmidmulR (P.length - Q.length + 1) P Q))

/-- `karamidmul(R,P,Q)` (first level forced; assumes `|P| = 2|Q|-1`) -/
def karamidmul (thr : Nat) (P Q : List K) : List K :=
  setdegree (pad (P.length - Q.length + 1)
    (karamidStep (midR thr (P.length + Q.length)) (P.length - Q.length + 1) P Q))

/-! ### givpoly1axpy.inl: fused forms (compositions of the above, as in the source) -/

def axpy (thr : Nat) (A X Y : List K) : List K := addin (mul thr A X) Y
def axmy (thr : Nat) (A X Y : List K) : List K := subin (mul thr A X) Y
def maxpy (thr : Nat) (A B C : List K) : List K := sub C (mul thr A B)
def maxpyin (thr : Nat) (R A B : List K) : List K := subin R (mul thr A B)
def axpyin (thr : Nat) (R A X : List K) : List K := axpy thr A X (assign R)
def axmyin (thr : Nat) (R A X : List K) : List K := negin (maxpyin thr R A X)
def axmyVal (a : K) (X Y : List K) : List K := subin (mulVal X a) Y
def maxpyinVal (R : List K) (a : K) (B : List K) : List K := subin R (mulVal B a)
def axmyinVal (R : List K) (a : K) (X : List K) : List K := negin (maxpyinVal R a X)

/-- `axpy(r, a, x, y)` with a scalar `a`: `a*x[i] + y[i]` on the common part, then `y[i]` or `a*x[i]` -/
def axpyVal (a : K) : List K → List K → List K
  | [], Y => Y
  | X, [] => X.map (fun x => a * x)
  | x :: X, y :: Y => (a * x + y) :: axpyVal a X Y

/-- `axpyin(r, a, x)` with a scalar `a` -/
def axpyinVal (a : K) : List K → List K → List K
  | R, [] => R
  | [], X => X.map (fun x => a * x)
  | r :: R, x :: X => (r + a * x) :: axpyinVal a R X

/-! ### givpoly1misc.inl: evaluation, derivative, reversal; givpoly1cyclo.inl: composition with X^b -/

/-- Horner's scheme from the leading coefficient of the normalised polynomial: `res = res*Val + P[i]` -/
def eval (P : List K) (v : K) : K := (setdegree P).foldr (fun a acc => acc * v + a) 0

/-- `diff`: `P[i] = Q[i+1] * (i+1)` where `i+1` is accumulated as `1+1+…` in the domain -/
def diffFrom (c : K) : List K → List K
  | [] => []
  | a :: Q => (a * (c + 1)) :: diffFrom (c + 1) Q

def diff (Q : List K) : List K :=
  match setdegree Q with
  | [] => []
  | _ :: t => diffFrom 0 t

/-- `reverse(P,Q)`, `reversein(P)`: reverse the *stored* coefficients (reversal with respect to `size()-1`, which is
    what `div` relies on), then `setdegree` -/
def reverse (Q : List K) : List K := setdegree Q.reverse

/-- `power_compose(W,P,b)` (as repaired by fixes/C08_2: the zero polynomial is returned for `P = 0`):
    the coefficient of index `i` moves to index `i*b` -/
def spread (b : Nat) : List K → List K
  | [] => []
  | [a] => [a]
  | a :: P => a :: (zeros (b - 1) ++ spread b P)

/-- `power_compose(W,P,b)` (as repaired by fixes/C08_2 and C08_6): the zero polynomial for `P = 0`; for `b = 0` the
    constant `P(1)`, accumulated as `s += P[i]` from `s = 0` and stored through `assign(W, Degree(0), s)`;
    otherwise the coefficients are spread -/
def powerCompose (P : List K) (b : Nat) : List K :=
  match setdegree P with
  | [] => []
  | Pn => if b = 0 then assignC (Pn.foldl (fun s a => s + a) 0) else setdegree (spread b Pn)

/-- `power_compose(W,P,0)` before fixes/C08_6: every coefficient below the leading one is written to `W[0]` in turn -/
def powerCompose0_unrepaired (P : List K) : List K :=
  match setdegree P with
  | [] => []
  | Pn => setdegree [(Pn.dropLast.getLast?).getD (Pn.getLast?.getD 0)]

/-- `modpowx(Am, A, l)`: `assign`, `resize(l)`, `setdegree` -/
def modpowx (A : List K) (l : Nat) : List K := setdegree (pad l (assign A))

/-! ### givpoly1muldiv.inl: Newton inverse modulo X^l and fast division -/

/-- `newtoninviter(G,S,Am,A,i)`: `S = G²`; `G += G`; `Am` = the first `i` coefficients of `A[0, min(i,|A|)) · S`
    (generic range product); `G -= Am` -/
def newtoninviter (thr : Nat) (G A : List K) (i : Nat) : List K :=
  let S := sqr thr G
  let G2 := addin G G
  let Ap := A.take i
  let Am := pad i (mulR thr (Ap.length + S.length) i Ap S)
  subin G2 Am

/-- `for (Degree i(2); i < l; i <<= 1) newtoninviter(G,S,Am,A,i)` -/
def invmodpowxLoop (thr : Nat) (A : List K) (l : Nat) : Nat → Nat → List K → List K
  | 0, _, G => G
  | fuel + 1, i, G =>
    if i < l then invmodpowxLoop thr A l fuel (2 * i) (newtoninviter thr G A i) else G

/-- `invmodpowx(G,A,l)`: `G = [1/A[0]]`, the doubling loop, and a last iteration at precision `l` -/
def invmodpowx (thr : Nat) (A : List K) (l : Nat) : List K :=
  newtoninviter thr (invmodpowxLoop thr A l l 2 [(A.getD 0 0)⁻¹]) A l

/-- `div(Q,A,B)` (precondition `B ≠ 0`): zero when `deg A < deg B`; coefficientwise when `B` is a constant; else
    `rev(Q) = rev(A) · rev(B)⁻¹ mod X^(deg A - deg B + 1)` with the Newton inverse, then `reversein` -/
def div (thr : Nat) (A B : List K) : List K :=
  let An := setdegree A
  let Bn := setdegree B
  if degree A < degree B then []
  else if degree B = 0 then divVal An (Bn.getD 0 0)
  else
    let degX := An.length - Bn.length + 1
    let S := invmodpowx thr (reverse Bn) degX
    let T := reverse An
    reverse (pad degX (mulR thr (S.length + T.length) degX S T))

/-- `divmod(Q,R,A,B) = div(Q,A,B); maxpy(R,Q,B,A)` (both operands were normalised in place by `div`) -/
def divmod (thr : Nat) (A B : List K) : List K × List K :=
  let Q := div thr A B
  (Q, maxpy thr Q (setdegree B) (setdegree A))

/-- `mod(R,A,B)`: the remainder of `divmod` -/
def mod (thr : Nat) (A B : List K) : List K := (divmod thr A B).2

/-- `divin(Q,A)`: `div(B,Q,A); assign(Q,B)` -/
def divin (thr : Nat) (Q A : List K) : List K := assign (div thr Q A)

/-- `divmodin(Q,R,B)`: `div(Q,R,B); maxpyin(R,Q,B)` -/
def divmodin (thr : Nat) (R B : List K) : List K × List K :=
  let Q := div thr R B
  (Q, maxpyin thr (setdegree R) Q (setdegree B))

/-! ### givpoly1muldiv.inl: pseudo-division `pdivmod(Q,R,m,A,B)`, `pmod(R,m,A,B)` (as repaired by fixes/C08_4) -/

/-- the `for (i=degQuo; i>=0; --i)` loop; `k+1` rounds are left and the current `degQuo` is `k`.  `Qh` are the quotient
    coefficients already produced (`Q[degQuo+1 …]`, each multiplied by `lB` every round), `R` the part of the remainder
    array not yet forced to zero (`R[0 … degRem]`, what lies above is zero and is cut by the final `resize`):
    `Q[k] = R[degRem]`; `R[j] *= lB` for `j<k`; `R[j+k] = R[j+k]·lB - Q[k]·B[j]` for `j<degB`; `m *= lB` -/
def pdivmodLoop (lB : K) (Bl : List K) : Nat → List K → List K → K → List K × List K × K
  | 0, Qh, R, m => (Qh, R, m)
  | k + 1, Qh, R, m =>
    let c := R.getD (k + Bl.length) 0
    let R' := (R.take k).map (fun r => r * lB)
              ++ List.zipWith (fun r b => r * lB - c * b) ((R.drop k).take Bl.length) Bl
    pdivmodLoop lB Bl k (c :: Qh.map (fun q => q * lB)) R' (m * lB)

/-- `pdivmod(Q,R,m,A,B)` (precondition `B ≠ 0`): returns `(Q, R, m)` -/
def pdivmod (A B : List K) : List K × List K × K :=
  let An := setdegree A
  let Bn := setdegree B
  if degree A < 0 then ([], [], 1)
  else if degree B = 0 then (An, [], Bn.getD 0 0)
  else if degree B > degree A then ([], An, 1)
  else
    let dB := Bn.length - 1
    let r := pdivmodLoop (Bn.getD dB 0) (Bn.take dB) (An.length - Bn.length + 1) [] An 1
    (setdegree r.1, setdegree r.2.1, r.2.2)

/-- the `for (; degB <= degR; --steps)` loop of `pmod` (`R` is normalised by `degree(degR,R)` every round) -/
def pmodLoop (lB : K) (Bl : List K) : Nat → Nat → List K → List K × Nat
  | 0, s, R => (setdegree R, s)
  | fuel + 1, s, R =>
    let Rn := setdegree R
    if Bl.length + 1 ≤ Rn.length then
      let d := Rn.length - 1 - Bl.length
      let c := Rn.getD (Rn.length - 1) 0
      let R' := (Rn.take d).map (fun r => r * lB)
                ++ List.zipWith (fun r b => r * lB - c * b) ((Rn.drop d).take Bl.length) Bl
      pmodLoop lB Bl fuel (s - 1) R'
    else (Rn, s)

/-- `steps` further multiplications of the whole remainder by `lB` -/
def scaleTimes (lB : K) : Nat → List K → List K
  | 0, R => R
  | s + 1, R => scaleTimes lB s (mulVal R lB)

/-- `x^n` (the value of `dom_power(m, x, n, _domain)` of givpower.h, which is not an anchored file: only its value is modelled) -/
def npow (x : K) : Nat → K
  | 0 => 1
  | n + 1 => npow x n * x

/-- `pmod(R,m,A,B)` (precondition `B ≠ 0`): returns `(R, m)`, `m = lB^(deg A - deg B + 1)` by `dom_power` -/
def pmod (A B : List K) : List K × K :=
  let An := setdegree A
  let Bn := setdegree B
  if degree A < 0 then ([], 1)
  else if degree B = 0 then ([], Bn.getD 0 0)
  else if degree B > degree A then (An, 1)
  else
    let dB := Bn.length - 1
    let lB := Bn.getD dB 0
    let steps := An.length - Bn.length + 1
    let r := pmodLoop lB (Bn.take dB) (An.length + 1) steps An
    (setdegree (scaleTimes lB r.2 r.1), npow lB steps)

/-! ### givpoly1muldiv.inl: `modin(A,B)`, the in-place long division -/

/-- One round of the outer loop `for (; i>=0; --i)`, seen through the reverse iterators.  `w` is the *window*: the
    coefficients of the running remainder from the leading one (`*A.rbegin()`) down to the constant one, i.e. the first
    `B.size()+i` entries of the reversed storage (what lies beyond — the zero written by `*aai = zero` and stale
    copies — is never read and is erased at the end by `A.erase`); `b = b0 :: bt` is `B` from its leading coefficient.
    `l = *ai / *bi`; `*aai = *ai - l·*bi` is recomputed into the leading slot while it is zero (`--i` each time),
    from the first non-zero value the remaining ones are written behind it, then the rest of `A` is copied down. -/
def modinStep (b0 : K) (bt : List K) : List K → List K
  | [] => []
  | w0 :: wt =>
    let l := w0 / b0
    let cs := List.zipWith (fun a b => a - l * b) wt bt
    cs.dropWhile (fun c => decide (c = 0)) ++ wt.drop bt.length

/-- the outer loop runs while `i >= 0`, i.e. while the window has at least `B.size()` entries -/
def modinLoop (b0 : K) (bt : List K) : Nat → List K → List K
  | 0, w => w
  | fuel + 1, w => if bt.length + 1 ≤ w.length then modinLoop b0 bt fuel (modinStep b0 bt w) else w

/-- `modin(A,B)` (as repaired by fixes/C08_4: both operands are normalised first; precondition `B ≠ 0`): the final
    `A.erase` keeps exactly the window, then `setdegree` -/
def modin (A B : List K) : List K :=
  match (setdegree B).reverse with
  | [] => setdegree A
  | b0 :: bt => setdegree (modinLoop b0 bt (A.length + 1) (setdegree A).reverse).reverse

/-! ### givpoly1misc.inl: `powmod(W,P,pwr,U)` -/

/-- `while (n>0) { if (n&1) { mulin(W,puiss); modin(W,U); } sqr(tmp,puiss); mod(puiss,tmp,U); n >>= 1; }` -/
def powmodLoop (thr : Nat) (U : List K) : Nat → Nat → List K → List K → List K
  | 0, _, W, _ => W
  | fuel + 1, n, W, puiss =>
    if n = 0 then W else
      let W' := if n % 2 = 1 then modin (mulin thr W puiss) U else W
      powmodLoop thr U fuel (n / 2) W' (mod thr (sqr thr puiss) U)

/-- `powmod(W,P,pwr,U)` for `pwr ≥ 0` (as repaired by fixes/C08_7: `W` starts as `1 mod U`, not `1`) -/
def powmod (thr : Nat) (P : List K) (n : Nat) (U : List K) : List K :=
  setdegree (powmodLoop thr U (n + 1) n (mod thr [1] U) (mod thr P U))

/-! ### givpoly1gcd.inl: extended gcd `gcd(F,S0,T0,A,B)` -/

/-- the `while (!isZero(G))` loop.  `divf` is the quotient `div(Q,F,G)` (Newton division, not modelled: a parameter);
    everything else is as in the source: `divmod = div; maxpy`, `r1 = leadcoef(R1)` (one when zero), `F = G`,
    `G = R1/r1`, and the two cofactor updates `S1' = (S0 - Q·S1)/r1`, `T1' = (T0 - Q·T1)/r1`.
    `none` = the loop did not finish within `fuel` rounds. -/
def gcdextLoop (thr : Nat) (divf : List K → List K → List K) :
    Nat → List K → List K → List K → List K → List K → List K → Option (List K × List K × List K)
  | 0, _, _, _, _, _, _ => none
  | fuel + 1, F, G, S0, S1, T0, T1 =>
    if isZero G then some (F, S0, T0) else
      let Q := divf F G
      let R1 := maxpy thr Q G F
      let r1 := if leadcoef R1 = 0 then 1 else leadcoef R1
      gcdextLoop thr divf fuel (assign G) (divVal R1 r1)
        (assign S1) (divVal (sub S0 (mul thr Q S1)) r1)
        (assign T1) (divVal (sub T0 (mul thr Q T1)) r1)

/-- `gcd(F,S0,T0,A,B)`: returns `(F, S0, T0)` -/
def gcdext (thr : Nat) (divf : List K → List K → List K) (fuel : Nat) (A B : List K) :
    Option (List K × List K × List K) :=
  if degree A < 0 ∨ degree B = 0 then
    let tt := (leadcoef B)⁻¹
    some (mulVal (assign B) tt, [], assignC tt)
  else if degree B < 0 ∨ degree A = 0 then
    let tt := (leadcoef A)⁻¹
    some (mulVal (assign A) tt, assignC tt, [])
  else
    let r0 := leadcoef A
    let r1 := leadcoef B
    gcdextLoop thr divf fuel (divVal (assign A) r0) (divVal (assign B) r1) (assignC r0⁻¹) [] [] (assignC r1⁻¹)

/-! ### givpoly1gcd.inl: plain `gcd(G,P,Q)` -/

/-- the `do { mod(R,U,G); setdegree(R); if (degR < 0) break; U = G; G = R; } while (1)` loop (`none`: not finished within `fuel`) -/
def gcdLoop (thr : Nat) : Nat → List K → List K → Option (List K)
  | 0, _, _ => none
  | fuel + 1, U, G =>
    let R := setdegree (mod thr U G)
    if degree R < 0 then some G else gcdLoop thr fuel (assign G) (assign R)

/-- `gcd(G,P,Q)`: early exits, the operand of larger degree first, the remainder sequence, and `1` for a constant result -/
def gcd (thr fuel : Nat) (P Q : List K) : Option (List K) :=
  if degree P < 0 ∨ degree Q = 0 then some (assign Q)
  else if degree Q < 0 ∨ degree P = 0 then some (assign P)
  else
    match (if degree P ≥ degree Q then gcdLoop thr fuel (assign P) (assign Q)
           else gcdLoop thr fuel (assign Q) (assign P)) with
    | none => none
    | some G => if degree G ≤ 0 then some [1] else some G

/-! ### givpoly1gcd.inl: `invmod(S0,A,B)` -/

/-- the loop of `invmod`: the loop of the extended gcd without the `T` cofactors -/
def invmodLoop (thr : Nat) (divf : List K → List K → List K) :
    Nat → List K → List K → List K → List K → Option (List K)
  | 0, _, _, _, _ => none
  | fuel + 1, F, G, S0, S1 =>
    if isZero G then some S0 else
      let Q := divf F G
      let R1 := maxpy thr Q G F
      let r1 := if leadcoef R1 = 0 then 1 else leadcoef R1
      invmodLoop thr divf fuel (assign G) (divVal R1 r1) (assign S1) (divVal (sub S0 (mul thr Q S1)) r1)

/-- `invmod(S0,A,B)`: `1/leadcoef(A)` when an operand has degree ≤ 0, else the cofactor of `A` from the monic remainder sequence -/
def invmod (thr fuel : Nat) (A B : List K) : Option (List K) :=
  if degree A ≤ 0 ∨ degree B ≤ 0 then some (assignC (leadcoef A)⁻¹)
  else invmodLoop thr (div thr) fuel (divVal (assign A) (leadcoef A)) (divVal (assign B) (leadcoef B))
         (assignC (leadcoef A)⁻¹) []

/-! ### givpoly1gcd.inl: `invmodunit(S0,A,B)` -/

/-- the loop of `invmodunit`: the plain (not normalised) remainder sequence with the cofactor of `A` -/
def invmodunitLoop (thr : Nat) : Nat → List K → List K → List K → List K → Option (List K)
  | 0, _, _, _, _ => none
  | fuel + 1, F, G, S0, S1 =>
    if isZero G then some S0 else
      let QR := divmod thr F G
      invmodunitLoop thr fuel (assign G) (assign QR.2) (assign S1) (assign (sub S0 (mul thr QR.1 S1)))

/-- `invmodunit(S0,A,B)`: `U` with `U·A = e + V·B`, `e` a non-zero constant -/
def invmodunit (thr fuel : Nat) (A B : List K) : Option (List K) :=
  if degree A ≤ 0 ∨ degree B ≤ 0 then some (assignC 1)
  else invmodunitLoop thr fuel (assign A) (assign B) (assign [1]) (assign [])

/-! ### givpoly1gcd.inl: `lcm(F,A,B)` -/

/-- the loop of `lcm` (the same remainder sequence with both cofactor rows); the value used after the loop is `S1` -/
def lcmLoop (thr : Nat) (divf : List K → List K → List K) :
    Nat → List K → List K → List K → List K → List K → List K → Option (List K)
  | 0, _, _, _, _, _, _ => none
  | fuel + 1, F, G, S0, S1, T0, T1 =>
    if isZero G then some S1 else
      let Q := divf F G
      let R1 := maxpy thr Q G F
      let r1 := if leadcoef R1 = 0 then 1 else leadcoef R1
      lcmLoop thr divf fuel (assign G) (divVal R1 r1)
        (assign S1) (divVal (sub S0 (mul thr Q S1)) r1)
        (assign T1) (divVal (sub T0 (mul thr Q T1)) r1)

/-- `lcm(F,A,B)` (as repaired by fixes/C08_3): zero for a zero operand, the other operand for a constant one, else the
    operand of larger degree `X` first and the result `S1·X` (after the loop `G` is zero, so `degG <= 0` always holds) -/
def lcm (thr fuel : Nat) (A B : List K) : Option (List K) :=
  if degree A < 0 then some []
  else if degree B < 0 then some []
  else if degree B = 0 then some (assign A)
  else if degree A = 0 then some (assign B)
  else
    let Xs := if degree A ≥ degree B then A else B
    let Ys := if degree A ≥ degree B then B else A
    match lcmLoop thr (div thr) fuel (divVal (assign Xs) (leadcoef Xs)) (divVal (assign Ys) (leadcoef Ys))
            (assignC (leadcoef Xs)⁻¹) [] [] (assignC (leadcoef Ys)⁻¹) with
    | none => none
    | some S1 => some (mul thr S1 Xs)

/-! ### givpoly1misc.inl: `pow(W,P,n)` (square and multiply, least significant bit first) -/

/-- `while (p != 0) { if (p & 1) W = W·puiss2; if ((p >>= 1) != 0) puiss2 = puiss2²; }` (products by the generic `mul`) -/
def powLoop (thr : Nat) : Nat → Nat → List K → List K → List K
  | 0, _, W, _ => W
  | fuel + 1, p, W, puiss2 =>
    if p = 0 then W else
      let W' := if p % 2 = 1 then assign (mul thr W puiss2) else W
      let puiss2' := if p / 2 ≠ 0 then assign (mul thr puiss2 puiss2) else puiss2
      powLoop thr fuel (p / 2) W' puiss2'

def pow (thr : Nat) (P : List K) (n : Nat) : List K := powLoop thr (n + 1) n (assign [1]) (assign P)

end Givaro.Model.Poly

/-! ### givpoly1padic.h: conversion between polynomials over Z/p and integers written in base p

Coefficients are the canonical residues `0 … p-1` (what `_domain.convert` returns for `Modular<…>`), as `Nat`. -/
namespace Givaro.Model.Padic

/-- `eval(E, P)`: `0` for the empty polynomial, else Horner from the leading coefficient: `E = E·p + P[i]` -/
def eval (p : Nat) : List Nat → Nat
  | [] => 0
  | a :: P => a + p * eval p P

/-- strip leading zero digits (`setdegree` over Z/p) -/
def setdegree : List Nat → List Nat
  | [] => []
  | a :: P =>
    match setdegree P with
    | [] => if a = 0 then [] else [a]
    | b :: Q => a :: b :: Q

/-- `init(P, Degree(0), E)`: the constant `E mod p` (`[]` when it is zero) -/
def initConst (p E : Nat) : List Nat := if E % p = 0 then [] else [E % p]

/-- `radix(P, E, n)` for `n ≥ 1`: one digit when `n = 1`; else `t = (n+1)/2`, `E = iq·p^t + ir`, the `t` low digits (padded
    with zeros up to `t`) followed by the `n-t` high ones, then `setdegree` -/
def radixN (p : Nat) : Nat → Nat → Nat → List Nat
  | 0, E, _ => initConst p E
  | fuel + 1, E, n =>
    if n ≤ 1 then initConst p E
    else
      let t := (n + 1) / 2
      let q := p ^ t
      let Q := radixN p fuel (E / q) (n - t)
      let P := setdegree (radixN p fuel (E % q) t)
      setdegree (P ++ List.replicate (t - P.length) 0 ++ Q)

/-- number of base-`p` digits of `E` (`logp(E,p) + 1` of gmp++, which is not an anchored file: only its value is modelled) -/
def ndigits (p : Nat) : Nat → Nat → Nat
  | 0, _ => 1
  | fuel + 1, E => if E < p then 1 else 1 + ndigits p fuel (E / p)

/-- `radix(P, E)` with the default `n = 0` -/
def radix (p E : Nat) : List Nat := radixN p (ndigits p E E) E (ndigits p E E)

end Givaro.Model.Padic
