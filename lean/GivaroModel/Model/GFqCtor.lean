/-
C05 — model of the table construction in the three `GFqDom` constructors (gfq.inl:960-1160), from the point where the
modulus `F` (p-adic code `_irred`) and the generator `G` (p-adic code, `_log2pol[1]`) are known:

    _log2pol[0] = 0
    k = 1 :  accu = 1; for (i = 1; i < P; ++i) { accu = (accu * seed) % P; _log2pol[i] = accu; }
    k > 1 :  H = G; _log2pol[1] = eval(H); for (i = 2; i < _qm1; ++i) { mulin(H,G); modin(H,F); _log2pol[i] = eval(H); }
             _log2pol[_qm1] = 1
    for (i = 0; i < _q; ++i) _pol2log[_log2pol[i]] = i
    _plus1[0] = 0
    for (i = 1; i < _q; ++i) { a = _log2pol[i]; r = a % P; b = (r == P-1) ? a - r : a + 1; _plus1[i] = _pol2log[b] - _qm1; }
    _plus1[mOne] = 0

`Poly1Dom::mulin` followed by `modin(·,F)` and `Poly1PadicDom::eval` is taken by its C08 meaning: the product of the two
polynomials reduced modulo `F`, as a p-adic code — `Spec.GFq.Field.cmul`.  How `seed`, `F`, `G` are found (lowest_prim_root,
ixe_irreducible / give_prim_root) is not part of this model: they are inputs (C13's / C09's contracts).
Core Lean only: linked into the driver.
-/
import GivaroModel.Spec.GFqSpec
namespace Givaro.Model.GFqCtor
open Givaro.Spec.GFq

/-- `#[x, f x, f (f x), …]` (`n` entries) appended to `acc` — the loops that fill `_log2pol` front to back -/
def iterGo (f : Nat → Nat) : Nat → Nat → Array Nat → Array Nat
  | 0, _, acc => acc
  | n + 1, x, acc => iterGo f n (f x) (acc.push x)

/-- `_log2pol` as the constructor fills it -/
def buildLog2pol (F : Field) (g : Nat) : Array Nat :=
  if F.k ≤ 1 then
    -- accu runs through seed, seed², … modulo P
    iterGo (fun a => (a * g) % F.p) (F.p - 1) ((1 * g) % F.p) #[0]
  else
    (iterGo (fun a => F.cmul a g) (F.q - 2) g #[0]).push 1

/-- `for (i = 0; i < _q; ++i) _pol2log[_log2pol[i]] = i` on a zero-initialised vector of `q` entries -/
def fillPol2log (q : Nat) (l2p : Array Nat) : Array Nat :=
  (List.range q).foldl (fun arr i => arr.setIfInBounds (l2p.getD i 0) i) (Array.replicate q 0)

/-- the value stored in `_plus1[i]` by the loop, `i ≥ 1` -/
def plus1Entry (F : Field) (l2p p2l : Array Nat) (i : Nat) : Int :=
  let a := l2p.getD i 0
  let r := a % F.p
  let b := if r = F.p - 1 then a - r else a + 1
  (p2l.getD b 0 : Int) - ((F.q : Int) - 1)

/-- `_plus1` : entry 0 is 0, the loop, then `_plus1[mOne] = 0` -/
def buildPlus1 (F : Field) (l2p p2l : Array Nat) (mOne : Nat) : Array Int :=
  ((Array.range F.q).map (fun i => if i = 0 then 0 else plus1Entry F l2p p2l i)).setIfInBounds mOne 0

/-- `mOne( (P==2) ? one : (one >> 1) )`, `one = q - 1` -/
def mOneOf (F : Field) : Nat := if F.p = 2 then F.q - 1 else (F.q - 1) / 2

/-- the three tables and `mOne` of a constructed object -/
def construct (F : Field) (g : Nat) : Tables :=
  let l2p := buildLog2pol F g
  let p2l := fillPol2log F.q l2p
  { F := F, mOne := (mOneOf F : Nat), log2pol := l2p, pol2log := p2l, plus1 := buildPlus1 F l2p p2l (mOneOf F) }

end Givaro.Model.GFqCtor

/-! ### the generator search of the prime-field constructor: `IntNumTheoDom::lowest_prim_root` (givintnumtheo.inl:420)

    if (n <= 4) return n - 1;  if (n % 4 == 0) return 0;
    phi(phin, n); set(Lf, phin); for f in Lf: f = phin / f;
    for (A = 2; A <= n && !found; ++A) if (gcd(A,n) == 1) { found = 1; for f in Lf while found: found = (powmod(A, f, n) != 1); }
    return A <= n ? A - 1 : 0

`phi(n)` and the list `Lf` of prime factors of `phi(n)` (Euler totient and integer factorisation: C13 / C12) are inputs of
the model; `powmod(A, f, n)` is `A^f mod n` (GMP contract). -/
namespace Givaro.Model.GFqCtor

/-- the body of the search loop for one candidate `A` -/
def primTest (n : Nat) (exps : List Nat) (A : Nat) : Bool :=
  Nat.gcd A n == 1 && exps.all (fun e => A ^ e % n != 1)

/-- the search loop started at `A`, at most `fuel` candidates; 0 when it runs past `n` -/
def primSearch (n : Nat) (exps : List Nat) : Nat → Nat → Nat
  | 0, _ => 0
  | fuel + 1, A => if A ≤ n then (if primTest n exps A then A else primSearch n exps fuel (A + 1)) else 0

/-- `lowest_prim_root(A, n)` given `phin = phi(n)` and the prime factors `Lf` of `phin` -/
def lowestPrimRoot (n phin : Nat) (Lf : List Nat) : Nat :=
  if n ≤ 4 then n - 1
  else if n % 4 = 0 then 0
  else primSearch n (Lf.map (fun f => phin / f)) n 2

end Givaro.Model.GFqCtor
