/-
C06 (round 5) — executable model of the conversions between `ruint<K>` / `rint<K>` and the built-in types
(src/kernel/recint/ruruint.h constructors and cast operators, rrint.h `rint(const T&)`, `cast_to`).
Core Lean only (linked into the driver).
-/
import GivaroModel.Model.RecInt
namespace Givaro.Model.RecInt

/-- `ruint<K>(const T b)` for a **signed** built-in `T`:
    limb level `Value(limb(b))`; above: `Low((b < 0) ? -(b + 1) : b) { if (b < 0) *this = ~*this; }`, `High` default-constructed (0).
    (`ruint<K>(const T b)` for an unsigned `T` is `Low(b)` recursively: `ofLimb n b`.) -/
def u_of_signed : (n : Nat) → Int → RU n
  | 0, w => .limb (w % 18446744073709551616).toNat
  | n+1, w => if w < 0 then not_ (.node (u_of_signed n (-(w + 1))) (zero n)) else .node (u_of_signed n w) (zero n)

/-- the cast operators `operator T() const { return T(Low); }` … `T(Value)`: the least significant limb -/
def ls_limb : {n : Nat} → RU n → Nat
  | _, .limb v => v
  | _, .node l _ => ls_limb l
/-- `(uint64_t)a`, `(unsigned long)a` -/
def to_u64 (a : RU n) : Nat := ls_limb a
/-- `(int64_t)a`, `(long)a`: the limb converted to the signed type (two's complement) -/
def to_s64 (a : RU n) : Int := if ls_limb a < 9223372036854775808 then (ls_limb a : Int) else (ls_limb a : Int) - 18446744073709551616
/-- `(uint32_t)a` -/
def to_u32 (a : RU n) : Nat := ls_limb a % 4294967296
/-- `(int32_t)a` -/
def to_s32 (a : RU n) : Int :=
  if ls_limb a % 4294967296 < 2147483648 then ((ls_limb a % 4294967296 : Nat) : Int) else ((ls_limb a % 4294967296 : Nat) : Int) - 4294967296
/-- `operator bool()`: `bool(Value)` at the limb level, `(High != 0) || (Low != 0)` above -/
def to_bool : {n : Nat} → RU n → Bool
  | _, .limb v => v != 0
  | _, .node l h => !(isZero h) || !(isZero l)

/-- `(double)(uint64_t v)`: round to nearest, ties to even, to a 53-bit significand (IEEE-754 binary64; the result is an integer).
    `e` = number of bits dropped. -/
def dbl_of_u64 (v : Nat) : Nat :=
  if v < 9007199254740992 then v else
  let e := Nat.log2 v - 52
  let q := v / 2 ^ e
  let r := v % 2 ^ e
  let half := 2 ^ (e - 1)
  if r > half || (r == half && q % 2 == 1) then (q + 1) * 2 ^ e else q * 2 ^ e
/-- `operator double() const { return (double)(Low); }` … `(double)(Value)`: ONLY the least significant limb is converted -/
def u_to_double (a : RU n) : Nat := dbl_of_u64 (ls_limb a)
/-- rint `cast_to<double>`: `isNegative() ? -static_cast<T>(-Value) : static_cast<T>(Value)` -/
def s_to_double (a : RU n) : Int := if isNegative a then -((u_to_double (neg a) : Nat) : Int) else (u_to_double a : Nat)
/-- `ruint<K>(const double b)` for an integer-valued `b` with `|b| < 2^64`:
    limb level `Value(static_cast<limb>(b))` (the C++ conversion is defined for `0 ≤ b` only; x86-64 wraps a negative one);
    above: `Low((b < 0) ? -b : b) { if (b < 0) *this = -*this; }` -/
def u_of_double : (n : Nat) → Int → RU n
  | 0, d => .limb (d % 18446744073709551616).toNat
  | n+1, d => if d < 0 then neg (.node (u_of_double n (-d)) (zero n)) else .node (u_of_double n d) (zero n)

end Givaro.Model.RecInt
