/-
`modular-mulprecomp.inl`: multiplication with a precomputed reciprocal in the machine-word `Modular<Storage,Compute>` rings.
`h = 4*sizeof(Compute_t)` is half the bit width of `Compute_t`; `n` is the bit size of the modulus (the `while (tmp != 0)`
loop), `2^(n-1) ≤ p < 2^n`.  The asserts of the file (`bitsizep <= 4*s-2`, resp. `4*s-1`) are its documented domain.
Core Lean only.
-/
import GivaroModel.Model.ModRing
namespace Givaro.Model.ModRing
namespace ICfg
variable (k : ICfg)

/-- `4*s`: half the bits of `Compute_t` -/
def hbits : Nat := k.c / 2

/-- the loop `tmp = _p; while (tmp != 0) { bitsizep++; tmp >>= 1; }` -/
def bitsize (_k : ICfg) (p : Int) : Nat := if p ≤ 0 then 0 else Nat.log2 p.toNat + 1

/-- `precomp_p`: `invp = (Compute_t(1) << (4*s + bitsizep - 1)) / Compute_t(_p)` -/
def precompP (p : Int) (n : Nat) : Int :=
  k.toC (Int.tdiv (k.toC ((2 : Int) ^ (k.hbits + n - 1))) (k.toC p))

/-- `mul_precomp_p(r, a, b, invp, bitsizep)` -/
def mulPrecompP (p : Int) (n : Nat) (invp a b : Int) : Int :=
  let prod := k.arC (k.toC (k.toR a) * k.toC (k.toR b))
  let prodhi := k.toC (prod / (2 : Int) ^ (n - 2))                       -- prod >> (bitsizep - 2)
  let c := k.toR (k.arC (prodhi * invp) / (2 : Int) ^ (k.hbits + 1))     -- (Residu_t)((prodhi * invp) >> (4*s+1))
  let rr := k.toR (k.arU (k.toR prod - k.arU (c * k.toR p)))             -- (Residu_t)prod - c * _p
  let rr' := k.toR (k.arU (rr - (if rr ≥ k.toR p then k.toR p else 0)))  -- rr -= (rr >= _p) ? _p : 0
  k.toE rr'

/-- `precomp_b(invb, b)`: `invb = (Compute_t(1) << (4*s)) * Compute_t(Residu_t(b)) / Compute_t(_p)` -/
def precompB (p b : Int) : Int :=
  k.toC (Int.tdiv (k.arC (k.toC ((2 : Int) ^ k.hbits) * k.toC (k.toR b))) (k.toC p))

/-- `mul_precomp_b_without_reduction(r, a, b, invb)`: the value in `[0, 2p)` -/
def mulPrecompBNoRed (p invb a b : Int) : Int :=
  let q := k.toR (k.arC (k.toC a * invb) / (2 : Int) ^ k.hbits)           -- (Residu_t)((Compute_t(a) * invb) >> (4*s))
  k.toR (k.arU (k.arU (k.toR a * k.toR b) - k.arU (q * k.toR p)))         -- Residu_t(a)*Residu_t(b) - q*_p

/-- `mul_precomp_b(r, a, b, invb)` -/
def mulPrecompB (p invb a b : Int) : Int :=
  let rr := k.mulPrecompBNoRed p invb a b
  k.toE (k.toR (k.arU (rr - (if rr ≥ k.toR p then k.toR p else 0))))

end ICfg
end Givaro.Model.ModRing
