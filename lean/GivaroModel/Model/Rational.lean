/-
C10 — executable model of `Givaro::Rational` and `QField<Rational>`
(src/kernel/rational/givrational.{h,inl}, givrataddsub.C, givratmuldiv.C, givratcompare.C,
 givratcstor.C, givratmisc.C, givratio.C, src/kernel/field/qfield.h), transcribed branch by branch.

* a value is the pair of `Integer` members `(num, den)`;
* the static `Rational::flags` is the parameter `red` (`true` = `Reduce`, the default);
* a `throw GivMathDivZero` is `none`;
* the `Integer` layer underneath (`+ - * /`, `gcd`, `pow`, `<<`, `floor/ceil/divmod`, `sign`, `isZero/isOne`) is the
  exact arithmetic established per overload by C01/C02 (`Generated/IntegerThms*`): `Integer::operator/` is the
  truncated quotient, `gcd` is non-negative;
* the one place where GMP under-specifies is the three-way `absCompare(Integer,Integer) = mpz_cmpabs`: only the
  sign of its result is specified.  Every function that consumes it takes it as the parameter `c`;
  the theorems quantify over every `c` meeting the contract `CmpAbsOK`, the driver runs GMP's actual behaviour
  (limb-count difference) *and* the ±1-normalised one.

Core Lean only (linked into the driver).
-/
import GivaroModel.Prim.Gmp
namespace Givaro.Model.Rational
open Givaro

structure QRep where
  num : Int
  den : Int
deriving DecidableEq, Repr, Inhabited

/-- contract of `mpz_cmpabs` (GMP manual: "a positive value if |a| > |b|, zero if |a| = |b|, a negative value if |a| < |b|") -/
def CmpAbsOK (c : Int → Int → Int) : Prop :=
  ∀ x y : Int, (c x y < 0 ↔ iabs x < iabs y) ∧ (c x y = 0 ↔ iabs x = iabs y)

-- ---- the Integer layer (exact; C01/C02) -------------------------------------------------
def igcd (a b : Int) : Int := (Int.gcd a b : Int)
/-- `Integer::operator/`, `operator/=`: `mpz_tdiv_q` -/
def idiv (a b : Int) : Int := Int.tdiv a b
/-- `sign(const Integer&)`: exactly -1, 0, 1 (gmp++_int.h:1431) -/
def isign (a : Int) : Int := if a < 0 then -1 else if a = 0 then 0 else 1

-- ---- givrational.inl: predicates ---------------------------------------------------------
def isZero (a : QRep) : Bool := a.num == 0
def isOne (a : QRep) : Bool := a.num == 1 && a.den == 1
def isMOne (a : QRep) : Bool := a.num == -1 && a.den == 1
def isInteger (a : QRep) : Bool := a.den == 1
def sign (a : QRep) : Int := isign a.num

-- ---- givratmisc.C: Rational::reduce() ----------------------------------------------------
def reduce (r : QRep) : QRep :=
  let t := igcd r.num r.den
  if t ≠ 1 then ⟨idiv r.num t, idiv r.den t⟩ else r

-- ---- givratcstor.C ------------------------------------------------------------------------
/-- `Rational(int32_t|uint32_t|int64_t|uint64_t n) : num(n), den(Integer::one)` -/
def ofWord (n : Int) : QRep := ⟨n, 1⟩
/-- `Rational(const Integer& n) : den(one)`; `num = isZero(n) ? zero : n` -/
def ofInteger (n : Int) : QRep := if n = 0 then ⟨0, 1⟩ else ⟨n, 1⟩
/-- `Rational(Neutral)` -/
def ofNeutral (one : Bool) : QRep := if one then ⟨1, 1⟩ else ⟨0, 1⟩

/-- `Rational(const Integer& n, const Integer& d, int red)`.  The `if (isZero(n)) { num = 0; den = 1; }`
    in front has no `else`: both members are overwritten by the `if (sign(d) > 0) … else …` that follows. -/
def mk3 (n d : Int) (red : Int) : Option QRep :=
  if d = 0 then none else
  let r : QRep := if isign d > 0 then ⟨n, d⟩ else ⟨-n, -d⟩
  some (if red = 1 then reduce r else r)

/-- `Rational(uint64_t n, uint64_t d)` (and the `uint32_t` forwarder): always reduces -/
def mk2U (n d : Int) : Option QRep :=
  if d = 0 then none else
  let r : QRep := if n = 0 then ⟨0, 1⟩ else ⟨n, d⟩
  some (reduce r)

/-- `Rational(int64_t n, int64_t d)` (and the `int32_t` forwarder): always reduces.
    `num = -Integer(n); den = -Integer(d)` in the negative branch (after fixes/C10_2: the unrepaired code
    negated in `int64_t`, which wraps at `INT64_MIN`). -/
def mk2S (n d : Int) : Option QRep :=
  if d = 0 then none else
  let r : QRep := if d > 0 then ⟨n, d⟩ else ⟨-n, -d⟩
  some (reduce r)

-- ---- givrataddsub.C -----------------------------------------------------------------------
def add (red : Bool) (a r : QRep) : Option QRep :=
  if isZero r then some a else
  if isZero a then some r else
  if isInteger a && isInteger r then some (ofInteger (a.num + r.num)) else
  if !red then mk3 (a.num * r.den + r.num * a.den) (a.den * r.den) 0 else
  let d1 := igcd a.den r.den
  if d1 = 1 then mk3 (a.num * r.den + r.num * a.den) (a.den * r.den) 0 else
  let t := a.num * idiv r.den d1 + r.num * idiv a.den d1
  let d2 := igcd t d1
  mk3 (idiv t d2) (idiv a.den d1 * idiv r.den d2) 0

/-- `operator+=`; the guard `if (&r == this) { Rational tmp(r); return *this += tmp; }` (7655b35) makes the aliased call the
    same function of the two stored pairs, so the model needs no alias parameter -/
def addin (red : Bool) (a r : QRep) : Option QRep :=
  if isZero r then some a else
  if isZero a then some ⟨r.num, r.den⟩ else
  if isInteger a && isInteger r then some ⟨a.num + r.num, a.den⟩ else
  if !red then some ⟨a.num * r.den + r.num * a.den, a.den * r.den⟩ else
  let d1 := igcd a.den r.den
  if d1 = 1 then some ⟨a.num * r.den + r.num * a.den, a.den * r.den⟩ else
  let num1 := a.num * idiv r.den d1 + r.num * idiv a.den d1
  let d2 := igcd num1 d1
  some ⟨idiv num1 d2, idiv (idiv a.den d1 * r.den) d2⟩

def sub (red : Bool) (a r : QRep) : Option QRep :=
  if isZero r then some a else
  if isZero a then mk3 (-r.num) r.den 0 else
  if isInteger a && isInteger r then some (ofInteger (a.num - r.num)) else
  if !red then mk3 (a.num * r.den - r.num * a.den) (a.den * r.den) 0 else
  let d1 := igcd a.den r.den
  if d1 = 1 then mk3 (a.num * r.den - r.num * a.den) (a.den * r.den) 0 else
  let t := a.num * idiv r.den d1 - r.num * idiv a.den d1
  let d2 := igcd t d1
  mk3 (idiv t d2) (idiv a.den d1 * idiv r.den d2) 0

def subin (red : Bool) (a r : QRep) : Option QRep :=
  if isZero r then some a else
  if isZero a then some ⟨-r.num, r.den⟩ else
  if isInteger a && isInteger r then some ⟨a.num - r.num, a.den⟩ else
  if !red then some ⟨a.num * r.den - r.num * a.den, a.den * r.den⟩ else
  let d1 := igcd a.den r.den
  if d1 = 1 then some ⟨a.num * r.den - r.num * a.den, a.den * r.den⟩ else
  let num1 := a.num * idiv r.den d1 - r.num * idiv a.den d1
  let d2 := igcd num1 d1
  some ⟨idiv num1 d2, idiv (idiv a.den d1 * r.den) d2⟩

/-- `Rational::operator-() const` -/
def neg (a : QRep) : Option QRep := mk3 (-a.num) a.den 0
/-- `abs(const Rational&)` -/
def abs (a : QRep) : Option QRep := mk3 (iabs a.num) a.den 0

-- ---- givratmuldiv.C -----------------------------------------------------------------------
def mul (c : Int → Int → Int) (red : Bool) (a r : QRep) : Option QRep :=
  if isZero r then some (ofWord 0) else
  if isZero a then some (ofWord 0) else
  if isOne r then some a else
  if isOne a then some r else
  if isInteger a && isInteger r then some (ofInteger (a.num * r.num)) else
  if c a.den r.den = 0 then mk3 (a.num * r.num) (a.den * r.den) 0 else
  if !red then mk3 (a.num * r.num) (a.den * r.den) 0 else
  let d1 := igcd a.num r.den
  let d2 := igcd a.den r.num
  mk3 (idiv a.num d1 * idiv r.num d2) (idiv a.den d2 * idiv r.den d1) 0

def mulin (c : Int → Int → Int) (red : Bool) (a r : QRep) : Option QRep :=
  if isZero r then some (ofWord 0) else
  if isZero a then some a else
  if isOne r then some a else
  if isOne a then some r else
  if isInteger a && isInteger r then some ⟨a.num * r.num, a.den⟩ else
  if c a.den r.den = 0 || !red then some ⟨a.num * r.num, a.den * r.den⟩ else
  let d1 := igcd a.num r.den
  let d2 := igcd a.den r.num
  some ⟨idiv a.num d1 * idiv r.num d2, idiv a.den d2 * idiv r.den d1⟩

def div (c : Int → Int → Int) (red : Bool) (a r : QRep) : Option QRep :=
  if isZero r then none else
  if isZero a then some (ofWord 0) else
  if isOne r then some a else
  if isOne a then
    (if sign r < 0 then mk3 r.den r.num 0 else mk3 (-r.den) (-r.num) 0) else
  if c a.den r.den = 0 then mk3 a.num r.num 1 else
  if !red then mk3 (a.num * r.den) (a.den * r.num) 0 else
  let d1 := igcd a.num r.num
  let d2 := igcd a.den r.den
  let resnum0 := idiv a.num d1 * idiv r.den d2
  let resnum := if isign r.num < 0 then -resnum0 else resnum0
  let resden0 := idiv a.den d2 * idiv r.num d1
  let resden := if isign resden0 < 0 then iabs resden0 else resden0
  mk3 resnum resden 0

def divin (red : Bool) (a r : QRep) : Option QRep :=
  if isZero r then none else
  if isZero a then some a else
  if isOne r then some a else
  if isOne a then
    (if isign r.num < 0 then some ⟨-r.den, -r.num⟩ else some ⟨r.den, r.num⟩) else
  if a.den = r.den then       -- `compare(this->den, r.den) == 0` on Integers
    (if isign r.num < 0 then some (reduce ⟨-a.num, -r.num⟩) else some (reduce ⟨a.num, r.num⟩)) else
  if !red then
    (if isign r.num < 0 then some ⟨-(a.num * r.den), -(a.den * r.num)⟩ else some ⟨a.num * r.den, a.den * r.num⟩) else
  let d1 := igcd a.num r.num
  let d2 := igcd a.den r.den
  let n := idiv a.num d1 * idiv r.den d2
  let d := idiv a.den d2 * idiv r.num d1
  if isign d < 0 then some ⟨-n, -d⟩ else some ⟨n, d⟩

-- ---- givratcompare.C ----------------------------------------------------------------------
/-- `absCompare(const Rational&, const Rational&)`; the `== -1` / `== 1` tests on raw `mpz_cmpabs`
    results are only missed shortcuts (the cross-multiplication below decides the same way). -/
def absCompare (c : Int → Int → Int) (a b : QRep) : Int :=
  let cnum := c a.num b.num
  let cden := c a.den b.den
  if cnum = -1 && cden = 1 then -1
  else if cnum = 1 && cden = -1 then 1
  else if cnum = 0 then -cden
  else if cden = 0 then cnum
  else c (a.num * b.den) (a.den * b.num)

def compare (c : Int → Int → Int) (a b : QRep) : Int :=
  if a.num = 0 && b.num = 0 then 0
  else if a.num = 0 then -(isign b.num)
  else if b.num = 0 then isign a.num
  else if isign a.num ≠ isign b.num then (if isign a.num = -1 then -1 else 1)
  else if isign a.num > 0 then absCompare c a b
  else -(absCompare c a b)

-- givrational.inl (after fixes/C10_1: `<` and `>` tested `== -1` / `== 1`)
def ne (c : Int → Int → Int) (a b : QRep) : Bool := compare c a b != 0
def eq (c : Int → Int → Int) (a b : QRep) : Bool := compare c a b == 0
def lt (c : Int → Int → Int) (a b : QRep) : Bool := compare c a b < 0
def gt (c : Int → Int → Int) (a b : QRep) : Bool := compare c a b > 0
def le (c : Int → Int → Int) (a b : QRep) : Bool := compare c a b ≤ 0
def ge (c : Int → Int → Int) (a b : QRep) : Bool := compare c a b ≥ 0

-- ---- givratmisc.C -------------------------------------------------------------------------
def trunc (a : QRep) : Int := idiv a.num a.den
def floor (a : QRep) : Int := Int.fdiv a.num a.den            -- mpz_fdiv_q
def ceil (a : QRep) : Int := -(Int.fdiv (-a.num) a.den)        -- mpz_cdiv_q

/-- `Integer::divmod(q, r, a, b)`: `mpz_tdiv_qr`, then the remainder is made non-negative -/
def idivmod (a b : Int) : Int × Int :=
  let q := Int.tdiv a b
  let r := Int.tmod a b
  if r < 0 then (if b > 0 then (q - 1, r + b) else (q + 1, r - b)) else (q, r)

def round (c : Int → Int → Int) (a : QRep) : Int :=
  let (q, r) := idivmod (iabs a.num) a.den
  let q' := if r ≠ 0 && c (r * 2) a.den ≥ 0 then q + 1 else q
  if a.num < 0 then -q' else q'

/-- `mpz_pow_ui`: `b ^ e`.  The bases 0, 1, -1 are short-cut so that the compiled driver can evaluate exponents
    of the size of 2^63 (`ipow_eq : ipow b e = b ^ e` is proved in Lemmas/RationalLemmas.lean). -/
def ipow (b : Int) (e : Nat) : Int :=
  if b = 0 then (if e = 0 then 1 else 0)
  else if b = 1 then 1
  else if b = -1 then (if e % 2 = 0 then 1 else -1)
  else b ^ e
/-- `pow(const Integer&, int64_t l)` = `mpz_pow_ui(n, (uint64_t) std::abs(l))` -/
def ipowS64 (n l : Int) : Int := ipow n (wrapU64 (absS64 l)).toNat
/-- `pow(const Integer&, uint64_t p)`: `p == 0 ? one : mpz_pow_ui(n, p)` -/
def ipowU (n p : Int) : Int := if p = 0 then 1 else ipow n p.toNat

/-- `pow(const Rational&, const int64_t y)`; `-y` is computed in `int64_t` -/
def powS64 (x : QRep) (y : Int) : QRep :=
  if y ≥ 0 then ⟨ipowS64 x.num y, ipowS64 x.den y⟩
  else
    let d := ipowS64 x.num (wrapS64 (-y))
    let n := ipowS64 x.den (wrapS64 (-y))
    if isign d < 0 then ⟨-n, -d⟩ else ⟨n, d⟩

/-- `pow(const Rational&, uint32_t|uint64_t l)` (friends defined in givrational.h) -/
def powU (x : QRep) (l : Int) : QRep := ⟨ipowU x.num l, ipowU x.den l⟩

-- ---- Rational(double) ----------------------------------------------------------------------
def pow2 (k : Int) : Int := 2 ^ k.toNat

/-- `Rational(double x)` from the IEEE-754 fields: `s` sign bit, `e` biased exponent (0 … 2046), `m` 52-bit mantissa.
    `x < 0.` is `s = 1` except for `-0.0`.  The subnormal branch negates `Integer(mantissa)`
    (after fixes/C10_3: the unrepaired code negated the unsigned bit-field, giving `2^64 - m`). -/
def ofDouble (red : Bool) (s e m : Int) : Option QRep :=
  let neg : Bool := s == 1 && !(e == 0 && m == 0)
  let r : Option QRep :=
    if e = 0 then
      let num := if neg then -m else m
      divin red ⟨num, 1⟩ (ofInteger (pow2 1074))
    else
      let shift := 1075 - e
      if shift > 0 then
        let tt := m + 4503599627370496
        some ⟨if neg then -tt else tt, pow2 shift⟩
      else
        let tt := (m + 4503599627370496) * pow2 (-shift)
        some ⟨if neg then -tt else tt, 1⟩
  match r with
  | none => none
  | some q => some (if red then reduce q else q)

-- ---- qfield.h -------------------------------------------------------------------------------
def fneg (a : QRep) : QRep := ⟨-a.num, a.den⟩
/-- `inv(r, a)` / `invin(r)`: `snum = sign(a.num); r = a; std::swap(r.num, r.den); if (snum < 0) { negin(r.num); negin(r.den); }`
    (since 69bebbc the operand is copied first, so `r` may be `a`) -/
def finv (a : QRep) : QRep :=
  if isign a.num < 0 then ⟨-a.den, -a.num⟩ else ⟨a.den, a.num⟩

def bind2 (f : QRep → QRep → Option QRep) (x y : Option QRep) : Option QRep :=
  match x, y with
  | some a, some b => f a b
  | _, _ => none

/-- `r = a * b + c` -/
def axpy (c : Int → Int → Int) (red : Bool) (a b z : QRep) : Option QRep := bind2 (add red) (mul c red a b) (some z)
/-- `r += a * b` -/
def axpyin (c : Int → Int → Int) (red : Bool) (r a b : QRep) : Option QRep := bind2 (addin red) (some r) (mul c red a b)
/-- `r = c - a * b` -/
def maxpy (c : Int → Int → Int) (red : Bool) (a b z : QRep) : Option QRep := bind2 (sub red) (some z) (mul c red a b)
/-- `r = a * b - c` -/
def axmy (c : Int → Int → Int) (red : Bool) (a b z : QRep) : Option QRep := bind2 (sub red) (mul c red a b) (some z)
/-- `r = a * b - r` -/
def axmyin (c : Int → Int → Int) (red : Bool) (r a b : QRep) : Option QRep := bind2 (sub red) (mul c red a b) (some r)
/-- `r -= a * b` -/
def maxpyin (c : Int → Int → Int) (red : Bool) (r a b : QRep) : Option QRep := bind2 (subin red) (some r) (mul c red a b)

-- ---- givratio.C: operator>> on the token grammar `[blanks] int [blanks '/' int]` ------------------
/-- `num` alone → `Rational(num)`; with a denominator → `Rational(num, den)` (reducing constructor) -/
def ofText (n : Int) (d : Option Int) : Option QRep :=
  match d with
  | none => some (ofInteger n)
  | some d => mk3 n d 1

end Givaro.Model.Rational
