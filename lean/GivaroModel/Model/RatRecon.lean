/-
C11 — executable model of rational reconstruction as it is written in
  src/kernel/rational/givratreconstruct.C   (Rational::ratrecon, the Rational(f,m,k,recurs) constructor,
                                             the three RationalReconstruction overloads)
  src/kernel/integer/givinteger.{h,C}       (ZRing<Integer> forwards to the functions above)
  src/kernel/field/qfield.h                 (QField::ratrecon = Rational(f,m,k,recurs))
  src/library/poly1/givpoly1ratrecon.inl    (Poly1Dom::ratrecon / ratreconcheck)

The model mirrors the code branch by branch (the dead `f % m == 0` branch, the second candidate,
the widening loop that compares with the
*un-normalised* residue …).  `Integer` is `Int`; `/=` is truncated division (`mpz_tdiv_q`), `%`/`%=`
the truncated remainder (`mpz_tdiv_r`), `gcd` is `mpz_gcd` (non-negative), `sqrt` is `mpz_sqrt`.
Diagnostics written to `std::cerr` are not modelled.  Core Lean only.
-/
namespace Givaro.Model.RatRecon

/-! ### Integer reconstruction -/

/-- the four live variables of the Euclid loop (`q`, `u` are temporaries) -/
structure LoopSt where
  r0 : Int
  t0 : Int
  r1 : Int
  t1 : Int
deriving Repr, DecidableEq

/-- one iteration of `while (r1 >= k) { q = r0/r1; (r0,r1) = (r1, r0 - r1 q); (t0,t1) = (t1, t0 - t1 q) }`
    (`Integer::maxpyin(r1,u,q)` is `r1 -= u*q`) -/
def step (s : LoopSt) : LoopSt :=
  let q := Int.tdiv s.r0 s.r1
  { r0 := s.r1, t0 := s.t1, r1 := s.r0 - s.r1 * q, t1 := s.t0 - s.t1 * q }

/-- the `while (r1 >= k)` loop with fuel (`fuel_suffices`: `r1.toNat + 1` is enough) -/
def loop (k : Int) : Nat → LoopSt → LoopSt
  | 0, s => s
  | n + 1, s => if s.r1 ≥ k then loop k n (step s) else s

/-- what a call leaves in `(return value, num, den)` -/
structure Out where
  ok : Bool
  num : Int
  den : Int
deriving Repr, DecidableEq

/-- `r1 = f; if (f < 0) { r1 %= m; if (r1 < 0) r1 += m; }`  (`%=` is the truncated remainder) -/
def startR1 (f m : Int) : Int :=
  if f < 0 then
    let r := Int.tmod f m
    if r < 0 then r + m else r
  else f

def fuelFor (f m : Int) : Nat := (startR1 f m).toNat + 1

/-- the code after the loop: candidate (i), the reducedness test (ii), the second candidate -/
def finish (s : LoopSt) (f m k : Int) (forcereduce : Bool) : Out :=
  -- (i)
  let num := if s.t1 < 0 then -s.r1 else s.r1
  let den := if s.t1 < 0 then -s.t1 else s.t1
  if forcereduce then
    -- (ii)
    if Int.gcd num den ≠ 1 then
      if num = 0 then
        if Int.tmod f m = 0 then ⟨true, num, den⟩ else ⟨false, num, den⟩
      else
        let q := Int.tdiv (s.r0 + s.r1 - k) s.r1
        let r0' := s.r0 - q * s.r1
        let t0' := s.t0 - q * s.t1
        let num' := if t0' < 0 then -r0' else r0'
        let den' := if t0' < 0 then -t0' else t0'
        if Int.gcd num' den' ≠ 1 then ⟨false, num', den'⟩ else ⟨true, num', den'⟩
    else ⟨true, num, den⟩
  else ⟨true, num, den⟩

/-- `Rational::ratrecon(num, den, f, m, k, forcereduce, recurs)` — `recurs` only silences diagnostics -/
def ratreconFuel (fuel : Nat) (f m k : Int) (forcereduce : Bool) : Out :=
  finish (loop k fuel ⟨m, 0, startR1 f m, 1⟩) f m k forcereduce

def ratrecon (f m k : Int) (forcereduce : Bool) : Out := ratreconFuel (fuelFor f m) f m k forcereduce

/-- `for (newk = k+1; !res && newk < f; newk <<= 1) res = ratrecon(a,b,x,m,newk,forcereduce,true);`
    `cur` is the state left by the previous call; `x` the residue handed to ratrecon, `f` the one compared with. -/
def widen (x m f : Int) (forcereduce : Bool) : Nat → Int → Out → Out
  | 0, _, cur => cur
  | n + 1, newk, cur =>
    if !cur.ok && newk < f then widen x m f forcereduce n (newk * 2) (ratrecon x m newk forcereduce) else cur

/-- number of doublings after which `newk ≥ f` certainly holds when `newk ≥ 1` -/
def widenFuel (f : Int) : Nat := f.toNat + 1

/-- `Rational::Rational(f, m, k, recurs)` with `Rational::flags` (`Reduce` unless `SetNoReduce()` was called);
    the success flag is computed by the code but not observable. -/
def rationalCtor (f m k : Int) (recurs : Bool) (flagsReduce : Bool := true) : Out :=
  let res := ratrecon f m k flagsReduce
  if recurs then widen f m f flagsReduce (widenFuel f) (k + 1) res else res

/-- `QField<Rational>::ratrecon(r, f, m, k, recurs = false)` -/
def qfieldRatrecon (f m k : Int) (recurs : Bool) : Out := rationalCtor f m k recurs
/-- `QField<Rational>::ratrecon(r, f, m, recurs = true)` -/
def qfieldRatreconDefault (f m : Int) (recurs : Bool) : Out := rationalCtor f m (Int.ofNat (Nat.sqrt m.toNat)) recurs

/-- the residue normalisation at the head of the 7-argument `RationalReconstruction` -/
def normResidue (f m : Int) : Int :=
  if f < 0 then
    let x := if -f > m then Int.tmod f m else f
    if x < 0 then x + m else x
  else
    if f > m then Int.tmod f m else f

/-- `Rational::RationalReconstruction(a, b, f, m, k, forcereduce, recursive)`.
    `a0 b0`: the previous contents of the output references are irrelevant (always overwritten). -/
def rationalReconstruction (f m k : Int) (forcereduce recursive : Bool) : Out :=
  let x := normResidue f m
  if x = 0 then ⟨true, 0, 1⟩
  else
    let res := ratrecon x m k forcereduce
    if recursive then widen x m f forcereduce (widenFuel f) (k + 1) res else res

/-- `mpz_sqrt` -/
def isqrt (m : Int) : Int := Int.ofNat (Nat.sqrt m.toNat)

/-- `Rational::RationalReconstruction(a, b, x, m)` — the default bound `⌊√m⌋` -/
def rationalReconstructionDefault (x m : Int) : Out := ratrecon x m (isqrt m) true

/-- `Rational::RationalReconstruction(a, b, x, m, a_bound, b_bound)`:
    `bound = x / b_bound; res = ratrecon(a,b,x,m, max(bound,a_bound), true, false); return res && b <= b_bound;` -/
def rationalReconstructionBounds (x m aBound bBound : Int) : Out :=
  let bound := Int.tdiv x bBound
  let r := ratrecon x m (if bound > aBound then bound else aBound) true
  ⟨r.ok && decide (r.den ≤ bBound), r.num, r.den⟩

/-! ### Polynomial reconstruction, generic in the polynomial primitives it calls

`Poly1Dom<Domain,Dense>::ratrecon` only uses `degree`, `assign`, `divmodin`, `maxpyin`, and
`ratreconcheck` additionally `gcd`, `leadcoef`, `divin`.  The model is written over a record of exactly
these primitives, so that the same definition is executed by the driver (list polynomials over Z/p)
and reasoned about (any primitives satisfying the Euclidean-ring laws). -/

structure PolyOps (P : Type) where
  zero : P
  one : P
  /-- `Degree`: -1 for the zero polynomial -/
  deg : P → Int
  /-- `divmodin(Q, N, U)`: returns (quotient, remainder) of N by U -/
  divmod : P → P → P × P
  /-- `maxpyin(r, a, b)`: r - a*b -/
  maxpy : P → P → P → P
  /-- degree of `gcd(G, N, D)` -/
  gcdDeg : P → P → Int
  /-- `leadcoef(r, D)` is one -/
  lcIsOne : P → Bool
  /-- `divin(X, leadcoef(D))` -/
  divLc : P → P → P

structure POut (P : Type) where
  ok : Bool
  n : P
  d : P

/-- state of the do-while loop: N, U, D0, D -/
structure PSt (P : Type) where
  n : P
  u : P
  d0 : P
  d : P

/-- the `do { … } while (degN >= 0)` loop; returns `(degN ≤ dk, N, D)` -/
def polyLoop {P : Type} (O : PolyOps P) (dk : Int) : Nat → PSt P → POut P
  | 0, s => ⟨false, s.n, s.d⟩
  | fuel + 1, s =>
    let qr := O.divmod s.n s.u                   -- divmodin(Q,N,U)
    let n1 := qr.2
    let d01 := O.maxpy s.d0 qr.1 s.d             -- maxpyin(D0,Q,D)
    let degN := O.deg n1
    if degN ≤ dk ∨ degN < 0 then ⟨decide (degN ≤ dk), n1, d01⟩   -- assign(D,D0); break
    else
      let qr2 := O.divmod s.u n1                 -- divmodin(Q,U,N)
      let u1 := qr2.2
      let d1 := O.maxpy s.d qr2.1 d01            -- maxpyin(D,Q,D0)
      let degU := O.deg u1
      if degU ≤ dk then ⟨true, u1, d1⟩           -- assign(N,U); break
      else if degU ≥ 0 then polyLoop O dk fuel ⟨n1, u1, d01, d1⟩
      else ⟨decide (degU ≤ dk), n1, d1⟩

/-- `Poly1Dom::ratrecon(N, D, P, M, dk)` -/
def polyRatreconFuel {P : Type} (O : PolyOps P) (fuel : Nat) (p m : P) (dk : Int) : POut P :=
  let degU := O.deg p
  let degV := O.deg m
  if degU < dk ∨ degV = 0 then ⟨true, p, O.one⟩
  else if degV < 0 ∨ degU = 0 then ⟨false, O.one, O.one⟩
  else polyLoop O dk fuel ⟨m, p, O.zero, O.one⟩

/-- `Poly1Dom::ratreconcheck(N, D, P, M, dk)` -/
def polyRatreconCheckFuel {P : Type} (O : PolyOps P) (fuel : Nat) (p m : P) (dk : Int) : POut P :=
  let r := polyRatreconFuel O fuel p m dk
  if O.gcdDeg r.n r.d > 0 then ⟨false, r.n, r.d⟩
  else if !O.lcIsOne r.d then ⟨r.ok, O.divLc r.n r.d, O.divLc r.d r.d⟩
  else r

/-- `Poly1Dom::ratrecon(N, D, P, M, dk, forcereduce)` -/
def polyRatrecon6Fuel {P : Type} (O : PolyOps P) (fuel : Nat) (p m : P) (dk : Int) (forcereduce : Bool) : POut P :=
  if forcereduce then polyRatreconCheckFuel O fuel p m dk else polyRatreconFuel O fuel p m dk

/-! ### list polynomials over Z/p (p prime), little endian, canonical coefficients, no trailing zero -/

abbrev LPoly := List Int

def lnorm (a : LPoly) : LPoly := (a.reverse.dropWhile (· == 0)).reverse
def ldeg (a : LPoly) : Int := Int.ofNat (lnorm a).length - 1
def lcoef (a : LPoly) (i : Nat) : Int := a.getD i 0
def llead (a : LPoly) : Int := match (lnorm a).reverse with | [] => 0 | c :: _ => c

def powMod (p : Int) (b : Int) : Nat → Int
  | 0 => 1 % p
  | n + 1 => (powMod p b n * b) % p

/-- inverse in Z/p by a (fuelled) extended Euclid; `p` prime, `c` not divisible by p -/
def invModAux (p : Int) : Nat → Int → Int → Int → Int → Int
  | 0, _, _, t0, _ => t0 % p
  | n + 1, r0, r1, t0, t1 => if r1 = 0 then t0 % p else invModAux p n r1 (r0 % r1) t1 (t0 - (r0 / r1) * t1)
def invMod (p c : Int) : Int := invModAux p (p.toNat + 2) p (c % p) 0 1

def lzipWith (f : Int → Int → Int) : LPoly → LPoly → LPoly
  | [], bs => bs.map (fun b => f 0 b)
  | a :: as, [] => f a 0 :: lzipWith f as []
  | a :: as, b :: bs => f a b :: lzipWith f as bs

def ladd (p : Int) (a b : LPoly) : LPoly := lnorm (lzipWith (fun x y => (x + y) % p) a b)
def lsub (p : Int) (a b : LPoly) : LPoly := lnorm (lzipWith (fun x y => (x - y) % p) a b)
def lscale (p : Int) (c : Int) (a : LPoly) : LPoly := lnorm (a.map (fun x => (c * x) % p))
def lshift (n : Nat) (a : LPoly) : LPoly := if a.isEmpty then [] else List.replicate n 0 ++ a
def lmul (p : Int) : LPoly → LPoly → LPoly
  | [], _ => []
  | a :: as, b => ladd p (lscale p a b) (lshift 1 (lmul p as b))

/-- schoolbook division over Z/p: `(q, r)` with `a = q b + r`, `deg r < deg b` (b ≠ 0) -/
def ldivmodAux (p : Int) (b : LPoly) (ilc : Int) (db : Int) : Nat → LPoly → LPoly → LPoly × LPoly
  | 0, q, r => (q, r)
  | n + 1, q, r =>
    let dr := ldeg r
    if dr < db then (q, r)
    else
      let c := (llead r * ilc) % p
      let sh := (dr - db).toNat
      let term := lshift sh [c]
      ldivmodAux p b ilc db n (ladd p q term) (lsub p r (lmul p term b))

def ldivmod (p : Int) (a b : LPoly) : LPoly × LPoly :=
  let b' := lnorm b
  if b'.isEmpty then ([], lnorm a)
  else ldivmodAux p b' (invMod p (llead b')) (ldeg b') (a.length + 1) [] (lnorm a)

def lgcdAux (p : Int) : Nat → LPoly → LPoly → LPoly
  | 0, a, _ => a
  | n + 1, a, b => if (lnorm b).isEmpty then lnorm a else lgcdAux p n b (ldivmod p a b).2
def lgcd (p : Int) (a b : LPoly) : LPoly := lgcdAux p (a.length + b.length + 2) a b

def lreduce (p : Int) (a : LPoly) : LPoly := lnorm (a.map (· % p))

def listOps (p : Int) : PolyOps LPoly where
  zero := []
  one := [1 % p]
  deg := ldeg
  divmod := ldivmod p
  maxpy := fun r a b => lsub p r (lmul p a b)
  gcdDeg := fun a b => ldeg (lgcd p a b)
  lcIsOne := fun d => llead d == 1
  divLc := fun x d => lscale p (invMod p (llead d)) x

def polyFuel (p m : LPoly) : Nat := p.length + m.length + 2

def polyRatrecon (pr : Int) (p m : LPoly) (dk : Int) (forcereduce : Bool) : POut LPoly :=
  polyRatrecon6Fuel (listOps pr) (polyFuel p m) p m dk forcereduce

end Givaro.Model.RatRecon
