/-
C06 (round 5) — executable model of `bezout_mod` (src/kernel/recint/ruinvmod.h) and of the signed wrappers `rint<K>`
(radd.h, rsub.h, rmul.h, rdiv.h, rcmp.h, rfiddling.h): a `rint<K>` is its field `Value : ruint<K>` (the two's-complement
image), so the model works on `RU n` and the theorems read the result back with the signed reading.
Transcribed branch by branch; loops take fuel (a lemma shows the fuel suffices).  Core Lean only (linked into the driver).
-/
import GivaroModel.Model.RecInt
namespace Givaro.Model.RecInt

/-! ### ruinvmod.h: `bezout_mod(lastx, lasty, c, d)` -/
/-- the loop of `bezout_mod`; state `(lastx, x, lasty, y, a, b)`, result `(lastx, lasty)`.
    Each pass: `div(q, r, a, b); a = b; b = r;` then, for the `x` track modulo `d` and the `y` track modulo `c`:
    `lmul(resmul, q, x); mod_n(temp, resmul, d); if (temp != 0) sub(temp, d, temp); add(ret, temp, lastx);
     if (ret || cmp(temp, d) >= 0) sub(temp, d); lastx = x; x = temp;` -/
def bezLoop {n : Nat} (t : Nat) (c d : RU n) : Nat → RU n → RU n → RU n → RU n → RU n → RU n → RU n × RU n
  | 0, lastx, _, lasty, _, _, _ => (lastx, lasty)
  | f+1, lastx, x, lasty, y, a, b =>
      if isZero b then (lastx, lasty) else
      let qr := div t a b
      -- x track (modulus d)
      let tx0 := mod_n2 t (lmul t qr.1 x) d
      let tx1 := if !(isZero tx0) then subNC d tx0 else tx0
      let sx := add tx1 lastx
      let tx2 := if sx.2 || decide (cmp sx.1 d ≥ 0) then subNC sx.1 d else sx.1
      -- y track (modulus c)
      let ty0 := mod_n2 t (lmul t qr.1 y) c
      let ty1 := if !(isZero ty0) then subNC c ty0 else ty0
      let sy := add ty1 lasty
      let ty2 := if sy.2 || decide (cmp sy.1 c ≥ 0) then subNC sy.1 c else sy.1
      bezLoop t c d f x tx2 y ty2 b qr.2
/-- `bezout_mod(lastx, lasty, c, d)`: `x(0), y(1), a = c, b = d, lastx = 1, lasty = 0` -/
def bezout_mod {n : Nat} (t : Nat) (c d : RU n) : RU n × RU n :=
  bezLoop t c d (2 * bits n + 2) (ofLimb n 1) (zero n) (zero n) (ofLimb n 1) c d

/-! ### `rint<K>`: the field `Value` is the two's-complement image; `isNegative()` tests the top bit, `isPositive() = !isNegative()` -/
/-- radd.h `add(a, b, c)`, `a += b`, `b + c`: `add(a.Value, b.Value, c.Value)` -/
def s_add (b c : RU n) : RU n := addNC b c
/-- rsub.h `sub(a, b, c)`, `a -= b`, `b - c` -/
def s_sub (b c : RU n) : RU n := subNC b c
/-- rmul.h `mul(a, b, c)`, `a *= b`, `b * c` -/
def s_mul (t : Nat) (b c : RU n) : RU n := mul t b c
/-- rmul.h `addmul(a, b, c)`: `rint tmp; mul(tmp, b, c); add(a, tmp)` -/
def s_addmul (t : Nat) (a b c : RU n) : RU n := addNC a (mul t b c)
/-- rfiddling.h `-c`, `neg(r, c)` -/
def s_neg (c : RU n) : RU n := neg c
/-- rfiddling.h `~c` -/
def s_not (c : RU n) : RU n := not_ c
/-- rcmp.h `cmp(a, b)`: `posA = a.isPositive() ? 1 : -1; posB …; if (posA != posB) return posA; else return cmp(a.Value, b.Value)` -/
def s_cmp (a b : RU n) : Int :=
  let posA : Int := if !(isNegative a) then 1 else -1
  let posB : Int := if !(isNegative b) then 1 else -1
  if posA ≠ posB then posA else cmp a b
/-- rmul.h `lmul(rint<K+1>& a, b, c)`: four sign branches on the magnitudes `(-b).Value`, `(-c).Value`; `neg(a)` at the double width -/
def s_lmul (t : Nat) (b c : RU n) : RU (n+1) :=
  if !(isNegative b) then
    if !(isNegative c) then lmul t b c else neg (lmul t b (neg c))
  else
    if !(isNegative c) then neg (lmul t (neg b) c) else lmul t (neg b) (neg c)
/-- rmul.h `lsquare(rint<K+1>& a, b)` -/
def s_lsquare (t : Nat) (b : RU n) : RU (n+1) := if isNegative b then lsquare t (neg b) else lsquare t b
/-- rdiv.h `div_q(q, a, b)`, `a / b`, `a /= b`: four sign branches, unsigned `div_q` (`ruint r; div(q, r, a, b)`) on the magnitudes -/
def s_divq (t : Nat) (a b : RU n) : RU n :=
  if isNegative a then
    if isNegative b then (div t (neg a) (neg b)).1 else neg (div t (neg a) b).1
  else
    if isNegative b then neg (div t a (neg b)).1 else (div t a b).1
/-- rdiv.h `div_r(r, a, b)`, `a % b`, `a %= b` (the code asserts `b > 1`; the divisor's `Value` is used as it is) -/
def s_divr (t : Nat) (a b : RU n) : RU n :=
  if isNegative a then neg (div t (neg a) b).2 else (div t a b).2
/-- rfiddling.h `b <<= c`, `b << c`: `b.Value <<= c` -/
def s_shl (b : RU n) (d : Nat) : RU n := left_shift b d
/-- rfiddling.h `b >>= c`, `b >> c`: `if (b.isNegative()) { b.Value = ~b.Value; b.Value >>= c; b.Value = ~b.Value; } else b.Value >>= c` -/
def s_shr (b : RU n) (d : Nat) : RU n := if isNegative b then not_ (right_shift (not_ b) d) else right_shift b d
/-- rrint.h `rint<K+1>(const rint<K>& rl)`: `Value(rl.Value)` (`Low = rl.Value`, `High = 0`);
    `if (rl < 0) { Value.Low = -Value.Low; Value = -Value; }` -/
def s_ext (a : RU n) : RU (n+1) := if isNegative a then neg (.node (neg a) (zero n)) else .node a (zero n)

/-- rdiv.h `mod_n(rint<K>& a, const rint<K>& n)`: `a.isPositive() ? mod_n(a.Value, n.Value)` (`a %= n`) `:`
    `nega = (-a).Value; mod_n(nega, n.Value); if (nega != 0u) sub(a.Value, n.Value, nega); else reset(a.Value);` -/
def s_modn (t : Nat) (a m : RU n) : RU n :=
  if !(isNegative a) then (div t a m).2
  else
    let nega := (div t (neg a) m).2
    if !(isZero nega) then subNC m nega else zero n
/-- rdiv.h `mod_n(rint<K>& a, const rint<K+1>& b, const rint<K>& c)` (the template with `R = K+1`):
    `b.isPositive() ? mod_n(a.Value, b.Value, c.Value) :` `mod_n(a.Value, (-b).Value, c.Value); if (a.Value != 0u) sub(a.Value, c.Value, a.Value);` -/
def s_modn2 (t : Nat) (b : RU (n+1)) (c : RU n) : RU n :=
  if !(isNegative b) then mod_n2 t b c
  else
    let r := mod_n2 t (neg b) c
    if !(isZero r) then subNC c r else r
/-- rdiv.h `inv_mod(rint<K>& a, b, c)`: `b.isPositive() ? inv_mod(a.Value, b.Value, c.Value)` `:`
    `mod_n(otherb, (-b).Value, c.Value); if (otherb != 0) sub(otherb, c.Value, otherb); inv_mod(a.Value, otherb, c.Value)` -/
def s_invmod (t : Nat) (b c : RU n) : RU n :=
  if !(isNegative b) then inv_mod t b c
  else
    let ob := (div t (neg b) c).2
    inv_mod t (if !(isZero ob) then subNC c ob else ob) c

end Givaro.Model.RecInt
