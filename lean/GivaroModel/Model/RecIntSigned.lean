/-
C06 (round 5) — executable model of `bezout_mod` (src/kernel/recint/ruinvmod.h) and of the signed wrappers `rint<K>`
(radd.h, rsub.h, rmul.h, rdiv.h, rcmp.h, rfiddling.h): a `rint<K>` is its field `Value : ruint<K>` (the two's-complement
image), so the model works on `RU n` and the theorems read the result back with the signed reading.
Transcribed branch by branch; loops take fuel (a lemma shows the fuel suffices).  Core Lean only (linked into the driver).
-/
import GivaroModel.Model.RecInt
namespace Givaro.Model.RecInt

/-! ### ruinvmod.h: `bezout_mod(lastx, lasty, c, d)` -/
/-- the loop of `bezout_mod`; state `(lastx, x, lasty, y, a, b)`, result `(lastx, lasty)`.
    Each pass: `div(q, r, a, b); a = b; b = r;` then, for the `x` track modulo `d` and the `y` track modulo `c`:
    `lmul(resmul, q, x); mod_n(temp, resmul, d); if (temp != 0) sub(temp, d, temp); add(ret, temp, lastx);
     if (ret || cmp(temp, d) >= 0) sub(temp, d); lastx = x; x = temp;` -/
def bezLoop {n : Nat} (t : Nat) (c d : RU n) : Nat → RU n → RU n → RU n → RU n → RU n → RU n → RU n × RU n
  | 0, lastx, _, lasty, _, _, _ => (lastx, lasty)
  | f+1, lastx, x, lasty, y, a, b =>
      if isZero b then (lastx, lasty) else
      let qr := div t a b
      -- x track (modulus d)
      let tx0 := mod_n2 t (lmul t qr.1 x) d
      let tx1 := if !(isZero tx0) then subNC d tx0 else tx0
      let sx := add tx1 lastx
      let tx2 := if sx.2 || decide (cmp sx.1 d ≥ 0) then subNC sx.1 d else sx.1
      -- y track (modulus c)
      let ty0 := mod_n2 t (lmul t qr.1 y) c
      let ty1 := if !(isZero ty0) then subNC c ty0 else ty0
      let sy := add ty1 lasty
      let ty2 := if sy.2 || decide (cmp sy.1 c ≥ 0) then subNC sy.1 c else sy.1
      bezLoop t c d f x tx2 y ty2 b qr.2
/-- `bezout_mod(lastx, lasty, c, d)`: `x(0), y(1), a = c, b = d, lastx = 1, lasty = 0` -/
def bezout_mod {n : Nat} (t : Nat) (c d : RU n) : RU n × RU n :=
  bezLoop t c d (2 * bits n + 2) (ofLimb n 1) (zero n) (zero n) (ofLimb n 1) c d

end Givaro.Model.RecInt
