/-
C12 — executable model of the factor-driver loops of givintfactor.h: `Pollard` / `Lenstra` (their deterministic guards; the
randomised searches are oracles), `factor` as compiled (GIVARO_LENSTRA undefined), `iffactorprime`, `primefactor`,
and `set` driven by `iffactorprime`.  Oracles: `rho m` = what the rho iteration of `Pollard(…, m, loops)` ends with on a
composite `m ≥ 3` (a divisor; 1 or `m` = failure, possible only for `loops ≠ 0`), `ecm m` = what the curves of `Lenstra`
end with (a divisor, or -1).  `iffactorprime` may query the same argument twice (after a failure), so its oracle is
indexed by the position of the call.  Core Lean only.
-/
import GivaroModel.Model.Primes
namespace Givaro.Model.Primes
open Givaro

/-- `Pollard(gen, g, n, threshold)`: `if (n < 3) return g=n; if (isprime(n)) return g=n;` then the rho iteration -/
def pollard (isp : Int → Bool) (rho : Int → Int) (n : Int) : Int :=
  if n < 3 then n else if isp n then n else rho n

/-- `Lenstra(gen, g, n, B1, curves)`: `if (n<3) return g=n; if (isprime(n,5)) return g=n; if (n%2==0) return g=2;
    if (n%3==0) return g=3;` then the curves -/
def lenstra (isp : Int → Bool) (ecm : Int → Int) (n : Int) : Int :=
  if n < 3 then n else if isp n then n else if n % 2 = 0 then 2 else if n % 3 = 0 then 3 else ecm n

/-- `factor(r, n, loops)` with Pollard as compiled -/
def factorP (isp : Int → Bool) (rho : Int → Int) (n : Int) : Int := factor (pollard isp rho) n

/-- `factor(r, n, loops)` in a build with `-DGIVARO_LENSTRA`: the same cascades, Lenstra instead of Pollard -/
def factorLen (isp : Int → Bool) (ecm : Int → Int) (n : Int) : Int := factor (lenstra isp ecm) n

/-- `while (! isprime(r)) { nn = r; <the cascade of factor(), inlined>; if (r == nn) { Lenstra(gen,r,nn); break; } }`
    (`i` = position of the oracle call; `none` = fuel exhausted) -/
def ifpLoop (isp : Int → Bool) (rho : Nat → Int → Int) (ecm : Int → Int) : Nat → Nat → Int → Option Int
  | 0, _, _ => none
  | fuel+1, i, r =>
    if isp r then some r else
    let nn := r
    let r' := factorP isp (rho i) nn
    if r' = nn then some (lenstra isp ecm nn) else ifpLoop isp rho ecm fuel (i + 1) r'

/-- `iffactorprime(r, n, loops)` -/
def iffactorprime (isp : Int → Bool) (rho : Nat → Int → Int) (ecm : Int → Int) (fuel : Nat) (n : Int) : Option Int :=
  let r := factorP isp (rho 0) n
  if r ≠ 1 then
    let r1 := if !isp r then factorP isp (rho 1) r else r
    ifpLoop isp rho ecm fuel 2 r1
  else some r

/-- `iffactorprime` in a build with `-DGIVARO_LENSTRA`: the two leading `factor` calls go through Lenstra, the inlined cascade of
    the `while` loop still calls `Pollard` -/
def iffactorprimeL (isp : Int → Bool) (ecmF : Nat → Int → Int) (rho : Nat → Int → Int) (ecm : Int → Int) (fuel : Nat) (n : Int) :
    Option Int :=
  let r := factorLen isp (ecmF 0) n
  if r ≠ 1 then
    let r1 := if !isp r then factorLen isp (ecmF 1) r else r
    ifpLoop isp rho ecm fuel 2 r1
  else some r

/-- `primefactor(r, n)`: `while ((iffactorprime(r,n,0) == 1) && (! isprime(n))) {}`  (`k` = number of the attempt) -/
def primefactorLoop (isp : Int → Bool) (rho : Nat → Nat → Int → Int) (ecm : Int → Int) : Nat → Nat → Int → Option Int
  | 0, _, _ => none
  | fuel+1, k, n =>
    match iffactorprime isp (rho k) ecm (n.toNat + 2) n with
    | none => none
    | some r => if r = 1 ∧ !isp n then primefactorLoop isp rho ecm fuel (k + 1) n else some r

def primefactor (isp : Int → Bool) (rho : Nat → Nat → Int → Int) (ecm : Int → Int) (fuel : Nat) (n : Int) : Option Int :=
  primefactorLoop isp rho ecm fuel 0 n

/-- what `set` gets from `iffactorprime(g, nn, loops)` (`rho nn` = the oracle family of that call; a run that does not
    return is `0`, which no theorem's contract admits) -/
def pfOf (isp : Int → Bool) (rho : Nat → Nat → Int → Int) (ecm : Int → Int) (nn : Nat) : Nat :=
  match iffactorprime isp (rho nn) ecm (nn + 2) (nn : Int) with
  | some r => r.toNat
  | none => 0

/-- `set(Lf, Lo, n, loops)` as the code runs it: the outer loop of Model/Primes.lean driven by `iffactorprime` -/
def setCode (isp : Int → Bool) (rho : Nat → Nat → Int → Int) (ecm : Int → Int) (n : Int) : Option (List (Nat × Nat) × Bool) :=
  set (pfOf isp rho ecm) n

/-- `set(Lf, n)` (one container: the distinct prime factors): `while (nn > 1) { primefactor(g,nn); r=0; divexact(u,nn,g);
    while (r == 0) { nn.copy(u); divmod(u,r,nn,g); } Lf.push_back(g); }` — the division loop is `divLoop` without its counter;
    `pf` stands for `primefactor`.  With fixes/C12_6 the loop starts from `|n|` like the two-container overload
    (the unchanged code started from `n` and returned nothing for negative `n`). -/
def set1Loop (pf : Nat → Nat) : Nat → Nat → List Nat → Option (List Nat)
  | 0, _, _ => none
  | fuel+1, nn, acc =>
    if nn ≤ 1 then some acc.reverse else
    let g := pf nn
    match divLoop g (nn + 1) (nn / g) 0 with
    | none => none
    | some (nn', _) => set1Loop pf fuel nn' (g :: acc)

def set1 (pf : Nat → Nat) (n : Int) : Option (List Nat) := set1Loop pf (n.natAbs + 1) n.natAbs []

/-- the unchanged code (`nn = n; while (nn > 1)`), kept for the counterexample theorem -/
def set1_unfixed (pf : Nat → Nat) (n : Int) : Option (List Nat) :=
  if n ≤ 1 then some [] else set1Loop pf (n.toNat + 1) n.toNat []

end Givaro.Model.Primes
