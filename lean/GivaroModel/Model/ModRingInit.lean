/-
C04: `init` / `convert` / constants of the residue rings beyond the machine-integer sources of the integral
rings (which are in Model/ModRing.lean: `ICfg.initInt`).  Conventions:

* an `Integer` source is an `Int`; `Integer::mod` is the Euclidean remainder, `Integer % word` the remainder of
  the truncating division (sign of the dividend) — the gmp++ operations of C01/C02;
* a floating source is given by the integer `t = trunc(y)` where the overload converts through an integer type
  (`static_cast<int64_t>(y)`, `Integer(double)`: both truncate toward zero), and by its (integer) value where it
  goes through `fmod`, which is exact (IEEE hypothesis);
* floating *elements* are integers; `fit` fails as soon as a value is not exactly representable.
Core Lean only.
-/
import GivaroModel.Model.ModRing
import GivaroModel.Model.ModRingExt
import GivaroModel.Model.ModRingRecInt
import GivaroModel.Model.ModRingLog16
namespace Givaro.Model.ModRing

/-! ## integral rings (modular-integral.inl) -/
namespace ICfg
variable (k : ICfg)

/-- init(Element&, const Integer&): `Integer::mod(r, y, Integer(_p)); x = Caster<Element>(r)` -/
def initZ (p y : Int) : Int := k.toE (y % p)

/-- `_init_floating` for a finite source with `t = trunc(y)`:
    `if (-2^63 < y < 2^63) init(x, static_cast<int64_t>(y)) else init(x, Integer(double(y)))` -/
def initFloat (p t : Int) : Int :=
  if -((2 : Int) ^ 63) < t ∧ t < (2 : Int) ^ 63 then k.initInt 64 true p t else k.initZ p t

/-- convert: `Caster<T>(a)` — the representation is the value -/
def convert (_k : ICfg) (e : Int) : Int := e

/-- the ring object: constants and modulus as the constructor computes them (modular-implem.h:63) -/
structure Obj where
  zero : Int
  one : Int
  mOne : Int
  p : Int
deriving DecidableEq, Repr

/-- `Modular_implem(const Residu_t p)` -/
def construct (p : Int) : Obj := ⟨k.toE 0, k.toE 1, k.mOne p, k.toR p⟩
/-- `Modular_implem()`: `mOne(static_cast<Element>(-1))`, `_p(0)` -/
def default : Obj := ⟨k.toE 0, k.toE 1, k.toE (-1), 0⟩
/-- `operator=`: the three constants through `assign`, then `_p`, `_pc` -/
def assign (_k : ICfg) (_a b : Obj) : Obj := ⟨b.zero, b.one, b.mOne, b.p⟩

end ICfg

/-! ## `Modular<float|double[,double]>` (modular-floating.inl / .h) -/
namespace FCfg
variable (k : FCfg)

/-- signed integral source with `sizeof(Source) ≥ sizeof(Storage_t)` (`w` bits):
    `ua = |a|` in the unsigned type; `r = Caster<Element>(ua % Caster<USource>(_p)); if (a < 0) negin(r)` -/
def initSInt (w : Nat) (p a : Int) : Option Int := do
  let ua := if a < 0 then wrapUw w (ICfg.arUSrc w (0 - wrapUw w a)) else wrapUw w a
  let r ← k.fS (Int.tmod ua (wrapUw w p))
  if a < 0 then k.neg p r else pure r

/-- unsigned integral source, `sizeof(Source) ≥ sizeof(Storage_t)`: `Caster<Element>(a % Caster<Source>(_p))` -/
def initUInt (w : Nat) (p a : Int) : Option Int := k.fS (Int.tmod a (wrapUw w p))

/-- init(Element&, const Integer&): `r = Caster<Element>(a % _p); if (r < 0) r += _pc` -/
def initZ (p a : Int) : Option Int := do
  let r ← k.fS (Int.tmod a p)
  if r < 0 then k.fS (r + p) else pure r

/-- floating source (double into a float ring: `fmod(a,_pc)`, `+_pc` when negative; every other floating source:
    `Caster<Element>(a)` — the identity on the value — then `reduce`): the same formula -/
def initFloat (p y : Int) : Option Int := k.reduce p y

/-- a machine integer narrower than the storage type: `r = Caster<Element>(a); reduce(r)` -/
def initSmall (p a : Int) : Option Int := do let r ← k.fS a; k.reduce p r

def convert (_k : FCfg) (e : Int) : Int := e
/-- constants: `zero(0) one(1) mOne(p - 1)` computed in `Element` -/
def mOne (p : Int) : Option Int := k.fS (p - 1)
end FCfg

/-! ## `ModularBalanced<float|double>` -/
namespace BFCfg
variable (k : BFCfg)
/-- signed machine integer with an overload of its own, `Integer`, and every floating source:
    `x = (Element)(y % p)` (resp. `fmod(y,p)`), NORMALISE -/
def initS (p y : Int) : Option Int := k.f (normB p (Int.tmod y p))
/-- unsigned machine integer with an overload of its own: `x = (Element)(y % (U)_up)`, NORMALISE_HI -/
def initU (p y : Int) : Option Int := let x := Int.tmod y p; k.f (if x > p / 2 then x - p else x)
/-- any other machine integer (the template): `r = Caster<Element>(a); reduce(r)` -/
def initSmall (p a : Int) : Option Int := do let r ← k.f a; k.reduce p r
def convert (_k : BFCfg) (e : Int) : Int := e
end BFCfg

/-! ## `ModularBalanced<int32_t|int64_t>` -/
namespace BICfg
variable (k : BICfg)
/-- signed machine integers with an overload, `Integer`, floating sources: `x = (Element)(y % p)` (resp. `fmod`), NORMALISE -/
def initS (p y : Int) : Int := normB p (k.wr (Int.tmod y p))
/-- unsigned machine integers with an overload: `x = (Element)(y % (U)p)`, NORMALISE_HI -/
def initU (p y : Int) : Int := let x := k.wr (Int.tmod y p); if x > p / 2 then x - p else x
/-- the template: `r = Caster<Element>(a); reduce(r)` (for sources the element type holds) -/
def initSmall (p a : Int) : Int := k.reduce p (k.wr a)
def convert (_k : BICfg) (e : Int) : Int := e
end BICfg

/-! ## `ModularExtended<float|double>` (modular-extended.inl) -/
namespace ECfg
variable (k : ECfg)
/-- signed 32/64-bit source with a specialisation: unsigned magnitude `% _lp`, then negin -/
def initSInt (w : Nat) (p a : Int) : Option Int := do
  let ua := if a < 0 then wrapUw w (0 - wrapUw w a) else wrapUw w a
  let r ← k.f (Int.tmod ua p)
  if a < 0 then k.neg p r else pure r
def initUInt (p a : Int) : Option Int := k.f (Int.tmod a p)
/-- Integer: `Integer::mod(t, y, Integer(_lp)); x = (Element)t` -/
def initZ (p a : Int) : Option Int := k.f (a % p)
/-- float / double source: `x = fmod(y,_p); if (x < 0) x += _p` -/
def initFloat (p y : Int) : Option Int := let x := Int.tmod y p; if x < 0 then k.f (x + p) else k.f x
/-- any narrower machine integer: `r = Caster<Element>(a); reduce(r)` (the FMA reduce) -/
def initSmall (p a : Int) : Option Int := do let r ← k.f a; k.reduce p r
def convert (_k : ECfg) (e : Int) : Int := e
end ECfg

/-! ## `Modular<Integer>`: `r = Caster<Element>(a); reduce(r)` -/
namespace ZMod'
def init (p a : Int) : Int := reduce p a
end ZMod'

/-! ## `Modular<Log16>` (modular-log16.inl:419-500), on the table model -/
namespace L16
variable (T : L16)
/-- init(Rep&, int64_t) (the int32_t / int16_t / double / float overloads forward to it; `double` after `fmod`) -/
def initS (a : Int) : Int :=
  let ua := wrapUw 64 (if a < 0 then wrapUw 64 (0 - wrapUw 64 a) else a)
  let r := if ua ≥ T.p then ua % T.p else ua
  let r' := if a < 0 ∧ r ≠ 0 then T.p - r else r
  T.log r'
/-- init(Rep&, uint64_t / uint32_t / uint16_t) -/
def initU (a : Int) : Int := T.log (if a ≥ T.p then a % T.p else a)
/-- init(Rep&, const Integer&) -/
def initZ (a : Int) : Int :=
  if a < 0 then
    let tr := if a ≤ -T.p then (-a) % T.p else -a
    if tr ≠ 0 then T.log (T.p - tr) else T.Z
  else T.log (if a ≥ T.p then a % T.p else a)
end L16

end Givaro.Model.ModRing
