/-
`Modular<Log16>` (modular-log16.inl): elements are discrete logarithms to a generator `g` of (Z/p)^*;
the representation of zero is `2(p-1)`.  The generator chain (`_tab_rep2value`, `_tab_value2rep`) is a
PARAMETER of the model (`exp`, `log`); the derived tables `_tab_mul`, `_tab_addone`, `_tab_subone`
(and the views `_tab_div = &_tab_mul[p-1]`, `_tab_neg = &_tab_mul[(p-1)/2]`) are the closed forms of the
constructor's loops (later loops override earlier ones), and every operation is the index arithmetic of
the `__GIVARO_ZPZ16_LOG_*` macros.  Core Lean only.
-/
namespace Givaro.Model.ModRing

structure L16 where
  p : Int
  g : Int
  exp : Int → Int      -- _tab_rep2value[e],  0 ≤ e < p-1
  log : Int → Int      -- _tab_value2rep[v],  0 ≤ v < p

namespace L16
variable (T : L16)

/-- `_pmone`, `zero` -/
def M : Int := T.p - 1
def Z : Int := 2 * (T.p - 1)

/-- `_tab_mul[j]`, `0 ≤ j ≤ 4(p-1)` -/
def mulT (j : Int) : Int := if j < T.M then j else if j < T.Z then j - T.M else T.Z

/-- the body of the two loops filling `_tab_addone` from the chain, at the chain index `e ∈ [0, p-1)` -/
def plusOne (e : Int) : Int := if T.exp e < T.M then T.log (1 + T.exp e) else T.log 0

/-- `_tab_addone[j]`, `-zero ≤ j ≤ zero` -/
def addone (j : Int) : Int :=
  if j = T.M / 2 ∨ j = -(T.M / 2) then T.Z                -- the two final assignments
  else if 0 ≤ j ∧ j < T.M then T.plusOne j
  else if 1 - T.M ≤ j ∧ j < 0 then T.plusOne (j + T.M)
  else if T.M ≤ j then 0                                   -- j ∈ [_pmone, zero]
  else j                                                   -- j ∈ [-zero, 1-_pmone)

/-- `_tab_subone[j]`: the six loops, the later ones first -/
def subone (j : Int) : Int :=
  if -(T.M / 2) ≤ j ∧ j < T.M / 2 then T.addone (j + T.M / 2)
  else if T.M / 2 ≤ j ∧ j < T.M then T.addone (j - T.M / 2)
  else if 1 - T.M ≤ j ∧ j < 1 - T.M / 2 then T.addone (j + T.M / 2 + T.M)
  else if -(3 * T.M / 2) ≤ j ∧ j < 1 - T.M then j - T.M / 2
  else if j < 1 - 3 * T.M / 2 then j + T.M / 2
  else 0                                                   -- j ∈ [_pmone, zero]

def mul (a b : Int) : Int := T.mulT (a + b)
def div (a b : Int) : Int := T.mulT (T.M + (a - b))
def inv (b : Int) : Int := T.mulT (T.M - b)
def neg (a : Int) : Int := T.mulT (T.M / 2 + a)
def add (a b : Int) : Int := T.mulT (a + T.addone (b - a))
def sub (a b : Int) : Int := T.mulT (a + T.subone (b - a))
def axpy (a b c : Int) : Int := T.add (T.mul a b) c
/-- axpyin: `tmp = a*b; tmp -= r; tmp = _tab_addone[tmp]; mulin(r, tmp)` -/
def axpyin (r a b : Int) : Int := T.mul r (T.addone (T.mul a b - r))
def axmy (a b c : Int) : Int := T.sub (T.mul a b) c
def maxpy (a b c : Int) : Int := T.sub c (T.mul a b)
def maxpyin (r a b : Int) : Int := T.sub r (T.mul a b)
def axmyin (r a b : Int) : Int := T.sub (T.mul a b) r
def isZero (a : Int) : Bool := decide (a ≥ T.p)
def isUnit (a : Int) : Bool := !T.isZero a
/-- the value an element denotes (`convert`): `(a >= _p) ? 0 : _tab_rep2value[a]` -/
def val (a : Int) : Int := if a ≥ T.p then 0 else T.exp a
/-- `init` from a residue `0 ≤ v < p`: `_tab_value2rep[v]` -/
def rep (v : Int) : Int := T.log v

end L16

/-! ### an executable chain for the driver: `exp e = g^e mod p`, `log` by search -/
def powMod (g p : Int) (e : Nat) : Int :=
  if h : e = 0 then 1 % p
  else
    let h2 := powMod g p (e / 2)
    if e % 2 = 0 then (h2 * h2) % p else ((h2 * h2) % p * g) % p
termination_by e
decreasing_by omega

def findLog (g p v : Int) : Nat → Int → Nat → Int
  | 0, _, _ => 0
  | fuel + 1, acc, e => if acc = v then e else findLog g p v fuel ((acc * g) % p) (e + 1)

def L16.ofGen (p g : Int) : L16 where
  p := p
  g := g
  exp e := powMod g p e.toNat
  log v := if v = 0 then 2 * (p - 1) else findLog g p v p.toNat 1 0

end Givaro.Model.ModRing
