/-
C07, history level: an expression language for sequences of ring operations, with three interpretations —
over the Montgomery-form elements of `Montgomery<int32_t>` (the model functions of Model/Montgomery.lean),
over those of `Montgomery<ruint<K>>` / `rmint<K,MG_ACTIVE>`, and over plain residues (reduction modulo `p`
after every operation, which is what a non-Montgomery modular ring does).  Core Lean only.
-/
import GivaroModel.Model.Montgomery
import GivaroModel.Spec.MontgomerySpec
namespace Givaro.Model.Montgomery
open Givaro Givaro.Spec.Montgomery

/-- two-operand operations: `add`, `sub`, `subin` (r -= a), `mul`, `mulin` (r *= a) -/
inductive BinOp | add | sub | subin | mul | mulin
deriving DecidableEq, Repr
/-- fused operations: `axpy(r,a,x,y)`, `axpyin(r,a,x)` with `r = y`, `axmy`, `axmyin`, `maxpy`, `maxpyin` (arguments `a x y`) -/
inductive TernOp | axpy | axpyin | axmy | axmyin | maxpy | maxpyin
deriving DecidableEq, Repr

/-- a history of ring operations on elements `var 0, var 1, …` -/
inductive RExpr
  | var (i : Nat)
  | neg (a : RExpr)
  | bin (op : BinOp) (a b : RExpr)
  | tern (op : TernOp) (a x y : RExpr)
deriving Repr

/-- the history over `Z` (no reduction) -/
def RExpr.evalZ (val : Nat → Int) : RExpr → Int
  | .var i => val i
  | .neg a => -(a.evalZ val)
  | .bin .add a b => a.evalZ val + b.evalZ val
  | .bin .sub a b => a.evalZ val - b.evalZ val
  | .bin .subin a b => a.evalZ val - b.evalZ val
  | .bin .mul a b => a.evalZ val * b.evalZ val
  | .bin .mulin a b => a.evalZ val * b.evalZ val
  | .tern .axpy a x y => a.evalZ val * x.evalZ val + y.evalZ val
  | .tern .axpyin a x y => y.evalZ val + a.evalZ val * x.evalZ val
  | .tern .axmy a x y => a.evalZ val * x.evalZ val - y.evalZ val
  | .tern .axmyin a x y => a.evalZ val * x.evalZ val - y.evalZ val
  | .tern .maxpy a x y => y.evalZ val - a.evalZ val * x.evalZ val
  | .tern .maxpyin a x y => y.evalZ val - a.evalZ val * x.evalZ val

/-- the history on plain residues: every operation is followed by the reduction modulo `p` -/
def RExpr.evalPlain (p : Int) (val : Nat → Int) : RExpr → Int
  | .var i => val i % p
  | .neg a => rNeg p (a.evalPlain p val)
  | .bin .add a b => rAdd p (a.evalPlain p val) (b.evalPlain p val)
  | .bin .sub a b => rSub p (a.evalPlain p val) (b.evalPlain p val)
  | .bin .subin a b => rSub p (a.evalPlain p val) (b.evalPlain p val)
  | .bin .mul a b => rMul p (a.evalPlain p val) (b.evalPlain p val)
  | .bin .mulin a b => rMul p (a.evalPlain p val) (b.evalPlain p val)
  | .tern .axpy a x y => rAxpy p (a.evalPlain p val) (x.evalPlain p val) (y.evalPlain p val)
  | .tern .axpyin a x y => rAxpy p (a.evalPlain p val) (x.evalPlain p val) (y.evalPlain p val)
  | .tern .axmy a x y => rAxmy p (a.evalPlain p val) (x.evalPlain p val) (y.evalPlain p val)
  | .tern .axmyin a x y => rAxmy p (a.evalPlain p val) (x.evalPlain p val) (y.evalPlain p val)
  | .tern .maxpy a x y => rMaxpy p (a.evalPlain p val) (x.evalPlain p val) (y.evalPlain p val)
  | .tern .maxpyin a x y => rMaxpy p (a.evalPlain p val) (x.evalPlain p val) (y.evalPlain p val)

/-- the history on the Montgomery-form elements of `Montgomery<int32_t>` -/
def RExpr.eval32 (F : Ring32) (env : Nat → Int) : RExpr → Int
  | .var i => env i
  | .neg a => neg32 F (a.eval32 F env)
  | .bin .add a b => add32 F (a.eval32 F env) (b.eval32 F env)
  | .bin .sub a b => sub32 F (a.eval32 F env) (b.eval32 F env)
  | .bin .subin a b => subin32 F (a.eval32 F env) (b.eval32 F env)
  | .bin .mul a b => mul32 F (a.eval32 F env) (b.eval32 F env)
  | .bin .mulin a b => mulin32 F (a.eval32 F env) (b.eval32 F env)
  | .tern .axpy a x y => axpy32 F (a.eval32 F env) (x.eval32 F env) (y.eval32 F env)
  | .tern .axpyin a x y => axpyin32 F (y.eval32 F env) (a.eval32 F env) (x.eval32 F env)
  | .tern .axmy a x y => axmy32 F (a.eval32 F env) (x.eval32 F env) (y.eval32 F env)
  | .tern .axmyin a x y => axmyin32 F (y.eval32 F env) (a.eval32 F env) (x.eval32 F env)
  | .tern .maxpy a x y => maxpy32 F (a.eval32 F env) (x.eval32 F env) (y.eval32 F env)
  | .tern .maxpyin a x y => maxpyin32 F (y.eval32 F env) (a.eval32 F env) (x.eval32 F env)

/-- the history on the Montgomery-form elements of `Montgomery<ruint<K>>` (`mulin` is the same body as `mul` there) -/
def RExpr.evalR (C : MgCtx) (env : Nat → Int) : RExpr → Int
  | .var i => env i
  | .neg a => negR C (a.evalR C env)
  | .bin .add a b => addR C (a.evalR C env) (b.evalR C env)
  | .bin .sub a b => subR C (a.evalR C env) (b.evalR C env)
  | .bin .subin a b => subinR C (a.evalR C env) (b.evalR C env)
  | .bin .mul a b => mulR C (a.evalR C env) (b.evalR C env)
  | .bin .mulin a b => mulR C (a.evalR C env) (b.evalR C env)
  | .tern .axpy a x y => axpyR C (a.evalR C env) (x.evalR C env) (y.evalR C env)
  | .tern .axpyin a x y => axpyinR C (y.evalR C env) (a.evalR C env) (x.evalR C env)
  | .tern .axmy a x y => axmyR C (a.evalR C env) (x.evalR C env) (y.evalR C env)
  | .tern .axmyin a x y => axmyinR C (y.evalR C env) (a.evalR C env) (x.evalR C env)
  | .tern .maxpy a x y => maxpyR C (a.evalR C env) (x.evalR C env) (y.evalR C env)
  | .tern .maxpyin a x y => maxpyinR C (y.evalR C env) (a.evalR C env) (x.evalR C env)

end Givaro.Model.Montgomery
