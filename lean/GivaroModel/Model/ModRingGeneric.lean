/-
The GENERIC `Modular<IntType, Compute_t>` (primary template, modular-inttype.h / .inl): the class every pair of
types without a specialisation selects (`Modular<int16_t,int64_t>`, `Modular<int8_t,int32_t>`, `Modular<uint16_t,uint64_t>`,
`Modular<int32_t,Integer>`, …).  EVERY operation is carried out in `Element = IntType` (`Compute_t` is not used);
an expression on operands narrower than `int` is evaluated in `int` (integral promotion).  Core Lean only.
-/
import GivaroModel.Model.ModRing
import GivaroModel.Model.ModRingHist
namespace Givaro.Model.ModRing

/-- bits and signedness of `IntType` -/
structure GCfg where
  s : Nat
  sg : Bool
deriving DecidableEq, Repr

namespace GCfg
variable (k : GCfg)

/-- the element type as an integral configuration (only its storage side is used) -/
def asI : ICfg := ⟨k.s, k.sg, k.s⟩
/-- a store into `Element` ; the value of an arithmetic expression on `Element` operands -/
def E (x : Int) : Int := k.asI.toE x
def ar (x : Int) : Int := k.asI.arE x

def valid : Prop := k.s = 8 ∨ k.s = 16 ∨ k.s = 32 ∨ k.s = 64
instance : Decidable k.valid := by unfold valid; exact inferInstance

/-- maxCardinality(): `1 << ((8*sizeof(S) - is_signed) / 2)` — `p(p-1)+1` must fit the element type -/
def maxCard : Int := (2 : Int) ^ ((k.s - (if k.sg then 1 else 0)) / 2)

/-- `x %= _p` / `x % _p` on `Element` -/
def modp (x p : Int) : Int := k.E (Int.tmod x p)

/-- mul / mulin: `r = a; r *= b; r %= _p` -/
def mul (p a b : Int) : Int := k.modp (k.E (k.ar (a * b))) p
/-- sub: `(a>=b)? a-b : (_p-b) + a` -/
def sub (p a b : Int) : Int := if a ≥ b then k.E (k.ar (a - b)) else k.E (k.ar (k.ar (p - b) + a))
/-- add / addin: `r = a+b; if (r >= _p) r -= _p` -/
def add (p a b : Int) : Int := let r := k.E (k.ar (a + b)); if r ≥ p then k.E (k.ar (r - p)) else r
/-- neg / negin -/
def neg (p a : Int) : Int := if a = 0 then 0 else k.E (k.ar (p - a))
/-- subin: `if (r<a) r += (_p - a); else r -= a` -/
def subin (p r a : Int) : Int := if r < a then k.E (k.ar (r + k.ar (p - a))) else k.E (k.ar (r - a))
/-- axpy: `tmp = a*b; tmp += c; tmp %= _p` -/
def axpy (p a b c : Int) : Int := k.modp (k.E (k.ar (k.E (k.ar (a * b)) + c))) p
/-- axpyin: `tmp = r; tmp += a*b; tmp %= _p` -/
def axpyin (p r a b : Int) : Int := k.modp (k.E (k.ar (r + k.ar (a * b)))) p
/-- axmy: `tmp = a*b; tmp += (_p - c); r = (tmp < _p ? tmp : tmp%_p)` -/
def axmy (p a b c : Int) : Int :=
  let tmp := k.E (k.ar (k.E (k.ar (a * b)) + k.ar (p - c)))
  if tmp < p then tmp else k.modp tmp p
/-- axmyin: `tmp = a*b; r = _p - r; r += tmp; r = (r<_p ? r : r % _p)` -/
def axmyin (p r a b : Int) : Int :=
  let tmp := k.E (k.ar (a * b))
  let r1 := k.E (k.ar (k.E (k.ar (p - r)) + tmp))
  if r1 < p then r1 else k.modp r1 p
/-- maxpyin: `axmyin(r,a,b); negin(r)` ; maxpy: `tmp = c; maxpyin(tmp,a,b)` -/
def maxpyin (p r a b : Int) : Int := k.neg p (k.axmyin p r a b)
def maxpy (p a b c : Int) : Int := k.maxpyin p c a b

/-- reduce: `x = y % _p; if (x < 0) x += _p` -/
def reduce (p y : Int) : Int := let x := k.modp y p; if x < 0 then k.E (k.ar (x + p)) else x

/-! inv: the two-variable Euclid of modular-inttype.inl:57, all variables of type `IntType` -/
structure GInv where
  r0 : Int
  r1 : Int
  u0 : Int
  u1 : Int
  q : Int
deriving DecidableEq, Repr

/-- the `while (r1 != zero)` loop (one iteration = the two half steps with the early `return u1`) -/
def invLoop (p : Int) : Nat → GInv → Int
  | 0, st => st.u1
  | fuel + 1, st =>
    if st.r1 = 0 then k.E (k.ar (p - st.u0)) else                 -- loop exit: `return u1 = _p - u0`
    let u1 := k.E (k.ar (st.u1 + k.ar (st.q * st.u0)))            -- u1 += q * u0
    let q1 := k.E (Int.tdiv st.r0 st.r1)                          -- q = r0/r1
    let r0 := k.E (k.ar (st.r0 - k.ar (q1 * st.r1)))              -- r0 -= q * r1
    if r0 = 0 then u1 else                                        -- if (r0 == zero) return u1
    let u0 := k.E (k.ar (st.u0 + k.ar (q1 * u1)))                 -- u0 += q * u1
    let q2 := k.E (Int.tdiv st.r1 r0)                             -- q = r1/r0
    let r1 := k.E (k.ar (st.r1 - k.ar (q2 * r0)))                 -- r1 -= q * r0
    invLoop p fuel ⟨r0, r1, u0, u1, q2⟩

/-- inv / invin (operand non-zero) -/
def inv (p a : Int) : Int :=
  let q := k.E (Int.tdiv p a)                                     -- IntType q(r0/r1)
  let r0 := k.E (k.ar (p - k.ar (q * a)))                         -- r0 -= q * r1
  if r0 = 0 then 1 else                                           -- return u1 (= one)
  let q2 := k.E (Int.tdiv a r0)                                   -- u0 = q; q = r1/r0
  let r1 := k.E (k.ar (a - k.ar (q2 * r0)))                       -- r1 -= q * r0
  k.invLoop p (a.natAbs + 2) ⟨r0, r1, q, 1, q2⟩

/-- div: `inv(ib,b); r = a; r *= ib; r %= _p` ; divin: `inv(ia,a); mulin(r,ia)` -/
def div (p a b : Int) : Int := k.mul p a (k.inv p b)
/-- isUnit is `Modular_implem::isUnit`: the shared `extended_euclid<Element>` -/
def isUnit (p a : Int) : Bool := k.asI.isUnit p a

/-- init (with fixes/C04_10): `Integer::mod(t, y, Integer(_p)); x = Caster<Element>(t)` ; a machine number the element type
    need not hold goes through `Integer`; any other source: `r = Caster<Element>(a); reduce(r)` -/
def initZ (p y : Int) : Int := k.E (y % p)
def initFit (p a : Int) : Int := k.reduce p (k.E a)

def ops (p : Int) : RingOps where
  add a b := some (k.add p a b)
  sub a b := some (k.sub p a b)
  mul a b := some (k.mul p a b)
  neg a := some (k.neg p a)
  axpy a x y := some (k.axpy p a x y)
  axmy a x y := some (k.axmy p a x y)
  maxpy a x y := some (k.maxpy p a x y)
  axpyin r a x := some (k.axpyin p r a x)
  axmyin r a x := some (k.axmyin p r a x)
  maxpyin r a x := some (k.maxpyin p r a x)
  addin r a := some (k.add p r a)
  subin r a := some (k.subin p r a)
  mulin r a := some (k.mul p r a)
  negin r := some (k.neg p r)

end GCfg
end Givaro.Model.ModRing
