/-
C10 — conversions out of a Rational (givrational.h "Cast operators") and `operator%(const Integer&)`.

* to words: `(T)(num/den)` — the truncated quotient, then `Integer::operator T` (translated in C01:
  `int64_t` = `mpz_get_si`, `uint64_t` = `mpz_get_ui` (of the magnitude), `int32_t`/`uint32_t` = their low halves);
  the narrow ones go through `int` / `uint32_t` and a C++ narrowing conversion;
* to floating point: `((double)num)/((double)den)` with `(double)Integer = mpz_get_d` (truncation toward zero to 53 bits),
  then one IEEE-754 division (round to nearest, ties to even).  `float` takes `(float)mpz_get_d(.)` for both (a second,
  nearest-even rounding to 24 bits) and divides in `float`.  The result is given as its IEEE bit pattern; `-1` when an
  intermediate leaves the normal range (not modelled: overflow, subnormals).
Core Lean only.
-/
import GivaroModel.Model.Rational
namespace Givaro.Model.Rational
open Givaro

-- ---- words ----------------------------------------------------------------------------------------
def toS64 (a : QRep) : Int := mpz_get_si (idiv a.num a.den)
def toU64 (a : QRep) : Int := mpz_get_ui (idiv a.num a.den)
def toS32 (a : QRep) : Int := wrapS32 (mpz_get_si (idiv a.num a.den))
def toU32 (a : QRep) : Int := wrapU32 (mpz_get_ui (idiv a.num a.den))
def toS16 (a : QRep) : Int := wrapS16 (toS32 a)          -- (short)(int)
def toU16 (a : QRep) : Int := wrapU16 (toU32 a)          -- (uint16_t)(uint32_t)
def toS8 (a : QRep) : Int := wrapS8 (toS32 a)            -- (signed char)(int)
def toU8 (a : QRep) : Int := wrapU8 (toU32 a)            -- (uint8_t)(uint32_t)

-- ---- a small IEEE-754 soft-float on positive fractions ----------------------------------------------------
/-- the positive fraction `N/D` rounded to `prec` significant bits (to nearest-even, or toward zero):
    `(mant, exp)` with value `mant * 2^exp` and `2^(prec-1) ≤ mant < 2^prec` -/
def roundPos (prec : Nat) (nearest : Bool) (N D : Nat) : Nat × Int :=
  let e0 : Int := (Nat.log2 N : Int) - (Nat.log2 D : Int) - (prec : Int)
  let quo (e : Int) : Nat × Nat × Nat :=     -- (floor, remainder, divisor) of N / (D * 2^e)
    if e ≥ 0 then let dd := D * 2 ^ e.toNat; (N / dd, N % dd, dd)
    else let nn := N * 2 ^ (-e).toNat; (nn / D, nn % D, D)
  let e := if (quo (e0 + 1)).1 ≥ 2 ^ (prec - 1) then e0 + 1
           else if (quo e0).1 ≥ 2 ^ (prec - 1) then e0 else e0 - 1
  let (q, r, dd) := quo e
  let q' := if nearest then
              (if 2 * r > dd then q + 1 else if 2 * r = dd then (if q % 2 = 1 then q + 1 else q) else q)
            else q
  if q' ≥ 2 ^ prec then (q' / 2, e + 1) else (q', e)

/-- `mpz_get_d` on a positive magnitude: 53 bits, toward zero -/
def truncD (n : Nat) : Nat × Int := roundPos 53 false n 1
/-- `(float) double` on a positive double: 24 bits, nearest-even -/
def toF (x : Nat × Int) : Nat × Int :=
  let r := roundPos 24 true x.1 1
  (r.1, r.2 + x.2)

/-- correctly rounded quotient of two positive floating-point numbers -/
def fdivPos (prec : Nat) (x y : Nat × Int) : Nat × Int :=
  let r := roundPos prec true x.1 y.1
  (r.1, r.2 + x.2 - y.2)

/-- IEEE bit pattern of `± mant * 2^exp` (`mant` of exactly `prec` bits); `-1` outside the normal range -/
def packBits (prec expBits : Nat) (neg : Bool) (x : Nat × Int) : Int :=
  let bias : Int := 2 ^ (expBits - 1) - 1
  let E : Int := x.2 + (prec : Int) - 1 + bias
  if E < 1 ∨ E > 2 ^ expBits - 2 then -1
  else (if neg then 2 ^ (prec - 1 + expBits) else 0) + E * 2 ^ (prec - 1) + ((x.1 : Int) - 2 ^ (prec - 1))

/-- are both magnitudes inside what `mpz_get_d` / `(float)` represent as normal numbers? -/
def finiteD (n : Nat) : Bool := n < 2 ^ 1023
def finiteF (n : Nat) : Bool := n < 2 ^ 127

/-- `operator double() const` as the bit pattern of the result -/
def toDoubleBits (a : QRep) : Int :=
  if a.num = 0 then (if a.den < 0 then 2 ^ 63 else 0)      -- 0.0 / den: the sign of the divisor
  else if a.den = 0 ∨ !(finiteD a.num.natAbs) ∨ !(finiteD a.den.natAbs) then -1
  else packBits 53 11 ((a.num < 0) != (a.den < 0)) (fdivPos 53 (truncD a.num.natAbs) (truncD a.den.natAbs))

/-- `operator float() const` as the bit pattern of the result -/
def toFloatBits (a : QRep) : Int :=
  if a.num = 0 then (if a.den < 0 then 2 ^ 31 else 0)
  else if a.den = 0 ∨ !(finiteF a.num.natAbs) ∨ !(finiteF a.den.natAbs) then -1
  else packBits 24 8 ((a.num < 0) != (a.den < 0)) (fdivPos 24 (toF (truncD a.num.natAbs)) (toF (truncD a.den.natAbs)))

-- ---- operator%(const Integer&) ------------------------------------------------------------------------
/-- `if (isZero(r)) throw; if (isZero(num)) return num; res = den; invin(res, r); return res *= num;`
    (`invin` = `mpz_invert`: the inverse in `[0, |r|)` when `gcd(den, r) = 1`; the product is *not* reduced modulo `r`) -/
def modZ (a : QRep) (r : Int) : Option Int :=
  if r = 0 then none
  else if a.num = 0 then some a.num
  else some (mpz_invert_d0 a.den r * a.num)

end Givaro.Model.Rational
