/-
`Modular<ruint<K>>`, `Modular<rint<K>>`, `Modular<ruint<K>,ruint<K+1>>` (modular-ruint.inl / .h) and the
RecInt `inv_mod` loop (recint/ruinvmod.h), transcribed over `Int`.  `n = 2^K` is the number of bits of the
element type (the radix is `2^n`); RecInt's own add / sub / mul / addmul / lmul / div / mod_n are taken by
their contracts over Z: arithmetic modulo `2^n` (two's complement for `rint`), `lmul` exact into `2n` bits,
`mod_n` the non-negative remainder.  Those contracts are what C06 establishes.  Core Lean only.
-/
import GivaroModel.Model.ModRing
namespace Givaro.Model.ModRing

/-- bits of the element type, `rint` (signed) or `ruint`, `Compute_t = ruint<K+1>` -/
structure RCfg where
  n : Nat
  sg : Bool
  wide : Bool
deriving DecidableEq, Repr

namespace RCfg
variable (k : RCfg)

/-- a result stored in the element type -/
def w (x : Int) : Int := if k.sg then wrapSw k.n x else wrapUw k.n x
/-- a result stored in `ruint<K+1>` -/
def w2 (x : Int) : Int := wrapUw (2 * k.n) x
/-- `mod_n`: the non-negative remainder (for `rint`: `c - ((-b) mod c)` when `b < 0`) -/
def modn (x p : Int) : Int := x % p

/-- the instantiations: K ≥ 6; the wide compute type only for `ruint` -/
def valid : Prop := 64 ≤ k.n ∧ k.n % 2 = 0 ∧ (k.wide = true → k.sg = false)
instance : Decidable k.valid := by unfold valid; exact inferInstance

/-- maxCardinality(): `ruint<K>`: 2^(2^(K-1)) ; `rint<K>`: 2^(2^(K-1)-32)·3037000499 (maxFFLAS) ;
    `ruint<K>` with `ruint<K+1>`: max_pow_two = 2^(2^K-1) -/
def maxCard : Int :=
  if k.wide then (2 : Int) ^ (k.n - 1)
  else if k.sg then 3037000499 * (2 : Int) ^ (k.n / 2 - 32)
  else (2 : Int) ^ (k.n / 2)

/-- `_mul`: `lmul` into the wide type, or `mul` in the element type; then `mod_n` -/
def mul (p a b : Int) : Int :=
  if k.wide then k.w (modn (k.w2 (a * b)) p) else k.w (modn (k.w (a * b)) p)

/-- sub: `if (a < b) { sub(r,b,a); sub(r,_p,r); } else sub(r,a,b)` -/
def sub (p a b : Int) : Int := if a < b then k.w (p - k.w (b - a)) else k.w (a - b)

/-- add / addin: `add(r,a,b); if (r >= _p) sub(r,_p)` -/
def add (p a b : Int) : Int := let r := k.w (a + b); if r ≥ p then k.w (r - p) else r

/-- neg / negin -/
def neg (p a : Int) : Int := if a = 0 then 0 else k.w (p - a)

/-- subin: `if (r < a) add(r, _p - a) else sub(r, a)` -/
def subin (p r a : Int) : Int := if r < a then k.w (r + k.w (p - a)) else k.w (r - a)

/-- axpy: wide: `_mul; add(r,c); if (r >= p) sub(r,p)` ; same type: `copy(r,c); addmul(r,a,b); mod_n(r,p)` -/
def axpy (p a b c : Int) : Int :=
  if k.wide then let r := k.w (k.mul p a b + c); if r ≥ p then k.w (r - p) else r
  else k.w (modn (k.w (k.w c + a * b)) p)

/-- axpyin: wide: `tmp = r; axpy(r,a,b,tmp)` ; same type: `addmul(r,a,b); mod_n(r,p)` -/
def axpyin (p r a b : Int) : Int :=
  if k.wide then k.axpy p a b r else k.w (modn (k.w (r + a * b)) p)

/-- maxpy: `_mul(ab,a,b); sub(r,c,ab)` -/
def maxpy (p a b c : Int) : Int := k.sub p c (k.mul p a b)
/-- axmy: `_mul(ab,a,b); sub(r,ab,c)` ; axmyin(r,a,b) = axmy(r,a,b,rc) with rc a copy of r -/
def axmy (p a b c : Int) : Int := k.sub p (k.mul p a b) c

/-- maxpyin: wide: `tmp = a*b mod p; if (r < tmp) { tmp = p - tmp; r += tmp } else r -= tmp` ;
    same type: `mul(ab,a,b); r = -r; add(r,ab); mod_n; r = -r` -/
def maxpyin (p r a b : Int) : Int :=
  if k.wide then
    let tmp := k.mul p a b
    if r < tmp then k.w (r + k.w (p - tmp)) else k.w (r - tmp)
  else k.neg p (k.w (modn (k.w (k.neg p r + k.w (a * b))) p))

/-- reduce: `x = y % _p` (for `rint`: then `+p` when negative) -/
def reduce (p y : Int) : Int :=
  if k.sg then let x := k.w (Int.tmod y p); if x < 0 then k.w (x + p) else x else k.w (Int.tmod y p)

/-- init from an `Integer`: `Integer::mod(t, a, Integer(_p)); r = Caster<Element>(t)` -/
def initZ (p a : Int) : Int := k.w (a % p)
/-- init from a machine integer whose magnitude fits the element type:
    `ua = |a|` in `uint64_t`; `reduce(r, Caster<Element>(ua)); if (a < 0) negin(r)` -/
def initInt (p a : Int) : Int :=
  let ua := wrapUw 64 (if a < 0 then wrapUw 64 (0 - wrapUw 64 a) else a)
  let r := k.reduce p (k.w ua)
  if a < 0 then k.neg p r else r

/-! ### `inv_mod(a, b, c)` (ruinvmod.h): on the unsigned images (`rint` forwards `.Value`) -/
structure RInv where
  a : Int
  x : Int
  a2 : Int
  b2 : Int
deriving DecidableEq, Repr

/-- the loop body -/
def invStep (p : Int) (st : RInv) : RInv :=
  let q := st.a2 / st.b2                                     -- div(q, r, a2, b2)
  let r := st.a2 % st.b2
  let t0 := modn (k.w2 (q * st.x)) p                         -- lmul(resmul, q, x); mod_n(temp, resmul, c)
  let t1 := if t0 ≠ 0 then wrapUw k.n (p - t0) else t0       -- if (temp != 0) sub(temp, c, temp)
  let sum := t1 + st.a                                       -- add(ret, temp, a): carry out in `ret`
  let t2 := wrapUw k.n sum
  let ret := decide (sum ≥ (2 : Int) ^ k.n)
  let t3 := if ret ∨ t2 ≥ p then wrapUw k.n (t2 - p) else t2  -- if (ret || temp >= c) sub(temp, c)
  ⟨st.x, t3, st.b2, r⟩

def invLoop (p : Int) : Nat → RInv → RInv
  | 0, st => st
  | fuel + 1, st => if st.b2 = 0 then st else invLoop p fuel (k.invStep p st)

/-- inv / invin: `inv_mod(r, a, _p)` -/
def inv (p b : Int) : Int := (k.invLoop p (b.natAbs + 2) ⟨1, 0, b, p⟩).a
/-- div: `Element ib; mul(r, a, inv(ib, b))` ; divin: `mulin(r, inv(ia, a))` -/
def div (p a b : Int) : Int := k.mul p a (k.inv p b)
def divin (p r a : Int) : Int := k.mul p r (k.inv p a)

/-- isUnit is `Modular_implem::isUnit`: the generic `extended_euclid<Element>` of modular-general.inl
    instantiated with the RecInt element type (arithmetic modulo 2^n) -/
def asI : ICfg := ⟨k.n, k.sg, k.n⟩
def isUnit (p a : Int) : Bool := k.asI.isUnit p a

end RCfg
end Givaro.Model.ModRing
