/-
C20 — the destination-explicit layer of the model (core Lean only; this is what the driver runs).

Every draw function of the library writes its result through a reference (`Integer& r`, `Element& r`, `Rep& P`,
`ruint<K>& a`).  Here the previous content `old` of that destination is an explicit argument of every draw:

    draw : parameters → old → generator state → result × generator state

and every write is spelled as the code spells it (`mpz_set`, assignment, `resize` followed by element writes, limb writes),
so that "the result does not depend on what the destination held" is a *theorem* (Props/C20.lean, `…_dest_indep`), not a
modelling decision.  Objects with state (iterators, the global GMP / mt19937_64 generators) are state machines run over a
list of calls (`runCalls`), each call carrying its own destination content.
-/
import GivaroModel.Model.Random
namespace Givaro.Model.Random
open Givaro

/-- `x = e`, `mpz_set(x, e)`, `Caster<Element>(x, y)`: the previous content of the destination is discarded -/
def overwrite {α : Type} (_old new : α) : α := new

/-- a stateful object run over a list of calls: outputs in call order and the final state (`none`: a loop ran out of fuel) -/
def runCalls {σ κ ω : Type} (step : σ → κ → Option (ω × σ)) : List κ → σ → Option (List ω × σ)
  | [], s => some ([], s)
  | c :: cs, s =>
    match step s c with
    | none => none
    | some os =>
      match runCalls step cs os.2 with
      | none => none
      | some r => some (os.1 :: r.1, r.2)

/-! ## Integer::random* (gmp++_int_rand.inl) -/
section IntD
variable {σ : Type} (G : RawGen σ)

/-- `random_lessthan<AP>(r, m)`: `mpz_set(r, get_z_range(m)); if(!AP) if (RandBool()) negin(r)` -/
def lessthanD (ap : Bool) (m : Int) (old : Int) (st : σ) : Int × σ :=
  signTail G ap (overwrite old (G.range st m).1) (G.range st m).2

/-- `random_lessthan_2exp<AP>(r, m)`: `mpz_set(r, get_z_bits(m)); …` -/
def lessthan2expD (ap : Bool) (n : Nat) (old : Int) (st : σ) : Int × σ :=
  signTail G ap (overwrite old (G.bits st n).1) (G.bits st n).2

/-- `random_exact_2exp<AP>(r, m)`: `if (m) random_lessthan_2exp<true>(r, m-1); mpz_setbit(r, m-1); …` — for `m = 0` the
    destination is *not* written before `mpz_setbit` (bit size 0 is outside the contract) -/
def exact2expD (ap : Bool) (m : Nat) (old : Int) (st : σ) : Int × σ :=
  let d : Int × σ := if m ≠ 0 then lessthan2expD G true (pred64 m) old st else (old, st)
  signTail G ap (setbit d.1 (pred64 m)) d.2

/-- `random_exact<AP>(r, const Integer& s)` -/
def exactID (ap : Bool) (s : Int) (old : Int) (st : σ) : Int × σ := exact2expD G ap (bitsize s) old st

/-- `random_between(r, m, M)`: `random_lessthan(r, Integer(M-m)); r += m` -/
def betweenD (lo hi : Int) (old : Int) (st : σ) : Int × σ :=
  ((lessthanD G true (hi - lo) old st).1 + lo, (lessthanD G true (hi - lo) old st).2)

/-- `nonzerorandom<AP,T>(r, word)`: `while (isZero(random<AP,T>(r, size))) {}` — every iteration draws into the same `r` -/
def nonzeroWD (ap : Bool) (n : Nat) : Nat → Int → σ → Option (Int × σ)
  | 0, _, _ => none
  | f+1, old, st =>
    if (lessthan2expD G ap n old st).1 = 0 then nonzeroWD ap n f (lessthan2expD G ap n old st).1 (lessthan2expD G ap n old st).2
    else some (lessthan2expD G ap n old st)

/-- `nonzerorandom<AP,Integer>(r, m)` -/
def nonzeroID (ap : Bool) (m : Int) : Nat → Int → σ → Option (Int × σ)
  | 0, _, _ => none
  | f+1, old, st =>
    if (lessthanD G ap m old st).1 = 0 then nonzeroID ap m f (lessthanD G ap m old st).1 (lessthanD G ap m old st).2
    else some (lessthanD G ap m old st)

/-- `random_between_2exp(r, m, M)`: `r = nonzerorandom((uint64_t)M-m)` (a fresh local Integer, then assignment),
    `Integer r1 = random_lessthan_2exp(m)` (fresh), `r <<= m; r += r1` -/
def between2expD (m M : Nat) (fuel : Nat) (old : Int) (st : σ) : Option (Int × σ) :=
  match nonzeroWD G true ((M + 18446744073709551616 - m) % 18446744073709551616) fuel 0 st with
  | none => none
  | some rs => some (overwrite old rs.1 * 2 ^ m + (lessthan2expD G true m 0 rs.2).1, (lessthan2expD G true m 0 rs.2).2)

/-- the free functions as one machine on the (global) GMP generator state; a value-returning overload is the
    reference-taking one on a fresh local Integer -/
inductive IntCall where
  | lessthan (ap : Bool) (m : Int) (old : Int)
  | lessthan2exp (ap : Bool) (n : Nat) (old : Int)
  | exact2exp (ap : Bool) (n : Nat) (old : Int)
  | exactI (ap : Bool) (s : Int) (old : Int)
  | between (lo hi : Int) (old : Int)
  | between2exp (m M : Nat) (old : Int)
  | nonzeroW (ap : Bool) (n : Nat) (old : Int)
  | nonzeroI (ap : Bool) (m : Int) (old : Int)
  | random0 (ap : Bool)
  | randBool

/-- the call with another destination content -/
def IntCall.withOld : IntCall → Int → IntCall
  | .lessthan ap m _, o => .lessthan ap m o
  | .lessthan2exp ap n _, o => .lessthan2exp ap n o
  | .exact2exp ap n _, o => .exact2exp ap n o
  | .exactI ap s _, o => .exactI ap s o
  | .between lo hi _, o => .between lo hi o
  | .between2exp m M _, o => .between2exp m M o
  | .nonzeroW ap n _, o => .nonzeroW ap n o
  | .nonzeroI ap m _, o => .nonzeroI ap m o
  | .random0 ap, _ => .random0 ap
  | .randBool, _ => .randBool

/-- inside the documented contract: an exact bit size is at least 1 -/
def IntCall.admissible : IntCall → Prop
  | .exact2exp _ n _ => n ≠ 0
  | _ => True

def intStep (fuel : Nat) (st : σ) : IntCall → Option (Int × σ)
  | .lessthan ap m old => some (lessthanD G ap m old st)
  | .lessthan2exp ap n old => some (lessthan2expD G ap n old st)
  | .exact2exp ap n old => some (exact2expD G ap n old st)
  | .exactI ap s old => some (exactID G ap s old st)
  | .between lo hi old => some (betweenD G lo hi old st)
  | .between2exp m M old => between2expD G m M fuel old st
  | .nonzeroW ap n old => nonzeroWD G ap n fuel old st
  | .nonzeroI ap m old => nonzeroID G ap m fuel old st
  | .random0 ap => some (random0 G ap st)
  | .randBool => some ((if (randBool G st).1 then 1 else 0), (randBool G st).2)

/-! ### RandomIntegerIterator (random-integer.h): members `_bits`, `_integer`; the generator is the global GMP state -/

structure RiiSt (σ : Type) where
  bits : Nat
  integer : Int
  gen : σ

inductive RiiCall where
  /-- `operator++()`: `nextRandom(_integer)` -/
  | inc
  /-- `random(a)` / `operator()(a)`: `nextRandom(a)` into the caller's destination holding `old`; `_integer` is not touched -/
  | random (old : Int)
  /-- `setBitsize(b)`: `_bits = b; operator++()` -/
  | setBitsize (b : Nat)

/-- the same call with another destination content -/
def RiiCall.withOld : RiiCall → Int → RiiCall
  | .random _, o => .random o
  | c, _ => c

/-- bit sizes requested through `setBitsize` are at least 1 -/
def RiiCall.admissible : RiiCall → Prop
  | .setBitsize b => b ≠ 0
  | _ => True

/-- `nextRandom(_Exact_Size_t(), a)`: `random_exact<U>(a, _bits)` or `random_lessthan<U>(a, _bits)` (bit counts) -/
def riiNextD (u e : Bool) (bits : Nat) (old : Int) (st : σ) : Int × σ :=
  if e then exact2expD G u bits old st else lessthan2expD G u bits old st

/-- one call; the output is the value a caller can observe after it (`*it` resp. the destination) -/
def riiStep (u e : Bool) (s : RiiSt σ) : RiiCall → Option (Int × RiiSt σ)
  | .inc => some ((riiNextD G u e s.bits s.integer s.gen).1, ⟨s.bits, (riiNextD G u e s.bits s.integer s.gen).1, (riiNextD G u e s.bits s.integer s.gen).2⟩)
  | .random old => some ((riiNextD G u e s.bits old s.gen).1, ⟨s.bits, s.integer, (riiNextD G u e s.bits old s.gen).2⟩)
  | .setBitsize b => some ((riiNextD G u e b s.integer s.gen).1, ⟨b, (riiNextD G u e b s.integer s.gen).1, (riiNextD G u e b s.integer s.gen).2⟩)

/-- constructors: `_bits(30)` resp. `_bits(samplesize.bitsize())`, `_integer()`; `initialize`: `if (!bits) _bits = 30;`
    `setSeed(seed)` (→ `st`, the seeded global state), `operator++()` -/
def riiCtor (u e : Bool) (bits0 : Nat) (st : σ) : RiiSt σ :=
  let b := if bits0 = 0 then 30 else bits0
  ⟨b, (riiNextD G u e b 0 st).1, (riiNextD G u e b 0 st).2⟩

/-- copy constructor / copy assignment: `_bits`, `_integer` are copied; the generator state is global, hence shared -/
def riiCopy (s : RiiSt σ) : RiiSt σ := ⟨s.bits, s.integer, s.gen⟩

end IntD

/-! ## rings on GivRandom -/

/-- `random(g, r)`: `init(r, g())` — `init` assigns to `r` (`x = Caster<Element>(…)`, `Caster<Element>(x, y)`) -/
def modRandomD (bits : Nat) (sgn : Bool) (p : Int) (old g : Int) : Int × Int :=
  (overwrite old (initU64 bits sgn p (givNext g)), givNext g)

def modRandomSzD (bits : Nat) (sgn : Bool) (p size : Int) (old g : Int) : Int × Int :=
  (overwrite old (initU64 bits sgn p (givNext g % size)), givNext g)

/-- `nonzerorandom(g, a)`: `while (isZero(init(a, g()))) ;` — every iteration writes the same `a` -/
def modNonzeroD (bits : Nat) (sgn : Bool) (p : Int) : Nat → Int → Int → Option (Int × Int)
  | 0, _, _ => none
  | f+1, old, g =>
    if (modRandomD bits sgn p old g).1 = 0 then modNonzeroD bits sgn p f (modRandomD bits sgn p old g).1 (modRandomD bits sgn p old g).2
    else some (modRandomD bits sgn p old g)

def modNonzeroSzD (bits : Nat) (sgn : Bool) (p size : Int) : Nat → Int → Int → Option (Int × Int)
  | 0, _, _ => none
  | f+1, old, g =>
    if (modRandomSzD bits sgn p size old g).1 = 0 then
      modNonzeroSzD bits sgn p size f (modRandomSzD bits sgn p size old g).1 (modRandomSzD bits sgn p size old g).2
    else some (modRandomSzD bits sgn p size old g)

/-- one call of an iterator / member function (fn as in `modStep`); the state is the GivRandom state (a member of the
    iterator, copied by its copy constructor; the sampling size and the ring are construction parameters) -/
def modStepD (bits : Nat) (sgn : Bool) (p : Int) (fn : Nat) (size : Int) (fuel : Nat) (g : Int) (old : Int) : Option (Int × Int) :=
  match fn with
  | 0 => some (modRandomD bits sgn p old g)
  | 1 => some (modRandomSzD bits sgn p (sampleSize p size) old g)
  | 2 => some (modRandomSzD bits sgn p (if size ≠ 0 then size else p) old g)
  | 3 => modNonzeroD bits sgn p fuel old g
  | 4 => some (modRandomD bits sgn p old g)
  | 5 => modNonzeroD bits sgn p fuel old g
  | 6 => some (modRandomSzD bits sgn p size old g)
  | 7 => modNonzeroSzD bits sgn p size fuel old g
  | _ => none

/-- the elements returned for a list of calls (one destination content per call) and the final generator state -/
def modRun (bits : Nat) (sgn : Bool) (p : Int) (fn : Nat) (size : Int) (fuel : Nat) (olds : List Int) (g : Int) : Option (List Int × Int) :=
  runCalls (modStepD bits sgn p fn size fuel) olds g

/-! ## GFqDom -/

/-- `random(g, a, s)`: `a = Rep((UTT)(g()) % s); return a = (a<0 ? a+(Rep)_q : a)` -/
def gfqRandomD (bits : Nat) (q s : Int) (old g : Int) : Int × Int :=
  let a := overwrite old (castSt bits true ((givNext g % 2 ^ bits) % s))
  (overwrite a (if a < 0 then castSt bits true (a + castSt bits true q) else a), givNext g)

def gfqNonzeroD (bits : Nat) (q s : Int) (old g : Int) : Int × Int :=
  let a := overwrite old (castSt bits true (((givNext g % 2 ^ bits) % ((s - 1) % 2 ^ bits) + 1) % 2 ^ bits))
  (overwrite a (if a < 0 then castSt bits true (a + castSt bits true q) else a), givNext g)

/-- `GeneralRingNonZeroRandIter` over `GIV_randIter(F, seed)`: `do _r.random(a); while (isZero(a))` -/
def gfqNzLoopD (bits : Nat) (q : Int) : Nat → Int → Int → Option (Int × Int)
  | 0, _, _ => none
  | f+1, old, g =>
    if (gfqRandomD bits q (sampleSize q 0) old g).1 = 0 then
      gfqNzLoopD bits q f (gfqRandomD bits q (sampleSize q 0) old g).1 (gfqRandomD bits q (sampleSize q 0) old g).2
    else some (gfqRandomD bits q (sampleSize q 0) old g)

def gfqStepD (bits : Nat) (q : Int) (fn : Nat) (size : Int) (fuel : Nat) (g : Int) (old : Int) : Option (Int × Int) :=
  match fn with
  | 0 => some (gfqRandomD bits q (sampleSize q 0) old g)
  | 1 => some (gfqRandomD bits q (sampleSize q size) old g)
  | 3 => gfqNzLoopD bits q fuel old g
  | 4 => some (gfqRandomD bits q q old g)
  | 5 => some (gfqNonzeroD bits q q old g)
  | 6 => some (gfqRandomD bits q size old g)
  | 7 => some (gfqNonzeroD bits q size old g)
  | _ => none

def gfqRun (bits : Nat) (q : Int) (fn : Nat) (size : Int) (fuel : Nat) (olds : List Int) (g : Int) : Option (List Int × Int) :=
  runCalls (gfqStepD bits q fn size fuel) olds g

/-! ## Poly1Dom::random (givpoly1misc.inl): the destination is a `std::vector` -/

/-- `std::vector::resize(n)`: keeps the first `n` elements, new slots are value-initialised -/
def vresize (l : List Int) (n : Nat) : List Int := (l ++ List.replicate n 0).take n

/-- `for (int i = d; i--;) _domain.random(g, r[i])`: writes `r[i-1] … r[0]` in place -/
def polyFill (bits : Nat) (sgn : Bool) (p : Int) : Nat → List Int → Int → List Int × Int
  | 0, r, g => (r, g)
  | i+1, r, g =>
    polyFill bits sgn p i (r.set i (modRandomD bits sgn p (r.getD i 0) g).1) (modRandomD bits sgn p (r.getD i 0) g).2

/-- `random(g, r, Degree d)`: `if (d == deginfty) { r.resize(0); return r; } r.resize(d+1); _domain.nonzerorandom(g, r[d]);`
    then the lower coefficients.  `old` is what the vector held. -/
def polyRandomD (bits : Nat) (sgn : Bool) (p : Int) (d : Int) (fuel : Nat) (old : List Int) (g : Int) : Option (List Int × Int) :=
  if d < 0 then some (vresize old 0, g)
  else
    match modNonzeroD bits sgn p fuel ((vresize old (d.toNat + 1)).getD d.toNat 0) g with
    | none => none
    | some lead => some (polyFill bits sgn p d.toNat ((vresize old (d.toNat + 1)).set d.toNat lead.1) lead.2)

/-- a polynomial draw as a call: requested degree and what the destination held -/
def polyStep (bits : Nat) (sgn : Bool) (p : Int) (fuel : Nat) (g : Int) (c : Int × List Int) : Option (List Int × Int) :=
  polyRandomD bits sgn p c.1 fuel c.2 g

/-! ## RecInt::rand: `rand(a.High); rand(a.Low)` down to one limb -/

/-- fill a `ruint<6+k>` holding `old`: the limbs are the leaves of the High/Low tree, `leaf old s` writes one limb -/
def ruTree {σ : Type} (leaf : Int → σ → Int × σ) : Nat → Int → σ → Int × σ
  | 0, old, s => leaf old s
  | k+1, old, s =>
    ((ruTree leaf k (old / 2 ^ (64 * 2 ^ k)) s).1 * 2 ^ (64 * 2 ^ k)
      + (ruTree leaf k (old % 2 ^ (64 * 2 ^ k)) (ruTree leaf k (old / 2 ^ (64 * 2 ^ k)) s).2).1,
     (ruTree leaf k (old % 2 ^ (64 * 2 ^ k)) (ruTree leaf k (old / 2 ^ (64 * 2 ^ k)) s).2).2)

/-- `a.Value = rand_gen()` on the stream of mt19937_64 outputs (an exhausted stream cannot happen: the driver reports it) -/
def leafW (old : Int) (ws : List Int) : Int × List Int :=
  match ws with
  | [] => (overwrite old 0, [])
  | w :: t => (overwrite old w, t)

/-- `rand(ruint<K>&)` (K ≥ 6) -/
def ruRandD (K : Nat) (old : Int) (ws : List Int) : Int × List Int := ruTree leafW (K - 6) old ws

/-- `rand(rint<K>&)`: `rand(a.Value)`; the value is the two's-complement reading of the same bits -/
def riRandD (K : Nat) (old : Int) (ws : List Int) : Int × List Int :=
  (if (ruRandD K (old % 2 ^ (2 ^ K)) ws).1 < 2 ^ (2 ^ K - 1) then (ruRandD K (old % 2 ^ (2 ^ K)) ws).1
   else (ruRandD K (old % 2 ^ (2 ^ K)) ws).1 - 2 ^ (2 ^ K), (ruRandD K (old % 2 ^ (2 ^ K)) ws).2)

/-- `rand(rmint<K,MGI>&)`: `rand(a.Value); mod_n(a.Value, p)` -/
def rmRandD (K : Nat) (p : Int) (old : Int) (ws : List Int) : Int × List Int :=
  ((ruRandD K old ws).1 % p, (ruRandD K old ws).2)

/-- `rand(rmint<K,MGA>&)`: `rand(a.Value); to_mg(a)`: `a.Value = (a.Value · 2^(2^K)) mod p` -/
def rmRandMgD (K : Nat) (p : Int) (old : Int) (ws : List Int) : Int × List Int :=
  (((ruRandD K old ws).1 * 2 ^ (2 ^ K)) % p, (ruRandD K old ws).2)

/-- `rand(ruint<6>&, g)` on a GivRandom: `a.Value = 0; for (i < 4) a.Value = (a.Value << 16) | (limb(g()) & 0xFFFF)` -/
def leafG (old : Int) (g : Int) : Int × Int :=
  let v0 := overwrite old 0
  let g1 := givNext g
  let g2 := givNext g1
  let g3 := givNext g2
  let g4 := givNext g3
  ((((v0 * 65536 + g1 % 65536) * 65536 + g2 % 65536) * 65536 + g3 % 65536) * 65536 + g4 % 65536, g4)

/-- `Modular<ruint<K>>::random(g, r)` / `Montgomery<ruint<K>>::random(g, r)`: `RecInt::rand(r, g); mod_n(r, _p)` -/
def ruRingRandomD (K : Nat) (p : Int) (old g : Int) : Int × Int :=
  ((ruTree leafG (K - 6) old g).1 % p, (ruTree leafG (K - 6) old g).2)

/-- `nonzerorandom(g, a)`: `while (isZero(random(g, a))) {}` -/
def ruRingNonzeroD (K : Nat) (p : Int) : Nat → Int → Int → Option (Int × Int)
  | 0, _, _ => none
  | f+1, old, g =>
    if (ruRingRandomD K p old g).1 = 0 then ruRingNonzeroD K p f (ruRingRandomD K p old g).1 (ruRingRandomD K p old g).2
    else some (ruRingRandomD K p old g)

/-- fn 0 `ModularRandIter`, 4 `random(g,r)`; 3 `GeneralRingNonZeroRandIter`, 5 `nonzerorandom(g,r)` -/
def ruRingStepD (K : Nat) (p : Int) (fn : Nat) (fuel : Nat) (g : Int) (old : Int) : Option (Int × Int) :=
  if fn = 0 ∨ fn = 4 then some (ruRingRandomD K p old g)
  else if fn = 3 ∨ fn = 5 then ruRingNonzeroD K p fuel old g
  else none

def ruRingRun (K : Nat) (p : Int) (fn : Nat) (fuel : Nat) (olds : List Int) (g : Int) : Option (List Int × Int) :=
  runCalls (ruRingStepD K p fn fuel) olds g

/-! ## GivRandom: constructor for every 64-bit seed, and `operator()(XXX& x)` -/

/-- `GivRandom(s)`: `_seed(s); while (!_seed) _seed = BaseTimer::seed(); _seed = 1 + (_seed - 1) % (M - 1)`.
    `clock` is the stream of values `BaseTimer::seed()` would return (`tv_nsec`, in `[0, 10^9)`): it is consulted only for `s = 0`.
    `none`: the clock kept returning 0. -/
def givCtor (s : Int) : List Int → Option Int
  | clock =>
    if s ≠ 0 then some (givInit s)
    else
      match clock.find? (· ≠ 0) with
      | none => none
      | some c => some (givInit (wrapU64 c))

/-- `template<class XXX> XXX& operator()(XXX& x)`: `x = (XXX) this->operator()()`; `cast` is the conversion to `XXX` -/
def givDrawInto (cast : Int → Int) (old g : Int) : Int × Int := (overwrite old (cast (givNext g)), givNext g)

/-- `brand()`: `!(operator()() & _GIVRAN_HALFMOD_)` with `_GIVRAN_HALFMOD_ = 2^30` -/
def givBrand (g : Int) : Bool × Int := ((givNext g / 1073741824) % 2 == 0, givNext g)

end Givaro.Model.Random
