/-
C10 — the process-wide reduction mode `Rational::flags` as explicit state.

`Rational::flags` is a static data member: every operation of the class reads it, only `SetReduce()` / `SetNoReduce()`
write it.  `step c m op = (m', out)` is one call of the Rational / QField<Rational> API made while the mode is `m`:
`out` is what the call returns / stores (the stored `(num, den)` pair, not just its value) and `m'` the mode it leaves behind.
Operands are the stored pairs of the C++ objects the call receives, so a history of calls on live objects is a list of `Op`s
(`runOps`); the harness prints, for every call it makes, the mode it observed before and after, the operands' stored pairs
and the stored result, and counts the machine-level writes to `Rational::flags` with a hardware watchpoint.

The arithmetic itself is Model/Rational.lean (this file only threads the mode).  Core Lean only.
-/
import GivaroModel.Model.Rational
import GivaroModel.Model.RationalConv
namespace Givaro.Model.Rational

/-- one call of the API (operands = stored pairs) -/
inductive Op where
  -- the only two writers of the mode
  | setReduce | setNoReduce
  -- construction
  | ofNeutral (one : Bool) | ofWord (n : Int) | ofInteger (n : Int)
  | ofPairS (n d : Int)          -- Rational(int64_t,int64_t), Rational(int32_t,int32_t)
  | ofPairU (n d : Int)          -- Rational(uint64_t,uint64_t), Rational(uint32_t,uint32_t)
  | ofPairZ (n d : Int) (red : Int)   -- Rational(const Integer&, const Integer&, int red = 1), QField::init(a,n,d)
  | ofDouble (s e m : Int)       -- Rational(double), QField::init(r, double): IEEE-754 fields
  | ofText (n : Int) (d : Option Int)
  | copy (a : QRep)              -- copy constructor, operator=, copy(), logcpy(), QField::assign, unary +
  -- arithmetic
  | add (a b : QRep) | sub (a b : QRep) | mul (a b : QRep) | div (a b : QRep)
  | addin (a b : QRep) | subin (a b : QRep) | mulin (a b : QRep) | divin (a b : QRep)
  | neg (a : QRep) | abs (a : QRep) | reduce (a : QRep)
  | fneg (a : QRep) | finv (a : QRep)
  | axpy (a b z : QRep) | axpyin (r a b : QRep) | maxpy (a b z : QRep) | axmy (a b z : QRep)
  | axmyin (r a b : QRep) | maxpyin (r a b : QRep)
  | powS (a : QRep) (y : Int) | powU (a : QRep) (l : Int)
  -- to Integer / words / floating point
  | floor (a : QRep) | ceil (a : QRep) | trunc (a : QRep) | round (a : QRep)
  | nume (a : QRep) | deno (a : QRep)
  | toS64 (a : QRep) | toU64 (a : QRep) | toS32 (a : QRep) | toU32 (a : QRep)
  | toS16 (a : QRep) | toU16 (a : QRep) | toS8 (a : QRep) | toU8 (a : QRep)
  | toDouble (a : QRep) | toFloat (a : QRep)
  | modZ (a : QRep) (r : Int)     -- Rational::operator%(const Integer&)
  -- order and predicates
  | lt (a b : QRep) | gt (a b : QRep) | le (a b : QRep) | ge (a b : QRep) | eq (a b : QRep) | ne (a b : QRep)
  | compare (a b : QRep) | absCompare (a b : QRep)
  | isZero (a : QRep) | isOne (a : QRep) | isMOne (a : QRep) | isInteger (a : QRep) | sign (a : QRep)
  | fisZero (a : QRep) | fisOne (a : QRep) | fisMOne (a : QRep) | fisUnit (a : QRep)

/-- what a call returns or stores -/
inductive Val where
  | q (r : QRep) | z (i : Int) | b (v : Bool) | unit | exc
deriving DecidableEq, Repr

def qv (r : Option QRep) : Val := match r with | some x => .q x | none => .exc
def zv (r : Option Int) : Val := match r with | some x => .z x | none => .exc

/-- one call made in mode `m` (`true` = `Reduce`); `c` is `mpz_cmpabs` -/
def step (c : Int → Int → Int) (m : Bool) : Op → Bool × Val
  | .setReduce => (true, .unit)
  | .setNoReduce => (false, .unit)
  | .ofNeutral one => (m, .q (ofNeutral one))
  | .ofWord n => (m, .q (ofWord n))
  | .ofInteger n => (m, .q (ofInteger n))
  | .ofPairS n d => (m, qv (mk2S n d))
  | .ofPairU n d => (m, qv (mk2U n d))
  | .ofPairZ n d red => (m, qv (mk3 n d red))
  | .ofDouble s e mt => (m, qv (ofDouble m s e mt))
  | .ofText n d => (m, qv (ofText n d))
  | .copy a => (m, .q a)
  | .add a b => (m, qv (Rational.add m a b))
  | .sub a b => (m, qv (Rational.sub m a b))
  | .mul a b => (m, qv (Rational.mul c m a b))
  | .div a b => (m, qv (Rational.div c m a b))
  | .addin a b => (m, qv (Rational.addin m a b))
  | .subin a b => (m, qv (Rational.subin m a b))
  | .mulin a b => (m, qv (Rational.mulin c m a b))
  | .divin a b => (m, qv (Rational.divin m a b))
  | .neg a => (m, qv (Rational.neg a))
  | .abs a => (m, qv (Rational.abs a))
  | .reduce a => (m, .q (Rational.reduce a))
  | .fneg a => (m, .q (Rational.fneg a))
  | .finv a => (m, .q (Rational.finv a))
  | .axpy a b z => (m, qv (Rational.axpy c m a b z))
  | .axpyin r a b => (m, qv (Rational.axpyin c m r a b))
  | .maxpy a b z => (m, qv (Rational.maxpy c m a b z))
  | .axmy a b z => (m, qv (Rational.axmy c m a b z))
  | .axmyin r a b => (m, qv (Rational.axmyin c m r a b))
  | .maxpyin r a b => (m, qv (Rational.maxpyin c m r a b))
  | .powS a y => (m, .q (powS64 a y))
  | .powU a l => (m, .q (Rational.powU a l))
  | .floor a => (m, .z (Rational.floor a))
  | .ceil a => (m, .z (Rational.ceil a))
  | .trunc a => (m, .z (Rational.trunc a))
  | .round a => (m, .z (Rational.round c a))
  | .nume a => (m, .z a.num)
  | .deno a => (m, .z a.den)
  | .toS64 a => (m, .z (toS64 a))
  | .toU64 a => (m, .z (toU64 a))
  | .toS32 a => (m, .z (toS32 a))
  | .toU32 a => (m, .z (toU32 a))
  | .toS16 a => (m, .z (toS16 a))
  | .toU16 a => (m, .z (toU16 a))
  | .toS8 a => (m, .z (toS8 a))
  | .toU8 a => (m, .z (toU8 a))
  | .toDouble a => (m, .z (toDoubleBits a))
  | .toFloat a => (m, .z (toFloatBits a))
  | .modZ a r => (m, zv (modZ a r))
  | .lt a b => (m, .b (Rational.lt c a b))
  | .gt a b => (m, .b (Rational.gt c a b))
  | .le a b => (m, .b (Rational.le c a b))
  | .ge a b => (m, .b (Rational.ge c a b))
  | .eq a b => (m, .b (Rational.eq c a b))
  | .ne a b => (m, .b (Rational.ne c a b))
  | .compare a b => (m, .z (Rational.compare c a b))
  | .absCompare a b => (m, .z (Rational.absCompare c a b))
  | .isZero a => (m, .b (Rational.isZero a))
  | .isOne a => (m, .b (Rational.isOne a))
  | .isMOne a => (m, .b (Rational.isMOne a))
  | .isInteger a => (m, .b (Rational.isInteger a))
  | .sign a => (m, .z (Rational.sign a))
  | .fisZero a => (m, .b (Rational.compare c a ⟨0, 1⟩ == 0))
  | .fisOne a => (m, .b (Rational.compare c a ⟨1, 1⟩ == 0))
  | .fisMOne a => (m, .b (Rational.compare c a ⟨-1, 1⟩ == 0))
  | .fisUnit a => (m, .b (!(Rational.isZero a)))

/-- is this call one of the two writers of the mode? -/
def Op.isSet : Op → Bool
  | .setReduce | .setNoReduce => true
  | _ => false

/-- a history of calls: the mode is threaded, every output is recorded -/
def runOps (c : Int → Int → Int) : Bool → List Op → Bool × List Val
  | m, [] => (m, [])
  | m, op :: ops =>
    let r := step c m op
    let rest := runOps c r.1 ops
    (rest.1, r.2 :: rest.2)

/-- the mode the user last asked for -/
def lastSet : Bool → List Op → Bool
  | m, [] => m
  | _, .setReduce :: ops => lastSet true ops
  | _, .setNoReduce :: ops => lastSet false ops
  | m, _ :: ops => lastSet m ops

end Givaro.Model.Rational
