/-
C13 — executable model of `IntNumTheoDom` (givintnumtheo.inl), `IntSqrtModDom` (givintsqrootmod.inl)
and of `logp` / `sqrt` / `root` / Jacobi forwards of gmp++_int_misc.C.

The functions mirror the C++ bodies branch by branch.  `Integer` values are `Int`;
  `Integer::mod/modin` (mpz_mod)            is `%`  (Lean's `Int.emod`, result in [0,|m|)),
  `operator%`, `%=`     (mpz_tdiv_r)        is `Int.tmod`,
  `operator/`, `/=`, `div`, `divexact`      is `Int.tdiv`,
  `>>=` on non-negative values              is `/ 2^k`,   `<<=` is `* 2^k`.
GMP number theory (`mpz_powm`, `mpz_invert`, `mpz_jacobi`, `mpz_sqrt`, `mpz_root`, `mpz_lcm`, `mpz_gcd`)
and the factorisation `IntFactorDom::set` (property C12) are *modelled*: executable stand-ins below.
Random draws (`nonzerorandom`) are a parameter `rnd : Nat → Int` (the i-th draw); loops that the C++
leaves unbounded take fuel and return `none` when it runs out.
Core Lean only (linked into the driver).
-/
namespace Givaro.Model.NumTheo

/-! ## modelled primitives -/

/-- `mpz_powm` (non-negative exponent): `a^e mod m` in `[0,|m|)` by square-and-multiply -/
def powmod (a : Int) (e : Nat) (m : Int) : Int :=
  if h : e = 0 then 1 % m
  else
    let r := powmod (a * a % m) (e / 2) m
    if e % 2 = 1 then a * r % m else r
termination_by e
decreasing_by omega

/-- extended Euclid on `(r0, r1)` carrying the cofactor of the first argument -/
def xgcdAux : Nat → Int → Int → Int → Int → Int × Int
  | 0, r0, _, s0, _ => (r0, s0)
  | fuel + 1, r0, r1, s0, s1 =>
    if r1 = 0 then (r0, s0) else xgcdAux fuel r1 (r0 % r1) s1 (s0 - (r0 / r1) * s1)

/-- `mpz_invert(rop, a, m)`: the inverse in `[0,|m|)` when it exists; otherwise `rop` keeps its old value (= `a` for `invin`) -/
def invmod (a m : Int) : Int :=
  let am := a % m
  let (g, s) := xgcdAux (2 * m.natAbs.log2 + 8) am m.natAbs 1 0
  if g = 1 then s % m else a

/-- Jacobi symbol loop (binary algorithm), `n` odd positive, `0 ≤ a < n` on entry of the loop -/
def jacobiAux : Nat → Nat → Nat → Int → Int
  | 0, _, _, _ => 0
  | fuel + 1, a, n, t =>
    if a = 0 then (if n = 1 then t else 0)
    else if a % 2 = 0 then jacobiAux fuel (a / 2) n (if n % 8 = 3 ∨ n % 8 = 5 then -t else t)
    else jacobiAux fuel (n % a) a (if a % 4 = 3 ∧ n % 4 = 3 then -t else t)

/-- `mpz_jacobi(a, n)` for odd positive `n` (0 otherwise: outside the documented domain) -/
def jacobi (a n : Int) : Int :=
  if n ≤ 0 ∨ n % 2 = 0 then 0
  else jacobiAux (4 * n.natAbs.log2 + 16) (a % n).toNat n.toNat 1

/-- `mpz_kronecker(a, n)`: Kronecker extension to every integer `n` -/
def kronecker (a n : Int) : Int :=
  if n = 0 then (if a = 1 ∨ a = -1 then 1 else 0)
  else
    let sgn : Int := if n < 0 ∧ a < 0 then -1 else 1
    let m := n.natAbs
    -- strip the powers of two of m
    let rec strip : Nat → Nat → Nat → Nat × Nat
      | 0, m, k => (m, k)
      | f + 1, m, k => if m % 2 = 0 ∧ m ≠ 0 then strip f (m / 2) (k + 1) else (m, k)
    let (odd, k) := strip (m.log2 + 1) m 0
    let two : Int :=
      if k = 0 then 1
      else if a % 2 = 0 then 0
      else if a % 8 = 1 ∨ a % 8 = 7 then 1 else (if k % 2 = 0 then 1 else -1)
    sgn * two * jacobi a odd

/-- `mpz_legendre` is `mpz_jacobi` -/
def legendre (a p : Int) : Int := kronecker a p

/-- `mpz_sqrt`: floor square root (Newton from above) -/
def isqrtAux : Nat → Nat → Nat → Nat
  | 0, _, x => x
  | fuel + 1, n, x => let y := (x + n / x) / 2; if y < x then isqrtAux fuel n y else x
def isqrt (a : Int) : Int :=
  if a ≤ 0 then 0 else
  let n := a.toNat
  (isqrtAux (n.log2 + 8) n (2 ^ (n.log2 / 2 + 1)) : Nat)

/-- `mpz_root`: floor n-th root of `a ≥ 0` by bisection; second component: exact? -/
def irootAux : Nat → Nat → Nat → Nat → Nat → Nat
  | 0, _, _, lo, _ => lo
  | fuel + 1, a, n, lo, hi =>          -- invariant lo^n ≤ a < hi^n
    if hi ≤ lo + 1 then lo else
    let mid := (lo + hi) / 2
    if mid ^ n ≤ a then irootAux fuel a n mid hi else irootAux fuel a n lo mid
def iroot (a : Int) (n : Nat) : Int × Bool :=
  if a < 0 ∨ n = 0 then (0, false) else
  let A := a.toNat
  let q := irootAux (A.log2 + 4) A n 0 (2 ^ (A.log2 / n + 1))
  ((q : Nat), q ^ n = A)

/-- stand-in for `IntFactorDom::set(Lf, Le, n)` (C12): prime factors with exponents, ascending, by trial division -/
def factorAux : Nat → Nat → Nat → List (Nat × Nat)
  | 0, _, _ => []
  | fuel + 1, n, d =>
    if n ≤ 1 then []
    else if d * d > n then [(n, 1)]
    else if n % d = 0 then
      let rec strip : Nat → Nat → Nat → Nat × Nat
        | 0, m, c => (m, c)
        | f + 1, m, c => if m % d = 0 ∧ m ≠ 0 then strip f (m / d) (c + 1) else (m, c)
      let (m, c) := strip (n.log2 + 1) n 0
      (d, c) :: factorAux fuel m (d + 1)
    else factorAux fuel n (d + 1)
def factorize (n : Nat) : List (Nat × Nat) := factorAux (n + 2) n 2

/-- `IntFactorDom::set(Lf, n)`: the distinct prime factors -/
def primeFactors (n : Int) : List Int := (factorize n.toNat).map (fun pe => (pe.1 : Int))

/-! ## givintnumtheo.inl -/

/-- `phi(res, Lf, n)`: `res = n; for f in Lf: res = divexact(res, f) * (f - 1)` -/
def phiL (Lf : List Int) (n : Int) : Int :=
  if n ≤ 1 then n
  else if n ≤ 3 then n - 1
  else Lf.foldl (fun res f => Int.tdiv res f * (f - 1)) n

/-- `phi(res, n)` -/
def phi (n : Int) : Int :=
  if n ≤ 1 then n
  else if n ≤ 3 then n - 1
  else phiL (primeFactors n) n

/-- `mobius(lpow)` on the list of exponents -/
def mobiusGo : List Nat → Int → Int
  | [], mob => mob
  | e :: es, mob => if e > 1 then 0 else mobiusGo es (-mob)
def mobiusL (lpow : List Nat) : Int :=
  if lpow.length ≠ 0 then mobiusGo lpow 1 else 1

/-- `mobius(a)` -/
def mobius (a : Int) : Int := mobiusL ((factorize a.natAbs).map (·.2))

/-- inner loop of `order`: `while (g mod f == 0 && A^(g/f) == 1) g = g/f` -/
def stripOne : Nat → Int → Int → Int → Int → Int
  | 0, _, _, g, _ => g
  | fuel + 1, A, n, g, f =>
    if g % f = 0 ∧ powmod A (Int.tdiv g f).toNat n = 1 then stripOne fuel A n (Int.tdiv g f) f else g

/-- second loop of `order` over the remaining factors -/
def stripAll (A n : Int) : Int → List Int → Int
  | g, [] => g
  | g, f :: fs => stripAll A n (stripOne (g.natAbs.log2 + 2) A n g f) fs

/-- first loop of `order`: the first factor `f` with `A^(phin/f) = 1`, with the factors from `f` on -/
def firstHit (A n phin : Int) : List Int → Option (Int × List Int)
  | [] => none
  | f :: fs => if powmod A (Int.tdiv phin f).toNat n = 1 then some (Int.tdiv phin f, f :: fs) else firstHit A n phin fs

/-- `order(g, p, n)` -/
def order (p n : Int) : Int :=
  let A := p % n
  if A = 0 then 0
  else if A = 1 then 1
  else
    let phin := phi n
    let Lf := primeFactors phin          -- `Lf.sort()`: ascending
    if Int.gcd A n = 1 then
      match firstHit A n phin Lf with
      | none => phin
      | some (g, rest) => stripAll A n g rest
    else 0

/-- `is_prim_root(p, n)` -/
def isPrimRoot (p n : Int) : Bool :=
  let phin := phi n
  let Lf := primeFactors phin
  let A := p % n
  if Int.gcd A n = 1 then Lf.all (fun f => powmod A (Int.tdiv phin f).toNat n != 1) else false

/-- `isorder(g, p, n)` -/
def isOrder (g p n : Int) : Bool :=
  powmod p g.toNat n == 1 && g == order p n

/-- search loop of `lowest_prim_root` -/
def lowestGo (n : Int) (exps : List Int) : Nat → Int → Int
  | 0, _ => 0
  | fuel + 1, A =>
    if A ≤ n then
      if Int.gcd A n = 1 ∧ exps.all (fun f => powmod A f.toNat n != 1) then A
      else lowestGo n exps fuel (A + 1)
    else 0

/-- `lowest_prim_root(A, n)` -/
def lowestPrimRoot (n : Int) : Int :=
  if n ≤ 4 then n - 1
  else if n % 4 = 0 then 0
  else
    let phin := phi n
    let exps := (primeFactors phin).map (fun f => Int.tdiv phin f)
    lowestGo n exps n.toNat 2

/-- the deterministic part of `prim_root(A, runs, n)` for `n ∈ {2,4,p^m,2p^m}`: the candidates 2,3,5,6 are tried
    in this order modulo `p`; `none` when the code goes on to random candidates -/
def primRootDet (n : Int) : Option Int :=
  if n ≤ 4 then some (n - 1)
  else if n % 4 = 0 then some 0
  else
    let even := n % 2 = 0
    let no2 := if even then Int.tdiv n 2 else n
    match primeFactors no2 with
    | [] => none
    | p :: _ =>
      let k1 := (no2 = p)
      let phin := phi p
      let exps := (primeFactors phin).map (fun f => Int.tdiv phin f)
      let test (A : Int) : Bool := exps.all (fun f => powmod A f.toNat p != 1)
      let cand : Option Int := [2, 3, 5, 6].find? test
      match cand with
      | none => none
      | some A =>
        if k1 then
          (if even ∧ A % 2 = 0 then some (A + p) else some A)
        else
          let A := if !isPrimRoot A no2 then A + p else A
          if even ∧ A % 2 = 0 then some (A + no2) else some A

/-- `lambda_primpow(z, p, e)` -/
def lambdaPrimpow (p : Int) (e : Nat) : Int :=
  if p = 2 then (if e ≤ 3 then e else 2 ^ (e - 2))
  else p ^ (e - 1) * (p - 1)

/-- `lambda_inv_primpow(z, p, e)` -/
def lambdaInvPrimpow (p : Int) (e : Nat) : Int :=
  if p = 2 then (if e ≤ 2 then e else if e = 3 then 2 else 2 ^ (e - 2))
  else p ^ (e - 1) * (p - 1)

/-- `lambda_base(z, m)` on the factor list `Lp, Le` (front element first, `lcmin` over the rest) -/
def lambdaBaseL : List (Nat × Nat) → Int
  | [] => 0          -- `Lp.front()` of an empty vector: undefined (m ≤ 1 is outside the prerequisite)
  | (p, e) :: rest =>
    rest.foldl (fun z qf => (Int.lcm z (lambdaInvPrimpow qf.1 qf.2) : Nat)) (lambdaInvPrimpow p e)

def lambdaBase (m : Int) : Int := lambdaBaseL (factorize m.natAbs)

/-- `lambda_inv(z, m)` -/
def lambdaInv (m : Int) : Int :=
  if m = 2 then 1
  else if m = 3 ∨ m = 4 ∨ m = 8 then 2
  else lambdaBase m

/-- `lambda(z, m)` -/
def lambda (m : Int) : Int :=
  if m = 2 then 1
  else if m = 3 ∨ m = 4 then 2
  else if m = 8 then 3
  else lambdaBase m

/-! ## gmp++_int_misc.C : logp -/

/-- first loop of `logp`: `do pows.push_back(puiss) while ((puiss *= puiss) <= a)`; the list is a stack (head = back) -/
def logpBuild : Nat → Int → Int → List Int → List Int
  | 0, _, _, pows => pows
  | fuel + 1, a, puiss, pows =>
    let pows := puiss :: pows
    let puiss := puiss * puiss
    if puiss ≤ a then logpBuild fuel a puiss pows else pows

/-- second loop of `logp` -/
def logpDown (a : Int) : List Int → Int → Int → Int
  | [], _, res => res
  | back :: pows, puiss, res =>
    let sq := puiss * back
    if sq ≤ a then logpDown a pows sq (res + 2 ^ pows.length) else logpDown a pows puiss res

/-- `logp(a, p)` -/
def logp (a p : Int) : Int :=
  if a < p then 0 else
  match logpBuild (a.natAbs.log2 + 2) a p [] with
  | [] => 0
  | puiss :: pows => logpDown a pows puiss (2 ^ pows.length)

/-! ## givintsqrootmod.inl -/

/-- the first of the draws `rnd 0, rnd 1, …` that ends a `while (cond(draw))` loop -/
def firstDraw (rnd : Nat → Int) (stop : Int → Bool) : Nat → Nat → Option Int
  | 0, _ => none
  | fuel + 1, i => if stop (rnd i) then some (rnd i) else firstDraw rnd stop fuel (i + 1)

def drawFuel : Nat := 4096

/-- the test of `prim_root` modulo the prime `p`: `A^e ≠ 1` for every exponent `e = phin/f`, `f` a listed prime factor of `phin` -/
def primTest (p : Int) (exps : List Int) (A : Int) : Bool := exps.all (fun f => powmod A f.toNat p != 1)

/-- the search of `prim_root(A, runs, n)` modulo `p`: the candidates 2, 3, 5, 6 in this order, then
    `do { random(A, p); A = A mod (p-7) + 7 } while (gcd(A,p) != 1)` repeated until the test passes -/
def primRootCand (rnd : Nat → Int) (p : Int) (exps : List Int) : Option Int :=
  match [2, 3, 5, 6].find? (primTest p exps) with
  | some A => some A
  | none => firstDraw (fun i => rnd i % (p - 7) + 7) (fun A => Int.gcd A p == 1 && primTest p exps A) drawFuel 0

/-- the end of `prim_root`: lift from `p` to `no2 = p^k` (add `p` when the candidate is not a primitive root modulo `p^k`),
    then to `2 p^k` (make it odd) -/
def primRootFinish (A p no2 : Int) (even k1 : Bool) : Int :=
  if k1 then (if even ∧ A % 2 = 0 then A + p else A)
  else
    let A := if !isPrimRoot A no2 then A + p else A
    if even ∧ A % 2 = 0 then A + no2 else A

/-- `prim_root(A, runs, n)` for `n ∈ {2, 4, p^m, 2p^m}` with the random candidates drawn from `rnd`
    (`primRootDet` above is its restriction to the four fixed candidates) -/
def primRoot (rnd : Nat → Int) (n : Int) : Option Int :=
  if n ≤ 4 then some (n - 1)
  else if n % 4 = 0 then some 0
  else
    let even := decide (n % 2 = 0)
    let no2 := if n % 2 = 0 then Int.tdiv n 2 else n
    match primeFactors no2 with
    | [] => none
    | p :: _ =>
      let phin := phi p
      let exps := (primeFactors phin).map (fun f => Int.tdiv phin f)
      (primRootCand rnd p exps).map (fun A => primRootFinish A p no2 even (decide (no2 = p)))

/-- `for(m = 0; b2k != 1; ++m) b2k = b2k*b2k % p` -/
def ordTwo : Nat → Int → Int → Nat → Option Nat
  | 0, _, _, _ => none
  | fuel + 1, b2k, p, m => if b2k = 1 then some m else ordTwo fuel (Int.tmod (b2k * b2k) p) p (m + 1)

/-- main loop of Tonelli–Shanks; state `(x, b, y, r)` -/
def tonelliLoop : Nat → Int → Int → Int → Int → Nat → Option Int
  | 0, _, _, _, _, _ => none
  | fuel + 1, p, x, b, y, r =>
    if b = 1 then some x else
    match ordTwo (r + 2) b p 0 with
    | none => none                      -- the inner loop of the C++ does not terminate (or m > r: negative shift)
    | some m =>
      if m = r then some (-1)
      else if m > r then none
      else
        let t := powmod y (2 ^ (r - m - 1)) p
        let y := Int.tmod (t * t) p
        let x := Int.tmod (x * t) p
        let b := Int.tmod (b * y) p
        tonelliLoop fuel p x b y m

/-- `for( ; (q & 1) == 0; ++e) q >>= 1` -/
def splitTwo : Nat → Int → Nat → Int × Nat
  | 0, q, e => (q, e)
  | fuel + 1, q, e => if q % 2 = 0 ∧ q ≠ 0 then splitTwo fuel (q / 2) (e + 1) else (q, e)

/-- `sqrootmodprime(x, a, p)`; `none`: a random search or a loop did not end within the fuel -/
def sqrootmodprime (rnd : Nat → Int) (a p : Int) : Option Int :=
  let amp := a % p
  if amp = 0 ∨ amp = 1 then some amp
  else if legendre amp p = -1 then some (-1)
  else if p % 4 = 3 then some (powmod amp ((p + 1) / 4).toNat p)
  else if p % 8 = 5 then
    let tmp := powmod amp ((p - 1) / 4).toNat p
    if tmp = 1 then some (powmod amp ((p + 3) / 8).toNat p)
    else
      let x := powmod (amp * 4) ((p - 5) / 8).toNat p
      some (Int.tmod (x * amp * 2) p)
  else if p % 16 = 9 then
    let i := amp * 2
    let x0 := powmod i ((p - 1) / 4).toNat p
    let s : Int := if x0 ≠ 1 then -1 else 1
    match firstDraw rnd (fun d => legendre d p != s) drawFuel 0 with
    | none => none
    | some d =>
      let i := i * d * d
      let x := powmod i ((p - 9) / 16).toNat p
      let i := Int.tmod (Int.tmod (i * x) p * x) p
      let i := i - 1
      let x := Int.tmod (x * d) p
      let x := Int.tmod (x * i) p
      some (Int.tmod (x * amp) p)
  else
    let (q, e) := splitTwo (p.natAbs.log2 + 2) (p - 1) 0
    match firstDraw rnd (fun g => legendre g p == -1) drawFuel 0 with
    | none => none
    | some g =>
      let z := powmod g q.toNat p
      let x := powmod amp ((q - 1) / 2).toNat p
      let b := Int.tmod (x * x * amp) p
      let x := Int.tmod (x * amp) p
      tonelliLoop (e + 2) p x b z e

/-- `sqrootonemorelift(x0, a, p, k, pk)` -/
def sqrootonemorelift (x0 a p pk : Int) : Int :=
  let u := a - x0 * x0
  let u := Int.tmod (Int.tdiv u pk) p
  if u = 0 then x0
  else
    let h := invmod (x0 * 2) p
    let h := Int.tmod (h * u) p
    x0 + h * pk

/-- `sqroothensellift(x, a, p, k, pk)` -/
def sqroothensellift (x a pk : Int) : Int :=
  let u := a - x * x
  if u = 0 then x
  else
    let u := Int.tdiv u pk
    let h := invmod (x * 2) pk
    let h := Int.tmod (h * u) pk
    x + h * pk

/-- loop of `sqrootlinear`: `for(i = 1; i < k; i++) { onemorelift(x,a,p,i,pk); pk *= p }` -/
def linearLoop (a p : Int) : Nat → Int → Int → Int
  | 0, x, _ => x
  | n + 1, x, pk => linearLoop a p n (sqrootonemorelift x a p pk) (pk * p)

/-- `sqrootlinear(x, a, p, k)` -/
def sqrootlinear (rnd : Nat → Int) (a p : Int) (k : Nat) : Option Int :=
  (sqrootmodprime rnd a p).map (fun x => if x = -1 then x else linearLoop a p (k - 1) x p)

/-- `for( ; (b % p) == 0; ++t) b /= p` -/
def stripP : Nat → Int → Int → Nat → Int × Nat
  | 0, b, _, t => (b, t)
  | fuel + 1, b, p, t => if Int.tmod b p = 0 ∧ b ≠ 0 then stripP fuel (Int.tdiv b p) p (t + 1) else (b, t)

/-- `sqrootmodprimepower(x, a, p, k, pk)`; fuel bounds the recursion depth (k halves; one extra level for `a = b p^t`) -/
def sqrootmodprimepower (rnd : Nat → Int) : Nat → Int → Int → Nat → Int → Option Int
  | 0, _, _, _, _ => none
  | fuel + 1, a, p, k, pk =>
    let tmpa := a % pk
    if tmpa = 0 then some 0
    else if tmpa = 1 then some 1
    else if k = 1 then sqrootmodprime rnd tmpa p
    else if Int.tmod tmpa p = 0 then
      let (b, t) := stripP (tmpa.natAbs.log2 + 2) tmpa p 0
      if t % 2 = 0 then
        match sqrootmodprimepower rnd fuel b p k pk with
        | none => none
        | some sqrtb =>
          if sqrtb = -1 then some (-1) else
          let x := powmod p (t / 2) pk
          some (Int.tmod (x * sqrtb) pk)
      else some (-1)
    else if k < 3 then sqrootlinear rnd a p k
    else
      let kdivtwo := k / 2
      if k % 2 = 1 then
        let sqpkdivp := p ^ kdivtwo
        match sqrootmodprimepower rnd fuel a p kdivtwo sqpkdivp with
        | none => none
        | some x =>
          if x = -1 then some x else
          let x := sqroothensellift x a sqpkdivp
          if x = -1 then some x else
          let pkdivp := Int.tdiv pk p
          some (sqrootonemorelift x a p pkdivp)
      else
        let sqpk := p ^ kdivtwo
        match sqrootmodprimepower rnd fuel a p kdivtwo sqpk with
        | none => none
        | some x =>
          if x = -1 then some (-1) else some (sqroothensellift x a sqpk)

def ppFuel (k : Nat) : Nat := 2 * k.log2 + 6

/-- `sqrootmodtwolift(x, a, k, pk)` -/
def sqrootmodtwolift (x a pk : Int) : Int :=
  let u := Int.tdiv (a - x * x) pk
  let pk1 := pk / 2
  let u := Int.tmod u pk1
  if u = 0 then x
  else
    let h := invmod x pk1
    let h := Int.tmod (h * u) pk1
    x + h * pk1

/-- loop of `sqroottwolinear`: `for(i = 4; i <= k; i++)` -/
def twoLinearLoop (a : Int) : Nat → Int → Int → Int → Int
  | 0, x, _, _ => x
  | n + 1, x, pk, pk2 =>
    let x := if Int.tmod (x * x) pk ≠ Int.tmod a pk then x + pk2 else x
    twoLinearLoop a n x (pk * 2) (pk / 2)

/-- `sqrootmodpoweroftwo(x, a, 3, 8)` -/
def sqrootmod8 (a : Int) : Int :=
  let tmpa := a % 8
  if tmpa = 0 then 0 else if tmpa = 1 then 1 else if tmpa = 4 then 2 else -1

/-- `sqroottwolinear(x, a, k)` -/
def sqroottwolinear (a : Int) (k : Nat) : Int :=
  let x := sqrootmod8 a
  if x = -1 ∨ k < 4 then x
  else twoLinearLoop a (k - 3) x 16 4

/-- `for( ; (b & 1) == 0; ++t) b >>= 1` -/
def stripTwo : Nat → Int → Nat → Int × Nat
  | 0, b, t => (b, t)
  | fuel + 1, b, t => if b % 2 = 0 ∧ b ≠ 0 then stripTwo fuel (b / 2) (t + 1) else (b, t)

/-- the part of the `k ≥ 29` branch of `sqrootmodpoweroftwo` after the recursive call returned `x`
    (`x0^2 = a mod 2^(k/2+1)`): quadratic lift, and for odd `k` the final correction by `2^(k-2)` -/
def twoBigFinish (x tmpa : Int) (k : Nat) (pk spk : Int) : Int :=
  if x = -1 then x else
  let x := sqrootmodtwolift x tmpa spk
  if k % 2 = 0 then x
  else
    if x = -1 then x else
    let u := Int.tmod (tmpa - x * x) pk
    if u = 0 then x else x + pk / 4

/-- `sqrootmodpoweroftwo(x, a, k, pk)` (deterministic) -/
def sqrootmodpoweroftwo : Nat → Int → Nat → Int → Option Int
  | 0, _, _, _ => none
  | fuel + 1, a, k, pk =>
    let tmpa := a % pk
    if k = 1 then some tmpa
    else if k = 2 then (if tmpa = 0 then some 0 else if tmpa = 1 then some 1 else some (-1))
    else if k = 3 then some (sqrootmod8 tmpa)
    else if tmpa = 0 then some 0
    else if tmpa = 1 then some 1
    else if tmpa % 2 = 0 then
      let (b, t) := stripTwo (tmpa.natAbs.log2 + 2) tmpa 0
      if t % 2 = 0 then
        match sqrootmodpoweroftwo fuel b k pk with
        | none => none
        | some x =>
          if x = -1 then some x else
          some (Int.tmod (x * 2 ^ (t / 2)) pk)
      else some (-1)
    else if k < 29 then some (sqroottwolinear tmpa k)
    else
      let k' := k / 2 + 1
      let spk : Int := 2 * 2 ^ (k / 2)
      match sqrootmodpoweroftwo fuel tmpa k' spk with
      | none => none
      | some x => some (twoBigFinish x tmpa k pk spk)

/-- `ComputeCk` + `RnsToMixedRadix` + `MixedRadixToRing` of `IntRNSsystem` (property C14), as used here:
    value `r_0 + p_0 (m_1 + p_1 (m_2 + …))` with `m_i = ((r_i - V_i) · ck_i) mod p_i` -/
def rnsGo : List (Int × Int) → Int → Int → Int
  | [], v, _ => v
  | (p, r) :: rest, v, prod =>
    let ck := invmod prod p
    let m := ((r - v) * ck) % p
    rnsGo rest (v + m * prod) (prod * p)
def rnsToRing (primes residues : List Int) : Int :=
  match primes.zip residues with
  | [] => 0
  | (p, r) :: rest => rnsGo rest r p

/-- `sqrootmod(x, a, n)` on the factor list `(p, e)` of `n`; the partial roots are recombined by CRT -/
def sqrootmodL (rnd : Nat → Int) (a : Int) (fs : List (Int × Nat)) : Option Int :=
  let pes := fs.map (fun pe => pe.1 ^ pe.2)
  let roots := fs.map (fun pe =>
    if pe.1 = 2 then sqrootmodpoweroftwo (ppFuel pe.2) a pe.2 (pe.1 ^ pe.2)
    else sqrootmodprimepower rnd (ppFuel pe.2) a pe.1 pe.2 (pe.1 ^ pe.2))
  if roots.any Option.isNone then none
  else
    let rs := roots.map (fun r => r.getD 0)
    if rs.any (· == -1) then some (-1)     -- `if (roots.back() == -1) return x = -1`
    else
      let x := rnsToRing pes rs
      some (if x < 0 then -x else x)

/-- Euclid loop of `Brillhart`: `while (a > s) { r = b; b = a; a = r mod b }` -/
def brillhartLoop (s : Int) : Nat → Int → Int → Int × Int
  | 0, a, b => (a, b)
  | fuel + 1, a, b => if a > s then brillhartLoop s fuel (b % a) a else (a, b)

/-- `Brillhart(a, b, p)` -/
def brillhart (rnd : Nat → Int) (p : Int) : Option (Int × Int) :=
  match sqrootmodprime rnd (p - 1) p with
  | none => none
  | some x =>
    let s := isqrt p
    let b := if x > p / 2 then p - x else x
    let a := p % b
    if a ≠ 1 then
      let (a, b) := brillhartLoop s (2 * p.natAbs.log2 + 8) a b
      some (b % a, a)
    else some (a, b)

/-- `sumofsquaresmodprimewithnonresidue(a, b, k, s, p)` -/
def sosqWithNonresidue (rnd : Nat → Int) (k s p : Int) : Option (Int × Int) :=
  match sqrootmodprime rnd (s - 1) p with
  | none => none
  | some b =>
    let il := invmod s p
    let r := (k * il) % p
    match sqrootmodprime rnd r p with
    | none => none
    | some a => some (a, Int.tmod (b * a) p)

/-- `for( ; legendre(lsnqr,p) != -1; ++lsnqr)` -/
def leastNonresidue (p : Int) : Nat → Int → Option Int
  | 0, _ => none
  | fuel + 1, s => if legendre s p = -1 then some s else leastNonresidue p fuel (s + 1)

/-- `sumofsquaresmodprimeDeterministic(a, b, k, p)` (= `sumofsquaresmodprime`) -/
def sosqDeterministic (rnd : Nat → Int) (k p : Int) : Option (Int × Int) :=
  let r := k % p
  if r = 0 then some (0, 0)
  else if legendre r p = 1 then (sqrootmodprime rnd r p).map (fun a => (a, 0))
  else
    let s := r - 1
    if legendre s p = 1 then (sqrootmodprime rnd s p).map (fun b => (1, b))
    else
      match leastNonresidue p drawFuel 2 with
      | none => none
      | some l => sosqWithNonresidue rnd r l p

end Givaro.Model.NumTheo
