/-
C12 — executable model of `IntFactorDom::Erathostene(Lf, p)` (givintfactor.inl): the sieve variant of the factorisation — strip the
factors 2, then walk `i = 3, …` over the unmarked odd numbers while `i ≤ ⌊√n⌋`, mark the odd multiples `3i, 5i, … ≤ n` in `Ip`,
detect `i | n` by "the last multiple marked is n itself", divide `i` out, and finally push what is left of `n`.
The C++ counters `i, j, ii` are `int`, `n` is `uint64_t` (= |p| mod 2^64): the model uses unbounded naturals, i.e. it is the code as
long as `n + 2√n < 2^31` (documented: "Valid for p < BOUNDARY_factor").  `Ip` is `new short[n+1]` zero-filled: `Array Bool`.
A read `Ip[j]` beyond the array (undefined in C++; it does not happen: there is an unmarked odd number — a prime — between i and 2i)
is `false` in the model.  Core Lean only.
-/
namespace Givaro.Model.Primes

/-- `while (j<=n) { Ip[j] = 1; j+=ii; }` — returns the array and the final `j` -/
def eratMark (ii n : Nat) : Nat → Array Bool → Nat → Array Bool × Nat
  | 0, ip, j => (ip, j)
  | fuel+1, ip, j => if j ≤ n then eratMark ii n fuel (ip.setIfInBounds j true) (j + ii) else (ip, j)

/-- `do n /= i; while (!(n%i));` -/
def eratStrip (i : Nat) : Nat → Nat → Nat
  | 0, n => n
  | fuel+1, n => let n' := n / i; if n' % i = 0 then eratStrip i fuel n' else n'

/-- `do n >>= 1; while (!(n & 0x1));`  — the same loop with i = 2 -/
def eratStrip2 (fuel n : Nat) : Nat := eratStrip 2 fuel n

/-- `while (Ip[++j]) { j++; }` entered with `j`; returns the new `i` (fuel = size of the array: beyond it every read is `false`) -/
def eratNext (ip : Array Bool) : Nat → Nat → Nat
  | 0, j => j + 1
  | fuel+1, j => if ip.getD (j + 1) false then eratNext ip fuel (j + 2) else j + 1

/-- the main `while (i<=sqrt(sq,Rep(n)))` loop; state `(i, n, Ip, Lf)` -/
def eratLoop : Nat → Nat → Nat → Array Bool → List Nat → Nat × Array Bool × List Nat
  | 0, _, n, ip, out => (n, ip, out)
  | fuel+1, i, n, ip, out =>
    if i ≤ Nat.sqrt n then
      let mj := eratMark (2 * i) n (n + 1) ip (i + 2 * i)            -- ii = i << 1; j = i + ii
      let no := if mj.2 - 2 * i = n then (eratStrip i n n, out ++ [i]) else (n, out)    -- if ((j-ii) == n)
      let i1 := eratNext mj.1 mj.1.size (i + 1)                        -- j = i+1; while (Ip[++j]) j++; i = j
      eratLoop fuel i1 no.1 mj.1 no.2
    else (n, ip, out)

/-- `Erathostene(Lf, p)` on an empty `Lf`: the list pushed -/
def erathostene (p : Int) : List Nat :=
  let n0 := p.natAbs % 18446744073709551616                          -- uint64_t n = (uint64_t)p
  if n0 = 0 then [] else
  let st := if n0 % 2 = 0 then ([2], eratStrip2 n0 n0) else ([], n0)
  let n := st.2
  let r := eratLoop (n + 1) 3 n (Array.replicate (n + 1) false) st.1
  if !(r.2.1.getD r.1 false) && decide (1 < r.1) then r.2.2 ++ [r.1] else r.2.2     -- if (!(Ip[n]) && (n>1)) push n

end Givaro.Model.Primes
