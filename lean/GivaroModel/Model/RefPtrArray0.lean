/-
C17 — `RefCountPtr<T>` read as the one-cell special case of `Array0<T>`: the Array0 operation each RefCountPtr operation
is, and the reading of an Array0 state of one-cell arrays as a RefCountPtr state.  Core Lean only.
-/
import GivaroModel.Model.Array0
import GivaroModel.Model.RefPtr
namespace Givaro.Model.Array0
open Givaro.Model

/-- the Array0 operation a RefCountPtr operation is (with the harness's guards) -/
def embed (s : State Nat) : RefPtr.Op → State Nat
  | .new k v => if (s.hs k).psz = 0 then step s (.build k 1 v) else s
  | .copy k j => if (s.hs k).psz ≠ 0 ∧ (s.hs j).psz = 0 then step s (.noCopy j k) else s
  | .assign k j => if (s.hs k).psz ≠ 0 ∧ (s.hs j).psz ≠ 0 then step s (.logcopy j k) else s
  | .del k => step s (.destroy k)

def erun (s : State Nat) (ops : List RefPtr.Op) : State Nat := ops.foldl embed s

/-- reading an Array0 state of one-cell arrays as a RefCountPtr state: object = data block = counter cell -/
def proj (s : State Nat) : RefPtr.St :=
  { slot := fun k => if (s.hs k).psz = 0 then none else (s.hs k).d, cnt := s.cval, alive := s.dlive,
    val := fun o => (s.ddata o).headD 0, next := s.dnext }

end Givaro.Model.Array0
