/-
C16 — domain objects are self-contained.  Two models (core Lean only):

1. `Hist`: the value-semantics machine the histories of harness/h_history.cpp are judged against: three slots, each empty or
   holding a domain object built from parameter set 0 or 1; construct / copy-construct / assign / self-assign / destroy / probe.
   What a probe must return is a function of the parameter set the slot holds and of nothing else.

2. `Share`: the reference-counted table sharing of `Modular<Log16>` (modular-log16.inl: copy constructor, operator=, destructor):
   a table block carries a counter `numRefs`; copies share the block.  The model mirrors the three special member functions as
   they are written (operator= with its early return on self-assignment).
-/
namespace Givaro.Model.Domain

/-! ### 1. value semantics of histories -/
inductive HOp where
  | new (k p : Nat)        -- N<k><p>
  | copy (k j : Nat)       -- C<k><j>   slot k := copy-construct(slot j)
  | assign (k j : Nat)     -- A<k><j>   slot k = slot j
  | selfassign (k : Nat)   -- S<k>
  | destroy (k : Nat)      -- D<k>
  | probe (k : Nat)        -- P<k>
deriving Repr, DecidableEq

abbrev Slots := List (Option Nat)      -- parameter set held by each slot

def Slots.get (s : Slots) (k : Nat) : Option Nat := (s.getD k none)
def Slots.set (s : Slots) (k : Nat) (v : Option Nat) : Slots := List.set s k v

/-- one step; the output is `some (k, p)` for a probe of slot k that must look like an isolated object with parameters p -/
def hstep (s : Slots) : HOp → Slots × Option (Nat × Nat)
  | .new k p => (s.set k (some p), none)
  | .copy k j => (s.set k (s.get j), none)
  | .assign k j => (match s.get k, s.get j with
      | some _, some pj => s.set k (some pj)
      | _, _ => s, none)
  | .selfassign _ => (s, none)
  | .destroy k => (s.set k none, none)
  | .probe k => (s, (s.get k).map (fun p => (k, p)))

def hrun (s : Slots) : List HOp → Slots × List (Nat × Nat)
  | [] => (s, [])
  | op :: rest =>
    let (s1, o) := hstep s op
    let (s2, os) := hrun s1 rest
    (s2, o.toList ++ os)

def initSlots : Slots := [none, none, none]

/-- expected observations of a whole history: the probes met on the way, then one probe per live slot at the end -/
def expected (ops : List HOp) : List (Nat × Nat) :=
  let (s, os) := hrun initSlots ops
  os ++ (([0, 1, 2].filterMap (fun k => (s.get k).map (fun p => (k, p)))))

/-! ### 2. reference-counted sharing (Modular<Log16>) -/
structure Block where
  refs  : Nat
  freed : Bool
deriving Repr, DecidableEq

structure Share where
  blocks : List Block            -- heap of table blocks, indexed by position
  slots  : List (Option Nat)     -- which block each live object points to
deriving Repr, DecidableEq

def Share.block (s : Share) (b : Nat) : Block := s.blocks.getD b ⟨0, true⟩
def Share.slot (s : Share) (k : Nat) : Option Nat := s.slots.getD k none

/-- `(*numRefs)--; if (*numRefs == 0) delete …` -/
def release (bs : List Block) (b : Nat) : List Block :=
  let blk := bs.getD b ⟨0, true⟩
  let r := blk.refs - 1
  bs.set b ⟨r, blk.freed || r == 0⟩

def acquire (bs : List Block) (b : Nat) : List Block :=
  let blk := bs.getD b ⟨0, true⟩
  bs.set b ⟨blk.refs + 1, blk.freed⟩

inductive SOp where
  | new (k : Nat) | copy (k j : Nat) | assign (k j : Nat) | destroy (k : Nat)
deriving Repr, DecidableEq

/-- the special member functions as written (assign k k is the self-assignment: early return) -/
def sstep (s : Share) : SOp → Share
  | .new k => { blocks := s.blocks ++ [⟨1, false⟩], slots := s.slots.set k (some s.blocks.length) }
  | .copy k j => match s.slot j with
      | some b => { blocks := acquire s.blocks b, slots := s.slots.set k (some b) }
      | none => s
  | .assign k j =>
      if k = j then s else
      match s.slot k, s.slot j with
      | some bk, some bj => { blocks := acquire (release s.blocks bk) bj, slots := s.slots.set k (some bj) }
      | _, _ => s
  | .destroy k => match s.slot k with
      | some b => { blocks := release s.blocks b, slots := s.slots.set k none }
      | none => s

/-- the same machine with the self-assignment test removed (the code before the repair) -/
def sstepNoGuard (s : Share) : SOp → Share
  | .assign k j =>
      match s.slot k, s.slot j with
      | some bk, some bj => { blocks := acquire (release s.blocks bk) bj, slots := s.slots.set k (some bj) }
      | _, _ => s
  | op => sstep s op

def srun (step : Share → SOp → Share) (s : Share) (ops : List SOp) : Share := ops.foldl step s

def initShare : Share := { blocks := [], slots := [none, none, none] }

/-- number of live objects pointing to block b -/
def sharers (s : Share) (b : Nat) : Nat := s.slots.count (some b)

/-- the invariant: every counter equals the number of sharers, a block is freed exactly when nobody shares it,
    every live object points to an existing block -/
def SInv (s : Share) : Prop :=
  (∀ b, b < s.blocks.length → (s.block b).refs = sharers s b ∧ ((s.block b).freed = true ↔ sharers s b = 0))
  ∧ (∀ k b, s.slot k = some b → b < s.blocks.length)

/-- a legal operation: sources are live, `new`/`copy` targets are empty, slots exist -/
def legal (s : Share) : SOp → Prop
  | .new k => k < s.slots.length ∧ s.slot k = none
  | .copy k j => k < s.slots.length ∧ s.slot k = none ∧ (s.slot j).isSome
  | .assign k j => k < s.slots.length ∧ (s.slot k).isSome ∧ (s.slot j).isSome
  | .destroy k => k < s.slots.length ∧ (s.slot k).isSome

instance (s : Share) (op : SOp) : Decidable (legal s op) := by
  cases op <;> unfold legal <;> infer_instance

/-- a history every operation of which is legal in the state it is executed in -/
def legalRun (s : Share) : List SOp → Prop
  | [] => True
  | op :: rest => legal s op ∧ legalRun (sstep s op) rest

instance legalRunDecidable : (s : Share) → (ops : List SOp) → Decidable (legalRun s ops)
  | _, [] => isTrue trivial
  | s, op :: rest =>
    have := legalRunDecidable (sstep s op) rest
    inferInstanceAs (Decidable (legal s op ∧ legalRun (sstep s op) rest))

/-- the consequence of the invariant the C++ relies on: a live object never points to a freed block -/
def noDangling (s : Share) : Prop := ∀ k b, s.slot k = some b → (s.block b).freed = false

end Givaro.Model.Domain
