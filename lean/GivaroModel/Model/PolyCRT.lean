/-
C08 — executable model of `Poly1CRT<Field>` (givpoly1crt.h, givpoly1crtcstor.inl, givpoly1crtconvert.inl): Chinese remaindering
of a polynomial from its values at the points `_primes[i]` (moduli `X - _primes[i]`), core Lean only.

`ComputeCk` builds `prod = Π_{j<k} (X - primes[j])` and `ck[k] = prod / prod(primes[k])`; `RnsToRing` then adds
`(rns[i] - I(primes[i])) · ck[i]` for `i = 1, 2, …`.  The two loops are run here side by side (the reciprocals do not
depend on the residues, and `ck[Size]` is not used by `RnsToRing`).
-/
import GivaroModel.Model.Poly

namespace Givaro.Model.PolyCRT
open Givaro.Model.Poly

variable {K : Type} [Zero K] [One K] [Add K] [Sub K] [Neg K] [Mul K] [Div K] [Inv K] [DecidableEq K]

/-- rounds `k = 1, 2, …`: `prev = primes[k-1]`, `(p, r) = (primes[k], rns[k])` -/
def loop (thr : Nat) : List K → List K → K → List (K × K) → List K
  | _, I, _, [] => I
  | prod, I, prev, (p, r) :: rest =>
    let prod1 := mulin thr prod [-prev, 1]            -- irred = X - primes[k-1]; mulin(prod, irred)
    let invC := (Givaro.Model.Poly.eval prod1 p)⁻¹    -- eval(invC, prod, primes[k]); invin(invC)
    let ck := mulVal prod1 invC                       -- mul(ck[k], prod, invC)
    let addon := -(Givaro.Model.Poly.eval I p) + r    -- eval(addon, I, primes[i]); negin(addon); addin(addon, rns[i])
    loop thr prod1 (axpyinVal addon I ck) p rest      -- axpyin(I, addon, ck[i])

/-- `RnsToRing(I, rns)` of an object built on `primes` (both non-empty, same length) -/
def rnsToRing (thr : Nat) (primes rns : List K) : List K :=
  match primes, rns with
  | p0 :: ps, r0 :: rs => loop thr [1] (assignC r0) p0 (ps.zip rs)   -- init(prod, Degree(0)); assign(I, Degree(0), rns[0])
  | _, _ => []

/-- `RingToRns(rns, a)` -/
def ringToRns (primes : List K) (a : List K) : List K := primes.map (fun p => Givaro.Model.Poly.eval a p)

end Givaro.Model.PolyCRT
