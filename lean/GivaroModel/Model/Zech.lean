/-
C05 — model of `GFqDom<TT>` (src/kernel/field/gfq.h, gfq.inl): the Zech-logarithm arithmetic.

Representation used by the code: an element is a machine word `Rep = TT`;
  `0`            is the field's zero,
  `i ∈ [1, q-1]` is `γ^i` (γ the generator; `one = q-1`, `mOne = (q-1)/2`, or `q-1` when p = 2),
and three tables `_log2pol[i]` (p-adic code of γ^i), `_pol2log` (its inverse) and
`_plus1[i] = log(γ^i + 1) - (q-1)` (0 when γ^i + 1 = 0).

Every definition below transcribes one macro / member function of gfq.inl branch by branch
(non-`__GIVARO_COUNT__` variant, which is the one compiled).  Words are `Int` *without* wrap-around: with
canonical operands every intermediate of these macros lies in `[3 - 3q, 2q - 2]`, inside `int32_t` for
`q ≤ 65536 = GFqDom<int32_t>::maxCardinality()` and inside `int64_t` for `q ≤ 2^32`, so the
`(TT)`/`(Rep)` conversions are the identity there.  This range argument is *not* a Lean theorem (it is listed
under "modelled, not verified"); the harness runs the real code under UBSan at q = maxCardinality().
The table `_plus1` is a parameter `pl : Int → Int` (`(plun)[(UT)(c)]`).
Core Lean only: linked into the driver.
-/
namespace Givaro.Model.Zech

/-- `(c) = ((c)>0)?(c):(c)+(TT)(mun)` -/
@[inline] def wrapPos (mun c : Int) : Int := if c > 0 then c else c + mun

/-- `_GIVARO_GFQ_ADD(c, a, b, mun, plun)` — gfq.inl:28 -/
def ADD (mun : Int) (pl : Int → Int) (a b : Int) : Int :=
  if b = 0 then a else if a = 0 then b else
    let c := a - b
    let c := if c > 0 then c else c + mun
    let c := pl c
    if c ≠ 0 then
      let c := c + b
      if c > 0 then c else c + mun
    else c

/-- `_GIVARO_GFQ_NEG(res, a, mo, mun)` — gfq.inl:37 -/
def NEG (mo mun : Int) (a : Int) : Int :=
  if a = 0 then 0 else
    let r := a - mo
    if r > 0 then r else r + mun

/-- `_GIVARO_GFQ_SUB(c, a, b, mo, mun, plun)`  (c := a - b) — gfq.inl:42 -/
def SUB (mo mun : Int) (pl : Int → Int) (a b : Int) : Int :=
  if a = 0 then NEG mo mun b else if b = 0 then a else
    let c := b - a - mo
    let c := if c > 0 then c else c + mun
    let c := if c > 0 then c else c + mun
    let c := pl c
    if c ≠ 0 then
      let c := c + a
      if c > 0 then c else c + mun
    else c

/-- `_GIVARO_GFQ_AUTOSUB(c, b, mo, mun, plun)`  (c := c - b) — gfq.inl:51 -/
def AUTOSUB (mo mun : Int) (pl : Int → Int) (c b : Int) : Int :=
  if c = 0 then NEG mo mun b else if b ≠ 0 then
    let c := c - b - mo
    let c := if c > 0 then c else c + mun
    let c := if c > 0 then c else c + mun
    let c := pl c
    if c ≠ 0 then
      let c := c + b
      let c := if c > 0 then c - mo else c + mo
      if c > 0 then c else c + mun
    else c
  else c

/-- `_GIVARO_GFQ_MUL(res, a, b, mun)` — gfq.inl:64 -/
def MUL (mun : Int) (a b : Int) : Int :=
  if a = 0 ∨ b = 0 then 0 else
    let r := a + b
    if r > mun then r - mun else r

/-- `_GIVARO_GFQ_INV(res, a, mun)` — gfq.inl:67 -/
def INV (mun : Int) (a : Int) : Int :=
  let r := mun - a
  if r ≠ 0 then r else mun

/-- `_GIVARO_GFQ_DIV(res, a, b, mun)` — gfq.inl:69 -/
def DIV (mun : Int) (a b : Int) : Int :=
  if a = 0 then 0 else
    let r := a - b
    if r > 0 then r else r + mun

/-- `_GIVARO_GFQ_SQ(res, a, mun)` — gfq.inl:74 (no member function uses it) -/
def SQ (mun : Int) (a : Int) : Int :=
  if a = 0 then 0 else
    let r := 2 * a - mun
    if r > 0 then r else r + mun

/-- `_GIVARO_GFQ_MULADD(c,a1,a2,b,mun,plun)`  (c := a1*a2 + b) — gfq.inl:91 -/
def MULADD (mun : Int) (pl : Int → Int) (a1 a2 b : Int) : Int :=
  if a1 = 0 ∨ a2 = 0 then b
  else if b = 0 then
    let c := a1 + a2 - mun
    if c > 0 then c else c + mun
  else
    let c := a1 + a2 - b - mun
    let c := if c < 0 then c + mun else c
    let c := pl (if c > 0 then c else c + mun)
    if c ≠ 0 then
      let c := c + b
      if c > 0 then c else c + mun
    else c

/-- `_GIVARO_GFQ_MULSUB(c,a1,a2,b,mo,mun,plun)`  (c := b - a1*a2) — gfq.inl:104 (no member function uses it) -/
def MULSUB (mo mun : Int) (pl : Int → Int) (a1 a2 b : Int) : Int :=
  if a1 = 0 ∨ a2 = 0 then b
  else if b = 0 then
    let c := a1 + a2 - mo - mun
    let c := if c > 0 then c else c + mun
    if c > 0 then c else c + mun
  else
    let c := a1 + a2 - b - mun - mo
    let c := if c < 0 then c + mun else c
    let c := if c < 0 then c + mun else c
    let c := pl (if c > 0 then c else c + mun)
    if c ≠ 0 then
      let c := c + b
      if c > 0 then c else c + mun
    else c

/-! ### the field object: what the member functions read -/

/-- The data members of a `GFqDom` the arithmetic reads: `_qm1`, `mOne`, `_plus1`. -/
structure Dom where
  mun : Int
  mo : Int
  pl : Int → Int

namespace Dom
variable (F : Dom)

-- scalar member functions, gfq.inl:293-423 (a reference destination becomes the returned value)
def mul (a b : Int) : Int := MUL F.mun a b
def mulin (r a : Int) : Int := MUL F.mun r a
def div (a b : Int) : Int := DIV F.mun a b
def divin (r a : Int) : Int := DIV F.mun r a
def add (a b : Int) : Int := ADD F.mun F.pl a b
def addin (r a : Int) : Int := ADD F.mun F.pl r a
def sub (a b : Int) : Int := SUB F.mo F.mun F.pl a b
def subin (r a : Int) : Int := AUTOSUB F.mo F.mun F.pl r a
def neg (a : Int) : Int := NEG F.mo F.mun a
def negin (r : Int) : Int := NEG F.mo F.mun r
def inv (a : Int) : Int := INV F.mun a
def invin (r : Int) : Int := INV F.mun r
/-- `axpy(r,a,b,c)`: r := a*b + c -/
def axpy (a b c : Int) : Int := MULADD F.mun F.pl a b c
/-- `axpyin(r,a,b)`: `Rep tmp = r; MULADD(r,a,b,tmp)` -/
def axpyin (r a b : Int) : Int := let tmp := r; MULADD F.mun F.pl a b tmp
/-- `maxpyin(r,a,b)`: `MUL(tmp,a,b); AUTOSUB(r,tmp)` : r := r - a*b -/
def maxpyin (r a b : Int) : Int := let tmp := MUL F.mun a b; AUTOSUB F.mo F.mun F.pl r tmp
/-- `axmyin(r,a,b)`: `maxpyin(r,a,b); negin(r)` : r := a*b - r -/
def axmyin (r a b : Int) : Int := F.negin (F.maxpyin r a b)
/-- `axmy(r,a,b,c)`: `MUL(r,a,b); AUTOSUB(r,c)` : r := a*b - c -/
def axmy (a b c : Int) : Int := let r := MUL F.mun a b; AUTOSUB F.mo F.mun F.pl r c
/-- `maxpy(r,a,b,c)`: `MUL(r,a,b); SUB(r,c,r)` : r := c - a*b -/
def maxpy (a b c : Int) : Int := let r := MUL F.mun a b; SUB F.mo F.mun F.pl c r

end Dom

/-! ### element-wise array forms (gfq.inl:427-560)

An array is a function `Nat → Int`; the destination is threaded through the loop.  `body i r` is the
value the loop body stores in `r[i]` (it may read the current `r`, for the in-place forms). -/

def upd (r : Nat → Int) (i : Nat) (v : Int) : Nat → Int := fun j => if j = i then v else r j

/-- `for (size_t i = sz; i--; ) { r[i] = body }` — the loop header of the array forms after repair
    C05_1 (and of `assign(sz, r, a)` in the pinned tree): runs `i = sz-1, …, 0`. -/
def arrLoop (body : Nat → (Nat → Int) → Int) : Nat → (Nat → Int) → (Nat → Int)
  | 0, r => r
  | i + 1, r => arrLoop body i (upd r i (body i r))

/-- runs `i = n, n-1, …, 1` -/
def arrLoopFrom1 (body : Nat → (Nat → Int) → Int) : Nat → (Nat → Int) → (Nat → Int)
  | 0, r => r
  | i + 1, r => arrLoopFrom1 body i (upd r (i + 1) (body (i + 1) r))

/-- `for (size_t i = sz; --i; ) { r[i] = body }` — the loop header of the pinned tree (snapshot 38246e6):
    for `sz ≥ 1` it runs `i = sz-1, …, 1` and never touches index 0; for `sz = 0` the pre-decrement wraps to
    `SIZE_MAX` and the loop runs off the arrays (`none`). -/
def arrLoopPinned (body : Nat → (Nat → Int) → Int) (sz : Nat) (r : Nat → Int) : Option (Nat → Int) :=
  if sz = 0 then none else some (arrLoopFrom1 body (sz - 1) r)

namespace Dom
variable (F : Dom)
-- the sixteen array member functions; `a b x y` are the source arrays, `s` a scalar operand
def mulVV (sz : Nat) (r a b : Nat → Int) := arrLoop (fun i _ => MUL F.mun (a i) (b i)) sz r
def mulVS (sz : Nat) (r a : Nat → Int) (s : Int) := arrLoop (fun i _ => MUL F.mun (a i) s) sz r
def divVV (sz : Nat) (r a b : Nat → Int) := arrLoop (fun i _ => DIV F.mun (a i) (b i)) sz r
def divVS (sz : Nat) (r a : Nat → Int) (s : Int) := arrLoop (fun i _ => DIV F.mun (a i) s) sz r
def addVV (sz : Nat) (r a b : Nat → Int) := arrLoop (fun i _ => ADD F.mun F.pl (a i) (b i)) sz r
def addVS (sz : Nat) (r a : Nat → Int) (s : Int) := arrLoop (fun i _ => ADD F.mun F.pl (a i) s) sz r
def subVV (sz : Nat) (r a b : Nat → Int) := arrLoop (fun i _ => SUB F.mo F.mun F.pl (a i) (b i)) sz r
def subVS (sz : Nat) (r a : Nat → Int) (s : Int) := arrLoop (fun i _ => SUB F.mo F.mun F.pl (a i) s) sz r
def negV (sz : Nat) (r a : Nat → Int) := arrLoop (fun i _ => NEG F.mo F.mun (a i)) sz r
def invV (sz : Nat) (r a : Nat → Int) := arrLoop (fun i _ => INV F.mun (a i)) sz r
def axpyVV (sz : Nat) (r : Nat → Int) (s : Int) (x y : Nat → Int) :=
  arrLoop (fun i _ => MULADD F.mun F.pl s (x i) (y i)) sz r
def axpyVS (sz : Nat) (r : Nat → Int) (s : Int) (x : Nat → Int) (c : Int) :=
  arrLoop (fun i _ => MULADD F.mun F.pl s (x i) c) sz r
/-- `tmp = r[i]; MULADD(r[i], a, x[i], tmp)` -/
def axpyinV (sz : Nat) (r : Nat → Int) (s : Int) (x : Nat → Int) :=
  arrLoop (fun i r => let tmp := r i; MULADD F.mun F.pl s (x i) tmp) sz r
def axmyVV (sz : Nat) (r : Nat → Int) (s : Int) (x y : Nat → Int) :=
  arrLoop (fun i _ => let t := MUL F.mun s (x i); AUTOSUB F.mo F.mun F.pl t (y i)) sz r
def axmyVS (sz : Nat) (r : Nat → Int) (s : Int) (x : Nat → Int) (c : Int) :=
  arrLoop (fun i _ => let t := MUL F.mun s (x i); AUTOSUB F.mo F.mun F.pl t c) sz r
/-- `MUL(tmp, a, x[i]); AUTOSUB(r[i], tmp)` -/
def maxpyinV (sz : Nat) (r : Nat → Int) (s : Int) (x : Nat → Int) :=
  arrLoop (fun i r => let tmp := MUL F.mun s (x i); AUTOSUB F.mo F.mun F.pl (r i) tmp) sz r

/-- the inner loop of `dotprod`: `for (int i = (int)sz; --i; ) { MUL(tmp,a[i],b[i]); ADD(r,r,tmp) }`
    started at `i = n+1`, i.e. visiting `n, n-1, …, 1` -/
def dotLoop (a b : Nat → Int) : Nat → Int → Int
  | 0, r => r
  | i + 1, r => dotLoop a b i (ADD F.mun F.pl r (MUL F.mun (a (i + 1)) (b (i + 1))))

/-- `dotprod(r, sz, a, b)` — gfq.inl:905.  The loop counter is `int i = (int)sz`: for `sz ≥ 2^31` the
    conversion leaves the counter non-positive and the loop indexes below the arrays (`none`). -/
def dotprod (sz : Nat) (a b : Nat → Int) : Option Int :=
  if sz = 0 then some 0
  else if sz < 2147483648 then some (F.dotLoop a b (sz - 1) (MUL F.mun (a 0) (b 0)))
  else none

end Dom

/-! ### GF2 (gf2.h / gf2.inl): `bool` operations; the `BitReference` overloads have the same bodies -/
namespace GF2
def add (y z : Bool) : Bool := y ^^ z
def sub (y z : Bool) : Bool := y ^^ z
def mul (y z : Bool) : Bool := y && z
def div (y _z : Bool) : Bool := y
def neg (y : Bool) : Bool := y
def inv (y : Bool) : Bool := y
def axpy (a x y : Bool) : Bool := (a && x) ^^ y
def axmy (a x y : Bool) : Bool := (a && x) ^^ y
def maxpy (a x y : Bool) : Bool := (a && x) ^^ y
def axpyin (r a x : Bool) : Bool := r ^^ (a && x)
def axmyin (r a x : Bool) : Bool := r ^^ (a && x)
def maxpyin (r a x : Bool) : Bool := r ^^ (a && x)
end GF2

end Givaro.Model.Zech

/-! ### word-level variant

The same macros with every conversion of the C++ written out: `w` is the conversion to `TT = Rep` (`wrapS32` for
`GFqDom<int32_t>`, `wrapS64` for `GFqDom<int64_t>`), applied to `(TT)(mun)`, `(Rep)(mo)` and to the result of every
arithmetic operation computed in `TT` (signed overflow, undefined in C++, is given its two's-complement meaning).
`Props.C05.word_level_macros_agree` proves that for canonical operands these definitions coincide with the plain
`Int` ones above whenever the word type holds `[-4(q-1), 4(q-1)]`. -/
namespace Givaro.Model.Zech.Word
variable (w : Int → Int)
/-- `(c) = ((c)>0)?(c):(c)+(TT)(mun)` with the conversions: `(TT)(mun)` and the sum computed in `TT` -/
def wp (mun c : Int) : Int := if c > 0 then c else w (c + w mun)
/-- `(c) = (plun)[(UT)(c)]; if (c) { (c) = (c)+(b); (c) = ((c)>0)?(c):(c)+(TT)(mun); }` -/
def tl (mun : Int) (pl : Int → Int) (x b : Int) : Int :=
  let c := w (pl x)
  if c ≠ 0 then wp w mun (w (c + b)) else c
def ADD (mun : Int) (pl : Int → Int) (a b : Int) : Int :=
  if b = 0 then a else if a = 0 then b else tl w mun pl (wp w mun (w (a - b))) b
def NEG (mo mun a : Int) : Int := if a = 0 then 0 else wp w mun (w (a - w mo))
def SUB (mo mun : Int) (pl : Int → Int) (a b : Int) : Int :=
  if a = 0 then NEG w mo mun b else if b = 0 then a else
    tl w mun pl (wp w mun (wp w mun (w (w (b - a) - w mo)))) a
def AUTOSUB (mo mun : Int) (pl : Int → Int) (c b : Int) : Int :=
  if c = 0 then NEG w mo mun b else if b ≠ 0 then
    let y := w (pl (wp w mun (wp w mun (w (w (c - b) - w mo)))))
    if y ≠ 0 then
      let y := w (y + b)
      let y := if y > 0 then w (y - w mo) else w (y + w mo)
      wp w mun y
    else y
  else c
def MUL (mun a b : Int) : Int :=
  if a = 0 ∨ b = 0 then 0 else
    let r := w (a + b)
    if r > w mun then w (r - w mun) else r
def INV (mun a : Int) : Int :=
  let r := w (w mun - a)
  if r ≠ 0 then r else w mun
def DIV (mun a b : Int) : Int := if a = 0 then 0 else wp w mun (w (a - b))
def MULADD (mun : Int) (pl : Int → Int) (a1 a2 b : Int) : Int :=
  if a1 = 0 ∨ a2 = 0 then b
  else if b = 0 then wp w mun (w (w (a1 + a2) - w mun))
  else
    let c := w (w (w (a1 + a2) - b) - w mun)
    let c := if c < 0 then w (c + w mun) else c
    tl w mun pl (wp w mun c) b

/-- the member functions of gfq.inl over the word-level macros (`F` = the data members read) -/
structure WDom where
  F : Dom
  w : Int → Int
namespace WDom
variable (D : WDom)
def mul (a b : Int) : Int := MUL D.w D.F.mun a b
def mulin (r a : Int) : Int := MUL D.w D.F.mun r a
def div (a b : Int) : Int := DIV D.w D.F.mun a b
def divin (r a : Int) : Int := DIV D.w D.F.mun r a
def add (a b : Int) : Int := ADD D.w D.F.mun D.F.pl a b
def addin (r a : Int) : Int := ADD D.w D.F.mun D.F.pl r a
def sub (a b : Int) : Int := SUB D.w D.F.mo D.F.mun D.F.pl a b
def subin (r a : Int) : Int := AUTOSUB D.w D.F.mo D.F.mun D.F.pl r a
def neg (a : Int) : Int := NEG D.w D.F.mo D.F.mun a
def negin (r : Int) : Int := NEG D.w D.F.mo D.F.mun r
def inv (a : Int) : Int := INV D.w D.F.mun a
def invin (r : Int) : Int := INV D.w D.F.mun r
def axpy (a b c : Int) : Int := MULADD D.w D.F.mun D.F.pl a b c
def axpyin (r a b : Int) : Int := let tmp := r; MULADD D.w D.F.mun D.F.pl a b tmp
def maxpyin (r a b : Int) : Int := let tmp := MUL D.w D.F.mun a b; AUTOSUB D.w D.F.mo D.F.mun D.F.pl r tmp
def axmyin (r a b : Int) : Int := D.negin (D.maxpyin r a b)
def axmy (a b c : Int) : Int := let r := MUL D.w D.F.mun a b; AUTOSUB D.w D.F.mo D.F.mun D.F.pl r c
def maxpy (a b c : Int) : Int := let r := MUL D.w D.F.mun a b; SUB D.w D.F.mo D.F.mun D.F.pl c r
end WDom
end Givaro.Model.Zech.Word
