/-
C18 — const use of a shared domain object from several threads.  A small model of shared-memory executions (core Lean only):
shared memory is a map from locations to values; an operation reads the shared memory, returns a result and a list of stores
to shared locations; a schedule is any sequence of (thread, operation) pairs -- every interleaving of the threads' programs is
such a sequence.  Thread-private state lives inside the operations (it is not shared memory).
-/
namespace Givaro.Model.Threads

abbrev Mem := Nat → Int

structure Op where
  /-- what the operation does with the shared memory: stores to shared locations and the result it returns -/
  run : Mem → List (Nat × Int) × Int

def store (m : Mem) (ws : List (Nat × Int)) : Mem :=
  ws.foldl (fun acc w => fun l => if l = w.1 then w.2 else acc l) m

/-- an operation is read-only when it never stores to shared memory (its footprint has no shared write) -/
def Op.readOnly (o : Op) : Prop := ∀ m, (o.run m).1 = []

/-- run a schedule: final shared memory and the result obtained by each step, tagged with its thread -/
def exec (m : Mem) : List (Nat × Op) → Mem × List (Nat × Int)
  | [] => (m, [])
  | (t, o) :: rest =>
    let r := o.run m
    let (m', out) := exec (store m r.1) rest
    (m', (t, r.2) :: out)

/-- the results thread `t` obtains, in program order -/
def resultsOf (t : Nat) (out : List (Nat × Int)) : List Int := (out.filter (·.1 == t)).map (·.2)

/-- the program of thread `t` inside a schedule -/
def programOf (t : Nat) (sched : List (Nat × Op)) : List Op := (sched.filter (·.1 == t)).map (·.2)

/-- two steps of different threads conflict when one of them stores to a location (read-only steps never conflict):
    a data race needs a conflicting pair, so a schedule with no storing step has none -/
def hasSharedWrite (m : Mem) (sched : List (Nat × Op)) : Prop :=
  ∃ s ∈ sched, ∃ m' : Mem, (s.2.run m').1 ≠ []

end Givaro.Model.Threads
