/-
C12 — executable model of the Monte-Carlo tests `IntPrimeDom::Miller`, `test_Lehmann`, `Lehmann` (givintprime.inl) as functions of
the base they draw.  The draw itself is `random(g,a,n-3); addin(a,2)` resp. `random(g,A,n-1); addin(A,1)`:
`IntegerDom::random(g,r,b)` ignores `g` and is `mpz_urandomm(r, Integer::randstate(), b)`, a value in `[0, b)`; the models below take
that raw draw `u` (`millerDraw`, `lehmannDraw`) or the base itself.  `powmod` is `mpz_powm` (`Prim/Gmp.lean: powModNat`).
Core Lean only.
-/
import GivaroModel.Prim.Gmp
namespace Givaro.Model.Primes
open Givaro

/-- `for( ; !((int)t & 0x1) ; t>>=1, ++s) { }` — `(int)t` keeps the low bits of the positive `t`, so the test is `t` even.
    Fuel-bounded (the C++ loop does not end for t = 0; `Miller` only gets there with t = n-1 ≥ 3). Returns `(t, s)`. -/
def millerSplit : Nat → Nat → Nat → Nat × Nat
  | 0, t, s => (t, s)
  | fuel+1, t, s => if t % 2 = 1 then (t, s) else millerSplit fuel (t / 2) (s + 1)

/-- `for(;--s>0;) { q = (q*q) % n; if (q == (n-1)) return 1; } return 0;`   (first argument: `s` on entry) -/
def millerSquares (n : Nat) : Nat → Nat → Int
  | 0, _ => 0
  | 1, _ => 0
  | s+2, q => let q' := q * q % n; if q' = n - 1 then 1 else millerSquares n (s + 1) q'

/-- `IntPrimeDom::Miller(g, n)` with the base `a` it drew -/
def millerBase (n a : Int) : Int :=
  if n < 2 then 0 else
  if n ≤ 3 then 1 else
  let N := n.toNat
  let ts := millerSplit N (N - 1) 0
  let q := powModNat a.toNat ts.1 N
  if q = 1 ∨ q = N - 1 then 1 else millerSquares N ts.2 q

/-- the base drawn: `random(g,a,n-3)` gives `u ∈ [0, n-3)`, then `addin(a,2)` -/
def millerDraw (u : Int) : Int := u + 2
/-- `Miller(g, n)` as a function of the raw draw `u = mpz_urandomm(n-3)` -/
def miller (n u : Int) : Int := millerBase n (millerDraw u)

/-- `test_Lehmann(g, r, n)` with the base `A` it drew: `powmod(r, A, (n-1)/2, n)` -/
def testLehmannBase (n A : Int) : Int := (powModNat A.toNat (Int.tdiv (n - 1) 2).toNat n.toNat : Nat)

/-- `Lehmann(g, n)` with the base `A` drawn by `test_Lehmann` -/
def lehmannBase (n A : Int) : Int :=
  if n < 2 then 0 else
  if n ≤ 3 then 1 else
  if testLehmannBase n A = n - 1 then 1 else 0

/-- the base drawn: `random(g,A,n-1)` gives `u ∈ [0, n-1)`, then `addin(A,1)` -/
def lehmannDraw (u : Int) : Int := u + 1
def testLehmann (n u : Int) : Int := testLehmannBase n (lehmannDraw u)
def lehmann (n u : Int) : Int := lehmannBase n (lehmannDraw u)

end Givaro.Model.Primes
