/- C01 (part 2) driver: judges the lines of harness/h_integer_x.cpp with the hand transcriptions of Model/IntegerExtra.lean
   (whose meaning is proved in Props/C01Extra.lean).  The transcription IS the contract here, so a disagreement is kind=BOTH. -/
import Driver.Common
import GivaroModel.Model.IntegerExtra
-- @driver-mode integer_x Driver.IntegerX.integerXLine
namespace Driver.IntegerX
open Driver Givaro.Model.IntegerExtra

def parseRel : String → Option Rel
  | "eq" => some .eq | "ne" => some .ne | "lt" => some .lt | "le" => some .le | "gt" => some .gt | "ge" => some .ge | _ => none

/-- ⌊x^(1/k)⌋ by bisection -/
partial def irootGo (x k lo hi : Nat) : Nat :=
  if hi ≤ lo + 1 then lo else
  let mid := (lo + hi) / 2
  if mid ^ k ≤ x then irootGo x k mid hi else irootGo x k lo mid
def iroot (x k : Nat) : Nat := irootGo x k 0 (2 ^ (x.log2 / k + 1) + 1)

/-- GMP's definition: a = b^k for integers b and k > 1; 0 and 1 are perfect powers; negative a only with odd k -/
def isPerfectPower (a : Int) : Bool :=
  let n := a.natAbs
  if n ≤ 1 then true else
  (List.range (n.log2 + 1)).any (fun i =>
    let k := i + 2
    (a ≥ 0 || k % 2 == 1) && (iroot n k) ^ k == n)

/-- number of digits of |a| in base b (1 for a = 0, as mpz_sizeinbase) -/
partial def digitsGo (n b acc : Nat) : Nat := if n < b then acc + 1 else digitsGo (n / b) b (acc + 1)
def digits (n b : Nat) : Nat := if b < 2 then 0 else digitsGo n b 0

def verdict (ok : Bool) (model : String) (line : String) : String :=
  if ok then "OK" else s!"DIFF kind=BOTH model={model} | {line.trimAscii.toString}"

def integerXLine (line : String) : String :=
  match splitLine line with
  | none => "BAD empty"
  | some (key, args, res) =>
    if res == ["EXC"] || res == ["NOFUNC"] then s!"DIFF kind=BOTH model=value | {line.trimAscii.toString}" else
    match key, args, res with
    | "cd", [r, side, a, bits], [out] | "cf", [r, side, a, bits], [out] =>
      match parseRel r, parseHexInt a, parseHexNat bits, parseHexNat out with
      | some rel, some a, some b, some o =>
        let d := if key == "cd" then decode64 b else decode32 b
        let m := if side == "L" then opMember rel a d else opFree rel d a
        match m with
        | none => "PRE"
        | some v => verdict ((o != 0) == v) (if v then "1" else "0") line
      | _, _, _, _ => "BAD args | " ++ line
    | "acd", [a, bits], [out] | "acf", [a, bits], [out] =>
      match parseHexInt a, parseHexNat bits, parseHexInt out with
      | some a, some b, some o =>
        match cmpAbsD a (if key == "acd" then decode64 b else decode32 b) with
        | none => "PRE"
        | some c => verdict (sgn o == c) (hexInt c) line
      | _, _, _ => "BAD args | " ++ line
    | "ctd", [bits], [out] | "asd", [bits], [out] | "zinit", [bits], [out] =>
      match parseHexNat bits, parseHexInt out with
      | some b, some o =>
        match ofFl (decode64 b) with
        | none => "PRE"
        | some z => verdict (z == o) (hexInt z) line
      | _, _ => "BAD args | " ++ line
    | "tod", [a], [out] =>
      match parseHexInt a, parseHexNat out with
      | some a, some b =>
        if a.natAbs.log2 ≥ 1023 then "PRE" else      -- beyond DBL_MAX: GMP documents the result as system dependent
        let (neg, mant, sh) := toDyTrunc a
        let want : Int := if neg then -(Int.ofNat mant) else Int.ofNat mant
        match decode64 b with
        | .fin m e =>
          -- m·2^e = want·2^sh  (both exponents made non-negative)
          let lhs := if 0 ≤ e then m * 2 ^ e.toNat else m
          let rhs := if 0 ≤ e then want * 2 ^ sh else want * 2 ^ (sh + (-e).toNat)
          verdict (lhs == rhs) s!"{hexInt want}*2^{sh}" line
        | _ => s!"DIFF kind=BOTH model=finite | {line.trimAscii.toString}"
      | _, _ => "BAD args | " ++ line
    | "fact", [n], [out] =>
      match parseHexNat n, parseHexNat out with
      | some n, some o => verdict (fact n == o) (hexNat (fact n)) line
      | _, _ => "BAD args | " ++ line
    | "limb", [a, i], [out] =>
      match parseHexInt a, parseHexNat i, parseHexNat out with
      | some a, some i, some o => verdict (limbAt a i == o) (hexNat (limbAt a i)) line
      | _, _, _ => "BAD args | " ++ line
    | "len", [a], [out] =>
      match parseHexInt a, parseHexNat out with
      | some a, some o => verdict (length a == o) (hexNat (length a)) line
      | _, _ => "BAD args | " ++ line
    | "vec", [a], n :: ls =>
      match parseHexInt a, parseHexNat n, ls.mapM parseHexNat with
      | some a, some n, some ls =>
        let m := limbs a.natAbs
        verdict (n == m.length && ls == m) (String.intercalate " " (m.map hexNat)) line
      | _, _, _ => "BAD args | " ++ line
    | "ofvec", ls, [out] =>
      match ls.mapM parseHexNat, parseHexInt out with
      | some ls, some o => verdict (ofVector ls == o) (hexInt (ofVector ls)) line
      | _, _ => "BAD args | " ++ line
    | "sib", [a, b], [out] =>
      match parseHexInt a, parseHexInt b, parseHexNat out with
      | some a, some b, some o =>
        if b < 2 || b > 62 then "PRE" else
        let d := digits a.natAbs b.toNat
        -- exact for power-of-two bases; otherwise GMP documents "exact or 1 too big"
        let pow2 := b == 2 || b == 4 || b == 8 || b == 16 || b == 32
        verdict (o == d || (!pow2 && o == d + 1)) (hexNat d) line
      | _, _, _ => "BAD args | " ++ line
    | "ipp", [a], [out] =>
      match parseHexInt a, parseHexNat out with
      | some a, some o =>
        if a.natAbs.log2 > 400 then "PRE" else
        verdict ((o != 0) == isPerfectPower a) (if isPerfectPower a then "1" else "0") line
      | _, _ => "BAD args | " ++ line
    | "pp", [p, q], [out] =>
      match parseHexInt p, parseHexInt q, parseHexInt out with
      | some p, some q, some o =>
        if p == 0 then "PRE" else verdict (pp p q == o) (hexInt (pp p q)) line
      | _, _, _ => "BAD args | " ++ line
    | _, _, _ => "BAD line | " ++ line

end Driver.IntegerX
