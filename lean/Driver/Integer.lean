/- C01/C02 driver: evaluates the generated model and the specification checker on every line
   produced by harness/h_integer.cpp and reports disagreements. -/
import Driver.Common
import Driver.IntegerTable
import Driver.IntegerAliasTable
-- @driver-mode integer Driver.integerLine
-- @driver-mode integer_alias Driver.integerAliasLine
namespace Driver
open Givaro Givaro.Gen

def showRes (r : Res) : String :=
  if r.exc then "EXC" else String.intercalate " " ((r.ret :: r.outs).map hexInt)

/-- per line: "OK" | "PRE" (precondition false: not an admissible input) |
    "DIFF kind=… model=… | line" where kind ∈ {MODEL, SPEC, BOTH} | "BAD …" -/
def entryLine (entry : String → Array Int → Option (Bool × Res × (Res → Bool) × String)) (line : String) : String :=
  match splitLine line with
  | none => "BAD empty"
  | some (key, args, res) =>
    match parseAll args with
    | none => "BAD args | " ++ line
    | some a =>
      match entry key a.toArray with
      | none => "BAD nofunc | " ++ line
      | some (pre, model, chk, mode) =>
        if !pre then "PRE" else
        let impl : Option Res :=
          if res == ["EXC"] then some Res.thrown else
          match parseAll res with
          | some (r :: outs) => some ⟨r, outs, false⟩
          | _ => none
        match impl with
        | none => "BAD result | " ++ line
        | some ir =>
          let specOk := chk ir
          let modelSpecOk := chk model
          -- exact specifications determine the result: compare model and implementation directly;
          -- certificate-style specifications (Bezout cofactors, …): both must pass the checker
          let sg (x : Int) : Int := if x < 0 then -1 else if x = 0 then 0 else 1
          let modelOk :=
            if mode == "speconly" then true     -- body outside the translator's dialect: implementation vs specification only
            else if mode == "exact" then model == ir
            else if mode == "sign" then model.exc == ir.exc && model.outs == ir.outs && sg model.ret == sg ir.ret
            else if mode == "truthy" then model.exc == ir.exc && model.outs == ir.outs && ((model.ret == 0) == (ir.ret == 0))
            else modelSpecOk && specOk
          if specOk && modelOk then "OK"
          else
            let kind := if !specOk && !modelOk then "BOTH" else if !specOk then "SPEC" else "MODEL"
            s!"DIFF kind={kind} model={showRes model} modelMeetsSpec={modelSpecOk} | {line.trimAscii.toString}"

def integerLine (line : String) : String := entryLine integerEntry line
/-- C15: the same overloads called with aliased arguments; the model is the body re-executed with shared locations -/
def integerAliasLine (line : String) : String := entryLine integerAliasEntry line

end Driver
