/- C15 (ring / field / rational / polynomial interfaces, RecInt): verdict per line of harness/h_alias.cpp.
   `al <kind> <op> <pattern> <case> = <digest of the call on distinct objects> <digest of the aliased call>`:
   the specification IS "the two digests are equal"; `# al …` lines carry the readable values of a mismatch. -/
import Driver.Common
-- @driver-mode alias Driver.Alias.aliasLine
namespace Driver.Alias
open Driver

def aliasLine (line0 : String) : String :=
  let line := line0.trimAscii.toString
  if line.startsWith "#" then "PRE"
  else match splitLine line with
    | some ("al", [kind, op, pat, _cs], [e, g]) =>
      if kind.isEmpty || op.isEmpty || pat.isEmpty then "BAD empty field | " ++ line
      else match parseHexNat e, parseHexNat g with
        | some a, some b => if a == b then "OK" else "DIFF kind=SPEC aliased call differs from the call on distinct objects | " ++ line
        | _, _ => "BAD digest | " ++ line
    | _ => "BAD format | " ++ line

end Driver.Alias
